(* C18 — byte-level model of poulpy's serialisation (WriterTo / ReaderFrom).

   A stream is a list of bytes (list Z, every element read modulo 256).  A receiver is a record that holds
   the header fields and the byte buffer of the Rust object.  Readers are functions

       reader : bool (debug arithmetic) -> bool (partial reader) -> receiver -> bytes -> outcome * receiver * bytes

   that transcribe `read_from` AS IT IS TODAY: `usize` products of the header wrap (release) or panic
   (debug), `max_size` is committed unchecked, the wrappers of poulpy-core assign their scalar fields before
   the inner object has been read.  The `*_fixed` readers are the models of the proposed repairs
   (work/proposed_fixes/C18_*.diff).  No proofs in this file.

   Levels (no recursive object type is needed, the nesting depth of the Rust types is fixed):
     flat   VecZnx | ScalarZnx | MatZnx                                   (poulpy-hal)
     wobj   scalar fields ++ one flat body: GLWE, LWE, GGLWE, GGSW, switching / automorphism / tensor /
            LWE<->GLWE keys, GLWEPublicKey and all compressed forms       (poulpy-core)
     kseq   fields ++ u64 count ++ wobj*: GGLWEToGGSWKey(Compressed), BlindRotationKey(Compressed)
     cbk    CircuitBootstrappingKey = kseq ++ u64 count ++ (i64 key, wobj)* ++ kseq
     bdd    BDDKey = cbk ++ u8 tag ++ [wobj] ++ wobj                      (poulpy-bin-fhe)            *)
From PV Require Import Base.MachineInt.
Open Scope Z_scope.

Definition bytes := list Z.

(* ------------------------------------------------------------------------------------------------ *)
(* little-endian integers, explicit byte arithmetic                                                  *)

Fixpoint le_bytes (k : nat) (v : Z) : bytes :=
  match k with O => [] | S k' => (v mod 256) :: le_bytes k' (v / 256) end.

Fixpoint le_val (bs : bytes) : Z :=
  match bs with [] => 0 | b :: t => (b mod 256) + 256 * le_val t end.

(* `read_exact` of k bytes into a fresh local buffer (byteorder's read_u32 / read_u64 / read_u8) *)
Fixpoint take (k : nat) (s : bytes) : option (bytes * bytes) :=        (* = Some (firstn k s, skipn k s) iff k <= |s| *)
  match k with
  | O => Some ([], s)
  | S k' => match s with
            | [] => None
            | b :: t => match take k' t with Some (a, r) => Some (b :: a, r) | None => None end
            end
  end.

Definition rd (k : nat) (s : bytes) : option (Z * bytes) :=
  match take k s with Some (b, r) => Some (le_val b, r) | None => None end.

(* `reader.read_exact(&mut old[..k])` into memory that already holds `old` (k <= |old|).
   std::io::Cursor and &[u8] copy nothing when fewer than k bytes are left; the default `read_exact`
   of any other reader (partial = true) has copied the available prefix when it fails. *)
Definition rx (partial : bool) (k : nat) (old s : bytes) : bool * bytes * bytes :=
  match take k s with
  | Some (a, r) => (true, a ++ skipn k old, r)
  | None => (false, (if partial then s ++ skipn (length s) old else old), [])
  end.

(* ------------------------------------------------------------------------------------------------ *)
(* usize products: a * b * c * ... evaluated left to right on 64-bit words.
   Result: the wrapped value and whether some multiplication overflowed (debug: that one panics). *)

Definition mul_step (st : Z * bool) (f : Z) : Z * bool :=
  let p := fst st * f in (wrapu 64 p, snd st || (2 ^ 64 <=? p)).

Definition chain (fs : list Z) : Z * bool :=
  match fs with [] => (1, false) | a :: t => fold_left mul_step t (a, false) end.

(* exact product, for the invariants *)
Definition lprod (fs : list Z) : Z := fold_right Z.mul 1 fs.

(* ------------------------------------------------------------------------------------------------ *)
Inductive outcome := Ok | OkWrapped | Err | PanicOverflow | PanicOob | AbortAlloc.
(* OkWrapped: Ok returned although a header multiplication overflowed (only the wrapped value matched):
   the "wrapped acceptance" of the release build.  The implementation cannot tell it from Ok.
   AbortAlloc: `vec![[0u8; 32]; seed_len]` with a count taken from the stream asks for more memory than the
   process can get: handle_alloc_error aborts the process (not even a panic). *)

(* Largest single allocation the environment grants.  Every real system has such a bound (here: 62 GiB of RAM,
   no swap; the unchecked count reaches 2^32 - 1 seeds = 128 GiB).  The harness installs an allocator that
   refuses requests above this value while read_from runs, so that the outcome does not depend on the machine. *)
Definition alloc_limit : Z := 131072.

Definition outcome_code (o : outcome) : Z :=
  match o with Ok | OkWrapped => 0 | Err => 1 | _ => 2 end.
Definition is_ok (o : outcome) : bool := match o with Ok | OkWrapped => true | _ => false end.
Definition is_panic (o : outcome) : bool := match o with PanicOverflow | PanicOob | AbortAlloc => true | _ => false end.
(* outcome of `a?; b` when a succeeded *)
Definition seq_oc (a b : outcome) : outcome :=
  match a with Ok => b | OkWrapped => (match b with Ok => OkWrapped | _ => b end) | _ => a end.

(* ------------------------------------------------------------------------------------------------ *)
(* level 0: VecZnx / ScalarZnx / MatZnx                                                              *)

Inductive lkind := KVec | KSca | KMat.
Definition lkind_eqb (a b : lkind) : bool :=
  match a, b with KVec, KVec | KSca, KSca | KMat, KMat => true | _, _ => false end.

(* header in wire order: VecZnx [n; cols; size; max_size], ScalarZnx [n; cols], MatZnx [n; size; rows; cols_in; cols_out] *)
Record flat := { fk : lkind; fh : list Z; fd : bytes }.

Definition nhdr (k : lkind) : nat := match k with KVec => 4 | KSca => 2 | KMat => 5 end%nat.
Definition hd_ (h : list Z) (i : nat) : Z := nth i h 0.

(* factors of `expected_len` in the order of the source text of read_from *)
Definition factors (k : lkind) (h : list Z) : list Z :=
  match k with
  | KVec => [hd_ h 0; hd_ h 1; hd_ h 2; 8]                      (* new_n * new_cols * new_size * 8 *)
  | KSca => [hd_ h 0; hd_ h 1; 8]                               (* new_n * new_cols * 8 *)
  | KMat => [hd_ h 2; hd_ h 3; hd_ h 0; hd_ h 4; hd_ h 1; 8]    (* rows * cols_in * n * cols_out * size * 8 *)
  end.

(* factors whose product the buffer has to hold for the header to be usable: max_size instead of size *)
Definition cap_factors (k : lkind) (h : list Z) : list Z :=
  match k with
  | KVec => [hd_ h 0; hd_ h 1; hd_ h 3; 8]
  | _ => factors k h
  end.

(* the product write_to computes: MatZnx::bytes_of = rows * cols_in * (n * cols_out * size * 8) *)
Definition wchain (k : lkind) (h : list Z) : Z * bool :=
  match k with
  | KMat => let a := chain [hd_ h 2; hd_ h 3] in
            let b := chain [hd_ h 0; hd_ h 4; hd_ h 1; 8] in
            let p := fst a * fst b in
            (wrapu 64 p, snd a || snd b || (2 ^ 64 <=? p))
  | _ => chain (factors k h)
  end.

Fixpoint rd_fields (k : nat) (s : bytes) : option (list Z * bytes) :=
  match k with
  | O => Some ([], s)
  | S k' => match rd 8 s with
            | None => None
            | Some (v, s') => match rd_fields k' s' with
                              | None => None
                              | Some (l, s'') => Some (v :: l, s'')
                              end
            end
  end.

Definition blen (d : bytes) : Z := Z.of_nat (length d).

(* read_from of vec_znx.rs / scalar_znx.rs / mat_znx.rs, as it is *)
Definition read_flat (dbg partial : bool) (r : flat) (s : bytes) : outcome * flat * bytes :=
  match rd_fields (nhdr (fk r)) s with
  | None => (Err, r, [])
  | Some (h, s1) =>
    match rd 8 s1 with
    | None => (Err, r, [])
    | Some (len, s2) =>
      let e := chain (factors (fk r) h) in
      if snd e && dbg then (PanicOverflow, r, [])
      else if negb (fst e =? len) then (Err, r, [])
      else if blen (fd r) <? len then (Err, r, [])
      else if negb (Z.to_nat len <=? length (fd r))%nat then (PanicOob, r, [])       (* &mut buf[..len] *)
      else
        let '(ok, d', s3) := rx partial (Z.to_nat len) (fd r) s2 in
        if ok then ((if snd e then OkWrapped else Ok), {| fk := fk r; fh := h; fd := d' |}, s3)
        else (Err, {| fk := fk r; fh := fh r; fd := d' |}, [])
    end
  end.

(* proposed repair (work/proposed_fixes/C18_hal_read_from_checked.diff):
     limb_bytes = n.checked_mul(cols)?.checked_mul(8)?   (ScalarZnx: that is the length; MatZnx: the chain in source order)
     expected   = limb_bytes.checked_mul(size)?          -> InvalidData on overflow
     VecZnx: reject max_size < size; commit max_size.min(capacity) where capacity = buf.len() / limb_bytes *)
Definition fixed_factors (k : lkind) (h : list Z) : list Z :=
  match k with
  | KVec => [hd_ h 0; hd_ h 1; 8; hd_ h 2]
  | _ => factors k h
  end.

Definition set_nth (i : nat) (v : Z) (l : list Z) : list Z := firstn i l ++ v :: skipn (S i) l.

Definition clamp_hdr (k : lkind) (h : list Z) (cap_bytes : Z) : list Z :=
  match k with
  | KVec => let lb := hd_ h 0 * hd_ h 1 * 8 in
            let cap := if lb =? 0 then hd_ h 3 else cap_bytes / lb in
            set_nth 3 (Z.min (hd_ h 3) cap) h
  | _ => h
  end.

Definition read_flat_fixed (dbg partial : bool) (r : flat) (s : bytes) : outcome * flat * bytes :=
  match rd_fields (nhdr (fk r)) s with
  | None => (Err, r, [])
  | Some (h, s1) =>
    match rd 8 s1 with
    | None => (Err, r, [])
    | Some (len, s2) =>
      let e := chain (fixed_factors (fk r) h) in
      if snd e then (Err, r, [])
      else if negb (fst e =? len) then (Err, r, [])
      else if lkind_eqb (fk r) KVec && (hd_ h 3 <? hd_ h 2) then (Err, r, [])
      else if blen (fd r) <? len then (Err, r, [])
      else if negb (Z.to_nat len <=? length (fd r))%nat then (PanicOob, r, [])
      else
        let '(ok, d', s3) := rx partial (Z.to_nat len) (fd r) s2 in
        if ok then (Ok, {| fk := fk r; fh := clamp_hdr (fk r) h (blen (fd r)); fd := d' |}, s3)
        else (Err, {| fk := fk r; fh := fh r; fd := d' |}, [])
    end
  end.

(* write_to: the header words, then (if the buffer is long enough) the length and the active bytes.
   Faithful version with outcome: the words written before a failure stay in the writer. *)
Definition hdr_bytes (h : list Z) : bytes := concat (map (le_bytes 8) h).

Definition write_flat_o (dbg : bool) (r : flat) : outcome * bytes :=
  let e := wchain (fk r) (fh r) in
  if snd e && dbg then (PanicOverflow, hdr_bytes (fh r))
  else if blen (fd r) <? fst e then (Err, hdr_bytes (fh r))
  else ((if snd e then OkWrapped else Ok),
        hdr_bytes (fh r) ++ le_bytes 8 (fst e) ++ firstn (Z.to_nat (fst e)) (fd r)).

(* the byte string of a well-formed object: a function of the header and of the active bytes only *)
Definition payload_len (r : flat) : Z := fst (wchain (fk r) (fh r)).
Definition active (r : flat) : bytes := firstn (Z.to_nat (payload_len r)) (fd r).
Definition write_flat (r : flat) : bytes := hdr_bytes (fh r) ++ le_bytes 8 (payload_len r) ++ active r.

(* the three Rust types, named *)
Record vec_znx := { vn : Z; vcols : Z; vsize : Z; vmax_size : Z; vdata : bytes }.
Record scalar_znx := { sn : Z; scols : Z; sdata : bytes }.
Record mat_znx := { mn : Z; msize : Z; mrows : Z; mcols_in : Z; mcols_out : Z; mdata : bytes }.

Definition flat_of_vec (v : vec_znx) : flat := {| fk := KVec; fh := [vn v; vcols v; vsize v; vmax_size v]; fd := vdata v |}.
Definition vec_of_flat (f : flat) : vec_znx :=
  {| vn := hd_ (fh f) 0; vcols := hd_ (fh f) 1; vsize := hd_ (fh f) 2; vmax_size := hd_ (fh f) 3; vdata := fd f |}.
Definition flat_of_scalar (v : scalar_znx) : flat := {| fk := KSca; fh := [sn v; scols v]; fd := sdata v |}.
Definition scalar_of_flat (f : flat) : scalar_znx := {| sn := hd_ (fh f) 0; scols := hd_ (fh f) 1; sdata := fd f |}.
Definition flat_of_mat (v : mat_znx) : flat :=
  {| fk := KMat; fh := [mn v; msize v; mrows v; mcols_in v; mcols_out v]; fd := mdata v |}.
Definition mat_of_flat (f : flat) : mat_znx :=
  {| mn := hd_ (fh f) 0; msize := hd_ (fh f) 1; mrows := hd_ (fh f) 2; mcols_in := hd_ (fh f) 3; mcols_out := hd_ (fh f) 4; mdata := fd f |}.

Definition write_vec_znx (v : vec_znx) : bytes := write_flat (flat_of_vec v).
Definition write_scalar_znx (v : scalar_znx) : bytes := write_flat (flat_of_scalar v).
Definition write_mat_znx (v : mat_znx) : bytes := write_flat (flat_of_mat v).

Definition lift_read {A} (rdf : flat -> bytes -> outcome * flat * bytes) (inj : A -> flat) (prj : flat -> A)
  (x : A) (s : bytes) : outcome * A * bytes :=
  let '(o, f, t) := rdf (inj x) s in (o, prj f, t).

Definition read_vec_znx (dbg partial : bool) := lift_read (read_flat dbg partial) flat_of_vec vec_of_flat.
Definition read_scalar_znx (dbg partial : bool) := lift_read (read_flat dbg partial) flat_of_scalar scalar_of_flat.
Definition read_mat_znx (dbg partial : bool) := lift_read (read_flat dbg partial) flat_of_mat mat_of_flat.
Definition read_vec_znx_fixed (dbg partial : bool) := lift_read (read_flat_fixed dbg partial) flat_of_vec vec_of_flat.
Definition read_scalar_znx_fixed (dbg partial : bool) := lift_read (read_flat_fixed dbg partial) flat_of_scalar scalar_of_flat.
Definition read_mat_znx_fixed (dbg partial : bool) := lift_read (read_flat_fixed dbg partial) flat_of_mat mat_of_flat.

(* ------------------------------------------------------------------------------------------------ *)
(* level 1: scalar fields of the poulpy-core wrappers                                                *)

(* `Distribution`: one u64 word, tag in the top byte.  The value is kept as (tag, payload):
   tags 0 2 4 (TernaryFixed / BinaryFixed / BinaryBlock): payload = the usize;
   tags 1 3   (TernaryProb / BinaryProb): payload = f64::to_bits;   tags 5 6 (ZERO / NONE): payload 0. *)
Definition dist_is_prob (t : Z) : bool := (t =? 1) || (t =? 3).
Definition dist_is_fixed (t : Z) : bool := (t =? 0) || (t =? 2) || (t =? 4).

Definition dist_word (t p : Z) : Z :=
  if dist_is_prob t then Z.lor (Z.shiftl t 56) (Z.shiftr p 8)          (* (tag << 56) | (bits >> 8) *)
  else if dist_is_fixed t then Z.lor (Z.shiftl t 56) p                  (* (tag << 56) | v   -- v is not masked *)
  else Z.shiftl t 56.

Definition dist_decode (w : Z) : option (Z * Z) :=
  let t := Z.shiftr w 56 in
  let p := Z.land w (Z.ones 56) in
  if dist_is_prob t then Some (t, Z.shiftl p 8)
  else if dist_is_fixed t then Some (t, p)
  else if (t =? 5) || (t =? 6) then Some (t, 0)
  else None.

(* proposed repair (C18_distribution_payload_checked.diff): write_to refuses (InvalidInput) a usize payload that does not
   fit the 56 bits below the tag instead of emitting a word that reads back as another variant *)
Definition dist_write_fixed (t p : Z) : option Z :=
  if dist_is_fixed t && (2 ^ 56 <=? p) then None else Some (dist_word t p).

Inductive fval :=
| VU32 (v : Z)                    (* Base2K, TorusPrecision, Rank, Dsize, Degree *)
| VU64 (v : Z)                    (* Galois element p: i64 written as u64 *)
| VSeed (b : bytes)               (* [u8; 32] *)
| VSeeds (l : list bytes)         (* u32 count, Vec<[u8; 32]> *)
| VDist (tag payload : Z).

(* roles: 1 base2k, 2 k, 3 rank, 4 dsize, 5 input_degree, 6 output_degree, 7 p, 8 seed, 9 seeds, 10 dist *)
Record field := { f_role : Z; f_val : fval }.

Definition zero_seed : bytes := repeat 0 32%nat.

Definition write_fval (f : fval) : bytes :=
  match f with
  | VU32 v => le_bytes 4 v
  | VU64 v => le_bytes 8 v
  | VSeed b => b
  | VSeeds l => le_bytes 4 (Z.of_nat (length l)) ++ concat l
  | VDist t p => le_bytes 8 (dist_word t p)
  end.
Definition write_fields (fs : list field) : bytes := concat (map (fun f => write_fval (f_val f)) fs).

(* `self.seed = vec![[0u8; 32]; cnt]; for s in &mut self.seed { reader.read_exact(s)?; }` *)
Fixpoint read_seeds (partial : bool) (cnt : nat) (s : bytes) : bool * list bytes * bytes :=
  match cnt with
  | O => (true, [], s)
  | S c => let '(ok, b, s') := rx partial 32 zero_seed s in
           if ok then let '(ok2, l, s'') := read_seeds partial c s' in (ok2, b :: l, s'')
           else (false, b :: repeat zero_seed c, [])
  end.

(* one field, AS IT IS: assigned to `self` as soon as it has been read.  Outcome: Ok | Err | AbortAlloc *)
Definition okb (b : bool) : outcome := if b then Ok else Err.

Definition read_fval (partial : bool) (f : fval) (s : bytes) : outcome * fval * bytes :=
  match f with
  | VU32 _ => match rd 4 s with Some (v, s') => (Ok, VU32 v, s') | None => (Err, f, []) end
  | VU64 _ => match rd 8 s with Some (v, s') => (Ok, VU64 v, s') | None => (Err, f, []) end
  | VSeed b => let '(ok, b', s') := rx partial 32 b s in (okb ok, VSeed b', s')
  | VSeeds _ => match rd 4 s with
                | None => (Err, f, [])
                | Some (cnt, s') =>
                  if alloc_limit <? 32 * cnt then (AbortAlloc, f, [])          (* vec![[0u8; 32]; cnt] *)
                  else let '(ok, l, s'') := read_seeds partial (Z.to_nat cnt) s' in (okb ok, VSeeds l, s'')
                end
  | VDist _ _ => match rd 8 s with
                 | None => (Err, f, [])
                 | Some (w, s') => match dist_decode w with
                                   | Some (t, p) => (Ok, VDist t p, s')
                                   | None => (Err, f, [])
                                   end
                 end
  end.

Fixpoint read_fields (partial : bool) (fs : list field) (s : bytes) : outcome * list field * bytes :=
  match fs with
  | [] => (Ok, [], s)
  | f :: t => let '(oc, v', s') := read_fval partial (f_val f) s in
              let f' := {| f_role := f_role f; f_val := v' |} in
              match oc with
              | Ok => let '(oc2, t', s'') := read_fields partial t s' in (oc2, f' :: t', s'')
              | _ => (oc, f' :: t, [])
              end
  end.

(* proposed repair: fields are parsed into temporaries (`self` untouched), seeds are collected one by
   one (no allocation from an unchecked count), base2k = 0 / dsize = 0 are rejected *)
Fixpoint parse_seeds (cnt : nat) (s : bytes) : option (list bytes * bytes) :=
  match cnt with
  | O => Some ([], s)
  | S c => match take 32 s with
           | None => None
           | Some (b, s') => match parse_seeds c s' with
                             | None => None
                             | Some (l, s'') => Some (b :: l, s'')
                             end
           end
  end.

Definition parse_fval (f : fval) (s : bytes) : option (fval * bytes) :=
  match f with
  | VU32 _ => match rd 4 s with Some (v, s') => Some (VU32 v, s') | None => None end
  | VU64 _ => match rd 8 s with Some (v, s') => Some (VU64 v, s') | None => None end
  | VSeed _ => match take 32 s with Some (b, s') => Some (VSeed b, s') | None => None end
  | VSeeds _ => match rd 4 s with
                | None => None
                | Some (cnt, s') =>
                  (* every seed must be present: 32 * cnt <= remaining bytes, checked before anything is built *)
                  if 32 * cnt <=? blen s' then
                    match parse_seeds (Z.to_nat cnt) s' with Some (l, s'') => Some (VSeeds l, s'') | None => None end
                  else None
                end
  | VDist _ _ => match rd 8 s with
                 | None => None
                 | Some (w, s') => match dist_decode w with Some (t, p) => Some (VDist t p, s') | None => None end
                 end
  end.

Fixpoint parse_fields (fs : list field) (s : bytes) : option (list field * bytes) :=
  match fs with
  | [] => Some ([], s)
  | f :: t => match parse_fval (f_val f) s with
              | None => None
              | Some (v', s') => match parse_fields t s' with
                                 | None => None
                                 | Some (t', s'') => Some ({| f_role := f_role f; f_val := v' |} :: t', s'')
                                 end
              end
  end.

Definition field_valid (f : field) : bool :=
  match f_val f with
  | VU32 v => negb (((f_role f =? 1) || (f_role f =? 4)) && (v =? 0))
  | _ => true
  end.
Definition fields_valid (fs : list field) : bool := forallb field_valid fs.

Record wobj := { w_fields : list field; w_body : flat }.

Definition flat_reader := bool -> bool -> flat -> bytes -> outcome * flat * bytes.

(* read_from of glwe.rs, lwe.rs, gglwe.rs, ggsw.rs, glwe_switching_key.rs, ... and compressed/*.rs, as they are:
   `self.base2k = Base2K(reader.read_u32()?); ...; self.data.read_from(reader)` *)
Definition read_wobj_with (rf : flat_reader) (dbg partial : bool) (w : wobj) (s : bytes) : outcome * wobj * bytes :=
  let '(o1, fs', s') := read_fields partial (w_fields w) s in
  match o1 with
  | Ok => let '(oc, b', s'') := rf dbg partial (w_body w) s' in
          (oc, {| w_fields := fs'; w_body := b' |}, s'')
  | _ => (o1, {| w_fields := fs'; w_body := w_body w |}, [])
  end.

(* proposed repair: temporaries, validation, inner read, commit only after the inner read succeeded *)
Definition read_wobj_fixed_with (rf : flat_reader) (dbg partial : bool) (w : wobj) (s : bytes) : outcome * wobj * bytes :=
  match parse_fields (w_fields w) s with
  | None => (Err, w, [])
  | Some (fs', s') =>
    if negb (fields_valid fs') then (Err, w, [])
    else let '(oc, b', s'') := rf dbg partial (w_body w) s' in
         match oc with
         | Ok => (Ok, {| w_fields := fs'; w_body := b' |}, s'')
         | _ => (oc, {| w_fields := w_fields w; w_body := b' |}, [])
         end
  end.

Definition write_wobj (w : wobj) : bytes := write_fields (w_fields w) ++ write_flat (w_body w).
Definition write_wobj_o (dbg : bool) (w : wobj) : outcome * bytes :=
  let '(oc, b) := write_flat_o dbg (w_body w) in (oc, write_fields (w_fields w) ++ b).

Definition wobj_reader := bool -> bool -> wobj -> bytes -> outcome * wobj * bytes.

(* ------------------------------------------------------------------------------------------------ *)
(* level 2: [fields] u64 count, keys in order (GGLWEToGGSWKey, BlindRotationKey and compressed forms) *)

Record kseq := { k_pre : list field; k_keys : list wobj }.

Fixpoint read_keys (rw : wobj -> bytes -> outcome * wobj * bytes) (ks : list wobj) (s : bytes)
  : outcome * list wobj * bytes :=
  match ks with
  | [] => (Ok, [], s)
  | k :: t => let '(oc, k', s') := rw k s in
              if is_ok oc then let '(oc2, t', s'') := read_keys rw t s' in (seq_oc oc oc2, k' :: t', s'')
              else (oc, k' :: t, [])
  end.

(* as it is: `self.dist = Distribution::read_from(reader)?; let len = read_u64()?; if self.keys.len() != len {Err}; for key ... key.read_from(reader)?` *)
Definition read_kseq_with (rw : wobj_reader) (dbg partial : bool) (k : kseq) (s : bytes) : outcome * kseq * bytes :=
  let '(o1, pre', s1) := read_fields partial (k_pre k) s in
  let k1 := {| k_pre := pre'; k_keys := k_keys k |} in
  if negb (is_ok o1) then (o1, k1, [])
  else match rd 8 s1 with
       | None => (Err, k1, [])
       | Some (len, s2) =>
         if negb (len =? Z.of_nat (length (k_keys k))) then (Err, k1, [])
         else let '(oc, ks', s3) := read_keys (rw dbg partial) (k_keys k) s2 in
              (oc, {| k_pre := pre'; k_keys := ks' |}, s3)
       end.

(* proposed repair: the fields in front are committed after every key has been read *)
Definition read_kseq_fixed_with (rw : wobj_reader) (dbg partial : bool) (k : kseq) (s : bytes) : outcome * kseq * bytes :=
  match parse_fields (k_pre k) s with
  | None => (Err, k, [])
  | Some (pre', s1) =>
    match rd 8 s1 with
    | None => (Err, k, [])
    | Some (len, s2) =>
      if negb (len =? Z.of_nat (length (k_keys k))) then (Err, k, [])
      else let '(oc, ks', s3) := read_keys (rw dbg partial) (k_keys k) s2 in
           match oc with
           | Ok => (Ok, {| k_pre := pre'; k_keys := ks' |}, s3)
           | _ => (oc, {| k_pre := k_pre k; k_keys := ks' |}, [])
           end
    end
  end.

Definition write_keys (ks : list wobj) : bytes := concat (map write_wobj ks).
Definition write_kseq (k : kseq) : bytes :=
  write_fields (k_pre k) ++ le_bytes 8 (Z.of_nat (length (k_keys k))) ++ write_keys (k_keys k).

Fixpoint write_keys_o (dbg : bool) (ks : list wobj) : outcome * bytes :=
  match ks with
  | [] => (Ok, [])
  | k :: t => let '(oc, b) := write_wobj_o dbg k in
              if is_ok oc then let '(oc2, b2) := write_keys_o dbg t in (seq_oc oc oc2, b ++ b2)
              else (oc, b)
  end.
Definition write_kseq_o (dbg : bool) (k : kseq) : outcome * bytes :=
  let '(oc, b) := write_keys_o dbg (k_keys k) in
  (oc, write_fields (k_pre k) ++ le_bytes 8 (Z.of_nat (length (k_keys k))) ++ b).

Definition kseq_reader := bool -> bool -> kseq -> bytes -> outcome * kseq * bytes.

(* ------------------------------------------------------------------------------------------------ *)
(* level 3: CircuitBootstrappingKey { brk, atk: HashMap<i64, GLWEAutomorphismKey>, tsk } and BDDKey  *)

Record cbk := { c_brk : kseq; c_atk : list (Z * wobj); c_tsk : kseq }.

(* `self.atk.get_mut(&gal_el)` then `atk.read_from(reader)`; None = key not present *)
Fixpoint upd_atk (rw : wobj -> bytes -> outcome * wobj * bytes) (g : Z) (atk : list (Z * wobj)) (s : bytes)
  : option (outcome * list (Z * wobj) * bytes) :=
  match atk with
  | [] => None
  | (g', w) :: t =>
    if g =? g' then let '(oc, w', s') := rw w s in Some (oc, (g', w') :: t, s')
    else match upd_atk rw g t s with
         | None => None
         | Some (oc, t', s') => Some (oc, (g', w) :: t', s')
         end
  end.

Fixpoint read_atk (rw : wobj -> bytes -> outcome * wobj * bytes) (cnt : nat) (atk : list (Z * wobj)) (s : bytes)
  : outcome * list (Z * wobj) * bytes :=
  match cnt with
  | O => (Ok, atk, s)
  | S c =>
    match rd 8 s with
    | None => (Err, atk, [])
    | Some (g, s1) =>
      match upd_atk rw (wrap 64 g) atk s1 with
      | None => (Err, atk, [])
      | Some (oc, atk', s2) =>
        if is_ok oc then let '(oc2, atk'', s3) := read_atk rw c atk' s2 in (seq_oc oc oc2, atk'', s3)
        else (oc, atk', [])
      end
    end
  end.

Definition read_cbk_with (rk : kseq_reader) (rw : wobj_reader) (dbg partial : bool) (c : cbk) (s : bytes)
  : outcome * cbk * bytes :=
  let '(o1, brk', s1) := rk dbg partial (c_brk c) s in
  let c1 := {| c_brk := brk'; c_atk := c_atk c; c_tsk := c_tsk c |} in
  if negb (is_ok o1) then (o1, c1, [])
  else match rd 8 s1 with
       | None => (Err, c1, [])
       | Some (n, s2) =>
         if negb (n =? Z.of_nat (length (c_atk c))) then (Err, c1, [])
         else let '(o2, atk', s3) := read_atk (rw dbg partial) (length (c_atk c)) (c_atk c) s2 in
              let c2 := {| c_brk := brk'; c_atk := atk'; c_tsk := c_tsk c |} in
              if negb (is_ok o2) then (o2, c2, [])
              else let '(o3, tsk', s4) := rk dbg partial (c_tsk c) s3 in
                   (seq_oc (seq_oc o1 o2) o3, {| c_brk := brk'; c_atk := atk'; c_tsk := tsk' |}, s4)
       end.

Fixpoint write_atk (atk : list (Z * wobj)) : bytes :=
  match atk with [] => [] | (g, w) :: t => le_bytes 8 (wrapu 64 g) ++ write_wobj w ++ write_atk t end.
Definition write_cbk (c : cbk) : bytes :=
  write_kseq (c_brk c) ++ le_bytes 8 (Z.of_nat (length (c_atk c))) ++ write_atk (c_atk c) ++ write_kseq (c_tsk c).

Fixpoint write_atk_o (dbg : bool) (atk : list (Z * wobj)) : outcome * bytes :=
  match atk with
  | [] => (Ok, [])
  | (g, w) :: t => let '(oc, b) := write_wobj_o dbg w in
                   if is_ok oc then let '(oc2, b2) := write_atk_o dbg t in (seq_oc oc oc2, le_bytes 8 (wrapu 64 g) ++ b ++ b2)
                   else (oc, le_bytes 8 (wrapu 64 g) ++ b)
  end.
Definition write_cbk_o (dbg : bool) (c : cbk) : outcome * bytes :=
  let '(o1, b1) := write_kseq_o dbg (c_brk c) in
  if negb (is_ok o1) then (o1, b1)
  else let '(o2, b2) := write_atk_o dbg (c_atk c) in
       let pre := b1 ++ le_bytes 8 (Z.of_nat (length (c_atk c))) ++ b2 in
       if negb (is_ok o2) then (o2, pre)
       else let '(o3, b3) := write_kseq_o dbg (c_tsk c) in (seq_oc (seq_oc o1 o2) o3, pre ++ b3).

Record bdd := { b_cbt : cbk; b_ksg : option wobj; b_ksl : wobj }.

Definition cbk_reader := bool -> bool -> cbk -> bytes -> outcome * cbk * bytes.

Definition read_bdd_with (rc : cbk_reader) (rw : wobj_reader) (dbg partial : bool) (b : bdd) (s : bytes)
  : outcome * bdd * bytes :=
  let '(o1, cbt', s1) := rc dbg partial (b_cbt b) s in
  let b1 := {| b_cbt := cbt'; b_ksg := b_ksg b; b_ksl := b_ksl b |} in
  if negb (is_ok o1) then (o1, b1, [])
  else match rd 1 s1 with
       | None => (Err, b1, [])
       | Some (tag, s2) =>
         let cont (o2 : outcome) (g : option wobj) (s3 : bytes) :=
           let b2 := {| b_cbt := cbt'; b_ksg := g; b_ksl := b_ksl b |} in
           if negb (is_ok o2) then (o2, b2, [])
           else let '(o3, l', s4) := rw dbg partial (b_ksl b) s3 in
                (seq_oc (seq_oc o1 o2) o3, {| b_cbt := cbt'; b_ksg := g; b_ksl := l' |}, s4) in
         if tag =? 0 then match b_ksg b with None => cont Ok None s2 | Some _ => (Err, b1, []) end
         else if tag =? 1 then
           match b_ksg b with
           | None => (Err, b1, [])
           | Some g => let '(o2, g', s3) := rw dbg partial g s2 in cont o2 (Some g') s3
           end
         else (Err, b1, [])
       end.

Definition write_bdd (b : bdd) : bytes :=
  write_cbk (b_cbt b) ++
  match b_ksg b with None => [0] | Some g => [1] ++ write_wobj g end ++ write_wobj (b_ksl b).

Definition write_bdd_o (dbg : bool) (b : bdd) : outcome * bytes :=
  let '(o1, b1) := write_cbk_o dbg (b_cbt b) in
  if negb (is_ok o1) then (o1, b1)
  else let '(o2, b2) := match b_ksg b with None => (Ok, [0]) | Some g => let '(o, x) := write_wobj_o dbg g in (o, [1] ++ x) end in
       if negb (is_ok o2) then (o2, b1 ++ b2)
       else let '(o3, b3) := write_wobj_o dbg (b_ksl b) in (seq_oc (seq_oc o1 o2) o3, b1 ++ b2 ++ b3).

(* ------------------------------------------------------------------------------------------------ *)
(* the code as it was before /repo 206cd69 / 0b16af7 / 6f8da98 / 1c0fa22 (kept: the refutations in Proofs/ speak about it) *)
Definition current_flat : flat_reader := read_flat.
Definition current_wobj : wobj_reader := read_wobj_with current_flat.
Definition current_kseq : kseq_reader := read_kseq_with current_wobj.
Definition current_cbk : cbk_reader := read_cbk_with current_kseq current_wobj.
Definition current_bdd := read_bdd_with current_cbk current_wobj.
Definition current_dist_writer (t p : Z) : option Z := Some (dist_word t p).

(* the repaired code (work/proposed_fixes/C18_*.diff, applied to /repo as 206cd69, 0b16af7, 6f8da98, 1c0fa22) *)
Definition fixed_flat : flat_reader := read_flat_fixed.
Definition fixed_wobj : wobj_reader := read_wobj_fixed_with fixed_flat.
Definition fixed_kseq : kseq_reader := read_kseq_fixed_with fixed_wobj.
Definition fixed_cbk : cbk_reader := read_cbk_with fixed_kseq fixed_wobj.
Definition fixed_bdd := read_bdd_with fixed_cbk fixed_wobj.

(* proposed repair of the composites (work/proposed_fixes/C18_composites_staged.diff): the stream is first read into
   copies of the sub-keys (through a recording reader); the receiver is only touched, by replaying the recorded
   bytes, when the whole bundle has been accepted.  The in-place reader is a function, so: *)
Definition staged {A : Type} (rd : A -> bytes -> outcome * A * bytes) (a : A) (s : bytes) : outcome * A * bytes :=
  let '(o, a', t) := rd a s in
  match o with Ok => (Ok, a', t) | _ => (o, a, []) end.
Definition staged_kseq : kseq_reader := fun dbg partial => staged (fixed_kseq dbg partial).
Definition staged_cbk : cbk_reader := fun dbg partial => staged (fixed_cbk dbg partial).
Definition staged_bdd := fun (dbg partial : bool) => staged (fixed_bdd dbg partial).

(* THE SWITCH: which model describes /repo (used by run_c18; C18_model_in_force in Props/C18.v names it).
   Since the four repairs are in /repo: the repaired readers and writer. *)
Definition reader_flat : flat_reader := fixed_flat.
Definition reader_wobj : wobj_reader := read_wobj_fixed_with reader_flat.
Definition reader_kseq : kseq_reader := read_kseq_fixed_with reader_wobj.   (* C18_composites_staged.diff: staged_kseq *)
Definition reader_cbk : cbk_reader := read_cbk_with reader_kseq reader_wobj.   (* C18_composites_staged.diff: staged_cbk *)
Definition reader_bdd := read_bdd_with reader_cbk reader_wobj.               (* C18_composites_staged.diff: staged_bdd *)
Definition dist_writer : Z -> Z -> option Z := dist_write_fixed.

(* ------------------------------------------------------------------------------------------------ *)
(* invariants and metadata (computable; the Prop versions are in Proofs/C18Flat.v)                   *)

(* header usable with the buffer: the limb count is within the capacity and every addressable byte exists *)
Definition inv_flatb (r : flat) : bool :=
  (length (fh r) =? nhdr (fk r))%nat &&
  (lprod (cap_factors (fk r) (fh r)) <=? blen (fd r)) &&
  (match fk r with KVec => hd_ (fh r) 2 <=? hd_ (fh r) 3 | _ => true end).
(* weaker: only the active part (size instead of max_size) *)
Definition inv_activeb (r : flat) : bool :=
  (length (fh r) =? nhdr (fk r))%nat && (lprod (factors (fk r) (fh r)) <=? blen (fd r)).
