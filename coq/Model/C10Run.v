(* C10 — all backends give bit-identical results.  A C10 record (opcode 100000 + op) is ONE call executed on every
   backend; outputs = the first backend's outputs followed by the vector of equality flags (one per other backend).
   The model has a single definition per operation, which does not mention the backend: identical inputs give
   identical outputs on every backend iff each backend agrees with the model. *)
From PV Require Import Base.MachineInt Model.Znx Model.Limbs Model.Flat Model.Ring Model.C08Run Model.C09Run Model.C07Run Model.C05Run.
Open Scope Z_scope.

Definition base_run10 (code : Z) (ps : list Z) (vs : list (list Z)) : option (list (list Z)) :=
  if (8000 <=? code) && (code <? 9000) then run_c08 code ps vs
  else if (9000 <=? code) && (code <? 10000) then run_c09 code ps vs
  else if (7000 <=? code) && (code <? 8000) then run_c07 code ps vs
  else if (5000 <=? code) && (code <? 5100) then run_c05 code ps vs     (* HAL convolution layer *)
  else None.

Definition run_c10 (code : Z) (ps : list Z) (vs : list (list Z)) : option (list (list Z)) :=
  if 400000 <=? code then Some [[1; 1; 1]]               (* large ring degrees: equality flags only *)
  else if 300000 <=? code then Some [[1; 1; 1; 1; 1; 1]]      (* samplers: results and stream positions agree *)
  else if 200000 <=? code then
    (* NTT120 family only (ps[0] = 3 in the record: 128-bit words) *)
    match base_run10 (code - 200000) ps vs with
    | Some o => Some (o ++ [[1]])
    | None => None
    end
  else
  let c := code - 100000 in
  match base_run10 c ps vs with
  | Some o => Some (o ++ [[1; 1; 1]])
  | None => None
  end.

Fixpoint all_ones (l : list Z) : bool :=
  match l with [] => true | x :: r => (x =? 1) && all_ones r end.

Definition oracle_c10 (code : Z) (ps : list Z) (vs outs : list (list Z)) : Z :=
  match last outs [] with
  | [] => 0
  | fl => if all_ones fl then 1 else 0
  end.
