(* L4 spec: value-level model of the key / GGSW ENCRYPTION routines, over exact products, with the mask and the error as inputs
   (DESIGN.md: randomness is an input).  Definitions only; proofs in Proofs/GadgetEnc.v.
   Transcribed at the VALUE level (torus values scaled by 2^P, i.e. modulo 2^P) from
     poulpy-core/src/encryption/glwe.rs   glwe_encrypt_sk_internal
     poulpy-core/src/encryption/gglwe.rs  gglwe_encrypt_sk   (plaintext src_ci in limb (dsize-1) + row*dsize, pt column 0)
     poulpy-core/src/encryption/ggsw.rs   ggsw_encrypt_sk    (plaintext m2 in the same limb, pt column col_j = the cell's column)
   glwe_encrypt_sk_internal(pt = Some(pt, col)):  ct[i] = a_i uniform (i >= 1);  c_i = a_i - pt if i = col else a_i (normalised);
   c0 = - sum_i normalise(c_i (x) s_{i-1}) + e (+ pt if col = 0);  ct[0] = normalise(c0).
   Every normalisation keeps the value modulo 1 on the torus (modulo 2^P here): that is C08's normalise value theorem, and it
   is the ONLY thing the body equations below take from the digit level; their 2^P-multiples are collected in J. *)
From PV Require Import Base.MachineInt Model.Znx Model.Limbs Model.Flat Model.Ring Model.Poly Model.DftAbs Model.Gadget Model.GadgetSpec.
Open Scope Z_scope.

Section Enc.
Variables (P b : Z) (n cols_out msize : nat) (K : pmat) (Sk : nat -> list Z).
(* value of column co of key cell q = (row, ci) *)
Definition kcol (q co : nat) : list Z := pval P b n (fun j => K q (j * cols_out + co)%nat) msize.
(* sum_{i<rank} val(a_{i+1}) (x) s_i *)
Definition kmask (rank q : nat) : list Z := psumf n (fun i => pmul (kcol q (S i)) (Sk (S i))) rank.
End Enc.

(* GGLWE (switching / automorphism / tensor keys): cell (row, ci) = glwe_encrypt_sk(pt = src_ci at limb (dsize-1)+row*dsize, col 0):
   val(ct[0]) = - sum_i val(a_i) (x) s_i + e + 2^(P-(row+1) dsize b) src_ci   (mod 2^P) *)
Definition enc_body_ok (P b : Z) (n cin rank msize dsize dnum : nat) (K : pmat) (Sk : nat -> list Z)
           (src : nat -> list Z) (e J : nat -> nat -> list Z) : Prop :=
  forall row ci, (row < dnum)%nat -> (ci < cin)%nat ->
    kcol P b n (S rank) msize K (row * cin + ci)%nat 0
    = padd (padd (padd (pneg (kmask P b n (S rank) msize K Sk rank (row * cin + ci)%nat)) (e row ci))
                 (pscale (2 ^ (P - (Z.of_nat row + 1) * Z.of_nat dsize * b)) (src ci)))
           (pscale (2 ^ P) (J row ci)).

(* GGSW: cell (row, col) = glwe_encrypt_sk_internal(pt = Some(m2 at limb (dsize-1)+row*dsize, col)):
   the product of mask column col uses (a_col - pt); the plaintext is added to the body only for col = 0 *)
Definition ggsw_body_ok (P b : Z) (n rank msize dsize dnum : nat) (K : pmat) (Sk : nat -> list Z)
           (m2 : list Z) (e J : nat -> nat -> list Z) : Prop :=
  forall row col, (row < dnum)%nat -> (col < S rank)%nat ->
    let q := (row * S rank + col)%nat in
    let pt := pscale (2 ^ (P - (Z.of_nat row + 1) * Z.of_nat dsize * b)) m2 in
    kcol P b n (S rank) msize K q 0
    = padd (padd (padd (pneg (psumf n (fun i => pmul (if Nat.eqb (S i) col then psub (kcol P b n (S rank) msize K q (S i)) pt
                                                      else kcol P b n (S rank) msize K q (S i)) (Sk (S i))) rank))
                       (e row col))
                 (if Nat.eqb col 0 then pt else pzero n))
           (pscale (2 ^ P) (J row col)).
