(* The packed index of the products s_i s_j (i <= j) of the secret tensor, as written twice in
   poulpy-core/src/layouts/glwe_secret_tensor.rs: by the producer glwe_secret_tensor_prepare and by the accessor
   GLWESecretTensor::at / at_mut that gglwe_to_ggsw_key_encrypt_sk (tensor key) reads.  Definitions only. *)
From PV Require Import Base.MachineInt.
Open Scope Z_scope.

(* producer: glwe_secret_tensor_prepare, loop `for i in 0..rank { for j in i..rank { idx = i*rank + j - i*(i+1)/2 } }` *)
Definition tensor_prod_idx (rank i j : nat) : nat := (i * rank + j - (i * (i + 1) / 2))%nat.
(* accessor: GLWESecretTensor::at(i, j) / at_mut: swap so that i <= j, then the same expression *)
Definition tensor_at_idx (rank i j : nat) : nat :=
  if Nat.ltb j i then (j * rank + i - (j * (j + 1) / 2))%nat else (i * rank + j - (i * (i + 1) / 2))%nat.
Definition tensor_pairs (rank : nat) : nat := (rank * (rank + 1) / 2)%nat.
(* the order in which the producer's double loop visits the pairs *)
Definition tensor_loop (rank : nat) : list (nat * nat) :=
  flat_map (fun i => map (fun j => (i, j)) (seq i (rank - i))) (seq 0 rank).


(* the transposed formula j (j+1)/2 + i (column-major packing): a different bijection; agrees with the producer up to rank 2 only *)
Definition tensor_at_idx_colmajor (i j : nat) : nat :=
  if Nat.ltb j i then (i * (i + 1) / 2 + j)%nat else (j * (j + 1) / 2 + i)%nat.
