(* C16 — direct oracles: the property statement evaluated on what the implementation returned, with spec-level
   notions only (the metadata invariant and an explicit error envelope); the transcribed model of C16Meta.v is used
   for nothing here except decoding the numeric program into operations.
   Result: 1 = holds, 0 = fails, 2 = no statement. *)
From PV Require Import Base.MachineInt Model.C16Meta.
Open Scope Z_scope.

Definition ob (b : bool) : Z := if b then 1 else 0.

(* ---- 16001: metadata stream.  Every step returned Ok or a typed error (never a panic, status 99), and every Ok
        leaves  log_delta + log_budget <= size * base2k  with both fields in the usize range they started from. ---- *)
Definition two63 : Z := 9223372036854775808.
Definition triple_ok (B l b s : Z) : bool :=
  (0 <=? l) && (0 <=? b) && (l <? two63) && (b <? two63) && (l + b <=? s * B).
Definition row_ok (B : Z) (r : list Z) : bool :=
  let st := nthz r 0 in
  (0 <=? st) && (st <=? 8) &&
  (negb (st =? 0) ||
   (triple_ok B (nthz r 1) (nthz r 2) (nthz r 3) &&
    (negb (Nat.eqb (length r) 7) || triple_ok B (nthz r 4) (nthz r 5) (nthz r 6)))).
Definition oracle_meta (ps : list Z) (vs outs : list (list Z)) : Z :=
  ob (Nat.eqb (length vs) (length outs) && forallb (row_ok (nthz ps 2)) outs).

(* ---- 16002: value stream.  rows [status; log_delta; log_budget; size; err; mag]
        err = floor(max slot error * 2^log_delta) against the shadow complex evaluation (-1: not measured),
        mag = ceil(max |shadow slot|) + 1 (0: the shadow value of the destination is undefined).

   Envelope (worst case, in units of 2^-log_delta of the value it is attached to; n = ring degree, S = limbs of
   the destination):
     fresh encryption            20 n                 (|e| <= 6 sigma = 19.2 per coefficient, n coefficients per slot)
     re-expressing a bound at a smaller log_delta divides it (rounded up), at a larger one multiplies it
     add/sub ct                  u_a + u_b + 2 n      (each operand is truncated once at the destination's last limb)
     +/- plaintext, neg, rescale, compaction, conjugate, rotate, x 2^k      u (x 2^k) + 2 n
         (key-switching noise is below one unit: the evaluation keys carry 2 limbs more than any ciphertext)
     product x * y               |y| u_x + |x| u_y + 1 + n (|x| + |y| + 2)
     product x * plaintext p     |p| u_x + n (|x| + |p| + 2),   |p| <= 2 (the harness draws plaintext slots in the unit square)
     decrypt + decode in f64     n (2 + mag * 2^max(0, log_delta - 50))       (added to every comparison)
   The float rounding of encode/decode is *measured*, not proved. *)
Record est := Est { eu : Z; el : Z; emag : Z }.       (* emag = 0: undefined *)
Definition evalid (e : est) : bool := 0 <? emag e.
Definition enone : est := Est 0 0 0.
Definition eget (st : list est) (i : nat) : est := nth i st enone.
Fixpoint eset (st : list est) (i : nat) (e : est) : list est :=
  match st, i with
  | [], _ => []
  | _ :: tl, O => e :: tl
  | x :: tl, S j => x :: eset tl j e
  end.

(* bound u given in units 2^-l, expressed in units 2^-l' *)
Definition rescale_u (u l l' : Z) : Z :=
  if l' <=? l then cdiv u (2 ^ (l - l')) else u * 2 ^ (l' - l).
Definition pmag : Z := 2.

(* envelope of the destination after a successful step; None = undefined / no statement *)
Definition envelope (n : Z) (o : op) (l' : Z) (d a b : est) : option Z :=
  let lin (x y : est) := if evalid x && evalid y then Some (rescale_u (eu x) (el x) l' + rescale_u (eu y) (el y) l' + 2 * n) else None in
  let un (x : est) := if evalid x then Some (rescale_u (eu x) (el x) l' + 2 * n) else None in
  let mulct (x y : est) :=
    if evalid x && evalid y then
      Some (emag y * rescale_u (eu x) (el x) l' + emag x * rescale_u (eu y) (el y) l' + 1 + n * (emag x + emag y + 2))
    else None in
  let mulpt (x : est) :=
    if evalid x then Some (pmag * rescale_u (eu x) (el x) l' + n * (emag x + pmag + 2)) else None in
  let acc (p : option Z) :=
    match p with
    | Some up => if evalid d then Some (up + rescale_u (eu d) (el d) l' + 2 * n) else None
    | None => None
    end in
  match o with
  | OAlloc _ | OSetMeta _ => None
  | OEncrypt _ _ => Some (20 * n)
  | OLinInto => lin a b
  | OLinAssign => lin d a
  | OPtZnxInto _ | OPtRnxInto _ | OCstZnxInto _ _ _ | OCstRnxInto _ _ | ONegInto | OConjInto | ORotateInto _
  | ORescaleInto _ | OCompactCopy | ODivPow2Into _ => un a
  | OPtZnxAssign _ | OPtRnxAssign _ | OCstZnxAssign _ _ _ | OCstRnxAssign _ _ | ONegAssign | OConjAssign
  | ORotateAssign _ | ORescaleAssign _ | OCompact | ORealloc _ | ODecrypt _ => un d
  | OMulInto => mulct a b
  | OMulAssign => mulct d a
  | OSquareInto => mulct a a
  | OSquareAssign => mulct d d
  | OMulPtZnxInto _ | OMulPtRnxInto _ | OMulCstZnxInto _ _ | OMulCstRnxInto _ _ => mulpt a
  | OMulPtZnxAssign _ | OMulPtRnxAssign _ | OMulCstZnxAssign _ _ | OMulCstRnxAssign _ _ => mulpt d
  | OMulAccCt => acc (mulct a b)
  | OMulAccPtZnx _ | OMulAccPtRnx _ => acc (mulpt a)
  | OMulAccCstZnx _ none | OMulAccCstRnx _ none => if none then un d else acc (mulpt a)
  | OMulPow2Into bits => if evalid a then Some (rescale_u (eu a) (el a) l' * 2 ^ bits + 2 * n) else None
  | OMulPow2Assign bits => if evalid d then Some (rescale_u (eu d) (el d) l' * 2 ^ bits + 2 * n) else None
  | ODivPow2Assign bits => if evalid d then Some (cdiv (rescale_u (eu d) (el d) l') (2 ^ bits) + 2 * n) else None
  end.

(* composites: the same rules folded over the register lists *)
Definition all_valid (l : list est) : bool := forallb evalid l.
Definition env_sum (n l' : Z) (l : list est) : Z :=
  fold_left (fun acc x => acc + rescale_u (eu x) (el x) l' + 2 * n) l 0.
(* product of the list, left to right: (bound, magnitude) *)
Definition env_prod (n l' : Z) (l : list est) : Z :=
  match l with
  | [] => 0
  | x :: tl =>
      fst (fold_left (fun (acc : Z * Z) y =>
             let '(u, m) := acc in
             (emag y * u + m * rescale_u (eu y) (el y) l' + 1 + n * (m + emag y + 2), m * emag y))
           tl (rescale_u (eu x) (el x) l', emag x))
  end.
Definition env_dot_ct (n l' : Z) (xs ys : list est) : Z :=
  fold_left (fun acc q =>
               let '(x, y) := q in
               acc + emag y * rescale_u (eu x) (el x) l' + emag x * rescale_u (eu y) (el y) l' + 1
                   + n * (emag x + emag y + 2) + 2 * n) (combine xs ys) 0.
Definition env_dot_pt (n l' : Z) (xs : list est) : Z :=
  fold_left (fun acc x => acc + pmag * rescale_u (eu x) (el x) l' + n * (emag x + pmag + 2) + 2 * n) xs 0.
Definition envelope_comp (n : Z) (c : comp) (l' : Z) (xs ys : list est) : option Z :=
  match xs with
  | [] => None
  | _ =>
    if negb (all_valid xs && all_valid ys) then None else
    Some (match c with
          | CAddMany => env_sum n l' xs
          | CMulMany => env_prod n l' xs
          | CDotCt => env_dot_ct n l' xs ys
          | _ => env_dot_pt n l' xs
          end)
  end.

Definition dec_slack (n l mag : Z) : Z := n * (2 + mag * 2 ^ (Z.max 0 (l - 50))).

(* walk the program; `bad` collects the indices of steps whose measured error exceeds the envelope *)
Fixpoint walk (n B : Z) (st : list est) (p : list dstep) (outs : list (list Z)) (ok : bool) : bool :=
  match p, outs with
  | DOp o d a b :: tl, r :: rtl =>
      let status := nthz r 0 in let l' := nthz r 1 in let err := nthz r 4 in let mag := nthz r 5 in
      let env := if (status =? 0) && (0 <? mag) then envelope n o l' (eget st d) (eget st a) (eget st b) else None in
      let good := match env with
                  | Some u => (err <? 0) || (err <=? u + dec_slack n l' mag)
                  | None => true
                  end in
      (* a rejected call that left the value alone (mag > 0) keeps the estimate *)
      let e' := match env with
                | Some u => Est u l' mag
                | None => if negb (status =? 0) && (0 <? mag) then eget st d else enone
                end in
      walk n B (eset st d e') tl rtl (ok && good)
  | DComp c d xs ys :: tl, r :: rtl =>
      let status := nthz r 0 in let l' := nthz r 1 in let err := nthz r 4 in let mag := nthz r 5 in
      let env := if (status =? 0) && (0 <? mag) then envelope_comp n c l' (map (eget st) xs) (map (eget st) ys) else None in
      let good := match env with
                  | Some u => (err <? 0) || (err <=? u + dec_slack n l' mag)
                  | None => true
                  end in
      let e' := match env with Some u => Est u l' mag | None => enone end in
      walk n B (eset st d e') tl rtl (ok && good)
  | DAlign d b :: tl, r :: rtl =>
      (* rescale of one of the two: both keep their value; errors grow by the truncation term *)
      let status := nthz r 0 in
      let bump (e : est) := if (status =? 0) && evalid e then Est (eu e + 2 * n) (el e) (emag e) else enone in
      walk n B (eset (eset st d (bump (eget st d))) b (bump (eget st b))) tl rtl ok
  | _, _ => ok
  end.

Definition oracle_value (ps : list Z) (vs outs : list (list Z)) : Z :=
  let n := 2 ^ nthz ps 1 in let B := nthz ps 2 in
  let p := map (decode B) vs in
  if existsb is_bad p then 2 else
  ob (walk n B (repeat enone nregs) p outs true).

(* ---- 16003: encode -> decode is the identity to within the element type's precision.
        output: max error in units of 2^-52 relative to max(1, |x|_max); envelope 2 * log2(n) + 4 ulps
        (log2 m butterfly levels each way, <= 1 ulp each; measured maximum 5 ulps at 4096 slots) ---- *)
Definition oracle_encdec (ps : list Z) (outs : list (list Z)) : Z :=
  let e := nthz (nth 0 outs []) 0 in
  ob ((0 <=? e) && (e <=? 2 * (nthz ps 0 + 1) + 4)).

Definition run_c16 (code : Z) (ps : list Z) (vs : list (list Z)) : option (list (list Z)) :=
  match code with
  | 16001 => run_prog_z ps vs
  | _ => None
  end.

Definition oracle_c16 (code : Z) (ps : list Z) (vs outs : list (list Z)) : Z :=
  match code with
  | 16001 => oracle_meta ps vs outs
  | 16002 => oracle_value ps vs outs
  | 16003 => oracle_encdec ps outs
  | _ => 2
  end.
