(* C05 part 2 — glwe_tensor_relinearize (poulpy-core/src/operations/glwe.rs, after the repair 5107ea7) on top of the gadget
   model of C03 (Model/Gadget.v: pre_normalize, gadget_product, add_small, big_normalize — imported, not re-modelled).

     a_dft_size = ceil(a.size * a_base2k / key_base2k)
     a_dft[i]   = DFT of tensor column cols+i (the s_i s_j columns), normalised to the key's radix first when the radices differ
     res_dft    = gglwe_product_dft(a_dft, tsk)                      (cols = rank+1 columns of tsk_size limbs)
     res_big[i] += tensor column i (i < cols; in the key's radix)     vec_znx_big_add_small_assign: min(tsk_size, a.size) limbs
     res[i]     = vec_znx_big_normalize(res_big[i])                   key radix -> result radix, res.size() limbs

   i.e. a key switch whose "body" is the whole (1, s) part of the tensor.  msize = tsk_size = size of the prepared key.
   None = the call panics.  No proofs in this file. *)
From PV Require Import Base.MachineInt Model.Znx Model.Limbs Model.LimbsBig Model.Flat Model.Ring Model.DftAbs Model.Gadget.
Open Scope Z_scope.

(* the big accumulator before the final normalisation *)
Definition relinearize_internal (n cols : nat) (T : cols_t) (a_size dsize dnum msize : nat) (m : pmat) : option cols_t :=
  match gadget_product n cols msize (zcols n cols msize) (skipn cols T) a_size dsize dnum msize true m with
  | Some big => Some (map2 add_small big (firstn cols T))
  | None => None
  end.

Definition glwe_relinearize (be : Z) (n : nat) (ab kb rb : Z) (rank a_size res_size dsize dnum msize : nat)
           (T : cols_t) (m : pmat) : option cols_t :=
  match pre_normalize n ab kb a_size T with
  | None => None
  | Some (Tc, asz) =>
    match relinearize_internal n (S rank) Tc asz dsize dnum msize m with
    | None => None
    | Some big => sequence (map (big_normalize (wbig be) n rb kb res_size) big)
    end
  end.
