(* Direct oracle for C01: the property statement evaluated on the IMPLEMENTATION's outputs with exact integer
   arithmetic and spec-level notions only (value of a limb vector on the torus `val_scaled`, distance on R/Z
   `tor_abs`, the exact negacyclic product).  Nothing of the encryption model is used.

   For every coefficient k, with P a common scaling exponent (all values are integers scaled by 2^P):
     phase_k = val(body_k) + sum_i val((s_i * a_i)_k)          exact, a_i = columns 1..rank of the implementation's ct
     m_k     = val(pt_k) read in the base2k DECLARED by the plaintext
     E_k     = e_k * 2^(P - (limb+1) b),  limb = ceil(nk / b) - 1   (the replayed sampler output placed at precision nk)
   the oracle holds iff for all k
     (a) |e_k| <= eb = ceil(bound * scale)                              the configured truncation bound
     (b) | phase_k - m_k - E_k |_T <= tail                               the error reaches the phase with coefficient 1
     (c) | val(dec_k) - m_k - E_k |_T <= 2^(P - dsize*db) + tail         one unit of the decrypted plaintext's last limb
   where tail = 0 when the plaintext given to encrypt is not more precise than the ciphertext (psize*pb <= size*b), and
   one unit of the ciphertext's last limb otherwise (limbs beyond the ciphertext are dropped by the size rule).
   (a) and (c) give the property's inequality |dec - m|_T <= ceil(bound*scale) * 2^-((limb+1) b) + unit, i.e. the
   bound at the encryption precision (rounded up to the grid of the target limb) plus one unit of the plaintext's last limb;
   (b) is the statement that the message sits at the position it was given.
   Public key: E_k is replaced by the exact (u*e_pk + e_0 + sum_i s_i*e_i)_k, and additionally
     |E_k| <= eb_pk * |u|_1 * 2^.. + eb * (1 + sum_i |s_i|_1) * 2^..  is checked (it follows from (a)). *)
From PV Require Import Base.MachineInt Model.Znx Model.Limbs Model.Flat Model.DftAbs Model.C08Oracle Model.EncModel Model.C01Run.
Open Scope Z_scope.

Definition zsum (l : list Z) : Z := fold_left Z.add l 0.
Definition norm1 (s : list Z) : Z := zsum (map Z.abs s).
Definition andb_all (l : list bool) : bool := forallb (fun x => x) l.
Definition spec_limb (nk b : Z) : Z := (nk + b - 1) / b - 1.

Definition oracle_glwe (ps : list Z) (vs : list (list Z)) (ct_flat dec_flat : list Z) : Z :=
  let n := np ps 1 in let b := p ps 2 in let size := np ps 3 in let rank := np ps 4 in let nk := p ps 5 in
  let psize := np ps 6 in let pb := p ps 7 in let dsize := np ps 8 in let db := p ps 9 in let eb := p ps 10 in
  let pt := to_ccol n psize (v vs 0) in
  let sk := chunks n rank (v vs 1) in
  let e := v vs 3 in
  let ct := to_cols n size (S rank) ct_flat in
  let dec := to_ccol n dsize dec_flat in
  let body := hd [] ct in
  let prods := map (fun q => svp (fst q) n size (snd q)) (combine sk (tl ct)) in
  let P := zn size * b + zn psize * pb + zn dsize * db + 8 in
  let sh := P - (spec_limb nk b + 1) * b in
  let tail := if zn psize * pb <=? zn size * b then 0 else 2 ^ (P - zn size * b) in
  if negb (Nat.eqb (length ct_flat) (n * size * S rank) && Nat.eqb (length dec_flat) (n * dsize)) then 0 else
  if (sh <? 0) then 2 else
  ob (andb_all (map (fun k =>
    let ph := val_scaled P b (coef body k) + zsum (map (fun pr => val_scaled P b (coef pr k)) prods) in
    let m := val_scaled P pb (coef pt k) in
    let ee := nthZ e k * 2 ^ sh in
    let d := val_scaled P db (coef dec k) in
    (Z.abs (nthZ e k) <=? eb) && (tor_abs P (ph - m - ee) <=? tail)
      && (tor_abs P (d - m - ee) <=? 2 ^ (P - zn dsize * db) + tail)) (seq 0 n))).

Definition oracle_lwe (ps : list Z) (vs : list (list Z)) (ct_flat dec : list Z) : Z :=
  let n := np ps 1 in let b := p ps 2 in let size := np ps 3 in let nk := p ps 5 in
  let psize := np ps 6 in let pb := p ps 7 in let dsize := np ps 8 in let db := p ps 9 in let eb := p ps 10 in
  let pt := v vs 0 in let s := v vs 1 in let e := nthZ (v vs 3) 0 in
  let limbs := chunks (S n) size ct_flat in
  let P := zn size * b + zn psize * pb + zn dsize * db + 8 in
  let sh := P - (spec_limb nk b + 1) * b in
  let tail := if zn psize * pb <=? zn size * b then 0 else 2 ^ (P - zn size * b) in
  if negb (Nat.eqb (length ct_flat) (S n * size) && Nat.eqb (length dec) dsize) then 0 else
  if (sh <? 0) then 2 else
  let ph := val_scaled P b (map (fun l => nthZ l 0 + lwe_dot (tl l) s) limbs) in
  let m := val_scaled P pb pt in
  let ee := e * 2 ^ sh in
  let d := val_scaled P db dec in
  ob ((Z.abs e <=? eb) && (tor_abs P (ph - m - ee) <=? tail) && (tor_abs P (d - m - ee) <=? 2 ^ (P - zn dsize * db) + tail)).

Definition oracle_pk (ps : list Z) (vs : list (list Z)) (ct_flat dec_flat : list Z) : Z :=
  let n := np ps 1 in let b := p ps 2 in let size := np ps 3 in let rank := np ps 4 in let nk := p ps 5 in
  let psize := np ps 6 in let pb := p ps 7 in let dsize := np ps 8 in let db := p ps 9 in let eb := p ps 10 in
  let nkp := p ps 13 in let ebp := p ps 14 in
  let pt := to_ccol n psize (v vs 0) in
  let sk := chunks n rank (v vs 1) in
  let epk := v vs 3 in let u := v vs 4 in let es := chunks n (S rank) (v vs 5) in
  let ct := to_cols n size (S rank) ct_flat in
  let dec := to_ccol n dsize dec_flat in
  let body := hd [] ct in
  let prods := map (fun q => svp (fst q) n size (snd q)) (combine sk (tl ct)) in
  let P := zn size * b + zn psize * pb + zn dsize * db + 8 in
  let sh := P - (spec_limb nk b + 1) * b in
  let shp := P - (spec_limb nkp b + 1) * b in
  let tail := if zn psize * pb <=? zn size * b then 0 else 2 ^ (P - zn size * b) in
  let uepk := pmul u epk in
  let ses := map (fun q => pmul (fst q) (snd q)) (combine sk (tl es)) in
  let e0 := hd [] es in
  let n1 := 1 + zsum (map norm1 sk) in
  if negb (Nat.eqb (length ct_flat) (n * size * S rank) && Nat.eqb (length dec_flat) (n * dsize)) then 0 else
  if (sh <? 0) || (shp <? 0) then 2 else
  ob (forallb (fun x => Z.abs x <=? ebp) epk && forallb (forallb (fun x => Z.abs x <=? eb)) es &&
      andb_all (map (fun k =>
    let ph := val_scaled P b (coef body k) + zsum (map (fun pr => val_scaled P b (coef pr k)) prods) in
    let m := val_scaled P pb (coef pt k) in
    let ee := nthZ uepk k * 2 ^ shp + (nthZ e0 k + zsum (map (fun q => nthZ q k) ses)) * 2 ^ sh in
    let d := val_scaled P db (coef dec k) in
    (Z.abs ee <=? ebp * norm1 u * 2 ^ shp + eb * n1 * 2 ^ sh)
      && (tor_abs P (ph - m - ee) <=? tail)
      && (tor_abs P (d - m - ee) <=? 2 ^ (P - zn dsize * db) + tail)) (seq 0 n))).

Definition oracle_c01 (code : Z) (ps : list Z) (vs outs : list (list Z)) : Z :=
  match code with
  | 1001 | 1005 => oracle_glwe ps vs (v outs 0) (v outs 1)
  | 1002 => oracle_lwe ps vs (v outs 0) (v outs 1)
  | 1003 => oracle_pk ps vs (v outs 1) (v outs 2)
  | 1004 => oracle_glwe ps vs (v outs 1) (v outs 2)
  | 1006 => ob (nthZ (v outs 0) 0 =? 1)   (* determinism: the ciphertext is a function of (plaintext, key, seeds) only *)
  | _ => 2
  end.
