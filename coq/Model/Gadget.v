(* L4 (shared by C03 and C04): the gadget product and what is built on it, over exact products.

   DFT-domain objects are the integer polynomials they denote (Model/DftAbs.v, validated bit for bit by C07);
   `VecZnxDft` / `VecZnxBig` with several columns = list of columns, a column = list of limbs (plimbs).
   Transcribed from
     poulpy-core/src/keyswitching/glwe.rs      gglwe_product_dft, glwe_keyswitch_internal, glwe_keyswitch(_assign)_default
     poulpy-core/src/external_product/glwe.rs  glwe_external_product_internal, glwe_external_product(_assign)_default
     poulpy-bin-fhe/src/bdd_arithmetic/eval.rs Cmux::cmux
   faithfully: both branches (dsize = 1 / digit-grouped), `a_size mod dsize <> 0`, the (step = dsize, offset = dsize-di-1)
   selection, `res.set_size(pmat.size - max(dsize-di-2, 0))`, limb_offset = di, fold-in with add_assign, the limbs of
   `res` that the first product does not write are zeroed by the (repaired) routines themselves: the prior content `res0`
   of the accumulator does not matter (acc_start).  None = the call panics.

   The second half of the file is spec level: value of a column on the torus as an integer scaled by 2^P,
   `phase s ct = ct[0] + sum ct[i+1] (x) s_i` exact, and the deterministic worst-case envelope of the gadget product. *)
From PV Require Import Base.MachineInt Model.Znx Model.Limbs Model.LimbsBig Model.Flat Model.Ring Model.Poly Model.DftAbs.
Open Scope Z_scope.

Definition cols_t := list plimbs.
Definition col (c : cols_t) (i : nat) : plimbs := nth i c [].
Definition zcols (n cols size : nat) : cols_t := repeat (repeat (pzero n) size) cols.

(* flat VecZnx (limb j of column i at n*(j*cols+i)) <-> columns of limbs *)
Definition cols_of_flat (n cols size : nat) (d : list Z) : cols_t := map (col_limbs n cols size d) (seq 0 cols).
Definition flat_of_cols (size : nat) (c : cols_t) : list Z :=
  concat (map (fun j => concat (map (fun cl => lim cl j) c)) (seq 0 size)).

Fixpoint chunks (fuel n : nat) (l : list Z) : list (list Z) :=
  match fuel with
  | O => []
  | S f => match l with [] => [] | _ => firstn n l :: chunks f n (skipn n l) end
  end.

(* prepared matrix (VmpPMat) as the coefficient-domain polynomials it was prepared from:
   m q c, q = row*cols_in + ci, c = limb*cols_out + co.  The harness dumps the GGLWE / GGSW before preparation in
   exactly this order: for q, for c : n coefficients. *)
Definition pmat := nat -> nat -> list Z.
Definition pmat_of_flat (n ncols : nat) (d : list Z) : pmat :=
  let ch := chunks (length d) n d in fun q c => nth (q * ncols + c) ch [].

(* vmp_apply_dft_to_dft on column lists: `a` has `length a` columns of asz active limbs *)
Definition vmp_cols (n rcols rsz : nat) (a : cols_t) (asz rows msize lo : nat) (m : pmat) : cols_t :=
  let acols := length a in
  let f := vmp n rcols rsz acols asz rows msize lo (fun q => lim (col a (q mod acols)) (q / acols)) m in
  map (fun co => mk rsz (fun j => f (j * rcols + co)%nat)) (seq 0 rcols).

(* one iteration `di` of the digit-grouped branch.
   clamp = true : gglwe_product_dft (ai_dft size bounded by dnum) ; false : glwe_external_product_internal *)
Definition gp_step (n cols_out R : nat) (a : cols_t) (a_size dsize dnum msize : nat) (clamp : bool) (m : pmat)
           (acc : option cols_t) (di : nat) : option cols_t :=
  match acc with
  | None => None
  | Some res =>
    let cnt := ((a_size + di) / dsize)%nat in
    let sz_a := if clamp then Nat.min cnt dnum else cnt in
    let drop := (dsize - di - 2)%nat in                       (* ((dsize - di) as isize - 2).max(0) *)
    if Nat.ltb msize drop then None else                      (* usize underflow / set_size assert *)
    let sz_r := (msize - drop)%nat in
    if Nat.ltb R sz_r then None else                          (* set_size: size <= max_size *)
    let ai := map (dft_select n sz_a dsize (dsize - di - 1)) a in
    let prod := vmp_cols n cols_out sz_r ai sz_a dnum msize di m in
    Some (if Nat.eqb di 0
          then map2 (fun p r0 => p ++ skipn sz_r r0) prod res      (* vmp overwrites limbs [0, sz_r), the rest is prior content *)
          else map2 (fun p r => dft_add_assign p r) prod res)      (* res[j] += tmp[j], j < sz_r *)
  end.

(* the digit loop started from the accumulator content `acc0` (cols_out columns of R limbs): dsize = 1 overwrites everything *)
Definition gadget_product_from (n cols_out R : nat) (acc0 : cols_t) (a : cols_t) (a_size dsize dnum msize : nat)
           (clamp : bool) (m : pmat) : option cols_t :=
  if Nat.eqb dsize 0 then None
  else if Nat.eqb dsize 1 then Some (vmp_cols n cols_out R a a_size dnum msize 0 m)
  else fold_left (gp_step n cols_out R a a_size dsize dnum msize clamp m) (seq 0 dsize) (Some acc0).

(* what the digit-grouped branch makes of the prior content res0 of the accumulator before it accumulates into it
   (repaired code): gglwe_product_dft calls res.zero() before the digit loop (all R limbs); glwe_external_product_internal
   zeroes, after the first product, the limbs [written, ggsw.size) that this product did not write: together with the
   overwrite of the limbs [0, written) the first msize limbs start from zero, limbs beyond msize (no caller has any) keep
   their content. *)
Definition acc_start (n cols_out R msize : nat) (clamp : bool) (res0 : cols_t) : cols_t :=
  if clamp then zcols n cols_out R
  else map (fun r0 => repeat (pzero n) (Nat.min msize (length r0)) ++ skipn msize r0) res0.

(* gglwe_product_dft (clamp = true) / the product part of glwe_external_product_internal (clamp = false).
   R = max_size (= current size on entry) of res, res0 = its prior content (cols_out columns of R limbs) *)
Definition gadget_product (n cols_out R : nat) (res0 : cols_t) (a : cols_t) (a_size dsize dnum msize : nat)
           (clamp : bool) (m : pmat) : option cols_t :=
  gadget_product_from n cols_out R (acc_start n cols_out R msize clamp res0) a a_size dsize dnum msize clamp m.

(* vec_znx_big_add_small_assign: limbs j < min(res.size, a.size) *)
Definition add_small (big small : plimbs) : plimbs :=
  mk (length big) (fun j => if Nat.ltb j (length small) then padd (lim big j) (lim small j) else lim big j).

(* glwe_keyswitch_internal: a = all rank_in+1 columns of the input (same radix as the key); result = VecZnxBig *)
Definition keyswitch_internal (n cols_out R : nat) (res0 : cols_t) (a : cols_t) (a_size dsize dnum msize : nat) (m : pmat)
  : option cols_t :=
  match gadget_product n cols_out R res0 (tl a) a_size dsize dnum msize true m with
  | Some (r0 :: rt) => Some (add_small r0 (col a 0) :: rt)
  | Some [] => Some []
  | None => None
  end.

(* the big normaliser of backend family wb (64: FFT64, Limbs.normalize ; 128: NTT120, LimbsBig.normalize_big) *)
Definition normalize_bigw (wb : Z) (rb ab off : Z) (a r0 : list Z) : option (list Z) :=
  if wb =? 128 then LimbsBig.normalize_big 128 rb ab off a r0 else normalize wb rb ab off a r0.

(* vec_znx_big_normalize (FFT64 accumulates in i64, NTT120 in i128; result limbs are i64) on one column *)
Definition wbig (be : Z) : Z := if be <=? 2 then 64 else 128.
Definition big_normalize (wb : Z) (n : nat) (rb ab : Z) (rsize : nat) (a : plimbs) : option plimbs :=
  lift_coeff (fun al r => match normalize_bigw wb rb ab 0 al r with Some o => Some (map (wrap 64) o) | None => None end)
             n rsize a (repeat (pzero n) rsize).
(* vec_znx_normalize on one column (fresh destination) *)
Definition small_normalize (n : nat) (rb ab : Z) (rsize : nat) (a : plimbs) : option plimbs :=
  lift_coeff (fun al r => normalize 64 rb ab 0 al r) n rsize a (repeat (pzero n) rsize).
(* glwe_normalize into a destination with base2k rb and rsize limbs *)
Definition glwe_normalize_cols (n : nat) (rb ab : Z) (rsize : nat) (a : cols_t) : option cols_t :=
  sequence (map (small_normalize n rb ab rsize) a).

(* GLWELayout { base2k: key.base2k, k: a.max_k() }.size() *)
Definition conv_size (a_size : nat) (ab kb : Z) : nat := Z.to_nat ((Z.of_nat a_size * ab + kb - 1) / kb).

(* cross-radix pre-normalisation shared by key-switch and external product *)
Definition pre_normalize (n : nat) (ab kb : Z) (a_size : nat) (a : cols_t) : option (cols_t * nat) :=
  if ab =? kb then Some (a, a_size)
  else match glwe_normalize_cols n kb ab (conv_size a_size ab kb) a with
       | Some c => Some (c, conv_size a_size ab kb)
       | None => None
       end.

(* glwe_keyswitch_default (glwe_keyswitch_assign_default is the same function of a := res) *)
Definition glwe_keyswitch (be : Z) (n : nat) (ab kb rb : Z) (rank_out a_size res_size dsize dnum msize : nat)
           (a : cols_t) (m : pmat) : option cols_t :=
  match pre_normalize n ab kb a_size a with
  | None => None
  | Some (ac, asz) =>
    match keyswitch_internal n (S rank_out) msize (zcols n (S rank_out) msize) ac asz dsize dnum msize m with
    | None => None
    | Some big => sequence (map (big_normalize (wbig be) n rb kb res_size) big)
    end
  end.

(* glwe_external_product_default / _assign_default *)
Definition glwe_external_product (be : Z) (n : nat) (ab gb rb : Z) (rank a_size res_size dsize dnum msize : nat)
           (a : cols_t) (m : pmat) : option cols_t :=
  match pre_normalize n ab gb a_size a with
  | None => None
  | Some (ac, asz) =>
    match gadget_product n (S rank) msize (zcols n (S rank) msize) ac asz dsize dnum msize false m with
    | None => None
    | Some big => sequence (map (big_normalize (wbig be) n rb gb res_size) big)
    end
  end.

(* vec_znx_sub on one column with the size rule of reference/vec_znx/sub.rs (res_size limbs written) *)
Definition col_sub (n rsize : nat) (a b : plimbs) : plimbs := dft_sub n rsize a b.

(* Cmux::cmux : res = (t - f) (x) s + f ; all three GLWE and the GGSW share one radix (asserted by the internal product);
   res0 = prior content of the un-zeroed res_dft taken from scratch *)
Definition cmux (be : Z) (n : nat) (b : Z) (rank res_size t_size f_size dsize dnum msize : nat) (res0 : cols_t)
           (t f : cols_t) (m : pmat) : option cols_t :=
  let d := map2 (col_sub n res_size) t f in
  match gadget_product n (S rank) msize res0 d res_size dsize dnum msize false m with
  | None => None
  | Some big => sequence (map (big_normalize (wbig be) n b b res_size) (map2 add_small big f))
  end.

(* ------------------------------------------------------------------------------------------------------------ *)
(* spec level *)

Definition pscale (c : Z) (a : list Z) : list Z := map (Z.mul c) a.
Definition psum_list (n : nat) (l : list (list Z)) : list Z := fold_left padd l (pzero n).

(* value of a column on the torus, times 2^P : sum_j limb_j * 2^(P - (j+1) b)   (P >= size * b) *)
Definition poly_val (P b : Z) (n : nat) (limbs : plimbs) : list Z :=
  fst (fold_left (fun (s : list Z * Z) l => (padd (fst s) (pscale (2 ^ (P - (snd s + 1) * b)) l), snd s + 1)) limbs (pzero n, 0)).

(* phase s ct = ct[0] + sum_i ct[i+1] (x) s_i, scaled by 2^P, exact (not reduced) *)
Definition phase_val (P b : Z) (n : nat) (sk : list (list Z)) (ct : cols_t) : list Z :=
  fold_left (fun acc p => padd acc (pmul (poly_val P b n (fst p)) (snd p))) (combine (tl ct) sk) (poly_val P b n (col ct 0)).

(* centred representative mod 2^P and sup norm *)
Definition center (P : Z) (a : list Z) : list Z := map (wrap P) a.
Definition pnorm (a : list Z) : Z := fold_left (fun m x => Z.max m (Z.abs x)) a 0.
Definition tor_norm (P : Z) (a : list Z) : Z := pnorm (center P a).

(* largest value of a group of dsize balanced digits: sum_{t<dsize} 2^(b-1) 2^(t b)  (<= 2^(dsize b)) *)
Definition digit_bound (b : Z) (dsize : nat) : Z :=
  fold_left (fun acc t => acc + 2 ^ (b - 1 + Z.of_nat t * b)) (seq 0 dsize) 0.

(* The deterministic worst-case envelope of one gadget product followed by one normalisation, scaled by 2^P.
   rows     = number of key rows that take part = min(ceil(a_size/dsize), dnum)
   cin      = number of input columns multiplied with the key (rank_in for a key-switch, rank+1 for an external product)
   Bkey     = bound on |e_r| * 2^P (sup norm of the error of one key row under the target key)
   S        = sup norm of the target secret (1 for ternary / binary keys)
   N        = ring degree, b = key radix, D = sup norm of the digits of the (pre-normalised) input (2^(b-1) when normalised)
   terms:
     gadget        rows * cin * N * Dgroup * Bkey,   Dgroup = D * sum_{t<dsize} 2^(t b)
     dropped tail  input limbs l >= dnum*dsize never meet a key row: cin * N * Ssrc * 2 D 2^(P - (dnum*dsize+1) b)  when a_size > dnum*dsize
                   (Ssrc = sup norm of what the rows encrypt: s_in for a key-switch, m2 (x) (1, s) for an external product)
     vmp limbs     for dsize >= 3 the product of digit di drops the last (dsize-di-2) limbs of the key row:
                   dsize^2 * rows * cin * N * (1 + rank_out N S) * D * 2^(b-1) * 2^(P - (msize - dsize + 1) b)
     body          add_small adds only min(msize, a_size) limbs of the body: 2 D 2^(P - (msize+1) b) when a_size > msize (key-switch only)
     rounding      final normalisation to res_size limbs of radix rb: (1 + rank_out N S) * 2^(P - res_size rb)  (one unit of the last limb per column) *)
Definition gadget_env (P : Z) (N : Z) (b : Z) (D : Z) (dsize dnum a_size msize : nat) (cin rank_out : Z) (S Ssrc Bkey : Z)
           (rb : Z) (res_size : nat) (body : bool) : Z :=
  let rows := Z.of_nat (Nat.min (ceil_div a_size dsize) dnum) in
  let dgroup := D * fold_left (fun acc t => acc + 2 ^ (Z.of_nat t * b)) (seq 0 dsize) 0 in
  let spread := 1 + rank_out * N * S in
  let gadget := rows * cin * N * dgroup * Bkey in
  let tail := if Nat.ltb (dnum * dsize) a_size
              then cin * N * Ssrc * 2 * D * 2 ^ (P - (Z.of_nat (dnum * dsize) + 1) * b) else 0 in
  let vmpdrop := if Nat.leb 3 dsize
              then Z.of_nat (dsize * dsize) * rows * cin * N * spread * D * 2 ^ (b - 1) * 2 ^ (P - (Z.of_nat msize - Z.of_nat dsize + 1) * b) else 0 in
  let bodyt := if body && Nat.ltb msize a_size then 2 * D * 2 ^ (P - (Z.of_nat msize + 1) * b) else 0 in
  let rounding := spread * 2 ^ (P - Z.of_nat res_size * rb) in
  gadget + tail + vmpdrop + bodyt + rounding.
