(* L4 spec: notions for the DERIVED operations of the key-switching / external-product families (automorphism, trace, packing,
   sample extraction, GGSW row expansion), at the phase level.  Definitions only; proofs in Proofs/GadgetSigma.v,
   GadgetDerived.v, GadgetShape.v. *)
From PV Require Import Base.MachineInt Model.Znx Model.Limbs Model.Flat Model.Ring Model.Poly Model.DftAbs Model.Gadget Model.GadgetSpec.
Open Scope Z_scope.

(* the EXACT Galois automorphism sigma_g : X -> X^g on Z[X]/(X^n+1): the index map of Poly.sigma, negation = Z.opp (no wrap).
   It coincides with Poly.sigma w g whenever every |coefficient| < 2^(w-1) (Proofs/GadgetSigma.sigmaE_sigma). *)
Definition sigmaE (g : Z) (a : list Z) : list Z :=
  let n := Z.of_nat (length a) in
  fold_left (fun r j =>
     let e := (Z.of_nat j * g) mod (2 * n) in
     if e <? n then upd r (Z.to_nat e) (nthZ a j) else upd r (Z.to_nat (e - n)) (- nthZ a j))
    (seq 0 (length a)) (zeros (length a)).

(* sum of f over the elements of a list of indices (e.g. a set of Galois elements) *)
Definition psum_over {X} (n : nat) (f : X -> list Z) (l : list X) : list Z := fold_left (fun acc x => padd acc (f x)) l (pzero n).

(* a step of a composed operation, at the phase level:  phase(out) = F(phase(in)) + err + 2^P I  with  |err| <= bound *)
Definition phase_step (P : Z) (n : nat) (F : list Z -> list Z) (bound : Z) (pin pout : list Z) : Prop :=
  exists err I, length err = n /\ length I = n /\ pout = padd (padd (F pin) err) (pscale (2 ^ P) I) /\ pnorm err <= bound.

(* the plaintext image of a key-switch input under (1, s_in): body + sum_ci mask_ci (x) s_in_ci, all a_size limbs *)
Definition phase_in_full (P b : Z) (n rin a_size : nat) (ct : cols_t) (s_in : nat -> list Z) : list Z :=
  padd (pval P b n (acol n ct 0) a_size)
       (psumf n (fun ci => pmul (pval P b n (acol n (tl ct) ci) a_size) (s_in ci)) rin).

(* an abstract binary merge tree: leaves = input ciphertexts (with their error bound), node = one pack_internal merge *)
Inductive mtree : Type := MLeaf (err : Z) | MNode (l r : mtree).
Fixpoint mdepth (t : mtree) : nat := match t with MLeaf _ => 0 | MNode l r => S (Nat.max (mdepth l) (mdepth r)) end.
(* the error recursion with equality: err' = err_a + err_b + lvl *)
Fixpoint merr (lvl : Z) (t : mtree) : Z := match t with MLeaf e => e | MNode l r => merr lvl l + merr lvl r + lvl end.
(* any error assignment satisfying the recursion as an inequality *)
Inductive merge_err (lvl : Z) : mtree -> Z -> Prop :=
| merge_leaf e x : x <= e -> merge_err lvl (MLeaf e) x
| merge_node l r xl xr x : merge_err lvl l xl -> merge_err lvl r xr -> x <= xl + xr + lvl -> merge_err lvl (MNode l r) x.
Fixpoint mleaves_le (e0 : Z) (t : mtree) : Prop := match t with MLeaf e => e <= e0 | MNode l r => mleaves_le e0 l /\ mleaves_le e0 r end.

(* glwe_pack: at the level with shift t the input sitting in slot s >= t is the `hi` operand: it moves to slot s - t and its content
   is multiplied by X^t.  State = (slot, accumulated shift). *)
Definition pack_step (st : nat * nat) (t : nat) : nat * nat := if Nat.leb t (fst st) then (fst st - t, snd st + t)%nat else st.
Definition pack_shifts (L : nat) : list nat := map (fun i => 2 ^ (L - 1 - i))%nat (seq 0 L).
Definition pack_pos (L s : nat) : nat * nat := fold_left pack_step (pack_shifts L) (s, 0%nat).
(* the streaming packer: the k-th input (arrival order) is the `hi` operand at level i iff bit i of k is set; shift 2^(L-1-i) *)
Definition packer_pos (L k : nat) : nat := fold_left (fun off i => if Nat.odd (k / 2 ^ i) then off + 2 ^ (L - 1 - i) else off)%nat (seq 0 L) 0%nat.
Fixpoint bitrev (L k : nat) : nat := match L with O => 0 | S L' => (k mod 2) * 2 ^ L' + bitrev L' (k / 2) end%nat.

(* one trace level without the halving: x + sigma_g x ; the levels in order *)
Definition Tg (g : Z) (x : list Z) : list Z := padd x (sigmaE g x).
Definition trace_op (gs : list Z) (x : list Z) : list Z := fold_left (fun y g => Tg g y) gs x.
(* the set of Galois elements generated: all products of sub-families of gs *)
Definition galois_span (gs : list Z) : list Z := fold_left (fun L g => L ++ map (Z.mul g) L) gs [1].
(* a run of the trace at the phase level: at each level  2 h = x + r + 2^P J  (rsh by one bit, |r| <= rho)  and
   y = h + sigma_g h + E + 2^P I  (automorphism_add: a key switch, |E| <= eps) *)
Inductive trace_rel (P : Z) (n : nat) (rho eps : Z) : list Z -> list Z -> list Z -> Prop :=
| trace_nil x : trace_rel P n rho eps [] x x
| trace_cons g gs x h r J E I y z :
    length h = n -> length r = n -> length J = n -> length E = n -> length I = n ->
    pscale 2 h = padd (padd x r) (pscale (2 ^ P) J) -> pnorm r <= rho ->
    y = padd (padd (Tg g h) E) (pscale (2 ^ P) I) -> pnorm E <= eps ->
    trace_rel P n rho eps gs y z -> trace_rel P n rho eps (g :: gs) x z.

(* the LWE inner product <a, s> over the first nl coefficients *)
Definition lwe_dot (a s : list Z) (nl : nat) : Z := fold_left (fun acc i => acc + nthZ a i * nthZ s i) (seq 0 nl) 0.

(* units of Z/2nZ *)
Definition unit2n (n : nat) (g : Z) : Prop := Z.gcd g (2 * Z.of_nat n) = 1.
