(* C05 — spec-level notions shared by the oracle (C05Oracle.v) and the theorems (Proofs/C05*.v, Props/C05.v):
   value of a limb vector on the torus as a scaled integer polynomial, phases, norms.  No proofs in this file. *)
From PV Require Import Base.MachineInt Model.Znx Model.Limbs Model.Ring Model.DftAbs Model.C05Cnv.
Open Scope Z_scope.

Definition pscale (c : Z) (q : list Z) : list Z := map (Z.mul c) q.
Definition norm1 (q : list Z) : Z := fold_left (fun acc x => acc + Z.abs x) q 0.
Definition norminf (q : list Z) : Z := fold_left (fun acc x => Z.max acc (Z.abs x)) q 0.

(* value of the limbs l_0 .. l_{m-1} of radix 2^b scaled by 2^Q:  sum_u l_u 2^(Q - (u+1) b)   (an integer polynomial when Q >= m b) *)
Definition pval (n : nat) (Q b : Z) (l : plimbs) : list Z :=
  psumf n (fun u => pscale (2 ^ (Q - (zn u + 1) * b)) (lim l u)) (length l).

(* sum of a list of polynomials *)
Definition plsum (n : nat) (l : list (list Z)) : list Z := fold_left padd l (pzero n).

(* phase of the columns `cols` under the key polynomials `key` (paired in order): sum_c val(col_c) * key_c *)
Definition phase (n : nat) (Q b : Z) (cols : list plimbs) (key : list (list Z)) : list Z :=
  plsum n (map (fun q => pmul (pval n Q b (fst q)) (snd q)) (combine cols key)).

(* index pairs (i, j), i <= j < cols, in the order of the tensor's columns *)
Definition tpairs (cols : nat) : list (nat * nat) :=
  flat_map (fun i => map (fun j => (i, j)) (seq i (cols - i))) (seq 0 cols).

(* (1, s_1 .. s_r) and the tensor key (s_i s_j)_{i <= j}, s_0 = 1 *)
Definition key1 (n : nat) (sk : list (list Z)) : list (list Z) := pconst n 1 :: sk.
Definition key2 (n : nat) (sk : list (list Z)) : list (list Z) :=
  let k := key1 n sk in map (fun q => pmul (nth (fst q) k []) (nth (snd q) k [])) (tpairs (length k)).
