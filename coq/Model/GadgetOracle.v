(* Record layout shared by the C03 and C04 harnesses (harness/src/ks_common.rs) and the spec-level pieces of their
   direct oracles: phases of implementation outputs under the exact secrets, the expected plaintext image, and the
   deterministic envelope (Model/Gadget.v, gadget_env).  All arithmetic exact, values scaled by 2^P. *)
From PV Require Import Base.MachineInt Model.Znx Model.Limbs Model.Flat Model.Ring Model.Poly Model.DftAbs Model.Gadget.
Open Scope Z_scope.

Definition p (ps : list Z) (i : nat) : Z := nth i ps 0.
Definition np (ps : list Z) (i : nat) : nat := Z.to_nat (p ps i).
Definition v (vs : list (list Z)) (i : nat) : list Z := nth i vs [].
Definition ob (b : bool) : Z := if b then 1 else 0.

(* header *)
Definition h_be ps := p ps 0.
Definition h_n ps := np ps 1.
Definition h_nobs ps := np ps 2.
Definition h_in_b ps := p ps 3.   Definition h_in_size ps := np ps 4.   Definition h_in_rank ps := np ps 5.
Definition h_out_b ps := p ps 6.  Definition h_out_size ps := np ps 7.  Definition h_out_rank ps := np ps 8.
Definition h_key_b ps := p ps 9.  Definition h_key_size ps := np ps 10. Definition h_key_rin ps := np ps 11.
Definition h_key_rout ps := np ps 12. Definition h_dsize ps := np ps 13. Definition h_dnum ps := np ps 14.
Definition h_key_k ps := p ps 15. Definition h_bound ps := p ps 16.
Definition x (ps : list Z) (i : nat) : Z := p ps (18 + i).
Definition nx (ps : list Z) (i : nat) : nat := Z.to_nat (x ps i).

(* observation i = i-th of the nobs trailing vectors of vs *)
Definition obs (ps : list Z) (vs : list (list Z)) (i : nat) : list Z := nth (length vs - h_nobs ps + i) vs [].
(* the inputs proper *)
Definition inputs (ps : list Z) (vs : list (list Z)) : list (list Z) := firstn (length vs - h_nobs ps) vs.

Definition polys (n : nat) (flat : list Z) : list (list Z) := chunks (length flat) n flat.
Definition maxl (l : list Z) : Z := fold_left Z.max l 0.

(* phase of a flat GLWE (rank+1 columns, size limbs of radix b) under the secret polynomials sk, scaled by 2^P *)
Definition phase_flat (P : Z) (n : nat) (b : Z) (size rank : nat) (sk : list (list Z)) (flat : list Z) : list Z :=
  phase_val P b n sk (cols_of_flat n (S rank) size flat).

(* i-th GLWE of a dump of consecutive GLWEs of the same shape *)
Definition nth_glwe (n size rank : nat) (flat : list Z) (i : nat) : list Z :=
  let len := (n * S rank * size)%nat in firstn len (skipn (i * len) flat).

(* inverse of an odd p modulo 2n by search *)
Definition ginv (n : nat) (g : Z) : Z :=
  let m := 2 * zn n in
  match find (fun t => ((zn t * g) mod m =? 1)) (seq 0 (2 * n)) with Some t => zn t | None => 0 end.

(* sigma_g on exact (unbounded) integers: the word width of Poly.sigma only matters for the negation *)
Definition sigmaZ (P : Z) (g : Z) (a : list Z) : list Z := sigma (P + 64) g a.
(* X^k * a on exact integers *)
Definition monoZ (P : Z) (k : Z) (a : list Z) : list Z := monomial_mul (P + 64) k a.
(* keep the coefficients whose index is a multiple of d (projection onto Z[X^d]) *)
Definition proj (d : nat) (a : list Z) : list Z :=
  map (fun q => if Nat.eqb (fst q mod d) 0 then snd q else 0) (combine (seq 0 (length a)) a).
(* keep coefficient idx only, moved to position 0 *)
Definition coeff0 (idx : nat) (a : list Z) : list Z := nthZ a idx :: zeros (length a - 1).
Definition only0 (a : list Z) : list Z := nthZ a 0 :: zeros (length a - 1).

(* largest digit magnitude of a flat buffer *)
Definition dmax (flat : list Z) : Z := pnorm flat.

(* common precision: the largest precision among the objects of the header, plus guard bits *)
Definition prec (ps : list Z) : Z :=
  Z.max (Z.max (zn (h_in_size ps) * h_in_b ps) (zn (h_out_size ps) * h_out_b ps)) (zn (h_key_size ps) * h_key_b ps) + 16.

(* envelope of ONE gadget product with the header's key applied to an input of isz limbs of radix ib whose
   digits are bounded by D when no pre-normalisation takes place (same radix; 2^(key_b-1) after a pre-normalisation),
   followed by one normalisation into osz limbs of radix ob.   cin: columns multiplied with the key ; S: sup norm of the
   target secret ; Ssrc: sup norm of what the key rows encrypt ; body: the body is added afterwards (key-switch) *)
Definition shape_env (ps : list Z) (P : Z) (D S Ssrc : Z) (cin : Z) (body : bool) (ib : Z) (isz : nat) (ob : Z) (osz : nat) : Z :=
  let same := ib =? h_key_b ps in
  let a_eff := if same then isz else conv_size isz ib (h_key_b ps) in
  let D' := if same then D else 2 ^ (h_key_b ps - 1) in
  gadget_env P (Z.of_nat (h_n ps)) (h_key_b ps) D' (h_dsize ps) (h_dnum ps) a_eff (h_key_size ps) cin (Z.of_nat (h_key_rout ps))
             S Ssrc (h_bound ps * 2 ^ (P - h_key_k ps)) ob osz body.
Definition header_env (ps : list Z) (P : Z) (D S Ssrc : Z) (cin : Z) (body : bool) : Z :=
  shape_env ps P D S Ssrc cin body (h_in_b ps) (h_in_size ps) (h_out_b ps) (h_out_size ps).

(* one rounding of every column of a GLWE with `rank` mask columns to `size` limbs of radix b *)
Definition round_env (P : Z) (n rank : nat) (S : Z) (b : Z) (size : nat) : Z :=
  (1 + zn rank * zn n * S) * 2 ^ (P - zn size * b).

(* key-row statement: row r, input column ci of the dumped key decrypts under sk_out to src_ci * 2^-((r+1) dsize b)
   with error at most eb (scaled by 2^P) *)
Definition keyrow_ok (P : Z) (n : nat) (b : Z) (msize rin rout dsize dnum : nat) (eb : Z)
           (src : list (list Z)) (sk_out : list (list Z)) (dump : list Z) : bool :=
  forallb (fun q =>
    let r := (q / rin)%nat in let ci := (q mod rin)%nat in
    let ct := nth_glwe n msize rout dump q in
    let ph := phase_flat P n b msize rout sk_out ct in
    let want := pscale (2 ^ (P - (zn r + 1) * zn dsize * b)) (nth ci src (pzero n)) in
    tor_norm P (psub ph want) <=? eb) (seq 0 (dnum * rin)).

(* LWE: flat = size limbs of (nl+1) words [b, a_1 .. a_nl]; phase = b + sum a_i s_i, scaled by 2^P *)
Definition lwe_phase (P b : Z) (nl : nat) (s : list Z) (flat : list Z) : Z :=
  fst (fold_left (fun (acc : Z * Z) l =>
         let body := nthZ l 0 in
         let dot := fold_left (fun t q => t + fst q * snd q) (combine (skipn 1 l) s) 0 in
         (fst acc + (body + dot) * 2 ^ (P - (snd acc + 1) * b), snd acc + 1))
       (chunks (length flat) (S nl) flat) (0, 0)).
(* the GLWE secret under which an LWE secret s (nl coefficients) is embedded: sigma_{-1}(s || 0) *)
Definition lwe_embed (P : Z) (n : nat) (s : list Z) : list Z := sigmaZ P (-1) (firstn n (s ++ zeros n)).
Definition zabs_wrap (P x : Z) : Z := Z.abs (wrap P x).

(* rows of a GGLWE->GGSW (tensor) key generated through the public API (header key = tensor key, rank = key_rout; observation i =
   dump of key i): key i, row r, input column j decrypts under s to s_i (x) s_j * 2^-((r+1) dsize b) with error at most bound 2^-k.
   This ties the accessor GLWESecretTensor::at(i, j) used by the key generator to the producer glwe_secret_tensor_prepare. *)
Definition tensor_rows_ok (ps : list Z) (vs : list (list Z)) : Z :=
  let n := h_n ps in let P := prec ps in let r := h_key_rout ps in
  let s := polys n (v vs 1) in
  ob (forallb (fun i =>
        keyrow_ok P n (h_key_b ps) (h_key_size ps) r r (h_dsize ps) (h_dnum ps) (h_bound ps * 2 ^ (P - h_key_k ps))
                  (map (pmul (nth i s (pzero n))) s) s (obs ps vs i)) (seq 0 r)).

