(* C07 — the record dispatcher that is extracted for the C07 check: C07's own records (7xxx, Model/C07Run.v) plus the
   HAL convolution layer (opcodes 5001..5004), whose model and exact-product oracle live in the C05 development
   (Model/C05Cnv.v, C05Run.v, C05Oracle.v) because the ciphertext tensor product is built on it.  C07's statement
   names the bivariate convolution "for mismatched sizes under the largest valid sub-shape rule", so the C07 check
   runs these records too.  (run_c07 itself is left untouched: Proofs/C11Dft.v unfolds it.) *)
From PV Require Import Base.MachineInt Model.C07Run Model.C05Run Model.C05Oracle.
Open Scope Z_scope.

Definition is_cnv (code : Z) : bool := (5000 <=? code) && (code <? 5100).

Definition run_c07_all (code : Z) (ps : list Z) (vs : list (list Z)) : option (list (list Z)) :=
  if is_cnv code then run_c05 code ps vs else run_c07 code ps vs.

Definition oracle_c07_all (code : Z) (ps : list Z) (vs outs : list (list Z)) : Z :=
  if is_cnv code then oracle_c05 code ps vs outs else oracle_c07 code ps vs outs.
