(* C12 - take trees of the modelled operations, transcribed BY HAND from the Rust sources (file:function named
   at each definition), with every byte size expressed through the GENERATED formulas of
   Gen/C12TmpBytes_gen.v (so the sizes follow /repo; the nesting is what is hand-written and is tied to
   the implementation by the exact-window runs of the harness).  No proofs in this file.

   fam = 0 FFT64 family, 1 NTT120 family; n = degree of the module. *)
From PV Require Import Base.MachineInt Model.C12Scratch Gen.C12TmpBytes_gen.
Open Scope Z_scope.

Definition nat_of (z : Z) : nat := Z.to_nat z.

(* callees that receive the scratch one after the other, each releasing its takes on return *)
Definition seq_scoped (l : list tree) : tree := fold_right (fun t acc => Seq (Scoped t) acc) Nop l.
Definition zrange (k : Z) : list Z := map Z.of_nat (seq 0 (nat_of k)).

(* ---------------------------------------------------------------------------------------------------- *)
(* HAL operations: what the callee does with the scratch it is handed
   (poulpy-cpu-ref/src/hal_defaults/{vec_znx,vec_znx_big,vec_znx_dft,vmp_pmat,convolution}.rs,
    poulpy-cpu-ref/src/hal_impl/family_common.rs) *)
Definition t_vec_znx_normalize (n : Z) : tree := take_words 8 (ref_vec_znx_normalize_tmp_bytes n).
Definition t_vec_znx_rsh (n : Z) : tree := take_words 8 (ref_vec_znx_rsh_tmp_bytes n).
Definition t_vec_znx_lsh (n : Z) : tree := take_words 8 (ref_vec_znx_lsh_tmp_bytes n).
Definition t_vec_znx_rotate_assign (n : Z) : tree := take_words 8 (ref_vec_znx_rotate_assign_tmp_bytes n).
Definition t_vec_znx_automorphism_assign (n : Z) : tree := take_words 8 (ref_vec_znx_automorphism_assign_tmp_bytes n).
Definition t_vec_znx_mul_xp_minus_one_assign (n : Z) : tree := take_words 8 (ref_vec_znx_mul_xp_minus_one_assign_tmp_bytes n).
Definition t_vec_znx_split_ring (n : Z) : tree := take_words 8 (ref_vec_znx_split_ring_tmp_bytes n).
Definition t_vec_znx_merge_rings (n : Z) : tree := take_words 8 (ref_vec_znx_merge_rings_tmp_bytes n).

Definition t_big_normalize (fam n : Z) : tree :=
  if fam =? 0 then take_words 8 (fft64_vec_znx_big_normalize_tmp_bytes n)
  else take_words 16 (ntt120_vec_znx_big_normalize_tmp_bytes n).
Definition t_big_automorphism_assign (fam n : Z) : tree :=
  if fam =? 0 then take_words 8 (fft64_vec_znx_big_automorphism_assign_tmp_bytes n)
  else take_words 16 (ntt120_vec_znx_big_automorphism_assign_tmp_bytes n).
Definition t_idft_apply (fam n : Z) : tree :=
  if fam =? 0 then Nop else take_words 8 (ntt120_vec_znx_idft_apply_tmp_bytes n).
Definition t_vmp_prepare (fam n : Z) : tree :=
  if fam =? 0 then take_words 8 (fft64_vmp_prepare_tmp_bytes n) else take_words 8 (ntt120_vmp_prepare_tmp_bytes n).
(* a_size = a.size(), rows = pmat.rows(), cols_in = pmat.cols_in() *)
Definition t_vmp_apply_dft_to_dft (fam a_size rows cols_in : Z) : tree :=
  if fam =? 0 then take_words 8 (fft64_vmp_apply_dft_to_dft_tmp_bytes a_size rows cols_in)
  else take_words 8 (ntt120_vmp_apply_dft_to_dft_tmp_bytes a_size rows cols_in).
(* hal_impl_family_common!: vmp_apply_dft *)
Definition t_vmp_apply_dft (fam n a_size rows cols_in : Z) : tree :=
  Seq (Take (hal_bytes_of_vec_znx_dft fam n cols_in (Z.min a_size rows)))
      (Scoped (t_vmp_apply_dft_to_dft fam (Z.min a_size rows) rows cols_in)).
(* convolution: rs = res.size(), a = a.size(), b = b.size() / b.len() *)
Definition t_cnv_prepare_left (fam n rs a : Z) : tree :=
  if fam =? 0 then Take (hal_bytes_of_vec_znx_dft fam n 1 (Z.min rs a)) else Take (ntt120_cnv_prepare_left_tmp_bytes n).
Definition t_cnv_prepare_right (fam n rs a : Z) : tree :=
  if fam =? 0 then Take (hal_bytes_of_vec_znx_dft fam n 1 (Z.min rs a)) else take_words 8 (ntt120_cnv_prepare_right_tmp_bytes n).
Definition t_cnv_prepare_self (fam n rs a : Z) : tree :=
  if fam =? 0 then Take (hal_bytes_of_vec_znx_dft fam n 1 (Z.min rs a)) else Take (ntt120_cnv_prepare_self_tmp_bytes n).
Definition t_cnv_apply_dft (fam rs a b : Z) : tree :=
  if fam =? 0 then take_words 8 (fft64_convolution_apply_dft_tmp_bytes rs a b) else Take (ntt120_cnv_apply_dft_tmp_bytes rs a b).
Definition t_cnv_by_const_apply (fam rs a b : Z) : tree :=
  if fam =? 0 then take_words 8 (fft64_convolution_by_const_apply_tmp_bytes rs a b) else Take (ntt120_cnv_by_const_apply_tmp_bytes 0 0 0).
Definition t_cnv_pairwise_apply_dft (fam rs a b : Z) : tree :=
  if fam =? 0 then take_words 8 (fft64_convolution_pairwise_apply_dft_tmp_bytes rs a b)
  else Take (ntt120_cnv_pairwise_apply_dft_tmp_bytes rs a b).

(* ---------------------------------------------------------------------------------------------------- *)
(* poulpy-core *)

(* encryption/lwe.rs: lwe_encrypt_sk; decryption/lwe.rs: lwe_decrypt_default *)
Definition tree_lwe_encrypt_sk (fam n : Z) (lwe : infos) : tree :=
  Seq (Need (lwe_encrypt_sk_tmp_bytes fam n lwe))
  (Seq (Take (VecZnx_bytes_of 1 1 (i_size lwe)))             (* take_vec_znx(1, 1, res.size()) *)
       (Scoped (t_vec_znx_normalize n))).                    (* vec_znx_normalize_assign(.., scratch_1) *)
Definition tree_lwe_decrypt (fam n : Z) (lwe : infos) : tree :=
  Seq (Need (lwe_decrypt_tmp_bytes fam n lwe))
  (Seq (Take (VecZnx_bytes_of 1 1 (i_size lwe)))             (* take_lwe_plaintext(res) *)
       (Scoped (t_vec_znx_normalize n))).                    (* vec_znx_normalize(.., scratch_1) *)

(* encryption/glwe.rs: glwe_encrypt_sk_internal.  with_pt_col: a plaintext is added on a column >= 1
   (then that iteration also runs vec_znx_normalize_assign on scratch_3) *)
Definition t_glwe_encrypt_sk_internal (fam n size cols : Z) (with_pt_col : bool) : tree :=
  Seq (Take (VecZnx_bytes_of n 1 size))                                       (* c0 *)
  (Seq (Scoped (Seq (Take (VecZnx_bytes_of n 1 size))                         (* ci *)
                    (Loop (nat_of (cols - 1))
                       (Seq (Take (hal_bytes_of_vec_znx_dft fam n 1 size))     (* ci_dft *)
                       (Seq (if with_pt_col then Scoped (t_vec_znx_normalize n) else Nop)
                            (Scoped (t_big_normalize fam n)))))))
       (Scoped (t_vec_znx_normalize n))).                                     (* vec_znx_normalize(ct, .., scratch_1) *)
Definition tree_glwe_encrypt_sk (fam n : Z) (glwe : infos) : tree :=
  Seq (Need (glwe_encrypt_sk_tmp_bytes fam n glwe))
      (t_glwe_encrypt_sk_internal fam n (i_size glwe) (i_rank glwe + 1) false).

(* encryption/glwe.rs: glwe_encrypt_pk_internal; size_pk = pk.size() *)
Definition tree_glwe_encrypt_pk (fam n : Z) (res : infos) (size_pk : Z) : tree :=
  Seq (Need (glwe_encrypt_pk_tmp_bytes fam n res))
  (Seq (Take (hal_bytes_of_svp_ppol fam n 1))                                 (* u_dft *)
  (Seq (Scoped (Take (ScalarZnx_bytes_of n 1)))                               (* u *)
       (Loop (nat_of (i_rank res + 1))
          (Seq (Take (hal_bytes_of_vec_znx_dft fam n 1 size_pk))              (* ci_dft *)
               (Scoped (t_big_normalize fam n)))))).

(* decryption/glwe.rs: glwe_decrypt_default *)
Definition tree_glwe_decrypt (fam n : Z) (glwe : infos) : tree :=
  Seq (Need (glwe_decrypt_tmp_bytes fam n glwe))
  (Seq (Take (hal_bytes_of_vec_znx_big fam n 1 (i_size glwe)))                (* c0_big *)
  (Seq (Loop (nat_of (i_rank glwe)) (Take (hal_bytes_of_vec_znx_dft fam n 1 (i_size glwe))))
       (Scoped (t_big_normalize fam n)))).

(* operations/glwe.rs: glwe_normalize, glwe_rsh / glwe_lsh*, glwe_rotate_assign *)
Definition t_glwe_normalize (fam n cols : Z) : tree :=
  Seq (Need (glwe_normalize_tmp_bytes fam n)) (Loop (nat_of cols) (t_vec_znx_normalize n)).
Definition tree_glwe_normalize (fam n : Z) (res : infos) : tree := t_glwe_normalize fam n (i_rank res + 1).
Definition tree_glwe_rsh (fam n : Z) (res : infos) : tree :=
  Seq (Need (glwe_shift_tmp_bytes fam n)) (Loop (nat_of (i_rank res + 1)) (t_vec_znx_rsh n)).
Definition tree_glwe_lsh (fam n : Z) (res : infos) : tree :=
  Seq (Need (glwe_shift_tmp_bytes fam n)) (Loop (nat_of (i_rank res + 1)) (t_vec_znx_lsh n)).
Definition tree_glwe_rotate_assign (fam n : Z) (res : infos) : tree :=
  Seq (Need (glwe_rotate_tmp_bytes fam n)) (Loop (nat_of (i_rank res + 1)) (t_vec_znx_rotate_assign n)).

(* keyswitching/glwe.rs: gglwe_product_dft(res, a, key, scratch); res_size = res.size(), a_cols = a.cols(),
   a_size = a.size(); pmat = key.data has dnum rows and rank_in input columns *)
Definition t_gglwe_product_dft (fam n res_size a_cols a_size : Z) (key : infos) : tree :=
  let dsize := i_dsize key in
  let dnum := i_dnum key in
  Seq (Need (gglwe_product_dft_tmp_bytes fam n res_size a_size key))
  (if dsize =? 1 then Scoped (t_vmp_apply_dft_to_dft fam a_size dnum (i_rank_in key))
   else
     Seq (Take (hal_bytes_of_vec_znx_dft fam n a_cols (Z.min (div_ceil a_size dsize) dnum)))      (* ai_dft *)
    (Seq (Take (hal_bytes_of_vec_znx_dft fam n (i_rank key + 1) (i_size key)))                  (* res_dft_tmp *)
         (seq_scoped (map (fun di => t_vmp_apply_dft_to_dft fam (Z.min ((a_size + di) / dsize) dnum) dnum (i_rank_in key))
                          (zrange dsize))))).

(* keyswitching/glwe.rs: glwe_keyswitch_internal(res_dft, a, key, scratch); the assert uses (key, a, key) *)
Definition t_glwe_keyswitch_internal (fam n : Z) (a key : infos) : tree :=
  Seq (Need (glwe_keyswitch_internal_tmp_bytes fam n key a key))
  (Seq (Take (hal_bytes_of_vec_znx_dft fam n (i_rank a) (i_size a)))                             (* a_dft *)
       (Scoped (t_gglwe_product_dft fam n (i_size key) (i_rank a) (i_size a) key))).

Definition conv_layout (a key : infos) : infos := mk_glwe_layout (i_n a) (i_base2k key) (i_max_k a) (i_rank a).
Definition t_take_glwe (l : infos) : tree := Take (VecZnx_bytes_of (i_n l) (i_rank l + 1) (i_size l)).

(* glwe_keyswitch_default / glwe_keyswitch_assign_default (a := res) *)
Definition tree_glwe_keyswitch (fam n : Z) (res a key : infos) : tree :=
  Seq (Need (glwe_keyswitch_tmp_bytes fam n res a key))
  (Seq (Take (hal_bytes_of_vec_znx_dft fam n (i_rank res + 1) (i_size key)))                     (* res_dft *)
  (Seq (Scoped (if negb (i_base2k a =? i_base2k key) then
                  Seq (t_take_glwe (conv_layout a key))                                          (* a_conv *)
                 (Seq (Scoped (t_glwe_normalize fam n (i_rank a + 1)))
                      (Scoped (t_glwe_keyswitch_internal fam n (conv_layout a key) key)))
                else Scoped (t_glwe_keyswitch_internal fam n a key)))
       (Loop (nat_of (i_rank res + 1)) (t_big_normalize fam n)))).                              (* on scratch_1 *)

(* external_product/glwe.rs: glwe_external_product_internal(res_dft, a, ggsw, scratch); assert uses (ggsw, a, ggsw) *)
Definition t_glwe_external_product_internal (fam n : Z) (a ggsw : infos) : tree :=
  let cols := i_rank ggsw + 1 in
  let dsize := i_dsize ggsw in
  let a_size := i_size a in
  Seq (Need (glwe_external_product_internal_tmp_bytes fam n ggsw a ggsw))
  (Seq (Take (hal_bytes_of_vec_znx_dft fam n cols (div_ceil a_size dsize)))                      (* a_dft *)
       (if dsize =? 1 then Scoped (t_vmp_apply_dft_to_dft fam a_size (i_dnum ggsw) cols)
        else Seq (Take (hal_bytes_of_vec_znx_dft fam n cols (i_size ggsw)))                      (* res_dft_tmp *)
                 (seq_scoped (map (fun di => t_vmp_apply_dft_to_dft fam ((a_size + di) / dsize) (i_dnum ggsw) cols)
                                  (zrange dsize))))).

Definition tree_glwe_external_product (fam n : Z) (res a ggsw : infos) : tree :=
  Seq (Need (glwe_external_product_tmp_bytes fam n res a ggsw))
  (Seq (Take (hal_bytes_of_vec_znx_dft fam n (i_rank res + 1) (i_size ggsw)))                    (* res_dft *)
  (Seq (Scoped (if negb (i_base2k a =? i_base2k ggsw) then
                  Seq (t_take_glwe (conv_layout a ggsw))
                 (Seq (Scoped (t_glwe_normalize fam n (i_rank a + 1)))
                      (Scoped (t_glwe_external_product_internal fam n (conv_layout a ggsw) ggsw)))
                else Scoped (t_glwe_external_product_internal fam n a ggsw)))
       (Loop (nat_of (i_rank res + 1)) (t_big_normalize fam n)))).

(* keyswitching/gglwe.rs: gglwe_keyswitch_default: glwe_keyswitch on every (row, col) of the matrix, same scratch *)
Definition tree_gglwe_keyswitch (fam n : Z) (res a key : infos) : tree :=
  Seq (Need (gglwe_keyswitch_tmp_bytes fam n res a key))
      (Loop (nat_of (i_dnum res * i_rank_in res)) (Scoped (tree_glwe_keyswitch fam n res a key))).
(* external_product/gglwe.rs, ggsw.rs: glwe_external_product on every (row, col) *)
Definition tree_gglwe_external_product (fam n : Z) (res a ggsw : infos) : tree :=
  Seq (Need (gglwe_external_product_tmp_bytes fam n res a ggsw))
      (Loop (nat_of (Z.min (i_dnum res) (i_dnum a) * i_rank_in res)) (Scoped (tree_glwe_external_product fam n res a ggsw))).
Definition tree_ggsw_external_product (fam n : Z) (res a ggsw : infos) : tree :=
  Seq (Need (ggsw_external_product_tmp_bytes fam n res a ggsw))
      (Loop (nat_of (Z.min (i_dnum res) (i_dnum a) * (i_rank res + 1))) (Scoped (tree_glwe_external_product fam n res a ggsw))).
(* layouts/prepared/gglwe.rs, ggsw.rs: gglwe_prepare / ggsw_prepare = vmp_prepare *)
Definition tree_gglwe_prepare (fam n : Z) (key : infos) : tree :=
  Seq (Need (gglwe_prepare_tmp_bytes fam n key)) (Scoped (t_vmp_prepare fam n)).
Definition tree_ggsw_prepare (fam n : Z) (ggsw : infos) : tree :=
  Seq (Need (ggsw_prepare_tmp_bytes fam n ggsw)) (Scoped (t_vmp_prepare fam n)).

(* automorphism/glwe_ct.rs: glwe_automorphism_default = glwe_keyswitch, then vec_znx_automorphism_assign per column *)
Definition tree_glwe_automorphism (fam n : Z) (res a key : infos) : tree :=
  Seq (Need (glwe_automorphism_tmp_bytes fam n res a key))
  (Seq (Scoped (tree_glwe_keyswitch fam n res a key))
       (Loop (nat_of (i_rank res + 1)) (t_vec_znx_automorphism_assign n))).

(* glwe_automorphism_add_default (and _sub, _sub_negate: same takes); the per-column work runs on scratch_2
   in the cross-radix branch *)
Definition tree_glwe_automorphism_add (fam n : Z) (res a key : infos) : tree :=
  let percol := Seq (Scoped (t_big_automorphism_assign fam n)) (Scoped (t_big_normalize fam n)) in
  Seq (Need (glwe_automorphism_tmp_bytes fam n res a key))
  (Seq (Take (hal_bytes_of_vec_znx_dft fam n (i_rank res + 1) (i_size key)))                     (* res_dft *)
       (if negb (i_base2k a =? i_base2k key) then
          Seq (t_take_glwe (conv_layout a key))
         (Seq (Scoped (t_glwe_normalize fam n (i_rank a + 1)))
         (Seq (Scoped (t_glwe_keyswitch_internal fam n (conv_layout a key) key))
              (Loop (nat_of (i_rank res + 1)) percol)))
        else
          Seq (Scoped (t_glwe_keyswitch_internal fam n a key))
              (Loop (nat_of (i_rank res + 1)) percol))).

(* glwe_trace.rs: glwe_trace_assign_default(res, skip, keys, scratch), same-radix branch (res.base2k = key.base2k):
   steps = log_n - skip iterations of glwe_rsh + glwe_automorphism_add_assign *)
Definition t_glwe_trace_assign_same (fam n : Z) (res key : infos) (steps : Z) : tree :=
  Seq (Need (glwe_trace_assign_same_radix_tmp_bytes fam n res key))
      (Loop (nat_of steps) (Seq (Scoped (tree_glwe_rsh fam n res)) (Scoped (tree_glwe_automorphism_add fam n res res key)))).

(* glwe_trace_assign_default in general: a cross-radix res is first re-normalised into a temporary of the key's radix *)
Definition tree_glwe_trace_assign (fam n : Z) (res key : infos) (steps : Z) : tree :=
  if negb (i_base2k res =? i_base2k key) then
    Seq (Need (glwe_trace_tmp_bytes fam n res res key))
   (Seq (t_take_glwe (conv_layout res key))
   (Seq (Scoped (t_glwe_normalize fam n (i_rank res + 1)))
   (Seq (Scoped (t_glwe_trace_assign_same fam n (conv_layout res key) key steps))
        (Scoped (t_glwe_normalize fam n (i_rank res + 1))))))
  else t_glwe_trace_assign_same fam n res key steps.

(* glwe_trace_default(res, skip, a, keys, scratch): tmp = take_glwe(key radix, k = max(a.max_k, res.max_k)),
   glwe_copy or glwe_normalize into it, glwe_trace_assign(tmp), glwe_copy or glwe_normalize out of it *)
Definition tmp_layout (res a key : infos) : infos :=
  mk_glwe_layout (i_n res) (i_base2k key) (Z.max (i_max_k a) (i_max_k res)) (i_rank res).
Definition tree_glwe_trace (fam n : Z) (res a key : infos) (steps : Z) : tree :=
  Seq (Need (glwe_trace_tmp_bytes fam n res a key))
  (Seq (t_take_glwe (tmp_layout res a key))
  (Seq (if negb (i_base2k a =? i_base2k key) then Scoped (t_glwe_normalize fam n (i_rank res + 1)) else Nop)
  (Seq (Scoped (t_glwe_trace_assign_same fam n (tmp_layout res a key) key steps))
       (if negb (i_base2k res =? i_base2k key) then Scoped (t_glwe_normalize fam n (i_rank res + 1)) else Nop)))).

(* operations/glwe.rs: glwe_mul_const(cnv_offset, res, a, b, scratch) *)
Definition tree_glwe_mul_const (fam n : Z) (res a : infos) (b_len cnv_offset : Z) : tree :=
  let a_base2k := i_base2k a in
  let hi := if cnv_offset <? a_base2k then 0 else Z.max 0 (cnv_offset / a_base2k - 1) in
  let res_dft_size := i_size a + b_len - hi in
  Seq (Need (glwe_mul_const_tmp_bytes fam n res a b_len))
  (Seq (Take (hal_bytes_of_vec_znx_big fam n 1 res_dft_size))                                    (* res_big *)
       (Loop (nat_of (i_rank res + 1))
          (Seq (Scoped (t_cnv_by_const_apply fam res_dft_size (i_size a) b_len))
               (Scoped (t_big_normalize fam n))))).
