(* C12 - take trees of the modelled operations, transcribed BY HAND from the Rust sources (file:function named
   at each definition), with every byte size expressed through the GENERATED formulas of
   Gen/C12TmpBytes_gen.v (so the sizes follow /repo; the nesting is what is hand-written and is tied to
   the implementation by the exact-window runs of the harness).  No proofs in this file.

   fam = 0 FFT64 family, 1 NTT120 family; n = degree of the module. *)
From PV Require Import Base.MachineInt Model.C12Scratch Gen.C12TmpBytes_gen.
Open Scope Z_scope.

Definition nat_of (z : Z) : nat := Z.to_nat z.

(* callees that receive the scratch one after the other, each releasing its takes on return *)
Definition seq_scoped (l : list tree) : tree := fold_right (fun t acc => Seq (Scoped t) acc) Nop l.
Definition zrange (k : Z) : list Z := map Z.of_nat (seq 0 (nat_of k)).

(* ---------------------------------------------------------------------------------------------------- *)
(* HAL operations: what the callee does with the scratch it is handed
   (poulpy-cpu-ref/src/hal_defaults/{vec_znx,vec_znx_big,vec_znx_dft,vmp_pmat,convolution}.rs,
    poulpy-cpu-ref/src/hal_impl/family_common.rs) *)
Definition t_vec_znx_normalize (n : Z) : tree := take_words 8 (ref_vec_znx_normalize_tmp_bytes n).
Definition t_vec_znx_rsh (n : Z) : tree := take_words 8 (ref_vec_znx_rsh_tmp_bytes n).
Definition t_vec_znx_lsh (n : Z) : tree := take_words 8 (ref_vec_znx_lsh_tmp_bytes n).
Definition t_vec_znx_rotate_assign (n : Z) : tree := take_words 8 (ref_vec_znx_rotate_assign_tmp_bytes n).
Definition t_vec_znx_automorphism_assign (n : Z) : tree := take_words 8 (ref_vec_znx_automorphism_assign_tmp_bytes n).
Definition t_vec_znx_mul_xp_minus_one_assign (n : Z) : tree := take_words 8 (ref_vec_znx_mul_xp_minus_one_assign_tmp_bytes n).
Definition t_vec_znx_split_ring (n : Z) : tree := take_words 8 (ref_vec_znx_split_ring_tmp_bytes n).
Definition t_vec_znx_merge_rings (n : Z) : tree := take_words 8 (ref_vec_znx_merge_rings_tmp_bytes n).

Definition t_big_normalize (fam n : Z) : tree :=
  if fam =? 0 then take_words 8 (fft64_vec_znx_big_normalize_tmp_bytes n)
  else take_words 16 (ntt120_vec_znx_big_normalize_tmp_bytes n).
Definition t_big_automorphism_assign (fam n : Z) : tree :=
  if fam =? 0 then take_words 8 (fft64_vec_znx_big_automorphism_assign_tmp_bytes n)
  else take_words 16 (ntt120_vec_znx_big_automorphism_assign_tmp_bytes n).
Definition t_idft_apply (fam n : Z) : tree :=
  if fam =? 0 then Nop else take_words 8 (ntt120_vec_znx_idft_apply_tmp_bytes n).
Definition t_vmp_prepare (fam n : Z) : tree :=
  if fam =? 0 then take_words 8 (fft64_vmp_prepare_tmp_bytes n) else take_words 8 (ntt120_vmp_prepare_tmp_bytes n).
(* a_size = a.size(), rows = pmat.rows(), cols_in = pmat.cols_in() *)
Definition t_vmp_apply_dft_to_dft (fam a_size rows cols_in : Z) : tree :=
  if fam =? 0 then take_words 8 (fft64_vmp_apply_dft_to_dft_tmp_bytes a_size rows cols_in)
  else take_words 8 (ntt120_vmp_apply_dft_to_dft_tmp_bytes a_size rows cols_in).
(* hal_impl_family_common!: vmp_apply_dft *)
Definition t_vmp_apply_dft (fam n a_size rows cols_in : Z) : tree :=
  Seq (Take (hal_bytes_of_vec_znx_dft fam n cols_in (Z.min a_size rows)))
      (Scoped (t_vmp_apply_dft_to_dft fam (Z.min a_size rows) rows cols_in)).
(* convolution: rs = res.size(), a = a.size(), b = b.size() / b.len() *)
Definition t_cnv_prepare_left (fam n rs a : Z) : tree :=
  if fam =? 0 then Take (hal_bytes_of_vec_znx_dft fam n 1 (Z.min rs a)) else Take (ntt120_cnv_prepare_left_tmp_bytes n).
Definition t_cnv_prepare_right (fam n rs a : Z) : tree :=
  if fam =? 0 then Take (hal_bytes_of_vec_znx_dft fam n 1 (Z.min rs a)) else take_words 8 (ntt120_cnv_prepare_right_tmp_bytes n).
Definition t_cnv_prepare_self (fam n rs a : Z) : tree :=
  if fam =? 0 then Take (hal_bytes_of_vec_znx_dft fam n 1 (Z.min rs a)) else Take (ntt120_cnv_prepare_self_tmp_bytes n).
Definition t_cnv_apply_dft (fam rs a b : Z) : tree :=
  if fam =? 0 then take_words 8 (fft64_convolution_apply_dft_tmp_bytes rs a b) else Take (ntt120_cnv_apply_dft_tmp_bytes rs a b).
Definition t_cnv_by_const_apply (fam rs a b : Z) : tree :=
  if fam =? 0 then take_words 8 (fft64_convolution_by_const_apply_tmp_bytes rs a b) else Take (ntt120_cnv_by_const_apply_tmp_bytes 0 0 0).
Definition t_cnv_pairwise_apply_dft (fam rs a b : Z) : tree :=
  if fam =? 0 then take_words 8 (fft64_convolution_pairwise_apply_dft_tmp_bytes rs a b)
  else Take (ntt120_cnv_pairwise_apply_dft_tmp_bytes rs a b).

(* ---------------------------------------------------------------------------------------------------- *)
(* poulpy-core *)

(* encryption/lwe.rs: lwe_encrypt_sk; decryption/lwe.rs: lwe_decrypt_default *)
Definition tree_lwe_encrypt_sk (fam n : Z) (lwe : infos) : tree :=
  Seq (Need (lwe_encrypt_sk_tmp_bytes fam n lwe))
  (Seq (Take (VecZnx_bytes_of 1 1 (i_size lwe)))             (* take_vec_znx(1, 1, res.size()) *)
       (Scoped (t_vec_znx_normalize n))).                    (* vec_znx_normalize_assign(.., scratch_1) *)
Definition tree_lwe_decrypt (fam n : Z) (lwe : infos) : tree :=
  Seq (Need (lwe_decrypt_tmp_bytes fam n lwe))
  (Seq (Take (VecZnx_bytes_of 1 1 (i_size lwe)))             (* take_lwe_plaintext(res) *)
       (Scoped (t_vec_znx_normalize n))).                    (* vec_znx_normalize(.., scratch_1) *)

(* encryption/glwe.rs: glwe_encrypt_sk_internal.  with_pt_col: a plaintext is added on a column >= 1
   (then that iteration also runs vec_znx_normalize_assign on scratch_3) *)
Definition t_glwe_encrypt_sk_internal (fam n size cols : Z) (with_pt_col : bool) : tree :=
  Seq (Take (VecZnx_bytes_of n 1 size))                                       (* c0 *)
  (Seq (Scoped (Seq (Take (VecZnx_bytes_of n 1 size))                         (* ci *)
                    (Loop (nat_of (cols - 1))
                       (Seq (Take (hal_bytes_of_vec_znx_dft fam n 1 size))     (* ci_dft *)
                       (Seq (if with_pt_col then Scoped (t_vec_znx_normalize n) else Nop)
                            (Scoped (t_big_normalize fam n)))))))
       (Scoped (t_vec_znx_normalize n))).                                     (* vec_znx_normalize(ct, .., scratch_1) *)
Definition tree_glwe_encrypt_sk (fam n : Z) (glwe : infos) : tree :=
  Seq (Need (glwe_encrypt_sk_tmp_bytes fam n glwe))
      (t_glwe_encrypt_sk_internal fam n (i_size glwe) (i_rank glwe + 1) false).

(* encryption/glwe.rs: glwe_encrypt_pk_internal; size_pk = pk.size() *)
Definition tree_glwe_encrypt_pk (fam n : Z) (res : infos) (size_pk : Z) : tree :=
  Seq (Need (glwe_encrypt_pk_tmp_bytes fam n res))
  (Seq (Take (hal_bytes_of_svp_ppol fam n 1))                                 (* u_dft *)
  (Seq (Scoped (Take (ScalarZnx_bytes_of n 1)))                               (* u *)
       (Loop (nat_of (i_rank res + 1))
          (Seq (Take (hal_bytes_of_vec_znx_dft fam n 1 size_pk))              (* ci_dft *)
               (Scoped (t_big_normalize fam n)))))).

(* decryption/glwe.rs: glwe_decrypt_default *)
Definition tree_glwe_decrypt (fam n : Z) (glwe : infos) : tree :=
  Seq (Need (glwe_decrypt_tmp_bytes fam n glwe))
  (Seq (Take (hal_bytes_of_vec_znx_big fam n 1 (i_size glwe)))                (* c0_big *)
  (Seq (Loop (nat_of (i_rank glwe)) (Take (hal_bytes_of_vec_znx_dft fam n 1 (i_size glwe))))
       (Scoped (t_big_normalize fam n)))).

(* operations/glwe.rs: glwe_normalize, glwe_rsh / glwe_lsh*, glwe_rotate_assign *)
Definition t_glwe_normalize (fam n cols : Z) : tree :=
  Seq (Need (glwe_normalize_tmp_bytes fam n)) (Loop (nat_of cols) (t_vec_znx_normalize n)).
Definition tree_glwe_normalize (fam n : Z) (res : infos) : tree := t_glwe_normalize fam n (i_rank res + 1).
Definition tree_glwe_rsh (fam n : Z) (res : infos) : tree :=
  Seq (Need (glwe_shift_tmp_bytes fam n)) (Loop (nat_of (i_rank res + 1)) (t_vec_znx_rsh n)).
Definition tree_glwe_lsh (fam n : Z) (res : infos) : tree :=
  Seq (Need (glwe_shift_tmp_bytes fam n)) (Loop (nat_of (i_rank res + 1)) (t_vec_znx_lsh n)).
Definition tree_glwe_rotate_assign (fam n : Z) (res : infos) : tree :=
  Seq (Need (glwe_rotate_tmp_bytes fam n)) (Loop (nat_of (i_rank res + 1)) (t_vec_znx_rotate_assign n)).

(* keyswitching/glwe.rs: gglwe_product_dft(res, a, key, scratch); res_size = res.size(), a_cols = a.cols(),
   a_size = a.size(); pmat = key.data has dnum rows and rank_in input columns *)
Definition t_gglwe_product_dft (fam n res_size a_cols a_size : Z) (key : infos) : tree :=
  let dsize := i_dsize key in
  let dnum := i_dnum key in
  Seq (Need (gglwe_product_dft_tmp_bytes fam n res_size a_size key))
  (if dsize =? 1 then Scoped (t_vmp_apply_dft_to_dft fam a_size dnum (i_rank_in key))
   else
     Seq (Take (hal_bytes_of_vec_znx_dft fam n a_cols (Z.min (div_ceil a_size dsize) dnum)))      (* ai_dft *)
    (Seq (Take (hal_bytes_of_vec_znx_dft fam n (i_rank key + 1) (i_size key)))                  (* res_dft_tmp *)
         (seq_scoped (map (fun di => t_vmp_apply_dft_to_dft fam (Z.min ((a_size + di) / dsize) dnum) dnum (i_rank_in key))
                          (zrange dsize))))).

(* keyswitching/glwe.rs: glwe_keyswitch_internal(res_dft, a, key, scratch); the assert uses (key, a, key) *)
Definition t_glwe_keyswitch_internal (fam n : Z) (a key : infos) : tree :=
  Seq (Need (glwe_keyswitch_internal_tmp_bytes fam n key a key))
  (Seq (Take (hal_bytes_of_vec_znx_dft fam n (i_rank a) (i_size a)))                             (* a_dft *)
       (Scoped (t_gglwe_product_dft fam n (i_size key) (i_rank a) (i_size a) key))).

Definition conv_layout (a key : infos) : infos := mk_glwe_layout (i_n a) (i_base2k key) (i_max_k a) (i_rank a).
Definition t_take_glwe (l : infos) : tree := Take (VecZnx_bytes_of (i_n l) (i_rank l + 1) (i_size l)).

(* glwe_keyswitch_default / glwe_keyswitch_assign_default (a := res) *)
Definition tree_glwe_keyswitch (fam n : Z) (res a key : infos) : tree :=
  Seq (Need (glwe_keyswitch_tmp_bytes fam n res a key))
  (Seq (Take (hal_bytes_of_vec_znx_dft fam n (i_rank res + 1) (i_size key)))                     (* res_dft *)
  (Seq (Scoped (if negb (i_base2k a =? i_base2k key) then
                  Seq (t_take_glwe (conv_layout a key))                                          (* a_conv *)
                 (Seq (Scoped (t_glwe_normalize fam n (i_rank a + 1)))
                      (Scoped (t_glwe_keyswitch_internal fam n (conv_layout a key) key)))
                else Scoped (t_glwe_keyswitch_internal fam n a key)))
       (Loop (nat_of (i_rank res + 1)) (t_big_normalize fam n)))).                              (* on scratch_1 *)

(* external_product/glwe.rs: glwe_external_product_internal(res_dft, a, ggsw, scratch); assert uses (ggsw, a, ggsw) *)
Definition t_glwe_external_product_internal (fam n : Z) (a ggsw : infos) : tree :=
  let cols := i_rank ggsw + 1 in
  let dsize := i_dsize ggsw in
  let a_size := i_size a in
  Seq (Need (glwe_external_product_internal_tmp_bytes fam n ggsw a ggsw))
  (Seq (Take (hal_bytes_of_vec_znx_dft fam n cols (div_ceil a_size dsize)))                      (* a_dft *)
       (if dsize =? 1 then Scoped (t_vmp_apply_dft_to_dft fam a_size (i_dnum ggsw) cols)
        else Seq (Take (hal_bytes_of_vec_znx_dft fam n cols (i_size ggsw)))                      (* res_dft_tmp *)
                 (seq_scoped (map (fun di => t_vmp_apply_dft_to_dft fam ((a_size + di) / dsize) (i_dnum ggsw) cols)
                                  (zrange dsize))))).

Definition tree_glwe_external_product (fam n : Z) (res a ggsw : infos) : tree :=
  Seq (Need (glwe_external_product_tmp_bytes fam n res a ggsw))
  (Seq (Take (hal_bytes_of_vec_znx_dft fam n (i_rank res + 1) (i_size ggsw)))                    (* res_dft *)
  (Seq (Scoped (if negb (i_base2k a =? i_base2k ggsw) then
                  Seq (t_take_glwe (conv_layout a ggsw))
                 (Seq (Scoped (t_glwe_normalize fam n (i_rank a + 1)))
                      (Scoped (t_glwe_external_product_internal fam n (conv_layout a ggsw) ggsw)))
                else Scoped (t_glwe_external_product_internal fam n a ggsw)))
       (Loop (nat_of (i_rank res + 1)) (t_big_normalize fam n)))).

(* keyswitching/gglwe.rs: gglwe_keyswitch_default: glwe_keyswitch on every (row, col) of the matrix, same scratch *)
Definition tree_gglwe_keyswitch (fam n : Z) (res a key : infos) : tree :=
  Seq (Need (gglwe_keyswitch_tmp_bytes fam n res a key))
      (Loop (nat_of (i_dnum res * i_rank_in res)) (Scoped (tree_glwe_keyswitch fam n res a key))).
(* external_product/gglwe.rs, ggsw.rs: glwe_external_product on every (row, col) *)
Definition tree_gglwe_external_product (fam n : Z) (res a ggsw : infos) : tree :=
  Seq (Need (gglwe_external_product_tmp_bytes fam n res a ggsw))
      (Loop (nat_of (Z.min (i_dnum res) (i_dnum a) * i_rank_in res)) (Scoped (tree_glwe_external_product fam n res a ggsw))).
Definition tree_ggsw_external_product (fam n : Z) (res a ggsw : infos) : tree :=
  Seq (Need (ggsw_external_product_tmp_bytes fam n res a ggsw))
      (Loop (nat_of (Z.min (i_dnum res) (i_dnum a) * (i_rank res + 1))) (Scoped (tree_glwe_external_product fam n res a ggsw))).
(* layouts/prepared/gglwe.rs, ggsw.rs: gglwe_prepare / ggsw_prepare = vmp_prepare *)
Definition tree_gglwe_prepare (fam n : Z) (key : infos) : tree :=
  Seq (Need (gglwe_prepare_tmp_bytes fam n key)) (Scoped (t_vmp_prepare fam n)).
Definition tree_ggsw_prepare (fam n : Z) (ggsw : infos) : tree :=
  Seq (Need (ggsw_prepare_tmp_bytes fam n ggsw)) (Scoped (t_vmp_prepare fam n)).

(* automorphism/glwe_ct.rs: glwe_automorphism_default = glwe_keyswitch, then vec_znx_automorphism_assign per column *)
Definition tree_glwe_automorphism (fam n : Z) (res a key : infos) : tree :=
  Seq (Need (glwe_automorphism_tmp_bytes fam n res a key))
  (Seq (Scoped (tree_glwe_keyswitch fam n res a key))
       (Loop (nat_of (i_rank res + 1)) (t_vec_znx_automorphism_assign n))).

(* glwe_automorphism_add_default (and _sub, _sub_negate: same takes); the per-column work runs on scratch_2
   in the cross-radix branch *)
Definition tree_glwe_automorphism_add (fam n : Z) (res a key : infos) : tree :=
  let percol := Seq (Scoped (t_big_automorphism_assign fam n)) (Scoped (t_big_normalize fam n)) in
  Seq (Need (glwe_automorphism_tmp_bytes fam n res a key))
  (Seq (Take (hal_bytes_of_vec_znx_dft fam n (i_rank res + 1) (i_size key)))                     (* res_dft *)
       (if negb (i_base2k a =? i_base2k key) then
          Seq (t_take_glwe (conv_layout a key))
         (Seq (Scoped (t_glwe_normalize fam n (i_rank a + 1)))
         (Seq (Scoped (t_glwe_keyswitch_internal fam n (conv_layout a key) key))
              (Loop (nat_of (i_rank res + 1)) percol)))
        else
          Seq (Scoped (t_glwe_keyswitch_internal fam n a key))
              (Loop (nat_of (i_rank res + 1)) percol))).

(* glwe_trace.rs: glwe_trace_assign_default(res, skip, keys, scratch), same-radix branch (res.base2k = key.base2k):
   steps = log_n - skip iterations of glwe_rsh + glwe_automorphism_add_assign *)
Definition t_glwe_trace_assign_same (fam n : Z) (res key : infos) (steps : Z) : tree :=
  Seq (Need (glwe_trace_assign_same_radix_tmp_bytes fam n res key))
      (Loop (nat_of steps) (Seq (Scoped (tree_glwe_rsh fam n res)) (Scoped (tree_glwe_automorphism_add fam n res res key)))).

(* glwe_trace_assign_default in general: a cross-radix res is first re-normalised into a temporary of the key's radix *)
Definition tree_glwe_trace_assign (fam n : Z) (res key : infos) (steps : Z) : tree :=
  if negb (i_base2k res =? i_base2k key) then
    Seq (Need (glwe_trace_tmp_bytes fam n res res key))
   (Seq (t_take_glwe (conv_layout res key))
   (Seq (Scoped (t_glwe_normalize fam n (i_rank res + 1)))
   (Seq (Scoped (t_glwe_trace_assign_same fam n (conv_layout res key) key steps))
        (Scoped (t_glwe_normalize fam n (i_rank res + 1))))))
  else t_glwe_trace_assign_same fam n res key steps.

(* glwe_trace_default(res, skip, a, keys, scratch): tmp = take_glwe(key radix, k = max(a.max_k, res.max_k)),
   glwe_copy or glwe_normalize into it, glwe_trace_assign(tmp), glwe_copy or glwe_normalize out of it *)
Definition tmp_layout (res a key : infos) : infos :=
  mk_glwe_layout (i_n res) (i_base2k key) (Z.max (i_max_k a) (i_max_k res)) (i_rank res).
Definition tree_glwe_trace (fam n : Z) (res a key : infos) (steps : Z) : tree :=
  Seq (Need (glwe_trace_tmp_bytes fam n res a key))
  (Seq (t_take_glwe (tmp_layout res a key))
  (Seq (if negb (i_base2k a =? i_base2k key) then Scoped (t_glwe_normalize fam n (i_rank res + 1)) else Nop)
  (Seq (Scoped (t_glwe_trace_assign_same fam n (tmp_layout res a key) key steps))
       (if negb (i_base2k res =? i_base2k key) then Scoped (t_glwe_normalize fam n (i_rank res + 1)) else Nop)))).

(* a rank-1 GLWE of the module's degree, the container the LWE conversions work in *)
Definition glwe1 (n b2k k : Z) : infos := mk_glwe_layout n b2k k 1.

(* api/conversion.rs: lwe_from_glwe(res, a, a_idx, key, scratch): a rank-1 temporary in the LWE's radix, key-switch into it
   (a_idx = 0), resp. a rotated copy of a first (a_idx > 0) *)
Definition tree_lwe_from_glwe (fam n : Z) (lwe a key : infos) : tree :=
  let t := glwe1 n (i_base2k lwe) (i_max_k lwe) in
  Seq (Need (lwe_from_glwe_tmp_bytes fam n lwe a key))
  (Seq (t_take_glwe t)
       (Branch (tree_glwe_keyswitch fam n t a key)
               (Seq (t_take_glwe a) (Scoped (tree_glwe_keyswitch fam n t a key))))).

(* api/keyswitching.rs: lwe_keyswitch(res, a, ksk, scratch) *)
Definition tree_lwe_keyswitch (fam n : Z) (res a key : infos) : tree :=
  let tin := glwe1 n (i_base2k a) (i_max_k a) in
  let tout := glwe1 n (i_base2k res) (i_max_k res) in
  Seq (Need (lwe_keyswitch_tmp_bytes fam n res a key))
  (Seq (t_take_glwe tin) (Seq (t_take_glwe tout) (Scoped (tree_glwe_keyswitch fam n tout tin key)))).

(* conversion/lwe_to_glwe.rs: glwe_from_lwe_default(res, lwe, ksk, scratch): rank-1 temporary in the key's radix holding the LWE,
   filled directly or through a one-column buffer and two normalisations, then glwe_keyswitch(res, temporary) on scratch_1 *)
Definition tree_glwe_from_lwe (fam n : Z) (res lwe key : infos) : tree :=
  let t := glwe1 n (i_base2k key) (i_max_k lwe) in
  Seq (Need (glwe_from_lwe_tmp_bytes fam n res lwe key))
  (Seq (t_take_glwe t)
  (Seq (if i_base2k lwe =? i_base2k key then Nop
        else Scoped (Seq (Take (VecZnx_bytes_of n 1 (i_size lwe)))
                         (Seq (Scoped (t_vec_znx_normalize n)) (Scoped (t_vec_znx_normalize n)))))
       (Scoped (tree_glwe_keyswitch fam n res t key)))).

(* glwe_packing.rs: pack_internal(a, b, i, key, scratch), the three non-trivial cases; every input has the layout `a` *)
Definition t_pack_both (fam n : Z) (a key : infos) : tree :=
  Seq (t_take_glwe a)                                                             (* tmp_b *)
      (seq_scoped [tree_glwe_rotate_assign fam n a; tree_glwe_rsh fam n a; tree_glwe_rsh fam n a;
                   t_glwe_normalize fam n (i_rank a + 1); tree_glwe_automorphism fam n a a key;
                   t_glwe_normalize fam n (i_rank a + 1); tree_glwe_rotate_assign fam n a]).
Definition t_pack_lo (fam n : Z) (a key : infos) : tree :=
  Seq (Scoped (tree_glwe_rsh fam n a)) (Scoped (tree_glwe_automorphism_add fam n a a key)).
Definition t_pack_hi (fam n : Z) (a key : infos) : tree :=
  Seq (t_take_glwe a) (Seq (Scoped (tree_glwe_rsh fam n a)) (Scoped (tree_glwe_automorphism_add fam n a a key))).
(* glwe_pack_default(res, inputs, log_gap_out, keys, scratch): the entry assertion on glwe_pack_tmp_bytes(res, key), then one
   assertion per input on glwe_pack_tmp_bytes_for_input(res, input, key) (every input has the layout `a`), iters merge steps
   (which of the three cases occurs depends on which slots are populated: all three must fit), then
   glwe_trace(res, skip, inputs[0]) with steps = log_n - skip iterations *)
Definition tree_glwe_pack (fam n : Z) (res a key : infos) (iters steps : Z) : tree :=
  Seq (Need (glwe_pack_tmp_bytes fam n res key))
  (Seq (Need (glwe_pack_tmp_bytes_for_input fam n res a key))
  (Seq (Loop (nat_of iters) (Branch (t_pack_both fam n a key) (Branch (t_pack_lo fam n a key) (t_pack_hi fam n a key))))
       (Scoped (tree_glwe_trace fam n res a key steps)))).

(* conversion/gglwe_to_ggsw.rs: ggsw_expand_row_default(res, tsk, scratch): a_dft and a_0 for the whole call; per row the column 0
   of res is brought into them (cross radix: vec_znx_normalize on scratch_2), then ggsw_expand_rows_internal: per column
   res_dft (cols x tsk.size()), gglwe_product_dft, vec_znx_big_normalize per column of the result *)
Definition t_ggsw_expand_rows (fam n : Z) (res tsk : infos) : tree :=
  let cols := i_rank res + 1 in
  let a_size := div_ceil (i_max_k res) (i_base2k tsk) in
  Seq (Need (ggsw_expand_rows_tmp_bytes fam n res tsk))
  (Seq (Take (hal_bytes_of_vec_znx_dft fam n (cols - 1) a_size))                                  (* a_dft *)
  (Seq (Take (VecZnx_bytes_of n 1 a_size))                                                      (* a_0 *)
       (Loop (nat_of (i_dnum res))
          (Seq (if i_base2k res =? i_base2k tsk then Nop else Scoped (t_vec_znx_normalize n))
               (Loop (nat_of (cols - 1))
                  (Seq (Take (hal_bytes_of_vec_znx_dft fam n cols (i_size tsk)))                 (* res_dft *)
                  (Seq (Scoped (t_gglwe_product_dft fam n (i_size tsk) (cols - 1) a_size tsk))
                       (Loop (nat_of cols) (t_big_normalize fam n))))))))).
(* ggsw_from_gglwe_default: glwe_copy per row, then ggsw_expand_row *)
Definition tree_ggsw_from_gglwe (fam n : Z) (res tsk : infos) : tree :=
  Seq (Need (ggsw_from_gglwe_tmp_bytes fam n res tsk)) (t_ggsw_expand_rows fam n res tsk).
(* keyswitching/ggsw.rs: ggsw_keyswitch_default: glwe_keyswitch on column 0 of every row of a, then ggsw_expand_row *)
Definition tree_ggsw_keyswitch (fam n : Z) (res a key tsk : infos) : tree :=
  Seq (Need (ggsw_keyswitch_tmp_bytes fam n res a key tsk))
  (Seq (Loop (nat_of (i_dnum a)) (Scoped (tree_glwe_keyswitch fam n res a key)))
       (Scoped (t_ggsw_expand_rows fam n res tsk))).
(* automorphism/ggsw_ct.rs: ggsw_automorphism_default: glwe_automorphism on column 0 of every row of res, then ggsw_expand_row *)
Definition tree_ggsw_automorphism (fam n : Z) (res a key tsk : infos) : tree :=
  Seq (Need (ggsw_automorphism_tmp_bytes fam n res a key tsk))
  (Seq (Loop (nat_of (i_dnum res)) (Scoped (tree_glwe_automorphism fam n res a key)))
       (Scoped (t_ggsw_expand_rows fam n res tsk))).

(* ---------------------------------------------------------------------------------------------------- *)
(* encryption of gadget ciphertexts and of evaluation keys *)
(* encryption/gglwe.rs: gglwe_encrypt_sk: a plaintext container, then per (column, row): vec_znx_normalize_assign and
   glwe_encrypt_sk (with its own entry assertion) on scratch_1 *)
Definition tree_gglwe_encrypt_sk (fam n : Z) (res : infos) : tree :=
  Seq (Need (gglwe_encrypt_sk_tmp_bytes fam n res))
  (Seq (Take (VecZnx_bytes_of n 1 (i_size res)))                                                 (* tmp_pt *)
       (Loop (nat_of (i_rank_in res * i_dnum res))
          (Seq (Scoped (t_vec_znx_normalize n)) (Scoped (tree_glwe_encrypt_sk fam n res))))).
(* encryption/ggsw.rs: ggsw_encrypt_sk: per row vec_znx_normalize_assign, then glwe_encrypt_sk_internal per column (the plaintext
   goes to column col_j: for col_j >= 1 the internal routine normalises once more) *)
Definition tree_ggsw_encrypt_sk (fam n : Z) (res : infos) : tree :=
  Seq (Need (ggsw_encrypt_sk_tmp_bytes fam n res))
  (Seq (Take (VecZnx_bytes_of n 1 (i_size res)))
       (Loop (nat_of (i_dnum res))
          (Seq (Scoped (t_vec_znx_normalize n))
          (Seq (Scoped (t_glwe_encrypt_sk_internal fam n (i_size res) (i_rank res + 1) false))
               (Loop (nat_of (i_rank res)) (t_glwe_encrypt_sk_internal fam n (i_size res) (i_rank res + 1) true)))))).
(* encryption/glwe_switching_key.rs *)
Definition tree_glwe_switching_key_encrypt_sk (fam n : Z) (res : infos) : tree :=
  Seq (Need (glwe_switching_key_encrypt_sk_tmp_bytes fam n res))
  (Seq (Take (ScalarZnx_bytes_of n (i_rank_in res)))                                             (* sk_in_tmp *)
  (Seq (Take (hal_bytes_of_svp_ppol fam n (i_rank res)))                                         (* sk_out_tmp *)
  (Seq (Scoped (Take (ScalarZnx_bytes_of n 1)))
       (Scoped (tree_gglwe_encrypt_sk fam n res))))).
(* encryption/glwe_automorphism_key.rs *)
Definition tree_glwe_automorphism_key_encrypt_sk (fam n : Z) (res : infos) : tree :=
  Seq (Need (glwe_automorphism_key_encrypt_sk_tmp_bytes fam n res))
  (Seq (Take (hal_bytes_of_svp_ppol fam n (i_rank res)))                                         (* sk_out_prepared *)
  (Seq (Scoped (Take (ScalarZnx_bytes_of n (i_rank res))))                                       (* sk_out *)
       (Scoped (tree_gglwe_encrypt_sk fam n res)))).
(* encryption/lwe_switching_key.rs *)
Definition tree_lwe_switching_key_encrypt_sk (fam n : Z) (res : infos) : tree :=
  Seq (Need (lwe_switching_key_encrypt_sk_tmp_bytes fam n res))
  (Seq (Take (ScalarZnx_bytes_of n 1)) (Seq (Take (ScalarZnx_bytes_of n 1))
  (Seq (Scoped (t_vec_znx_automorphism_assign n)) (Seq (Scoped (t_vec_znx_automorphism_assign n))
       (Scoped (tree_glwe_switching_key_encrypt_sk fam n res)))))).
(* encryption/glwe_to_lwe_key.rs *)
Definition tree_glwe_to_lwe_key_encrypt_sk (fam n : Z) (res : infos) : tree :=
  Seq (Need (glwe_to_lwe_key_encrypt_sk_tmp_bytes fam n res))
  (Seq (Take (hal_bytes_of_svp_ppol fam n 1))
  (Seq (Scoped (Seq (Take (ScalarZnx_bytes_of n 1)) (Scoped (t_vec_znx_automorphism_assign n))))
       (Scoped (tree_gglwe_encrypt_sk fam n res)))).
(* encryption/lwe_to_glwe_key.rs *)
Definition tree_lwe_to_glwe_key_encrypt_sk (fam n : Z) (res : infos) : tree :=
  Seq (Need (lwe_to_glwe_key_encrypt_sk_tmp_bytes fam n res))
  (Seq (Take (ScalarZnx_bytes_of n 1))
  (Seq (Scoped (t_vec_znx_automorphism_assign n)) (Scoped (tree_gglwe_encrypt_sk fam n res)))).
(* layouts/glwe_secret_tensor.rs: glwe_secret_tensor_prepare *)
Definition tree_glwe_secret_tensor_prepare (fam n rank : Z) : tree :=
  Seq (Need (glwe_secret_tensor_prepare_tmp_bytes fam n rank))
  (Seq (Take (hal_bytes_of_svp_ppol fam n rank))
  (Seq (Take (hal_bytes_of_vec_znx_dft fam n rank 1))
  (Seq (Take (hal_bytes_of_vec_znx_big fam n 1 1))
  (Seq (Take (hal_bytes_of_vec_znx_dft fam n 1 1))
       (Loop (nat_of (rank * (rank + 1) / 2)) (t_big_normalize fam n)))))).
(* encryption/glwe_tensor_key.rs: the key is a GGLWE with one input column per pair *)
Definition tensor_key_layout (res : infos) : infos :=
  mk_gglwe_layout (i_n res) (i_base2k res) (i_max_k res) (GLWESecretTensor_pairs (i_rank res)) (i_rank res) (i_dnum res) (i_dsize res).
Definition tree_glwe_tensor_key_encrypt_sk (fam n : Z) (res : infos) : tree :=
  Seq (Need (glwe_tensor_key_encrypt_sk_tmp_bytes fam n res))
  (Seq (Take (hal_bytes_of_svp_ppol fam n (i_rank res)))                                         (* sk_prepared *)
  (Seq (Take (ScalarZnx_bytes_of n (GLWESecretTensor_pairs (i_rank res))))                       (* sk_tensor *)
  (Seq (Scoped (tree_glwe_secret_tensor_prepare fam n (i_rank res)))
       (Scoped (tree_gglwe_encrypt_sk fam n (tensor_key_layout res)))))).
(* encryption/gglwe_to_ggsw_key.rs: one GGLWE per row of the tensor *)
Definition tree_gglwe_to_ggsw_key_encrypt_sk (fam n : Z) (res : infos) : tree :=
  Seq (Need (gglwe_to_ggsw_key_encrypt_sk_tmp_bytes fam n res))
  (Seq (Take (hal_bytes_of_svp_ppol fam n (i_rank res)))
  (Seq (Take (ScalarZnx_bytes_of n (GLWESecretTensor_pairs (i_rank res))))
  (Seq (Scoped (tree_glwe_secret_tensor_prepare fam n (i_rank res)))
  (Seq (Take (ScalarZnx_bytes_of n (i_rank res)))                                                (* sk_ij *)
       (Loop (nat_of (i_rank res)) (Scoped (tree_gglwe_encrypt_sk fam n res))))))).

(* ---------------------------------------------------------------------------------------------------- *)
(* encryption/compressed/*.rs: the same routines with glwe_encrypt_sk_internal(compressed = true) called directly (it has no entry
   assertion of its own; the takes do not depend on the flag) *)
Definition tree_glwe_compressed_encrypt_sk (fam n : Z) (res : infos) : tree :=
  Seq (Need (glwe_compressed_encrypt_sk_tmp_bytes fam n res))
      (t_glwe_encrypt_sk_internal fam n (i_size res) (i_rank res + 1) false).
Definition tree_gglwe_compressed_encrypt_sk (fam n : Z) (res : infos) : tree :=
  Seq (Need (gglwe_compressed_encrypt_sk_tmp_bytes fam n res))
  (Seq (Take (VecZnx_bytes_of n 1 (i_size res)))
       (Loop (nat_of (i_rank_in res * i_dnum res))
          (Seq (Scoped (t_vec_znx_normalize n)) (Scoped (t_glwe_encrypt_sk_internal fam n (i_size res) (i_rank res + 1) false))))).
Definition tree_ggsw_compressed_encrypt_sk (fam n : Z) (res : infos) : tree :=
  Seq (Need (ggsw_compressed_encrypt_sk_tmp_bytes fam n res))
  (Seq (Take (VecZnx_bytes_of n 1 (i_size res)))
       (Loop (nat_of (i_dnum res))
          (Seq (Scoped (t_vec_znx_normalize n))
          (Seq (Scoped (t_glwe_encrypt_sk_internal fam n (i_size res) (i_rank res + 1) false))
               (Loop (nat_of (i_rank res)) (t_glwe_encrypt_sk_internal fam n (i_size res) (i_rank res + 1) true)))))).
Definition tree_glwe_switching_key_compressed_encrypt_sk (fam n : Z) (res : infos) : tree :=
  Seq (Need (glwe_switching_key_compressed_encrypt_sk_tmp_bytes fam n res))
  (Seq (Take (ScalarZnx_bytes_of n (i_rank_in res)))
  (Seq (Take (hal_bytes_of_svp_ppol fam n (i_rank res)))
  (Seq (Scoped (Take (ScalarZnx_bytes_of n 1)))
       (Scoped (tree_gglwe_compressed_encrypt_sk fam n res))))).
Definition tree_glwe_automorphism_key_compressed_encrypt_sk (fam n : Z) (res : infos) : tree :=
  Seq (Need (glwe_automorphism_key_compressed_encrypt_sk_tmp_bytes fam n res))
  (Seq (Take (hal_bytes_of_svp_ppol fam n (i_rank res)))
  (Seq (Scoped (Take (ScalarZnx_bytes_of n (i_rank res))))
       (Scoped (tree_gglwe_compressed_encrypt_sk fam n res)))).
Definition tree_glwe_tensor_key_compressed_encrypt_sk (fam n : Z) (res : infos) : tree :=
  Seq (Need (glwe_tensor_key_compressed_encrypt_sk_tmp_bytes fam n res))
  (Seq (Take (hal_bytes_of_svp_ppol fam n (i_rank res)))
  (Seq (Take (ScalarZnx_bytes_of n (GLWESecretTensor_pairs (i_rank res))))
  (Seq (Scoped (tree_glwe_secret_tensor_prepare fam n (i_rank res)))
       (Scoped (tree_gglwe_compressed_encrypt_sk fam n (tensor_key_layout res)))))).
Definition tree_gglwe_to_ggsw_key_compressed_encrypt_sk (fam n : Z) (res : infos) : tree :=
  Seq (Need (gglwe_to_ggsw_key_compressed_encrypt_sk_tmp_bytes fam n res))
  (Seq (Take (hal_bytes_of_svp_ppol fam n (i_rank res)))
  (Seq (Take (ScalarZnx_bytes_of n (GLWESecretTensor_pairs (i_rank res))))
  (Seq (Scoped (tree_glwe_secret_tensor_prepare fam n (i_rank res)))
  (Seq (Take (ScalarZnx_bytes_of n (i_rank res)))
       (Loop (nat_of (i_rank res)) (Scoped (tree_gglwe_compressed_encrypt_sk fam n res))))))).

(* poulpy-bin-fhe bdd_arithmetic/eval.rs: cmux(res, t, f, s) / cmux_assign(res, a, s): glwe_sub into res, res_dft, the external
   product on res itself, vec_znx_big_normalize per column; cmux_assign_neg(res, a, s): the difference goes to a temporary of
   precision max(res, a) taken from the scratch first.  No entry assertion of their own. *)
Definition cmux_tmp_layout (res a : infos) : infos :=
  mk_glwe_layout (i_n res) (i_base2k res) (Z.max (i_max_k res) (i_max_k a)) (i_rank res).
Definition tree_cmux (fam n : Z) (res s : infos) : tree :=
  Seq (Take (hal_bytes_of_vec_znx_dft fam n (i_rank res + 1) (i_size s)))                         (* res_dft *)
  (Seq (Scoped (t_glwe_external_product_internal fam n res s))
       (Loop (nat_of (i_rank res + 1)) (t_big_normalize fam n))).
Definition tree_cmux_assign_neg (fam n : Z) (res a s : infos) : tree :=
  Seq (t_take_glwe (cmux_tmp_layout res a))                                                      (* tmp *)
  (Seq (Take (hal_bytes_of_vec_znx_dft fam n (i_rank res + 1) (i_size s)))
  (Seq (Scoped (t_glwe_external_product_internal fam n (cmux_tmp_layout res a) s))
       (Loop (nat_of (i_rank res + 1)) (t_big_normalize fam n)))).

(* poulpy-bin-fhe bdd_arithmetic/bdd_2w_to_1w.rs + eval.rs: execute_bdd_circuit_2w_to_1w_multi_thread(threads, out, circuit, a, b, key):
   one GLWE per output bit (take_glwe_slice(T::BITS, out)), then execute_bdd_circuit_multi_thread on scratch_1: the assertion
   available() >= threads * per_thread and Scratch::split_mut(threads, per_thread) (per_thread = execute_bdd_circuit_tmp_bytes), the
   regions go to the worker threads; afterwards FheUint::pack = glwe_pack of the T::BITS bits (log_gap_out = log_n - LOG_BITS) on
   scratch_1 again.  What a worker does INSIDE its region is tree_bdd_eval_level, run on an arena of its own (the region). *)
Definition tree_bdd_2w_to_1w_multi_thread (fam n bits threads state_size : Z) (res ggsw key : infos) : tree :=
  Seq (rep (Z.to_nat bits) (t_take_glwe res))
  (Seq (Scoped (split_mut threads (execute_bdd_circuit_tmp_bytes fam n res state_size ggsw)))
       (Scoped (tree_glwe_pack fam n res res key (Z.log2 n) (Z.log2 bits)))).
(* eval_level(res, inputs, nodes, state_size, scratch): 2 * state_size GLWEs, then one cmux per node on scratch_1 *)
Definition tree_bdd_eval_level (fam n state_size nodes : Z) (res ggsw : infos) : tree :=
  Seq (rep (Z.to_nat (2 * state_size)) (t_take_glwe res))
      (Loop (nat_of nodes) (Scoped (tree_cmux fam n res ggsw))).

(* operations/glwe.rs: glwe_tensor_relinearize(res, a, tsk, tsk_size, scratch); a is the tensor (its layout: base2k, size),
   tsk the prepared tensor key (rank_in = number of pairs), tsk_size the number of limbs of res_dft chosen by the caller *)
Definition tree_glwe_tensor_relinearize (fam n : Z) (res a tsk : infos) (tsk_size : Z) : tree :=
  let cols := i_rank tsk + 1 in
  let pairs := i_rank_in tsk in
  let a_dft_size := div_ceil (i_size a * i_base2k a) (i_base2k tsk) in
  let cross := negb (i_base2k a =? i_base2k tsk) in
  Seq (Need (glwe_tensor_relinearize_tmp_bytes fam n res a tsk))
  (Seq (Take (hal_bytes_of_vec_znx_dft fam n pairs a_dft_size))                                  (* a_dft *)
  (Seq (if cross then Scoped (Seq (Take (VecZnx_bytes_of n 1 a_dft_size)) (Loop (nat_of pairs) (t_vec_znx_normalize n))) else Nop)
  (Seq (Take (hal_bytes_of_vec_znx_dft fam n cols tsk_size))                                     (* res_dft *)
  (Seq (Scoped (t_gglwe_product_dft fam n tsk_size pairs a_dft_size tsk))
  (Seq (if cross then Scoped (Seq (Take (VecZnx_bytes_of n 1 a_dft_size)) (Loop (nat_of cols) (t_vec_znx_normalize n))) else Nop)
       (Loop (nat_of (i_rank res + 1)) (t_big_normalize fam n))))))).

(* normalize_input_limb_bound_with_offset (not a size query: used by the operations to choose the number of limbs of res_dft) *)
Definition limb_bound_with_offset (full_size res_size res_base2k in_base2k res_offset : Z) : Z :=
  normalize_input_limb_bound full_size res_size res_base2k in_base2k (res_offset mod in_base2k).
Definition cnv_offset_hi (cnv_offset a_base2k : Z) : Z :=
  if cnv_offset <? a_base2k then 0 else Z.max 0 (cnv_offset / a_base2k - 1).
Definition cnv_offset_lo (cnv_offset a_base2k : Z) : Z :=
  if cnv_offset <? a_base2k then - (a_base2k - cnv_offset mod a_base2k) else cnv_offset mod a_base2k.

(* glwe_tensor_square_apply(cnv_offset, res, a, a_effective_k, scratch) *)
Definition tree_glwe_tensor_square_apply (fam n : Z) (res a : infos) (cnv_offset : Z) : tree :=
  let cols := i_rank res + 1 in
  let asz := i_size a in
  let dsz := limb_bound_with_offset (2 * asz - cnv_offset_hi cnv_offset (i_base2k a)) (i_size res) (i_base2k res) (i_base2k a)
               (cnv_offset_lo cnv_offset (i_base2k a)) in
  Seq (Need (glwe_tensor_square_apply_tmp_bytes fam n res a))
  (Seq (Take (hal_bytes_of_cnv_pvec_left fam n cols asz))                                        (* a_prep *)
  (Seq (Take (hal_bytes_of_cnv_pvec_right fam n cols asz))                                       (* b_prep *)
  (Seq (Scoped (t_cnv_prepare_self fam n asz asz))
  (Seq (Take (VecZnx_bytes_of n cols (i_size res)))                                              (* diag_terms *)
  (Seq (Loop (nat_of cols)
          (Seq (Take (hal_bytes_of_vec_znx_dft fam n 1 dsz))
          (Seq (Scoped (t_cnv_apply_dft fam dsz asz asz)) (Scoped (t_big_normalize fam n)))))
       (Loop (nat_of (cols * (cols - 1) / 2))
          (Seq (Take (hal_bytes_of_vec_znx_dft fam n 1 dsz))
          (Seq (Scoped (t_cnv_pairwise_apply_dft fam dsz asz asz)) (Scoped (t_big_normalize fam n)))))))))).

(* operations/glwe.rs: glwe_mul_const(cnv_offset, res, a, b, scratch) *)
Definition tree_glwe_mul_const (fam n : Z) (res a : infos) (b_len cnv_offset : Z) : tree :=
  let a_base2k := i_base2k a in
  let hi := if cnv_offset <? a_base2k then 0 else Z.max 0 (cnv_offset / a_base2k - 1) in
  let res_dft_size := i_size a + b_len - hi in
  Seq (Need (glwe_mul_const_tmp_bytes fam n res a b_len))
  (Seq (Take (hal_bytes_of_vec_znx_big fam n 1 res_dft_size))                                    (* res_big *)
       (Loop (nat_of (i_rank res + 1))
          (Seq (Scoped (t_cnv_by_const_apply fam res_dft_size (i_size a) b_len))
               (Scoped (t_big_normalize fam n))))).
