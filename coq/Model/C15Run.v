(* Executable entry points of the C15 model for the correspondence check, and the specification-level oracle.
   Record layout: see harness/src/bin/c15.rs.  ps = be :: logn :: ... :: seed (15001: ps = [bits]).
   [run_c15] composes the ideal-plaintext model (C15Uint, C15Cbt) with the *generated* circuit tables of C13
   evaluated by C13's eval_stale; [oracle_c15] re-states the property with independent, arithmetic definitions
   (documented rotate/mask formulas, plain word operations) and is applied to the implementation's outputs. *)
From Coq Require Import ZArith List Bool Arith.
From PV Require Import Gen.C15_gen Model.C15Uint Model.C15Cbt Model.C13Bdd Model.C13Run.
Import ListNotations.
Open Scope Z_scope.

Definition p (ps : list Z) (i : nat) : Z := nth i ps 0.
Definition v (vs : list (list Z)) (i : nat) : list Z := nth i vs [].
Definition v0 (vs : list (list Z)) (i j : nat) : Z := nth j (v vs i) 0.

Definition u32t : option wty := ty_of_bits 32.

(* ------------------------------------------------------------------------------------------------ *)
(** * run *)

Definition out_word_poly (T : wty) (logn : Z) (q : poly) : list (list Z) :=
  [[p_dec T logn q]; p_list (2 ^ logn) q].
Definition opt_out (T : wty) (logn : Z) (o : option poly) : option (list (list Z)) :=
  option_map (out_word_poly T logn) o.

(* full preparation of a packed word through circuit bootstrapping: the selector bits *)
Definition prepare_full (T : wty) (logn : Z) (q : poly) : option (list bool) :=
  option_map fst (prepare_custom T logn 1 0 (w_bits T) q).

(* one u32 word operation on two prepared operands: the generated circuit tables, evaluated with C13's eval_stale on
   the selector bits, then repacked and decrypted *)
Definition z_of_bools (l : list bool) : Z := z_of_bits l.
Definition apply_op (T : wty) (logn : Z) (op : Z) (ka kb : list bool) : option poly :=
  match family_of op with
  | None => None
  | Some F =>
    let a := z_of_bools ka in
    let b := z_of_bools kb in
    match word_bits (map (prepare (f_bits F)) (f_tab F)) (f_nout F) 0%nat 32%nat (env_of a b) with
    | Some outs => pack T logn (map (fun x : bool => p_const (if x then 1 else 0)) outs)
    | None => None
    end
  end.
Definition word_op (T : wty) (logn : Z) (op : Z) (ca cb : poly) : option poly :=
  match prepare_full T logn ca, prepare_full T logn cb with
  | Some ka, Some kb => apply_op T logn op ka kb
  | _, _ => None
  end.

(* programs: vals = ciphertexts so far; steps = [op; x; y; ...] *)
Fixpoint run_prog (T : wty) (logn : Z) (fuel : nat) (vals : list poly) (steps : list Z) (acc : list Z) : option (list Z) :=
  match fuel, steps with
  | S f, op :: x :: y :: tl =>
    match nth_error vals (Z.to_nat x), nth_error vals (Z.to_nat y) with
    | Some cx, Some cy =>
      match word_op T logn op cx cy with
      | Some r => run_prog T logn f (vals ++ [r]) tl (acc ++ [p_dec T logn r])
      | None => None
      end
    | _, _ => None
    end
  | _, _ => Some acc
  end.

Fixpoint rounds_of (vs : list (list Z)) : list (Z * sel_bits * Z * list Z) :=
  match vs with
  | hd :: data :: tl => (nth 0 hd 0, bits_of 32 (nth 1 hd 0), nth 2 hd 0, data) :: rounds_of tl
  | _ => []
  end.
(* which rounds the property speaks about: retrievals, and add+flush rounds that do not follow an abandoned round *)
Fixpoint rounds_spec (nb : Z) (prev_abandoned : bool) (vs : list (list Z)) : list (option Z) :=
  match vs with
  | hd :: data :: tl =>
    let kind := nth 0 hd 0 in
    let idx := (nth 1 hd 0 / 2 ^ nth 2 hd 0) mod 2 ^ nb in
    (if ((kind =? 0) || ((kind =? 1) && negb prev_abandoned)) && (idx <? Z.of_nat (length data))
     then Some (nth (Z.to_nat idx) data 0) else None) :: rounds_spec nb (kind =? 2) tl
  | _ => []
  end.

Definition fmap_of (keys vals : list Z) : fmap :=
  fold_left (fun m kv => fm_set m (fst kv) (Some (snd kv))) (combine keys vals) fm_empty.

Definition cbt_out (logn base2k dnum rank bb : Z) (expo : bool) (ld lgo msg : Z) : option (list (list Z)) :=
  let rows := zseq 0 (Z.to_nat dnum) in
  match all_some (map (cb_row logn base2k dnum bb expo ld lgo msg) rows) with
  | None => None
  | Some ps =>
    let ds := map (fun ip => row_decoded base2k dnum bb (fst ip) (snd ip)) (combine rows ps) in
    let obs := flat_map (fun d => repeat (match cell_msg logn expo ld lgo d with Some j => j | None => -1 end)
                                         (Z.to_nat (rank + 1))) ds in
    let sparse := flat_map (fun id => flat_map (fun j => if snd id j =? 0 then [] else [fst id; j; snd id j])
                                               (zseq 0 (Z.to_nat (2 ^ logn)))) (combine rows ds) in
    Some [obs; sparse]
  end.

Definition run_c15 (code : Z) (ps : list Z) (vs : list (list Z)) : option (list (list Z)) :=
  if code =? 15001 then
    match ty_of_bits (p ps 0) with
    | Some T => Some [map (w_bidx T) (zseq 0 (nbits T)); [w_bits T; w_logbits T; w_lb T; w_mask T]]
    | None => None
    end
  else
  let logn := p ps 1 in
  let n := 2 ^ logn in
  if (15002 <=? code) && (code <=? 15013) then
    match ty_of_bits (p ps 2) with
    | None => None
    | Some T =>
      let w := v0 vs 0 0 in
      let c := p_enc T logn w in
      match code with
      | 15002 => Some (out_word_poly T logn c)
      | 15003 => Some [p_list n (get_bit_glwe T logn (p ps 3) c)]
      | 15004 => Some [[get_bit_lwe T logn (p ps 3) c mod 4]]
      | 15005 => Some [p_list n (get_byte T logn (p ps 3) c)]
      | 15006 => opt_out T logn (splice_u8 T logn (p ps 3) (p ps 4) c (p_enc T logn (v0 vs 0 1)))
      | 15007 => opt_out T logn (splice_u16 T logn (p ps 3) (p ps 4) c (p_enc T logn (v0 vs 0 1)))
      | 15008 => opt_out T logn (sext T logn (p ps 3) c)
      | 15009 => Some (out_word_poly T logn (zero_byte T logn (p ps 3) c))
      | 15010 => opt_out T logn (pack T logn (map p_const (v vs 0)))
      | 15011 => option_map (fun x => [[x]]) (dec_prepared T logn (bits_of (nbits T) w))
      | 15012 =>
        match prepare_full T logn c with
        | Some ks =>
          match dec_prepared T logn ks with
          | Some w' => Some [[w']; flat_map (fun _ => [z_of_bools ks; 0]) (zseq 0 (Z.to_nat (p ps 3 * (p ps 4 + 1))))]
          | None => None
          end
        | None => None
        end
      | 15013 =>
        match prepare_custom T logn (p ps 5) (p ps 3) (p ps 4) c with
        | Some (ks, st) =>
          match dec_prepared T logn ks with
          | Some w' => Some [[w']; map (fun b : bool => if b then 1 else 0) st]
          | None => None
          end
        | None => None
        end
      | _ => None
      end
    end
  else
  match u32t with
  | None => None
  | Some T =>
    let enc := p_enc T logn in
    if (15021 <=? code) && (code <=? 15031) then
      let op := code - 15020 in
      let a := v0 vs 0 0 in let b := v0 vs 0 1 in
      match word_op T logn op (enc a) (enc b), family_of op with
      | Some r, Some F => Some [[p_dec T logn r]; [f_op F a b]]
      | _, _ => None
      end
    else
    match code with
    | 15040 =>
      let ins := v vs 0 in
      match run_prog T logn (length (v vs 1)) (map enc ins) (v vs 1) [] with
      | Some outs => Some [outs; outs]
      | None => None
      end
    | 15050 =>
      let k := bits_of 32 (v0 vs 0 0) in
      option_map (fun q => [p_list n q])
        (glwe_blind_rotation n k (negb (p ps 2 =? 0)) (p ps 3) (p ps 4) (p ps 5) (enc (v0 vs 1 0)))
    | 15051 =>
      option_map (fun x => [[x]])
        (glwe_blind_selection 32 (bits_of 32 (v0 vs 0 0)) (p ps 2) (p ps 3) (fmap_of (v vs 1) (v vs 2)))
    | 15052 =>
      let k := bits_of 32 (v0 vs 0 0) in
      match blind_retrieval k (p ps 2) (p ps 3) (v vs 1) with
      | Some l => match blind_retrieval_rev k (p ps 2) (p ps 3) l with Some l' => Some [l; l'] | None => None end
      | None => None
      end
    | 15053 => option_map (fun x => [[x]]) (retrieve (p ps 2) (bits_of 32 (v0 vs 0 0)) (p ps 3) (v vs 1))
    | 15054 =>
      match kbit (bits_of 32 (v0 vs 0 2)) (p ps 2) with
      | Some bit => let '(x, y) := cswap bit (v0 vs 0 0, v0 vs 0 1) in Some [[x; y]]
      | None => None
      end
    | 15060 => cbt_out logn (p ps 5) (p ps 6) (p ps 7) (p ps 8) false (p ps 4) 0 (p ps 3)
    | 15061 => cbt_out logn (p ps 6) (p ps 7) (p ps 8) (p ps 9) true (p ps 4) (p ps 5) (p ps 3)
    | 15062 => cbt_out logn (p ps 6) (p ps 7) (p ps 8) (p ps 9) (negb (p ps 2 =? 0)) (p ps 4) (p ps 5) (p ps 3)
    | 15056 => option_map (fun r => [fst r]) (r_history (rounds_of vs) (r_alloc (p ps 2)))
    | 15055 => Some [[match retrieve (p ps 2) (bits_of 32 (v0 vs 0 0)) (p ps 3) (v vs 1) with Some x => x | None => -1 end]]
    | _ => None
    end
  end.

(* ------------------------------------------------------------------------------------------------ *)
(** * oracle: the property statement on the implementation's outputs, with independent definitions *)

Definition lb_of_bits (bits : Z) : Z := Z.log2 bits - 3.
(* documented layout: bit i of the word sits at coefficient ((i mod 8) * BYTES + i / 8) * (N / BITS) *)
Definition spec_coeff (bits logn w j : Z) : Z :=
  let gap := 2 ^ logn / bits in
  let bytes := bits / 8 in
  if j mod gap =? 0 then let c := j / gap in (w / 2 ^ (8 * (c mod bytes) + c / bytes)) mod 2 else 0.
Definition spec_layout (bits logn w : Z) : list Z := map (spec_coeff bits logn w) (zseq 0 (Z.to_nat (2 ^ logn))).
Definition list_eqb (a b : list Z) : bool := (length a =? length b)%nat && forallb (fun xy => fst xy =? snd xy) (combine a b).
Definition ok (b : bool) : Z := if b then 1 else 0.

Definition rotr (bits x k : Z) : Z := (x / 2 ^ k + (x mod 2 ^ k) * 2 ^ (bits - k)) mod 2 ^ bits.
Definition rotl (bits x k : Z) : Z := rotr bits x ((bits - k) mod bits).
(* ((a.rotate_right(dst*w) & !(2^w - 1)) | (b.rotate_right(src*w) & (2^w - 1))).rotate_left(dst*w) *)
Definition spec_splice (bits wd dst src a b : Z) : Z :=
  let ar := rotr bits a (dst * wd) in
  let br := rotr bits b (src * wd) in
  rotl bits ((ar - ar mod 2 ^ wd) + br mod 2 ^ wd) (dst * wd).
(* the test-suite's sext(x, sb): bits below sb kept, bit sb replicated upwards *)
Definition spec_sext (bits sb x : Z) : Z := x mod 2 ^ sb + ((x / 2 ^ sb) mod 2) * (2 ^ bits - 2 ^ sb).

Definition s32 (x : Z) : Z := if x <? 2147483648 then x else x - 4294967296.
(* plain Rust: wrapping_add, wrapping_sub, << (b & 31), >> (b & 31), (a as i32) >> (b & 31), signed / unsigned <, & | ^ *)
Definition spec_op (op a b : Z) : option Z :=
  let sh := b mod 32 in
  match op with
  | 1 => Some ((a + b) mod 4294967296)
  | 2 => Some ((a - b) mod 4294967296)
  | 3 => Some ((a * 2 ^ sh) mod 4294967296)
  | 4 => Some (a / 2 ^ sh)
  | 5 => Some ((s32 a / 2 ^ sh) mod 4294967296)
  | 6 => Some (if s32 a <? s32 b then 1 else 0)
  | 7 => Some (if a <? b then 1 else 0)
  | 8 => Some (Z.land a b)
  | 9 => Some (Z.lor a b)
  | 10 => Some (Z.lxor a b)
  | 11 => Some a
  | _ => None
  end.
Fixpoint spec_prog (fuel : nat) (vals : list Z) (steps : list Z) (acc : list Z) : option (list Z) :=
  match fuel, steps with
  | S f, op :: x :: y :: tl =>
    match nth_error vals (Z.to_nat x), nth_error vals (Z.to_nat y) with
    | Some a, Some b => match spec_op op a b with
                        | Some r => spec_prog f (vals ++ [r]) tl (acc ++ [r])
                        | None => None
                        end
    | _, _ => None
    end
  | _, _ => Some acc
  end.

(* negacyclic monomial product of the documented layout: coefficient j of X^s * p *)
Definition spec_rot (logn s : Z) (l : list Z) : list Z :=
  let n := 2 ^ logn in
  map (fun j => let t := (j - s) mod (2 * n) in
                if t <? n then nth (Z.to_nat t) l 0 else - nth (Z.to_nat (t - n)) l 0)
      (zseq 0 (Z.to_nat n)).
Fixpoint assoc (k : Z) (keys vals : list Z) : option Z :=
  match keys, vals with
  | x :: kt, y :: vt => match assoc k kt vt with Some r => Some r | None => if x =? k then Some y else None end
  | _, _ => None
  end.

Definition oracle_c15 (code : Z) (ps : list Z) (vs outs : list (list Z)) : Z :=
  if code =? 15001 then
    let bits := p ps 0 in
    let lb := lb_of_bits bits in
    let tab := v outs 0 in
    ok (list_eqb tab (map (fun i => (i mod 8) * 2 ^ lb + i / 8) (zseq 0 (Z.to_nat bits)))
        && forallb (fun c => existsb (Z.eqb c) tab) (zseq 0 (Z.to_nat bits))
        && list_eqb (v outs 1) [bits; lb + 3; lb; 2 ^ lb - 1])
  else
  let logn := p ps 1 in
  let n := 2 ^ logn in
  let bits := p ps 2 in
  let w := v0 vs 0 0 in
  let word_layout (want : Z) (k : nat) := (v0 outs k 0 =? want) && list_eqb (v outs (S k)) (spec_layout bits logn want) in
  match code with
  | 15002 => ok (word_layout w 0%nat)
  | 15003 => ok (list_eqb (v outs 0) (((w / 2 ^ p ps 3) mod 2) :: repeat 0 (Z.to_nat n - 1)%nat))
  | 15004 => ok (v0 outs 0 0 =? (w / 2 ^ p ps 3) mod 2)
  | 15005 => ok (list_eqb (v outs 0)
                   (map (fun j => if j mod (n / 8) =? 0 then (w / 2 ^ (8 * p ps 3 + j / (n / 8))) mod 2 else 0) (zseq 0 (Z.to_nat n))))
  | 15006 => ok (word_layout (spec_splice bits 8 (p ps 3) (p ps 4) w (v0 vs 0 1)) 0%nat)
  | 15007 => ok (word_layout (spec_splice bits 16 (p ps 3) (p ps 4) w (v0 vs 0 1)) 0%nat)
  | 15008 => ok (word_layout (spec_sext bits (8 * p ps 3 + 7) w) 0%nat)
  | 15009 => ok (word_layout (w - ((w / 2 ^ (8 * p ps 3)) mod 256) * 2 ^ (8 * p ps 3)) 0%nat)
  | 15010 =>
    let bs := firstn (Z.to_nat bits) (v vs 0) in
    ok (word_layout (fold_right (fun b acc => (b mod 2) + 2 * acc) 0 bs) 0%nat)
  | 15011 => ok (v0 outs 0 0 =? w)
  | 15012 => ok ((v0 outs 0 0 =? w) && list_eqb (v outs 1) (flat_map (fun _ => [w; 0]) (zseq 0 (Z.to_nat (p ps 3 * (p ps 4 + 1))))))
  | 15013 =>
    let start := p ps 3 in let count := p ps 4 in
    ok ((v0 outs 0 0 =? ((w / 2 ^ start) mod 2 ^ count) * 2 ^ start)
        && list_eqb (v outs 1) (map (fun i => if (start <=? i) && (i <? start + count) then 0 else 1) (zseq 0 (Z.to_nat bits))))
  | 15040 =>
    match spec_prog (length (v vs 1)) (v vs 0) (v vs 1) [] with
    | Some want => ok (list_eqb (v outs 0) want && list_eqb (v outs 1) want)
    | None => 2
    end
  | 15050 =>
    let amt := ((v0 vs 0 0 / 2 ^ p ps 3) mod 2 ^ p ps 4) * 2 ^ p ps 5 in
    ok (list_eqb (v outs 0) (spec_rot logn (if p ps 2 =? 0 then - amt else amt) (spec_layout 32 logn (v0 vs 1 0))))
  | 15051 =>
    let idx := (v0 vs 0 0 / 2 ^ p ps 2) mod 2 ^ p ps 3 in
    ok (v0 outs 0 0 =? match assoc idx (v vs 1) (v vs 2) with Some x => x | None => 0 end)
  | 15052 =>
    let idx := (v0 vs 0 0 / 2 ^ p ps 2) mod 2 ^ p ps 3 in
    ok (list_eqb (v outs 1) (v vs 1)
        && ((Z.of_nat (length (v vs 1)) <=? idx) || (v0 outs 0 0 =? nth (Z.to_nat idx) (v vs 1) 0))
        && (length (v outs 0) =? length (v vs 1))%nat)
  | 15053 =>
    let nb := Z.log2_up (p ps 2) in
    let idx := (v0 vs 0 0 / 2 ^ p ps 3) mod 2 ^ nb in
    if Z.of_nat (length (v vs 1)) <=? idx then 2 else ok (v0 outs 0 0 =? nth (Z.to_nat idx) (v vs 1) 0)
  | 15055 =>
    let nb := Z.log2_up (p ps 2) in
    let idx := (v0 vs 0 0 / 2 ^ p ps 3) mod 2 ^ nb in
    if Z.of_nat (length (v vs 1)) <=? idx then 2 else ok (v0 outs 0 0 =? nth (Z.to_nat idx) (v vs 1) 0)
  | 15056 =>
    let nb := Z.max 1 (Z.log2_up (Z.max 1 (p ps 2))) in
    let want := rounds_spec nb false vs in
    ok ((length (v outs 0) =? length want)%nat
        && forallb (fun ow => match snd ow with Some w => fst ow =? w | None => true end) (combine (v outs 0) want))
  | 15062 =>
    let msg := p ps 3 in let lgo := p ps 5 in let dnum := p ps 7 in let rank := p ps 8 in
    let e := (if p ps 2 =? 0 then 0 else msg * 2 ^ lgo) mod (2 * n) in
    let pos := e mod n in
    let val := if p ps 2 =? 0 then msg else if e <? n then 1 else -1 in
    ok (list_eqb (v outs 0) (repeat msg (Z.to_nat (dnum * (rank + 1))))
        && list_eqb (v outs 1) (if val =? 0 then [] else flat_map (fun r => [r; pos; val]) (zseq 0 (Z.to_nat dnum))))
  | 15054 =>
    let bit := (v0 vs 0 2 / 2 ^ p ps 2) mod 2 in
    ok (list_eqb (v outs 0) (if bit =? 1 then [v0 vs 0 1; v0 vs 0 0] else [v0 vs 0 0; v0 vs 0 1]))
  | 15060 =>
    let msg := p ps 3 in let dnum := p ps 6 in let rank := p ps 7 in
    ok (list_eqb (v outs 0) (repeat msg (Z.to_nat (dnum * (rank + 1))))
        && list_eqb (v outs 1) (if msg =? 0 then [] else flat_map (fun r => [r; 0; msg]) (zseq 0 (Z.to_nat dnum))))
  | 15061 =>
    let msg := p ps 3 in let lgo := p ps 5 in let dnum := p ps 7 in let rank := p ps 8 in
    let e := (msg * 2 ^ lgo) mod (2 * n) in
    let pos := e mod n in
    let sg := if e <? n then 1 else -1 in
    ok (list_eqb (v outs 0) (repeat msg (Z.to_nat (dnum * (rank + 1))))
        && list_eqb (v outs 1) (flat_map (fun r => [r; pos; sg]) (zseq 0 (Z.to_nat dnum))))
  | _ =>
    if (15021 <=? code) && (code <=? 15031) then
      match spec_op (code - 15020) (v0 vs 0 0) (v0 vs 0 1) with
      | Some want => ok ((v0 outs 0 0 =? want) && (v0 outs 1 0 =? want))
      | None => 2
      end
    else 2
  end.
