(* The NTT120 big-accumulator normaliser (reference/ntt120/vec_znx_big.rs): structurally the routine of Limbs.v at
   width 128, except that the pre-alignment shift `nfc_mul_pow2_assign(-take)` is a plain arithmetic shift (floor)
   where the i64 routine rounds, and the gap rounding is capped at 192 bits.  Same-radix: `normalize_inter 128`. *)
From PV Require Import Base.MachineInt Model.Znx Model.Limbs.
Open Scope Z_scope.

Section W.
Variable w : Z.

(* vec_znx_normalize_cross_big_base2k; None = out of fuel (never happens; excluded by the theorems) *)
Definition normalize_cross_big (rb ab : Z) (off : Z) (a r0 : list Z) : option (list Z) :=
  let rsz := length r0 in let asz := length a in
  let a_tot := zn asz * ab in let r_tot := zn rsz * rb in
  let '(lsh, lo) := split_offset ab off in
  let res_end_bit := clampZ (- lo * ab) 0 r_tot in
  let res_start_bit := clampZ (a_tot - lo * ab) 0 r_tot in
  let a_end_bit := clampZ (lo * ab) 0 a_tot in
  let a_start_bit := clampZ (r_tot + lo * ab) 0 a_tot in
  let res_end := Z.to_nat (res_end_bit / rb) in
  let res_start := Z.to_nat (div_ceil res_start_bit rb) in
  let a_end := Z.to_nat (a_end_bit / ab) in
  let a_start := Z.to_nat (div_ceil a_start_bit ab) in
  let rz := zeros rsz in
  if Nat.eqb res_start 0 then Some rz else
  let a_out := (asz - a_start)%nat in
  let ac0 := carry_phase w ab lsh a asz a_out in
  let mid := (a_start - a_end)%nat in
  let s0 := {| c_res := rz; c_anorm := 0; c_acarry := ac0; c_rcarry := 0; c_atake := 0; c_racc := rb; c_rlimb := (res_start - 1)%nat |} in
  let fuel := (Z.to_nat ab + Z.to_nat rb + 4)%nat in
  let '(s, brk, bad) :=
    fold_left (fun (acc : cstate * bool * bool) j =>
      let '(s, brk, bad) := acc in
      if brk || bad then acc else
      let a_limb := (a_start - j - 1)%nat in
      let '(an, ac) := middle_step w true ab lsh 0 (nthZ a a_limb) (c_acarry s) in
      let s1 := {| c_res := c_res s; c_anorm := an; c_acarry := ac; c_rcarry := c_rcarry s; c_atake := ab;
                   c_racc := c_racc s; c_rlimb := c_rlimb s |} in
      let s2 :=
        if Nat.eqb j 0 then
          if negb ((a_tot - a_start_bit) mod ab =? 0) then
            let take := (a_tot - a_start_bit) mod ab in
            {| c_res := c_res s1; c_anorm := mul_power_of_two w (- take) (c_anorm s1); c_acarry := c_acarry s1; c_rcarry := c_rcarry s1;
               c_atake := c_atake s1 - take; c_racc := c_racc s1; c_rlimb := c_rlimb s1 |}
          else if negb ((r_tot - res_start_bit) mod rb =? 0) then
            {| c_res := c_res s1; c_anorm := c_anorm s1; c_acarry := c_acarry s1; c_rcarry := c_rcarry s1;
               c_atake := c_atake s1; c_racc := c_racc s1 - (r_tot - res_start_bit) mod rb; c_rlimb := c_rlimb s1 |}
          else s1
        else s1 in
      match cross_inner w fuel rb ab a_limb s2 with
      | (s3, InnerDone) => (s3, false, false)
      | (s3, OuterBreak) => (s3, true, false)
      | (s3, Fuel) => (s3, false, true)
      end) (seq 0 mid) (s0, false, false) in
  if bad then None else
  if Nat.eqb res_end 0 then Some (c_res s) else
  let cu := if Nat.eqb a_start a_end then c_acarry s else c_rcarry s in
  let cu' := if Nat.eqb a_start a_end && (lo <? 0)
             then gapbits_phase w 8 (Z.min (Z.max (- lo * ab - r_tot) 0) 192) cu else cu in
  Some (fst (top_phase w false rb 0 res_end (c_res s, cu'))).


(* same-radix routine with the cap of the carry propagation through the gap as a parameter: the i64 routines
   (Limbs.normalize_inter) use 64 steps, the i128 copy in reference/ntt120/vec_znx_big.rs uses 128 *)
Definition gap_phase_c (cap : nat) (b : Z) (gap : nat) (c : Z) : Z :=
  fold_left (fun c _ => middle_step_carry_only w b 0 0 c) (seq 0 (Nat.min gap cap)) c.

Definition normalize_inter_c (cap : nat) (b : Z) (off : Z) (a r0 : list Z) : list Z :=
  let rsz := length r0 in let asz := length a in
  let '(lsh, lo) := split_offset b off in
  let res_end := natc (- lo) 0 (zn rsz) in
  let res_start := natc (zn asz - lo) 0 (zn rsz) in
  let a_end := natc lo 0 (zn asz) in
  let a_start := natc (zn rsz + lo) 0 (zn asz) in
  let a_out := (asz - a_start)%nat in
  let c0 := carry_phase w b lsh a asz a_out in
  let r1 := zero_range r0 res_start rsz in
  let mid := (a_start - a_end)%nat in
  let '(r2, c2) := mid_phase w true b lsh a res_start a_start mid (r1, c0) in
  let c3 := if lo <? 0 then gap_phase_c cap b (Z.to_nat (- lo) - rsz) c2 else c2 in
  fst (top_phase w true b lsh res_end (r2, c3)).

Definition normalize_big (rb ab off : Z) (a r0 : list Z) : option (list Z) :=
  if rb =? ab then Some (normalize_inter_c 128 rb off a r0) else normalize_cross_big rb ab off a r0.

End W.
