(* Executable entry points of the C03 model (key-switching family).
   run_c03   : level L1 — the output ciphertext limbs of glwe_keyswitch(_assign) recomputed from the input limbs and the
               key as dumped before preparation; the constant [1] for the operations checked at level L2 only.
   oracle_c03: level L2 — the property on implementation outputs: phase under the target key minus the expected image
               of the phase of the input (identity, X -> X^g, partial trace, packed slots, extracted coefficient),
               coefficient-wise inside the deterministic envelope (Model/Gadget.v gadget_env: derived there), and the two
               runs from different scratch contents agree.  Record layout: harness/src/ks_common.rs, bin/c03.rs. *)
From PV Require Import Base.MachineInt Model.Znx Model.Limbs Model.Flat Model.Ring Model.Poly Model.DftAbs Model.Gadget Model.GadgetOracle.
From PV Require Model.C04Run.
Open Scope Z_scope.

Definition in_cols (ps : list Z) (flat : list Z) : cols_t := cols_of_flat (h_n ps) (S (h_in_rank ps)) (h_in_size ps) flat.
Definition key_pmat (ps : list Z) (flat : list Z) : pmat := pmat_of_flat (h_n ps) (S (h_key_rout ps) * h_key_size ps) flat.

Definition run_keyswitch (ps : list Z) (vs : list (list Z)) : option (list (list Z)) :=
  match glwe_keyswitch (h_be ps) (h_n ps) (h_in_b ps) (h_key_b ps) (h_out_b ps) (h_key_rout ps) (h_in_size ps) (h_out_size ps)
                       (h_dsize ps) (h_dnum ps) (h_key_size ps) (in_cols ps (v vs 2)) (key_pmat ps (v vs 3)) with
  | Some r => Some [flat_of_cols (h_out_size ps) r]
  | None => None
  end.

Definition run_c03 (code : Z) (ps : list Z) (vs : list (list Z)) : option (list (list Z)) :=
  match code with
  | 3001 | 3002 => run_keyswitch ps vs
  | _ => Some [[1]]
  end.

(* ---------------------------------------------------------------------------------------------------------- *)
Definition sk_in (ps : list Z) (vs : list (list Z)) := polys (h_n ps) (v vs 0).
Definition sk_out (ps : list Z) (vs : list (list Z)) := polys (h_n ps) (v vs 1).
Definition S_out (vs : list (list Z)) : Z := Z.max 1 (pnorm (v vs 1)).
Definition S_in (vs : list (list Z)) : Z := Z.max 1 (pnorm (v vs 0)).
(* flag vector: [the two runs from different scratch contents agree ; cross-backend identity 1 / 0 / 2 = not applicable ; statistics...] *)
Definition flag (ps : list Z) (vs : list (list Z)) (k : nat) : bool :=
  (nthZ (obs ps vs k) 0 =? 1) && negb (nthZ (obs ps vs k) 1 =? 0).
Definition ph_in (ps : list Z) (vs : list (list Z)) (P : Z) (flat : list Z) : list Z :=
  phase_flat P (h_n ps) (h_in_b ps) (h_in_size ps) (h_in_rank ps) (sk_in ps vs) flat.
Definition ph_out (ps : list Z) (vs : list (list Z)) (P : Z) (flat : list Z) : list Z :=
  phase_flat P (h_n ps) (h_out_b ps) (h_out_size ps) (h_out_rank ps) (sk_out ps vs) flat.
Definition within (P : Z) (d : list Z) (env : Z) : bool := tor_norm P d <=? env.

(* 3001/3002: phase_{s_out}(res) - phase_{s_in}(a), |.| <= envelope of one gadget product *)
Definition oracle_keyswitch (ps : list Z) (vs outs : list (list Z)) : Z :=
  let P := prec ps in
  let a := v vs 2 in
  let d := psub (ph_out ps vs P (nth 0 outs [])) (ph_in ps vs P a) in
  ob (flag ps vs 0 && within P d (header_env ps P (dmax a) (S_out vs) (S_in vs) (zn (h_key_rin ps)) true)).

(* 3003/3004: the same relation for every (row, input column) of a GGLWE *)
Definition oracle_gglwe_ks (code : Z) (ps : list Z) (vs : list (list Z)) : Z :=
  let P := prec ps in let n := h_n ps in
  let a_rin := nx ps 3 in
  let rd := if code =? 3003 then nx ps 5 else nx ps 4 in
  let a := v vs 2 in let res := obs ps vs 0 in
  ob (flag ps vs 1 &&
      forallb (fun q =>
        let aq := nth_glwe n (h_in_size ps) (h_in_rank ps) a q in
        let rq := nth_glwe n (h_out_size ps) (h_out_rank ps) res q in
        within P (psub (ph_out ps vs P rq) (ph_in ps vs P aq))
               (header_env ps P (dmax aq) (S_out vs) (S_in vs) (zn (h_key_rin ps)) true)) (seq 0 (rd * a_rin))).

(* 3007: LWE key-switch: scalar phases; the key switches sigma_{-1}(s_in || 0) to sigma_{-1}(s_out || 0) in rank 1 *)
Definition oracle_lwe_ks (ps : list Z) (vs : list (list Z)) : Z :=
  let P := prec ps in
  let a := v vs 2 in
  let d := lwe_phase P (h_out_b ps) (nx ps 4) (v vs 1) (obs ps vs 0) - lwe_phase P (h_in_b ps) (nx ps 3) (v vs 0) a in
  ob (flag ps vs 1 && (zabs_wrap P d <=? header_env ps P (dmax a) (S_out vs) (S_in vs) 1 true)).

(* 3010..3017: automorphism and its add / sub variants; key rows encrypt s under sigma_{g^-1}(s) *)
Definition oracle_automorphism (code : Z) (ps : list Z) (vs : list (list Z)) : Z :=
  let P := prec ps in
  let g := x ps 0 in
  let a := v vs 2 in
  let pa := ph_in ps vs P a in
  let sa := sigmaZ P g pa in
  let want := match code with
              | 3010 | 3011 => sa
              | 3012 | 3013 => padd sa pa
              | 3014 | 3016 => psub sa pa
              | _ => psub pa sa
              end in
  let extra := match code with 3010 | 3011 => 0 | _ => round_env P (h_n ps) (h_out_rank ps) (S_out vs) (h_out_b ps) (h_out_size ps) end in
  ob (flag ps vs 1 && within P (psub (ph_out ps vs P (obs ps vs 0)) want)
                             (header_env ps P (dmax a) (S_out vs) (S_in vs) (zn (h_key_rin ps)) true + extra)).

(* 3020/3021: the automorphism of an automorphism key for p_a with the key for p_b is an automorphism key for p_a p_b:
   its rows decrypt under sigma_{(p_a p_b)^-1}(s) to s_ci 2^-((r+1) b) with error <= error of the input key + one gadget product *)
Definition oracle_atk_automorphism (code : Z) (ps : list Z) (vs : list (list Z)) : Z :=
  let P := prec ps in let n := h_n ps in
  let pa := x ps 0 in let pb := x ps 3 in
  let dnum_a := nx ps 4 in let k_a := x ps 5 in
  let rd := if code =? 3020 then nx ps 6 else dnum_a in
  let g := (pa * pb) mod (2 * zn n) in
  let src := sk_in ps vs in
  let tgt := map (sigmaZ P (ginv n g)) src in
  let eb := h_bound ps * 2 ^ (P - k_a) + header_env ps P (dmax (v vs 2)) (S_out vs) (S_in vs) (zn (h_key_rin ps)) true in
  ob (flag ps vs 2 && ((nthZ (obs ps vs 1) 0 - g) mod (2 * zn n) =? 0) &&
      keyrow_ok P n (h_out_b ps) (h_out_size ps) (h_in_rank ps) (h_in_rank ps) 1 rd eb src tgt (obs ps vs 0)).

(* one glwe_automorphism(_add)_assign on a GLWE of sz limbs of radix b with normalised digits, result in the same shape *)
Definition auto_env (ps : list Z) (vs : list (list Z)) (P : Z) (b : Z) (sz : nat) : Z :=
  shape_env ps P (2 ^ (b - 1)) (S_out vs) (S_in vs) (zn (h_key_rin ps)) true b sz b sz.

(* 3030/3031: partial trace from level skip: keeps the coefficients at multiples of N / 2^skip.
   Every level: rsh(1) (one rounding) + automorphism_add_assign; the averaging maps (1 + sigma)/2 do not increase the sup norm. *)
Definition oracle_trace (code : Z) (ps : list Z) (vs : list (list Z)) : Z :=
  let P := prec ps in let n := h_n ps in
  let skip := nx ps 0 in
  let logn := Z.to_nat (Z.log2 (zn n)) in
  let steps := zn (logn - skip) in
  let a := v vs 2 in
  let kb := h_key_b ps in
  (* working copy: radix of the key *)
  let sz := if code =? 3030
            then Z.to_nat (div_ceil (Z.max (zn (h_in_size ps) * h_in_b ps) (zn (h_out_size ps) * h_out_b ps)) kb)
            else if h_in_b ps =? kb then h_in_size ps else conv_size (h_in_size ps) (h_in_b ps) kb in
  let rnd := round_env P n (h_in_rank ps) (S_out vs) kb sz in
  let env := steps * (auto_env ps vs P kb sz + rnd) + 2 * rnd
             + round_env P n (h_out_rank ps) (S_out vs) (h_out_b ps) (h_out_size ps) in
  let want := proj (n / 2 ^ skip)%nat (ph_in ps vs P a) in
  ob (flag ps vs 1 && within P (psub (ph_out ps vs P (obs ps vs 0)) want) env).

(* 3032: packing: slot i (occupied, multiple of 2^log_gap_out) -> coefficient i receives coefficient 0 of ciphertext i; every
   other coefficient is 0.  L = log N - log_gap_out merge levels (each: one automorphism, roundings), then the trace.
   Errors of the two merged inputs add at each level: (2^L - 1) * level error in the worst case. *)
Definition oracle_pack (ps : list Z) (vs : list (list Z)) : Z :=
  let P := prec ps in let n := h_n ps in
  let lg := nx ps 0 in let mask := x ps 3 in
  let logn := Z.to_nat (Z.log2 (zn n)) in
  let L := (logn - lg)%nat in
  let slots := filter (fun i => Z.testbit mask (zn i)) (seq 0 n) in
  let cts := v vs 2 in
  let phs := map (fun k => ph_in ps vs P (nth_glwe n (h_in_size ps) (h_in_rank ps) cts k)) (seq 0 (length slots)) in
  let want := map (fun i =>
                 if Nat.eqb (i mod 2 ^ lg)%nat 0 then
                   match find (fun q => Nat.eqb (fst q) i) (combine slots phs) with
                   | Some q => nthZ (snd q) 0 | None => 0 end
                 else 0) (seq 0 n) in
  let ib := h_in_b ps in let isz := h_in_size ps in
  let rnd := round_env P n (h_in_rank ps) (S_out vs) ib isz in
  let lvl := shape_env ps P (2 ^ (ib - 1)) (S_out vs) (S_in vs) (zn (h_key_rin ps)) true ib isz ib isz + 6 * rnd in
  let kb := h_key_b ps in
  let sz := Z.to_nat (div_ceil (Z.max (zn isz * ib) (zn (h_out_size ps) * h_out_b ps)) kb) in
  let rk := round_env P n (h_in_rank ps) (S_out vs) kb sz in
  let env := (2 ^ zn L - 1) * lvl + zn lg * (auto_env ps vs P kb sz + rk) + 2 * rk
             + round_env P n (h_out_rank ps) (S_out vs) (h_out_b ps) (h_out_size ps) in
  ob (flag ps vs 1 && within P (psub (ph_out ps vs P (obs ps vs 0)) want) env).

(* 3033: GLWEPacker with log_batch = 0: the i-th call (i = 0 .. N-1, in order) puts coefficient 0 of its ciphertext at
   coefficient bitrev_{log N}(i); calls without a ciphertext leave 0.  The accumulators have the layout of the result. *)
Fixpoint bitrev_aux (bits i acc : nat) : nat :=
  match bits with O => acc | S b => bitrev_aux b (i / 2) (2 * acc + i mod 2) end.
Definition bitrev (bits i : nat) : nat := bitrev_aux bits i 0.
Definition oracle_packer (ps : list Z) (vs : list (list Z)) : Z :=
  let P := prec ps in let n := h_n ps in
  let mask := x ps 3 in
  let logn := Z.to_nat (Z.log2 (zn n)) in
  let slots := filter (fun i => Z.testbit mask (zn i)) (seq 0 n) in
  let cts := v vs 2 in
  let phs := map (fun k => ph_in ps vs P (nth_glwe n (h_in_size ps) (h_in_rank ps) cts k)) (seq 0 (length slots)) in
  let want := map (fun u =>
                 match find (fun q => Nat.eqb (bitrev logn (fst q)) u) (combine slots phs) with
                 | Some q => nthZ (snd q) 0 | None => 0 end) (seq 0 n) in
  let ob_ := h_out_b ps in let osz := h_out_size ps in
  let rnd := round_env P n (h_out_rank ps) (S_out vs) ob_ osz in
  let lvl := shape_env ps P (2 ^ (ob_ - 1)) (S_out vs) (S_in vs) (zn (h_key_rin ps)) true ob_ osz ob_ osz + 6 * rnd in
  let env := (2 ^ zn logn - 1) * lvl + 2 * rnd in
  ob (flag ps vs 1 && within P (psub (ph_out ps vs P (obs ps vs 0)) want) env).

(* 3040: lwe_from_glwe(idx): LWE phase under s_lwe = coefficient idx of the GLWE phase; rows of the key encrypt s_glwe under
   sigma_{-1}(s_lwe || 0) *)
Definition oracle_lwe_from_glwe (ps : list Z) (vs : list (list Z)) : Z :=
  let P := prec ps in
  let a := v vs 2 in
  let d := lwe_phase P (h_out_b ps) (nx ps 3) (v vs 1) (obs ps vs 0) - nthZ (ph_in ps vs P a) (nx ps 0) in
  ob (flag ps vs 1 && (zabs_wrap P d <=? header_env ps P (dmax a) (S_out vs) (S_in vs) (zn (h_key_rin ps)) true)).

(* 3041: glwe_from_lwe: coefficient 0 of the GLWE phase = LWE phase *)
Definition oracle_glwe_from_lwe (ps : list Z) (vs : list (list Z)) : Z :=
  let P := prec ps in
  let a := v vs 2 in
  let d := nthZ (ph_out ps vs P (obs ps vs 0)) 0 - lwe_phase P (h_in_b ps) (nx ps 3) (v vs 0) a in
  ob (flag ps vs 1 && (zabs_wrap P d <=? header_env ps P (dmax a) (S_out vs) (S_in vs) 1 true)).

(* 3042: sample extraction is exact (for any LWE secret s: phase_s(res) = coefficient 0 of the phase under sigma_{-1}(s||0)),
   up to the limbs that do not fit *)
Definition oracle_sample_extract (ps : list Z) (vs : list (list Z)) : Z :=
  let P := prec ps in let n := h_n ps in
  let nl := nx ps 3 in
  let s := v vs 0 in
  let a := v vs 2 in
  let pa := phase_flat P n (h_in_b ps) (h_in_size ps) 1 [lwe_embed P n s] a in
  let d := lwe_phase P (h_out_b ps) nl s (obs ps vs 0) - nthZ pa 0 in
  let env := if Nat.leb (h_in_size ps) (h_out_size ps) then 0
             else (1 + zn nl) * 2 ^ (h_in_b ps) * 2 ^ (P - (zn (h_out_size ps) + 1) * h_in_b ps) in
  ob (zabs_wrap P d <=? env).

(* 3050: the decoded message (k_pt bits at the top) is the same for every gadget shape and equals the encrypted one *)
Definition decode (P kpt : Z) (ph : list Z) : list Z := map (fun c => wrap kpt ((wrap P c + 2 ^ (P - kpt - 1)) / 2 ^ (P - kpt))) ph.
Definition oracle_shapes (ps : list Z) (vs : list (list Z)) : Z :=
  let n := h_n ps in
  let kpt := x ps 3 in let gn := nx ps 4 in
  let q := fun gi j => x ps (5 + 6 * gi + j) in
  let P := fold_left Z.max (map (fun gi => Z.max (q gi 3%nat * q gi 0%nat) (q gi 5%nat * q gi 4%nat)) (seq 0 gn)) (zn (h_in_size ps) * h_in_b ps) + 16 in
  let msg := map (wrap kpt) (v vs 2) in
  let m_in := decode P kpt (ph_in ps vs P (v vs 3)) in
  ob (forallb (fun z => fst z =? snd z) (combine m_in msg) && Nat.eqb (length m_in) (length msg) &&
      forallb (fun gi =>
        let res := obs ps vs gi in
        let ph := phase_flat P n (q gi 4%nat) (Z.to_nat (q gi 5%nat)) (h_out_rank ps) (sk_out ps vs) res in
        forallb (fun z => fst z =? snd z) (combine (decode P kpt ph) msg)) (seq 0 gn)).

(* 3090: rows of a freshly encrypted key: switching key (x0 = 0: s_in under s_out) or automorphism key (x0 = p: s under sigma_{p^-1} s) *)
Definition oracle_keyrows (ps : list Z) (vs : list (list Z)) : Z :=
  let n := h_n ps in let P := prec ps in
  let g := x ps 0 in
  let src := sk_in ps vs in
  let tgt := if g =? 0 then sk_out ps vs else map (sigmaZ P (ginv n g)) src in
  ob (keyrow_ok P n (h_key_b ps) (h_key_size ps) (h_key_rin ps) (h_key_rout ps) (h_dsize ps) (h_dnum ps)
                (h_bound ps * 2 ^ (P - h_key_k ps)) src tgt (obs ps vs 0)).

Definition oracle_c03 (code : Z) (ps : list Z) (vs outs : list (list Z)) : Z :=
  match code with
  | 3001 | 3002 => oracle_keyswitch ps vs outs
  | 3003 | 3004 => oracle_gglwe_ks code ps vs
  | 3007 => oracle_lwe_ks ps vs
  | 3010 | 3011 | 3012 | 3013 | 3014 | 3015 | 3016 | 3017 => oracle_automorphism code ps vs
  | 3020 | 3021 => oracle_atk_automorphism code ps vs
  | 3030 | 3031 => oracle_trace code ps vs
  | 3032 => oracle_pack ps vs
  | 3033 => oracle_packer ps vs
  | 3040 => oracle_lwe_from_glwe ps vs
  | 3041 => oracle_glwe_from_lwe ps vs
  | 3042 => oracle_sample_extract ps vs
  | 3050 => oracle_shapes ps vs
  | 3090 => oracle_keyrows ps vs
  (* GGSW obtained from a GGLWE / by row expansion / by GGSW key-switch / automorphism with the tensor key of the public generator:
     EVERY cell (row, column) against m2 (resp. s_col (x) m2, sigma_g m2): the statement and envelope of Model/C04Run.v *)
  | 3061 => C04Run.oracle_cells_derived 4021 ps vs
  | 3062 => C04Run.oracle_cells_derived 4022 ps vs
  | 3063 => C04Run.oracle_cells_derived 4030 ps vs
  | 3064 => C04Run.oracle_cells_derived 4031 ps vs
  | 3065 => C04Run.oracle_cells_derived 4032 ps vs
  | 3066 => C04Run.oracle_cells_derived 4033 ps vs
  | 3091 => tensor_rows_ok ps vs
  | _ => 2
  end.
