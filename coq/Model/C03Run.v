(* Executable entry points of the C03 model (key-switching family).
   run_c03   : level L1 — the output ciphertext limbs of glwe_keyswitch(_assign) recomputed from the input limbs and the
               key as dumped before preparation; the constant [1] for the operations checked at level L2 only.
   oracle_c03: level L2 — the property on implementation outputs: phase under the target key minus the expected image
               of the phase of the input, coefficient-wise inside the deterministic envelope (Model/Gadget.v). *)
From PV Require Import Base.MachineInt Model.Znx Model.Limbs Model.Flat Model.Ring Model.Poly Model.DftAbs Model.Gadget Model.GadgetOracle.
Open Scope Z_scope.

Definition in_cols (ps : list Z) (flat : list Z) : cols_t := cols_of_flat (h_n ps) (S (h_in_rank ps)) (h_in_size ps) flat.
Definition key_pmat (ps : list Z) (flat : list Z) : pmat := pmat_of_flat (h_n ps) (S (h_key_rout ps) * h_key_size ps) flat.

Definition run_keyswitch (ps : list Z) (vs : list (list Z)) : option (list (list Z)) :=
  match glwe_keyswitch (h_be ps) (h_n ps) (h_in_b ps) (h_key_b ps) (h_out_b ps) (h_key_rout ps) (h_in_size ps) (h_out_size ps)
                       (h_dsize ps) (h_dnum ps) (h_key_size ps) (in_cols ps (v vs 2)) (key_pmat ps (v vs 3)) with
  | Some r => Some [flat_of_cols (h_out_size ps) r]
  | None => None
  end.

Definition run_c03 (code : Z) (ps : list Z) (vs : list (list Z)) : option (list (list Z)) :=
  match code with
  | 3001 | 3002 => run_keyswitch ps vs
  | _ => Some [[1]]
  end.

(* ---------------------------------------------------------------------------------------------------------- *)
Definition sk_in (ps : list Z) (vs : list (list Z)) := polys (h_n ps) (v vs 0).
Definition sk_out (ps : list Z) (vs : list (list Z)) := polys (h_n ps) (v vs 1).

(* phase_{s_out}(res) - phase_{s_in}(a), |.| <= envelope of one gadget product ; the two scratch fills agree *)
Definition oracle_keyswitch (ps : list Z) (vs outs : list (list Z)) : Z :=
  let n := h_n ps in let P := prec ps in
  let a := v vs 2 in
  let res := nth 0 outs [] in
  let d := psub (phase_flat P n (h_out_b ps) (h_out_size ps) (h_out_rank ps) (sk_out ps vs) res)
                (phase_flat P n (h_in_b ps) (h_in_size ps) (h_in_rank ps) (sk_in ps vs) a) in
  let env := header_env ps P (dmax a) (pnorm (v vs 1)) (pnorm (v vs 0)) (zn (h_key_rin ps)) true in
  ob ((nthZ (obs ps vs 0) 0 =? 1) && (tor_norm P d <=? env)).

(* rows of a freshly encrypted key: switching key (x0 = 0: s_in under s_out) or automorphism key (x0 = p: s under sigma_{p^-1} s) *)
Definition oracle_keyrows (ps : list Z) (vs : list (list Z)) : Z :=
  let n := h_n ps in let P := prec ps in
  let g := x ps 0 in
  let src := sk_in ps vs in
  let tgt := if g =? 0 then sk_out ps vs else map (sigmaZ P (ginv n g)) src in
  ob (keyrow_ok P n (h_key_b ps) (h_key_size ps) (h_key_rin ps) (h_key_rout ps) (h_dsize ps) (h_dnum ps)
                (h_bound ps) (h_key_k ps) src tgt (obs ps vs 0)).

Definition oracle_c03 (code : Z) (ps : list Z) (vs outs : list (list Z)) : Z :=
  match code with
  | 3001 | 3002 => oracle_keyswitch ps vs outs
  | 3090 => oracle_keyrows ps vs
  | _ => 2
  end.
