(* C08, integer encoding: poulpy-hal/src/layouts/encoding.rs as it is (release semantics: every `+`, `-`, `<<`, `abs`
   wraps at the word width; hard `assert!`s and slice-length panics are `None`).

   Per coefficient: one list of limbs, most significant first (limb j has weight 2^{-(j+1) b}).
     enc_i64 / enc_i128 / (coefficient form = enc_i64 on one index)      encode_vec_i64 / encode_vec_i128 / encode_coeff_i64
     dec_vec 64 / dec_vec 128 / dec_coeff_i64                               decode_vec_i64 / decode_vec_i128 / decode_coeff_i64
     dec_float                                                          decode_vec_float (exact: value = num / 2^e)
     e_div_round 64 / e_div_round 128                                       div_round_i64 / div_round_i128
   The private normalisation steps of encoding.rs are the kernels of reference/znx/normalization.rs except for the carry,
   which since ba594a2 is `(x >> base2k) + (digit < 0)` (`enc_get_carry`, no `x - digit` that could wrap): `enc_first_step`,
   `enc_middle_step` below; the final step computes no carry and is `final_step_assign` of Model/Znx.v at w = 64.

   Flat layer: the same header as the 81xx records,  ps = dbg n | cols size max col | 0 0 0 0 | b k x y,
   `size` = active limbs (a.size()), `max` = capacity; opcodes 8301.. in `run_c08_enc`, statement in `oracle_c08_enc`. *)
From PV Require Import Base.MachineInt Model.Znx Model.Limbs Model.Flat.
Open Scope Z_scope.

(* ---------------- scalars ---------------- *)

(* k.div_ceil(base2k) *)
Definition enc_size (b k : Z) : nat := Z.to_nat (div_ceil k b).
(* (base2k - (k % base2k)) % base2k *)
Definition enc_krem (b k : Z) : Z := (b - k mod b) mod b.

(* release-mode `abs` *)
Definition wabs (w x : Z) : Z := wrap w (Z.abs x).

(* div_round_i64 / div_round_i128 (private to the module: only ever called with b = 2^rem, 1 <= rem < base2k) *)
Definition e_div_round (w a b : Z) : Z :=
  let q := Z.quot a b in
  let r := Z.rem a b in
  if wmul w 2 (wabs w r) >=? wabs w b then wadd w q (wmul w (Z.sgn a) (Z.sgn b)) else q.

(* ---------------- encoding, one coefficient ---------------- *)

(* get_carry_i64 / get_carry_i128 of encoding.rs: (x >> base2k) + ((digit < 0) as iN) *)
Definition enc_get_carry (w b x d : Z) : Z := wadd w (asr x b) (if d <? 0 then 1 else 0).

(* znx_normalize_first_step_assign (private copy) : x -> (x', c') *)
Definition enc_first_step (b lsh x : Z) : Z * Z :=
  if lsh =? 0 then let d := get_digit 64 b x in (d, enc_get_carry 64 b x d)
  else let d := get_digit 64 (b - lsh) x in (shl 64 d lsh, enc_get_carry 64 (b - lsh) x d).

(* znx_normalize_middle_step_assign (private copy) : (x, c) -> (x', c') *)
Definition enc_middle_step (b lsh x c : Z) : Z * Z :=
  let bl := if lsh =? 0 then b else b - lsh in
  let d := get_digit 64 bl x in
  let cr := enc_get_carry 64 bl x d in
  let dpc := wadd 64 (if lsh =? 0 then d else shl 64 d lsh) c in
  let x1 := get_digit 64 b dpc in
  (x1, wadd 64 cr (enc_get_carry 64 b dpc x1)).

(* limbs size-2 .. 0 (listed in that order) of the in-place loop: middle steps, the last one (limb 0) a final step *)
Fixpoint enc_tail (b lsh : Z) (l : list Z) (c : Z) : list Z :=
  match l with
  | [] => []
  | x :: t =>
      match t with
      | [] => [final_step_assign 64 b lsh x c]
      | _ :: _ => let '(x', c') := enc_middle_step b lsh x c in x' :: enc_tail b lsh t c'
      end
  end.

(* `for j in (0..size).rev() { first (j = size-1) / final (j = 0) / middle }` on limbs [0,size); other limbs kept *)
Definition enc_norm (b lsh : Z) (size : nat) (r : list Z) : list Z :=
  match rev (firstn size r) with
  | [] => r
  | x :: t => let '(x', c) := enc_first_step b lsh x in
              rev (x' :: enc_tail b lsh t c) ++ skipn size r
  end.

(* encode_vec_i64 / encode_coeff_i64: all a_size limbs zeroed, value on limb size-1, normalise with lsh = k_rem.
   Requires 1 <= size <= a_size (checked by the flat layer: `at_mut(col, size-1)` panics otherwise). *)
Definition enc_i64 (b k : Z) (a_size : nat) (v : Z) : list Z :=
  let size := enc_size b k in
  enc_norm b (enc_krem b k) size (upd (zeros a_size) (size - 1) v).

(* first pass of encode_vec_i128: 128-bit digit / carry, least significant digit first, each cast `as i64` *)
Fixpoint enc_digits128 (b : Z) (cnt : nat) (a : Z) : list Z :=
  match cnt with
  | O => []
  | S c => let d := get_digit 128 b a in wrap 64 d :: enc_digits128 b c (enc_get_carry 128 b a d)
  end.

(* encode_vec_i128: base-2^b digits on limbs [0,size), limbs [size,a_size) zeroed, then the same i64 loop with lsh = k_rem *)
Definition enc_i128 (b k : Z) (a_size : nat) (v : Z) : list Z :=
  let size := enc_size b k in
  enc_norm b (enc_krem b k) size (rev (enc_digits128 b size v) ++ zeros (a_size - size)).

(* ---------------- decoding, one coefficient ---------------- *)

(* one Horner step of the decoders: the last limb of a partial precision is divided (rounded) by 2^rem *)
Definition dec_step (w b k : Z) (size : nat) (y : Z) (j : nat) (x : Z) : Z :=
  let rem := b - k mod b in
  if Nat.eqb j (size - 1) && negb (rem =? b)
  then wadd w (shl w y ((b - rem) mod b)) (e_div_round w x (shl w 1 rem))
  else wadd w (shl w y b) x.

(* decode_vec_i64 (w = 64) / decode_vec_i128 (w = 128) *)
Definition dec_vec (w b k : Z) (l : list Z) : Z :=
  let size := enc_size b k in
  let rem := b - k mod b in
  if k <? b then e_div_round w (nthZ l 0) (shl w 1 rem)
  else fold_left (fun y i => dec_step w b k size y i (nthZ l i)) (seq 1 (size - 1)) (nthZ l 0).

(* decode_coeff_i64 *)
Definition dec_coeff_i64 (b k : Z) (l : list Z) : Z :=
  let size := enc_size b k in
  fold_left (fun y j => dec_step 64 b k size y j (nthZ l j)) (seq 0 size) 0.

(* decode_vec_float: Horner from the last limb, y <- (y + x) / 2^b, every operation exact at the context precision
   size*b + 256; a value is the pair (num, e) = num / 2^e *)
Definition dec_float (b : Z) (l : list Z) : Z * Z :=
  fold_left (fun (s : Z * Z) x => (fst s + x * 2 ^ (snd s), snd s + b)) (rev l) (0, 0).

(* how the harness prints an exact integer: W magnitude words of 64 bits, least significant first, each carrying the sign *)
Fixpoint words64 (cnt : nat) (m : Z) : list Z :=
  match cnt with O => [] | S c => (m mod 2 ^ 64) :: words64 c (m / 2 ^ 64) end.
Definition float_words (W : nat) (num : Z) : list Z := map (fun x => Z.sgn num * x) (words64 W (Z.abs num)).
Definition float_nwords (b : Z) (size : nat) : nat := Z.to_nat ((Z.of_nat size * b + 64) / 64 + 1).

(* ---------------- flat layer ---------------- *)

Definition e_p (ps : list Z) (i : nat) : Z := nth i ps 0.
Definition e_v (vs : list (list Z)) (i : nat) : list Z := nth i vs [].
Definition e_shape (ps : list Z) : shape :=
  {| s_n := Z.to_nat (e_p ps 1); s_cols := Z.to_nat (e_p ps 2); s_size := Z.to_nat (e_p ps 3);
     s_max := Z.to_nat (e_p ps 4); s_col := Z.to_nat (e_p ps 5) |}.

(* per-coefficient view of the active limbs of the selected column *)
Definition e_coeffs (s : shape) (buf : list Z) : list (list Z) :=
  transpose (s_n s) (col_limbs (s_n s) (s_cols s) (s_size s) buf (s_col s)).

(* word offset of coefficient idx of limb j of the column *)
Definition e_off (s : shape) (j idx : nat) : nat := (s_n s * (j * s_cols s + s_col s) + idx)%nat.

(* shape preconditions shared by everything (`at` / `at_mut` assert col < cols and limb < size) *)
Definition e_ok (s : shape) (buf : list Z) : bool := shape_ok s buf && Nat.leb 1 (s_n s) && Nat.leb 1 (s_size s).

(* encode_vec_i64 (allow0 = false) / encode_vec_i128 (allow0 = true: k = 0 only zeroes the column) *)
Definition enc_vec_flat (coef : nat -> Z -> list Z) (allow0 : bool) (b k : Z) (s : shape) (buf data : list Z)
  : option (list Z) :=
  let size := enc_size b k in
  if e_ok s buf && Nat.eqb (length data) (s_n s) && (allow0 || Nat.leb 1 size) && Nat.leb size (s_size s)
  then Some (write_col (s_n s) (s_cols s) buf (s_col s) (untranspose (s_size s) (map (coef (s_size s)) data)))
  else None.

(* encode_coeff_i64: only coefficient idx of the active limbs of the column is written *)
Definition enc_coeff_flat (b k : Z) (s : shape) (buf : list Z) (idx : nat) (v : Z) : option (list Z) :=
  let size := enc_size b k in
  if e_ok s buf && Nat.ltb idx (s_n s) && Nat.leb 1 size && Nat.leb size (s_size s)
  then let limbs := enc_i64 b k (s_size s) v in
       Some (fold_left (fun d j => write_at d (e_off s j idx) [nthZ limbs j]) (seq 0 (s_size s)) buf)
  else None.

(* decode_vec_i64 / decode_vec_i128 into a data buffer of dlen words: i64 copies with copy_from_slice (dlen = n required),
   i128 zips (release: the first min(dlen, n) entries are written; debug: dlen >= n asserted) - but its k < base2k branch
   rounds-divides EVERY entry of the data buffer, also those beyond n *)
Definition dec_vec_flat (w b k : Z) (dbg : bool) (s : shape) (buf data0 : list Z) : option (list Z) :=
  let size := enc_size b k in
  let dlen := length data0 in
  if e_ok s buf && ((k <? b) || Nat.leb size (s_size s))
     && (if w =? 64 then Nat.eqb dlen (s_n s) else negb dbg || Nat.leb (s_n s) dlen)
  then Some (firstn dlen (map (dec_vec w b k) (e_coeffs s buf))
             ++ (if k <? b then map (fun x => e_div_round w x (shl w 1 (b - k mod b))) (skipn (s_n s) data0)
                 else skipn (s_n s) data0))
  else None.

Definition dec_coeff_flat (b k : Z) (s : shape) (buf : list Z) (idx : nat) : option Z :=
  let size := enc_size b k in
  if e_ok s buf && Nat.ltb idx (s_n s) && Nat.leb size (s_size s)
  then Some (dec_coeff_i64 b k (nth idx (e_coeffs s buf) []))
  else None.

Definition dec_float_flat (b : Z) (s : shape) (buf : list Z) : option (list (list Z)) :=
  if e_ok s buf
  then Some (map (fun l => float_words (float_nwords b (s_size s)) (fst (dec_float b l))) (e_coeffs s buf))
  else None.

Definition e_bind {A B} (o : option A) (f : A -> option B) : option B :=
  match o with Some x => f x | None => None end.

Definition run_c08_enc (code : Z) (ps : list Z) (vs : list (list Z)) : option (list (list Z)) :=
  let s := e_shape ps in
  let dbg := negb (e_p ps 0 =? 0) in
  let b := e_p ps 10 in let k := e_p ps 11 in
  let buf := e_v vs 0 in let data := e_v vs 1 in
  match code with
  | 8301 => e_bind (enc_vec_flat (enc_i64 b k) false b k s buf data) (fun buf' =>
            e_bind (dec_vec_flat 64 b k dbg s buf' (zeros (s_n s))) (fun d => Some [buf'; d]))
  | 8302 => e_bind (enc_vec_flat (enc_i128 b k) true b k s buf data) (fun buf' =>
            e_bind (dec_vec_flat 128 b k dbg s buf' (zeros (s_n s))) (fun d => Some [buf'; d]))
  | 8303 => let idx := Z.to_nat (e_p ps 12) in
            e_bind (enc_coeff_flat b k s buf idx (nthZ data 0)) (fun buf' =>
            e_bind (dec_coeff_flat b k s buf' idx) (fun d => Some [buf'; [d]]))
  | 8304 => e_bind (dec_vec_flat 64 b k dbg s buf data) (fun d => Some [d])
  | 8305 => e_bind (dec_vec_flat 128 b k dbg s buf data) (fun d => Some [d])
  | 8306 => e_bind (dec_coeff_flat b k s buf (Z.to_nat (e_p ps 12))) (fun d => Some [[d]])
  | 8307 => dec_float_flat b s buf
  | _ => None
  end.

(* ---------------- the statement, evaluated on implementation outputs (spec-level notions only) ---------------- *)

(* integer value of a most-significant-first digit list in radix 2^b *)
Definition e_lval (b : Z) (l : list Z) : Z := fold_left (fun acc x => acc * 2 ^ b + x) l 0.

(* the values a balanced expansion of `size` limbs at precision k can represent: [enc_lo, enc_hi], 2^k of them *)
Definition enc_lo (b k : Z) : Z :=
  let k' := b - enc_krem b k in
  e_lval b (repeat (- 2 ^ (b - 1)) (enc_size b k - 1)) * 2 ^ k' - 2 ^ (k' - 1).
Definition enc_hi (b k : Z) : Z := enc_lo b k + 2 ^ k - 1.
Definition enc_fits (b k v : Z) : bool := (enc_lo b k <=? v) && (v <=? enc_hi b k).

Definition e_in_col (n cols size col idx : nat) : bool :=
  let limb := (idx / n)%nat in Nat.eqb (limb mod cols) col && Nat.ltb (limb / cols) size.

Definition e_ob (c : bool) : Z := if c then 1 else 0.
Definition e_list_eqb (l1 l2 : list Z) : bool :=
  Nat.eqb (length l1) (length l2) && forallb (fun q => fst q =? snd q) (combine l1 l2).

(* one encoded coefficient l (all active limbs) against the value v, and its decoded value d at width w *)
Definition enc_coeff_ok (w b k v d : Z) (l : list Z) : bool :=
  let size := enc_size b k in let krem := enc_krem b k in
  let top := firstn size l in
  forallb (fun x => x =? 0) (skipn size l)
  && forallb (in_rangeb b) top
  && ((e_lval b top - v * 2 ^ krem) mod 2 ^ (Z.of_nat size * b) =? 0)
  && (nthZ l (size - 1) mod 2 ^ krem =? 0)
  && in_rangeb w d
  && ((d - v) mod 2 ^ (Z.min k w) =? 0)
  && (negb (enc_fits b k v) || (d =? v))
  && (negb ((2 <=? b) && (4 * Z.abs v <? 2 ^ k)) || (d =? v)).

Definition oracle_enc_rt (w : Z) (coeff_form : bool) (ps : list Z) (vs outs : list (list Z)) : Z :=
  let s := e_shape ps in
  let b := e_p ps 10 in let k := e_p ps 11 in let idx := Z.to_nat (e_p ps 12) in
  let buf := e_v vs 0 in let data := e_v vs 1 in
  let buf' := e_v outs 0 in let dec := e_v outs 1 in
  if negb (e_ok s buf && (1 <=? b) && (b <=? 62) && (1 <=? k) && (k <=? Z.of_nat (s_size s) * b)
           && forallb (in_rangeb w) data) then 2 else
  let written := fun pos => e_in_col (s_n s) (s_cols s) (s_size s) (s_col s) pos
                            && (negb coeff_form || Nat.eqb (pos mod s_n s) idx) in
  let frame := Nat.eqb (length buf') (length buf)
               && forallb (fun pos => written pos || (nth pos buf' 0 =? nth pos buf 0)) (seq 0 (length buf)) in
  let cs := e_coeffs s buf' in
  let vals := if coeff_form then [(nth idx cs [], (nthZ data 0, nthZ dec 0))]
              else combine cs (combine data dec) in
  e_ob (frame && Nat.eqb (length dec) (if coeff_form then 1 else s_n s)%nat
        && forallb (fun q => enc_coeff_ok w b k (fst (snd q)) (snd (snd q)) (fst q)) vals).

(* decoding limbs that are a clean encoding (balanced digits, last limb a multiple of 2^krem, k <= w - 2) returns their
   exact value; anything else is outside the statement *)
Definition dec_clean_ok (w b k d : Z) (l : list Z) : Z :=
  let size := enc_size b k in let krem := enc_krem b k in
  let top := firstn size l in
  if (1 <=? b) && (b <=? 62) && (1 <=? k) && (k <=? w - 2) && Nat.leb size (length l)
     && forallb (in_rangeb b) top && (nthZ l (size - 1) mod 2 ^ krem =? 0)
  then e_ob (d * 2 ^ krem =? e_lval b top) else 2.

Fixpoint e_min_verdict (l : list Z) : Z :=
  match l with
  | [] => 1
  | x :: t => let m := e_min_verdict t in
              if x =? 0 then 0 else if m =? 0 then 0 else if x =? 2 then 2 else m
  end.

Definition oracle_c08_enc (code : Z) (ps : list Z) (vs outs : list (list Z)) : Z :=
  let s := e_shape ps in
  let b := e_p ps 10 in let k := e_p ps 11 in
  let buf := e_v vs 0 in
  match code with
  | 8301 => oracle_enc_rt 64 false ps vs outs
  | 8302 => oracle_enc_rt 128 false ps vs outs
  | 8303 => oracle_enc_rt 64 true ps vs outs
  | 8304 | 8305 =>
      let w := if code =? 8304 then 64 else 128 in
      if negb (e_ok s buf && Nat.eqb (length (e_v outs 0)) (s_n s)) then 2 else
      e_min_verdict (map (fun q => dec_clean_ok w b k (snd q) (fst q)) (combine (e_coeffs s buf) (e_v outs 0)))
  | 8306 =>
      if negb (e_ok s buf) then 2 else
      dec_clean_ok 64 b k (nthZ (e_v outs 0) 0) (nth (Z.to_nat (e_p ps 12)) (e_coeffs s buf) [])
  | 8307 =>
      (* arbitrary-precision decoding = sum_j limb_j 2^{-(j+1) b}, i.e. e_lval b limbs / 2^(size b), exactly *)
      if negb (e_ok s buf && (1 <=? b) && (b <=? 62)) then 2 else
      let W := float_nwords b (s_size s) in
      e_ob (Nat.eqb (length outs) (s_n s)
            && forallb (fun q => e_list_eqb (snd q) (float_words W (e_lval b (fst q))))
                       (combine (e_coeffs s buf) outs))
  | _ => 2
  end.
