(* NTT120 butterfly networks: executable model of poulpy-cpu-ref/src/reference/ntt120/ntt.rs
   (NttTable::new, NttTableInv::new, ntt_ref, intt_ref and their helpers), one prime at a time (the four residues of a
   q120b element never interact inside the network), plus the interleaved (flat 4n u64) view, opcodes 7201.. .

   Conventions.  A u64 is a Z in [0, 2^64).  Every u64 `+`, `-`, `*`, `<<` of the Rust code is written `W (..)` where W is
   the wrap function: the faithful model takes W = w64 (= wrapu 64, lemma w64_wrapu in Proofs/C07NetLazy.v), the proofs
   also use W = id (the exact integer value of the same expression).  `x & mask` is `Z.land x mask` with the mask
   stored in the metadata as in the Rust structs, `x >> k` is `hi x k` = Z.shiftr (cheap once extracted).
   The tables are kept as one list of twiddle words per level (the Rust code stores them back to back in `powomega`
   and walks them with `po_off`; opcode 7203 compares the concatenation with the real table). *)
From PV Require Import Base.MachineInt Model.DftAbs Model.C07Ntt120.
Open Scope Z_scope.

Definition ones64 : Z := Z.ones 64.
Definition ones32 : Z := Z.ones 32.
Definition w64 (x : Z) : Z := Z.land x ones64.
Definition hi (x k : Z) : Z := Z.shiftr x k.

(* ---------------- precomputation (always real u64 arithmetic) ---------------- *)

(* modq_pow: square-and-multiply, u64 products reduced mod q; np < 2^63 so 64 rounds suffice *)
Fixpoint pow_loop (fuel : nat) (np val res q : Z) : Z :=
  match fuel with
  | O => res
  | S f => if np =? 0 then res
           else pow_loop f (hi np 1) (w64 (val * val) mod q) (if Z.odd np then w64 (res * val) mod q else res) q
  end.
(* exponent reduced to its representative in [0, q-1) with i64 `%` (truncating) *)
Definition exp_red (n q : Z) : Z := Z.rem (Z.rem n (q - 1) + (q - 1)) (q - 1).
Definition modq_pow (x n q : Z) : Z := wrapu 32 (pow_loop 64 (exp_red n q) x 1 q).

(* ceil_log2_u64 *)
Definition clog2 (x : Z) : Z := if x <=? 1 then 0 else Z.log2_up x.

(* fill_reduction_meta: the score of a split point h (max over the four primes), and the first h of least score *)
Definition red_score (P : primeset) (bs h : Z) : Z :=
  fold_left (fun t q => let p := pow2_mod h q in
                        let pb := if p <=? 1 then 0 else clog2 p in
                        let t2 := 1 + Z.max (bs - h + pb) h in
                        if t <? t2 then t2 else t) (ps_Q P) 0.
Definition fill_red (P : primeset) (bs : Z) : Z * Z :=     (* (h, bs_after_reduc) *)
  fold_left (fun st h => let t := red_score P bs h in if t <? snd st then (h, t) else st)
            (map (fun i => bs / 2 + Z.of_nat i) (seq 0 (Z.to_nat (bs - bs / 2))))
            (bs / 2, 2 ^ 64 - 1).

(* per-prime views of NttReducMeta / NttStepMeta *)
Record redmeta := { rm_h : Z; rm_mask : Z; rm_cst : Z }.
Record stepmeta := { sm_q2bs : Z; sm_bs : Z; sm_hb : Z; sm_mask : Z; sm_red : bool }.
Definition mask_of (hb : Z) : Z := w64 (2 ^ hb) - 1.          (* (1u64 << hb) - 1 *)
Definition red_of (P : primeset) (q : Z) : redmeta :=
  let h := fst (fill_red P 64) in {| rm_h := h; rm_mask := mask_of h; rm_cst := pow2_mod h q |}.
Definition bs_red (P : primeset) : Z := snd (fill_red P 64).

(* pack_omega *)
Definition pack_omega (t hb q : Z) : Z := Z.lor (w64 ((w64 (t * 2 ^ hb) mod q) * 2 ^ 32)) t.
(* cnt successive powers: start, start*step, ... (each product a u64 product reduced mod q) *)
Fixpoint pows (cnt : nat) (cur step q : Z) : list Z :=
  match cnt with O => [] | S c => cur :: pows c (w64 (cur * step) mod q) step q end.

Definition pow2n (m : nat) : nat := Nat.pow 2 m.
(* fill_omegas: the 2n-th root used for size n = 2^m *)
Definition omega_n (P : primeset) (k m : nat) : Z := modq_pow (omegak P k) (2 ^ 16 / 2 ^ Z.of_nat m) (qk P k).

(* NttTable::new, butterfly levels: c = log2 nn levels remain, bs = current bit size.
   Returns the metadata of the remaining levels. *)
Fixpoint fwd_metas (bsr logq q : Z) (c : nat) (bs : Z) : list stepmeta :=
  match c with
  | O => []
  | S c' =>
    let do_reduce := bs =? 64 in
    let bs := if do_reduce then bsr else bs in
    let q2bs := w64 (q * 2 ^ (bs - logq)) in
    let '(new_bs, hb) := match c' with
                         | O => (bs + 1, 0)                                   (* nn == 2 *)
                         | S _ => let bs1 := bs + 1 in let hb := (bs1 + 1) / 2 in (Z.max bs1 (hb + logq + 1), hb)
                         end in
    {| sm_q2bs := q2bs; sm_bs := new_bs; sm_hb := hb; sm_mask := match c' with O => 0 | S _ => mask_of hb end; sm_red := do_reduce |}
      :: fwd_metas bsr logq q c' new_bs
  end.
Definition fwd_meta0 (logq : Z) : stepmeta :=
  let hb := (64 + 1) / 2 in {| sm_q2bs := 0; sm_bs := hb + logq + 1; sm_hb := hb; sm_mask := mask_of hb; sm_red := false |}.

(* twiddle words of the butterfly level with nn = 2^c inside a size-2^m table: i = 1 .. nn/2 - 1, step omega^(2n/nn) *)
Definition level_tw (om q hb : Z) (m c : nat) : list Z :=
  let halfnn := pow2n (c - 1) in
  let step := modq_pow om (Z.of_nat (pow2n m / halfnn)) q in
  map (fun t => pack_omega t hb q) (pows (halfnn - 1) step step q).

Record table := { tb_red : redmeta; tb_m0 : stepmeta; tb_tw0 : list Z;          (* the element-wise pass *)
                  tb_metas : list stepmeta; tb_tws : list (list Z) }.            (* butterfly levels in execution order *)

Definition fwd_ms (P : primeset) (k m : nat) : list stepmeta :=
  fwd_metas (bs_red P) (ps_LOG_Q P) (qk P k) m (sm_bs (fwd_meta0 (ps_LOG_Q P))).
Definition fwd_table (P : primeset) (k m : nat) : table :=
  let q := qk P k in let logq := ps_LOG_Q P in
  let om := omega_n P k m in
  let m0 := fwd_meta0 logq in
  let metas := fwd_ms P k m in
  {| tb_red := red_of P q; tb_m0 := m0;
     tb_tw0 := map (fun t => pack_omega t (sm_hb m0) q) (pows (pow2n m) 1 om q);
     tb_metas := metas;
     tb_tws := map (fun lc => level_tw om q (sm_hb (fst lc)) m (snd lc)) (combine metas (rev (seq 1 m))) |}.

(* NttTableInv::new: level nn = 2 first, then nn = 4 .. n (c = log2 nn), then the element-wise pass *)
Definition inv_meta_first (bsr logq q : Z) : stepmeta :=
  let bs := bsr in   (* bs == 64 on entry: reduce *)
  {| sm_q2bs := w64 (q * 2 ^ (bs - logq)); sm_bs := bs + 1; sm_hb := 0; sm_mask := 0; sm_red := true |}.
Fixpoint inv_metas (bsr logq q : Z) (cnt : nat) (bs : Z) : list stepmeta :=
  match cnt with
  | O => []
  | S c' =>
    let do_reduce := bs =? 64 in
    let bs := if do_reduce then bsr else bs in
    let hb := (bs + 1) / 2 in
    let bs_mult := hb + logq + 1 in
    let new_bs := 1 + Z.max bs bs_mult in
    {| sm_q2bs := w64 (q * 2 ^ (bs_mult - logq)); sm_bs := new_bs; sm_hb := hb; sm_mask := mask_of hb; sm_red := do_reduce |}
      :: inv_metas bsr logq q c' new_bs
  end.
Definition inv_meta_last (bsr logq q bs : Z) : stepmeta :=
  let do_reduce := bs =? 64 in
  let bs := if do_reduce then bsr else bs in
  let hb := (bs + 1) / 2 in
  let new_bs := hb + logq + 1 in
  {| sm_q2bs := w64 (q * 2 ^ (new_bs - logq)); sm_bs := new_bs; sm_hb := hb; sm_mask := mask_of hb; sm_red := do_reduce |}.
Definition inv_level_tw (om q hb : Z) (m c : nat) : list Z :=
  let halfnn := pow2n (c - 1) in
  let step := modq_pow om (- Z.of_nat (pow2n m / halfnn)) q in
  map (fun t => pack_omega t hb q) (pows (halfnn - 1) step step q).

Definition inv_ms (P : primeset) (k m : nat) : list stepmeta :=
  let mf := inv_meta_first (bs_red P) (ps_LOG_Q P) (qk P k) in
  mf :: inv_metas (bs_red P) (ps_LOG_Q P) (qk P k) (m - 1) (sm_bs mf).
Definition inv_ml (P : primeset) (k m : nat) : stepmeta :=
  inv_meta_last (bs_red P) (ps_LOG_Q P) (qk P k) (sm_bs (last (inv_ms P k m) (fwd_meta0 0))).
Definition inv_table (P : primeset) (k m : nat) : table :=
  let q := qk P k in
  let om := omega_n P k m in
  let metas := inv_ms P k m in
  let ml := inv_ml P k m in
  {| tb_red := red_of P q; tb_m0 := ml;
     tb_tw0 := map (fun t => pack_omega t (sm_hb ml) q)
                   (pows (pow2n m) (modq_pow (Z.of_nat (pow2n m)) (-1) q) (modq_pow om (-1) q) q);
     tb_metas := metas;
     tb_tws := map (fun lc => inv_level_tw om q (sm_hb (fst lc)) m (snd lc)) (combine metas (seq 1 m)) |}.

(* ---------------- execution ---------------- *)
Section Net.
Variable W : Z -> Z.

(* split_precompmul *)
Definition spm (inp po hb mask : Z) : Z := W (W (Z.land inp mask * Z.land po ones32) + W (hi inp hb * hi po 32)).
(* modq_red *)
Definition mred (x h mask cst : Z) : Z := W (Z.land x mask + W (hi x h * cst)).
Definition pre (rm : redmeta) (sm : stepmeta) (x : Z) : Z := if sm_red sm then mred x (rm_h rm) (rm_mask rm) (rm_cst rm) else x.

(* one (a, b) pair of ntt_butterfly_block / intt_butterfly_block; lane i = 0 carries no twiddle, lane i >= 1 uses word i-1 *)
Definition fwd_lane (rm : redmeta) (sm : stepmeta) (tw : list Z) (i : nat) (a b : Z) : Z * Z :=
  let a := pre rm sm a in let b := pre rm sm b in
  let d := W (W (a + sm_q2bs sm) - b) in
  (W (a + b), match i with O => d | S i' => spm d (nth i' tw 0) (sm_hb sm) (sm_mask sm) end).
Definition inv_lane (rm : redmeta) (sm : stepmeta) (tw : list Z) (i : nat) (a b : Z) : Z * Z :=
  let a := pre rm sm a in let b := pre rm sm b in
  let bo := match i with O => b | S i' => spm b (nth i' tw 0) (sm_hb sm) (sm_mask sm) end in
  (W (a + bo), W (W (a + sm_q2bs sm) - bo)).

(* a block of size 2h: lanes (x_i, x_{h+i}), i < h; first outputs in the low half, second outputs in the high half *)
Definition bfly (g : nat -> Z -> Z -> Z * Z) (x : list Z) : list Z :=
  let h := (length x / 2)%nat in
  let r := map (fun t => g (fst t) (fst (snd t)) (snd (snd t))) (combine (seq 0 h) (combine (firstn h x) (skipn h x))) in
  map fst r ++ map snd r.
Fixpoint blocks (cnt sz : nat) (x : list Z) : list (list Z) :=
  match cnt with O => [] | S c => firstn sz x :: blocks c sz (skipn sz x) end.
(* `while blk < n { block(blk); blk += nn }` *)
Definition level (f : list Z -> list Z) (cnt sz : nat) (x : list Z) : list Z := concat (map f (blocks cnt sz x)).

(* element-wise pass: a[i] = split_precompmul(pre(a[i]), powomega[i]) *)
Definition ewise (rm : redmeta) (sm : stepmeta) (tw x : list Z) : list Z :=
  map (fun t => spm (pre rm sm (fst t)) (snd t) (sm_hb sm) (sm_mask sm)) (combine x tw).

(* forward butterfly levels: c = log2 nn, cnt = n / nn blocks *)
Fixpoint fwd_levels (rm : redmeta) (c cnt : nat) (metas : list stepmeta) (tws : list (list Z)) (x : list Z) : list Z :=
  match c, metas, tws with
  | S c', sm :: metas', tw :: tws' =>
      fwd_levels rm c' (2 * cnt) metas' tws' (level (bfly (fwd_lane rm sm tw)) cnt (pow2n c) x)
  | _, _, _ => x
  end.
(* inverse butterfly levels: c = log2 nn of the current level, `lv` levels remain (so n / nn = 2^(lv-1) blocks) *)
Fixpoint inv_levels (rm : redmeta) (lv c : nat) (metas : list stepmeta) (tws : list (list Z)) (x : list Z) : list Z :=
  match lv, metas, tws with
  | S lv', sm :: metas', tw :: tws' =>
      inv_levels rm lv' (S c) metas' tws' (level (bfly (inv_lane rm sm tw)) (pow2n lv') (pow2n c) x)
  | _, _, _ => x
  end.

(* ntt_ref / intt_ref restricted to one prime; x has n = 2^m entries; n == 1 returns at once *)
Definition ntt_with (T : table) (m : nat) (x : list Z) : list Z :=
  match m with
  | O => x
  | _ => fwd_levels (tb_red T) m 1 (tb_metas T) (tb_tws T) (ewise (tb_red T) (tb_m0 T) (tb_tw0 T) x)
  end.
Definition intt_with (T : table) (m : nat) (x : list Z) : list Z :=
  match m with
  | O => x
  | _ => ewise (tb_red T) (tb_m0 T) (tb_tw0 T) (inv_levels (tb_red T) m 1 (tb_metas T) (tb_tws T) x)
  end.
Definition ntt_k (P : primeset) (k m : nat) (x : list Z) : list Z := ntt_with (fwd_table P k m) m x.
Definition intt_k (P : primeset) (k m : nat) (x : list Z) : list Z := intt_with (inv_table P k m) m x.

(* ---- "no u64 operation wraps": the exact value of every +, -, * is a u64 (evaluated along the execution with W) ---- *)
Definition isu (x : Z) : bool := (0 <=? x) && (x <? 2 ^ 64).
Definition spm_ok (inp po hb mask : Z) : bool :=
  isu (Z.land inp mask * Z.land po ones32) && isu (hi inp hb * hi po 32) &&
  isu (W (Z.land inp mask * Z.land po ones32) + W (hi inp hb * hi po 32)).
Definition mred_ok (x h mask cst : Z) : bool := isu (hi x h * cst) && isu (Z.land x mask + W (hi x h * cst)).
Definition pre_ok (rm : redmeta) (sm : stepmeta) (x : Z) : bool :=
  if sm_red sm then mred_ok x (rm_h rm) (rm_mask rm) (rm_cst rm) else true.
Definition fwd_lane_ok (rm : redmeta) (sm : stepmeta) (tw : list Z) (i : nat) (a b : Z) : bool :=
  pre_ok rm sm a && pre_ok rm sm b &&
  let a := pre rm sm a in let b := pre rm sm b in
  isu (a + b) && isu (a + sm_q2bs sm) && isu (W (a + sm_q2bs sm) - b) &&
  match i with O => true | S i' => spm_ok (W (W (a + sm_q2bs sm) - b)) (nth i' tw 0) (sm_hb sm) (sm_mask sm) end.
Definition inv_lane_ok (rm : redmeta) (sm : stepmeta) (tw : list Z) (i : nat) (a b : Z) : bool :=
  pre_ok rm sm a && pre_ok rm sm b &&
  let a := pre rm sm a in let b := pre rm sm b in
  match i with O => true | S i' => spm_ok b (nth i' tw 0) (sm_hb sm) (sm_mask sm) end &&
  let bo := match i with O => b | S i' => spm b (nth i' tw 0) (sm_hb sm) (sm_mask sm) end in
  isu (a + bo) && isu (a + sm_q2bs sm) && isu (W (a + sm_q2bs sm) - bo).
Definition bfly_ok (g : nat -> Z -> Z -> bool) (x : list Z) : bool :=
  let h := (length x / 2)%nat in
  forallb (fun t => g (fst t) (fst (snd t)) (snd (snd t))) (combine (seq 0 h) (combine (firstn h x) (skipn h x))).
Definition level_ok (f : list Z -> bool) (cnt sz : nat) (x : list Z) : bool := forallb f (blocks cnt sz x).
Definition ewise_ok (rm : redmeta) (sm : stepmeta) (tw x : list Z) : bool :=
  forallb (fun t => pre_ok rm sm (fst t) && spm_ok (pre rm sm (fst t)) (snd t) (sm_hb sm) (sm_mask sm)) (combine x tw).
(* the documented budget: after a level every value is below 2^bs *)
Definition below (bs : Z) (x : list Z) : bool := forallb (fun v => (0 <=? v) && (v <? 2 ^ bs)) x.

(* safe = no wrap in the level and its outputs within the level's `bs` *)
Fixpoint fwd_levels_ok (rm : redmeta) (c cnt : nat) (metas : list stepmeta) (tws : list (list Z)) (x : list Z) : bool :=
  match c, metas, tws with
  | S c', sm :: metas', tw :: tws' =>
      let y := level (bfly (fwd_lane rm sm tw)) cnt (pow2n c) x in
      level_ok (bfly_ok (fwd_lane_ok rm sm tw)) cnt (pow2n c) x && below (sm_bs sm) y &&
      fwd_levels_ok rm c' (2 * cnt) metas' tws' y
  | _, _, _ => true
  end.
Fixpoint inv_levels_ok (rm : redmeta) (lv c : nat) (metas : list stepmeta) (tws : list (list Z)) (x : list Z) : bool :=
  match lv, metas, tws with
  | S lv', sm :: metas', tw :: tws' =>
      let y := level (bfly (inv_lane rm sm tw)) (pow2n lv') (pow2n c) x in
      level_ok (bfly_ok (inv_lane_ok rm sm tw)) (pow2n lv') (pow2n c) x && below (sm_bs sm) y &&
      inv_levels_ok rm lv' (S c) metas' tws' y
  | _, _, _ => true
  end.
Definition ntt_ok_with (T : table) (m : nat) (x : list Z) : bool :=
  match m with
  | O => true
  | _ => let y := ewise (tb_red T) (tb_m0 T) (tb_tw0 T) x in
         ewise_ok (tb_red T) (tb_m0 T) (tb_tw0 T) x && below (sm_bs (tb_m0 T)) y &&
         fwd_levels_ok (tb_red T) m 1 (tb_metas T) (tb_tws T) y
  end.
Definition intt_ok_with (T : table) (m : nat) (x : list Z) : bool :=
  match m with
  | O => true
  | _ => let y := inv_levels (tb_red T) m 1 (tb_metas T) (tb_tws T) x in
         inv_levels_ok (tb_red T) m 1 (tb_metas T) (tb_tws T) x &&
         ewise_ok (tb_red T) (tb_m0 T) (tb_tw0 T) y && below (sm_bs (tb_m0 T)) (ewise (tb_red T) (tb_m0 T) (tb_tw0 T) y)
  end.
End Net.

Definition ntt_safe (P : primeset) (k m : nat) (x : list Z) : bool := ntt_ok_with w64 (fwd_table P k m) m x.
Definition intt_safe (P : primeset) (k m : nat) (x : list Z) : bool := intt_ok_with w64 (inv_table P k m) m x.
(* output_bit_size of the two tables *)
Definition fwd_out_bits (P : primeset) (m : nat) : Z :=
  match m with O => 64 | _ => sm_bs (last (fwd_ms P 0 m) (fwd_meta0 0)) end.
Definition inv_out_bits (P : primeset) (m : nat) : Z :=
  match m with O => 64 | _ => sm_bs (inv_ml P 0 m) end.

(* ---------------- flat (interleaved) view: data[4*i + k] ---------------- *)
Fixpoint cols4 (d : list Z) : list (list Z) :=          (* the four residue columns *)
  match d with
  | a :: b :: c :: e :: r => match cols4 r with
                             | [A; B; C; E] => [a :: A; b :: B; c :: C; e :: E]
                             | _ => [[a]; [b]; [c]; [e]]
                             end
  | _ => [[]; []; []; []]
  end.
Fixpoint weave4 (A B C E : list Z) : list Z :=
  match A, B, C, E with
  | a :: A', b :: B', c :: C', e :: E' => a :: b :: c :: e :: weave4 A' B' C' E'
  | _, _, _, _ => []
  end.
Definition weave (cols : list (list Z)) : list Z := weave4 (nth 0 cols []) (nth 1 cols []) (nth 2 cols []) (nth 3 cols []).
Definition colk (k : nat) (d : list Z) : list Z := nth k (cols4 d) [].
Definition per_prime (f : nat -> list Z -> list Z) (d : list Z) : list Z :=
  weave (map (fun kc => f (fst kc) (snd kc)) (combine (seq 0 4) (cols4 d))).
Definition ntt_ref (P : primeset) (m : nat) (d : list Z) : list Z := per_prime (fun k => ntt_k w64 P k m) d.
Definition intt_ref (P : primeset) (m : nat) (d : list Z) : list Z := per_prime (fun k => intt_k w64 P k m) d.

(* the table as the harness dumps it (dir 0 = NttTable, 1 = NttTableInv):
   [ powomega ; per level: q2bs[0..3] bs half_bs mask reduce ; modulo_red_cst[0..3] mask h ; n input_bit_size output_bit_size ] *)
Definition tb_of (dir : Z) (P : primeset) (k m : nat) : table := if dir =? 0 then fwd_table P k m else inv_table P k m.
Definition tb_words_fwd (T : table) : list Z := tb_tw0 T ++ concat (tb_tws T).
Definition tb_words_inv (T : table) : list Z := concat (tb_tws T) ++ tb_tw0 T.
Definition tb_level_list (dir : Z) (T : table) : list stepmeta :=
  if dir =? 0 then tb_m0 T :: tb_metas T else tb_metas T ++ [tb_m0 T].
Definition table_dump (dir : Z) (P : primeset) (m : nat) : list (list Z) :=
  let Ts := map (fun k => tb_of dir P k m) (seq 0 4) in
  let T0 := tb_of dir P 0 m in
  let rd := map (fun T => rm_cst (tb_red T)) Ts ++ [rm_mask (tb_red T0); rm_h (tb_red T0)] in
  match m with
  | O => [ repeat 0 8; []; rd; [1; 64; 64] ]     (* n == 1: early return, the 8 allocated words are never truncated *)
  | _ =>
    let words := map (fun T => if dir =? 0 then tb_words_fwd T else tb_words_inv T) Ts in
    let lvs := map (tb_level_list dir) Ts in
    let lv0 := tb_level_list dir T0 in
    [ weave words;
      concat (map (fun j => map (fun lv => sm_q2bs (nth j lv (tb_m0 T0))) lvs ++
                            (let s := nth j lv0 (tb_m0 T0) in
                             [sm_bs s; sm_hb s; sm_mask s; if sm_red s then 1 else 0]))
                  (seq 0 (length lv0)));
      rd;
      [Z.of_nat (pow2n m); 64; if dir =? 0 then fwd_out_bits P m else inv_out_bits P m] ]
  end.

(* ---------------- the product pipeline on real functions (opcode 7204) ----------------
   a, b : i64 coefficients -> b_from_znx64 -> ntt_ref ; ntt(b) -> c_from_b (prepared form) ; per coefficient the one-term
   bbc product ; intt_ref ; b_to_znx128.  *)
Definition u32_view (x : list Z) : list Z := flat_map (fun r => [Z.land r ones32; hi r 32]) x.
Definition pipeline (P : primeset) (m : nat) (a b : list Z) : list Z :=
  let n := pow2n m in
  let da := ntt_ref P m (flat_map (b_from_znx64 P) a) in
  let db := ntt_ref P m (flat_map (b_from_znx64 P) b) in
  let prod := concat (map (fun pr => bbc_vec P (u32_view (fst pr)) (c_from_b P (snd pr))) (combine (chunk 4 da) (chunk 4 db))) in
  map (b_to_znx128 P) (chunk 4 (intt_ref P m prod)).

(* ---------------- spec-level notions for the oracle ---------------- *)
(* bit reversal on m bits: sigma *)
Fixpoint brev (m p : nat) : nat :=
  match m with
  | O => O
  | S m' => if Nat.ltb p (pow2n m') then (2 * brev m' p)%nat else (2 * brev m' (p - pow2n m') + 1)%nat
  end.
(* a(z) mod q by Horner *)
Definition heval (q z : Z) (a : list Z) : Z := fold_right (fun c acc => (c + z * acc) mod q) 0 a.
Fixpoint pows_exact (cnt : nat) (cur z q : Z) : list Z :=
  match cnt with O => [] | S c => cur :: pows_exact c ((cur * z) mod q) z q end.

Definition run_c07_net (code : Z) (ps : list Z) (vs : list (list Z)) : option (list (list Z)) :=
  match pset (npar ps 1) with
  | None => None
  | Some P =>
    let m := Z.to_nat (npar ps 2) in
    let x := nvec vs 0 in let y := nvec vs 1 in
    match code with
    | 7201 => Some [ntt_ref P m x]
    | 7202 => Some [intt_ref P m x]
    | 7203 => Some (table_dump (npar ps 3) P m)
    | 7204 => Some [pipeline P m x y]
    | _ => None
    end
  end.

(* oracle:
   7201  out[4p+k] = a_k(psi^(2 brev(p) + 1)) mod Q_k            (psi = the 2n-th root the table uses), n <= 32
   7202  ntt(out) = input residue-wise (so out is the inverse image), n <= 32: checked through the evaluation of out
   7204  out = the exact negacyclic product pmul a b *)
Definition oracle_c07_net (code : Z) (ps : list Z) (vs outs : list (list Z)) : Z :=
  match pset (npar ps 1) with
  | None => 2
  | Some P =>
    let m := Z.to_nat (npar ps 2) in let n := pow2n m in
    let x := nvec vs 0 in let y := nvec vs 1 in let o := nvec outs 0 in
    let b2z (b : bool) : Z := if b then 1 else 0 in
    let evals (k : nat) (a : list Z) : list Z :=      (* the values a(psi^(2 brev(p) + 1)) mod Q_k, p < n *)
      let q := qk P k in
      let pw := pows_exact (2 * n) 1 (omega_n P k m) q in
      let ar := map (fun c => c mod q) a in
      map (fun p => heval q (nth (2 * brev m p + 1) pw 0) ar) (seq 0 n) in
    match code with
    | 7201 => if Nat.leb m 5 then
        b2z (allb (fun k => let e := evals k (colk k x) in
                            allb (fun p => is_u64 (nz o (4 * p + k)) && (nz o (4 * p + k) mod qk P k =? nz e p)) (seq 0 n)) (seq 0 4))
        else 2
    | 7202 => if Nat.leb m 5 then
        b2z (allb (fun k => let e := evals k (colk k o) in
                            allb (fun p => is_u64 (nz o (4 * p + k)) && (nz x (4 * p + k) mod qk P k =? nz e p)) (seq 0 n)) (seq 0 4))
        else 2
    | 7204 => if Nat.leb m 5 then b2z (if list_eq_dec Z.eq_dec o (DftAbs.pmul x y) then true else false) else 2
    | _ => 2
    end
  end.
