(* C17 - bounds-checked twins, second batch: cross-radix normalisation (i64 and the big-accumulator copies of
   Model/LimbsBig.v), add_scalar / sub_scalar, split_ring / merge_rings with their coefficient-level kernels, and the
   DFT-domain shape functions of Model/DftAbs.v.  Same conventions as Model/C17Ops.v: every limb / coefficient access is
   checked (`None` = an index outside the operand), indices are computed with true subtraction.  No proofs here. *)
From PV Require Import Base.MachineInt Model.Znx Model.Limbs Model.LimbsBig Model.Ring Model.DftAbs Model.C17Ops.
Open Scope Z_scope.

Definition getn (l : list Z) (i : nat) : option Z := getc l (zn i).
Definition updn (l : list Z) (i : nat) (x : Z) : option (list Z) := updc l (zn i) x.

Section W.
Variable w : Z.

(* ---------------- cross-radix normalisation ---------------- *)

(* the generic routine: Limbs.normalize_cross = cap 128, LimbsBig.normalize_cross_big = cap 192 (by reflexivity) *)
Definition normalize_cross_g (cap : Z) (rb ab : Z) (off : Z) (a r0 : list Z) : option (list Z) :=
  let rsz := length r0 in let asz := length a in
  let a_tot := zn asz * ab in let r_tot := zn rsz * rb in
  let '(lsh, lo) := split_offset ab off in
  let res_end_bit := clampZ (- lo * ab) 0 r_tot in
  let res_start_bit := clampZ (a_tot - lo * ab) 0 r_tot in
  let a_end_bit := clampZ (lo * ab) 0 a_tot in
  let a_start_bit := clampZ (r_tot + lo * ab) 0 a_tot in
  let res_end := Z.to_nat (res_end_bit / rb) in
  let res_start := Z.to_nat (div_ceil res_start_bit rb) in
  let a_end := Z.to_nat (a_end_bit / ab) in
  let a_start := Z.to_nat (div_ceil a_start_bit ab) in
  let rz := zeros rsz in
  if Nat.eqb res_start 0 then Some rz else
  let a_out := (asz - a_start)%nat in
  let ac0 := carry_phase w ab lsh a asz a_out in
  let mid := (a_start - a_end)%nat in
  let s0 := {| c_res := rz; c_anorm := 0; c_acarry := ac0; c_rcarry := 0; c_atake := 0; c_racc := rb; c_rlimb := (res_start - 1)%nat |} in
  let fuel := (Z.to_nat ab + Z.to_nat rb + 4)%nat in
  let '(s, brk, bad) :=
    fold_left (fun (acc : cstate * bool * bool) j =>
      let '(s, brk, bad) := acc in
      if brk || bad then acc else
      let a_limb := (a_start - j - 1)%nat in
      let '(an, ac) := middle_step w true ab lsh 0 (nthZ a a_limb) (c_acarry s) in
      let s1 := {| c_res := c_res s; c_anorm := an; c_acarry := ac; c_rcarry := c_rcarry s; c_atake := ab;
                   c_racc := c_racc s; c_rlimb := c_rlimb s |} in
      let s2 :=
        if Nat.eqb j 0 then
          if negb ((a_tot - a_start_bit) mod ab =? 0) then
            let take := (a_tot - a_start_bit) mod ab in
            {| c_res := c_res s1; c_anorm := mul_power_of_two w (- take) (c_anorm s1); c_acarry := c_acarry s1; c_rcarry := c_rcarry s1;
               c_atake := c_atake s1 - take; c_racc := c_racc s1; c_rlimb := c_rlimb s1 |}
          else if negb ((r_tot - res_start_bit) mod rb =? 0) then
            {| c_res := c_res s1; c_anorm := c_anorm s1; c_acarry := c_acarry s1; c_rcarry := c_rcarry s1;
               c_atake := c_atake s1; c_racc := c_racc s1 - (r_tot - res_start_bit) mod rb; c_rlimb := c_rlimb s1 |}
          else s1
        else s1 in
      match cross_inner w fuel rb ab a_limb s2 with
      | (s3, InnerDone) => (s3, false, false)
      | (s3, OuterBreak) => (s3, true, false)
      | (s3, Fuel) => (s3, false, true)
      end) (seq 0 mid) (s0, false, false) in
  if bad then None else
  if Nat.eqb res_end 0 then Some (c_res s) else
  let cu := if Nat.eqb a_start a_end then c_acarry s else c_rcarry s in
  let cu' := if Nat.eqb a_start a_end && (lo <? 0)
             then gapbits_phase w 8 (Z.min (Z.max (- lo * ab - r_tot) 0) cap) cu else cu in
  Some (fst (top_phase w false rb 0 res_end (c_res s, cu'))).

(* inner loop: res limb c_rlimb is read and written; `res_limb -= 1` only after the `res_limb == 0` test *)
Fixpoint cross_inner_c (fuel : nat) (rb ab : Z) (a_limb : nat) (s : cstate) : option (cstate * couts) :=
  match fuel with
  | O => Some (s, Fuel)
  | S fuel' =>
    let a_take := Z.min (Z.min ab (c_atake s)) (c_racc s) in
    s1 <- (if a_take =? 0 then Some s else
        let scale := rb - c_racc s in
        xr <- getn (c_res s) (c_rlimb s) ;;
        let '(r', n') := extract_digit_addmul w a_take scale xr (c_anorm s) in
        res' <- updn (c_res s) (c_rlimb s) r' ;;
        Some {| c_res := res'; c_anorm := n'; c_acarry := c_acarry s; c_rcarry := c_rcarry s;
                c_atake := c_atake s - a_take; c_racc := c_racc s - a_take; c_rlimb := c_rlimb s |}) ;;
    if (c_racc s1 =? 0) || Nat.eqb a_limb 0 then
      if Nat.eqb a_limb 0 && (c_atake s1 =? 0) then
        let ac := wadd w (c_acarry s1) (c_anorm s1) in
        p2 <- (if c_racc s1 =? 0 then Some (c_res s1, ac) else
            let scale := rb - c_racc s1 in
            xr <- getn (c_res s1) (c_rlimb s1) ;;
            let '(r', n') := extract_digit_addmul w (c_racc s1) scale xr ac in
            res' <- updn (c_res s1) (c_rlimb s1) r' ;; Some (res', n')) ;;
        let '(res2, ac2) := p2 in
        xr <- getn res2 (c_rlimb s1) ;;
        let '(x, rc) := middle_step_assign w rb 0 xr (c_rcarry s1) in
        res3 <- updn res2 (c_rlimb s1) x ;;
        Some ({| c_res := res3; c_anorm := c_anorm s1; c_acarry := ac2; c_rcarry := wadd w rc ac2;
                 c_atake := c_atake s1; c_racc := c_racc s1; c_rlimb := c_rlimb s1 |}, OuterBreak)
      else if Nat.eqb (c_rlimb s1) 0 then Some (s1, OuterBreak)
      else
        let s2 := {| c_res := c_res s1; c_anorm := c_anorm s1; c_acarry := c_acarry s1; c_rcarry := c_rcarry s1;
                     c_atake := c_atake s1; c_racc := c_racc s1 + rb; c_rlimb := (c_rlimb s1 - 1)%nat |} in
        if c_atake s2 =? 0 then
          Some ({| c_res := c_res s2; c_anorm := c_anorm s2; c_acarry := wadd w (c_acarry s2) (c_anorm s2); c_rcarry := c_rcarry s2;
                   c_atake := c_atake s2; c_racc := c_racc s2; c_rlimb := c_rlimb s2 |}, InnerDone)
        else cross_inner_c fuel' rb ab a_limb s2
    else if c_atake s1 =? 0 then
      Some ({| c_res := c_res s1; c_anorm := c_anorm s1; c_acarry := wadd w (c_acarry s1) (c_anorm s1); c_rcarry := c_rcarry s1;
               c_atake := c_atake s1; c_racc := c_racc s1; c_rlimb := c_rlimb s1 |}, InnerDone)
    else cross_inner_c fuel' rb ab a_limb s1
  end.

Definition normalize_cross_gc (cap : Z) (rb ab : Z) (off : Z) (a r0 : list Z) : option (option (list Z)) :=
  (* outer option: an access left its operand; inner option: the routine's own result (None = out of fuel) *)
  let rsz := length r0 in let asz := length a in
  let a_tot := zn asz * ab in let r_tot := zn rsz * rb in
  let '(lsh, lo) := split_offset ab off in
  let res_end_bit := clampZ (- lo * ab) 0 r_tot in
  let res_start_bit := clampZ (a_tot - lo * ab) 0 r_tot in
  let a_end_bit := clampZ (lo * ab) 0 a_tot in
  let a_start_bit := clampZ (r_tot + lo * ab) 0 a_tot in
  let res_end := Z.to_nat (res_end_bit / rb) in
  let res_start := Z.to_nat (div_ceil res_start_bit rb) in
  let a_end := Z.to_nat (a_end_bit / ab) in
  let a_start := Z.to_nat (div_ceil a_start_bit ab) in
  rz <- zero_range_c r0 0 rsz ;;                          (* `for j in 0..res_size { zero(res.at_mut(col, j)) }` *)
  if Nat.eqb res_start 0 then Some (Some rz) else
  let a_out := (asz - a_start)%nat in
  ac0 <- carry_phase_c w ab lsh a asz a_out ;;
  let mid := (a_start - a_end)%nat in
  let s0 := {| c_res := rz; c_anorm := 0; c_acarry := ac0; c_rcarry := 0; c_atake := 0; c_racc := rb; c_rlimb := (res_start - 1)%nat |} in
  let fuel := (Z.to_nat ab + Z.to_nat rb + 4)%nat in
  st <- foldc (fun (acc : cstate * bool * bool) j =>
      let '(s, brk, bad) := acc in
      if brk || bad then Some acc else
      xa <- getc a (zn a_start - zn j - 1) ;;
      let '(an, ac) := middle_step w true ab lsh 0 xa (c_acarry s) in
      let s1 := {| c_res := c_res s; c_anorm := an; c_acarry := ac; c_rcarry := c_rcarry s; c_atake := ab;
                   c_racc := c_racc s; c_rlimb := c_rlimb s |} in
      let s2 :=
        if Nat.eqb j 0 then
          if negb ((a_tot - a_start_bit) mod ab =? 0) then
            let take := (a_tot - a_start_bit) mod ab in
            {| c_res := c_res s1; c_anorm := mul_power_of_two w (- take) (c_anorm s1); c_acarry := c_acarry s1; c_rcarry := c_rcarry s1;
               c_atake := c_atake s1 - take; c_racc := c_racc s1; c_rlimb := c_rlimb s1 |}
          else if negb ((r_tot - res_start_bit) mod rb =? 0) then
            {| c_res := c_res s1; c_anorm := c_anorm s1; c_acarry := c_acarry s1; c_rcarry := c_rcarry s1;
               c_atake := c_atake s1; c_racc := c_racc s1 - (r_tot - res_start_bit) mod rb; c_rlimb := c_rlimb s1 |}
          else s1
        else s1 in
      r <- cross_inner_c fuel rb ab (a_start - j - 1)%nat s2 ;;
      Some (match r with
            | (s3, InnerDone) => (s3, false, false)
            | (s3, OuterBreak) => (s3, true, false)
            | (s3, Fuel) => (s3, false, true)
            end)) (seq 0 mid) (s0, false, false) ;;
  let '(s, brk, bad) := st in
  if bad then Some None else
  if Nat.eqb res_end 0 then Some (Some (c_res s)) else
  let cu := if Nat.eqb a_start a_end then c_acarry s else c_rcarry s in
  let cu' := if Nat.eqb a_start a_end && (lo <? 0)
             then gapbits_phase w 8 (Z.min (Z.max (- lo * ab - r_tot) 0) cap) cu else cu in
  t <- top_phase_c w false rb 0 res_end (c_res s, cu') ;; Some (Some (fst t)).

(* same-radix routine of LimbsBig.v (gap cap as a parameter): the twin of C17Ops.normalize_inter_c with that cap *)
Definition normalize_inter_cc (cap : nat) (b : Z) (off : Z) (a r0 : list Z) : option (list Z) :=
  let rsz := length r0 in let asz := length a in
  let '(lsh, lo) := split_offset b off in
  let res_end := natc (- lo) 0 (zn rsz) in
  let res_start := natc (zn asz - lo) 0 (zn rsz) in
  let a_end := natc lo 0 (zn asz) in
  let a_start := natc (zn rsz + lo) 0 (zn asz) in
  let a_out := (asz - a_start)%nat in
  c0 <- carry_phase_c w b lsh a asz a_out ;;
  r1 <- zero_range_c r0 res_start rsz ;;
  let mid := (a_start - a_end)%nat in
  s2 <- mid_phase_c w true b lsh a res_start a_start mid (r1, c0) ;;
  let '(r2, c2) := s2 in
  let c3 := if lo <? 0 then gap_phase_c w cap b (Z.to_nat (- lo) - rsz) c2 else c2 in
  s3 <- top_phase_c w true b lsh res_end (r2, c3) ;; Some (fst s3).

(* ---------------- add_scalar / sub_scalar (Ring.v) ---------------- *)
Definition vec_add_scalar_c (n : nat) (sub : bool) (a : list Z) (b : limbs) (b_limb : nat) (r0 : limbs) : option limbs :=
  build_c (length r0) (fun j =>
    if Nat.ltb j (length b) then
      y <- lnthc b j ;;
      Some (if Nat.eqb j b_limb then (if sub then vsub w y a else vadd w a y) else y)
    else Some (zlimb n)).
(* the _assign form is already an option in Ring.v (at_mut asserts res_limb < size); its twin checks the other limbs *)
Definition vec_add_scalar_assign_c (sub : bool) (a : list Z) (res_limb : nat) (r0 : limbs) : option limbs :=
  _ <- lnthc r0 res_limb ;;
  build_c (length r0) (fun j => x <- lnthc r0 j ;;
                                Some (if Nat.eqb j res_limb then (if sub then vsub w x a else vadd w x a) else x)).

(* ---------------- split_ring / merge_rings ---------------- *)
(* coefficient level: znx_switch_ring with checked reads of `a` *)
Definition znx_switch_ring_c (n_out : nat) (r0 a : list Z) : option (list Z) :=
  let n_in := length a in
  if Nat.eqb n_in n_out then Some a
  else if Nat.ltb n_out n_in then
    let gap := (n_in / n_out)%nat in seqo (map (fun t => getn a (t * gap)) (seq 0 n_out))
  else
    let gap := (n_out / n_in)%nat in
    seqo (map (fun t => if Nat.eqb (t mod gap) 0 then getn a (t / gap) else Some 0) (seq 0 n_out)).

Definition vec_split_part_c (n_out : nat) (i : nat) (a r0 : limbs) : option limbs :=
  build_c (length r0) (fun j => if Nat.ltb j (length a)
     then x <- lnthc r0 j ;; y <- lnthc a j ;;
          znx_switch_ring_c n_out x (if Nat.eqb i 0 then y else znx_rotate w (- Z.of_nat i) y)
     else Some (zlimb n_out)).

(* merge: res[gap*t + i] = a_i[t]; part i, limb j, coefficient t all checked *)
Definition vec_merge_rings_c (n_out : nat) (parts : list limbs) (r0 : limbs) : option limbs :=
  let gap := length parts in
  build_c (length r0) (fun j =>
    seqo (map (fun u => let i := (u mod gap)%nat in let t := (u / gap)%nat in
                  ai <- nth_error parts i ;;
                  if Nat.ltb j (length ai) then l <- lnthc ai j ;; getn l t else Some 0) (seq 0 n_out))).

End W.

(* ---------------- DFT-domain shape functions (DftAbs.v) ---------------- *)
Definition limc (l : plimbs) (j : nat) : option (list Z) := nth_error l j.
Definition mk_c (rsz : nat) (f : nat -> option (list Z)) : option plimbs := seqo (map f (seq 0 rsz)).

Definition dft_select_c (n rsz step offset : nat) (a : plimbs) : option plimbs :=
  let steps := ceil_div (length a) step in
  let min_steps := Nat.min rsz steps in
  mk_c rsz (fun j => if Nat.ltb j min_steps then
                       let l := (offset + j * step)%nat in
                       if Nat.ltb l (length a) then limc a l else Some (pzero n)
                     else Some (pzero n)).
Definition dft_add_c (n rsz : nat) (a b : plimbs) : option plimbs :=
  let asz := length a in let bsz := length b in
  mk_c rsz (fun j => if Nat.ltb j (Nat.min asz bsz) then x <- limc a j ;; y <- limc b j ;; Some (padd x y)
                     else if Nat.ltb j (Nat.max asz bsz) then (if Nat.leb asz bsz then limc b j else limc a j)
                     else Some (pzero n)).
Definition dft_sub_c (n rsz : nat) (a b : plimbs) : option plimbs :=
  let asz := length a in let bsz := length b in
  mk_c rsz (fun j => if Nat.ltb j (Nat.min asz bsz) then x <- limc a j ;; y <- limc b j ;; Some (psub x y)
                     else if Nat.ltb j (Nat.max asz bsz) then (if Nat.leb asz bsz then y <- limc b j ;; Some (pneg y) else limc a j)
                     else Some (pzero n)).
Definition dft_add_assign_c (a r0 : plimbs) : option plimbs :=
  mk_c (length r0) (fun j => x <- limc r0 j ;; if Nat.ltb j (length a) then y <- limc a j ;; Some (padd x y) else Some x).
Definition dft_sub_assign_c (a r0 : plimbs) : option plimbs :=
  mk_c (length r0) (fun j => x <- limc r0 j ;; if Nat.ltb j (length a) then y <- limc a j ;; Some (psub x y) else Some x).
Definition dft_sub_negate_assign_c (a r0 : plimbs) : option plimbs :=
  mk_c (length r0) (fun j => x <- limc r0 j ;; if Nat.ltb j (length a) then y <- limc a j ;; Some (psub y x) else Some (pneg x)).
Definition dft_add_scaled_assign_c (scale : Z) (a r0 : plimbs) : option plimbs :=
  let asz := length a in let rsz := length r0 in
  if 0 <? scale then
    let shift := Nat.min (Z.to_nat scale) asz in
    let sum := (Nat.min asz rsz - shift)%nat in
    mk_c rsz (fun j => x <- limc r0 j ;; if Nat.ltb j sum then y <- limc a (j + shift) ;; Some (padd x y) else Some x)
  else if scale <? 0 then
    let shift := Nat.min (Z.to_nat (- scale)) rsz in
    let sum := Nat.min asz (rsz - shift) in
    mk_c rsz (fun j => x <- limc r0 j ;;
                       if Nat.leb shift j && Nat.ltb (j - shift) sum then y <- limc a (j - shift) ;; Some (padd x y) else Some x)
  else dft_add_assign_c a r0.
Definition svp_apply_c (n rsz : nat) (s : list Z) (b : plimbs) : option plimbs :=
  mk_c rsz (fun j => if Nat.ltb j (length b) then y <- limc b j ;; Some (pmul s y) else Some (pzero n)).

(* vmp: the flat views of `a` (a_len polynomials) and of the prepared matrix (nrows x ncols) as checked accessors *)
Definition flat1_c (len : nat) (f : nat -> list Z) (q : nat) : option (list Z) := if Nat.ltb q len then Some (f q) else None.
Definition flat2_c (nrows ncols : nat) (f : nat -> nat -> list Z) (q c : nat) : option (list Z) :=
  if Nat.ltb q nrows && Nat.ltb c ncols then Some (f q c) else None.
Definition vmp_c (n : nat) (rcols rsz : nat) (acols asz : nat) (rows msize limb_offset : nat)
           (aflat : nat -> list Z) (mflat : nat -> nat -> list Z) : nat -> option (list Z) :=
  let nrows := (acols * rows)%nat in
  let ncols := (rcols * msize)%nat in
  let a_len := (acols * asz)%nat in
  let r_len := (rcols * rsz)%nat in
  let row_max := Nat.min nrows a_len in
  let col_max := Nat.min ncols (r_len + limb_offset * rcols) in
  let off := (limb_offset * rcols)%nat in
  fun c =>
    if Nat.leb col_max off then Some (pzero n)
    else if Nat.ltb c (col_max - off) then
      foldc (fun acc q => x <- flat1_c a_len aflat q ;; y <- flat2_c nrows ncols mflat q (c + off)%nat ;; Some (padd acc (pmul x y)))
            (seq 0 row_max) (pzero n)
    else Some (pzero n).
