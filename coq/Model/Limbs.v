(* L2 (per coefficient): the shape logic of reference/vec_znx/{normalize,shift}.rs.
   All kernels act coefficient-wise, so one coefficient = one list of limbs (most significant first,
   limb j has weight 2^{-(j+1) b}).  `a` are the input limbs, `r0` the prior content of the result
   limbs, the result is the new content of the result limbs.  Faithful to the code as it is,
   including the known defects (DESIGN.md section 5); panics are `None`. *)
From PV Require Import Base.MachineInt Model.Znx.
Open Scope Z_scope.

Definition nthZ (l : list Z) (i : nat) : Z := nth i l 0.
Fixpoint upd (l : list Z) (i : nat) (x : Z) : list Z :=
  match l, i with
  | [], _ => []
  | _ :: t, O => x :: t
  | h :: t, S i' => h :: upd t i' x
  end.
Definition zeros (k : nat) : list Z := repeat 0 k.
Definition clampZ (x lo hi : Z) : Z := Z.max lo (Z.min x hi).
Definition natc (x lo hi : Z) : nat := Z.to_nat (clampZ x lo hi).
Definition zn (k : nat) : Z := Z.of_nat k.

Section W.
Variable w : Z.

(* carry of the discarded low limbs a[a_size-1] .. a[a_size-cnt] (first step, then middle steps) *)
Definition carry_phase (b lsh : Z) (a : list Z) (a_size cnt : nat) : Z :=
  fold_left (fun c j =>
    let x := nthZ a (a_size - j - 1) in
    if Nat.eqb j 0 then first_step_carry_only w b lsh x else middle_step_carry_only w b lsh x c)
    (seq 0 cnt) 0.

(* `for j in 0..cnt { (res[rs-j-1], c) = middle_step::<ov>(res[rs-j-1], a[as-j-1], c) }` *)
Definition mid_phase (ov : bool) (b lsh : Z) (a : list Z) (rs as_ cnt : nat) (st : list Z * Z) : list Z * Z :=
  fold_left (fun (s : list Z * Z) j =>
    let '(r, c) := s in
    let '(x, c') := middle_step w ov b lsh (nthZ r (rs - j - 1)) (nthZ a (as_ - j - 1)) c in
    (upd r (rs - j - 1) x, c')) (seq 0 cnt) st.

Definition mid_phase_sub (b lsh : Z) (a : list Z) (rs as_ cnt : nat) (st : list Z * Z) : list Z * Z :=
  fold_left (fun (s : list Z * Z) j =>
    let '(r, c) := s in
    let '(x, c') := middle_step_sub w b lsh (nthZ r (rs - j - 1)) (nthZ a (as_ - j - 1)) c in
    (upd r (rs - j - 1) x, c')) (seq 0 cnt) st.

(* `for j in 0..re { [zero res[re-j-1]]; if j == re-1 final_assign else middle_assign }` *)
Definition top_phase (zero_first : bool) (b lsh : Z) (re : nat) (st : list Z * Z) : list Z * Z :=
  fold_left (fun (s : list Z * Z) j =>
    let '(r, c) := s in
    let i := (re - j - 1)%nat in
    let x0 := if zero_first then 0 else nthZ r i in
    if Nat.eqb j (re - 1) then (upd r i (final_step_assign w b lsh x0 c), c)
    else let '(x, c') := middle_step_assign w b lsh x0 c in (upd r i x, c')) (seq 0 re) st.

(* znx_propagate_carry_through_gap: min(gap, 64) carry-only middle steps over an all-zero limb *)
Definition gap_phase (b : Z) (gap : nat) (c : Z) : Z :=
  fold_left (fun c _ => middle_step_carry_only w b 0 0 c) (seq 0 (Nat.min gap 64)) c.

(* cross-radix: round a carry expressed gap_bits bits below the precision of res (chunks of 32 bits) *)
Fixpoint gapbits_phase (fuel : nat) (g c : Z) : Z :=
  match fuel with
  | O => c
  | S f => if g =? 0 then c else
           let t := Z.min g 32 in gapbits_phase f (g - t) (middle_step_carry_only w t 0 0 c)
  end.

Definition zero_range (r : list Z) (lo hi : nat) : list Z :=
  fold_left (fun r j => upd r j 0) (seq lo (hi - lo)) r.

(* Rust: lsh = off % b ; limbs = off / b (truncating), corrected for negative off *)
Definition split_offset (b off : Z) : Z * Z :=
  let lsh := Z.rem off b in
  let lo := Z.quot off b in
  if (off <? 0) && negb (lsh =? 0) then (Z.rem (lsh + b) b, lo - 1) else (lsh, lo).

(* vec_znx_normalize_inter_base2k *)
Definition normalize_inter (b : Z) (off : Z) (a r0 : list Z) : list Z :=
  let rsz := length r0 in let asz := length a in
  let '(lsh, lo) := split_offset b off in
  let res_end := natc (- lo) 0 (zn rsz) in
  let res_start := natc (zn asz - lo) 0 (zn rsz) in
  let a_end := natc lo 0 (zn asz) in
  let a_start := natc (zn rsz + lo) 0 (zn asz) in
  let a_out := (asz - a_start)%nat in
  let c0 := carry_phase b lsh a asz a_out in
  let r1 := zero_range r0 res_start rsz in
  let mid := (a_start - a_end)%nat in
  let '(r2, c2) := mid_phase true b lsh a res_start a_start mid (r1, c0) in
  let c3 := if lo <? 0 then gap_phase b (Z.to_nat (- lo) - rsz) c2 else c2 in
  fst (top_phase true b lsh res_end (r2, c3)).

(* vec_znx_normalize_assign *)
Definition normalize_assign (b : Z) (r0 : list Z) : list Z :=
  let sz := length r0 in
  fst (fold_left (fun (s : list Z * Z) k =>
    let '(r, c) := s in
    let j := (sz - k - 1)%nat in
    if Nat.eqb j (sz - 1) then let '(x, c') := first_step_assign w b 0 (nthZ r j) in (upd r j x, c')
    else if Nat.eqb j 0 then (upd r j (final_step_assign w b 0 (nthZ r j) c), c)
    else let '(x, c') := middle_step_assign w b 0 (nthZ r j) c in (upd r j x, c')) (seq 0 sz) (r0, 0)).

(* ---------------- cross-radix normalisation ---------------- *)

Record cstate := { c_res : list Z; c_anorm : Z; c_acarry : Z; c_rcarry : Z;
                   c_atake : Z; c_racc : Z; c_rlimb : nat }.
Inductive couts := InnerDone | OuterBreak | Fuel.

Fixpoint cross_inner (fuel : nat) (rb ab : Z) (a_limb : nat) (s : cstate) : cstate * couts :=
  match fuel with
  | O => (s, Fuel)
  | S fuel' =>
    let a_take := Z.min (Z.min ab (c_atake s)) (c_racc s) in
    let s1 :=
      if a_take =? 0 then s else
        let scale := rb - c_racc s in
        let '(r', n') := extract_digit_addmul w a_take scale (nthZ (c_res s) (c_rlimb s)) (c_anorm s) in
        {| c_res := upd (c_res s) (c_rlimb s) r'; c_anorm := n'; c_acarry := c_acarry s; c_rcarry := c_rcarry s;
           c_atake := c_atake s - a_take; c_racc := c_racc s - a_take; c_rlimb := c_rlimb s |} in
    if (c_racc s1 =? 0) || Nat.eqb a_limb 0 then
      if Nat.eqb a_limb 0 && (c_atake s1 =? 0) then
        let ac := wadd w (c_acarry s1) (c_anorm s1) in
        let '(res2, ac2) :=
          if c_racc s1 =? 0 then (c_res s1, ac) else
            let scale := rb - c_racc s1 in
            let '(r', n') := extract_digit_addmul w (c_racc s1) scale (nthZ (c_res s1) (c_rlimb s1)) ac in
            (upd (c_res s1) (c_rlimb s1) r', n') in
        let '(x, rc) := middle_step_assign w rb 0 (nthZ res2 (c_rlimb s1)) (c_rcarry s1) in
        ({| c_res := upd res2 (c_rlimb s1) x; c_anorm := c_anorm s1; c_acarry := ac2; c_rcarry := wadd w rc ac2;
            c_atake := c_atake s1; c_racc := c_racc s1; c_rlimb := c_rlimb s1 |}, OuterBreak)
      else if Nat.eqb (c_rlimb s1) 0 then (s1, OuterBreak)
      else
        let s2 := {| c_res := c_res s1; c_anorm := c_anorm s1; c_acarry := c_acarry s1; c_rcarry := c_rcarry s1;
                     c_atake := c_atake s1; c_racc := c_racc s1 + rb; c_rlimb := (c_rlimb s1 - 1)%nat |} in
        if c_atake s2 =? 0 then
          ({| c_res := c_res s2; c_anorm := c_anorm s2; c_acarry := wadd w (c_acarry s2) (c_anorm s2); c_rcarry := c_rcarry s2;
              c_atake := c_atake s2; c_racc := c_racc s2; c_rlimb := c_rlimb s2 |}, InnerDone)
        else cross_inner fuel' rb ab a_limb s2
    else if c_atake s1 =? 0 then
      ({| c_res := c_res s1; c_anorm := c_anorm s1; c_acarry := wadd w (c_acarry s1) (c_anorm s1); c_rcarry := c_rcarry s1;
          c_atake := c_atake s1; c_racc := c_racc s1; c_rlimb := c_rlimb s1 |}, InnerDone)
    else cross_inner fuel' rb ab a_limb s1
  end.

Definition div_ceil (x y : Z) : Z := (x + y - 1) / y.

(* vec_znx_normalize_cross_base2k; None = out of fuel (never happens; excluded by the theorems) *)
Definition normalize_cross (rb ab : Z) (off : Z) (a r0 : list Z) : option (list Z) :=
  let rsz := length r0 in let asz := length a in
  let a_tot := zn asz * ab in let r_tot := zn rsz * rb in
  let '(lsh, lo) := split_offset ab off in
  let res_end_bit := clampZ (- lo * ab) 0 r_tot in
  let res_start_bit := clampZ (a_tot - lo * ab) 0 r_tot in
  let a_end_bit := clampZ (lo * ab) 0 a_tot in
  let a_start_bit := clampZ (r_tot + lo * ab) 0 a_tot in
  let res_end := Z.to_nat (res_end_bit / rb) in
  let res_start := Z.to_nat (div_ceil res_start_bit rb) in
  let a_end := Z.to_nat (a_end_bit / ab) in
  let a_start := Z.to_nat (div_ceil a_start_bit ab) in
  let rz := zeros rsz in
  if Nat.eqb res_start 0 then Some rz else
  let a_out := (asz - a_start)%nat in
  let ac0 := carry_phase ab lsh a asz a_out in
  let mid := (a_start - a_end)%nat in
  let s0 := {| c_res := rz; c_anorm := 0; c_acarry := ac0; c_rcarry := 0; c_atake := 0; c_racc := rb; c_rlimb := (res_start - 1)%nat |} in
  let fuel := (Z.to_nat ab + Z.to_nat rb + 4)%nat in
  let '(s, brk, bad) :=
    fold_left (fun (acc : cstate * bool * bool) j =>
      let '(s, brk, bad) := acc in
      if brk || bad then acc else
      let a_limb := (a_start - j - 1)%nat in
      let '(an, ac) := middle_step w true ab lsh 0 (nthZ a a_limb) (c_acarry s) in
      let s1 := {| c_res := c_res s; c_anorm := an; c_acarry := ac; c_rcarry := c_rcarry s; c_atake := ab;
                   c_racc := c_racc s; c_rlimb := c_rlimb s |} in
      let s2 :=
        if Nat.eqb j 0 then
          if negb ((a_tot - a_start_bit) mod ab =? 0) then
            let take := (a_tot - a_start_bit) mod ab in
            {| c_res := c_res s1; c_anorm := mul_power_of_two w (- take) (c_anorm s1); c_acarry := c_acarry s1; c_rcarry := c_rcarry s1;
               c_atake := c_atake s1 - take; c_racc := c_racc s1; c_rlimb := c_rlimb s1 |}
          else if negb ((r_tot - res_start_bit) mod rb =? 0) then
            {| c_res := c_res s1; c_anorm := c_anorm s1; c_acarry := c_acarry s1; c_rcarry := c_rcarry s1;
               c_atake := c_atake s1; c_racc := c_racc s1 - (r_tot - res_start_bit) mod rb; c_rlimb := c_rlimb s1 |}
          else s1
        else s1 in
      match cross_inner fuel rb ab a_limb s2 with
      | (s3, InnerDone) => (s3, false, false)
      | (s3, OuterBreak) => (s3, true, false)
      | (s3, Fuel) => (s3, false, true)
      end) (seq 0 mid) (s0, false, false) in
  if bad then None else
  if Nat.eqb res_end 0 then Some (c_res s) else
  let cu := if Nat.eqb a_start a_end then c_acarry s else c_rcarry s in
  let cu' := if Nat.eqb a_start a_end && (lo <? 0)
             then gapbits_phase 8 (Z.min (Z.max (- lo * ab - r_tot) 0) 128) cu else cu in
  Some (fst (top_phase false rb 0 res_end (c_res s, cu'))).

(* vec_znx_normalize: dispatch on equal radices *)
Definition normalize (rb ab off : Z) (a r0 : list Z) : option (list Z) :=
  if rb =? ab then Some (normalize_inter rb off a r0) else normalize_cross rb ab off a r0.

(* ---------------- shifts ---------------- *)

(* vec_znx_lsh_assign *)
Definition lsh_assign (b k : Z) (r0 : list Z) : list Z :=
  let sz := length r0 in
  let steps := Z.to_nat (k / b) in let krem := k mod b in
  if Nat.leb sz steps then zeros sz else
  let r1 := if Nat.eqb steps 0 then r0 else
              map (fun j => if Nat.ltb j (sz - steps) then nthZ r0 (j + steps) else 0) (seq 0 sz) in
  let m := (sz - steps)%nat in
  fst (fold_left (fun (s : list Z * Z) t =>
    let '(r, c) := s in
    let j := (m - t - 1)%nat in
    if Nat.eqb j (m - 1) then let '(x, c') := first_step_assign w b krem (nthZ r j) in (upd r j x, c')
    else if Nat.eqb j 0 then (upd r j (final_step_assign w b krem (nthZ r j) c), c)
    else let '(x, c') := middle_step_assign w b krem (nthZ r j) c in (upd r j x, c')) (seq 0 m) (r1, 0)).

(* carry over a[a_size-1] .. a[start] going down *)
Definition carry_down (b lsh : Z) (a : list Z) (a_size start : nat) : Z :=
  carry_phase b lsh a a_size (a_size - start).

(* vec_znx_lsh<OVERWRITE> *)
Definition lsh (ov : bool) (b k : Z) (a r0 : list Z) : list Z :=
  let rsz := length r0 in let asz := length a in
  let steps := Z.to_nat (k / b) in let krem := k mod b in
  if Nat.leb (Nat.max rsz asz) steps then (if ov then zeros rsz else r0) else
  let min_size := Nat.min rsz (asz - steps) in
  let cstart := Nat.min (steps + min_size) asz in
  let c0 := carry_down b krem a asz cstart in
  let '(r, _) := fold_left (fun (s : list Z * Z) t =>
      let '(r, c) := s in
      let j := (min_size - t - 1)%nat in
      if Nat.eqb j 0 then (upd r j (final_step w ov b krem (nthZ r j) (nthZ a (j + steps)) c), c)
      else let '(x, c') := middle_step w ov b krem (nthZ r j) (nthZ a (j + steps)) c in (upd r j x, c'))
    (seq 0 min_size) (r0, c0) in
  if ov then zero_range r min_size rsz else r.

(* vec_znx_lsh_sub *)
Definition lsh_sub (b k : Z) (a r0 : list Z) : list Z :=
  let rsz := length r0 in let asz := length a in
  let steps := Z.to_nat (k / b) in let krem := k mod b in
  if Nat.leb (Nat.max rsz asz) steps then r0 else
  let min_size := Nat.min rsz (asz - steps) in
  let cstart := Nat.min (steps + min_size) asz in
  let c0 := carry_down b krem a asz cstart in
  fst (fold_left (fun (s : list Z * Z) t =>
      let '(r, c) := s in
      let j := (min_size - t - 1)%nat in
      if Nat.eqb j 0 then (upd r j (final_step_sub w b krem (nthZ r j) (nthZ a (j + steps)) c), c)
      else let '(x, c') := middle_step_sub w b krem (nthZ r j) (nthZ a (j + steps)) c in (upd r j x, c'))
    (seq 0 min_size) (r0, c0)).

Definition rsh_params (b k : Z) : nat * Z :=
  let steps := Z.to_nat (k / b) in
  let krem := k mod b in
  ((if krem =? 0 then steps else S steps), (b - krem) mod b).

(* vec_znx_rsh_assign (after the repair of the carry-propagation order / k = 0 / steps > size) *)
Definition rsh_assign (b k : Z) (r0 : list Z) : list Z :=
  let sz := length r0 in
  let '(steps, lsh) := rsh_params b k in
  let res_end := Nat.min steps sz in
  let c0 := carry_phase b lsh r0 sz res_end in
  let '(r1, c1) := fold_left (fun (s : list Z * Z) j =>
      let '(r, c) := s in
      let '(x, c') := middle_step_assign w b lsh (nthZ r (sz - res_end - j - 1)) c in
      (upd r (sz - j - 1) x, c')) (seq 0 (sz - res_end)) (r0, c0) in
  fst (top_phase false b lsh res_end (zero_range r1 0 res_end, gap_phase b (steps - res_end) c1)).

(* vec_znx_rsh<OVERWRITE> *)
Definition rsh (ov : bool) (b k : Z) (a r0 : list Z) : list Z :=
  let rsz := length r0 in let asz := length a in
  let '(steps, lsh) := rsh_params b k in
  let res_end := Nat.min rsz steps in
  let res_start := Nat.min rsz (asz + steps) in
  let a_start := Nat.min asz (rsz - steps) in
  let a_out := (asz - a_start)%nat in
  let c0 := carry_phase b lsh a asz a_out in
  let r1 := if ov then zeros rsz else r0 in
  let mid := (res_start - res_end)%nat in
  let '(r2, c2) := mid_phase ov b lsh a res_start a_start mid (r1, c0) in
  fst (top_phase false b (if ov then lsh else 0) res_end (r2, gap_phase b (steps - res_end) c2)).

(* vec_znx_rsh_sub *)
Definition rsh_sub (b k : Z) (a r0 : list Z) : list Z :=
  let rsz := length r0 in let asz := length a in
  let '(steps, lsh) := rsh_params b k in
  let res_end := Nat.min rsz steps in
  let res_start := Nat.min rsz (asz + steps) in
  let a_start := Nat.min asz (rsz - steps) in
  let a_out := (asz - a_start)%nat in
  let c0 := carry_phase b lsh a asz a_out in
  let mid := (res_start - res_end)%nat in
  let '(r, c) := mid_phase_sub b lsh a res_start a_start mid (r0, c0) in
  fst (top_phase false b 0 res_end (r, gap_phase b (steps - res_end) (wneg w c))).

End W.
