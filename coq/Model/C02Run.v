(* C02: executable entry points for the correspondence check.
   run_c02    : the model's prediction of the result ciphertext, limb for limb (None = the call panics);
   oracle_c02 : the property statement evaluated on the IMPLEMENTATION's output with spec-level notions only
                (exact phases in Z[X]/(X^n+1), torus values as scaled integers), using the secret of the record.

   Record layouts (numbers: signed hex; flat = VecZnx buffer, limb j of column i at n*(j*cols+i)):
   20xx, xx in 1..19 (one GLWE call, xx = opcode of C02Ops.exec_op) and 2020/2021 (maybe_cross_normalize_to_ref/_mut):
       ps = be n scr k | rb rrank rsize | ab arank asize | bb brank bsize | srank      vs = res ; a ; b ; secret
       out = res'                 (2020/2021: out = [base2k rank size] ; data of the returned ciphertext, input = a, k = target radix)
   2022 ggsw_rotate / 2023 ggsw_rotate_assign:
       ps = be n scr k | rb rrank rsize rdnum rdsize | ab arank asize adnum adsize | srank   vs = res ; a ; secret   out = res'
   2030 (exact operations only) / 2031 (any operation): straight-line program over a register file
       ps = be n scr base2k nregs nops srank | (rank size)*nregs | (opc d x y k)*nops          vs = regs... ; secret
       out (2030) = regs'...        out (2031) = the destination register after each step (nops vectors) *)
From PV Require Import Base.MachineInt Model.Znx Model.Limbs Model.Flat Model.Ring Model.DftAbs Model.C02Ops.
Open Scope Z_scope.

Definition pz (ps : list Z) (i : nat) : Z := nth i ps 0.
Definition pn (ps : list Z) (i : nat) : nat := Z.to_nat (pz ps i).
Definition vv (vs : list (list Z)) (i : nat) : list Z := nth i vs [].

Definition mk_glwe (b : Z) (n rank size : nat) (flat : list Z) : glwe :=
  {| g_b := b; g_n := n; g_size := size;
     g_cols := map (fun i => col_limbs n (S rank) size flat i) (seq 0 (S rank)) |}.
Definition flat_ok (n rank size : nat) (flat : list Z) : bool := Nat.eqb (length flat) (n * S rank * size).
Definition flat_of_glwe (g : glwe) : list Z :=
  concat (map (fun j => concat (map (fun i => nth j (gcol g i) []) (seq 0 (g_ncols g)))) (seq 0 (g_size g))).
Definition sec_of (n srank : nat) (flat : list Z) : list (list Z) :=
  map (fun i => firstn n (skipn (i * n) flat)) (seq 0 srank).

(* operand k (0 = res, 1 = a, 2 = b) of a single-call record *)
Definition opnd (ps : list Z) (vs : list (list Z)) (k : nat) : glwe :=
  mk_glwe (pz ps (4 + 3 * k)) (pn ps 1) (pn ps (5 + 3 * k)) (pn ps (6 + 3 * k)) (vv vs k).
Definition opnd_ok (ps : list Z) (vs : list (list Z)) (k : nat) : bool :=
  flat_ok (pn ps 1) (pn ps (5 + 3 * k)) (pn ps (6 + 3 * k)) (vv vs k).

(* GGSW operand k (0 = res, 1 = a): header at 4 + 5k = base2k rank size dnum dsize *)
Definition chunk (len i : nat) (l : list Z) : list Z := firstn len (skipn (i * len) l).
Definition mk_ggsw (ps : list Z) (vs : list (list Z)) (k : nat) : ggsw :=
  let n := pn ps 1 in
  let b := pz ps (4 + 5 * k) in let rank := pn ps (5 + 5 * k) in let size := pn ps (6 + 5 * k) in
  let dnum := pn ps (7 + 5 * k) in
  let len := (n * S rank * size)%nat in
  {| gs_dsize := pz ps (8 + 5 * k); gs_rank := rank;
     gs_rows := map (fun r => map (fun c => mk_glwe b n rank size (chunk len (r * S rank + c) (vv vs k))) (seq 0 (S rank)))
                    (seq 0 dnum) |}.
Definition ggsw_ok (ps : list Z) (vs : list (list Z)) (k : nat) : bool :=
  Nat.eqb (length (vv vs k)) (pn ps 1 * S (pn ps (5 + 5 * k)) * pn ps (6 + 5 * k) * (pn ps (7 + 5 * k) * S (pn ps (5 + 5 * k)))).
Definition flat_of_ggsw (g : ggsw) : list Z := concat (map (fun row => concat (map flat_of_glwe row)) (gs_rows g)).

(* programs *)
Definition prog_regs (ps : list Z) (vs : list (list Z)) : list glwe :=
  map (fun i => mk_glwe (pz ps 3) (pn ps 1) (pn ps (7 + 2 * i)) (pn ps (8 + 2 * i)) (vv vs i)) (seq 0 (pn ps 4)).
Definition prog_regs_ok (ps : list Z) (vs : list (list Z)) : bool :=
  forallb (fun i => flat_ok (pn ps 1) (pn ps (7 + 2 * i)) (pn ps (8 + 2 * i)) (vv vs i)) (seq 0 (pn ps 4)).
Definition prog_of (ps : list Z) : list instr :=
  let base := (7 + 2 * pn ps 4)%nat in
  map (fun t => {| i_op := pz ps (base + 5 * t); i_d := pn ps (base + 5 * t + 1); i_x := pn ps (base + 5 * t + 2);
                   i_y := pn ps (base + 5 * t + 3); i_k := pz ps (base + 5 * t + 4) |}) (seq 0 (pn ps 5)).

Definition run_c02 (code : Z) (ps : list Z) (vs : list (list Z)) : option (list (list Z)) :=
  let n := pn ps 1 in let scr := pz ps 2 in let k := pz ps 3 in
  if (2001 <=? code) && (code <=? 2019) then
    if opnd_ok ps vs 0 && opnd_ok ps vs 1 && opnd_ok ps vs 2 then
      match exec_op (code - 2000) n scr k (opnd ps vs 0) (opnd ps vs 1) (opnd ps vs 2) with
      | Some g => Some [flat_of_glwe g]
      | None => None
      end
    else None
  else if (code =? 2020) || (code =? 2021) then
    if opnd_ok ps vs 1 then
      match glwe_maybe_cross_normalize n scr k (opnd ps vs 1) with
      | Some g => Some [[g_b g; Z.of_nat (g_rank g); Z.of_nat (g_size g)]; flat_of_glwe g]
      | None => None
      end
    else None
  else if code =? 2022 then
    if ggsw_ok ps vs 0 && ggsw_ok ps vs 1 then
      match ggsw_rotate n k (mk_ggsw ps vs 0) (mk_ggsw ps vs 1) with Some g => Some [flat_of_ggsw g] | None => None end
    else None
  else if code =? 2023 then
    if ggsw_ok ps vs 0 then
      match ggsw_rotate_assign n scr k (mk_ggsw ps vs 0) with Some g => Some [flat_of_ggsw g] | None => None end
    else None
  else if code =? 2030 then
    if prog_regs_ok ps vs then
      match run_prog n scr (prog_of ps) (prog_regs ps vs) with
      | Some regs => Some (map flat_of_glwe regs)
      | None => None
      end
    else None
  else if code =? 2031 then
    if prog_regs_ok ps vs then
      match run_prog_trace n scr (prog_of ps) (prog_regs ps vs) with
      | Some tr => Some (map flat_of_glwe tr)
      | None => None
      end
    else None
  else None.

(* ================================================================================================ *)
(* oracle                                                                                            *)

Definition obz (b : bool) : Z := if b then 1 else 0.
Definition eq_listZ (a b : list Z) : bool :=
  Nat.eqb (length a) (length b) && forallb (fun q => fst q =? snd q) (combine a b).
Definition eq_plimbs (a b : plimbs) : bool :=
  Nat.eqb (length a) (length b) && forallb (fun q => eq_listZ (fst q) (snd q)) (combine a b).

(* exact operations: phase(out) = F(phase x, phase y) limb for limb, under the size rule (missing limbs are 0) *)
Definition oracle_exact (n : nat) (s : list (list Z)) (opc k : Z) (res a b out : glwe) : Z :=
  match exact_F opc k with
  | Some (F, ix, iy) =>
      let x := pick3 ix res a b in let y := pick3 iy res a b in
      obz (eq_plimbs (phase n s out) (pt_map2 F n (g_size res) (phase n s x) (phase n s y)))
  | None => 2
  end.

Definition l1 (p : list Z) : Z := fold_left (fun acc x => acc + Z.abs x) p 0.
Definition all_hr (l : list Z) : bool := forallb (fun x => Z.abs x <=? 2 ^ 60) l.
Definition glwe_hr (g : glwe) : bool := forallb (fun c => forallb all_hr c) (g_cols g).
Fixpoint min_verdict (l : list Z) : Z :=
  match l with [] => 1 | x :: t => let m := min_verdict t in if x =? 0 then 0 else if m =? 0 then 0 else if x =? 2 then 2 else m end.

(* val(phase(out)) = keep * val(phase(res)) + sgn * 2^off * val(phase(a))  (mod 1)  up to an error polynomial
   e_0 + sum_i s_i * e_i with |e_c| <= one unit of out's last limb for every truncated column c:
   coefficient-wise bound  unit * (1 + sum_i ||s_i||_1)  (i over the mask columns of out that meet a secret
   polynomial); 0 when nothing is truncated (every bit of a * 2^off fits in out). *)
Definition oracle_value (n : nat) (s : list (list Z)) (rb ab off keep sgn : Z) (res a out : glwe) : Z :=
  if negb (glwe_hr a && (glwe_hr res || (keep =? 0))) then 2 else
  let rsz := Z.of_nat (g_size out) in let asz := Z.of_nat (g_size a) in
  let P := rsz * rb + asz * ab + Z.abs off + 2 in
  let R := VP P rb n s out in let R0 := VP P rb n s res in let A := VP (P + off) ab n s a in
  let unit := 2 ^ (P - rsz * rb) in
  let exact := asz * ab - off <=? rsz * rb in
  let used := Nat.min (g_rank a) (length s) in   (* only columns that `a` has can be truncated *)
  let bound := if exact then 0 else unit * (1 + fold_left (fun acc i => acc + l1 (nth i s [])) (seq 0 used) 0) in
  obz (Nat.eqb (g_size out) (g_size res) && Nat.eqb (g_ncols out) (g_ncols res) &&
       forallb (fun t => tor_dist P (nthZ R t - keep * nthZ R0 t - sgn * nthZ A t) <=? bound) (seq 0 n)).

Definition oracle_op (n : nat) (s : list (list Z)) (opc k : Z) (res a b out : glwe) : Z :=
  match opc with
  | 6 => if g_b res =? g_b a then oracle_exact n s opc k res a b out
         else oracle_value n s (g_b res) (g_b a) 0 0 (-1) res a out     (* mixed radix: only the value can be compared *)
  | 13 => oracle_value n s (g_b res) (g_b res) (- k) 0 1 res res out
  | 14 => oracle_value n s (g_b res) (g_b res) k 0 1 res res out
  | 15 => oracle_value n s (g_b res) (g_b a) k 0 1 res a out
  | 16 => oracle_value n s (g_b res) (g_b a) k 1 1 res a out
  | 17 => oracle_value n s (g_b res) (g_b a) k 1 (-1) res a out
  | 18 => oracle_value n s (g_b res) (g_b a) 0 0 1 res a out
  | 19 => oracle_value n s (g_b res) (g_b res) 0 0 1 res res out
  | _ => oracle_exact n s opc k res a b out
  end.

Definition oracle_c02 (code : Z) (ps : list Z) (vs outs : list (list Z)) : Z :=
  let n := pn ps 1 in let k := pz ps 3 in
  if (2001 <=? code) && (code <=? 2019) then
    let res := opnd ps vs 0 in
    if negb (flat_ok n (g_rank res) (g_size res) (vv outs 0)) then 0 else
    let out := mk_glwe (g_b res) n (g_rank res) (g_size res) (vv outs 0) in
    oracle_op n (sec_of n (pn ps 13) (vv vs 3)) (code - 2000) k res (opnd ps vs 1) (opnd ps vs 2) out
  else if (code =? 2020) || (code =? 2021) then
    let a := opnd ps vs 1 in
    let hb := nthZ (vv outs 0) 0 in let hr := Z.to_nat (nthZ (vv outs 0) 1) in let hs := Z.to_nat (nthZ (vv outs 0) 2) in
    if negb (flat_ok n hr hs (vv outs 1) && (hb =? k) && Nat.eqb hr (g_rank a)) then 0 else
    let out := mk_glwe hb n hr hs (vv outs 1) in
    (* the returned ciphertext has the target radix, at least the precision of the input, and the same phase value *)
    if negb (Z.of_nat (g_size a) * g_b a <=? Z.of_nat hs * k) then 0 else
    oracle_value n (sec_of n (pn ps 13) (vv vs 3)) k (g_b a) 0 0 1 (zero_glwe k n hr hs) a out
  else if (code =? 2022) || (code =? 2023) then
    if negb (ggsw_ok ps outs 0) then 0 else
    let res := mk_ggsw ps vs 0 in
    let a := if code =? 2022 then mk_ggsw ps vs 1 else res in
    let out := mk_ggsw ps outs 0 in
    let s := sec_of n (pn ps 14) (if code =? 2022 then vv vs 2 else vv vs 1) in
    min_verdict (concat (map (fun r => map (fun c =>
        oracle_exact n s (if code =? 2022 then 9 else 10) k (gs_at res r c) (gs_at a r c) (gs_at a r c) (gs_at out r c))
      (seq 0 (S (gs_rank res)))) (seq 0 (gs_dnum res))))
  else if code =? 2030 then
    let regs := prog_regs ps vs in
    let nregs := pn ps 4 in
    let s := sec_of n (pn ps 6) (vv vs nregs) in
    if negb (Nat.eqb (length outs) nregs && prog_regs_ok ps outs) then 0 else
    let outs_g := prog_regs ps outs in
    let expect := pt_prog n (prog_of ps) (map (phase n s) regs) in
    obz (Nat.eqb (length expect) nregs &&
         forallb (fun q => eq_plimbs (phase n s (fst q)) (snd q)) (combine outs_g expect))
  else if code =? 2031 then
    (* step by step on the implementation's own states: each step must satisfy its statement
       (exact limb-wise phase equality, or the value statement for shift / normalise) *)
    let nregs := pn ps 4 in
    let s := sec_of n (pn ps 6) (vv vs nregs) in
    let prog := prog_of ps in
    if negb (Nat.eqb (length outs) (length prog)) then 0 else
    min_verdict (fst (fold_left (fun (st : list Z * list glwe) (q : instr * list Z) =>
        let '(vds, regs) := st in let '(ins, o) := q in
        let res := reg regs (i_d ins) in
        if negb (flat_ok n (g_rank res) (g_size res) o) then (vds ++ [0], regs) else
        let out := mk_glwe (g_b res) n (g_rank res) (g_size res) o in
        (vds ++ [oracle_op n s (i_op ins) (i_k ins) res (reg regs (i_x ins)) (reg regs (i_y ins)) out],
         set_nth regs (i_d ins) out))
      (combine prog outs) ([], prog_regs ps vs)))
  else 2.
