(* Direct oracle for C09: the implementation's result buffer must equal the spec-level image written into the
   selected column (every other word unchanged).  Expected limbs are computed from Poly.v / plain limb-wise
   arithmetic and the documented size rule, not from the code-shaped model. *)
From PV Require Import Base.MachineInt Model.Znx Model.Limbs Model.Flat Model.Ring Model.Poly Model.C09Run Model.C09Big.
Open Scope Z_scope.

Definition obz (b : bool) : Z := if b then 1 else 0.
Definition eq_list (a b : list Z) : bool :=
  Nat.eqb (length a) (length b) && forallb (fun q => fst q =? snd q) (combine a b).

(* size rule: limb j of the result from the operands' limb j when present, "missing" operand limbs are 0 *)
Definition lz (n : nat) (l : limbs) (j : nat) : list Z := if Nat.ltb j (length l) then lnth l j else zlimb n.

Definition expect (code : Z) (ps : list Z) (n : nat) (al bl r0 : limbs) : option limbs :=
  let w := 64 in
  let rsz := length r0 in
  let e0 := ex ps 0 in
  match code with
  | 9001 => Some (build rsz (fun j => vadd w (lz n al j) (lz n bl j)))
  | 9002 => Some (build rsz (fun j => vadd w (lnth r0 j) (lz n al j)))
  | 9003 => Some (build rsz (fun j => vsub w (lz n al j) (lz n bl j)))
  | 9004 => Some (build rsz (fun j => vsub w (lnth r0 j) (lz n al j)))
  | 9005 => Some (build rsz (fun j => vsub w (lz n al j) (lnth r0 j)))
  | 9006 => Some (build rsz (fun j => vneg w (lz n al j)))
  | 9007 => Some (map (vneg w) r0)
  | 9008 => Some (build rsz (fun j => if Nat.eqb j (Z.to_nat e0) then vadd w (lnth al 0) (lz n bl j) else lz n bl j))
  | 9009 => Some (build rsz (fun j => if Nat.eqb j (Z.to_nat e0) then vadd w (lnth r0 j) (lnth al 0) else lnth r0 j))
  | 9010 => Some (build rsz (fun j => if Nat.eqb j (Z.to_nat e0) then vsub w (lz n bl j) (lnth al 0) else lz n bl j))
  | 9011 => Some (build rsz (fun j => if Nat.eqb j (Z.to_nat e0) then vsub w (lnth r0 j) (lnth al 0) else lnth r0 j))
  | 9012 => Some (build rsz (fun j => lz n al j))
  | 9013 => Some (build rsz (fun _ => zlimb n))
  | 9014 => Some (build rsz (fun j => monomial_mul w e0 (lz n al j)))
  | 9015 => Some (map (monomial_mul w e0) r0)
  | 9016 => Some (build rsz (fun j => vsub w (monomial_mul w e0 (lz n al j)) (lz n al j)))
  | 9017 => Some (map (fun l => vsub w (monomial_mul w e0 l) l) r0)
  | 9018 => Some (build rsz (fun j => sigma w e0 (lz n al j)))
  | 9019 => Some (map (sigma w e0) r0)
  | _ => None
  end.

Definition oracle_c09 (code : Z) (ps : list Z) (vs outs : list (list Z)) : Z :=
  let w := 64 in
  let rs := shp ps 0 in let sa := shp ps 1 in let sb := shp ps 2 in
  let n := s_n rs in
  if (9100 <=? code) && (code <? 9200) then oracle_c09_big code ps vs outs else
  if code =? 9020 then
    let a := getcol sa (v vs 1) in let r0 := getcol rs (v vs 0) in
    let f := fun l => if Nat.eqb (s_n sa) n then l else if Nat.ltb n (s_n sa) then subsample n l else embed n l in
    obz (eq_list (v outs 0) (putcol rs (v vs 0) (build (length r0) (fun j => if Nat.ltb j (length a) then f (lnth a j) else zlimb n))))
  else if code =? 9021 then
    let a := getcol sa (v vs 0) in
    let parts0 := tl vs in
    obz (Nat.eqb (length parts0) (length outs) &&
         forallb (fun q => let i := fst (fst q) in let d0 := snd (fst q) in let d1 := snd q in
                    let r0 := getcol rs d0 in
                    eq_list d1 (putcol rs d0 (build (length r0) (fun j =>
                       if Nat.ltb j (length a) then subsample n (monomial_mul w (- Z.of_nat i) (lnth a j)) else zlimb n))))
                 (combine (combine (seq 0 (length parts0)) parts0) outs))
  else if code =? 9023 then
    (* split into parts of different limb counts: part i has ex i active limbs *)
    let a := getcol sa (v vs 0) in
    let parts0 := tl vs in
    obz (Nat.eqb (length parts0) (length outs) &&
         forallb (fun q => let i := fst (fst q) in let d0 := snd (fst q) in let d1 := snd q in
                    let rsi := with_size rs (Z.to_nat (ex ps i)) in
                    let r0 := getcol rsi d0 in
                    eq_list d1 (putcol rsi d0 (build (length r0) (fun j =>
                       if Nat.ltb j (length a) then subsample n (monomial_mul w (- Z.of_nat i) (lnth a j)) else zlimb n))))
                 (combine (combine (seq 0 (length parts0)) parts0) outs))
  else if code =? 9024 then
    let parts := map (fun q => getcol (with_size sa (Z.to_nat (ex ps (fst q)))) (snd q)) (combine (seq 0 (length (tl vs))) (tl vs)) in
    let r0 := getcol rs (v vs 0) in
    obz (eq_list (v outs 0) (putcol rs (v vs 0) (build (length r0) (fun j =>
          interleave n (map (fun pl => lz (s_n sa) pl j) parts)))))
  else if code =? 9022 then
    let parts := map (getcol sa) (tl vs) in let r0 := getcol rs (v vs 0) in
    obz (eq_list (v outs 0) (putcol rs (v vs 0) (build (length r0) (fun j =>
          interleave n (map (fun pl => lz (s_n sa) pl j) parts)))))
  else
  match expect code ps n (getcol sa (v vs 1)) (getcol sb (v vs 2)) (getcol rs (v vs 0)) with
  | Some l => obz (eq_list (v outs 0) (putcol rs (v vs 0) l))
  | None => 2
  end.
