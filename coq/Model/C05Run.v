(* Executable entry point of the C05 model (correspondence with harness/src/bin/c05.rs).
   Part 1, HAL convolution:   header  be n | rcols rsize rcol | acols asize acol | bcols bsize bcol | pasz pbsz cnv_offset mask_a mask_b ci cj
   Part 2, core level 1:      header  be n rank ab_base2k res_base2k a_k b_k res_k cnv_offset
   Part 2, core level 2:      see C05Oracle.v (the model does not re-run the key-dependent part; outputs are judged by the oracle) *)
From PV Require Import Base.MachineInt Model.Znx Model.Limbs Model.LimbsBig Model.Flat Model.Ring Model.DftAbs Model.C05Cnv Model.C05Core.
From PV Require Model.Gadget Model.C05Relin.
Open Scope Z_scope.

Definition p (ps : list Z) (i : nat) : Z := nth i ps 0.
Definition v (vs : list (list Z)) (i : nat) : list Z := nth i vs [].
Definition np (ps : list Z) (i : nat) : nat := Z.to_nat (p ps i).

Definition colof (n cols size col : nat) (d : list Z) : plimbs := col_limbs n cols size d col.
Definition cols_of (n cols size : nat) (d : list Z) : list limbs := map (fun c => colof n cols size c d) (seq 0 cols).
(* flat VecZnx layout of a list of columns: limb j of column c at n*(j*cols+c) *)
Definition flat_of (cols size : nat) (g : list limbs) : list Z :=
  concat (map (fun q => lim (nth (q mod cols) g []) (q / cols)) (seq 0 (cols * size))).

Definition is_fft (ps : list Z) : bool := p ps 0 <=? 2.

(* ---------------- part 1 ---------------- *)
Definition hal_operands (code : Z) (ps : list Z) (vs : list (list Z)) : plimbs * plimbs :=
  let n := np ps 1 in
  let acols := np ps 5 in let asz := np ps 6 in let acol := np ps 7 in
  let bcols := np ps 8 in let bsz := np ps 9 in let bcol := np ps 10 in
  let pasz := np ps 11 in let pbsz := np ps 12 in
  let ma := p ps 14 in let mb := p ps 15 in
  let ci := np ps 16 in let cj := np ps 17 in
  let pa c := cnv_prepare n pasz ma (colof n acols asz c (v vs 0)) in
  let pb c := cnv_prepare n pbsz mb (colof n bcols bsz c (v vs 1)) in
  if code =? 5001 then (pa acol, pb bcol)
  else if code =? 5002 then
    (if Nat.eqb ci cj then (pa ci, pb ci) else (plimbs_add (pa ci) (pa cj), plimbs_add (pb ci) (pb cj)))
  else if code =? 5004 then (pa acol, cnv_prepare n pasz ma (colof n acols asz bcol (v vs 0)))
  else (colof n acols asz acol (v vs 0), map (pconst n) (v vs 1)).

Definition run_hal (code : Z) (ps : list Z) (vs : list (list Z)) : option (list (list Z)) :=
  let n := np ps 1 in let fft := is_fft ps in
  let rcols := np ps 2 in let rsz := np ps 3 in let rcol := np ps 4 in
  let off := np ps 13 in
  let '(A, B) := hal_operands code ps vs in
  let byc := code =? 5003 in
  let o := cnv_off (length A) (length B) off in
  let ms := cnv_min_size fft rsz (length A) (length B) off in
  let f := fun k => let c := cnv_coeff n A B (k + o) in if byc then map (wrap (if fft then 64 else 128)) c else c in
  Some [cnv_store n rcols rsz rcol ms f (v vs 2); [1]].

(* ---------------- part 2, level 1 ---------------- *)
Definition run_core (code : Z) (ps : list Z) (vs : list (list Z)) : option (list (list Z)) :=
  let n := np ps 1 in let fft := is_fft ps in
  let rank := np ps 2 in let cols := S rank in let tcols := (cols * (cols + 1) / 2)%nat in
  let ab := p ps 3 in let rb := p ps 4 in
  let a_k := p ps 5 in let b_k := p ps 6 in let res_k := p ps 7 in let cnv := p ps 8 in
  let sz k b := Z.to_nat ((k + b - 1) / b) in
  let asz := sz a_k ab in let bsz := sz b_k ab in let rsz := sz res_k rb in
  let out cs size g := match g with Some g => Some [flat_of cs size g; [1]] | None => None end in
  if (code =? 5101) || (code =? 5102) then
    out tcols rsz (glwe_tensor fft n (code - 5101) cnv rank ab rb a_k b_k
                     (cols_of n cols asz (v vs 0)) (cols_of n cols bsz (v vs 1)) (cols_of n tcols rsz (v vs 2)))
  else if code =? 5103 then
    let a := cols_of n cols asz (v vs 0) in
    out tcols rsz (glwe_tensor fft n 2 cnv rank ab rb a_k a_k a a (cols_of n tcols rsz (v vs 2)))
  else if code =? 5104 then
    out cols rsz (glwe_mul_plain fft n cnv ab rb a_k b_k (cols_of n cols asz (v vs 0)) (colof n 1 bsz 0 (v vs 1))
                    (cols_of n cols rsz (v vs 2)))
  else if code =? 5105 then
    let a := cols_of n cols asz (v vs 0) in
    out cols asz (glwe_mul_plain fft n cnv ab ab a_k b_k a (colof n 1 bsz 0 (v vs 1)) a)
  else if code =? 5106 then
    out cols rsz (glwe_mul_const fft n false cnv ab rb (cols_of n cols asz (v vs 0)) (v vs 1) (cols_of n cols rsz (v vs 2)))
  else if code =? 5107 then
    let a := cols_of n cols asz (v vs 0) in
    out cols asz (glwe_mul_const fft n true cnv ab ab a (v vs 1) a)
  else None.

(* ---------------- part 2, level 1: relinearisation (opcode 5108) ----------------
   header: be n rank ab kb rb a_size res_size dsize dnum msize ; vs[0] = tensor.data, vs[1] = tensor key before preparation
   (for q = row*pairs + ci, for c = limb*cols + co : n coefficients, the order of Gadget.pmat_of_flat) ; output = res.data *)
Definition run_relin (ps : list Z) (vs : list (list Z)) : option (list (list Z)) :=
  let n := np ps 1 in let rank := np ps 2 in let cols := S rank in let tcols := (cols * (cols + 1) / 2)%nat in
  let ab := p ps 3 in let kb := p ps 4 in let rb := p ps 5 in
  let a_size := np ps 6 in let res_size := np ps 7 in let dsize := np ps 8 in let dnum := np ps 9 in let msize := np ps 10 in
  let T := Gadget.cols_of_flat n tcols a_size (v vs 0) in
  let K := Gadget.pmat_of_flat n (msize * cols) (v vs 1) in
  match C05Relin.glwe_relinearize (p ps 0) n ab kb rb rank a_size res_size dsize dnum msize T K with
  | Some r => Some [Gadget.flat_of_cols res_size r; [1]]
  | None => None
  end.

Definition run_c05 (code : Z) (ps : list Z) (vs : list (list Z)) : option (list (list Z)) :=
  if code =? 5108 then run_relin ps vs else
  if code <? 5100 then run_hal code ps vs
  else if code <? 5200 then run_core code ps vs
  else None.

