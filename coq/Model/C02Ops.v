(* C02 model: GLWE / GGSW ciphertext operations of poulpy-core as column loops over the vec_znx
   operations of Model/Ring.v (exact ring ops) and Model/Limbs.v (normalise / shift, per coefficient).

   Transcribed from  poulpy-core/src/api/operations.rs  (GLWEAdd, GLWESub, GLWENegate, GLWECopy: the trait
   bodies are the code that runs) and  poulpy-core/src/operations/{glwe,ggsw}.rs  (GLWERotateDefault,
   GLWEMulXpMinusOneDefault, GLWEShiftDefault, GLWENormalizeDefault, GGSWRotateDefault: the api traits
   delegate to these through delegates/operations.rs and oep/operations.rs; the text is identical).

   A GLWE is a VecZnx with rank+1 columns that all share the same number of limbs (`size`); column 0 is the
   body.  `None` = the call panics (an assert of the function, an out-of-range column access in the HAL, or a
   scratch request that cannot be served).  Word arithmetic wraps at 64 bits (release semantics) -- that is
   what Ring.v / Limbs.v model.  No proofs in this file. *)
From PV Require Import Base.MachineInt Model.Znx Model.Limbs Model.Flat Model.Ring Model.DftAbs.
Open Scope Z_scope.

Definition W64 : Z := 64.

(* ------------------------------------------------------------------------------------------------ *)
(* layouts                                                                                          *)

Record glwe := { g_b : Z;               (* base2k *)
                 g_n : nat;             (* ring degree *)
                 g_size : nat;          (* limbs per column *)
                 g_cols : list limbs }. (* rank+1 columns, each a list of g_size limbs of g_n words *)

Definition g_ncols (g : glwe) : nat := length (g_cols g).
Definition g_rank (g : glwe) : nat := (g_ncols g - 1)%nat.
Definition gcol (g : glwe) (i : nat) : limbs := nth i (g_cols g) [].
Definition with_cols (g : glwe) (cs : list limbs) : glwe :=
  {| g_b := g_b g; g_n := g_n g; g_size := g_size g; g_cols := cs |}.
(* rewrite every column i of g with f i (old column) *)
Definition mapi_cols (g : glwe) (f : nat -> limbs -> limbs) : glwe :=
  with_cols g (map (fun i => f i (gcol g i)) (seq 0 (g_ncols g))).
Definition mapi_cols_opt (g : glwe) (f : nat -> limbs -> option limbs) : option glwe :=
  match sequence (map (fun i => f i (gcol g i)) (seq 0 (g_ncols g))) with
  | Some cs => Some (with_cols g cs)
  | None => None
  end.

Definition zcol (n size : nat) : limbs := repeat (zlimb n) size.
Definition zero_glwe (b : Z) (n rank size : nat) : glwe :=
  {| g_b := b; g_n := n; g_size := size; g_cols := repeat (zcol n size) (S rank) |}.

(* HAL column primitives that are not named in Ring.v *)
Definition vec_copy (n : nat) (a r0 : limbs) : limbs := vec_unary n (fun l => l) a r0.   (* vec_znx_copy *)
Definition vec_zero (n : nat) (r0 : limbs) : limbs := map (fun _ => zlimb n) r0.        (* vec_znx_zero *)
Definition vec_negate (n : nat) (a r0 : limbs) : limbs := vec_unary n (vneg W64) a r0.   (* vec_znx_negate *)

(* per-coefficient kernels of Limbs.v lifted to a column (prior content r0 fixes the size) *)
Definition col_coeff (f : list Z -> list Z -> option (list Z)) (n : nat) (a r0 : limbs) : option limbs :=
  lift_coeff f n (length r0) a r0.

(* scratch requirements (identical on the four backends: hal_defaults/vec_znx.rs -> reference/vec_znx/*.rs) *)
Definition rotate_tmp_bytes (n : nat) : Z := Z.of_nat n * 8.
Definition lsh_tmp_bytes (n : nat) : Z := Z.of_nat n * 8.
Definition rsh_tmp_bytes (n : nat) : Z := 2 * Z.of_nat n * 8.
Definition shift_tmp_bytes (n : nat) : Z := Z.max (rsh_tmp_bytes n) (lsh_tmp_bytes n).
Definition normalize_tmp_bytes (n : nat) : Z := 3 * Z.of_nat n * 8.
Definition mul_xp_tmp_bytes (n : nat) : Z := Z.of_nat n * 8.

(* ------------------------------------------------------------------------------------------------ *)
(* GLWEAdd / GLWESub                                                                                *)

(* the rank assertion shared by glwe_add_into and glwe_sub *)
Definition rank_rule3 (res a b : glwe) : bool :=
  if Nat.eqb (g_rank a) 0 then Nat.eqb (g_rank res) (g_rank b)
  else if Nat.eqb (g_rank b) 0 then Nat.eqb (g_rank res) (g_rank a)
  else Nat.eqb (g_rank res) (g_rank a) && Nat.eqb (g_rank res) (g_rank b).

Definition same_n (n : nat) (g : glwe) : bool := Nat.eqb (g_n g) n.

Definition glwe_add_into (n : nat) (res a b : glwe) : option glwe :=
  if same_n n a && same_n n b && same_n n res && (g_b a =? g_b b) && (g_b res =? g_b b) && rank_rule3 res a b then
    let min_col := S (Nat.min (g_rank a) (g_rank b)) in
    let max_col := S (Nat.max (g_rank a) (g_rank b)) in
    Some (mapi_cols res (fun i r0 =>
      if Nat.ltb i min_col then vec_add W64 n (gcol a i) (gcol b i) r0
      else if Nat.ltb i max_col then
        (if Nat.ltb (g_rank b) (g_rank a) then vec_copy n (gcol a i) r0 else vec_copy n (gcol b i) r0)
      else vec_zero n r0))
  else None.

Definition glwe_add_assign (n : nat) (res a : glwe) : option glwe :=
  if same_n n res && same_n n a && (g_b res =? g_b a) && Nat.leb (g_rank a) (g_rank res) then
    Some (mapi_cols res (fun i r0 => if Nat.leb i (g_rank a) then vec_add_assign W64 (gcol a i) r0 else r0))
  else None.

Definition glwe_sub (n : nat) (res a b : glwe) : option glwe :=
  if same_n n a && same_n n b && same_n n res && (g_b a =? g_b res) && (g_b b =? g_b res) && rank_rule3 res a b then
    let min_col := S (Nat.min (g_rank a) (g_rank b)) in
    let max_col := S (Nat.max (g_rank a) (g_rank b)) in
    Some (mapi_cols res (fun i r0 =>
      if Nat.ltb i min_col then vec_sub W64 n (gcol a i) (gcol b i) r0
      else if Nat.ltb i max_col then
        (if Nat.ltb (g_rank b) (g_rank a) then vec_copy n (gcol a i) r0 else vec_negate n (gcol b i) r0)
      else vec_zero n r0))
  else None.

Definition rank_eq_or_0 (res a : glwe) : bool := Nat.eqb (g_rank res) (g_rank a) || Nat.eqb (g_rank a) 0.

Definition glwe_sub_assign (n : nat) (res a : glwe) : option glwe :=
  if same_n n res && same_n n a && (g_b res =? g_b a) && rank_eq_or_0 res a then
    Some (mapi_cols res (fun i r0 => if Nat.leb i (g_rank a) then vec_sub_assign W64 (gcol a i) r0 else r0))
  else None.

(* res <- a - res.  Columns beyond a.rank (a lower-rank operand, e.g. a plaintext) are negated
   (repair efc2285: before it they were left untouched). *)
Definition glwe_sub_negate_assign (n : nat) (res a : glwe) : option glwe :=
  if same_n n res && same_n n a && (g_b res =? g_b a) && rank_eq_or_0 res a then
    Some (mapi_cols res (fun i r0 => if Nat.leb i (g_rank a) then vec_sub_negate_assign W64 (gcol a i) r0
                                     else vec_unary_assign (vneg W64) r0))
  else None.

(* ------------------------------------------------------------------------------------------------ *)
(* GLWENegate / GLWECopy  (no base2k assertion; `res.base2k = a.base2k` in glwe_negate is a store into the
   temporary returned by to_mut() and has no effect on the caller's object) *)

Definition glwe_negate (n : nat) (res a : glwe) : option glwe :=
  if same_n n a && same_n n res && Nat.eqb (g_rank a) (g_rank res) then
    Some (mapi_cols res (fun i r0 => vec_negate n (gcol a i) r0))
  else None.

Definition glwe_negate_assign (n : nat) (res : glwe) : option glwe :=
  if same_n n res then Some (mapi_cols res (fun _ r0 => vec_unary_assign (vneg W64) r0)) else None.

Definition glwe_copy (n : nat) (res a : glwe) : option glwe :=
  if same_n n res && same_n n a && rank_eq_or_0 res a then
    let min_rank := S (Nat.min (g_rank res) (g_rank a)) in
    Some (mapi_cols res (fun i r0 => if Nat.ltb i min_rank then vec_copy n (gcol a i) r0 else vec_zero n r0))
  else None.

(* ------------------------------------------------------------------------------------------------ *)
(* GLWERotate / GLWEMulXpMinusOne                                                                   *)

Definition glwe_rotate (n : nat) (k : Z) (res a : glwe) : option glwe :=
  if same_n n a && same_n n res && rank_eq_or_0 res a then
    Some (mapi_cols res (fun i r0 => if Nat.ltb i (g_ncols a) then vec_rotate W64 n k (gcol a i) r0 else vec_zero n r0))
  else None.

Definition glwe_rotate_assign (n : nat) (scr : Z) (k : Z) (res : glwe) : option glwe :=
  if rotate_tmp_bytes n <=? scr then Some (mapi_cols res (fun _ r0 => vec_rotate_assign W64 k r0)) else None.

Definition glwe_mul_xp_minus_one (n : nat) (k : Z) (res a : glwe) : option glwe :=
  if same_n n res && same_n n a && Nat.eqb (g_rank res) (g_rank a) then
    Some (mapi_cols res (fun i r0 => vec_mul_xp_minus_one W64 n k (gcol a i) r0))
  else None.

(* no explicit scratch assertion; vec_znx_mul_xp_minus_one_assign takes n words (take_slice panics when short) *)
Definition glwe_mul_xp_minus_one_assign (n : nat) (scr : Z) (k : Z) (res : glwe) : option glwe :=
  if same_n n res && (mul_xp_tmp_bytes n <=? scr) then
    Some (mapi_cols res (fun _ r0 => vec_mul_xp_minus_one_assign W64 k r0))
  else None.

(* ------------------------------------------------------------------------------------------------ *)
(* GLWEShift                                                                                        *)

Definition glwe_rsh (n : nat) (scr : Z) (k : Z) (res : glwe) : option glwe :=
  if shift_tmp_bytes n <=? scr then
    mapi_cols_opt res (fun _ r0 => col_coeff (fun _ r => Some (rsh_assign W64 (g_b res) k r)) n r0 r0)
  else None.

Definition glwe_lsh_assign (n : nat) (scr : Z) (k : Z) (res : glwe) : option glwe :=
  if shift_tmp_bytes n <=? scr then
    mapi_cols_opt res (fun _ r0 => col_coeff (fun _ r => Some (lsh_assign W64 (g_b res) k r)) n r0 r0)
  else None.

(* the generic column loop of the shift / normalise family: column i of res from column i of a, coefficient by
   coefficient; columns that `a` does not have (lower-rank operand) are zero-filled (ovz) or left as they are *)
Definition colloop (f : list Z -> list Z -> option (list Z)) (ovz : bool) (n : nat) (res a : glwe) : option glwe :=
  mapi_cols_opt res (fun i r0 =>
    if Nat.ltb i (g_ncols a) then col_coeff f n (gcol a i) r0
    else Some (if ovz then vec_zero n r0 else r0)).

(* glwe_lsh / glwe_lsh_add / glwe_lsh_sub assert res.rank >= a.rank and loop over the columns of `a`
   (repair 4e31282: before it they looped over 0..=res.rank and panicked in a.at(i, _) for i > a.rank);
   glwe_lsh zero-fills the columns of res beyond a.rank, the other two leave them untouched. *)
Definition glwe_lsh_gen (ovz : bool) (f : Z -> Z -> list Z -> list Z -> list Z)
           (n : nat) (scr : Z) (k : Z) (res a : glwe) : option glwe :=
  if (shift_tmp_bytes n <=? scr) && same_n n res && same_n n a && (g_b res =? g_b a) && Nat.leb (g_rank a) (g_rank res) then
    colloop (fun x r => Some (f (g_b res) k x r)) ovz n res a
  else None.

Definition glwe_lsh := glwe_lsh_gen true (fun b k x r => lsh W64 true b k x r).
Definition glwe_lsh_add := glwe_lsh_gen false (fun b k x r => lsh W64 false b k x r).
Definition glwe_lsh_sub := glwe_lsh_gen false (fun b k x r => lsh_sub W64 b k x r).

(* ------------------------------------------------------------------------------------------------ *)
(* GLWENormalize                                                                                    *)

Definition glwe_normalize (n : nat) (scr : Z) (res a : glwe) : option glwe :=
  if same_n n res && same_n n a && Nat.eqb (g_rank res) (g_rank a) && (normalize_tmp_bytes n <=? scr) then
    mapi_cols_opt res (fun i r0 => col_coeff (fun x r => normalize W64 (g_b res) (g_b a) 0 x r) n (gcol a i) r0)
  else None.

Definition glwe_normalize_assign (n : nat) (scr : Z) (res : glwe) : option glwe :=
  if normalize_tmp_bytes n <=? scr then
    mapi_cols_opt res (fun _ r0 => col_coeff (fun _ r => Some (normalize_assign W64 (g_b res) r)) n r0 r0)
  else None.

(* glwe_maybe_cross_normalize_to_{ref,mut}: the ciphertext itself when the radix already matches, otherwise a
   temporary of the same precision (size*base2k bits) in the target radix taken from scratch and filled by
   glwe_normalize.  vec_znx_normalize overwrites every limb of its result, so the prior scratch content is
   irrelevant (modelled as zero). *)
Definition ceil_divZ (a b : Z) : Z := (a + b - 1) / b.
Definition align64 (x : Z) : Z := ceil_divZ x 64 * 64.
Definition glwe_maybe_cross_normalize (n : nat) (scr : Z) (target : Z) (a : glwe) : option glwe :=
  if g_b a =? target then Some a else
  let size' := Z.to_nat (ceil_divZ (Z.of_nat (g_size a) * g_b a) target) in
  let bytes := Z.of_nat (g_n a) * Z.of_nat (g_ncols a) * Z.of_nat size' * 8 in
  if bytes <=? scr then
    glwe_normalize n (scr - bytes) (zero_glwe target (g_n a) (g_rank a) size') a
  else None.

(* ------------------------------------------------------------------------------------------------ *)
(* GGSW: dnum rows of rank+1 GLWE ciphertexts                                                        *)

Record ggsw := { gs_dsize : Z; gs_rank : nat; gs_rows : list (list glwe) }.
Definition gs_dnum (g : ggsw) : nat := length (gs_rows g).
Definition gs_at (g : ggsw) (r c : nat) : glwe := nth c (nth r (gs_rows g) []) (zero_glwe 0 0 0 0).

Definition ggsw_map_opt (res : ggsw) (f : nat -> nat -> glwe -> option glwe) : option ggsw :=
  match sequence (map (fun r => sequence (map (fun c => f r c (gs_at res r c)) (seq 0 (S (gs_rank res)))))
                      (seq 0 (gs_dnum res))) with
  | Some rows => Some {| gs_dsize := gs_dsize res; gs_rank := gs_rank res; gs_rows := rows |}
  | None => None
  end.

Definition ggsw_rotate (n : nat) (k : Z) (res a : ggsw) : option ggsw :=
  if Nat.leb (gs_dnum res) (gs_dnum a) && (gs_dsize res =? gs_dsize a) && Nat.eqb (gs_rank res) (gs_rank a) then
    ggsw_map_opt res (fun r c g => glwe_rotate n k g (gs_at a r c))
  else None.

Definition ggsw_rotate_assign (n : nat) (scr : Z) (k : Z) (res : ggsw) : option ggsw :=
  if rotate_tmp_bytes n <=? scr then ggsw_map_opt res (fun _ _ g => glwe_rotate_assign n scr k g) else None.

(* ------------------------------------------------------------------------------------------------ *)
(* one dispatcher for single calls and for straight-line programs                                    *)

Definition exec_op (opc : Z) (n : nat) (scr k : Z) (res a b : glwe) : option glwe :=
  match opc with
  | 1 => glwe_add_into n res a b
  | 2 => glwe_add_assign n res a
  | 3 => glwe_sub n res a b
  | 4 => glwe_sub_assign n res a
  | 5 => glwe_sub_negate_assign n res a
  | 6 => glwe_negate n res a
  | 7 => glwe_negate_assign n res
  | 8 => glwe_copy n res a
  | 9 => glwe_rotate n k res a
  | 10 => glwe_rotate_assign n scr k res
  | 11 => glwe_mul_xp_minus_one n k res a
  | 12 => glwe_mul_xp_minus_one_assign n scr k res
  | 13 => glwe_rsh n scr k res
  | 14 => glwe_lsh_assign n scr k res
  | 15 => glwe_lsh n scr k res a
  | 16 => glwe_lsh_add n scr k res a
  | 17 => glwe_lsh_sub n scr k res a
  | 18 => glwe_normalize n scr res a
  | 19 => glwe_normalize_assign n scr res
  | _ => None
  end.

(* an instruction: opcode, destination register, two source registers, scalar *)
Record instr := { i_op : Z; i_d : nat; i_x : nat; i_y : nat; i_k : Z }.

Fixpoint set_nth {A} (l : list A) (i : nat) (x : A) : list A :=
  match l, i with
  | [], _ => []
  | _ :: t, O => x :: t
  | h :: t, S i' => h :: set_nth t i' x
  end.
Definition reg (regs : list glwe) (i : nat) : glwe := nth i regs (zero_glwe 0 0 0 0).

Definition exec_instr (n : nat) (scr : Z) (regs : list glwe) (ins : instr) : option (list glwe) :=
  if Nat.ltb (i_d ins) (length regs) && Nat.ltb (i_x ins) (length regs) && Nat.ltb (i_y ins) (length regs) then
    match exec_op (i_op ins) n scr (i_k ins) (reg regs (i_d ins)) (reg regs (i_x ins)) (reg regs (i_y ins)) with
    | Some g => Some (set_nth regs (i_d ins) g)
    | None => None
    end
  else None.

Definition run_prog (n : nat) (scr : Z) (prog : list instr) (regs : list glwe) : option (list glwe) :=
  fold_left (fun st ins => match st with Some r => exec_instr n scr r ins | None => None end) prog (Some regs).

(* the destination register after every step (what a step-by-step observer sees) *)
Fixpoint run_prog_trace (n : nat) (scr : Z) (prog : list instr) (regs : list glwe) : option (list glwe) :=
  match prog with
  | [] => Some []
  | ins :: p =>
      match exec_instr n scr regs ins with
      | Some regs' =>
          match run_prog_trace n scr p regs' with
          | Some t => Some (reg regs' (i_d ins) :: t)
          | None => None
          end
      | None => None
      end
  end.

(* ================================================================================================ *)
(* Spec level: the decryption phase, exact in Z[X]/(X^n+1) (unbounded Z, no wrap).                   *)

(* exact negacyclic extension and X^p * a  (Poly.v has the word-level variant with a wrapping negation) *)
Definition xext (a : list Z) (k : Z) : Z :=
  let n := Z.of_nat (length a) in
  let q := k / n in let r := k mod n in
  if Z.even q then nthZ a (Z.to_nat r) else - nthZ a (Z.to_nat r).
Definition xmono (p : Z) (a : list Z) : list Z :=
  map (fun i => xext a (Z.of_nat i - p)) (seq 0 (length a)).
Definition xmono_m1 (p : Z) (a : list Z) : list Z := psub (xmono p a) a.       (* (X^p - 1) * a *)

Definition psum (n : nat) (l : list (list Z)) : list Z := fold_right padd (pzero n) l.

(* zero-extended access: limb j of column i, the zero polynomial when the column or the limb does not exist *)
Definition cl (n : nat) (c : limbs) (j : nat) : list Z := if Nat.ltb j (length c) then nth j c [] else pzero n.
Definition gl (n : nat) (g : glwe) (i j : nat) : list Z :=
  if Nat.ltb i (g_ncols g) && Nat.ltb j (g_size g) then nth j (gcol g i) [] else pzero n.

(* phase_j = body_j + sum_i s_i * mask_{i,j}   (limb-wise; s = list of secret polynomials, any integers) *)
Definition phase_limb (n : nat) (s : list (list Z)) (g : glwe) (j : nat) : list Z :=
  padd (gl n g 0 j) (psum n (map (fun i => pmul (nth i s []) (gl n g (S i) j)) (seq 0 (length s)))).
Definition phase (n : nat) (s : list (list Z)) (g : glwe) : plimbs :=
  map (phase_limb n s g) (seq 0 (g_size g)).

(* the canonical exact form of a column-wise operation: limb (i,j) of the result is F applied to the
   zero-extended limbs (i,j) of the operands *)
Definition gmap2 (F : list Z -> list Z -> list Z) (n : nat) (res a b : glwe) : glwe :=
  with_cols res (map (fun i => build (g_size res) (fun j => F (gl n a i j) (gl n b i j))) (seq 0 (g_ncols res))).

(* the same operation on plaintexts (phases): limb j of the result from the zero-extended limbs j *)
Definition pt_map2 (F : list Z -> list Z -> list Z) (n rsize : nat) (pa pb : plimbs) : plimbs :=
  build rsize (fun j => F (cl n pa j) (cl n pb j)).

Definition Fadd (x y : list Z) := padd x y.
Definition Fsub (x y : list Z) := psub x y.
Definition Fneg (x _ : list Z) := pneg x.
Definition Fid (x _ : list Z) := x.
Definition Frot (k : Z) (x _ : list Z) := xmono k x.
Definition Fmx1 (k : Z) (x _ : list Z) := xmono_m1 k x.

(* exact-op table: opcode -> (F, which operands play the roles (x, y) of F: 0 = res, 1 = a, 2 = b) *)
Definition exact_F (opc k : Z) : option ((list Z -> list Z -> list Z) * nat * nat) :=
  match opc with
  | 1 => Some (Fadd, 1, 2)%nat
  | 2 => Some (Fadd, 0, 1)%nat
  | 3 => Some (Fsub, 1, 2)%nat
  | 4 => Some (Fsub, 0, 1)%nat
  | 5 => Some (Fsub, 1, 0)%nat
  | 6 => Some (Fneg, 1, 1)%nat
  | 7 => Some (Fneg, 0, 0)%nat
  | 8 => Some (Fid, 1, 1)%nat
  | 9 => Some (Frot k, 1, 1)%nat
  | 10 => Some (Frot k, 0, 0)%nat
  | 11 => Some (Fmx1 k, 1, 1)%nat
  | 12 => Some (Fmx1 k, 0, 0)%nat
  | _ => None
  end.
Definition pick3 {A} (i : nat) (r a b : A) : A := match i with O => r | S O => a | _ => b end.

(* plaintext interpreter for programs of exact operations; registers hold (size, limbs) *)
Definition pt_instr (n : nat) (regs : list plimbs) (ins : instr) : list plimbs :=
  match exact_F (i_op ins) (i_k ins) with
  | Some (F, ix, iy) =>
      let r := nth (i_d ins) regs [] in let a := nth (i_x ins) regs [] in let b := nth (i_y ins) regs [] in
      set_nth regs (i_d ins) (pt_map2 F n (length r) (pick3 ix r a b) (pick3 iy r a b))
  | None => regs
  end.
Definition pt_prog (n : nat) (prog : list instr) (regs : list plimbs) : list plimbs :=
  fold_left (pt_instr n) prog regs.

(* ================================================================================================ *)
(* Spec level: torus values.  A limb list (most significant first, radix 2^b) denotes sum_j x_j 2^(-(j+1) b);
   val_of is that number scaled by 2^P.  valp: the polynomial of values of a column; VP: the phase of the values
   (= the value of the limb-wise phase: C02_value_of_phase).  tor_dist: distance to 0 on R/Z, scaled by 2^P. *)
Fixpoint lval (P b : Z) (j : Z) (l : list Z) : Z :=
  match l with
  | [] => 0
  | x :: t => x * 2 ^ (P - (j + 1) * b) + lval P b (j + 1) t
  end.
Definition val_of (P b : Z) (l : list Z) : Z := lval P b 0 l.
Definition coeff_limbs (c : limbs) (t : nat) : list Z := map (fun l => nthZ l t) c.
Definition valp (P b : Z) (n : nat) (c : limbs) : list Z := map (fun t => val_of P b (coeff_limbs c t)) (seq 0 n).
Definition VP (P b : Z) (n : nat) (s : list (list Z)) (g : glwe) : list Z :=
  padd (valp P b n (gcol g 0)) (psum n (map (fun i => pmul (nth i s []) (valp P b n (gcol g (S i)))) (seq 0 (length s)))).
Definition tor_dist (P x : Z) : Z := Z.abs (wrap P x).

