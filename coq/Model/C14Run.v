(* Executable entry point of the C14 model (record formats: harness/src/bin/c14.rs).
   14001 set / 14002 set;rotate(k) for each k, full tables / 14003 set;rotate(k) for each k, coefficient 0 / 14004 mod_switch_2n /
   14010 blind rotation with a zero mask, raw limbs / 14020 blind rotation, decrypted and rounded to the table precision *)
From PV Require Import Base.MachineInt Model.Znx Model.Limbs Model.Ring Model.C14Lut Model.C14Blind.
Open Scope Z_scope.

Definition p (ps : list Z) (i : nat) : Z := nth i ps 0.
Definition np (ps : list Z) (i : nat) : nat := Z.to_nat (p ps i).
Definition v (vs : list (list Z)) (i : nat) : list Z := nth i vs [].

(* limb-major flat <-> limbs *)
Definition unflat (n size : nat) (d : list Z) : limbs := map (fun j => firstn n (skipn (j * n) d)) (seq 0 size).
Definition flatten (l : limbs) : list Z := concat l.

Definition dump (t : lut * Z) : list (list Z) := map flatten (fst t) ++ [[snd t]].

(* value of one coefficient (its limbs, most significant first) as an integer scaled by 2^(size*b) *)
Definition limbs_val_pre (B : Z) (c : list Z) : Z := fold_left (fun acc x => acc * B + x) c 0.   (* B = 2^b *)
Definition limbs_val (b : Z) (c : list Z) : Z := limbs_val_pre (2 ^ b) c.
Definition poly_vals (n : nat) (b : Z) (pl : limbs) : poly := let B := 2 ^ b in map (limbs_val_pre B) (cols_of n pl).
(* wrap F with the powers computed once: H = 2^(F-1), M = 2^F *)
Definition wrap_pre (H M x : Z) : Z := (x + H) mod M - H.

(* blind-rotation parameter block *)
Record bparams := { q_n : nat; q_ext : nat; q_block : nat; q_nlwe : nat; q_b : Z; q_kbrk : Z; q_klut : Z; q_kres : Z;
                    q_rank : nat; q_kmsg : Z; q_left : bool; q_dist : Z; q_blwe : Z }.
Definition bpar (ps : list Z) : bparams :=
  {| q_n := np ps 1; q_ext := np ps 2; q_block := np ps 3; q_nlwe := np ps 4; q_b := p ps 5; q_kbrk := p ps 7;
     q_klut := p ps 9; q_kres := p ps 10; q_rank := np ps 11; q_kmsg := p ps 12; q_left := (p ps 13 =? 0);
     q_dist := p ps 14; q_blwe := p ps 18 |}.
Definition block_size (q : bparams) : nat := if q_dist q =? 0 then q_block q else 1%nat.

Inductive path := Standard | BlockBinary | Extended | Panic.
Definition path_of (q : bparams) : path :=
  if Nat.ltb 1 (q_ext q) then (if q_dist q =? 0 then Extended else Panic)
  else if Nat.ltb 1 (block_size q) then BlockBinary else Standard.

Definition lwe_limbs (q : bparams) (d : list Z) : list (list Z) :=
  let w := S (q_nlwe q) in unflat w (length d / w) d.
Definition switched (q : bparams) (d : list Z) : option (list Z) :=
  mod_switch_2n (2 * Z.of_nat (q_n q) * Z.of_nat (q_ext q)) (q_blwe q) (q_left q) (lwe_limbs q d).

(* ---- 14010: a_i = 0 for all i: the accumulator is the initial rotation, then only normalisations ---- *)
Definition norm_std (n : nat) (b : Z) (pl : limbs) : limbs := poly_normalize_assign n b pl.
(* vec_znx_big_normalize(res, b, 0, col, acc_add_big (brk_size limbs), b, 0): same radix, offset 0 *)
Definition norm_big (n : nat) (b : Z) (brk_size : nat) (pl : limbs) : limbs :=
  let rs := length pl in
  rows_of rs (map (fun c => normalize_inter 64 b 0 (firstn brk_size (c ++ zeros brk_size)) c) (cols_of n pl)).

Definition raw_blind (q : bparams) (data : lut) (l2n : list Z) : option (list (list Z)) :=
  let n := q_n q in let b := q_b q in
  let rs := Z.to_nat (div_ceil (q_kres q) b) in
  let brk_size := Z.to_nat (div_ceil (q_kbrk q) b) in
  let r0 : limbs := repeat (zlimb n) rs in
  let bb := hd 0 l2n in
  let e := Z.of_nat (q_ext q) in
  let t := 2 * Z.of_nat n * e in
  if negb (forallb (fun a => a mod t =? 0) (tl l2n)) then None else
  let nblocks := (q_nlwe q / block_size q)%nat in
  let zero_cols := repeat (flatten r0) (q_rank q) in
  match path_of q with
  | Panic => None
  | Standard => Some (flatten (norm_std n b (vec_rotate 64 n bb (nth 0 data []) r0)) :: zero_cols)
  | BlockBinary =>
      Some (flatten (fold_left (fun a _ => norm_big n b brk_size a) (seq 0 nblocks) (vec_rotate 64 n bb (nth 0 data []) r0)) :: zero_cols)
  | Extended =>
      let b_pos := (bb + t) mod t in
      let b_hi := b_pos / e in let b_lo := b_pos mod e in
      let acc0 := if 0 <? b_lo then vec_rotate 64 n (b_hi + 1) (nth (Z.to_nat (e - b_lo)) data []) r0
                  else vec_rotate 64 n b_hi (nth 0 data []) r0 in
      Some (flatten (fold_left (fun a _ => norm_big n b brk_size a) (seq 0 nblocks) acc0) :: zero_cols)
  end.

(* ---- 14020: phases ---- *)
Definition phase_blind (q : bparams) (data : lut) (l2n sk : list Z) : option poly :=
  let n := q_n q in
  let lutp := map (poly_vals n (q_b q)) data in
  let bb := hd 0 l2n in let av := tl l2n in
  match path_of q with
  | Panic => None
  | Standard => Some (cggi_standard bb av sk (nth 0 lutp []))
  | BlockBinary => Some (cggi_block n (block_size q) bb av sk (nth 0 lutp []))
  | Extended => Some (nth 0 (cggi_extended n (block_size q) bb av sk lutp) [])
  end.

(* histories: events = [kind_1; arg_1; kind_2; arg_2; ...]; kind 0: set_rotation_direction(arg = 0 Left / 1 Right);
   kind 1: set(f, kmsg) with [kmsg; f...] = vs[arg] *)
Fixpoint decode_events (fuel : nat) (evs : list Z) (vs : list (list Z)) : list levent :=
  match fuel, evs with
  | S fu, k :: a :: t =>
      (if k =? 0 then EDir (a =? 0) else let tb := nth (Z.to_nat a) vs [] in ESet (hd 0 tb) (tl tb)) :: decode_events fu t vs
  | _, _ => []
  end.
Definition set_left (q : bparams) (l : bool) : bparams :=
  {| q_n := q_n q; q_ext := q_ext q; q_block := q_block q; q_nlwe := q_nlwe q; q_b := q_b q; q_kbrk := q_kbrk q; q_klut := q_klut q;
     q_kres := q_kres q; q_rank := q_rank q; q_kmsg := q_kmsg q; q_left := l; q_dist := q_dist q; q_blwe := q_blwe q |}.

Definition run_c14 (code : Z) (ps : list Z) (vs : list (list Z)) : option (list (list Z)) :=
  match code with
  | 14001 | 14002 | 14003 =>
      let n := np ps 1 in
      match lookup_table_set n (np ps 2) (p ps 3) (p ps 4) (p ps 5) (v vs 0) with
      | None => None
      | Some t =>
          if code =? 14001 then Some (dump t)
          else if code =? 14002 then Some (flat_map (fun k => map flatten (lookup_table_rotate n k (fst t))) (v vs 1))
          else Some (map (fun k => map hdZ (nth 0 (lookup_table_rotate n k (fst t)) [])) (v vs 1))
      end
  | 14005 =>
      let n := np ps 1 in
      let evs := decode_events (length (v vs 0)) (v vs 0) vs in
      match run_events n (np ps 2) (p ps 3) (p ps 4) evs (lut_alloc n (np ps 2) (p ps 3) (p ps 4)) with
      | Some st => Some (map flatten (st_data st) ++ [[st_drift st]; [if st_left st then 0 else 1]])
      | None => None
      end
  | 14021 =>
      let q0 := bpar ps in
      let evs := decode_events (length (v vs 3)) (v vs 3) vs in
      match run_events (q_n q0) (q_ext q0) (q_b q0) (q_klut q0) evs (lut_alloc (q_n q0) (q_ext q0) (q_b q0) (q_klut q0)) with
      | None => None
      | Some st =>
          let q := set_left q0 (st_left st) in
          match switched q (v vs 1) with
          | None => None
          | Some l2n =>
              let ls := Z.of_nat (length (nth 0 (st_data st) [])) in
              let F := ls * q_b q in
              match phase_blind q (st_data st) l2n (v vs 2) with
              | Some ph => Some [l2n; let H := 2 ^ (F - 1) in let M := 2 ^ F in map (wrap_pre H M) ph]
              | None => None
              end
          end
      end
  | 14004 =>
      match mod_switch_2n (p ps 0) (p ps 1) (p ps 3 =? 0) vs with
      | Some r => Some [r] | None => None
      end
  | 14010 | 14020 =>
      let q := bpar ps in
      match lookup_table_set (q_n q) (q_ext q) (q_b q) (q_klut q) (q_kmsg q) (v vs 0), switched q (v vs 1) with
      | Some t, Some l2n =>
          if code =? 14010 then raw_blind q (fst t) l2n
          else
            let ls := Z.of_nat (length (nth 0 (fst t) [])) in
            let F := ls * q_b q in
            match phase_blind q (fst t) l2n (v vs 2) with
            | Some ph => Some [l2n; let H := 2 ^ (F - 1) in let M := 2 ^ F in map (wrap_pre H M) ph]
            | None => None
            end
      | _, _ => None
      end
  | _ => None
  end.
