(* L4: encryption / decryption of poulpy-core, shared by C01, C06, C19.

   Transcribed from
     poulpy-core/src/encryption/glwe.rs      glwe_encrypt_sk_internal (incl. `compressed`), glwe_encrypt_pk_internal
     poulpy-core/src/encryption/lwe.rs       lwe_encrypt_sk
     poulpy-core/src/decryption/{glwe,lwe}.rs
     poulpy-hal/src/layouts/mod.rs           NoiseInfos::target_limb_and_scale
     poulpy-cpu-ref/src/reference/{znx,vec_znx}/sampling.rs   fill_uniform / add_normal
     poulpy-core/src/layouts/compressed/glwe.rs               decompress_glwe

   Representation.  Everything except the secret product acts on one coefficient at a time, so a column of a
   VecZnx is kept COEFFICIENT-MAJOR: `ccol` = list (over the n coefficients) of the limb list of that coefficient
   (most significant limb first).  The only cross-coefficient operation is the product with a secret
   (svp_prepare / svp_apply_dft_to_dft / idft), which is the exact negacyclic product `pmul` of DftAbs.v applied
   limb by limb (that pipeline is validated bit for bit by C07).  Normalisation is `normalize` / `normalize_assign`
   of Limbs.v, width 64 for VecZnx, width `wb` for VecZnxBig (64 on the FFT64 family, 128 on NTT120).
   Randomness is an INPUT: the raw u64 stream of the mask source, the already rounded error values, the secret,
   the ephemeral secret.  Word arithmetic wraps as in a release build. *)
From PV Require Import Base.MachineInt Model.Znx Model.Limbs Model.LimbsBig Model.Flat Model.DftAbs.
Open Scope Z_scope.

Definition poly := list Z.
Definition ccol := list (list Z).

(* ------------------------------------------------------------------ sampling *)

(* znx_fill_uniform_ref: (next_u64n(2^b, 2^b - 1) as i64) - 2^(b-1); for a power-of-two range the rejection loop of
   next_u64n never rejects: exactly one u64 per coefficient *)
Definition uniform_digit (b u : Z) : Z := Z.land u (2 ^ b - 1) - 2 ^ (b - 1).

(* vec_znx_fill_uniform on a column of `size` limbs of n coefficients whose first u64 is stream position `off`:
   limb-major consumption (for j in 0..size { for k in 0..n }) *)
Definition mask_digit (b : Z) (n : nat) (us : nat -> Z) (off k j : nat) : Z :=
  uniform_digit b (us (off + j * n + k)%nat).
Definition mask_col (b : Z) (n size : nat) (us : nat -> Z) (off : nat) : ccol :=
  map (fun k => map (fun j => mask_digit b n us off k j) (seq 0 size)) (seq 0 n).
(* glwe_encrypt_sk_internal / decompress_glwe: columns 1..rank in increasing order, column c+1 starts at c*size*n *)
Definition glwe_mask (b : Z) (n size rank : nat) (us : nat -> Z) : list ccol :=
  map (fun c => mask_col b n size us (c * size * n)) (seq 0 rank).

(* NoiseInfos::target_limb_and_scale: limb = ceil(k/b) - 1, scale = 2^((limb+1)*b - k) *)
Definition target_limb (k b : Z) : nat := Z.to_nat ((k + b - 1) / b - 1).
Definition scale_log2 (k b : Z) : Z := (Z.of_nat (target_limb k b) + 1) * b - k.

(* znx_add_normal_f64_ref: `x = next sample; while |x| > bound { x = next sample }; res += round(x)`.
   A sample is the rational num/2^den_log2 (every f64 is of that form); `round` is f64::round (half away from
   zero).  The stream of samples is an input (list); fuel = number of samples available. *)
Definition round_half_away (num dl : Z) : Z :=
  let d := 2 ^ dl in
  if 0 <=? num then (2 * num + d) / (2 * d) else - ((2 * (- num) + d) / (2 * d)).
(* |num/2^dl| > bn/2^bl *)
Definition exceeds (num dl bn bl : Z) : bool := bn * 2 ^ dl <? Z.abs num * 2 ^ bl.
Fixpoint sample_one (bn bl : Z) (xs : list (Z * Z)) : option (Z * list (Z * Z)) :=
  match xs with
  | [] => None
  | (num, dl) :: rest => if exceeds num dl bn bl then sample_one bn bl rest else Some (round_half_away num dl, rest)
  end.
Fixpoint sample_n (bn bl : Z) (cnt : nat) (xs : list (Z * Z)) : option (list Z * list (Z * Z)) :=
  match cnt with
  | O => Some ([], xs)
  | S c => match sample_one bn bl xs with
           | None => None
           | Some (e, rest) => match sample_n bn bl c rest with
                               | None => None
                               | Some (es, rest') => Some (e :: es, rest')
                               end
           end
  end.

(* ------------------------------------------------------------------ limb lists of ONE coefficient *)

Definition lmk (sz : nat) (f : nat -> Z) : list Z := map f (seq 0 sz).

(* vec_znx_sub(res, a, b): difference on the common limbs, copy / negate the longer operand, zero beyond *)
Definition l_sub (w : Z) (rsz : nat) (a b : list Z) : list Z :=
  let asz := length a in let bsz := length b in
  lmk rsz (fun j =>
    if Nat.ltb j (Nat.min asz bsz) then wsub w (nthZ a j) (nthZ b j)
    else if Nat.ltb j (Nat.max asz bsz) then (if Nat.leb asz bsz then wneg w (nthZ b j) else nthZ a j)
    else 0).
(* vec_znx_sub_assign / vec_znx_add_assign / vec_znx_big_add_assign / vec_znx_big_add_small_assign: on min(sizes) limbs *)
Definition l_sub_assign (w : Z) (a r : list Z) : list Z :=
  lmk (length r) (fun j => if Nat.ltb j (length a) then wsub w (nthZ r j) (nthZ a j) else nthZ r j).
Definition l_add_assign (w : Z) (a r : list Z) : list Z :=
  lmk (length r) (fun j => if Nat.ltb j (length a) then wadd w (nthZ r j) (nthZ a j) else nthZ r j).
(* vec_znx_add_normal / vec_znx_big_add_normal: the rounded sample is added on ONE limb *)
Definition l_add_at (w : Z) (ell : nat) (e : Z) (r : list Z) : list Z :=
  lmk (length r) (fun j => if Nat.eqb j ell then wadd w (nthZ r j) e else nthZ r j).

(* ------------------------------------------------------------------ columns *)

Definition coef (c : ccol) (k : nat) : list Z := nth k c [].
Definition limb_poly (c : ccol) (j : nat) : poly := map (fun cl => nthZ cl j) c.
Definition cmk (n : nat) (f : nat -> list Z) : ccol := map f (seq 0 n).
Definition czero (n size : nat) : ccol := cmk n (fun _ => zeros size).

(* svp_prepare(s); vec_znx_dft_apply(1, 0, c); svp_apply_dft_to_dft_assign; idft: limb j of the result is the exact
   negacyclic product s * (limb j of c), for the `size` limbs of the DFT buffer *)
Definition svp (s : poly) (n size : nat) (c : ccol) : ccol :=
  let prods := map (fun j => pmul s (limb_poly c j)) (seq 0 size) in
  cmk n (fun k => map (fun p => nthZ p k) prods).

(* per-coefficient map over a column, failing if one coefficient fails *)
Definition cmap_opt (n : nat) (f : nat -> option (list Z)) : option ccol := sequence (map f (seq 0 n)).

(* vec_znx_big_normalize at offset 0 for one coefficient: the FFT64 family reinterprets the i64 accumulator as a VecZnx
   and calls vec_znx_normalize; the NTT120 family runs its own i128 routine (LimbsBig.v: the cross-radix pre-alignment
   shift floors instead of rounding) and stores the digits `as i64` *)
Definition bnorm (wb rb ab : Z) (a r0 : list Z) : option (list Z) :=
  match (if wb =? 64 then normalize 64 rb ab 0 a r0 else normalize_big wb rb ab 0 a r0) with
  | Some o => Some (map (wrap 64) o)
  | None => None
  end.

Section Enc.
Variable wb : Z.   (* word width of VecZnxBig: 64 (FFT64Ref/Avx) or 128 (NTT120Ref/Avx) *)

(* ---- glwe_encrypt_sk_internal ---- *)

(* iteration i (1-based) of the mask loop, coefficient k, given the product column:
   `vec_znx_big_normalize(ci, base2k, 0, 0, ci_big, base2k, 0)` *)
Definition sk_term_coeff (b : Z) (size : nat) (prod_k : list Z) : option (list Z) :=
  bnorm wb b b prod_k (zeros size).

(* what is multiplied by s_{i-1}: the mask column, or normalize_assign(mask - pt) when the plaintext sits on column i *)
Definition sk_src (b : Z) (n size : nat) (pt : option (ccol * nat)) (i : nat) (ai : ccol) : ccol :=
  match pt with
  | Some (p, col) =>
      if Nat.eqb i col then cmk n (fun k => normalize_assign 64 b (l_sub 64 size (coef ai k) (coef p k))) else ai
  | None => ai
  end.

Definition sk_term (b : Z) (n size : nat) (pt : option (ccol * nat)) (i : nat) (s : poly) (ai : ccol) : option ccol :=
  let prod := svp s n size (sk_src b n size pt i ai) in
  cmap_opt n (fun k => sk_term_coeff b size (coef prod k)).

(* the rest of the routine for coefficient k: c0 = 0 - term_1 - ... - term_rank; c0[ell] += e; c0 += pt (col 0);
   ct[0] = normalize(c0) *)
Definition sk_body_coeff (b : Z) (size ell : nat) (terms_k : list (list Z)) (e_k : Z) (pt0_k : option (list Z))
  : option (list Z) :=
  let c0 := fold_left (fun c t => l_sub_assign 64 t c) terms_k (zeros size) in
  let c1 := l_add_at 64 ell e_k c0 in
  let c2 := match pt0_k with Some p => l_add_assign 64 p c1 | None => c1 end in
  normalize 64 b b 0 c2 (zeros size).

(* body (column 0) of the ciphertext; `a` = mask columns 1..rank, `sk` = s_0..s_{rank-1}, `e` = the n rounded samples.
   None = the call is rejected (target limb outside the ciphertext: at_mut panics) *)
Definition enc_sk_body (b : Z) (n size : nat) (nk : Z) (pt : option (ccol * nat)) (sk : list poly) (a : list ccol)
           (e : poly) : option ccol :=
  let ell := target_limb nk b in
  if Nat.leb size ell then None else
  match sequence (map (fun q => sk_term b n size pt (S (fst q)) (fst (snd q)) (snd (snd q)))
                      (combine (seq 0 (length a)) (combine sk a))) with
  | None => None
  | Some terms =>
      cmap_opt n (fun k =>
        sk_body_coeff b size ell (map (fun t => coef t k) terms) (nthZ e k)
          (match pt with Some (p, O) => Some (coef p k) | _ => None end))
  end.

(* standard encryption: all columns, mask drawn from the stream *)
Definition enc_sk (b : Z) (n size rank : nat) (nk : Z) (pt : option (ccol * nat)) (sk : list poly)
           (us : nat -> Z) (e : poly) : option (list ccol) :=
  let a := glwe_mask b n size rank us in
  match enc_sk_body b n size nk pt sk a e with
  | Some body => Some (body :: a)
  | None => None
  end.

(* compressed encryption (`compressed = true`, one column): the mask columns are drawn in the same order into column 0
   and overwritten; only the body is kept *)
Definition enc_sk_compressed (b : Z) (n size rank : nat) (nk : Z) (pt : option (ccol * nat)) (sk : list poly)
           (us : nat -> Z) (e : poly) : option ccol :=
  enc_sk_body b n size nk pt sk (glwe_mask b n size rank us) e.

(* decompress_glwe: copy the body, refill columns 1..rank from Source::new(seed) in increasing order *)
Definition decompress_glwe (b : Z) (n size rank : nat) (body : ccol) (us : nat -> Z) : list ccol :=
  body :: glwe_mask b n size rank us.

(* ---- glwe_decrypt ---- *)

(* coefficient k: c0_big = 0 + prod_1 + ... + prod_rank (big add), + body (add small), normalised into the plaintext *)
Definition dec_coeff (b pb : Z) (size psize : nat) (prods_k : list (list Z)) (body_k : list Z) : option (list Z) :=
  let acc := fold_left (fun c p => l_add_assign wb p c) prods_k (zeros size) in
  bnorm wb pb b (l_add_assign wb body_k acc) (zeros psize).

Definition dec_glwe (b pb : Z) (n size psize : nat) (sk : list poly) (ct : list ccol) : option ccol :=
  let body := hd [] ct in
  let prods := map (fun q => svp (fst q) n size (snd q)) (combine sk (tl ct)) in
  cmap_opt n (fun k => dec_coeff b pb size psize (map (fun p => coef p k) prods) (coef body k)).

(* ---- glwe_encrypt_pk_internal ---- *)

(* column i, coefficient k: ci_big = u*pk_i ; += e_i on limb ell ; += pt (column 0) ; normalise *)
Definition pk_coeff (b : Z) (size ell : nat) (prod_k : list Z) (e_k : Z) (pt_k : option (list Z)) : option (list Z) :=
  let c1 := l_add_at wb ell e_k prod_k in
  let c2 := match pt_k with Some p => l_add_assign wb p c1 | None => c1 end in
  bnorm wb b b c2 (zeros size).

Definition enc_pk (b : Z) (n size size_pk : nat) (nk : Z) (pt : option ccol) (u : poly) (pk : list ccol)
           (es : list poly) : option (list ccol) :=
  let ell := target_limb nk b in
  if Nat.leb size_pk ell then None else
  sequence (map (fun q =>
      let i := fst q in let pki := fst (snd q) in let ei := snd (snd q) in
      let prod := svp u n size_pk pki in
      cmap_opt n (fun k => pk_coeff b size ell (coef prod k) (nthZ ei k)
                             (match pt, i with Some p, O => Some (coef p k) | _, _ => None end)))
    (combine (seq 0 (length pk)) (combine pk es))).

End Enc.

(* ------------------------------------------------------------------ LWE *)

Definition lwe_dot (a s : list Z) : Z := fold_left Z.add (map2 Z.mul a s) 0.

(* lwe_encrypt_sk: `a` = for each limb the n mask words (coefficients 1..n of the ciphertext), body limbs returned *)
Definition lwe_enc_body (b : Z) (size : nat) (nk : Z) (pt : list Z) (s : list Z) (a : list (list Z)) (e : Z)
  : option (list Z) :=
  let ell := target_limb nk b in
  if Nat.leb size ell then None else
  let msz := Nat.min size (length pt) in
  let tmp := lmk size (fun j => wrap 64 ((if Nat.ltb j msz then nthZ pt j else 0) - lwe_dot (nth j a []) s)) in
  Some (normalize_assign 64 b (l_add_at 64 ell e tmp)).

(* vec_znx_fill_uniform on the (n+1)-coefficient LWE vector: position j*(n+1) + t, t = 0 is the body slot *)
Definition lwe_mask (b : Z) (n size : nat) (us : nat -> Z) : list (list Z) :=
  map (fun j => map (fun t => uniform_digit b (us (j * (n + 1) + t + 1)%nat)) (seq 0 n)) (seq 0 size).

Definition lwe_dec (b pb : Z) (size psize : nat) (s : list Z) (a : list (list Z)) (body : list Z) : option (list Z) :=
  normalize 64 pb b 0 (lmk size (fun j => wrap 64 (nthZ body j + lwe_dot (nth j a []) s))) (zeros psize).

(* ------------------------------------------------------------------ gadget rows (GGLWE / GGSW / key material) *)

(* tmp_pt of row `row`: zero, `vec_znx_add_scalar_assign(tmp_pt, 0, (dsize-1) + row*dsize, pt, col)`, normalize_assign *)
Definition row_pt (b : Z) (n size dsize row : nat) (m : poly) : ccol :=
  cmk n (fun k => normalize_assign 64 b (l_add_at 64 ((dsize - 1) + row * dsize) (nthZ m k) (zeros size))).

(* seed slot of cell (row, col) in a compressed GGLWE (`seed[rank_in*row + col]`) and the order in which
   gglwe_compressed_encrypt_sk draws the seeds from the parent source (col outer, row inner) *)
Definition gglwe_seed_slot (rank_in row col : nat) : nat := (rank_in * row + col)%nat.
Definition gglwe_draw_index (dnum row col : nat) : nat := (col * dnum + row)%nat.
(* GGSW: slot row*(rank+1)+col, drawn row outer, col inner: identical *)
Definition ggsw_seed_slot (rank row col : nat) : nat := (row * (rank + 1) + col)%nat.
Definition ggsw_draw_index (rank row col : nat) : nat := (row * (rank + 1) + col)%nat.
