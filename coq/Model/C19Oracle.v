(* Direct oracle for C19: the property is a statement about bytes of the implementation's objects, so the oracle is the
   conjunction of the byte comparisons the harness made on the implementation (last output vector):
     per cell: decompressed cell == standard glwe_encrypt_sk of that cell's plaintext with Source::new(stored seed) and the
               same sequential error stream (1), not expressible through the public API (2);
     stored seeds == the seeds derived from the root seed in the documented order;
     serialise -> deserialise -> decompress gives the same bytes; both decrypt to the same plaintext.
   It holds iff no comparison failed (no 0), and a comparison is skipped (2) only where the generator said so
   (last input vector). *)
From PV Require Import Base.MachineInt Model.Znx Model.Limbs Model.Flat Model.C01Run.
Open Scope Z_scope.

Definition flags_ok (expected got : list Z) : bool :=
  Nat.eqb (length expected) (length got) &&
  forallb (fun q => (snd q =? 1) || ((snd q =? 2) && (fst q =? 2))) (combine expected got).

Definition oracle_c19 (code : Z) (ps : list Z) (vs outs : list (list Z)) : Z :=
  let expected := last vs [] in
  let got := last outs [] in
  if Nat.eqb (length got) 0 then 2 else if flags_ok expected got then 1 else 0.
