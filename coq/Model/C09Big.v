(* C09, big-accumulator family: executable model of the `vec_znx_big_*` ring operations of the HAL (opcodes 9101..9116)
   on flat buffers, for both scalar widths.

   w = 64  (FFT64Ref / FFT64Avx, ScalarBig = i64): poulpy-cpu-ref/src/reference/fft64/vec_znx_big.rs reinterprets the
           VecZnxBig as a VecZnx and calls the vec_znx routines: the model IS Ring.v's vector level at w = 64.
   w = 128 (NTT120Ref / NTT120Avx, ScalarBig = i128): poulpy-cpu-ref/src/reference/ntt120/vec_znx_big.rs has its own
           limb loops.  They are modelled AS THEY ARE: a function body is a sequence of `for j in lo..hi { res.at_mut(j)
           = ... }` loops, each loop is one `wr lo hi f` below (limbs outside [lo,hi) keep their current content), in
           program order.  Which operand tail is copied / negated / zeroed is therefore read off the loop bounds, not
           assumed.  Small (i64) operands are widened by `as i128`, the identity on values; `-(x as i128)` cannot
           overflow and is the 128-bit wrapping negation of the widened value.

   header: be | rn rcols rsize rmax rcol | an acols asize amax acol | bn bcols bsize bmax bcol | dom p fill
   vs = [res_flat; a_flat; b_flat]; output = the whole destination buffer.  be 1,2 -> w = 64; be 3,4 -> w = 128;
   be 0 (C10: one record re-targeted to every backend) -> the FFT64Ref result (w = 64).
   C09Run.v imports this file, hence the header accessors are restated here (b-prefixed). *)
From PV Require Import Base.MachineInt Model.Znx Model.Limbs Model.Flat Model.Ring Model.Poly.
Open Scope Z_scope.

Definition bp (ps : list Z) (i : nat) : Z := nth i ps 0.
Definition bv (vs : list (list Z)) (i : nat) : list Z := nth i vs [].
Definition bnp (ps : list Z) (i : nat) : nat := Z.to_nat (bp ps i).
Definition bshp (ps : list Z) (k : nat) : shape :=
  {| s_n := bnp ps (1 + 5 * k); s_cols := bnp ps (2 + 5 * k); s_size := bnp ps (3 + 5 * k);
     s_max := bnp ps (4 + 5 * k); s_col := bnp ps (5 + 5 * k) |}.
Definition bex (ps : list Z) (i : nat) : Z := bp ps (16 + i).
Definition bget (s : shape) (d : list Z) : limbs := col_limbs (s_n s) (s_cols s) (s_size s) d (s_col s).
Definition bput (s : shape) (d : list Z) (l : limbs) : list Z := write_col (s_n s) (s_cols s) d (s_col s) l.

Definition big_w (be : Z) : Z := if 3 <=? be then 128 else 64.

(* ------------------------------------------------------------------------------------------------------------ *)
(* one loop `for j in lo..hi { res.at_mut(res_col, j) <- f j (current limb j) }`                                  *)
Definition wr (lo hi : nat) (f : nat -> list Z -> list Z) (r : limbs) : limbs :=
  map (fun q => if Nat.leb lo (fst q) && Nat.ltb (fst q) hi then f (fst q) (snd q) else snd q)
      (combine (seq 0 (length r)) r).

Section N120.
Let w := 128.

(* I128BigOps kernels on one limb (slices of equal length n) *)
Definition k_add (a b : list Z) : list Z := vadd w a b.            (* i128_add, i128_add_small (b as i128)        *)
Definition k_sub (a b : list Z) : list Z := vsub w a b.            (* i128_sub, i128_sub_small_a, i128_sub_small_b *)
Definition k_neg (a : list Z) : list Z := vneg w a.                (* i128_negate, i128_neg_from_small             *)
Definition k_from_small (a : list Z) : list Z := a.                (* i128_from_small: sign extension              *)

(* ntt120_vec_znx_big_from_small *)
Definition n_from_small (n : nat) (a r0 : limbs) : limbs :=
  let rsz := length r0 in let mn := Nat.min rsz (length a) in
  wr mn rsz (fun _ _ => zlimb n) (wr 0 mn (fun j _ => k_from_small (lnth a j)) r0).

(* ntt120_vec_znx_big_add_into: a, b big *)
Definition n_add_into (n : nat) (a b r0 : limbs) : limbs :=
  let rsz := length r0 in let asz := length a in let bsz := length b in
  let sum := Nat.min (Nat.min asz bsz) rsz in
  let r1 := wr 0 sum (fun j _ => k_add (lnth a j) (lnth b j)) r0 in
  if Nat.leb asz bsz then
    let b_cpy := Nat.min bsz rsz in
    wr b_cpy rsz (fun _ _ => zlimb n) (wr sum b_cpy (fun j _ => lnth b j) r1)
  else
    let a_cpy := Nat.min asz rsz in
    wr a_cpy rsz (fun _ _ => zlimb n) (wr sum a_cpy (fun j _ => lnth a j) r1).

(* ntt120_vec_znx_big_add_assign / add_small_assign *)
Definition n_add_assign (a r0 : limbs) : limbs :=
  wr 0 (Nat.min (length r0) (length a)) (fun j r => k_add r (lnth a j)) r0.

(* ntt120_vec_znx_big_add_small_into: a big, b small *)
Definition n_add_small_into (n : nat) (a b r0 : limbs) : limbs :=
  let rsz := length r0 in let asz := length a in let bsz := length b in
  let sum := Nat.min (Nat.min asz bsz) rsz in
  let a_cpy := Nat.min asz rsz in let b_cpy := Nat.min bsz rsz in
  wr (Nat.max a_cpy b_cpy) rsz (fun _ _ => zlimb n)
    (wr a_cpy b_cpy (fun j _ => k_from_small (lnth b j))
      (wr sum a_cpy (fun j _ => lnth a j)
        (wr 0 sum (fun j _ => k_add (lnth a j) (lnth b j)) r0))).

(* ntt120_vec_znx_big_sub: a, b big *)
Definition n_sub (n : nat) (a b r0 : limbs) : limbs :=
  let rsz := length r0 in let asz := length a in let bsz := length b in
  let sum := Nat.min (Nat.min asz bsz) rsz in
  let r1 := wr 0 sum (fun j _ => k_sub (lnth a j) (lnth b j)) r0 in
  if Nat.leb bsz asz then
    let a_cpy := Nat.min asz rsz in
    wr a_cpy rsz (fun _ _ => zlimb n) (wr sum a_cpy (fun j _ => lnth a j) r1)
  else
    let b_cpy := Nat.min bsz rsz in
    wr b_cpy rsz (fun _ _ => zlimb n) (wr sum b_cpy (fun j _ => k_neg (lnth b j)) r1).

(* ntt120_vec_znx_big_sub_assign / sub_small_assign: res -= a *)
Definition n_sub_assign (a r0 : limbs) : limbs :=
  wr 0 (Nat.min (length r0) (length a)) (fun j r => k_sub r (lnth a j)) r0.

(* ntt120_vec_znx_big_sub_negate_assign / sub_small_negate_assign: res = a - res; second loop a.size()..res_size *)
Definition n_sub_negate_assign (a r0 : limbs) : limbs :=
  let rsz := length r0 in
  wr (length a) rsz (fun _ r => k_neg r) (wr 0 (Nat.min rsz (length a)) (fun j r => k_sub (lnth a j) r) r0).

(* ntt120_vec_znx_big_sub_small_a: a small, b big; third loop `for j in sum..b_cpy { if j >= a_cpy {..} }` *)
Definition n_sub_small_a (n : nat) (a b r0 : limbs) : limbs :=
  let rsz := length r0 in let asz := length a in let bsz := length b in
  let sum := Nat.min (Nat.min asz bsz) rsz in
  let a_cpy := Nat.min asz rsz in let b_cpy := Nat.min bsz rsz in
  wr (Nat.max a_cpy b_cpy) rsz (fun _ _ => zlimb n)
    (wr sum b_cpy (fun j r => if Nat.leb a_cpy j then k_neg (lnth b j) else r)
      (wr sum a_cpy (fun j _ => k_from_small (lnth a j))
        (wr 0 sum (fun j _ => k_sub (lnth a j) (lnth b j)) r0))).

(* ntt120_vec_znx_big_sub_small_b: a big, b small *)
Definition n_sub_small_b (n : nat) (a b r0 : limbs) : limbs :=
  let rsz := length r0 in let asz := length a in let bsz := length b in
  let sum := Nat.min (Nat.min asz bsz) rsz in
  let a_cpy := Nat.min asz rsz in let b_cpy := Nat.min bsz rsz in
  wr (Nat.max a_cpy b_cpy) rsz (fun _ _ => zlimb n)
    (wr a_cpy b_cpy (fun j _ => k_neg (lnth b j))
      (wr sum a_cpy (fun j _ => lnth a j)
        (wr 0 sum (fun j _ => k_sub (lnth a j) (lnth b j)) r0))).

(* ntt120_vec_znx_big_negate / negate_assign *)
Definition n_negate (n : nat) (a r0 : limbs) : limbs :=
  let rsz := length r0 in let cpy := Nat.min (length a) rsz in
  wr cpy rsz (fun _ _ => zlimb n) (wr 0 cpy (fun j _ => k_neg (lnth a j)) r0).
Definition n_negate_assign (r0 : limbs) : limbs := wr 0 (length r0) (fun _ r => k_neg r) r0.

(* ntt120_vec_znx_big_automorphism: rj[0] = aj[0]; k <- (k + p_2n) & mask; rj[k] = ai or rj[k-n] = -ai: this is
   Ring.v's znx_automorphism_onto (positions not hit keep the prior content of the destination limb) *)
Definition n_automorphism (n : nat) (p : Z) (a r0 : limbs) : limbs :=
  let rsz := length r0 in let sz := Nat.min rsz (length a) in
  wr sz rsz (fun _ _ => zlimb n) (wr 0 sz (fun j r => znx_automorphism_onto w p r (lnth a j)) r0).
(* ntt120_vec_znx_big_automorphism_assign: tmp[..n] <- rj, then the same loop from tmp onto rj *)
Definition n_automorphism_assign (p : Z) (r0 : limbs) : limbs :=
  wr 0 (length r0) (fun _ r => znx_automorphism_onto w p r r) r0.

End N120.

(* ------------------------------------------------------------------------------------------------------------ *)
(* the column function of each opcode at width 64 (Ring.v) and 128 (above) *)
Definition big_col (w : Z) (code : Z) (n : nat) (p fill : Z) (al bl r0 : limbs) : option limbs :=
  if w =? 128 then
    match code with
    | 9101 => Some (n_from_small n al r0)
    | 9102 => Some (n_add_into n al bl r0)
    | 9103 => Some (n_add_assign al r0)
    | 9104 => Some (n_add_small_into n al bl r0)
    | 9105 => Some (n_add_assign al r0)
    | 9106 => Some (n_sub n al bl r0)
    | 9107 => Some (n_sub_assign al r0)
    | 9108 => Some (n_sub_negate_assign al r0)
    | 9109 => Some (n_sub_small_a n al bl r0)
    | 9110 => Some (n_sub_assign al r0)
    | 9111 => Some (n_sub_small_b n al bl r0)
    | 9112 => Some (n_sub_negate_assign al r0)
    | 9113 => Some (n_negate n al r0)
    | 9114 => Some (n_negate_assign r0)
    | 9115 => Some (n_automorphism n p al r0)
    | 9116 => Some (n_automorphism_assign p r0)
    | _ => None
    end
  else
    match code with
    | 9101 => Some (vec_unary n (fun l => l) al r0)
    | 9102 => Some (vec_add w n al bl r0)
    | 9103 => Some (vec_add_assign w al r0)
    | 9104 => Some (vec_add w n al bl r0)
    | 9105 => Some (vec_add_assign w al r0)
    | 9106 => Some (vec_sub w n al bl r0)
    | 9107 => Some (vec_sub_assign w al r0)
    | 9108 => Some (vec_sub_negate_assign w al r0)
    | 9109 => Some (vec_sub w n al bl r0)
    | 9110 => Some (vec_sub_assign w al r0)
    | 9111 => Some (vec_sub w n al bl r0)
    | 9112 => Some (vec_sub_negate_assign w al r0)
    | 9113 => Some (vec_unary n (vneg w) al r0)
    | 9114 => Some (vec_unary_assign (vneg w) r0)
    | 9115 => Some (vec_automorphism w n p al r0)
    | 9116 => Some (vec_automorphism_assign w p (repeat fill n) r0)
    | _ => None
    end.

(* number of operand buffers an opcode reads: 2 = a and b, 1 = a, 0 = none *)
Definition big_arity (code : Z) : nat :=
  if (code =? 9102) || (code =? 9104) || (code =? 9106) || (code =? 9109) || (code =? 9111) then 2%nat
  else if (code =? 9114) || (code =? 9116) then 0%nat else 1%nat.

Definition run_c09_big (code : Z) (ps : list Z) (vs : list (list Z)) : option (list (list Z)) :=
  let w := big_w (bp ps 0) in
  let rs := bshp ps 0 in let sa := bshp ps 1 in let sb := bshp ps 2 in
  let res := bv vs 0 in let a := bv vs 1 in let b := bv vs 2 in
  let ar := big_arity code in
  let oka := Nat.ltb ar 1 || shape_ok sa a in
  let okb := Nat.ltb ar 2 || shape_ok sb b in
  if shape_ok rs res && oka && okb then
    match big_col w code (s_n rs) (bex ps 1) (bex ps 2) (bget sa a) (bget sb b) (bget rs res) with
    | Some l => Some [bput rs res l]
    | None => None
    end
  else None.

(* ------------------------------------------------------------------------------------------------------------ *)
(* ORACLE (spec level, written word by word, independently of the code-shaped definitions above).
   Every operation of the family is a Z-linear map  res = ca * x + cb * y  of at most two operands, limb by limb:
     word i of limb j of the result = wrap_w (ca * x[j][i] + cb * y[j][i])        for j < res_size,
   where an operand limb that does not exist (j >= its size) contributes 0 (so: both present -> a_j +- b_j; one
   present -> the surviving operand, negated if it is the subtrahend; none -> 0), operand limbs at or beyond
   res_size are ignored, and for the `_assign` forms one operand is the prior content of the selected column.
   Automorphisms: limb j = sigma_p (Poly.v) of operand limb j, the zero limb beyond the operand.
   Frame: every word of the destination buffer outside limbs [0, res_size) of the selected column is unchanged. *)
Definition oword (l : limbs) (j i : nat) : Z := if Nat.ltb j (length l) then nthZ (nth j l []) i else 0.
Definition lin_spec (w : Z) (n rsz : nat) (ca cb : Z) (x y : limbs) : limbs :=
  map (fun j => map (fun i => wrap w (ca * oword x j i + cb * oword y j i)) (seq 0 n)) (seq 0 rsz).
Definition olimb (n : nat) (l : limbs) (j : nat) : list Z := if Nat.ltb j (length l) then nth j l [] else repeat 0 n.

Definition big_expect (w : Z) (code : Z) (n : nat) (p : Z) (al bl r0 : limbs) : option limbs :=
  let rsz := length r0 in
  match code with
  | 9101 => Some (lin_spec w n rsz 1 0 al [])            (* res = a                 *)
  | 9102 | 9104 => Some (lin_spec w n rsz 1 1 al bl)     (* res = a + b             *)
  | 9103 | 9105 => Some (lin_spec w n rsz 1 1 r0 al)     (* res = res + a           *)
  | 9106 | 9109 | 9111 => Some (lin_spec w n rsz 1 (-1) al bl)   (* res = a - b     *)
  | 9107 | 9110 => Some (lin_spec w n rsz 1 (-1) r0 al)  (* res = res - a           *)
  | 9108 | 9112 => Some (lin_spec w n rsz 1 (-1) al r0)  (* res = a - res           *)
  | 9113 => Some (lin_spec w n rsz (-1) 0 al [])         (* res = -a                *)
  | 9114 => Some (lin_spec w n rsz (-1) 0 r0 [])         (* res = -res              *)
  | 9115 => Some (map (fun j => sigma w p (olimb n al j)) (seq 0 rsz))
  | 9116 => Some (map (sigma w p) r0)
  | _ => None
  end.

Definition beq_list (a b : list Z) : bool :=
  Nat.eqb (length a) (length b) && forallb (fun q => fst q =? snd q) (combine a b).

(* words outside limbs [0,size) of column col are the prior ones (checked on the raw buffers, not through bput) *)
Fixpoint frame_ok (n cols size col : nat) (idx : nat) (a b : list Z) : bool :=
  match a, b with
  | [], [] => true
  | x :: a', y :: b' =>
      let limb := (idx / n)%nat in
      ((Nat.eqb (limb mod cols) col && Nat.ltb (limb / cols) size) || (x =? y)) && frame_ok n cols size col (S idx) a' b'
  | _, _ => false
  end.

Definition oracle_c09_big (code : Z) (ps : list Z) (vs outs : list (list Z)) : Z :=
  let w := big_w (bp ps 0) in
  let rs := bshp ps 0 in let sa := bshp ps 1 in let sb := bshp ps 2 in
  let res := bv vs 0 in let out := bv outs 0 in
  match big_expect w code (s_n rs) (bex ps 1) (bget sa (bv vs 1)) (bget sb (bv vs 2)) (bget rs res) with
  | Some l =>
      if frame_ok (s_n rs) (s_cols rs) (s_size rs) (s_col rs) 0 res out
         && forallb (fun q => beq_list (fst q) (snd q)) (combine (bget rs out) l)
         && Nat.eqb (length l) (s_size rs)
      then 1 else 0
  | None => 2
  end.
