(* C16 — CKKS metadata / error algebra, transcribed from poulpy-ckks (src/lib.rs, error.rs, layouts/ciphertext.rs,
   layouts/plaintext/{vec,cst}.rs, leveled/default/*.rs, leveled/delegates/{encryption,composite}.rs).

   Executable Gallina only (no proofs).  Conventions:
   - `usize` values are non-negative Z;  every *unchecked* `a - b` of the Rust code is `usub` and every unchecked
     `a + b` that involves a caller-supplied scalar is `uadd`: outside the representable range they are the third
     outcome `Panic` when overflow checks are on (debug profile) and wrap modulo 2^64 when they are off (release);
   - `checked_sub(..).ok_or(err)` is `csub`;  `saturating_sub` is `ssub`;
   - limb-index assertions of the layers below (`assert!(j < self.size())`, slice ranges) are `passert`: they panic in
     both profiles;
   - the monad threads the destination's metadata, because some calls assign `dst.meta` before a later `?` exit
     (encryption, plaintext alignment after the shift): a failed call can leave the destination with new metadata,
     which is observable.
   State of /repo: after the repairs fd924ce, 3326e5c, e31e2c8, 84cafa8, b042dad, 628058f, 18a4236, 1a5cef0, 45bddf7.  *)
From PV Require Import Base.MachineInt.
Open Scope Z_scope.

Record meta := Meta { ld : Z; lb : Z }.                 (* CKKSMeta { log_delta, log_budget } *)
Definition eff (m : meta) : Z := ld m + lb m.           (* CKKSInfos::effective_k *)
Record ct := Ct { cm : meta; csize : Z }.               (* a ciphertext as far as metadata goes: meta + number of limbs *)
Definition maxk (B : Z) (c : ct) : Z := csize c * B.    (* LWEInfos::max_k = size * base2k *)

Definition cdiv (a b : Z) : Z := (a + b - 1) / b.       (* usize::div_ceil *)
Definition min_k (B : Z) (m : meta) : Z := cdiv (eff m) B * B.   (* CKKSInfos::min_k = next_multiple_of(base2k) *)

Inductive ekind := EShrink | ECapacity | EBase2k | EMissingKey | EAlign | EMulUnder | EOther | ENotCompact.
Definition ecode (e : ekind) : Z :=
  match e with EShrink => 1 | ECapacity => 2 | EBase2k => 3 | EMissingKey => 4 | EAlign => 5 | EMulUnder => 6 | EOther => 7 | ENotCompact => 8 end.

(* result of one API call as seen on the destination *)
Inductive outcome :=
| Done (m : meta) (size : Z) (sh : list Z)   (* Ok(()): metadata and limb count afterwards; shift amounts handed to the GLWE layer *)
| Fail (e : ekind) (m : meta)                (* Err(e): destination metadata afterwards *)
| Panic.                                     (* usize under/overflow with overflow checks on, or a limb-index assertion *)

(* ---- the little state/error monad ---- *)
Inductive mres (A : Type) :=
| R (x : A) (m : meta) (sh : list Z)
| F (e : ekind) (m : meta)
| P.
Arguments R {A}. Arguments F {A}. Arguments P {A}.
Definition M (A : Type) := meta -> list Z -> mres A.
Definition ret {A} (x : A) : M A := fun m sh => R x m sh.
Definition bind {A B} (c : M A) (f : A -> M B) : M B :=
  fun m sh => match c m sh with R x m' sh' => f x m' sh' | F e m' => F e m' | P => P end.
Notation "x <- c ;; f" := (bind c (fun x => f)) (at level 61, c at next level, right associativity).
Notation "c ;;; f" := (bind c (fun _ => f)) (at level 61, right associativity).
Definition fail {A} (e : ekind) : M A := fun m _ => F e m.
Definition panic {A} : M A := fun _ _ => P.
Definition get : M meta := fun m sh => R m m sh.
Definition set_meta (m' : meta) : M unit := fun _ sh => R tt m' sh.
Definition set_lb (l : Z) : M unit := fun m sh => R tt (Meta (ld m) l) sh.
Definition set_ld (l : Z) : M unit := fun m sh => R tt (Meta l (lb m)) sh.
Definition shift (k : Z) : M unit := fun m sh => R tt m (sh ++ [k]).

Definition two64 : Z := 18446744073709551616.
Definition ssub (a b : Z) : Z := Z.max 0 (a - b).
(* chk = overflow checks on (debug) *)
Definition usub (chk : bool) (a b : Z) : M Z :=
  if b <=? a then ret (a - b) else if chk then panic else ret (a - b + two64).
Definition uadd (chk : bool) (a b : Z) : M Z :=
  if a + b <? two64 then ret (a + b) else if chk then panic else ret (a + b - two64).
Definition csub (e : ekind) (a b : Z) : M Z := if b <=? a then ret (a - b) else fail e.
Definition passert (c : bool) : M unit := if c then ret tt else panic.
Definition when (c : bool) (x : M unit) : M unit := if c then x else ret tt.

(* largest log_delta the f64 plaintext conversions accept: round(-log2 eps) + 1 *)
Definition f64_prec : Z := 53.

(* ---- layouts/ciphertext.rs: CKKSOffset ---- *)
Definition offset_unary (B : Z) (d a : ct) : Z := ssub (eff (cm a)) (maxk B d).
Definition offset_binary (B : Z) (d a b : ct) : Z := ssub (Z.min (eff (cm a)) (eff (cm b))) (maxk B d).

(* a vector plaintext in ZNX form as far as metadata goes *)
Record ptz := Ptz { pm : meta; pmaxk : Z; pb2k : Z }.
(* a plaintext allocated by CKKSPlaintextVecZnx::alloc(n, base2k, meta): max_k = min_k *)
Definition ptz_alloc (B : Z) (m : meta) : ptz := Ptz m (min_k B m) B.
(* a constant in ZNX form produced by to_znx_at_k(base2k, k, log_delta): meta, number of digits, both parts absent *)
Record cst := Cst { km : meta; klen : Z; knone : bool }.
Definition cst_at_k (B k l : Z) (none : bool) : cst := Cst (Meta l (ssub k l)) (cdiv k B) none.

(* ---- error.rs ---- *)
Definition ensure_plaintext_alignment (chk : bool) (ct_lb pt_ld pt_maxk : Z) : M Z :=
  let available := ct_lb + pt_ld in
  if available <? pt_maxk then fail EAlign else usub chk available pt_maxk.

(* ---- leveled/default/pt_znx.rs: ckks_{add,sub}_pt_vec_znx_into_default(ct, pt) (in place on ct) ---- *)
Definition ptznx_assign (chk : bool) (B : Z) (p : ptz) : M unit :=
  m <- get ;;
  if negb (B =? pb2k p) then fail EBase2k else
  off <- ensure_plaintext_alignment chk (lb m) (ld (pm p)) (pmaxk p) ;;
  shift off.

(* ckks_extract_pt_znx_default(dst_pt, src, src_meta = ct) as used by ckks_decrypt *)
Definition extract_pt (chk : bool) (B : Z) (p : ptz) : M unit :=
  m <- get ;;
  if negb (B =? pb2k p) then fail EBase2k else
  let available := lb m + ld (pm p) in
  if available <? eff (pm p) then fail EAlign else
  let dst_k := pmaxk p in
  if available <? dst_k then (t <- usub chk dst_k available ;; shift t)
  else if dst_k <? available then (t <- usub chk available dst_k ;; shift t)
  else shift 0.

(* ---- the common prefix of the unary `_into` forms:
        let offset = dst.offset_unary(a); glwe_lsh(dst, a, offset); dst.meta = a.meta();
        dst.meta.log_budget = checked_log_budget_sub(op, a.log_budget(), offset)?;          ---- *)
Definition unary_into (B : Z) (d a : ct) : M unit :=
  let off := offset_unary B d a in
  l <- csub ECapacity (lb (cm a)) off ;;
  shift off ;;;
  set_meta (cm a) ;;;
  set_lb l.

(* ---- add.rs / sub.rs ---- *)
Definition lin_into (chk : bool) (B : Z) (d a b : ct) : M unit :=
  let off := offset_binary B d a b in
  let la := lb (cm a) in let lbb := lb (cm b) in
  (if (off =? 0) && (la =? lbb) then ret tt
   else if la <=? lbb then (shift off ;;; t <- usub chk lbb la ;; shift (t + off))
   else (shift off ;;; t <- usub chk la lbb ;; shift (t + off))) ;;;
  l <- csub ECapacity (Z.min la lbb) off ;;
  set_ld (Z.min (ld (cm a)) (ld (cm b))) ;;;
  set_lb l.

Definition lin_assign (chk : bool) (a : ct) : M unit :=
  m <- get ;;
  let dl := lb m in let la := lb (cm a) in
  (if dl <? la then (t <- usub chk la dl ;; shift t)
   else if la <? dl then (t <- usub chk dl la ;; shift t)
   else ret tt) ;;;
  set_lb (Z.min dl la) ;;;
  set_ld (Z.min (ld m) (ld (cm a))).

Definition ptznx_into (chk : bool) (B : Z) (d a : ct) (p : ptz) : M unit :=
  unary_into B d a ;;; ptznx_assign chk B p.

(* the RNX forms quantise into a scratch ZNX plaintext of k = prec.min_k(base2k) first; to_znx rejects log_delta > 53 *)
Definition to_znx_check (l : Z) : M unit := if l <=? f64_prec then ret tt else fail EOther.
Definition ptrnx_into (chk : bool) (B : Z) (d a : ct) (prec : meta) : M unit :=
  to_znx_check (ld prec) ;;; ptznx_into chk B d a (ptz_alloc B prec).
Definition ptrnx_assign (chk : bool) (B : Z) (prec : meta) : M unit :=
  to_znx_check (ld prec) ;;; ptznx_assign chk B (ptz_alloc B prec).

(* ckks_{add,sub}_pt_const_znx_assign_unsafe_default: digits are added limb by limb into column 0 *)
Definition cstznx_assign (chk : bool) (dsize : Z) (c : cst) : M unit :=
  if knone c then ret tt else
  m <- get ;;
  _ <- ensure_plaintext_alignment chk (lb m) (ld (km c)) (eff (km c)) ;;
  if dsize <? klen c then fail EAlign else ret tt.   (* more digits than the destination has limbs *)

Definition cstznx_into (chk : bool) (B : Z) (d a : ct) (c : cst) : M unit :=
  unary_into B d a ;;; cstznx_assign chk (csize d) c.

Definition cstrnx_into (chk : bool) (B : Z) (d a : ct) (prec : meta) (none : bool) : M unit :=
  let off := offset_unary B d a in
  if none then unary_into B d a else
  res_lb <- csub ECapacity (lb (cm a)) off ;;
  let k := res_lb + ld prec in
  (if k <? two64 then ret tt else fail EOther) ;;;        (* checked_add *)
  to_znx_check (ld prec) ;;;
  passert (1 <=? k) ;;;                                   (* encoding at torus precision 0 indexes limb -1 *)
  cstznx_into chk B d a (cst_at_k B k (ld prec) false).

Definition cstrnx_assign (chk : bool) (B : Z) (dsize : Z) (prec : meta) (none : bool) : M unit :=
  if none then ret tt else
  m <- get ;;
  let k := lb m + ld prec in
  (if k <? two64 then ret tt else fail EOther) ;;;
  to_znx_check (ld prec) ;;;
  passert (1 <=? k) ;;;
  cstznx_assign chk dsize (cst_at_k B k (ld prec) false).

(* ---- neg.rs ---- *)
Definition neg_into (B : Z) (d a : ct) : M unit :=
  if offset_unary B d a =? 0 then set_meta (cm a) else unary_into B d a.

(* ---- mul.rs ---- *)
(* get_mul_ct_params(res, x, y) -> (res_log_budget, res_log_delta, cnv_offset) *)
Definition mul_ct_params (B : Z) (resmaxk : Z) (x y : meta) : M (Z * Z * Z) :=
  rlb <- csub EMulUnder (Z.min (lb x) (lb y)) (Z.max (ld x) (ld y)) ;;
  let rld := Z.min (ld x) (ld y) in
  let roff := ssub (rlb + rld) resmaxk in
  let cnv := Z.max (lb x) (lb y) + Z.max (ld x) (ld y) + roff in
  l <- csub ECapacity rlb roff ;;
  ret (l, rld, cnv).
(* get_mul_pt_params / get_mul_const_params: `kk` is b.max_k() resp. prec.min_k(base2k) *)
Definition mul_pt_params (resmaxk : Z) (x : meta) (pld kk : Z) : M (Z * Z * Z) :=
  rlb <- csub EMulUnder (lb x) pld ;;
  let rld := ld x in
  let roff := ssub (rlb + rld) resmaxk in
  let cnv := kk + roff in
  l <- csub ECapacity rlb roff ;;
  ret (l, rld, cnv).
Definition apply_params (p : M (Z * Z * Z)) : M unit :=
  t <- p ;;
  let '(l, rld, cnv) := t in
  shift cnv ;;; set_lb l ;;; set_ld rld.

(* poulpy-core's glwe_tensor_apply / glwe_tensor_square_apply / glwe_mul_plain need every ciphertext operand stored
   compactly, effective_k.div_ceil(base2k) = size; since 45bddf7 the CKKS layer checks it after the parameters were
   computed (ensure_compact -> OperandNotCompact) *)
Definition compact (B : Z) (m : meta) (size : Z) : bool := cdiv (eff m) B =? size.
Definition apply_params_asserting (p : M (Z * Z * Z)) (c : bool) : M unit :=
  t <- p ;;
  (if c then ret tt else fail ENotCompact) ;;;
  let '(l, rld, cnv) := t in
  shift cnv ;;; set_lb l ;;; set_ld rld.

Definition mul_into (B : Z) (d a b : ct) : M unit :=
  apply_params_asserting (mul_ct_params B (maxk B d) (cm a) (cm b))
    (compact B (cm a) (csize a) && compact B (cm b) (csize b)).
Definition mul_assign (B : Z) (d a : ct) : M unit :=
  m <- get ;; apply_params_asserting (mul_ct_params B (maxk B d) m (cm a))
    (compact B m (csize d) && compact B (cm a) (csize a)).
Definition square_into (B : Z) (d a : ct) : M unit :=
  apply_params_asserting (mul_ct_params B (maxk B d) (cm a) (cm a)) (compact B (cm a) (csize a)).
Definition square_assign (B : Z) (d : ct) : M unit :=
  m <- get ;; apply_params_asserting (mul_ct_params B (maxk B d) m m) (compact B m (csize d)).
(* ensure_base2k_match first *)
Definition mulptz_into (B : Z) (d a : ct) (p : ptz) : M unit :=
  if negb (B =? pb2k p) then fail EBase2k else
  apply_params_asserting (mul_pt_params (maxk B d) (cm a) (ld (pm p)) (pmaxk p)) (compact B (cm a) (csize a)).
Definition mulptz_assign (B : Z) (d : ct) (p : ptz) : M unit :=
  if negb (B =? pb2k p) then fail EBase2k else
  m <- get ;; apply_params_asserting (mul_pt_params (maxk B d) m (ld (pm p)) (pmaxk p)) (compact B m (csize d)).
(* constants: `prec` is cst_znx.meta() resp. the caller's prec; the digit count does not matter *)
Definition mulcst_into (B : Z) (d a : ct) (prec : meta) : M unit :=
  apply_params (mul_pt_params (maxk B d) (cm a) (ld prec) (min_k B prec)).
Definition mulcst_assign (B : Z) (d : ct) (prec : meta) : M unit :=
  m <- get ;; apply_params (mul_pt_params (maxk B d) m (ld prec) (min_k B prec)).
(* CKKSPlaintextCstRnx::to_znx(base2k, prec) = to_znx_at_k(base2k, prec.min_k, prec.log_delta): resulting metadata *)
Definition cst_meta_of_prec (B : Z) (prec : meta) : meta := Meta (ld prec) (ssub (min_k B prec) (ld prec)).
(* *_pt_const_rnx_*: both parts absent -> params on `prec` directly (no conversion); otherwise to_znx first *)
(* to_znx(base2k, prec) of a constant with at least one part: log_delta <= 53, and the encoding needs one limb *)
Definition cst_to_znx (B : Z) (prec : meta) (none : bool) : M unit :=
  to_znx_check (ld prec) ;;; passert (none || (1 <=? min_k B prec)).
Definition mulcstrnx_prec (B : Z) (prec : meta) (none : bool) : M meta :=
  if none then ret prec else (cst_to_znx B prec false ;;; ret (cst_meta_of_prec B prec)).

(* ---- delegates/composite.rs: mul_add / mul_sub: product into a scratch ciphertext with dst's layout, then add_assign ---- *)
(* run a computation on a fresh scratch destination (meta default); failure leaves the real destination untouched *)
Definition on_tmp (c : M unit) : M meta :=
  fun m sh => match c (Meta 0 0) sh with R _ mt sh' => R mt m sh' | F e _ => F e m | P => P end.
Definition mulacc (chk : bool) (prod : M unit) : M unit :=
  mt <- on_tmp prod ;; lin_assign chk (Ct mt 0).

(* ---- pow2.rs ---- *)
Definition mulpow2_into (chk : bool) (B : Z) (d a : ct) (bits : Z) : M unit :=
  let off := offset_unary B d a in
  l <- csub ECapacity (lb (cm a)) off ;;
  (if bits + off <? two64 then ret tt else fail EOther) ;;;       (* checked_add *)
  shift (bits + off) ;;;
  set_meta (cm a) ;;;
  set_lb l.
Definition divpow2_into (chk : bool) (B : Z) (d a : ct) (bits : Z) : M unit :=
  let off := offset_unary B d a in
  l <- csub ECapacity (lb (cm a)) (Z.min (bits + off) (two64 - 1)) ;;    (* saturating_add *)
  shift off ;;;
  set_meta (cm a) ;;;
  set_lb l ;;;
  nl <- uadd chk (ld (cm a)) bits ;;
  set_ld nl.
Definition divpow2_assign (bits : Z) : M unit :=
  m <- get ;; l <- csub ECapacity (lb m) bits ;; set_lb l.

(* ---- rotate.rs / conjugate.rs ---- *)
Definition rotate_into (B : Z) (d a : ct) (key : bool) : M unit :=
  if negb key then fail EMissingKey else unary_into B d a.
Definition rotate_assign (key : bool) : M unit := if negb key then fail EMissingKey else ret tt.

(* ---- rescale.rs ---- *)
Definition rescale_assign (k : Z) : M unit :=
  m <- get ;; l <- csub ECapacity (lb m) k ;; shift k ;;; set_lb l.
Definition rescale_into (B : Z) (d a : ct) (k : Z) : M unit :=
  l <- csub ECapacity (lb (cm a)) k ;;
  let off := ssub (ld (cm a) + l) (maxk B d) in
  l2 <- csub ECapacity l off ;;
  shift (k + off) ;;; set_meta (cm a) ;;; set_lb l2.

(* ---- delegates/encryption.rs ---- *)
Definition encrypt (chk : bool) (B : Z) (d : ct) (pt : meta) (enc_k : Z) : M unit :=
  passert (1 <=? cdiv enc_k B) ;;;                       (* NoiseInfos::target_limb_and_scale: k.div_ceil(base2k) - 1 *)
  passert (cdiv enc_k B <=? csize d) ;;;                 (* the noise limb must exist in the ciphertext *)
  l <- csub ECapacity enc_k (ld pt) ;;
  set_lb l ;;; set_ld (ld pt) ;;;
  ptznx_assign chk B (ptz_alloc B pt).

(* ---- delegates/composite.rs: add_many, mul_many, dot products over slices of ciphertexts ---- *)
Fixpoint fold_m {A : Type} (f : A -> M unit) (l : list A) : M unit :=
  match l with [] => ret tt | x :: tl => f x ;;; fold_m f tl end.
Definition zlen {A : Type} (l : list A) : Z := Z.of_nat (length l).
Definition dct : ct := Ct (Meta 0 0) 0.
(* ensure_accumulation_fits *)
Definition acc_fits (B n : Z) : M unit := if (B <? 64) && (n <=? 2 ^ (63 - B)) then ret tt else fail EOther.
(* accumulate_unnormalized: each further term goes into a scratch ciphertext with dst's layout, then add_assign_unsafe *)
Definition accumulate (chk : bool) (A : Type) (term : A -> M unit) (rest : list A) : M unit :=
  fold_m (fun x => mt <- on_tmp (term x) ;; lin_assign chk (Ct mt 0)) rest.

Definition add_many (chk : bool) (B : Z) (d : ct) (ins : list ct) : M unit :=
  match ins with
  | [] => fail EOther
  | [x] => unary_into B d x
  | x :: y :: tl => acc_fits B (zlen ins) ;;; lin_into chk B d x y ;;; fold_m (fun c => lin_assign chk c) tl
  end.

Definition min_over (f : ct -> Z) (l : list ct) : Z :=
  match l with [] => 0 | x :: tl => fold_left (fun acc c => Z.min acc (f c)) tl (f x) end.
Definition ld_of (c : ct) : Z := ld (cm c).
Definition lb_of (c : ct) : Z := lb (cm c).
Definition eff_of (c : ct) : Z := eff (cm c).

(* mul_many_rec: a balanced product tree; the two halves go into scratch ciphertexts of
   max_k = min effective_k of the half - ceil_log2(len) * log_delta *)
Fixpoint mul_many_rec (fuel : nat) (B : Z) (d : ct) (ins : list ct) : M unit :=
  match fuel with
  | O => panic
  | S f =>
      let l0 := ld_of (hd dct ins) in
      if negb (forallb (fun c => ld_of c =? l0) ins) then fail EOther else
      match ins with
      | [] => fail EOther
      | [x] => unary_into B d x
      | [x; y] => mul_into B d x y
      | _ =>
          let mid := Nat.div2 (length ins) in
          let l := firstn mid ins in let r := skipn mid ins in
          let lk := ssub (min_over eff_of l) (Z.log2_up (zlen l) * l0) in
          let rk := ssub (min_over eff_of r) (Z.log2_up (zlen r) * l0) in
          let dl := Ct (Meta 0 0) (cdiv lk B) in let dr := Ct (Meta 0 0) (cdiv rk B) in
          ml <- on_tmp (mul_many_rec f B dl l) ;;
          mr <- on_tmp (mul_many_rec f B dr r) ;;
          mul_into B d (Ct ml (csize dl)) (Ct mr (csize dr))
      end
  end.
Definition mul_many (B : Z) (d : ct) (ins : list ct) : M unit :=
  match ins with [] => fail EOther | _ => mul_many_rec (S (length ins)) B d ins end.

(* ckks_dot_product_ct.  The rescaled copies of unaligned inputs go into scratch buffers of exactly the target
   precision; those calls cannot fail and do not touch dst: they are not modelled. *)
Definition dot_ct (chk : bool) (B : Z) (d : ct) (xs ys : list ct) : M unit :=
  if (zlen xs =? 0) || negb (zlen xs =? zlen ys) then fail EOther else
  acc_fits B (zlen xs) ;;;
  match combine xs ys with
  | [] => fail EOther
  | [(x, y)] => mul_into B d x y
  | (x0, y0) :: rest =>
      let a_ld := ld_of x0 in let b_ld := ld_of y0 in
      let amin := min_over lb_of xs in let bmin := min_over lb_of ys in
      let a_aligned := forallb (fun c => (lb_of c =? amin) && (ld_of c =? a_ld)) xs in
      let b_aligned := forallb (fun c => (lb_of c =? bmin) && (ld_of c =? b_ld)) ys in
      let uniform := forallb (fun c => ld_of c =? a_ld) xs && forallb (fun c => ld_of c =? b_ld) ys in
      if negb uniform then
        mul_into B d x0 y0 ;;; accumulate chk _ (fun q => mul_into B d (fst q) (snd q)) rest
      else
        let a_t := amin + a_ld in let b_t := bmin + b_ld in
        lhr0 <- csub EMulUnder (Z.min amin bmin) (Z.max a_ld b_ld) ;;
        let rld := Z.min a_ld b_ld in
        let roff := ssub (lhr0 + rld) (maxk B d) in
        rl <- csub ECapacity lhr0 roff ;;
        let cnv := Z.max amin bmin + Z.max a_ld b_ld + roff in
        (* inputs handed to the tensor product unchanged have to be compact (ensure_compact) *)
        (if (negb a_aligned || forallb (fun c => cdiv a_t B =? csize c) xs) &&
            (negb b_aligned || forallb (fun c => cdiv b_t B =? csize c) ys) then ret tt else fail ENotCompact) ;;;
        shift cnv ;;; set_lb rl ;;; set_ld rld
  end.

(* dot products with plaintexts: first term into dst, the others accumulated *)
Definition dot_terms (chk : bool) (B : Z) (xs : list ct) (term : ct -> M unit) : M unit :=
  match xs with
  | [] => fail EOther
  | x0 :: rest => acc_fits B (zlen xs) ;;; term x0 ;;; accumulate chk _ term rest
  end.

Inductive comp :=
| CAddMany | CMulMany | CDotCt
| CDotPtZnx (p : ptz) | CDotPtRnx (prec : meta)
| CDotCstZnx (prec : meta) (none : bool) | CDotCstRnx (prec : meta) (none : bool).

Definition comp_m (chk : bool) (B : Z) (c : comp) (d : ct) (xs ys : list ct) : M unit :=
  match c with
  | CAddMany => add_many chk B d xs
  | CMulMany => mul_many B d xs
  | CDotCt => dot_ct chk B d xs ys
  | CDotPtZnx p => dot_terms chk B xs (fun x => mulptz_into B d x p)
  | CDotPtRnx prec => dot_terms chk B xs (fun x => to_znx_check (ld prec) ;;; mulptz_into B d x (ptz_alloc B prec))
  | CDotCstZnx prec none =>
      (* the caller converts the constants with to_znx first *)
      (match xs with [] => ret tt | _ => cst_to_znx B prec none end) ;;;
      dot_terms chk B xs (fun x => mulcst_into B d x (cst_meta_of_prec B prec))
  | CDotCstRnx prec none => dot_terms chk B xs (fun x => p <- mulcstrnx_prec B prec none ;; mulcst_into B d x p)
  end.

Definition comp_step (chk : bool) (B : Z) (c : comp) (d : ct) (xs ys : list ct) : outcome :=
  match comp_m chk B c d xs ys (cm d) [] with
  | R _ m sh => Done m (csize d) sh
  | F e m => Fail e m
  | P => Panic
  end.

(* ---- operations ---- *)
Inductive op :=
| OAlloc (size : Z)
| OEncrypt (pt : meta) (enc_k : Z)
| OLinInto | OLinAssign
| OPtZnxInto (p : ptz) | OPtZnxAssign (p : ptz)
| OPtRnxInto (prec : meta) | OPtRnxAssign (prec : meta)
| OCstZnxInto (l k : Z) (none : bool) | OCstZnxAssign (l k : Z) (none : bool)
| OCstRnxInto (prec : meta) (none : bool) | OCstRnxAssign (prec : meta) (none : bool)
| ONegInto | ONegAssign
| OMulInto | OMulAssign | OSquareInto | OSquareAssign
| OMulPtZnxInto (p : ptz) | OMulPtZnxAssign (p : ptz)
| OMulPtRnxInto (prec : meta) | OMulPtRnxAssign (prec : meta)
| OMulCstZnxInto (prec : meta) (none : bool) | OMulCstZnxAssign (prec : meta) (none : bool)
| OMulCstRnxInto (prec : meta) (none : bool) | OMulCstRnxAssign (prec : meta) (none : bool)
| OMulAccCt | OMulAccPtZnx (p : ptz) | OMulAccPtRnx (prec : meta)
| OMulAccCstZnx (prec : meta) (none : bool) | OMulAccCstRnx (prec : meta) (none : bool)
| OMulPow2Into (bits : Z) | OMulPow2Assign (bits : Z) | ODivPow2Into (bits : Z) | ODivPow2Assign (bits : Z)
| ORotateInto (key : bool) | ORotateAssign (key : bool) | OConjInto | OConjAssign
| ORescaleInto (k : Z) | ORescaleAssign (k : Z)
| OCompact | ORealloc (size : Z) | OCompactCopy | OSetMeta (m : meta) | ODecrypt (pt : meta).

(* metadata computation of an op; `d` destination (current state), `a`, `b` sources *)
Definition meta_m (chk : bool) (B : Z) (o : op) (d a b : ct) : M unit :=
  match o with
  | OAlloc _ => set_meta (Meta 0 0)
  | OEncrypt pt k => encrypt chk B d pt k
  | OLinInto => lin_into chk B d a b
  | OLinAssign => lin_assign chk a
  | OPtZnxInto p => ptznx_into chk B d a p
  | OPtZnxAssign p => ptznx_assign chk B p
  | OPtRnxInto prec => ptrnx_into chk B d a prec
  | OPtRnxAssign prec => ptrnx_assign chk B prec
  | OCstZnxInto l k none => to_znx_check l ;;; passert (none || (1 <=? k)) ;;; cstznx_into chk B d a (cst_at_k B k l none)
  | OCstZnxAssign l k none => to_znx_check l ;;; passert (none || (1 <=? k)) ;;; cstznx_assign chk (csize d) (cst_at_k B k l none)
  | OCstRnxInto prec none => cstrnx_into chk B d a prec none
  | OCstRnxAssign prec none => cstrnx_assign chk B (csize d) prec none
  | ONegInto => neg_into B d a
  | ONegAssign => ret tt
  | OMulInto => mul_into B d a b
  | OMulAssign => mul_assign B d a
  | OSquareInto => square_into B d a
  | OSquareAssign => square_assign B d
  | OMulPtZnxInto p => mulptz_into B d a p
  | OMulPtZnxAssign p => mulptz_assign B d p
  | OMulPtRnxInto prec => to_znx_check (ld prec) ;;; mulptz_into B d a (ptz_alloc B prec)
  | OMulPtRnxAssign prec => to_znx_check (ld prec) ;;; mulptz_assign B d (ptz_alloc B prec)
  | OMulCstZnxInto prec none => cst_to_znx B prec none ;;; mulcst_into B d a (cst_meta_of_prec B prec)
  | OMulCstZnxAssign prec none => cst_to_znx B prec none ;;; mulcst_assign B d (cst_meta_of_prec B prec)
  | OMulCstRnxInto prec none => p <- mulcstrnx_prec B prec none ;; mulcst_into B d a p
  | OMulCstRnxAssign prec none => p <- mulcstrnx_prec B prec none ;; mulcst_assign B d p
  | OMulAccCt => mulacc chk (mul_into B d a b)
  | OMulAccPtZnx p => mulacc chk (mulptz_into B d a p)
  | OMulAccPtRnx prec => mulacc chk (to_znx_check (ld prec) ;;; mulptz_into B d a (ptz_alloc B prec))
  | OMulAccCstZnx prec none =>
      cst_to_znx B prec none ;;;
      if none then ret tt else mulacc chk (mulcst_into B d a (cst_meta_of_prec B prec))
  | OMulAccCstRnx prec none =>
      if none then ret tt else mulacc chk (p <- mulcstrnx_prec B prec false ;; mulcst_into B d a p)
  | OMulPow2Into bits => mulpow2_into chk B d a bits
  | OMulPow2Assign bits => shift bits
  | ODivPow2Into bits => divpow2_into chk B d a bits
  | ODivPow2Assign bits => divpow2_assign bits
  | ORotateInto key => rotate_into B d a key
  | ORotateAssign key => rotate_assign key
  | OConjInto => unary_into B d a
  | OConjAssign => ret tt
  | ORescaleInto k => rescale_into B d a k
  | ORescaleAssign k => rescale_assign k
  | OCompact => ret tt
  | ORealloc size => m <- get ;; if size <? cdiv (eff m) B then fail EShrink else ret tt
  | OCompactCopy => passert (cdiv (eff (cm a)) B <=? csize a) ;;; set_meta (cm a)
  | OSetMeta m' => if (ld m' + lb m' <? two64) && (ld m' + lb m' <=? maxk B d) then set_meta m' else fail EShrink
  | ODecrypt pt => extract_pt chk B (ptz_alloc B pt)
  end.

(* limb count of the destination after a successful call *)
Definition new_size (B : Z) (o : op) (d a : ct) : Z :=
  match o with
  | OAlloc s => s
  | OCompact => cdiv (eff (cm d)) B
  | ORealloc s => s
  | OCompactCopy => cdiv (eff (cm a)) B
  | _ => csize d
  end.

Definition meta_step (chk : bool) (B : Z) (o : op) (d a b : ct) : outcome :=
  match meta_m chk B o d a b (cm d) [] with
  | R _ m sh => Done m (new_size B o d a) sh
  | F e m => Fail e m
  | P => Panic
  end.

(* ------------------------------------------------------------------------------------------------------------ *)
(* straight-line programs over a register file *)

Record step := Step { sop : op; sd : nat; sa : nat; sb : nat }.
Definition regs := list ct.
Definition rget (rs : regs) (i : nat) : ct := nth i rs (Ct (Meta 0 0) 0).
Fixpoint rset (rs : regs) (i : nat) (c : ct) : regs :=
  match rs, i with
  | [], _ => []
  | _ :: tl, O => c :: tl
  | x :: tl, S j => x :: rset tl j c
  end.

(* state after a call: a failed call keeps the limb count and takes the (possibly changed) metadata *)
Definition apply_outcome (rs : regs) (i : nat) (o : outcome) : regs :=
  match o with
  | Done m sz _ => rset rs i (Ct m sz)
  | Fail _ m => rset rs i (Ct m (csize (rget rs i)))
  | Panic => rs
  end.

Definition exec_step (chk : bool) (B : Z) (rs : regs) (s : step) : outcome * regs :=
  let o := meta_step chk B (sop s) (rget rs (sd s)) (rget rs (sa s)) (rget rs (sb s)) in
  (o, apply_outcome rs (sd s) o).

(* all outcomes of a program, and the final register file; execution goes on after a failed call
   (the caller may ignore the error) and stops at a panic *)
Fixpoint exec_prog (chk : bool) (B : Z) (rs : regs) (p : list step) : list outcome * regs :=
  match p with
  | [] => ([], rs)
  | s :: tl =>
      let '(o, rs') := exec_step chk B rs s in
      match o with
      | Panic => ([o], rs')
      | _ => let '(os, rf) := exec_prog chk B rs' tl in (o :: os, rf)
      end
  end.

(* ------------------------------------------------------------------------------------------------------------ *)
(* correspondence entry point: decode the harness' numeric program *)

Definition zb (z : Z) : bool := negb (z =? 0).
Definition nthz (l : list Z) (i : nat) : Z := nth i l 0.

(* CKKSPlaintextVecZnx::alloc with `extra` limbs beyond the minimum, then set_meta_checked(meta) *)
Definition ptz_extra (B : Z) (m : meta) (extra b2k : Z) : ptz :=
  Ptz m (cdiv (eff m + extra * b2k) b2k * b2k) b2k.

Inductive dstep :=
| DOp (o : op) (d a b : nat)
| DAlign (d b : nat)
| DComp (c : comp) (d : nat) (xs ys : list nat)
| DBad.

Definition nregs : nat := 6.
Definition reg_ok (z : Z) : bool := (0 <=? z) && (z <? Z.of_nat nregs).

(* register lists of the composites: n entries, packed base 8 *)
(* (n is clamped: extraction evaluates this eagerly for every step, whatever its scalars) *)
Definition unpack (n packed : Z) : list Z :=
  map (fun i => (packed / 8 ^ Z.of_nat i) mod 8) (seq 0 (Z.to_nat (Z.max 0 (Z.min n 5)))).
Definition list_ok (d n packed : Z) : bool :=
  (0 <=? packed) && forallb (fun r => (r <? Z.of_nat 6) && negb (r =? d)) (unpack n packed).

Definition decode (B : Z) (s : list Z) : dstep :=
  let code := nthz s 0 in
  let d := nthz s 1 in let a := nthz s 2 in let b := nthz s 3 in
  let s0 := nthz s 4 in let s1 := nthz s 5 in let s2 := nthz s 6 in let s5 := nthz s 9 in
  let dn := Z.to_nat d in let an := Z.to_nat a in let bn := Z.to_nat b in
  let m01 := Meta s0 s1 in
  let none := negb (zb s2) in
  let pz := ptz_extra B m01 s2 s5 in
  (* shapes: u0 = only d, u1 = d and a (a <> d), u2 = d, a, b *)
  let u0 (o : op) := if reg_ok d then DOp o dn dn dn else DBad in
  let u1 (o : op) := if reg_ok d && reg_ok a && negb (a =? d) then DOp o dn an an else DBad in
  let u2 (o : op) := if reg_ok d && reg_ok a && reg_ok b && negb (a =? d) && negb (b =? d) then DOp o dn an bn else DBad in
  let s3 := nthz s 7 in let s4 := nthz s 8 in
  let m34 := Meta s3 s4 in
  let regs1 := map Z.to_nat (unpack s0 s1) in let regs2 := map Z.to_nat (unpack s0 s2) in
  let cmp (c : comp) (two : bool) :=
    if reg_ok d && (0 <=? s0) && (s0 <=? 5) && list_ok d s0 s1 && (0 <=? s2) && (negb two || list_ok d s0 s2)
    then DComp c dn regs1 (if two then regs2 else []) else DBad in
  if negb (Nat.eqb (length s) 10) then DBad else
  match code with
  | 1 => u0 (OAlloc s0)
  | 2 => u0 (OEncrypt m01 s2)
  | 10 | 12 => u2 OLinInto
  | 11 | 13 => u1 OLinAssign
  | 14 | 16 => u1 (OPtZnxInto pz)
  | 15 | 17 => u0 (OPtZnxAssign pz)
  | 18 | 20 => u1 (OPtRnxInto m01)
  | 19 | 21 => u0 (OPtRnxAssign m01)
  | 22 | 24 => u1 (OCstZnxInto s0 s1 none)
  | 23 | 25 => u0 (OCstZnxAssign s0 s1 none)
  | 26 | 28 => u1 (OCstRnxInto m01 none)
  | 27 | 29 => u0 (OCstRnxAssign m01 none)
  | 30 => u1 ONegInto
  | 31 => u0 ONegAssign
  | 32 => u2 OMulInto
  | 33 => u1 OMulAssign
  | 34 => u1 OSquareInto
  | 35 => u0 OSquareAssign
  | 36 => u1 (OMulPtZnxInto pz)
  | 37 => u0 (OMulPtZnxAssign pz)
  | 38 => u1 (OMulPtRnxInto m01)
  | 39 => u0 (OMulPtRnxAssign m01)
  | 40 => u1 (OMulCstZnxInto m01 none)
  | 41 => u0 (OMulCstZnxAssign m01 none)
  | 42 => u1 (OMulCstRnxInto m01 none)
  | 43 => u0 (OMulCstRnxAssign m01 none)
  | 44 | 49 => u2 OMulAccCt
  | 45 | 50 => u1 (OMulAccPtZnx pz)
  | 46 | 51 => u1 (OMulAccPtRnx m01)
  | 47 | 52 => u1 (OMulAccCstZnx m01 none)
  | 48 | 53 => u1 (OMulAccCstRnx m01 none)
  | 54 => u1 (OMulPow2Into s0)
  | 55 => u0 (OMulPow2Assign s0)
  | 56 => u1 (ODivPow2Into s0)
  | 57 => u0 (ODivPow2Assign s0)
  | 58 => u1 (ORotateInto ((s0 =? 1) || (s0 =? 5)))
  | 59 => u0 (ORotateAssign ((s0 =? 1) || (s0 =? 5)))
  | 60 => u1 OConjInto
  | 61 => u0 OConjAssign
  | 62 => u1 (ORescaleInto s0)
  | 63 => u0 (ORescaleAssign s0)
  | 64 => if reg_ok d && reg_ok b && negb (b =? d) then DAlign dn bn else DBad
  | 65 => u0 OCompact
  | 66 => u0 (ORealloc s0)
  | 67 => u1 OCompactCopy
  | 68 => u0 (OSetMeta m01)
  | 69 => u0 (ODecrypt m01)
  | 70 => cmp CAddMany false
  | 71 => cmp CMulMany false
  | 72 => cmp CDotCt true
  | 73 => cmp (CDotPtZnx (ptz_extra B m34 0 B)) false
  | 74 => cmp (CDotPtRnx m34) false
  | 75 => cmp (CDotCstZnx m34 none) false
  | 76 => cmp (CDotCstRnx m34 none) false
  | _ => DBad
  end.

Definition row (o : outcome) (c : ct) : list Z :=
  match o with
  | Done m sz _ => [0; ld m; lb m; sz]
  | Fail e m => [ecode e; ld m; lb m; csize c]
  | Panic => [99; 0; 0; 0]
  end.
Definition is_panic (o : outcome) : bool := match o with Panic => true | _ => false end.

(* ckks_align_assign_default(a = d, b): rescale the one with the larger budget *)
Definition align (chk : bool) (B : Z) (rs : regs) (d b : nat) : list Z * regs * bool :=
  let cd := rget rs d in let cb := rget rs b in
  if lb (cm cd) <? lb (cm cb) then
    match usub chk (lb (cm cb)) (lb (cm cd)) (cm cb) [] with
    | R k _ _ =>
        let o := meta_step chk B (ORescaleAssign k) cb cb cb in
        let rs' := apply_outcome rs b o in
        let cb' := rget rs' b in
        (match o with Panic => [99; 0; 0; 0] | Done _ _ _ => [0] | Fail e _ => [ecode e] end
           ++ (match o with Panic => [] | _ => [ld (cm cd); lb (cm cd); csize cd; ld (cm cb'); lb (cm cb'); csize cb'] end),
         rs', is_panic o)
    | _ => ([99; 0; 0; 0], rs, true)
    end
  else
    match usub chk (lb (cm cd)) (lb (cm cb)) (cm cd) [] with
    | R k _ _ =>
        let o := meta_step chk B (ORescaleAssign k) cd cd cd in
        let rs' := apply_outcome rs d o in
        let cd' := rget rs' d in
        (match o with Panic => [99; 0; 0; 0] | Done _ _ _ => [0] | Fail e _ => [ecode e] end
           ++ (match o with Panic => [] | _ => [ld (cm cd'); lb (cm cd'); csize cd'; ld (cm cb); lb (cm cb); csize cb] end),
         rs', is_panic o)
    | _ => ([99; 0; 0; 0], rs, true)
    end.

Fixpoint run_steps (chk : bool) (B : Z) (rs : regs) (p : list dstep) : list (list Z) :=
  match p with
  | [] => []
  | DBad :: _ => []
  | DAlign d b :: tl =>
      let '(r, rs', dead) := align chk B rs d b in
      r :: (if dead then [] else run_steps chk B rs' tl)
  | DOp o d a b :: tl =>
      let '(oc, rs') := exec_step chk B rs (Step o d a b) in
      row oc (rget rs' d) :: (if is_panic oc then [] else run_steps chk B rs' tl)
  | DComp c d xs ys :: tl =>
      let oc := comp_step chk B c (rget rs d) (map (rget rs) xs) (map (rget rs) ys) in
      let rs' := apply_outcome rs d oc in
      row oc (rget rs' d) :: (if is_panic oc then [] else run_steps chk B rs' tl)
  end.

Definition init_regs : regs := repeat (Ct (Meta 0 0) 1) nregs.
Definition is_bad (s : dstep) : bool := match s with DBad => true | _ => false end.

(* ps = [backend; log2 n; base2k; kmax; overflow-checks] *)
Definition run_prog_z (ps : list Z) (vs : list (list Z)) : option (list (list Z)) :=
  let B := nthz ps 2 in
  let chk := zb (nthz ps 4) in
  let p := map (decode B) vs in
  if existsb is_bad p then None else Some (run_steps chk B init_regs p).
