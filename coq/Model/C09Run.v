(* Executable entry point of the C09 (ring operations) model, on flat buffers.
   header: be | rn rcols rsize rmax rcol | an acols asize amax acol | bn bcols bsize bmax bcol | extra...
   vs = [res_flat; a_flat; b_flat] (split/merge: see below).  Output: the whole result buffer(s). *)
From PV Require Import Base.MachineInt Model.Znx Model.Limbs Model.Flat Model.Ring Model.C09Big.
Open Scope Z_scope.

Definition p (ps : list Z) (i : nat) : Z := nth i ps 0.
Definition v (vs : list (list Z)) (i : nat) : list Z := nth i vs [].
Definition np (ps : list Z) (i : nat) : nat := Z.to_nat (p ps i).
Definition shp (ps : list Z) (k : nat) : shape :=
  {| s_n := np ps (1 + 5 * k); s_cols := np ps (2 + 5 * k); s_size := np ps (3 + 5 * k);
     s_max := np ps (4 + 5 * k); s_col := np ps (5 + 5 * k) |}.
Definition ex (ps : list Z) (i : nat) : Z := p ps (16 + i).

Definition getcol (s : shape) (d : list Z) : limbs := col_limbs (s_n s) (s_cols s) (s_size s) d (s_col s).
Definition putcol (s : shape) (d : list Z) (l : limbs) : list Z := write_col (s_n s) (s_cols s) d (s_col s) l.

Definition with_size (s : shape) (sz : nat) : shape :=
  {| s_n := s_n s; s_cols := s_cols s; s_size := sz; s_max := s_max s; s_col := s_col s |}.

Definition run_c09 (code : Z) (ps : list Z) (vs : list (list Z)) : option (list (list Z)) :=
  let w := 64 in
  let rs := shp ps 0 in let sa := shp ps 1 in let sb := shp ps 2 in
  let res := v vs 0 in let a := v vs 1 in let b := v vs 2 in
  let r0 := getcol rs res in
  let al := getcol sa a in let bl := getcol sb b in
  let n := s_n rs in
  let out l := if shape_ok rs res then Some [putcol rs res l] else None in
  let oka := shape_ok sa a in let okb := shape_ok sb b in
  match code with
  | 9001 => if oka && okb then out (vec_add w n al bl r0) else None
  | 9002 => if oka then out (vec_add_assign w al r0) else None
  | 9003 => if oka && okb then out (vec_sub w n al bl r0) else None
  | 9004 => if oka then out (vec_sub_assign w al r0) else None
  | 9005 => if oka then out (vec_sub_negate_assign w al r0) else None
  | 9006 => if oka then out (vec_unary n (vneg w) al r0) else None
  | 9007 => out (vec_unary_assign (vneg w) r0)
  | 9008 => if oka && okb then out (vec_add_scalar w n false (lnth al 0) bl (Z.to_nat (ex ps 0)) r0) else None
  | 9009 => if oka then match vec_add_scalar_assign w false (lnth al 0) (Z.to_nat (ex ps 0)) r0 with Some l => out l | None => None end else None
  | 9010 => if oka && okb then out (vec_add_scalar w n true (lnth al 0) bl (Z.to_nat (ex ps 0)) r0) else None
  | 9011 => if oka then match vec_add_scalar_assign w true (lnth al 0) (Z.to_nat (ex ps 0)) r0 with Some l => out l | None => None end else None
  | 9012 => if oka then out (vec_unary n (fun l => l) al r0) else None
  | 9013 => out (map (fun _ => zlimb n) r0)
  | 9014 => if oka then out (vec_rotate w n (ex ps 0) al r0) else None
  | 9015 => out (vec_rotate_assign w (ex ps 0) r0)
  | 9016 => if oka then out (vec_mul_xp_minus_one w n (ex ps 0) al r0) else None
  | 9017 => out (vec_mul_xp_minus_one_assign w (ex ps 0) r0)
  | 9018 => if oka then out (vec_automorphism w n (ex ps 0) al r0) else None
  | 9019 => out (vec_automorphism_assign w (ex ps 0) (repeat (ex ps 1) n) r0)
  | 9020 => if oka then out (vec_switch_ring n al r0) else None
  | 9021 => (* split_ring: vs = [a; part_0; ...; part_{k-1}], all parts share the shape rs; a has shape sa *)
      let parts := tl vs in
      if shape_ok sa (v vs 0) then
        Some (map (fun q => let i := fst q in let d := snd q in
                    putcol rs d (vec_split_part w n i (getcol sa (v vs 0)) (getcol rs d)))
                  (combine (seq 0 (length parts)) parts))
      else None
  | 9022 => (* merge_rings: vs = [res; part_0; ...], parts share the shape sa *)
      let parts := tl vs in
      out (vec_merge_rings n (map (getcol sa) parts) r0)
  | _ =>
      (* 9023 / 9024: split / merge with parts of DIFFERENT limb counts: ex i = active size of part i (capacity: the shape's) *)
      if code =? 9023 then
        let parts := tl vs in
        if shape_ok sa (v vs 0) then
          Some (map (fun q => let i := fst q in let d := snd q in let rsi := with_size rs (Z.to_nat (ex ps i)) in
                      putcol rsi d (vec_split_part w n i (getcol sa (v vs 0)) (getcol rsi d)))
                    (combine (seq 0 (length parts)) parts))
        else None
      else if code =? 9024 then
        let parts := tl vs in
        out (vec_merge_rings n (map (fun q => getcol (with_size sa (Z.to_nat (ex ps (fst q)))) (snd q))
                                    (combine (seq 0 (length parts)) parts)) r0)
      else run_c09_big code ps vs   (* 9101..9116: the big-accumulator family (Model/C09Big.v); None elsewhere *)
  end.
