(* L1/L2: coefficient-domain ring operations.
   Limb level (one small polynomial = list of n words): reference/znx/{rotate,automorphism,switch_ring,add,sub,neg}.rs
   Vector level (limb lists with the size rule): reference/vec_znx/{add,sub,negate,add_scalar,sub_scalar,copy,zero,
   rotate,mul_xp_minus_one,automorphism,switch_ring,split_ring,merge_rings}.rs.
   Word arithmetic wraps (release semantics). *)
From PV Require Import Base.MachineInt Model.Znx Model.Limbs.
Open Scope Z_scope.

Section W.
Variable w : Z.

Definition vadd (a b : list Z) : list Z := map2 (wadd w) a b.
Definition vsub (a b : list Z) : list Z := map2 (wsub w) a b.
Definition vneg (a : list Z) : list Z := map (wneg w) a.

(* znx_rotate: res = X^p * src in Z[X]/(X^n+1), written as the code's split / negate / copy *)
Definition znx_rotate (p : Z) (src : list Z) : list Z :=
  let n := Z.of_nat (length src) in
  let mp_2n := p mod (2 * n) in           (* p & (2n-1), n a power of two *)
  let mp_1n := mp_2n mod n in             (* mp_2n & (n-1) *)
  let neg_first := mp_2n <? n in
  let src1 := firstn (Z.to_nat (n - mp_1n)) src in
  let src2 := skipn (Z.to_nat (n - mp_1n)) src in
  if neg_first then vneg src2 ++ src1 else src2 ++ vneg src1.

(* znx_automorphism_ref: running index k <- (k + p) & (2n-1) *)
Definition znx_automorphism (p : Z) (a : list Z) : list Z :=
  let n := Z.of_nat (length a) in
  let p2 := p mod (2 * n) in
  match a with
  | [] => []
  | a0 :: rest =>
    fst (fold_left (fun (s : list Z * Z) ai =>
      let '(r, k) := s in
      let k' := (k + p2) mod (2 * n) in
      (if k' <? n then upd r (Z.to_nat k') ai else upd r (Z.to_nat (k' - n)) (wneg w ai), k'))
      rest (a0 :: map (fun _ => 0) rest, 0))
  end.
(* NOTE: positions not hit keep the initial 0 here; the Rust code leaves them as they were in `res`.
   For odd p every position is hit exactly once (proved), for even p the result depends on prior contents:
   the vector-level wrappers below therefore take the prior limb. *)
Definition znx_automorphism_onto (p : Z) (r0 a : list Z) : list Z :=
  let n := Z.of_nat (length a) in
  let p2 := p mod (2 * n) in
  match a with
  | [] => r0
  | a0 :: rest =>
    fst (fold_left (fun (s : list Z * Z) ai =>
      let '(r, k) := s in
      let k' := (k + p2) mod (2 * n) in
      (if k' <? n then upd r (Z.to_nat k') ai else upd r (Z.to_nat (k' - n)) (wneg w ai), k'))
      rest (upd r0 0 a0, 0))
  end.

(* znx_switch_ring_ref: res has n_out coefficients *)
Definition znx_switch_ring (n_out : nat) (r0 a : list Z) : list Z :=
  let n_in := length a in
  if Nat.eqb n_in n_out then a
  else if Nat.ltb n_out n_in then
    let gap := (n_in / n_out)%nat in map (fun t => nthZ a (t * gap)) (seq 0 n_out)
  else
    let gap := (n_out / n_in)%nat in
    map (fun t => if Nat.eqb (t mod gap) 0 then nthZ a (t / gap) else 0) (seq 0 n_out).

(* ---------------- vector level: limb lists ---------------- *)
Definition limbs := list (list Z).
Definition lnth (l : limbs) (j : nat) : list Z := nth j l [].
Definition zlimb (n : nat) : list Z := zeros n.

(* generic size rule: for j < res_size pick by position *)
Definition build (rsz : nat) (f : nat -> list Z) : limbs := map f (seq 0 rsz).

(* vec_znx_add_into / vec_znx_sub: sum on common limbs, copy (or negate) the longer operand, zero beyond *)
Definition vec_add (n : nat) (a b r0 : limbs) : limbs :=
  let asz := length a in let bsz := length b in let rsz := length r0 in
  build rsz (fun j =>
    if Nat.ltb j (Nat.min asz bsz) then vadd (lnth a j) (lnth b j)
    else if Nat.ltb j (Nat.max asz bsz) then (if Nat.leb asz bsz then lnth b j else lnth a j)
    else zlimb n).
Definition vec_sub (n : nat) (a b r0 : limbs) : limbs :=
  let asz := length a in let bsz := length b in let rsz := length r0 in
  build rsz (fun j =>
    if Nat.ltb j (Nat.min asz bsz) then vsub (lnth a j) (lnth b j)
    else if Nat.ltb j (Nat.max asz bsz) then (if Nat.leb asz bsz then vneg (lnth b j) else lnth a j)
    else zlimb n).
Definition vec_add_assign (a r0 : limbs) : limbs :=
  build (length r0) (fun j => if Nat.ltb j (length a) then vadd (lnth r0 j) (lnth a j) else lnth r0 j).
Definition vec_sub_assign (a r0 : limbs) : limbs :=
  build (length r0) (fun j => if Nat.ltb j (length a) then vsub (lnth r0 j) (lnth a j) else lnth r0 j).
Definition vec_sub_negate_assign (a r0 : limbs) : limbs :=
  build (length r0) (fun j => if Nat.ltb j (length a) then vsub (lnth a j) (lnth r0 j) else vneg (lnth r0 j)).
(* unary with zero fill *)
Definition vec_unary (n : nat) (f : list Z -> list Z) (a r0 : limbs) : limbs :=
  build (length r0) (fun j => if Nat.ltb j (length a) then f (lnth a j) else zlimb n).
Definition vec_unary_assign (f : list Z -> list Z) (r0 : limbs) : limbs := map f r0.

(* vec_znx_add_scalar_into(res, a: scalar, b, b_limb); None = debug assertion (b_limb >= min_size) --
   in release the call is accepted and simply never adds; we model release *)
Definition vec_add_scalar (n : nat) (sub : bool) (a : list Z) (b : limbs) (b_limb : nat) (r0 : limbs) : limbs :=
  build (length r0) (fun j =>
    if Nat.ltb j (length b) then
      (if Nat.eqb j b_limb then (if sub then vsub (lnth b j) a else vadd a (lnth b j)) else lnth b j)
    else zlimb n).
(* _assign forms: panics (None) when res_limb >= size: at_mut asserts *)
Definition vec_add_scalar_assign (sub : bool) (a : list Z) (res_limb : nat) (r0 : limbs) : option limbs :=
  if Nat.ltb res_limb (length r0) then
    Some (build (length r0) (fun j => if Nat.eqb j res_limb then (if sub then vsub (lnth r0 j) a else vadd (lnth r0 j) a) else lnth r0 j))
  else None.

Definition vec_rotate (n : nat) (p : Z) := vec_unary n (znx_rotate p).
Definition vec_rotate_assign (p : Z) := vec_unary_assign (znx_rotate p).
(* mul_xp_minus_one = rotate then sub_assign a *)
Definition vec_mul_xp_minus_one (n : nat) (p : Z) (a r0 : limbs) : limbs :=
  vec_sub_assign a (vec_rotate n p a r0).
(* assign form: res = rotate(res) - res *)
Definition vec_mul_xp_minus_one_assign (p : Z) (r0 : limbs) : limbs :=
  map (fun l => vsub (znx_rotate p l) l) r0.
Definition vec_automorphism (n : nat) (p : Z) (a r0 : limbs) : limbs :=
  build (length r0) (fun j => if Nat.ltb j (length a) then znx_automorphism_onto p (lnth r0 j) (lnth a j) else zlimb n).
(* assign form goes through a tmp buffer holding scratch contents t0 *)
Definition vec_automorphism_assign (p : Z) (t0 : list Z) (r0 : limbs) : limbs :=
  snd (fold_left (fun (s : list Z * limbs) l => let t := znx_automorphism_onto p (fst s) l in (t, snd s ++ [t])) r0 (t0, [])).
Definition vec_switch_ring (n_out : nat) (a r0 : limbs) : limbs :=
  build (length r0) (fun j => if Nat.ltb j (length a) then znx_switch_ring n_out (lnth r0 j) (lnth a j) else zlimb n_out).

(* vec_znx_split_ring: part i = switch_ring(rotate(-i) a) *)
Definition vec_split_part (n_out : nat) (i : nat) (a r0 : limbs) : limbs :=
  build (length r0) (fun j => if Nat.ltb j (length a)
     then znx_switch_ring n_out (lnth r0 j) (if Nat.eqb i 0 then lnth a j else znx_rotate (- Z.of_nat i) (lnth a j))
     else zlimb n_out).

(* vec_znx_merge_rings (after the repair): res[gap*t + i] = a_i[t]; limbs beyond a part's size are zero *)
Definition vec_merge_rings (n_out : nat) (parts : list limbs) (r0 : limbs) : limbs :=
  let gap := length parts in
  build (length r0) (fun j =>
    map (fun u => let i := (u mod gap)%nat in let t := (u / gap)%nat in
                  let ai := nth i parts [] in
                  if Nat.ltb j (length ai) then nthZ (lnth ai j) t else 0) (seq 0 n_out)).

End W.
