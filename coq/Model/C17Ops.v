(* C17 - bounds-checked twins of the flat-memory operations modelled in Model/{Limbs,Ring,Flat}.v.

   The shared models index with TOTAL accessors (`nthZ`, `upd`, `lnth`: a default value / no-op out of range) and with
   truncating `nat` subtraction.  The Rust code indexes with `at(col, j)` / `at_mut(col, j)`, which assert j < size, and
   computes `res_start - j - 1` in `usize` (an underflow wraps or panics).  The twins below follow the same control
   flow as the shared models but every index is computed in Z with true subtraction and every access is CHECKED
   (`None` = an index outside [0, size)).  Proofs/C17Total.v shows `twin = Some (shared model)` for all inputs: no
   access of any loop of these operations ever leaves its operand, so the shared (total) models lose nothing.
   No proofs in this file. *)
From PV Require Import Base.MachineInt Model.Znx Model.Limbs Model.Ring Model.Flat.
Open Scope Z_scope.

Definition getc (l : list Z) (i : Z) : option Z :=
  if (0 <=? i) && (i <? zn (length l)) then Some (nthZ l (Z.to_nat i)) else None.
Definition updc (l : list Z) (i : Z) (x : Z) : option (list Z) :=
  if (0 <=? i) && (i <? zn (length l)) then Some (upd l (Z.to_nat i) x) else None.

Fixpoint foldc {S : Type} (f : S -> nat -> option S) (l : list nat) (s : S) : option S :=
  match l with
  | [] => Some s
  | j :: t => match f s j with Some s' => foldc f t s' | None => None end
  end.

Fixpoint seqo {A : Type} (l : list (option A)) : option (list A) :=
  match l with
  | [] => Some []
  | None :: _ => None
  | Some x :: t => match seqo t with Some t' => Some (x :: t') | None => None end
  end.

Definition bindo {A B : Type} (x : option A) (f : A -> option B) : option B :=
  match x with Some a => f a | None => None end.
Notation "x <- e ;; k" := (bindo e (fun x => k)) (at level 61, e at next level, right associativity).

Section W.
Variable w : Z.

(* `a.at(col, a_size - j - 1)` for j in 0..cnt *)
Definition carry_phase_c (b lsh : Z) (a : list Z) (a_size cnt : nat) : option Z :=
  foldc (fun c j =>
    x <- getc a (zn a_size - zn j - 1) ;;
    Some (if Nat.eqb j 0 then first_step_carry_only w b lsh x else middle_step_carry_only w b lsh x c))
    (seq 0 cnt) 0.

Definition mid_phase_c (ov : bool) (b lsh : Z) (a : list Z) (rs as_ cnt : nat) (st : list Z * Z) : option (list Z * Z) :=
  foldc (fun (s : list Z * Z) j =>
    let '(r, c) := s in
    xr <- getc r (zn rs - zn j - 1) ;;
    xa <- getc a (zn as_ - zn j - 1) ;;
    let '(x, c') := middle_step w ov b lsh xr xa c in
    r' <- updc r (zn rs - zn j - 1) x ;; Some (r', c')) (seq 0 cnt) st.

Definition mid_phase_sub_c (b lsh : Z) (a : list Z) (rs as_ cnt : nat) (st : list Z * Z) : option (list Z * Z) :=
  foldc (fun (s : list Z * Z) j =>
    let '(r, c) := s in
    xr <- getc r (zn rs - zn j - 1) ;;
    xa <- getc a (zn as_ - zn j - 1) ;;
    let '(x, c') := middle_step_sub w b lsh xr xa c in
    r' <- updc r (zn rs - zn j - 1) x ;; Some (r', c')) (seq 0 cnt) st.

Definition top_phase_c (zero_first : bool) (b lsh : Z) (re : nat) (st : list Z * Z) : option (list Z * Z) :=
  foldc (fun (s : list Z * Z) j =>
    let '(r, c) := s in
    let i := zn re - zn j - 1 in
    xr <- getc r i ;;
    let x0 := if zero_first then 0 else xr in
    if Nat.eqb j (re - 1) then r' <- updc r i (final_step_assign w b lsh x0 c) ;; Some (r', c)
    else let '(x, c') := middle_step_assign w b lsh x0 c in r' <- updc r i x ;; Some (r', c')) (seq 0 re) st.

(* `for j in lo..hi { zero(res.at_mut(col, j)) }` *)
Definition zero_range_c (r : list Z) (lo hi : nat) : option (list Z) :=
  foldc (fun r j => updc r (zn j) 0) (seq lo (hi - lo)) r.

Definition normalize_inter_c (b : Z) (off : Z) (a r0 : list Z) : option (list Z) :=
  let rsz := length r0 in let asz := length a in
  let '(lsh, lo) := split_offset b off in
  let res_end := natc (- lo) 0 (zn rsz) in
  let res_start := natc (zn asz - lo) 0 (zn rsz) in
  let a_end := natc lo 0 (zn asz) in
  let a_start := natc (zn rsz + lo) 0 (zn asz) in
  let a_out := (asz - a_start)%nat in
  c0 <- carry_phase_c b lsh a asz a_out ;;
  r1 <- zero_range_c r0 res_start rsz ;;
  let mid := (a_start - a_end)%nat in
  s2 <- mid_phase_c true b lsh a res_start a_start mid (r1, c0) ;;
  let '(r2, c2) := s2 in
  let c3 := if lo <? 0 then gap_phase w b (Z.to_nat (- lo) - rsz) c2 else c2 in
  s3 <- top_phase_c true b lsh res_end (r2, c3) ;; Some (fst s3).

Definition normalize_assign_c (b : Z) (r0 : list Z) : option (list Z) :=
  let sz := length r0 in
  s <- foldc (fun (s : list Z * Z) k =>
    let '(r, c) := s in
    let j := zn sz - zn k - 1 in
    xr <- getc r j ;;
    if Nat.eqb (sz - k - 1) (sz - 1) then let '(x, c') := first_step_assign w b 0 xr in r' <- updc r j x ;; Some (r', c')
    else if Nat.eqb (sz - k - 1) 0 then r' <- updc r j (final_step_assign w b 0 xr c) ;; Some (r', c)
    else let '(x, c') := middle_step_assign w b 0 xr c in r' <- updc r j x ;; Some (r', c')) (seq 0 sz) (r0, 0) ;;
  Some (fst s).

(* vec_znx_lsh_assign: the limb move reads limb j+steps and writes limb j (j < size - steps), then zeroes the tail *)
Definition lsh_assign_c (b k : Z) (r0 : list Z) : option (list Z) :=
  let sz := length r0 in
  let steps := Z.to_nat (k / b) in let krem := k mod b in
  if Nat.leb sz steps then zero_range_c r0 0 sz else
  r1 <- (if Nat.eqb steps 0 then Some r0 else
           seqo (map (fun j => _ <- getc r0 (zn j) ;;                        (* limb j is written *)
                               if Nat.ltb j (sz - steps) then getc r0 (zn j + zn steps) else Some 0) (seq 0 sz))) ;;
  let m := (sz - steps)%nat in
  s <- foldc (fun (s : list Z * Z) t =>
    let '(r, c) := s in
    let j := zn m - zn t - 1 in
    xr <- getc r j ;;
    if Nat.eqb (m - t - 1) (m - 1) then let '(x, c') := first_step_assign w b krem xr in r' <- updc r j x ;; Some (r', c')
    else if Nat.eqb (m - t - 1) 0 then r' <- updc r j (final_step_assign w b krem xr c) ;; Some (r', c)
    else let '(x, c') := middle_step_assign w b krem xr c in r' <- updc r j x ;; Some (r', c')) (seq 0 m) (r1, 0) ;;
  Some (fst s).

Definition carry_down_c (b lsh : Z) (a : list Z) (a_size start : nat) : option Z :=
  carry_phase_c b lsh a a_size (a_size - start).

Definition lsh_c (ov : bool) (b k : Z) (a r0 : list Z) : option (list Z) :=
  let rsz := length r0 in let asz := length a in
  let steps := Z.to_nat (k / b) in let krem := k mod b in
  if Nat.leb (Nat.max rsz asz) steps then (if ov then zero_range_c r0 0 rsz else Some r0) else
  let min_size := Nat.min rsz (asz - steps) in
  let cstart := Nat.min (steps + min_size) asz in
  c0 <- carry_down_c b krem a asz cstart ;;
  s <- foldc (fun (s : list Z * Z) t =>
      let '(r, c) := s in
      let j := zn min_size - zn t - 1 in
      xr <- getc r j ;; xa <- getc a (j + zn steps) ;;
      if Nat.eqb (min_size - t - 1) 0 then r' <- updc r j (final_step w ov b krem xr xa c) ;; Some (r', c)
      else let '(x, c') := middle_step w ov b krem xr xa c in r' <- updc r j x ;; Some (r', c'))
    (seq 0 min_size) (r0, c0) ;;
  if ov then zero_range_c (fst s) min_size rsz else Some (fst s).

Definition lsh_sub_c (b k : Z) (a r0 : list Z) : option (list Z) :=
  let rsz := length r0 in let asz := length a in
  let steps := Z.to_nat (k / b) in let krem := k mod b in
  if Nat.leb (Nat.max rsz asz) steps then Some r0 else
  let min_size := Nat.min rsz (asz - steps) in
  let cstart := Nat.min (steps + min_size) asz in
  c0 <- carry_down_c b krem a asz cstart ;;
  s <- foldc (fun (s : list Z * Z) t =>
      let '(r, c) := s in
      let j := zn min_size - zn t - 1 in
      xr <- getc r j ;; xa <- getc a (j + zn steps) ;;
      if Nat.eqb (min_size - t - 1) 0 then r' <- updc r j (final_step_sub w b krem xr xa c) ;; Some (r', c)
      else let '(x, c') := middle_step_sub w b krem xr xa c in r' <- updc r j x ;; Some (r', c'))
    (seq 0 min_size) (r0, c0) ;;
  Some (fst s).

Definition rsh_assign_c (b k : Z) (r0 : list Z) : option (list Z) :=
  let sz := length r0 in
  let '(steps, lsh) := rsh_params b k in
  let res_end := Nat.min steps sz in
  c0 <- carry_phase_c b lsh r0 sz res_end ;;
  s1 <- foldc (fun (s : list Z * Z) j =>
      let '(r, c) := s in
      xr <- getc r (zn sz - zn res_end - zn j - 1) ;;
      let '(x, c') := middle_step_assign w b lsh xr c in
      r' <- updc r (zn sz - zn j - 1) x ;; Some (r', c')) (seq 0 (sz - res_end)) (r0, c0) ;;
  let '(r1, c1) := s1 in
  rz <- zero_range_c r1 0 res_end ;;
  s <- top_phase_c false b lsh res_end (rz, gap_phase w b (steps - res_end) c1) ;; Some (fst s).

Definition rsh_c (ov : bool) (b k : Z) (a r0 : list Z) : option (list Z) :=
  let rsz := length r0 in let asz := length a in
  let '(steps, lsh) := rsh_params b k in
  let res_end := Nat.min rsz steps in
  let res_start := Nat.min rsz (asz + steps) in
  let a_start := Nat.min asz (rsz - steps) in
  let a_out := (asz - a_start)%nat in
  c0 <- carry_phase_c b lsh a asz a_out ;;
  r1 <- (if ov then zero_range_c r0 0 rsz else Some r0) ;;
  let mid := (res_start - res_end)%nat in
  s2 <- mid_phase_c ov b lsh a res_start a_start mid (r1, c0) ;;
  let '(r2, c2) := s2 in
  s <- top_phase_c false b (if ov then lsh else 0) res_end (r2, gap_phase w b (steps - res_end) c2) ;; Some (fst s).

Definition rsh_sub_c (b k : Z) (a r0 : list Z) : option (list Z) :=
  let rsz := length r0 in let asz := length a in
  let '(steps, lsh) := rsh_params b k in
  let res_end := Nat.min rsz steps in
  let res_start := Nat.min rsz (asz + steps) in
  let a_start := Nat.min asz (rsz - steps) in
  let a_out := (asz - a_start)%nat in
  c0 <- carry_phase_c b lsh a asz a_out ;;
  let mid := (res_start - res_end)%nat in
  s2 <- mid_phase_sub_c b lsh a res_start a_start mid (r0, c0) ;;
  let '(r, c) := s2 in
  s <- top_phase_c false b 0 res_end (r, gap_phase w b (steps - res_end) (wneg w c)) ;; Some (fst s).

(* ---------------- vector level (Ring.v): limb lists, checked limb selection ---------------- *)
Definition lnthc (l : limbs) (j : nat) : option (list Z) := nth_error l j.

Definition build_c (rsz : nat) (f : nat -> option (list Z)) : option limbs := seqo (map f (seq 0 rsz)).

Definition vec_add_c (n : nat) (a b r0 : limbs) : option limbs :=
  let asz := length a in let bsz := length b in let rsz := length r0 in
  build_c rsz (fun j =>
    if Nat.ltb j (Nat.min asz bsz) then x <- lnthc a j ;; y <- lnthc b j ;; Some (vadd w x y)
    else if Nat.ltb j (Nat.max asz bsz) then (if Nat.leb asz bsz then lnthc b j else lnthc a j)
    else Some (zlimb n)).
Definition vec_sub_c (n : nat) (a b r0 : limbs) : option limbs :=
  let asz := length a in let bsz := length b in let rsz := length r0 in
  build_c rsz (fun j =>
    if Nat.ltb j (Nat.min asz bsz) then x <- lnthc a j ;; y <- lnthc b j ;; Some (vsub w x y)
    else if Nat.ltb j (Nat.max asz bsz) then (if Nat.leb asz bsz then y <- lnthc b j ;; Some (vneg w y) else lnthc a j)
    else Some (zlimb n)).
Definition vec_add_assign_c (a r0 : limbs) : option limbs :=
  build_c (length r0) (fun j => x <- lnthc r0 j ;; if Nat.ltb j (length a) then y <- lnthc a j ;; Some (vadd w x y) else Some x).
Definition vec_sub_assign_c (a r0 : limbs) : option limbs :=
  build_c (length r0) (fun j => x <- lnthc r0 j ;; if Nat.ltb j (length a) then y <- lnthc a j ;; Some (vsub w x y) else Some x).
Definition vec_sub_negate_assign_c (a r0 : limbs) : option limbs :=
  build_c (length r0) (fun j => x <- lnthc r0 j ;; if Nat.ltb j (length a) then y <- lnthc a j ;; Some (vsub w y x) else Some (vneg w x)).
Definition vec_unary_c (n : nat) (f : list Z -> list Z) (a r0 : limbs) : option limbs :=
  build_c (length r0) (fun j => if Nat.ltb j (length a) then x <- lnthc a j ;; Some (f x) else Some (zlimb n)).
Definition vec_automorphism_c (n : nat) (p : Z) (a r0 : limbs) : option limbs :=
  build_c (length r0) (fun j => if Nat.ltb j (length a) then x <- lnthc r0 j ;; y <- lnthc a j ;; Some (znx_automorphism_onto w p x y) else Some (zlimb n)).
Definition vec_switch_ring_c (n_out : nat) (a r0 : limbs) : option limbs :=
  build_c (length r0) (fun j => if Nat.ltb j (length a) then x <- lnthc r0 j ;; y <- lnthc a j ;; Some (znx_switch_ring n_out x y) else Some (zlimb n_out)).

End W.

(* ---------------- coefficient level: which word of a limb each ring kernel touches ---------------- *)
(* znx_switch_ring, down-sampling branch: res[t] = a[t * gap], gap = n_in / n_out *)
Definition switch_down_ix (n_in n_out t : nat) : nat := (t * (n_in / n_out))%nat.
(* up-sampling branch: res[t * gap] = a[t], gap = n_out / n_in *)
Definition switch_up_ix (n_in n_out t : nat) : nat := (t * (n_out / n_in))%nat.
(* znx_automorphism_ref: target index of source coefficient i (running index k = i*p mod 2n) *)
Definition auto_ix (n : Z) (p i : Z) : Z := ((i * p) mod (2 * n)) mod n.
(* AVX kernels: a vector main loop over span = len / 4 groups of 4 words and a scalar tail from 4*span *)
Definition simd_main_last (len : Z) : Z := 4 * (len / 4).     (* one past the last word the vector loop touches *)

(* ---------------- flat level (Flat.v): word ranges of limb_at / write_limb ---------------- *)
Definition flat_off (s : shape) (j : nat) : nat := (s_n s * (j * s_cols s + s_col s))%nat.
