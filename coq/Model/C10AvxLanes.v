(* C10: lane-level model of the AVX2 kernels of poulpy-cpu-avx/src/znx_avx/*.rs.

   CONVENTION.  One 64-bit lane of a __m256i is represented by its SIGNED value, a Z in
   [-2^63, 2^63) (`in_range 64`).  The unsigned view (the bit pattern) of a lane x is
   `to_u x = x mod 2^64`; a bit pattern u in [0, 2^64) is turned back into a lane by
   `of_u u = wrap 64 u`.  All four lanes of a vector are treated alike by every intrinsic used
   here, so a vector kernel is modelled as ONE function on lanes (applied to the 4 lanes of each
   chunk by the loop skeleton `simd_map` below).  Broadcast constants (`_mm256_set1_epi64x`)
   are therefore just lane values.

   PART 1 (trusted): the per-lane semantics of the intrinsics, transcribed from the Intel
   Intrinsics Guide pseudo-code.  PART 2: the Rust helpers and kernel bodies, transcribed call
   for call (same sequence of intrinsics).  No proofs in this file. *)
From PV Require Import Base.MachineInt Model.Znx Model.Limbs Model.Ring.
Open Scope Z_scope.

Definition to_u (x : Z) : Z := wrapu 64 x.
Definition of_u (u : Z) : Z := wrap 64 u.

(* ------------------------------------------------------------------ *)
(* PART 1: intrinsics (per 64-bit lane)                                 *)
(* ------------------------------------------------------------------ *)

(* _mm256_set1_epi64x(a): dst[i+63:i] := a *)
Definition mm_set1 (a : Z) : Z := a.
(* _mm256_setzero_si256 *)
Definition mm_setzero : Z := 0.
(* _mm256_add_epi64: dst[i+63:i] := a[i+63:i] + b[i+63:i]   (64-bit wrap) *)
Definition mm_add (a b : Z) : Z := wrap 64 (a + b).
(* _mm256_sub_epi64: dst[i+63:i] := a[i+63:i] - b[i+63:i] *)
Definition mm_sub (a b : Z) : Z := wrap 64 (a - b).
(* _mm256_and_si256 / or / xor: bitwise on the 256-bit pattern, i.e. on each lane's pattern *)
Definition mm_and (a b : Z) : Z := of_u (Z.land (to_u a) (to_u b)).
Definition mm_or (a b : Z) : Z := of_u (Z.lor (to_u a) (to_u b)).
Definition mm_xor (a b : Z) : Z := of_u (Z.lxor (to_u a) (to_u b)).
(* _mm256_andnot_si256: dst := (NOT a) AND b ; NOT of a 64-bit pattern u is 2^64-1-u *)
Definition mm_andnot (a b : Z) : Z := of_u (Z.land (2 ^ 64 - 1 - to_u a) (to_u b)).
(* _mm256_sllv_epi64: IF count[i+63:i] < 64 THEN dst := ZeroExtend64(a << count) ELSE 0 ; count unsigned *)
Definition mm_sllv (a count : Z) : Z :=
  if to_u count <? 64 then of_u (Z.shiftl (to_u a) (to_u count)) else 0.
(* _mm256_srlv_epi64: IF count < 64 THEN dst := ZeroExtend64(a >> count) (logical) ELSE 0 *)
Definition mm_srlv (a count : Z) : Z :=
  if to_u count <? 64 then of_u (Z.shiftr (to_u a) (to_u count)) else 0.
(* _mm_cvtsi32_si128(a): dst[31:0] := a, dst[127:32] := 0.  Only the low 64 bits are read by sll/srl:
   they hold the 32-bit pattern of (k as i32), zero-extended. *)
Definition mm_cvtsi32_si128 (a : Z) : Z := wrapu 32 a.
(* _mm256_sll_epi64(a, count): IF count[63:0] > 63 THEN 0 ELSE ZeroExtend64(a << count[63:0]) *)
Definition mm_sll (a count : Z) : Z :=
  if count <? 64 then of_u (Z.shiftl (to_u a) count) else 0.
(* _mm256_srl_epi64(a, count): IF count[63:0] > 63 THEN 0 ELSE ZeroExtend64(a >> count[63:0]) *)
Definition mm_srl (a count : Z) : Z :=
  if count <? 64 then of_u (Z.shiftr (to_u a) count) else 0.
(* _mm256_slli_epi64 / _mm256_srli_epi64 (imm8 in 0..255): IF imm8 > 63 THEN 0 ELSE shift *)
Definition mm_slli (a imm : Z) : Z :=
  if imm <? 64 then of_u (Z.shiftl (to_u a) imm) else 0.
Definition mm_srli (a imm : Z) : Z :=
  if imm <? 64 then of_u (Z.shiftr (to_u a) imm) else 0.
(* _mm256_cmpgt_epi64: dst := (a > b) ? 0xFFFFFFFFFFFFFFFF : 0   (signed compare) *)
Definition mm_cmpgt (a b : Z) : Z := if b <? a then -1 else 0.
(* _mm256_mul_epu32: dst[i+63:i] := a[i+31:i] * b[i+31:i]   (unsigned 32x32 -> 64) *)
Definition mm_mul_epu32 (a b : Z) : Z := of_u ((to_u a mod 2 ^ 32) * (to_u b mod 2 ^ 32)).

(* Rust scalar casts used to build constants *)
Definition u64_shl (x k : Z) : Z := wrapu 64 (x * 2 ^ k).   (* (x: u64) << k, k < 64 *)
Definition as_i64 (u : Z) : Z := wrap 64 u.                  (* u as i64 *)

(* ------------------------------------------------------------------ *)
(* PART 2: znx_avx/normalization.rs                                     *)
(* ------------------------------------------------------------------ *)

(* normalize_consts_avx(base2k) -> (mask_k_vec, sign_k_vec, shift_k_vec, topmask_vec); asserts 1 <= base2k <= 63 *)
Definition mask_k (b : Z) : Z := as_i64 (wrapu 64 (u64_shl 1 b - 1)).
Definition sign_k (b : Z) : Z := as_i64 (u64_shl 1 (b - 1)).
Definition topmask (b : Z) : Z := as_i64 (u64_shl (2 ^ 64 - 1) (64 - b)).
Definition normalize_consts_avx (b : Z) : Z * Z * Z * Z :=
  (mm_set1 (mask_k b), mm_set1 (sign_k b), mm_set1 b, mm_set1 (topmask b)).

(* get_digit_avx(x, mask_k, sign_k) *)
Definition get_digit_avx (x mask sign : Z) : Z :=
  let low := mm_and x mask in
  let t := mm_xor low sign in
  mm_sub t sign.

(* get_carry_avx(x, digit, base2k, top_mask) *)
Definition get_carry_avx (x digit base2k top_mask : Z) : Z :=
  let diff := mm_sub x digit in
  let lsr := mm_srlv diff base2k in
  let neg := mm_cmpgt mm_setzero diff in
  let fill := mm_and neg top_mask in
  mm_or lsr fill.

(* helpers specialised to a radix (what the theorems talk about) *)
Definition digit_avx (b x : Z) : Z :=
  let '(mask, sign, _, _) := normalize_consts_avx b in get_digit_avx x mask sign.
Definition carry_avx (b x d : Z) : Z :=
  let '(_, _, shk, top) := normalize_consts_avx b in get_carry_avx x d shk top.

(* znx_extract_digit_addmul_avx : lanes (rv, sv) -> (sum, carry) *)
Definition extract_digit_addmul_avx (b lsh rv sv : Z) : Z * Z :=
  let '(mask, sign, base2k_vec, top_mask) := normalize_consts_avx b in
  let lsh_v := mm_set1 lsh in
  let digit := get_digit_avx sv mask sign in
  let carry := get_carry_avx sv digit base2k_vec top_mask in
  let madd := mm_sllv digit lsh_v in
  let sum := mm_add rv madd in
  (sum, carry).

(* znx_normalize_digit_avx : lanes (rv, sv) -> (digit, sum) *)
Definition normalize_digit_avx (b rv sv : Z) : Z * Z :=
  let '(mask, sign, base2k_vec, top_mask) := normalize_consts_avx b in
  let digit := get_digit_avx rv mask sign in
  let carry := get_carry_avx rv digit base2k_vec top_mask in
  let sum := mm_add sv carry in
  (digit, sum).

(* znx_normalize_first_step_carry_only_avx : lane xv -> carry *)
Definition first_step_carry_only_avx (b lsh xv : Z) : Z :=
  let '(mask, sign, base2k_vec, top_mask) :=
    if lsh =? 0 then normalize_consts_avx b else normalize_consts_avx (b - lsh) in
  let digit := get_digit_avx xv mask sign in
  get_carry_avx xv digit base2k_vec top_mask.

(* znx_normalize_first_step_assign_avx : lane xv -> (x', carry) *)
Definition first_step_assign_avx (b lsh xv : Z) : Z * Z :=
  if lsh =? 0 then
    let '(mask, sign, base2k_vec, top_mask) := normalize_consts_avx b in
    let digit := get_digit_avx xv mask sign in
    let carry := get_carry_avx xv digit base2k_vec top_mask in
    (digit, carry)
  else
    let '(mask, sign, base2k_vec, top_mask) := normalize_consts_avx (b - lsh) in
    let lsh_v := mm_set1 lsh in
    let digit := get_digit_avx xv mask sign in
    let carry := get_carry_avx xv digit base2k_vec top_mask in
    (mm_sllv digit lsh_v, carry).

(* znx_normalize_first_step_avx<OVERWRITE> : lanes (xv, av) -> (x', carry) *)
Definition first_step_avx (ov : bool) (b lsh xv av : Z) : Z * Z :=
  if lsh =? 0 then
    let '(mask, sign, base2k_vec, top_mask) := normalize_consts_avx b in
    let digit := get_digit_avx av mask sign in
    let carry := get_carry_avx av digit base2k_vec top_mask in
    if ov then (digit, carry) else (mm_add xv digit, carry)
  else
    let '(mask, sign, base2k_vec, top_mask) := normalize_consts_avx (b - lsh) in
    let lsh_v := mm_set1 lsh in
    let digit := get_digit_avx av mask sign in
    let carry := get_carry_avx av digit base2k_vec top_mask in
    if ov then (mm_sllv digit lsh_v, carry)
    else let tmp := mm_sllv digit lsh_v in (mm_add xv tmp, carry).

(* shared body of the four middle-step kernels: lanes (av, cv) -> (x1, cout) *)
Definition middle_body_avx (b lsh av cv : Z) : Z * Z :=
  let '(mask, sign, base2k_vec, top_mask) := normalize_consts_avx b in
  if lsh =? 0 then
    let d0 := get_digit_avx av mask sign in
    let c0 := get_carry_avx av d0 base2k_vec top_mask in
    let s := mm_add d0 cv in
    let x1 := get_digit_avx s mask sign in
    let c1 := get_carry_avx s x1 base2k_vec top_mask in
    let cout := mm_add c0 c1 in
    (x1, cout)
  else
    let '(mask_lsh, sign_lsh, base2k_vec_lsh, top_mask_lsh) := normalize_consts_avx (b - lsh) in
    let lsh_v := mm_set1 lsh in
    let d0 := get_digit_avx av mask_lsh sign_lsh in
    let c0 := get_carry_avx av d0 base2k_vec_lsh top_mask_lsh in
    let d0_lsh := mm_sllv d0 lsh_v in
    let s := mm_add d0_lsh cv in
    let x1 := get_digit_avx s mask sign in
    let c1 := get_carry_avx s x1 base2k_vec top_mask in
    let cout := mm_add c0 c1 in
    (x1, cout).

(* znx_normalize_middle_step_carry_only_avx : (xv, cv) -> cout *)
Definition middle_step_carry_only_avx (b lsh xv cv : Z) : Z := snd (middle_body_avx b lsh xv cv).
(* znx_normalize_middle_step_assign_avx : (xv, cv) -> (x1, cout) *)
Definition middle_step_assign_avx (b lsh xv cv : Z) : Z * Z := middle_body_avx b lsh xv cv.
(* znx_normalize_middle_step_avx<OVERWRITE> : (xv, av, cv) -> (x', cout) *)
Definition middle_step_avx (ov : bool) (b lsh xv av cv : Z) : Z * Z :=
  let '(x1, cout) := middle_body_avx b lsh av cv in
  if ov then (x1, cout) else (mm_add xv x1, cout).
(* znx_normalize_middle_step_sub_avx : (xv, av, cv) -> (x', cout) *)
Definition middle_step_sub_avx (b lsh xv av cv : Z) : Z * Z :=
  let '(x1, cout) := middle_body_avx b lsh av cv in (mm_sub xv x1, cout).

(* shared body of the final-step kernels: (av, cv) -> x1 *)
Definition final_body_avx (b lsh av cv : Z) : Z :=
  let '(mask, sign, _, _) := normalize_consts_avx b in
  if lsh =? 0 then
    let d0 := get_digit_avx av mask sign in
    let s := mm_add d0 cv in
    get_digit_avx s mask sign
  else
    let '(mask_lsh, sign_lsh, _, _) := normalize_consts_avx (b - lsh) in
    let lsh_v := mm_set1 lsh in
    let d0 := get_digit_avx av mask_lsh sign_lsh in
    let d0_lsh := mm_sllv d0 lsh_v in
    let s := mm_add d0_lsh cv in
    get_digit_avx s mask sign.

(* znx_normalize_final_step_assign_avx *)
Definition final_step_assign_avx (b lsh xv cv : Z) : Z := final_body_avx b lsh xv cv.
(* znx_normalize_final_step_avx<OVERWRITE> *)
Definition final_step_avx (ov : bool) (b lsh xv av cv : Z) : Z :=
  let x1 := final_body_avx b lsh av cv in if ov then x1 else mm_add xv x1.
(* znx_normalize_final_step_sub_avx *)
Definition final_step_sub_avx (b lsh xv av cv : Z) : Z :=
  let x1 := final_body_avx b lsh av cv in mm_sub xv x1.

(* ------------------------------------------------------------------ *)
(* znx_avx/mul.rs                                                       *)
(* ------------------------------------------------------------------ *)

(* the k < 0 loop body shared by the three kernels (kp = -k, asserted in 1..=63) *)
Definition mul_pow2_neg_body_avx (kp x : Z) : Z :=
  let cnt_right := mm_cvtsi32_si128 kp in
  let bias_base := mm_set1 (wrap 64 (1 * 2 ^ (kp - 1))) in         (* 1_i64 << (kp-1) *)
  let top_mask := mm_set1 (wrap 64 (-1 * 2 ^ (64 - kp))) in         (* -1_i64 << (64-kp) *)
  let zero := mm_setzero in
  let sign_bit_x := mm_srli x 63 in
  let bias := mm_sub bias_base sign_bit_x in
  let t := mm_add x bias in
  let lsr := mm_srl t cnt_right in
  let neg := mm_cmpgt zero t in
  let fill := mm_and neg top_mask in
  mm_or lsr fill.

(* znx_mul_power_of_two_avx / _assign_avx : main-loop lane function (k == 0 is a copy / no-op) *)
Definition mul_power_of_two_avx (k x : Z) : Z :=
  if k =? 0 then x
  else if 0 <? k then mm_sll x (mm_cvtsi32_si128 k)
  else mul_pow2_neg_body_avx (- k) x.

(* znx_mul_add_power_of_two_avx : (y, x) -> y' ; k == 0 dispatches to znx_add_assign_avx *)
Definition mul_add_power_of_two_avx (k y x : Z) : Z :=
  if k =? 0 then mm_add y x
  else if 0 <? k then mm_add y (mm_sll x (mm_cvtsi32_si128 k))
  else mm_add y (mul_pow2_neg_body_avx (- k) x).

(* ------------------------------------------------------------------ *)
(* znx_avx/{add,sub,neg}.rs                                             *)
(* ------------------------------------------------------------------ *)
Definition add_avx (a b : Z) : Z := mm_add a b.                 (* znx_add_avx, znx_add_assign_avx (a = res lane) *)
Definition sub_avx (a b : Z) : Z := mm_sub a b.                 (* znx_sub_avx, znx_sub_assign_avx *)
Definition sub_negate_assign_avx (r a : Z) : Z := mm_sub a r.   (* znx_sub_negate_assign_avx *)
Definition negate_avx (v : Z) : Z := mm_sub mm_setzero v.       (* znx_negate_avx, znx_negate_assign_avx *)

(* ------------------------------------------------------------------ *)
(* The loop skeleton shared by all the kernels above:
     span = n >> 2 ; for _ in 0..span { load 4 lanes; lane-wise body; store 4 lanes }
     if n % 4 != 0 { scalar_ref(&mut x[span << 2 ..]) }
   An element of the list is the tuple of the lanes at one index (one per slice argument). *)
(* ------------------------------------------------------------------ *)
Fixpoint simd_main {A B : Type} (lane_f : A -> B) (span : nat) (l : list A) : list B :=
  match span with
  | O => []
  | S s =>
    match l with
    | a0 :: a1 :: a2 :: a3 :: r => lane_f a0 :: lane_f a1 :: lane_f a2 :: lane_f a3 :: simd_main lane_f s r
    | _ => []            (* unreachable: 4*span <= n *)
    end
  end.

Definition simd_map {A B : Type} (lane_f scalar_f : A -> B) (l : list A) : list B :=
  let n := length l in
  let span := Nat.shiftr n 2 in
  simd_main lane_f span l ++
  (if Nat.eqb (n mod 4) 0 then [] else map scalar_f (skipn (Nat.shiftl span 2) l)).

(* ------------------------------------------------------------------ *)
(* ntt120/arithmetic_avx.rs (Primes30 lanes: lane k works modulo Q[k]) *)
(* u64 slices are loaded as bit patterns; a __m256i stored into a [u32]
   slice gives, per 64-bit lane, (low 32 bits, high 32 bits).           *)
(* ------------------------------------------------------------------ *)
Definition load_u64 (u : Z) : Z := of_u u.
Definition store_u64 (lane : Z) : Z := to_u lane.
Definition store_2xu32 (lane : Z) : list Z := [to_u lane mod 2 ^ 32; to_u lane / 2 ^ 32].

(* cond_sub(x, q) *)
Definition cond_sub_avx (x q : Z) : Z :=
  let lt := mm_cmpgt q x in
  mm_sub x (mm_andnot lt q).

(* barrett_reduce(tmp, q, mu) *)
Definition barrett_reduce_avx (tmp q mu : Z) : Z :=
  let mask32 := mm_set1 (2 ^ 32 - 1) in                 (* u32::MAX as i64 *)
  let tmp_hi := mm_srli tmp 32 in
  let tmp_lo := mm_and tmp mask32 in
  let q_hi := mm_srli (mm_mul_epu32 tmp_hi mu) 29 in
  let q_lo := mm_srli (mm_mul_epu32 tmp_lo mu) 61 in
  let q_approx := mm_add q_hi q_lo in
  let r := mm_sub tmp (mm_mul_epu32 q_approx q) in
  let r := cond_sub_avx r q in
  cond_sub_avx r q.

(* reduce_b_to_canonical(x, q, mu, pow32) *)
Definition reduce_b_to_canonical_avx (x q mu pow32 : Z) : Z :=
  let mask32 := mm_set1 (2 ^ 32 - 1) in
  let x_hi := mm_srli x 32 in
  let x_lo := mm_and x mask32 in
  let x_hi_r := cond_sub_avx x_hi q in
  let tmp := mm_add (mm_mul_epu32 x_hi_r pow32) x_lo in
  barrett_reduce_avx tmp q mu.

(* c_from_b_avx2 loop body, one lane *)
Definition c_from_b_lane_avx (q mu pow32 xv : Z) : Z :=
  let r := reduce_b_to_canonical_avx xv q mu pow32 in
  let r_shift := barrett_reduce_avx (mm_mul_epu32 r pow32) q mu in
  mm_or r (mm_slli r_shift 32).

(* one prime lane of c_from_b_avx2 with the compile-time constants Q_VEC[k], BARRETT_MU[k] = (1<<61)/Q, POW32[k] = 2^32 % Q *)
Definition c_from_b_k_avx (q x : Z) : list Z :=
  store_2xu32 (c_from_b_lane_avx (load_u64 q) (load_u64 (2 ^ 61 / q)) (load_u64 (2 ^ 32 mod q)) (load_u64 x)).

(* b_from_znx64_avx2 loop body, lane k (oq_vec lane = OQ[k] = Q[k] - 2^63 % Q[k]) *)
Definition b_from_znx64_lane_avx (oq xval : Z) : Z :=
  let i64_max := mm_set1 (2 ^ 63 - 1) in
  let zero := mm_setzero in
  let xv := mm_set1 xval in
  let xl := mm_and xv i64_max in
  let sign := mm_cmpgt zero xv in
  let add := mm_and sign oq in
  mm_add xl add.
Definition b_from_znx64_k_avx (q x : Z) : Z :=
  store_u64 (b_from_znx64_lane_avx (load_u64 (q - 2 ^ 63 mod q)) x).

(* ------------------------------------------------------------------ *)
(* znx_avx/automorphism.rs and znx_avx/switch_ring.rs                   *)
(* ------------------------------------------------------------------ *)

(* _mm256_i64gather_epi64(base_addr, vindex, 8): dst lane := MEM[base_addr + SignExtend64(vindex lane) * 8],
   i.e. element `vindex` of the i64 slice.  An out-of-bounds index is undefined behaviour in Rust; the model
   returns 0 there and the theorems show that every index is in bounds. *)
Definition mm_i64gather (a : list Z) (vindex : Z) : Z := nthZ a (Z.to_nat vindex).

(* inv_mod_pow2(p, bits): usize (64-bit) wrapping arithmetic, i: u32 doubled each round *)
Fixpoint inv_mod_pow2_loop (fuel : nat) (p bits i x : Z) : Z :=
  match fuel with
  | O => x
  | S f =>
    if i <? bits then
      let x' := wrapu 64 (x * wrapu 64 (2 - wrapu 64 (p * x))) in
      inv_mod_pow2_loop f p bits (wrapu 32 (i * 2)) x'
    else x
  end.
Definition inv_mod_pow2 (p bits : Z) : Z :=
  Z.land (inv_mod_pow2_loop 32 p bits 1 1) (wrapu 64 (wrapu 64 (1 * 2 ^ bits) - 1)).

(* one lane of the main loop: t_base broadcast, off = this lane's entry of lane_offsets *)
Definition automorphism_lane_avx (n t_base off : Z) (a : list Z) : Z :=
  let n_minus1_vec := mm_set1 (n - 1) in
  let mask_2n_vec := mm_set1 (2 * n - 1) in
  let mask_1n_vec := mm_set1 (n - 1) in
  let t_base_vec := mm_set1 t_base in
  let t_vec := mm_and (mm_add t_base_vec off) mask_2n_vec in
  let idx_vec := mm_and t_vec mask_1n_vec in
  let sign_mask := mm_cmpgt t_vec n_minus1_vec in
  let vals := mm_i64gather a idx_vec in
  let vals_x := mm_xor vals sign_mask in
  mm_sub vals_x sign_mask.

Fixpoint automorphism_loop_avx (span : nat) (n inv step t_base : Z) (a : list Z) : list Z :=
  match span with
  | O => []
  | S s =>
    let mask_2n := 2 * n - 1 in
    (* lane_offsets = _mm256_set_epi64x((inv*3) & mask, (inv*2) & mask, inv, 0): lane 0 is the LAST argument *)
    automorphism_lane_avx n t_base 0 a ::
    automorphism_lane_avx n t_base inv a ::
    automorphism_lane_avx n t_base (Z.land (wrapu 64 (inv * 2)) mask_2n) a ::
    automorphism_lane_avx n t_base (Z.land (wrapu 64 (inv * 3)) mask_2n) a ::
    automorphism_loop_avx s n inv step (Z.land (wrapu 64 (t_base + step)) mask_2n) a
  end.

(* znx_automorphism_avx(p, res, a): r0 = prior content of res *)
Definition znx_automorphism_avx (p : Z) (r0 a : list Z) : list Z :=
  let nn := length a in
  let n := Z.of_nat nn in
  if Nat.eqb nn 0 then r0
  else if Nat.ltb nn 4 then znx_automorphism_onto 64 p r0 a
  else
    let two_n := wrapu 64 (n * 2) in
    let span := Nat.shiftr nn 2 in
    let bits := Z.log2 two_n in                                  (* trailing_zeros of a power of two *)
    let mask_2n := two_n - 1 in
    (* p_2n = (((p & mask_2n as i64) + two_n as i64) as usize) & mask_2n *)
    let p_2n := Z.land (wrapu 64 (wrap 64 (Z.land p mask_2n + two_n))) mask_2n in
    let inv := inv_mod_pow2 p_2n bits in
    let step := Z.land (wrapu 64 (inv * 2 ^ 2)) mask_2n in
    automorphism_loop_avx span n inv step 0 a ++ skipn (4 * span) r0.

(* znx_switch_ring_avx: downsampling main loop (base, step, bump are vectors; base lanes are all equal) *)
Fixpoint switch_ring_down_loop_avx (span : nat) (gap base : Z) (a : list Z) : list Z :=
  match span with
  | O => []
  | S s =>
    (* step = _mm256_setr_epi64x(0, gap, 2*gap, 3*gap): lane 0 is the FIRST argument *)
    let idx (st : Z) := mm_add base st in
    mm_i64gather a (idx 0) :: mm_i64gather a (idx gap) ::
    mm_i64gather a (idx (wrap 64 (2 * gap))) :: mm_i64gather a (idx (wrap 64 (3 * gap))) ::
    switch_ring_down_loop_avx s gap (mm_add base (mm_set1 (wrap 64 (4 * gap)))) a
  end.

(* upsampling: zero, then for i in (0..n_in).step_by(4): four strided scalar stores of the 4 extracted lanes *)
Definition switch_ring_up_avx (n_in gap : nat) (n_out : nat) (a : list Z) : list Z :=
  fold_left (fun r c =>
     let i := (4 * c)%nat in
     let p0 := (i * gap)%nat in
     upd (upd (upd (upd r p0 (nthZ a i)) (p0 + gap) (nthZ a (i + 1))) (p0 + gap + gap) (nthZ a (i + 2)))
         (p0 + gap + gap + gap) (nthZ a (i + 3)))
    (seq 0 ((n_in + 3) / 4)) (zeros n_out).

Definition znx_switch_ring_avx (n_out : nat) (r0 a : list Z) : list Z :=
  let n_in := length a in
  if Nat.eqb n_in n_out then a
  else if Nat.ltb (Nat.min n_in n_out) 4 then znx_switch_ring n_out r0 a
  else if Nat.ltb n_out n_in then
    let gap_in := (n_in / n_out)%nat in
    let span := Nat.shiftr n_out 2 in
    switch_ring_down_loop_avx span (Z.of_nat gap_in) mm_setzero a ++ skipn (4 * span) r0
  else
    let gap_out := (n_out / n_in)%nat in
    switch_ring_up_avx n_in gap_out n_out a.
