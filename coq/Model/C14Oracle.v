(* Direct oracle for C14: the property statement evaluated on the implementation's outputs with spec-level notions only
   (no normalisation kernel, no rotate/switch_ring code shape):

   TABLE RULE (derived from lut.rs, proved as C14_lut_set_then_rotate_selects).  Let domain = N*ext, len = |f|, len | domain,
   step = domain/len, drift = step/2, nl = ceil(kmsg/b), scale = 2^(b - kmsg mod b) (1 if b | kmsg).  After
   `set(f, kmsg)` and a rotation by k (k = 0 for `set` alone), the coefficient u of the table, read in the big ring
   Z[Y]/(Y^domain + 1) (Y-coefficient u = coefficient u / ext of polynomial u mod ext), has the value
         (-1)^q * f[(r / step)] * scale * 2^((size - nl) * b)   (mod 2^(size*b)),   t = u + drift - k, q = t div domain, r = t mod domain
   i.e. at u = 0, k = -j (Left):  +-f[ floor((j + drift) / step) mod len ] with the sign of the wrap-around,
   and every limb is a balanced digit (|digit| <= 2^(b-1); +2^(b-1) can only come from a negation).

   BLIND RULE.  With (b', a'_1..a'_n) = mod_switch_2n(lwe) (direction already applied) and k = b' + sum a'_i s_i, the decrypted
   accumulator equals the table rotated by k on all limbs above the noise floor.

   MOD-SWITCH RULE.  r = mod_switch_2n(x) satisfies | r * 2^K - sgn * X * n2 | <= 2^(K-1) + n2 * 2^(K-b) * [size > 1],
   X = the integer the limbs denote at K = size*b bits, sgn = -1 for Left: r/n2 is the torus value of the ciphertext
   coefficient rounded to the nearest multiple of 1/n2 (the limbs below the first contribute less than one unit of the
   first limb). *)
From PV Require Import Base.MachineInt Model.Znx Model.Limbs Model.Ring Model.C14Lut Model.C14Blind Model.C14Run.
Open Scope Z_scope.

Definition ob (c : bool) : Z := if c then 1 else 0.
Definition eq_listZ (a b : list Z) : bool :=
  Nat.eqb (length a) (length b) && forallb (fun q => fst q =? snd q) (combine a b).

Record tparams := { t_n : Z; t_ext : Z; t_b : Z; t_klut : Z; t_kmsg : Z; t_f : list Z }.
Definition t_domain (t : tparams) := t_n t * t_ext t.
Definition t_len (t : tparams) := Z.of_nat (length (t_f t)).
Definition t_step (t : tparams) := t_domain t / t_len t.
Definition t_drift (t : tparams) := t_step t / 2.
Definition t_size (t : tparams) := div_ceil (t_klut t) (t_b t).
Definition t_nl (t : tparams) := div_ceil (t_kmsg t) (t_b t).
Definition t_scale (t : tparams) := if t_kmsg t mod t_b t =? 0 then 1 else 2 ^ (t_b t - t_kmsg t mod t_b t).
(* inside the quantifier of the property: 1 <= len <= N, len | domain, the message fits the table *)
Definition t_ok (t : tparams) : bool :=
  (1 <=? t_len t) && (t_len t <=? t_n t) && (t_domain t mod t_len t =? 0) && (1 <=? t_nl t) && (t_nl t <=? t_size t).

(* value (scaled by 2^(size*b)) of big-ring coefficient u of the table after set and a rotation by k *)
Definition t_mult (t : tparams) : Z := t_scale t * 2 ^ ((t_size t - t_nl t) * t_b t).
(* `mult` = t_mult t, `d` = t_domain t, `st` = t_step t, `dr` = t_drift t (computed once per record) *)
Definition table_val_pre (f : list Z) (mult d st dr : Z) (k u : Z) : Z :=
  let tt := u + dr - k in
  let q := tt / d in let r := tt mod d in
  let x := nthZ f (Z.to_nat (r / st)) * mult in
  if Z.even q then x else - x.
Definition table_val (t : tparams) (k u : Z) : Z :=
  table_val_pre (t_f t) (t_mult t) (t_domain t) (t_step t) (t_drift t) k u.

(* M = 2^F *)
Definition congr (M x y : Z) : bool := (x - y) mod M =? 0.
(* H = 2^(b-1) *)
Definition digit_ok (H x : Z) : bool := Z.abs x <=? H.

(* polynomial i (limb-major flat) of the table against the rule *)
Definition poly_ok (t : tparams) (k : Z) (i : nat) (flat : list Z) : bool :=
  let n := Z.to_nat (t_n t) in let size := Z.to_nat (t_size t) in
  let M := 2 ^ (t_size t * t_b t) in let H := 2 ^ (t_b t - 1) in let B := 2 ^ t_b t in
  let tv := table_val_pre (t_f t) (t_mult t) (t_domain t) (t_step t) (t_drift t) k in
  Nat.eqb (length flat) (n * size) &&
  forallb (digit_ok H) flat &&
  forallb (fun q : nat * list Z => congr M (limbs_val_pre B (snd q)) (tv (Z.of_nat (fst q) * t_ext t + Z.of_nat i)))
          (combine (seq 0 n) (cols_of n (unflat n size flat))).

Definition table_ok (t : tparams) (k : Z) (outs : list (list Z)) : bool :=
  let e := Z.to_nat (t_ext t) in
  Nat.eqb (length outs) (S e) &&
  forallb (fun q : nat * list Z => poly_ok t k (fst q) (snd q)) (combine (seq 0 e) (firstn e outs)) &&
  eq_listZ (nth e outs []) [t_drift t].

(* ---- mod-switch rule ---- *)
Definition ms_ok (n2 b : Z) (left : bool) (ls : list (list Z)) (res : list Z) : bool :=
  let size := Z.of_nat (length ls) in
  let K := size * b in
  let w := length (nth 0 ls []) in
  Nat.eqb (length res) w &&
  forallb (fun i : nat =>
     let X := limbs_val_pre (2 ^ b) (map (fun l => nthZ l i) ls) in
     let sX := if left then - X else X in
     Z.abs (nthZ res i * 2 ^ K - sX * n2) <=? 2 ^ (K - 1) + (if 1 <? size then n2 * 2 ^ (K - b) else 0))
    (seq 0 w).
Definition normalized_limbs (b : Z) (ls : list (list Z)) : bool :=
  forallb (forallb (fun x => (- 2 ^ (b - 1) <=? x) && (x <? 2 ^ (b - 1)))) ls.

(* ---- blind rule ---- *)
Definition tpar_of (q : bparams) (f : list Z) : tparams :=
  {| t_n := Z.of_nat (q_n q); t_ext := Z.of_nat (q_ext q); t_b := q_b q; t_klut := q_klut q; t_kmsg := q_kmsg q; t_f := f |}.
Definition dot (a s : list Z) : Z := fold_left Z.add (map2 Z.mul a s) 0.
Definition binary (s : list Z) : bool := forallb (fun x => (x =? 0) || (x =? 1)) s.

Definition oracle_c14 (code : Z) (ps : list Z) (vs outs : list (list Z)) : Z :=
  match code with
  | 14001 =>
      let t := {| t_n := p ps 1; t_ext := p ps 2; t_b := p ps 3; t_klut := p ps 4; t_kmsg := p ps 5; t_f := v vs 0 |} in
      if negb (t_ok t) then 2 else ob (table_ok t 0 outs)
  | 14002 =>
      let t := {| t_n := p ps 1; t_ext := p ps 2; t_b := p ps 3; t_klut := p ps 4; t_kmsg := p ps 5; t_f := v vs 0 |} in
      if negb (t_ok t) then 2 else
      let e := Z.to_nat (t_ext t) in
      ob (Nat.eqb (length outs) (length (v vs 1) * e) &&
          forallb (fun q : nat * list Z => poly_ok t (nthZ (v vs 1) (fst q / e)) (fst q mod e) (snd q))
                  (combine (seq 0 (length outs)) outs))
  | 14003 =>
      let t := {| t_n := p ps 1; t_ext := p ps 2; t_b := p ps 3; t_klut := p ps 4; t_kmsg := p ps 5; t_f := v vs 0 |} in
      if negb (t_ok t) then 2 else
      let M := 2 ^ (t_size t * t_b t) in let H := 2 ^ (t_b t - 1) in let B := 2 ^ t_b t in
      let tv := table_val_pre (t_f t) (t_mult t) (t_domain t) (t_step t) (t_drift t) in
      ob (Nat.eqb (length outs) (length (v vs 1)) &&
          forallb (fun q : Z * list Z =>
                     Nat.eqb (length (snd q)) (Z.to_nat (t_size t)) && forallb (digit_ok H) (snd q) &&
                     congr M (limbs_val_pre B (snd q)) (tv (fst q) 0))
                  (combine (v vs 1) outs))
  | 14005 =>
      (* HISTORY RULE: whatever the order of set_rotation_direction / set calls, the direction is the one requested last
         (default Left) and the table (and drift) those of the last set *)
      let evs := decode_events (length (v vs 0)) (v vs 0) vs in
      let e := Z.to_nat (p ps 2) in
      let dir_ok := eq_listZ (nth (S e) outs []) [if last_dir evs true then 0 else 1] in
      match last_set evs None with
      | None => ob (dir_ok && eq_listZ (nth e outs []) [0] && forallb (forallb (Z.eqb 0)) (firstn e outs))
      | Some kf =>
          let t := {| t_n := p ps 1; t_ext := p ps 2; t_b := p ps 3; t_klut := p ps 4; t_kmsg := fst kf; t_f := snd kf |} in
          if negb (t_ok t) then (if dir_ok then 2 else 0) else ob (dir_ok && table_ok t 0 (firstn (S e) outs))
      end
  | 14021 =>
      let q0 := bpar ps in
      let evs := decode_events (length (v vs 3)) (v vs 3) vs in
      let left := last_dir evs true in
      match last_set evs None with
      | None => 2
      | Some kf =>
          let q := set_left q0 left in
          let t := {| t_n := Z.of_nat (q_n q); t_ext := Z.of_nat (q_ext q); t_b := q_b q; t_klut := q_klut q; t_kmsg := fst kf; t_f := snd kf |} in
          if negb (t_ok t && binary (v vs 2)) then 2 else
          let l2n := v outs 0 in
          let k := hd 0 l2n + dot (tl l2n) (v vs 2) in
          let M := 2 ^ (t_size t * t_b t) in
          let tv := table_val_pre (t_f t) (t_mult t) (t_domain t) (t_step t) (t_drift t) k in
          let lw := lwe_limbs q (v vs 1) in
          (* the mod-switched ciphertext must carry the direction requested last *)
          ob ((negb (normalized_limbs (q_blwe q) lw) || ms_ok (2 * t_domain t) (q_blwe q) left lw l2n) &&
              Nat.eqb (length (v outs 1)) (q_n q) &&
              forallb (fun c : nat * Z => congr M (snd c) (tv (Z.of_nat (fst c) * t_ext t)))
                      (combine (seq 0 (q_n q)) (v outs 1)))
      end
  | 14004 =>
      (* the rule speaks about ciphertexts in normal form *)
      if negb (normalized_limbs (p ps 1) vs) then 2 else ob (ms_ok (p ps 0) (p ps 1) (p ps 3 =? 0) vs (v outs 0))
  | 14010 =>
      let q := bpar ps in let t := tpar_of q (v vs 0) in
      if negb (t_ok t) then 2 else
      match switched q (v vs 1) with
      | None => 2
      | Some l2n =>
          let k := hd 0 l2n in
          let n := q_n q in
          let rs := Z.to_nat (div_ceil (q_kres q) (q_b q)) in
          let sh := (Z.of_nat rs - t_size t) * t_b t in
          if sh <? 0 then 2 else
          let M := 2 ^ (t_size t * t_b t + sh) in let SH := 2 ^ sh in let B := 2 ^ t_b t in
          let tv := table_val_pre (t_f t) (t_mult t) (t_domain t) (t_step t) (t_drift t) k in
          ob (Nat.eqb (length outs) (S (q_rank q)) &&
              forallb (forallb (Z.eqb 0)) (tl outs) &&
              forallb (fun c : nat * list Z => congr M (limbs_val_pre B (snd c)) (tv (Z.of_nat (fst c) * t_ext t) * SH))
                      (combine (seq 0 n) (cols_of n (unflat n rs (v outs 0)))))
      end
  | 14020 =>
      let q := bpar ps in let t := tpar_of q (v vs 0) in
      if negb (t_ok t && binary (v vs 2)) then 2 else
      let l2n := v outs 0 in
      let k := hd 0 l2n + dot (tl l2n) (v vs 2) in
      let M := 2 ^ (t_size t * t_b t) in
      let tv := table_val_pre (t_f t) (t_mult t) (t_domain t) (t_step t) (t_drift t) k in
      ob (Nat.eqb (length (v outs 1)) (q_n q) &&
          forallb (fun c : nat * Z => congr M (snd c) (tv (Z.of_nat (fst c) * t_ext t)))
                  (combine (seq 0 (q_n q)) (v outs 1)))
  | _ => 2
  end.
