(* C13 — model of the BDD circuit evaluator of poulpy-bin-fhe (bdd_arithmetic/eval.rs), the bit-serial
   specification automata of the eleven u32 word operations, and the reflective checker.
   No proofs in this file (they are in Proofs/C13*.v). *)
From Coq Require Import ZArith List Bool Arith Lia.
Import ListNotations.

(* ------------------------------------------------------------------------------------------------ *)
(** * Circuits *)

(* eval.rs: enum Node { Cmux(selector_bit, hi_index, lo_index), Copy, None } *)
Inductive node := Cmux (v hi lo : nat) | Copy | Nonode.

(* one output bit: BitCircuit { nodes, max_inter_state }, plus the INPUT_BITS declared by its family *)
Record circuit := mkC { c_nin : nat; c_width : nat; c_nodes : list node }.

(* what the evaluator does for an output bit without a table (bit >= OUTPUT_BITS, or state_size = 0): zero *)
Definition empty_circuit : circuit := mkC 0 0 [].

(* an assignment of the input bits: a occupies [0,32), b occupies [32,64) (FheUintHelper::get_bit) *)
Definition env := nat -> bool.
Definition env_of (a b : Z) : env :=
  fun k => if k <? 32 then Z.testbit a (Z.of_nat k) else Z.testbit b (Z.of_nat (k - 32)).

(* nodes.chunks_exact(state_size); None when the length is not a multiple of w (the assert! of eval_level) *)
Fixpoint chunks (fuel w : nat) (l : list node) : option (list (list node)) :=
  match l with
  | [] => Some []
  | _ :: _ =>
    match fuel with
    | 0 => None
    | S f =>
      if length l <? w then None
      else match chunks f w (skipn w l) with
           | Some r => Some (firstn w l :: r)
           | None => None
           end
    end
  end.

Definition levels_of (c : circuit) : option (list (list node)) :=
  chunks (length (c_nodes c)) (c_width c) (c_nodes c).

(* ------------------------------------------------------------------------------------------------ *)
(** * eval_stale: the evaluator as it is (two buffers, ping-pong, Node::None leaves the old content) *)

(* level = 2*state_size zeroed slots, level[1] = 1; prev_level = level[..w], next_level = level[w..] *)
Definition init_level (w : nat) : list bool := map (Nat.eqb 1) (seq 0 (2 * w)).
Definition init_buf (w : nat) : list bool * list bool :=
  (firstn w (init_level w), skipn w (init_level w)).

Definition node_stale (e : env) (prev next : list bool) (j : nat) (nd : node) : bool :=
  match nd with
  | Cmux v hi lo => if e v then nth hi prev false else nth lo prev false   (* cmux: (hi - lo) * bit + lo *)
  | Copy => nth j prev false
  | Nonode => nth j next false                                             (* slot keeps what it held two levels ago *)
  end.

Fixpoint level_stale (e : env) (prev next : list bool) (j : nat) (L : list node) : list bool :=
  match L with
  | [] => []
  | nd :: tl => node_stale e prev next j nd :: level_stale e prev next (S j) tl
  end.

(* one iteration of the level loop followed by (prev, next) = (next, prev) *)
Definition step_stale (e : env) (st : list bool * list bool) (L : list node) : list bool * list bool :=
  (level_stale e (fst st) (snd st) 0 L, fst st).

(* "Last chunk ... is always structured as [CMUX, NONE, ...]": only last[0] is looked at *)
Definition root_stale (e : env) (prev : list bool) (L : list node) : bool :=
  match L with
  | Cmux v hi lo :: _ => if e v then nth hi prev false else nth lo prev false
  | _ => false
  end.

(* The panics of the Rust code (length not a multiple, index out of range, last node not a Cmux) have no
   value here (false); [exec_safe] below says when they cannot happen, [eval_strict] treats them as errors. *)
(* the level loop on the already chunked table *)
Definition eval_levels_stale (w : nat) (lv : list (list node)) (e : env) : bool :=
  match lv with
  | [] => false
  | _ :: _ => root_stale e (fst (fold_left (step_stale e) (removelast lv) (init_buf w))) (last lv [])
  end.

Definition eval_stale (c : circuit) (e : env) : bool :=
  match c_width c with
  | 0 => false                                      (* state_size == 0: out_i.data_mut().zero() *)
  | S _ =>
    match levels_of c with
    | None => false
    | Some lv => eval_levels_stale (c_width c) lv e
    end
  end.

(* no panic of eval_level on this table, for a helper exposing [nbits] input bits *)
Definition node_safe (nbits w : nat) (nd : node) : bool :=
  match nd with
  | Cmux v hi lo => (v <? nbits) && (hi <? w) && (lo <? w)
  | _ => true
  end.
Definition exec_safe (nbits : nat) (c : circuit) : bool :=
  match c_width c with
  | 0 => true
  | S _ =>
    match levels_of c with
    | None => false
    | Some lv =>
      match lv with
      | [] => false
      | _ :: _ => forallb (forallb (node_safe nbits (c_width c))) (removelast lv) &&
                  match last lv [] with
                  | Cmux v hi lo :: _ => node_safe nbits (c_width c) (Cmux v hi lo)
                  | _ => false
                  end
      end
    end
  end.

(* ------------------------------------------------------------------------------------------------ *)
(** * eval_strict: slots are [option bool]; Nonode leaves a slot undefined; reading an undefined slot,
      an out-of-range slot or an input bit >= c_nin is an error *)

Definition slot := option bool.

Definition rd (St : list slot) (j : nat) : option bool :=
  match nth_error St j with
  | Some (Some b) => Some b
  | _ => None
  end.

Definition node_strict (nin : nat) (e : env) (St : list slot) (j : nat) (nd : node) : option slot :=
  match nd with
  | Cmux v hi lo =>
    if v <? nin then
      match rd St hi, rd St lo with
      | Some h, Some l => Some (Some (if e v then h else l))
      | _, _ => None
      end
    else None
  | Copy => match rd St j with Some x => Some (Some x) | None => None end
  | Nonode => Some None
  end.

Fixpoint level_strict (nin : nat) (e : env) (St : list slot) (j : nat) (L : list node) : option (list slot) :=
  match L with
  | [] => Some []
  | nd :: tl =>
    match node_strict nin e St j nd, level_strict nin e St (S j) tl with
    | Some x, Some r => Some (x :: r)
    | _, _ => None
    end
  end.

Fixpoint run_levels_strict (nin : nat) (e : env) (St : list slot) (lv : list (list node)) : option (list slot) :=
  match lv with
  | [] => Some St
  | L :: tl =>
    match level_strict nin e St 0 L with
    | Some St' => run_levels_strict nin e St' tl
    | None => None
    end
  end.

Definition init_strict (w : nat) : list slot := map Some (fst (init_buf w)).

Definition root_strict (nin : nat) (e : env) (St : list slot) (L : list node) : option bool :=
  match L with
  | Cmux v hi lo :: _ =>
    if v <? nin then
      match rd St hi, rd St lo with
      | Some h, Some l => Some (if e v then h else l)
      | _, _ => None
      end
    else None
  | _ => None
  end.

Definition eval_strict (c : circuit) (e : env) : option bool :=
  match c_width c with
  | 0 => Some false
  | S _ =>
    match levels_of c with
    | None => None
    | Some lv =>
      match lv with
      | [] => None
      | _ :: _ =>
        match run_levels_strict (c_nin c) e (init_strict (c_width c)) (removelast lv) with
        | Some St => root_strict (c_nin c) e St (last lv [])
        | None => None
        end
      end
    end
  end.

(* ------------------------------------------------------------------------------------------------ *)
(** * Bit-serial specification automata *)

Inductive step (Q : Type) := Leaf (b : bool) | Read (v : nat) (q1 q0 : Q).
Arguments Leaf {Q} b.
Arguments Read {Q} v q1 q0.

Record automaton := mkA {
  state : Type;
  st_eqb : state -> state -> bool;
  next : state -> step state;
  rank : state -> nat;        (* strictly decreasing along [next]: bounds the number of reads *)
  start : state
}.

Fixpoint run_fuel (A : automaton) (f : nat) (q : state A) (e : env) : bool :=
  match f with
  | 0 => false
  | S f' =>
    match next A q with
    | Leaf b => b
    | Read v q1 q0 => if e v then run_fuel A f' q1 e else run_fuel A f' q0 e
    end
  end.

Definition run_from (A : automaton) (q : state A) (e : env) : bool := run_fuel A (S (rank A q)) q e.
Definition run (A : automaton) (e : env) : bool := run_from A (start A) e.

(* what the soundness of the checker needs from an automaton (proved once per family) *)
Definition automaton_ok (A : automaton) : Prop :=
  (forall q q', st_eqb A q q' = true -> q = q') /\
  (forall q v q1 q0, next A q = Read v q1 q0 -> rank A q1 < rank A q /\ rank A q0 < rank A q).

Definition maj (x y c : bool) : bool := (x && y) || (c && (x || y)).

(** ** add / sub: carry (borrow) chain over a_k, b_k from bit 0 upwards; output bit [i] *)
Inductive cstate := CA (k : nat) (c : bool) | CB (k : nat) (c x : bool) | CL (b : bool).
Definition cstate_eqb (p q : cstate) : bool :=
  match p, q with
  | CA k c, CA k' c' => Nat.eqb k k' && Bool.eqb c c'
  | CB k c x, CB k' c' x' => Nat.eqb k k' && Bool.eqb c c' && Bool.eqb x x'
  | CL b, CL b' => Bool.eqb b b'
  | _, _ => false
  end.
(* [sub = false]: c is the carry into bit k;  [sub = true]: c is the borrow into bit k *)
Definition cnext (sub : bool) (i : nat) (q : cstate) : step cstate :=
  match q with
  | CA k c => Read k (CB k c true) (CB k c false)
  | CB k c x =>
    if i <=? k then Read (32 + k) (CL (xorb (xorb x true) c)) (CL (xorb (xorb x false) c))
    else let x' := if sub then negb x else x in
         Read (32 + k) (CA (S k) (maj x' true c)) (CA (S k) (maj x' false c))
  | CL b => Leaf b
  end.
Definition crank (i : nat) (q : cstate) : nat :=
  match q with
  | CA k _ => 2 * (i - k) + 2
  | CB k _ _ => 2 * (i - k) + 1
  | CL _ => 0
  end.
Definition A_carry (sub : bool) (i : nat) : automaton := mkA cstate cstate_eqb (cnext sub i) (crank i) (CA 0 false).
Definition A_add := A_carry false.
Definition A_sub := A_carry true.

(** ** slt / sltu: comparison chain from bit 31 downwards; only output bit 0 is non-trivial *)
Inductive pstate := PA (k : nat) | PB (k : nat) (x : bool) | PL (b : bool).
Definition pstate_eqb (p q : pstate) : bool :=
  match p, q with
  | PA k, PA k' => Nat.eqb k k'
  | PB k x, PB k' x' => Nat.eqb k k' && Bool.eqb x x'
  | PL b, PL b' => Bool.eqb b b'
  | _, _ => false
  end.
Definition p_eq (k : nat) : pstate := match k with 0 => PL false | S k' => PA k' end.
(* a_k = x, b_k = y differ: unsigned a < b iff b_k = 1; at the sign bit of a signed comparison iff a_k = 1 *)
Definition p_res (signed : bool) (k : nat) (x y : bool) : pstate := PL (if signed && Nat.eqb k 31 then x else y).
Definition pnext (signed : bool) (q : pstate) : step pstate :=
  match q with
  | PA k => Read k (PB k true) (PB k false)
  | PB k x => Read (32 + k) (if x then p_eq k else p_res signed k x true) (if x then p_res signed k x false else p_eq k)
  | PL b => Leaf b
  end.
Definition prank (q : pstate) : nat :=
  match q with PA k => 2 * k + 2 | PB k _ => 2 * k + 1 | PL _ => 0 end.
Definition A_cmp (signed : bool) (i : nat) : automaton :=
  mkA pstate pstate_eqb (pnext signed) prank (match i with 0 => PA 31 | S _ => PL false end).
Definition A_slt := A_cmp true.
Definition A_sltu := A_cmp false.

(** ** sll / srl / sra: shift amount b_0..b_4 (input bits 32..36), then the selected bit of a *)
Inductive shkind := Ksll | Ksrl | Ksra.
Inductive hstate := HS (k s : nat) | HL (b : bool).
Definition hstate_eqb (p q : hstate) : bool :=
  match p, q with
  | HS k s, HS k' s' => Nat.eqb k k' && Nat.eqb s s'
  | HL b, HL b' => Bool.eqb b b'
  | _, _ => false
  end.
(* which bit of a is output bit i after shifting by s *)
Definition hsel (kd : shkind) (i s : nat) : option nat :=
  match kd with
  | Ksll => if s <=? i then Some (i - s) else None
  | Ksrl => if i + s <? 32 then Some (i + s) else None
  | Ksra => Some (Nat.min (i + s) 31)
  end.
Definition hnext (kd : shkind) (i : nat) (q : hstate) : step hstate :=
  match q with
  | HS k s =>
    if k <? 5 then Read (32 + k) (HS (S k) (s + 2 ^ k)) (HS (S k) s)
    else match hsel kd i s with
         | Some j => Read j (HL true) (HL false)
         | None => Leaf false
         end
  | HL b => Leaf b
  end.
Definition hrank (q : hstate) : nat := match q with HS k _ => S (5 - k) | HL _ => 0 end.
Definition A_shift (kd : shkind) (i : nat) : automaton := mkA hstate hstate_eqb (hnext kd i) hrank (HS 0 0).
Definition A_sll := A_shift Ksll.
Definition A_srl := A_shift Ksrl.
Definition A_sra := A_shift Ksra.

(** ** and / or / xor: one gate on a_i, b_i;  identity: a_i *)
Inductive bstate := BA | BB (x : bool) | BL (b : bool).
Definition bstate_eqb (p q : bstate) : bool :=
  match p, q with
  | BA, BA => true
  | BB x, BB x' => Bool.eqb x x'
  | BL b, BL b' => Bool.eqb b b'
  | _, _ => false
  end.
Definition bnext (f : bool -> bool -> bool) (i : nat) (q : bstate) : step bstate :=
  match q with
  | BA => Read i (BB true) (BB false)
  | BB x => Read (32 + i) (BL (f x true)) (BL (f x false))
  | BL b => Leaf b
  end.
Definition brank (q : bstate) : nat := match q with BA => 2 | BB _ => 1 | BL _ => 0 end.
Definition A_bit (f : bool -> bool -> bool) (i : nat) : automaton := mkA bstate bstate_eqb (bnext f i) brank BA.
Definition A_and := A_bit andb.
Definition A_or := A_bit orb.
Definition A_xor := A_bit xorb.

Definition inext (i : nat) (q : bstate) : step bstate :=
  match q with
  | BA => Read i (BL true) (BL false)
  | BB x => Leaf x
  | BL b => Leaf b
  end.
Definition A_identity (i : nat) : automaton := mkA bstate bstate_eqb (inext i) brank BA.

(* ------------------------------------------------------------------------------------------------ *)
(** * The word operations (RISC-V RV32 semantics on a, b in [0, 2^32)) *)
Open Scope Z_scope.
Definition sgn32 (x : Z) : Z := if x <? 2 ^ 31 then x else x - 2 ^ 32.
Definition op_add (a b : Z) : Z := (a + b) mod 2 ^ 32.
Definition op_sub (a b : Z) : Z := (a - b) mod 2 ^ 32.
Definition op_sll (a b : Z) : Z := Z.shiftl a (Z.land b 31) mod 2 ^ 32.
Definition op_srl (a b : Z) : Z := Z.shiftr a (Z.land b 31).
Definition op_sra (a b : Z) : Z := Z.shiftr (sgn32 a) (Z.land b 31) mod 2 ^ 32.
Definition op_slt (a b : Z) : Z := if sgn32 a <? sgn32 b then 1 else 0.
Definition op_sltu (a b : Z) : Z := if a <? b then 1 else 0.
Definition op_and (a b : Z) : Z := Z.land a b.
Definition op_or (a b : Z) : Z := Z.lor a b.
Definition op_xor (a b : Z) : Z := Z.lxor a b.
Definition op_identity (a b : Z) : Z := a.
Close Scope Z_scope.

(* ------------------------------------------------------------------------------------------------ *)
(** * The reflective checker *)

Section Check.
  Variable A : automaton.
  Variable hint : list nat.       (* untrusted: level (1 = first chunk) in which each input variable occurs, 0 = absent *)
  Definition pair := (nat * state A)%type.

  Definition pair_eqb (p1 p2 : pair) : bool := Nat.eqb (fst p1) (fst p2) && st_eqb A (snd p1) (snd p2).
  Fixpoint mem (p : pair) (l : list pair) : bool :=
    match l with [] => false | x :: tl => pair_eqb p x || mem p tl end.
  Fixpoint add_all (new acc : list pair) : list pair :=
    match new with
    | [] => acc
    | p :: tl => if mem p acc then add_all tl acc else add_all tl (p :: acc)
    end.

  (* the spec variable v' is tested by the circuit above the current level (or never): the circuit skipped it *)
  Definition spec_first (v' lvl : nat) : bool :=
    let l := nth v' hint 0 in Nat.eqb l 0 || (lvl <? l).

  Definition EF := 8.   (* spec-advance fuel per pair *)
  Definition LF := 8.   (* depth fuel of the leaf exploration at level 0 *)

  (* claims one level down that together imply the claim "slot j of the state after level L computes run q" *)
  Fixpoint expand (fuel : nat) (L : list node) (lvl j : nat) (q : state A) : option (list pair) :=
    match fuel with
    | 0 => None
    | S f =>
      match nth_error L j with
      | None | Some Nonode => None
      | Some Copy => Some [(j, q)]
      | Some (Cmux v hi lo) =>
        match next A q with
        | Leaf _ => Some [(hi, q); (lo, q)]
        | Read v' q1 q0 =>
          if Nat.eqb v v' then Some [(hi, q1); (lo, q0)]
          else if spec_first v' lvl then
            match expand f L lvl j q1, expand f L lvl j q0 with
            | Some l1, Some l0 => Some (l1 ++ l0)
            | _, _ => None
            end
          else Some [(hi, q); (lo, q)]
        end
      end
    end.

  Fixpoint expand_all (L : list node) (lvl : nat) (P acc : list pair) : option (list pair) :=
    match P with
    | [] => Some acc
    | p :: tl =>
      match expand EF L lvl (fst p) (snd p) with
      | None => None
      | Some ps => expand_all L lvl tl (add_all ps acc)
      end
    end.

  (* every leaf reachable from q is b *)
  Fixpoint leaf_all (fuel : nat) (q : state A) (b : bool) : bool :=
    match fuel with
    | 0 => false
    | S f =>
      match next A q with
      | Leaf b' => Bool.eqb b b'
      | Read _ q1 q0 => leaf_all f q1 b && leaf_all f q0 b
      end
    end.

  Fixpoint check_levels (w : nat) (lv_rev : list (list node)) (P : list pair) : bool :=
    match lv_rev with
    | [] => forallb (fun p : pair => (fst p <? w) && leaf_all LF (snd p) (Nat.eqb 1 (fst p))) P
    | L :: below =>
      match expand_all L (length lv_rev) P [] with
      | None => false
      | Some P' => check_levels w below P'
      end
    end.
End Check.

(* definedness pass: which slots hold a value after each level; fails when a node reads an undefined or
   out-of-range slot or an input bit >= nin *)
Definition node_def (nin : nat) (D : list bool) (j : nat) (nd : node) : option bool :=
  match nd with
  | Cmux v hi lo => if (v <? nin) && nth hi D false && nth lo D false then Some true else None
  | Copy => if nth j D false then Some true else None
  | Nonode => Some false
  end.
Fixpoint level_def (nin : nat) (D : list bool) (j : nat) (L : list node) : option (list bool) :=
  match L with
  | [] => Some []
  | nd :: tl =>
    match node_def nin D j nd, level_def nin D (S j) tl with
    | Some x, Some r => Some (x :: r)
    | _, _ => None
    end
  end.
Fixpoint run_def (nin : nat) (D : list bool) (lv : list (list node)) : option (list bool) :=
  match lv with
  | [] => Some D
  | L :: tl => match level_def nin D 0 L with Some D' => run_def nin D' tl | None => None end
  end.

Definition is_nonode (nd : node) : bool := match nd with Nonode => true | _ => false end.
(* "[CMUX, NONE, NONE, ..., NONE]" *)
Definition last_shape (L : list node) : bool :=
  match L with Cmux _ _ _ :: tl => forallb is_nonode tl | _ => false end.
Definition is_some {X} (o : option X) : bool := match o with Some _ => true | None => false end.

(* well-formedness of a table: length a multiple of the width, at least one level, last chunk = [Cmux; Nonode..],
   every index in range and no read of an undefined slot (in ANY node of the table, reachable or not) *)
Definition wf (c : circuit) : bool :=
  match c_width c with
  | 0 => true
  | S _ =>
    match levels_of c with
    | None => false
    | Some lv =>
      match lv with
      | [] => false
      | _ :: _ => last_shape (last lv []) && is_some (run_def (c_nin c) (repeat true (c_width c)) lv)
      end
    end
  end.

Definition check (A : automaton) (hint : list nat) (c : circuit) : bool :=
  match c_width c with
  | 0 => leaf_all A LF (start A) false
  | S _ =>
    wf c &&
    match levels_of c with
    | None => false
    | Some lv => check_levels A hint (c_width c) (rev lv) [(0, start A)]
    end
  end.

(* whole families: output bit i of the word; bits without a table are the evaluator's zero *)
Definition circuit_at (tab : list circuit) (i : nat) : circuit := nth i tab empty_circuit.
Definition check_family (A : nat -> automaton) (hints : list (list nat)) (tab : list circuit) : bool :=
  forallb (fun i => check (A i) (nth i hints []) (circuit_at tab i)) (seq 0 32).

(* stand-alone well-formedness facts stated in the property (all decidable, evaluated on the generated tables) *)
Definition node_in_range (nin w : nat) (nd : node) : bool :=
  match nd with Cmux v hi lo => (v <? nin) && (hi <? w) && (lo <? w) | _ => true end.
Definition table_wf (c : circuit) : bool :=
  (0 <? c_width c) &&
  (length (c_nodes c) mod c_width c =? 0) && (0 <? length (c_nodes c)) &&
  forallb (node_in_range (c_nin c) (c_width c)) (c_nodes c) &&
  match levels_of c with
  | Some lv => forallb (fun L => length L =? c_width c) lv && last_shape (last lv [])
  | None => false
  end.
Definition family_wf (nin nout helper_bits : nat) (tab : list circuit) : bool :=
  (length tab =? nout) && (nout <=? 32) && (nin <=? helper_bits) &&
  forallb (fun c => (c_nin c =? nin) && table_wf c && wf c && exec_safe helper_bits c) tab.
