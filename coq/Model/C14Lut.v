(* C14, clear path: poulpy-bin-fhe/src/blind_rotation/{lut.rs, utils.rs, algorithms/mod.rs}.
   Faithful transcriptions (release / wrapping semantics, panics = None) over the already-modelled primitives:
   znx_rotate, vec_switch_ring, vec_rotate_assign, vec_unary (Model/Ring.v) and normalize_assign (Model/Limbs.v).

   A lookup table is `ext` polynomials (LookupTable.data : Vec<VecZnx>), each a list of `size` limbs, each limb a
   list of N words:   lut := list limbs. *)
From PV Require Import Base.MachineInt Model.Znx Model.Limbs Model.Ring.
Open Scope Z_scope.

Definition lut := list limbs.

(* ---- helpers (plain list plumbing, no arithmetic of their own) ---- *)
Definition hdZ (l : list Z) : Z := match l with [] => 0 | x :: _ => x end.
(* coefficient view of one polynomial: n coefficients, each the list of its limbs (linear-time transposition) *)
Fixpoint cols_of (n : nat) (ls : list (list Z)) : list (list Z) :=
  match n with O => [] | S n' => map hdZ ls :: cols_of n' (map (@tl Z) ls) end.
(* back: `size` limbs from the coefficient view *)
Fixpoint rows_of (size : nat) (cs : list (list Z)) : list (list Z) :=
  match size with O => [] | S s' => map hdZ cs :: rows_of s' (map (@tl Z) cs) end.

(* `usize::div_round` of lut.rs *)
Definition div_round (a b : Z) : Z := (a + b / 2) / b.

(* per-coefficient normalisation of one polynomial (module.vec_znx_normalize_assign(base2k, a, 0, scratch)) *)
Definition poly_normalize_assign (n : nat) (b : Z) (p : limbs) : limbs :=
  rows_of (length p) (map (normalize_assign 64 b) (cols_of n p)).

(* ---- lookup_table_rotate (lut.rs) ----
   k_pos = ((k + 2N*ext) % (2N*ext)) as usize   [i64 wrapping add, truncating remainder, reinterpretation as u64]
   k_hi = k_pos / ext ; k_lo = k_pos % ext
   data[i] <- X^{k_hi} data[i]       for i <  ext - k_lo
   data[i] <- X^{k_hi + 1} data[i]   for i >= ext - k_lo      [k_hi as i64 (+ 1)]
   data.rotate_right(k_lo) *)
Definition lut_kpos (n : nat) (e : Z) (k : Z) : Z :=
  let t := 2 * Z.of_nat n * e in
  wrapu 64 (Z.rem (wadd 64 k t) t).

Definition lookup_table_rotate (n : nat) (k : Z) (data : lut) : lut :=
  let e := Z.of_nat (length data) in
  let k_pos := lut_kpos n e k in
  let k_hi := k_pos / e in
  let k_lo := k_pos mod e in
  let r1 := map (fun q : nat * limbs =>
                   let i := Z.of_nat (fst q) in
                   let p := if i <? e - k_lo then wrap 64 k_hi else wadd 64 (wrap 64 k_hi) 1 in
                   vec_rotate_assign 64 p (snd q))
                (combine (seq 0 (length data)) data) in
  let cut := Z.to_nat (e - k_lo) in
  skipn cut r1 ++ firstn cut r1.

(* ---- lookup_table_set (lut.rs) ----
   n = module.n() = res.n, ext = res.extension_factor(), b = res.base2k, klut = res.k, kmsg = the argument `k`.
   Result: the table and res.drift.  None = one of the panics: f.len() > n, division by zero (f empty),
   limbs = 0 or limbs > size (at_mut), f.len()*step > domain (slice range). *)
Definition lookup_table_set (n : nat) (ext : nat) (b klut kmsg : Z) (f : list Z) : option (lut * Z) :=
  let flen := Z.of_nat (length f) in
  let nlimbs := div_ceil kmsg b in
  let size := Z.to_nat (div_ceil klut b) in
  let domain := (n * ext)%nat in
  if (Z.of_nat n <? flen) || (flen =? 0) || (nlimbs <? 1) || (Z.of_nat size <? nlimbs) then None else
  let scale := if kmsg mod b =? 0 then 1 else shl 64 1 (b - kmsg mod b) in
  let step := div_round (Z.of_nat domain) flen in
  if Z.of_nat domain <? flen * step then None else
  let lut_at := flat_map (fun fi => repeat (wmul 64 fi scale) (Z.to_nat step)) f
                ++ zeros (domain - Z.to_nat (flen * step)) in
  let lut_full : limbs := map (fun j => if Z.of_nat j =? nlimbs - 1 then lut_at else zeros domain) (seq 0 size) in
  let drift := step / 2 in
  let r0 : limbs := repeat (zlimb n) size in
  let data0 : lut :=
    if Nat.ltb 1 ext then
      (* for i in 0..ext { switch_ring(res.data[i], lut_full); rotate_assign(-1, lut_full) } *)
      fst (fold_left (fun (s : lut * limbs) (_ : nat) =>
             (fst s ++ [vec_switch_ring n (snd s) r0], vec_rotate_assign 64 (-1) (snd s)))
           (seq 0 ext) ([], lut_full))
    else [vec_unary n (fun l => l) lut_full r0] in
  let data1 := map (poly_normalize_assign n b) data0 in
  Some (lookup_table_rotate n (wneg 64 drift) data1, drift).

(* ---- mod_switch_2n (algorithms/mod.rs) ----
   n2 = the `n` argument (2 * N * ext), b = lwe.base2k, left = (rot_dir == Left),
   ls = the limbs of the LWE ciphertext (each of length n_lwe + 1).  None = `at(0, 0)` of a ciphertext without limbs.
   (as repaired by /repo e75ed0e) *)
Definition bitlen (m : Z) : Z := if m <=? 0 then 0 else Z.log2 m + 1.
Definition ms_log2n (n2 : Z) : Z := bitlen (n2 - 1) + 1.
Definition div_round_by_pow2 (x k : Z) : Z := asr (wadd 64 x (shl 64 1 (k - 1))) k.

Definition mod_switch_2n (n2 b : Z) (left : bool) (ls : list (list Z)) : option (list Z) :=
  let log2n := ms_log2n n2 in
  let res0 := nth 0 ls [] in
  let res1 := if left then map (wneg 64) res0 else res0 in
  if Nat.eqb (length ls) 0 then None else
  if log2n <? b then
    let diff := b - (log2n - 1) in
    Some (map (fun x => div_round_by_pow2 x diff) res1)
  else
    (* keep bits = log2n - 1 = log2(n2) bits, as the first branch does: accumulate the limbs that hold them plus at
       least one rounding bit (no more than the ciphertext has), the direction sign on every limb, round once *)
    let bits := log2n - 1 in
    let size := Z.min (div_ceil (bits + 1) b) (Z.of_nat (length ls)) in
    let acc := fold_left (fun (res : list Z) (i : nat) =>
                 map2 (fun x y => wadd 64 (shl 64 y b) (if left then wneg 64 x else x)) (nth i ls []) res)
               (seq 1 (Z.to_nat size - 1)) res1 in
    let tot := size * b in
    Some (if bits <? tot then map (fun x => div_round_by_pow2 x (tot - bits)) acc
          else map (fun x => shl 64 x (bits - tot)) acc).

(* ---- set_xai_plus_y (utils.rs) ----
   returns (the polynomial handed to svp_prepare, the buffer as it is left) *)
Definition xai_index (n ai : Z) : nat := Z.to_nat (if ai <? n then ai else Z.land (ai - n) (n - 1)).
Definition set_xai_plus_y (n ai y : Z) (buf : list Z) : list Z * list Z :=
  let idx := xai_index n ai in
  let raw1 := upd buf idx (if ai <? n then 1 else -1) in
  let raw2 := upd raw1 0 (wadd 64 (nthZ raw1 0) y) in
  (raw2, upd (upd raw2 idx 0) 0 0).

(* ---- configuration histories of a LookupTable (lut.rs: alloc, set_rotation_direction, set) ----
   LookupTable { data, drift, rot_dir, (base2k, k fixed at alloc) }.  `set` rewrites data and drift and leaves rot_dir
   as it is; `set_rotation_direction` touches rot_dir only; `alloc` starts from zero data, drift 0, Left. *)
Record lstate := { st_data : lut; st_drift : Z; st_left : bool }.
Definition lut_alloc (n ext : nat) (b klut : Z) : lstate :=
  {| st_data := repeat (repeat (zlimb n) (Z.to_nat (div_ceil klut b))) ext; st_drift := 0; st_left := true |}.
Inductive levent := EDir (left : bool) | ESet (kmsg : Z) (f : list Z).
Definition apply_event (n ext : nat) (b klut : Z) (st : lstate) (ev : levent) : option lstate :=
  match ev with
  | EDir l => Some {| st_data := st_data st; st_drift := st_drift st; st_left := l |}
  | ESet kmsg f =>
      match lookup_table_set n ext b klut kmsg f with
      | Some (d, dr) => Some {| st_data := d; st_drift := dr; st_left := st_left st |}
      | None => None
      end
  end.
Fixpoint run_events (n ext : nat) (b klut : Z) (evs : list levent) (st : lstate) : option lstate :=
  match evs with
  | [] => Some st
  | ev :: t => match apply_event n ext b klut st ev with Some st' => run_events n ext b klut t st' | None => None end
  end.
(* spec: the direction requested last (default: the one the history started with), the table set last *)
Definition last_dir (evs : list levent) (l0 : bool) : bool :=
  fold_left (fun l ev => match ev with EDir d => d | ESet _ _ => l end) evs l0.
Definition last_set (evs : list levent) (o0 : option (Z * list Z)) : option (Z * list Z) :=
  fold_left (fun o ev => match ev with ESet k f => Some (k, f) | EDir _ => o end) evs o0.
