(* Executable entry points of the C04 model (external products, CMux, GGSW expansion).
   run_c04   : level L1 — output limbs of glwe_external_product(_assign) and cmux recomputed from the input limbs and the
               GGSW as dumped before preparation; [1] for the level-L2 operations.
   oracle_c04: level L2 — phase(res) = m2 (x) phase(a) + E, |E| inside the deterministic envelope of Model/Gadget.v;
               CMux: phase(res) = phase(selected input) + E; every cell (row, col) of a produced GGSW decrypts to
               m2 * 2^-((row+1) dsize b) (col = 0) resp. s_{col-1} (x) m2 * 2^-(...) (phase convention ct[0] + sum ct[i+1] (x) s_i).
   Record layout: harness/src/ks_common.rs, bin/c04.rs. *)
From PV Require Import Base.MachineInt Model.Znx Model.Limbs Model.Flat Model.Ring Model.Poly Model.DftAbs Model.Gadget Model.GadgetOracle.
Open Scope Z_scope.

Definition rank_of (ps : list Z) : nat := h_key_rout ps.
Definition glwe_cols (ps : list Z) (size : nat) (flat : list Z) : cols_t := cols_of_flat (h_n ps) (S (rank_of ps)) size flat.
Definition ggsw_pmat (ps : list Z) (flat : list Z) : pmat := pmat_of_flat (h_n ps) (S (rank_of ps) * h_key_size ps) flat.

Definition run_ext (ps : list Z) (vs : list (list Z)) : option (list (list Z)) :=
  match glwe_external_product (h_be ps) (h_n ps) (h_in_b ps) (h_key_b ps) (h_out_b ps) (rank_of ps) (h_in_size ps) (h_out_size ps)
                              (h_dsize ps) (h_dnum ps) (h_key_size ps) (glwe_cols ps (h_in_size ps) (v vs 2)) (ggsw_pmat ps (v vs 3)) with
  | Some r => Some [flat_of_cols (h_out_size ps) r]
  | None => None
  end.

Definition run_cmux (ps : list Z) (vs : list (list Z)) : option (list (list Z)) :=
  let sz := h_in_size ps in
  match cmux (h_be ps) (h_n ps) (h_in_b ps) (rank_of ps) sz sz sz (h_dsize ps) (h_dnum ps) (h_key_size ps)
             (zcols (h_n ps) (S (rank_of ps)) (h_key_size ps))
             (glwe_cols ps sz (v vs 2)) (glwe_cols ps sz (v vs 5)) (ggsw_pmat ps (v vs 3)) with
  | Some r => Some [flat_of_cols sz r]
  | None => None
  end.

Definition run_c04 (code : Z) (ps : list Z) (vs : list (list Z)) : option (list (list Z)) :=
  match code with
  | 4001 | 4002 => run_ext ps vs
  | 4010 => run_cmux ps vs
  | _ => Some [[1]]
  end.

(* ---------------------------------------------------------------------------------------------------------- *)
Definition sk (ps : list Z) (vs : list (list Z)) := polys (h_n ps) (v vs 1).
Definition sk_src (ps : list Z) (vs : list (list Z)) := polys (h_n ps) (v vs 0).
Definition Ssec (vs : list (list Z)) : Z := Z.max 1 (pnorm (v vs 1)).
(* flag vector: [the two runs from different scratch contents agree ; cross-backend identity 1 / 0 / 2 = not applicable ; statistics...] *)
Definition flag (ps : list Z) (vs : list (list Z)) (k : nat) : bool :=
  (nthZ (obs ps vs k) 0 =? 1) && negb (nthZ (obs ps vs k) 1 =? 0).
Definition norm1 (a : list Z) : Z := fold_left (fun t c => t + Z.abs c) a 0.
Definition within (P : Z) (d : list Z) (env : Z) : bool := tor_norm P d <=? env.
Definition ph (ps : list Z) (vs : list (list Z)) (P : Z) (b : Z) (size : nat) (flat : list Z) : list Z :=
  phase_flat P (h_n ps) b size (rank_of ps) (sk ps vs) flat.

(* envelope of one external product of a GLWE with digits bounded by D (in the header's input shape) by the header's GGSW(m2) *)
Definition ext_env (ps : list Z) (vs : list (list Z)) (P : Z) (D : Z) (m2 : list Z) : Z :=
  header_env ps P D (Ssec vs) (Z.max 1 (norm1 m2) * Ssec vs) (zn (S (rank_of ps))) false.

(* 4001/4002 *)
Definition oracle_ext (ps : list Z) (vs outs : list (list Z)) : Z :=
  let P := prec ps in
  let a := v vs 2 in let m2 := v vs 4 in
  let d := psub (ph ps vs P (h_out_b ps) (h_out_size ps) (nth 0 outs []))
                (pmul m2 (ph ps vs P (h_in_b ps) (h_in_size ps) a)) in
  ob (flag ps vs 0 && within P d (ext_env ps vs P (dmax a) m2)).

(* 4003..4006: the same relation for every cell; rows of the result beyond the rows of the input are zero *)
Definition oracle_ext_mat (code : Z) (ps : list Z) (vs : list (list Z)) : Z :=
  let P := prec ps in let n := h_n ps in
  let r := rank_of ps in
  let a_rin := if 4005 <=? code then S r else nx ps 4 in
  let a_dnum := nx ps 5 in
  let r_dnum := if (code =? 4003) || (code =? 4005) then nx ps 6 else a_dnum in
  let a := v vs 2 in let m2 := v vs 4 in let res := obs ps vs 0 in
  ob (flag ps vs 1 &&
      forallb (fun q =>
        let rq := nth_glwe n (h_out_size ps) r res q in
        if Nat.ltb (q / a_rin) a_dnum then
          let aq := nth_glwe n (h_in_size ps) r a q in
          within P (psub (ph ps vs P (h_out_b ps) (h_out_size ps) rq) (pmul m2 (ph ps vs P (h_in_b ps) (h_in_size ps) aq)))
                 (ext_env ps vs P (dmax aq) m2)
        else forallb (fun c => c =? 0) rq) (seq 0 (r_dnum * a_rin))).

(* 4010..4012: bit in {0,1}: phase(res) = phase(bit ? t : f) + E.  The product acts on t - f (digits up to |t| + |f|). *)
Definition oracle_cmux (code : Z) (ps : list Z) (vs outs : list (list Z)) : Z :=
  let P := prec ps in
  let t := v vs 2 in let f := v vs 5 in let m2 := v vs 4 in
  let bit := nthZ m2 0 in
  let l1 := code =? 4010 in
  let res := if l1 then nth 0 outs [] else obs ps vs 0 in
  let same := if l1 then flag ps vs 0 else flag ps vs 1 in
  let b := h_in_b ps in let sz := h_in_size ps in
  let sel := if bit =? 1 then t else f in
  let d := psub (ph ps vs P b sz res) (ph ps vs P b sz sel) in
  ob (same && ((bit =? 0) || (bit =? 1)) && within P d (ext_env ps vs P (dmax t + dmax f) m2)).

(* cells of a GGSW dump (dnum rows of rank+1 GLWE of `size` limbs of radix b, digit size dsize) under the secret s:
   cell (row, 0) -> m2 * 2^-((row+1) dsize b) within eb0 ; cell (row, j) -> s_{j-1} (x) m2 * 2^-(...) within ebj *)
Definition cells_ok (P : Z) (n : nat) (b : Z) (size r dsize dnum : nat) (m2 : list Z) (s : list (list Z)) (dump : list Z) (eb0 ebj : Z) : bool :=
  forallb (fun q =>
    let row := (q / S r)%nat in let cj := (q mod S r)%nat in
    let ct := nth_glwe n size r dump q in
    let p0 := phase_flat P n b size r s ct in
    let base := if Nat.eqb cj 0 then m2 else pmul m2 (nth (cj - 1) s (pzero n)) in
    let want := pscale (2 ^ (P - (zn row + 1) * zn dsize * b)) base in
    tor_norm P (psub p0 want) <=? (if Nat.eqb cj 0 then eb0 else ebj)) (seq 0 (dnum * S r)).

(* 4020 *)
Definition oracle_cells_fresh (ps : list Z) (vs : list (list Z)) : Z :=
  let P := prec ps in
  let eb := h_bound ps * 2 ^ (P - h_key_k ps) in
  ob (cells_ok P (h_n ps) (h_key_b ps) (h_key_size ps) (rank_of ps) (h_dsize ps) (h_dnum ps) (v vs 4) (sk ps vs) (obs ps vs 0) eb eb).

(* 4021 / 4022 / 4030..4033: GGSW obtained by row expansion (after a copy / a key-switch / an automorphism of column 0).
   column 0 error: error of the source rows (+ one gadget product with the second key); column j >= 1: s_{j-1} (x) (column-0 error)
   + one gadget product with the tensor key (rows encrypt s_i s_j, sup norm <= N S^2) + the body added to column j *)
Definition oracle_cells_derived (code : Z) (ps : list Z) (vs : list (list Z)) : Z :=
  let n := h_n ps in let r := rank_of ps in
  let gd := nx ps 4 in let gn := nx ps 5 in let gk := x ps 6 in
  let b2 := x ps 7 in let s2 := nx ps 8 in let d2 := nx ps 9 in let n2 := nx ps 10 in let k2 := x ps 11 in
  let P := Z.max (prec ps) (zn s2 * b2 + 16) in
  let S := Ssec vs in let N := zn n in
  let ib := h_in_b ps in let isz := h_in_size ps in let ob_ := h_out_b ps in let osz := h_out_size ps in
  let fresh := h_bound ps * 2 ^ (P - gk) in
  let second :=
    if 4030 <=? code then
      let same := ib =? b2 in
      let a_eff := if same then isz else conv_size isz ib b2 in
      gadget_env P N b2 (2 ^ ((if same then ib else b2) - 1)) d2 n2 a_eff s2 (zn r) (zn r) S (Z.max 1 (pnorm (v vs 0)))
                 (h_bound ps * 2 ^ (P - k2)) ob_ osz true
    else 0 in
  let eb0 := fresh + second in
  let tens := shape_env ps P (2 ^ (ob_ - 1)) S (N * S * S) (zn r) true ob_ osz ob_ osz in
  let ebj := N * S * eb0 + tens + N * S * 2 ^ (P - zn (h_key_size ps) * h_key_b ps + h_key_b ps) in
  let m2 := if (code =? 4032) || (code =? 4033) then sigmaZ P (x ps 0) (v vs 4) else v vs 4 in
  ob (flag ps vs 1 && cells_ok P n ob_ osz r gd gn m2 (sk ps vs) (obs ps vs 0) eb0 ebj).

Definition oracle_c04 (code : Z) (ps : list Z) (vs outs : list (list Z)) : Z :=
  match code with
  | 4001 | 4002 => oracle_ext ps vs outs
  | 4003 | 4004 | 4005 | 4006 => oracle_ext_mat code ps vs
  | 4010 | 4011 | 4012 => oracle_cmux code ps vs outs
  | 4020 => oracle_cells_fresh ps vs
  | 4023 => tensor_rows_ok ps vs
  | 4021 | 4022 | 4030 | 4031 | 4032 | 4033 => oracle_cells_derived code ps vs
  | _ => 2
  end.
