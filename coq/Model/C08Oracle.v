(* Direct oracles for C08: the property statement evaluated on implementation outputs, written
   against the spec-level notions (balanced residue, exact carry identity), not against the model.
   Result: 1 = holds, 0 = fails, 2 = no statement for this record (outside the guard). *)
From PV Require Import Base.MachineInt Model.Znx Model.C08Run.
Open Scope Z_scope.

Definition forall2b {A B} (f : A -> B -> bool) (l1 : list A) (l2 : list B) : bool :=
  (Nat.eqb (length l1) (length l2)) && forallb (fun q => f (fst q) (snd q)) (combine l1 l2).

Definition ob (b : bool) : Z := if b then 1 else 0.

(* headroom guard used by the kernel-level statements *)
Definition hr (w x : Z) : bool := Z.abs x <=? 2 ^ (w - 2).

Definition balanced (b d : Z) : bool := in_rangeb b d.

(* a * 2^lsh + c = xd + 2^b * cout, xd balanced *)
Definition step_ok (w b lsh a c xd cout : Z) : bool :=
  negb (hr w a && hr w c) || ((a * 2 ^ lsh + c =? xd + 2 ^ b * cout) && balanced b xd).
(* final step: congruence only *)
Definition final_ok (w b lsh a c xd : Z) : bool :=
  negb (hr w a && hr w c) || (((a * 2 ^ lsh + c - xd) mod 2 ^ b =? 0) && balanced b xd).

Definition z4 {A} (l1 l2 l3 l4 : list A) := combine (combine (combine l1 l2) l3) l4.

Definition oracle_c08 (code : Z) (ps : list Z) (vs outs : list (list Z)) : Z :=
  let w := 64 in
  match code with
  | 8001 => let b := p ps 1 in
      ob (forall2b (fun x d => balanced b d && ((x - d) mod 2 ^ b =? 0)) (v vs 0) (v outs 0))
  | 8002 => let w := p ps 0 in let b := p ps 1 in
      ob (forall2b (fun x c => negb (in_rangeb w x && (x <? 2 ^ (w - 1) - 2 ^ (b - 1)))
                               || (c * 2 ^ b + wrap b x =? x)) (v vs 0) (v outs 0))
  | 8011 => let b := p ps 1 in let l := p ps 2 in
      ob (forall2b (fun a xc => step_ok w b l a 0 (fst xc) (snd xc)) (v vs 0) (combine (v outs 0) (v outs 1)))
  | 8014 => let b := p ps 1 in let l := p ps 2 in
      ob (forall2b (fun ac xc => step_ok w b l (fst ac) (snd ac) (fst xc) (snd xc))
            (combine (v vs 0) (v vs 1)) (combine (v outs 0) (v outs 1)))
  | 8017 => let b := p ps 1 in let l := p ps 2 in
      ob (forall2b (fun ac x => final_ok w b l (fst ac) (snd ac) x) (combine (v vs 0) (v vs 1)) (v outs 0))
  | _ => 2
  end.
