(* Direct oracles for C08: the property statement evaluated on implementation outputs, written
   against the spec-level notions (balanced residue, exact carry identity), not against the model.
   Result: 1 = holds, 0 = fails, 2 = no statement for this record (outside the guard). *)
From PV Require Import Base.MachineInt Model.Znx Model.Limbs Model.Flat Model.C08Run Model.C08Encode.
Open Scope Z_scope.

Definition forall2b {A B} (f : A -> B -> bool) (l1 : list A) (l2 : list B) : bool :=
  (Nat.eqb (length l1) (length l2)) && forallb (fun q => f (fst q) (snd q)) (combine l1 l2).

Definition ob (b : bool) : Z := if b then 1 else 0.

(* headroom guard used by the kernel-level statements *)
Definition hr (w x : Z) : bool := Z.abs x <=? 2 ^ (w - 2).

Definition balanced (b d : Z) : bool := in_rangeb b d.

(* a * 2^lsh + c = xd + 2^b * cout, xd balanced *)
Definition step_ok (w b lsh a c xd cout : Z) : bool :=
  negb (hr w a && hr w c) || ((a * 2 ^ lsh + c =? xd + 2 ^ b * cout) && balanced b xd).
(* final step: congruence only *)
Definition final_ok (w b lsh a c xd : Z) : bool :=
  negb (hr w a && hr w c) || (((a * 2 ^ lsh + c - xd) mod 2 ^ b =? 0) && balanced b xd).

Definition z4 {A} (l1 l2 l3 l4 : list A) := combine (combine (combine l1 l2) l3) l4.

(* ---- spec level: value of a limb vector on the torus, as an integer scaled by 2^P ---- *)
Definition val_scaled (P b : Z) (limbs : list Z) : Z :=
  fst (fold_left (fun (s : Z * Z) x => (fst s + x * 2 ^ (P - (snd s + 1) * b), snd s + 1)) limbs (0, 0)).
(* distance on R/Z of a scaled value *)
Definition tor_abs (P x : Z) : Z := Z.abs (wrap P x).
Definition all_hr (l : list Z) : bool := forallb (fun x => Z.abs x <=? 2 ^ 60) l.
Definition all_bal (b : Z) (l : list Z) : bool := forallb (balanced b) l.

(* one coefficient: out represents  keep*r0 + sgn * a * 2^off  (mod 1) within one unit of out's last limb,
   exactly when nothing is truncated; digits balanced when required *)
Definition coeff_ok (rb ab off keep sgn : Z) (need_bal : bool) (a r0 out : list Z) : Z :=
  if negb (all_hr a && (all_hr r0 || (keep =? 0))) then 2 else
  let rsz := Z.of_nat (length out) in let asz := Z.of_nat (length a) in
  let P := rsz * rb + asz * ab + Z.abs off + 2 in
  let A := val_scaled (P + off) ab a in
  let R0 := val_scaled P rb r0 in
  let R := val_scaled P rb out in
  let D := tor_abs P (R - keep * R0 - sgn * A) in
  let unit := 2 ^ (P - rsz * rb) in
  let exact := (asz * ab - off <=? rsz * rb) in
  ob ((D <=? unit) && (negb exact || (D =? 0)) && (negb need_bal || all_bal rb out)).

Fixpoint min_verdict (l : list Z) : Z :=
  match l with [] => 1 | x :: t => let m := min_verdict t in if x =? 0 then 0 else if m =? 0 then 0 else if x =? 2 then 2 else m end.

Definition vec_oracle (ps : list Z) (vs outs : list (list Z)) (rb ab off keep sgn : Z) (need_bal inplace : bool) : Z :=
  let rs := rshape ps in let as_ := if inplace then rshape ps else ashape ps in
  let res0 := v vs 0 in let a := if inplace then v vs 0 else v vs 1 in let res1 := v outs 0 in
  if negb (Nat.eqb (length res0) (length res1)) then 0 else
  let al := transpose (s_n rs) (col_limbs (s_n as_) (s_cols as_) (s_size as_) a (s_col as_)) in
  let r0l := transpose (s_n rs) (col_limbs (s_n rs) (s_cols rs) (s_size rs) res0 (s_col rs)) in
  let r1l := transpose (s_n rs) (col_limbs (s_n rs) (s_cols rs) (s_size rs) res1 (s_col rs)) in
  min_verdict (map (fun q => coeff_ok rb ab off keep sgn need_bal (fst (fst q)) (snd (fst q)) (snd q))
                   (combine (combine al r0l) r1l)).

(* the same statement for the i128 accumulators of the NTT120 family (big normalisers run on backends 3, 4): the
   documented headroom is 2^126 instead of 2^60; the value computation is exact integer arithmetic either way *)
Definition all_hr_h (h : Z) (l : list Z) : bool := forallb (fun x => Z.abs x <=? 2 ^ h) l.
Definition coeff_ok_h (h rb ab off keep sgn : Z) (need_bal : bool) (a r0 out : list Z) : Z :=
  if negb (all_hr_h h a && (all_hr r0 || (keep =? 0))) then 2 else
  let rsz := Z.of_nat (length out) in let asz := Z.of_nat (length a) in
  let P := rsz * rb + asz * ab + Z.abs off + 2 in
  let A := val_scaled (P + off) ab a in
  let R0 := val_scaled P rb r0 in
  let R := val_scaled P rb out in
  let D := tor_abs P (R - keep * R0 - sgn * A) in
  let unit := 2 ^ (P - rsz * rb) in
  let exact := (asz * ab - off <=? rsz * rb) in
  ob ((D <=? unit) && (negb exact || (D =? 0)) && (negb need_bal || all_bal rb out)).
Definition vec_oracle_h (h : Z) (ps : list Z) (vs outs : list (list Z)) (rb ab off keep sgn : Z) (need_bal : bool) : Z :=
  let rs := rshape ps in let as_ := ashape ps in
  let res0 := v vs 0 in let a := v vs 1 in let res1 := v outs 0 in
  if negb (Nat.eqb (length res0) (length res1)) then 0 else
  let al := transpose (s_n rs) (col_limbs (s_n as_) (s_cols as_) (s_size as_) a (s_col as_)) in
  let r0l := transpose (s_n rs) (col_limbs (s_n rs) (s_cols rs) (s_size rs) res0 (s_col rs)) in
  let r1l := transpose (s_n rs) (col_limbs (s_n rs) (s_cols rs) (s_size rs) res1 (s_col rs)) in
  min_verdict (map (fun q => coeff_ok_h h rb ab off keep sgn need_bal (fst (fst q)) (snd (fst q)) (snd q))
                   (combine (combine al r0l) r1l)).
(* big normalisers: which headroom applies *)
Definition big_oracle (ps : list Z) (vs outs : list (list Z)) (keep sgn : Z) (need_bal : bool) : Z :=
  if 3 <=? p ps 0 then vec_oracle_h 126 ps vs outs (p ps 10) (p ps 11) (p ps 12) keep sgn need_bal
  else vec_oracle ps vs outs (p ps 10) (p ps 11) (p ps 12) keep sgn need_bal false.

Definition oracle_c08 (code : Z) (ps : list Z) (vs outs : list (list Z)) : Z :=
  let w := 64 in
  match code with
  | 8001 => let b := p ps 1 in
      ob (forall2b (fun x d => balanced b d && ((x - d) mod 2 ^ b =? 0)) (v vs 0) (v outs 0))
  | 8002 => let w := p ps 0 in let b := p ps 1 in
      ob (forall2b (fun x c => negb (in_rangeb w x && (x <? 2 ^ (w - 1) - 2 ^ (b - 1)))
                               || (c * 2 ^ b + wrap b x =? x)) (v vs 0) (v outs 0))
  | 8011 => let b := p ps 1 in let l := p ps 2 in
      ob (forall2b (fun a xc => step_ok w b l a 0 (fst xc) (snd xc)) (v vs 0) (combine (v outs 0) (v outs 1)))
  | 8014 => let b := p ps 1 in let l := p ps 2 in
      ob (forall2b (fun ac xc => step_ok w b l (fst ac) (snd ac) (fst xc) (snd xc))
            (combine (v vs 0) (v vs 1)) (combine (v outs 0) (v outs 1)))
  | 8017 => let b := p ps 1 in let l := p ps 2 in
      ob (forall2b (fun ac x => final_ok w b l (fst ac) (snd ac) x) (combine (v vs 0) (v vs 1)) (v outs 0))
  | 8101 => vec_oracle ps vs outs (p ps 10) (p ps 11) (p ps 12) 0 1 (p ps 10 =? p ps 11) false
  | 8102 => vec_oracle ps vs outs (p ps 10) (p ps 10) 0 0 1 true true
  | 8103 => vec_oracle ps vs outs (p ps 10) (p ps 10) (p ps 11) 0 1 true true
  | 8104 => vec_oracle ps vs outs (p ps 10) (p ps 10) (p ps 11) 0 1 true false
  | 8105 => vec_oracle ps vs outs (p ps 10) (p ps 10) (p ps 11) 1 1 false false
  | 8106 => vec_oracle ps vs outs (p ps 10) (p ps 10) (p ps 11) 1 (-1) false false
  | 8107 => vec_oracle ps vs outs (p ps 10) (p ps 10) (- p ps 11) 0 1 true true
  | 8108 => vec_oracle ps vs outs (p ps 10) (p ps 10) (- p ps 11) 0 1 true false
  | 8109 => vec_oracle ps vs outs (p ps 10) (p ps 10) (- p ps 11) 1 1 false false
  | 8110 => vec_oracle ps vs outs (p ps 10) (p ps 10) (- p ps 11) 1 (-1) false false
  | 8201 => big_oracle ps vs outs 0 1 (p ps 10 =? p ps 11)
  | 8202 => big_oracle ps vs outs 1 1 false
  | 8203 => big_oracle ps vs outs 1 (-1) false
  | 8204 => big_oracle ps vs outs 0 (-1) false
  | _ => oracle_c08_enc code ps vs outs
  end.
