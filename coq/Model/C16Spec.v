(* C16 — specification-level notions for the metadata algebra: the invariant, the documented closed-form algebra
   (`spec_step`), admissibility of calls and the classes of inputs on which the transcribed code of C16Meta.v
   deviates from the property (known-finding classes).  Definitions only. *)
From PV Require Import Base.MachineInt Model.C16Meta.
Open Scope Z_scope.

Definition two62 : Z := 4611686018427387904.
Definition two63 : Z := 9223372036854775808.

(* the invariant documented in lib.rs: effective_k() = log_delta + log_budget <= max_k() *)
Definition inv (B : Z) (c : ct) : Prop := 0 <= ld (cm c) /\ 0 <= lb (cm c) /\ eff (cm c) <= maxk B c.
(* ... plus a size bound that keeps every usize addition of metadata far from 2^64 *)
Definition good (B : Z) (c : ct) : Prop := inv B c /\ 0 <= csize c /\ csize c * B < two62.

Definition smallm (m : meta) : Prop := 0 <= ld m < two62 /\ 0 <= lb m < two62.
Definition small (x : Z) : Prop := 0 <= x < two64.       (* any usize *)

(* caller-supplied scalars are arbitrary usize values; plaintext metadata stays below 2^62 (its sums are unchecked) *)
Definition wf_ptz (p : ptz) : Prop := smallm (pm p) /\ 0 <= pmaxk p < two62 /\ 0 <= pb2k p.
Definition wf_op (B : Z) (o : op) : Prop :=
  match o with
  | OAlloc s | ORealloc s => 0 <= s /\ s * B < two62
  | OEncrypt pt k => smallm pt /\ small k
  | OPtZnxInto p | OPtZnxAssign p | OMulPtZnxInto p | OMulPtZnxAssign p | OMulAccPtZnx p => wf_ptz p
  | OPtRnxInto m | OPtRnxAssign m | OMulPtRnxInto m | OMulPtRnxAssign m
  | OMulAccPtRnx m | ODecrypt m => smallm m
  | OSetMeta m => small (ld m) /\ small (lb m)
  | OMulCstZnxInto m _ | OMulCstZnxAssign m _ | OCstRnxInto m _ | OCstRnxAssign m _ | OMulCstRnxInto m _ | OMulCstRnxAssign m _ | OMulAccCstZnx m _ | OMulAccCstRnx m _ => smallm m
  | OCstZnxInto l k _ | OCstZnxAssign l k _ => 0 <= l < two62 /\ small k
  | OMulPow2Into b | OMulPow2Assign b | ODivPow2Into b | ODivPow2Assign b | ORescaleInto b | ORescaleAssign b => small b
  | _ => True
  end.

(* ---------------- the documented algebra in closed form ---------------- *)
Inductive sres := SOk (m : meta) (size : Z) | SErr (e : ekind).

Definition offu (B : Z) (d a : ct) : Z := Z.max 0 (eff (cm a) - maxk B d).
Definition offb (B : Z) (d a b : ct) : Z := Z.max 0 (Z.min (eff (cm a)) (eff (cm b)) - maxk B d).

(* a unary operation written into `d`: the source loses the bits that do not fit *)
Definition s_unary (B : Z) (d a : ct) (k : meta -> sres) : sres :=
  if lb (cm a) <? offu B d a then SErr ECapacity else k (Meta (ld (cm a)) (lb (cm a) - offu B d a)).
(* alignment of a vector plaintext with a ciphertext of budget l *)
Definition s_align (B : Z) (m : meta) (p : ptz) (sz : Z) : sres :=
  if negb (B =? pb2k p) then SErr EBase2k
  else if lb m + ld (pm p) <? pmaxk p then SErr EAlign else SOk m sz.
Definition s_f64 (l : Z) (k : sres) : sres := if f64_prec <? l then SErr EOther else k.
(* ct x ct product written into a destination of max_k = mk *)
Definition s_mul_ct (mk : Z) (x y : meta) (k : meta -> sres) : sres :=
  if Z.min (lb x) (lb y) <? Z.max (ld x) (ld y) then SErr EMulUnder else
  let rlb := Z.min (lb x) (lb y) - Z.max (ld x) (ld y) in
  let rld := Z.min (ld x) (ld y) in
  let roff := Z.max 0 (rlb + rld - mk) in
  if rlb <? roff then SErr ECapacity else k (Meta rld (rlb - roff)).
(* ct x plaintext (vector or constant) of precision pl *)
Definition s_mul_pt (mk : Z) (x : meta) (pl : Z) (k : meta -> sres) : sres :=
  if lb x <? pl then SErr EMulUnder else
  let rlb := lb x - pl in
  let roff := Z.max 0 (rlb + ld x - mk) in
  if rlb <? roff then SErr ECapacity else k (Meta (ld x) (rlb - roff)).
(* products need compact ciphertext operands (checked after the parameters) *)
Definition s_compact (c : bool) (k : sres) : sres := if c then k else SErr ENotCompact.
Definition cpt (B : Z) (c : ct) : bool := compact B (cm c) (csize c).
(* accumulate a product into d: both aligned to the smaller budget and precision *)
Definition s_acc (d : ct) (t : meta) : sres :=
  SOk (Meta (Z.min (ld (cm d)) (ld t)) (Z.min (lb (cm d)) (lb t))) (csize d).

Definition spec_step (B : Z) (o : op) (d a b : ct) : sres :=
  let dm := cm d in let sz := csize d in
  let ok (m : meta) := SOk m sz in
  match o with
  | OAlloc s => SOk (Meta 0 0) s
  | OEncrypt pt k =>
      if k <? ld pt then SErr ECapacity
      else if k <? min_k B pt then SErr EAlign else ok (Meta (ld pt) (k - ld pt))
  | OLinInto =>
      if Z.min (lb (cm a)) (lb (cm b)) <? offb B d a b then SErr ECapacity
      else ok (Meta (Z.min (ld (cm a)) (ld (cm b))) (Z.min (lb (cm a)) (lb (cm b)) - offb B d a b))
  | OLinAssign => s_acc d (cm a)
  | OPtZnxInto p => s_unary B d a (fun m => s_align B m p sz)
  | OPtZnxAssign p => s_align B dm p sz
  | OPtRnxInto prec => s_f64 (ld prec) (s_unary B d a (fun m => s_align B m (ptz_alloc B prec) sz))
  | OPtRnxAssign prec => s_f64 (ld prec) (s_align B dm (ptz_alloc B prec) sz)
  | OCstZnxInto l k none =>
      s_f64 l (s_unary B d a (fun m => if none then ok m else if lb m + l <? Z.max k l then SErr EAlign
                                       else if sz <? cdiv k B then SErr EAlign else ok m))
  | OCstZnxAssign l k none =>
      s_f64 l (if none then ok dm else if lb dm + l <? Z.max k l then SErr EAlign
               else if sz <? cdiv k B then SErr EAlign else ok dm)
  | OCstRnxInto prec none =>
      if none then s_unary B d a ok
      else s_unary B d a (fun m => s_f64 (ld prec) (if sz <? cdiv (lb m + ld prec) B then SErr EAlign else ok m))
  | OCstRnxAssign prec none =>
      if none then ok dm else s_f64 (ld prec) (if sz <? cdiv (lb dm + ld prec) B then SErr EAlign else ok dm)
  | ONegInto | OConjInto => s_unary B d a ok
  | OMulPow2Into bits => s_unary B d a (fun m => if two64 <=? bits + offu B d a then SErr EOther else ok m)
  | ONegAssign | OConjAssign | OMulPow2Assign _ => ok dm
  | OMulInto => s_mul_ct (maxk B d) (cm a) (cm b) (fun m => s_compact (cpt B a && cpt B b) (ok m))
  | OMulAssign => s_mul_ct (maxk B d) dm (cm a) (fun m => s_compact (cpt B d && cpt B a) (ok m))
  | OSquareInto => s_mul_ct (maxk B d) (cm a) (cm a) (fun m => s_compact (cpt B a) (ok m))
  | OSquareAssign => s_mul_ct (maxk B d) dm dm (fun m => s_compact (cpt B d) (ok m))
  | OMulPtZnxInto p =>
      if negb (B =? pb2k p) then SErr EBase2k else s_mul_pt (maxk B d) (cm a) (ld (pm p)) (fun m => s_compact (cpt B a) (ok m))
  | OMulPtZnxAssign p =>
      if negb (B =? pb2k p) then SErr EBase2k else s_mul_pt (maxk B d) dm (ld (pm p)) (fun m => s_compact (cpt B d) (ok m))
  | OMulPtRnxInto prec => s_f64 (ld prec) (s_mul_pt (maxk B d) (cm a) (ld prec) (fun m => s_compact (cpt B a) (ok m)))
  | OMulPtRnxAssign prec => s_f64 (ld prec) (s_mul_pt (maxk B d) dm (ld prec) (fun m => s_compact (cpt B d) (ok m)))
  | OMulCstZnxInto prec _ => s_f64 (ld prec) (s_mul_pt (maxk B d) (cm a) (ld prec) ok)
  | OMulCstZnxAssign prec _ => s_f64 (ld prec) (s_mul_pt (maxk B d) dm (ld prec) ok)
  | OMulCstRnxInto prec none =>
      if none then s_mul_pt (maxk B d) (cm a) (ld prec) ok else s_f64 (ld prec) (s_mul_pt (maxk B d) (cm a) (ld prec) ok)
  | OMulCstRnxAssign prec none =>
      if none then s_mul_pt (maxk B d) dm (ld prec) ok else s_f64 (ld prec) (s_mul_pt (maxk B d) dm (ld prec) ok)
  | OMulAccCt => s_mul_ct (maxk B d) (cm a) (cm b) (fun m => s_compact (cpt B a && cpt B b) (s_acc d m))
  | OMulAccPtZnx p =>
      if negb (B =? pb2k p) then SErr EBase2k
      else s_mul_pt (maxk B d) (cm a) (ld (pm p)) (fun m => s_compact (cpt B a) (s_acc d m))
  | OMulAccPtRnx prec => s_f64 (ld prec) (s_mul_pt (maxk B d) (cm a) (ld prec) (fun m => s_compact (cpt B a) (s_acc d m)))
  | OMulAccCstZnx prec none => s_f64 (ld prec) (if none then ok dm else s_mul_pt (maxk B d) (cm a) (ld prec) (s_acc d))
  | OMulAccCstRnx prec none => if none then ok dm else s_f64 (ld prec) (s_mul_pt (maxk B d) (cm a) (ld prec) (s_acc d))
  | ODivPow2Into bits =>
      if lb (cm a) <? bits + offu B d a then SErr ECapacity
      else ok (Meta (ld (cm a) + bits) (lb (cm a) - bits - offu B d a))
  | ODivPow2Assign bits => if lb dm <? bits then SErr ECapacity else ok (Meta (ld dm) (lb dm - bits))
  | ORotateInto key => if negb key then SErr EMissingKey else s_unary B d a ok
  | ORotateAssign key => if negb key then SErr EMissingKey else ok dm
  | ORescaleInto k =>
      if lb (cm a) <? k then SErr ECapacity else
      let l := lb (cm a) - k in
      let off := Z.max 0 (ld (cm a) + l - maxk B d) in
      if l <? off then SErr ECapacity else ok (Meta (ld (cm a)) (l - off))
  | ORescaleAssign k => if lb dm <? k then SErr ECapacity else ok (Meta (ld dm) (lb dm - k))
  | OCompact => SOk dm (cdiv (eff dm) B)
  | ORealloc s => if s <? cdiv (eff dm) B then SErr EShrink else SOk dm s
  | OCompactCopy => SOk (cm a) (cdiv (eff (cm a)) B)
  | OSetMeta m => if (two64 <=? eff m) || (maxk B d <? eff m) then SErr EShrink else ok m
  | ODecrypt pt => if lb dm <? lb pt then SErr EAlign else ok dm
  end.

Definition outcome_matches (o : outcome) (s : sres) : Prop :=
  match o, s with
  | Done m sz _, SOk m' sz' => m = m' /\ sz = sz'
  | Fail e _, SErr e' => e = e'
  | _, _ => False
  end.

(* ---------------- admissible calls and known-finding classes ---------------- *)
Definition compact_ct (B : Z) (c : ct) : Prop := cdiv (eff (cm c)) B = csize c.

(* preconditions that the layers below state themselves (asserted in poulpy-core / poulpy-hal) *)
Definition admissible (B : Z) (o : op) (d a : ct) : Prop :=
  match o with
  | OEncrypt _ k => 1 <= k /\ cdiv k B <= csize d        (* the noise limb exists in the destination *)
  | OCstZnxInto _ k none | OCstZnxAssign _ k none => none = true \/ 1 <= k     (* to_znx_at_k needs one limb *)
  | OCstRnxInto prec none => none = true \/ 1 <= lb (cm a) - offu B d a + ld prec
  | OCstRnxAssign prec none => none = true \/ 1 <= lb (cm d) + ld prec
  | OMulCstZnxInto prec none | OMulCstZnxAssign prec none | OMulCstRnxInto prec none | OMulCstRnxAssign prec none
  | OMulAccCstZnx prec none | OMulAccCstRnx prec none => none = true \/ 1 <= eff prec      (* to_znx needs one limb *)
  | _ => True
  end.

(* no panic class is left: every admissible call returns Ok or a typed error *)
Definition known_panic (B : Z) (o : op) (d a b : ct) : Prop := False.

(* ---------------- programs ---------------- *)
Definition is_done (o : outcome) : Prop := match o with Done _ _ _ => True | _ => False end.

(* a program is well formed when each of its operations is *)
Definition wf_prog (B : Z) (p : list step) : Prop := Forall (fun s => wf_op B (sop s)) p.
