(* C15 — circuit bootstrapping (poulpy-bin-fhe/src/circuit_bootstrapping/circuit.rs: circuit_bootstrap_core,
   post_process) on ideal plaintexts: the lookup table the code builds, the accumulator after an exact blind rotation
   by the LWE message, and the row loop (rotate by -gap, trace / post_process).  Coefficients are integers in units
   of 2^-(base2k * dnum + lut_sc) (the precision of the lookup table's last limb).  extension_factor = 1.
   No proofs in this file. *)
From Coq Require Import ZArith List Bool Lia.
From PV Require Import Gen.C15_gen Model.C15Uint.
Import ListNotations.
Open Scope Z_scope.

(* usize::BITS - x.leading_zeros() *)
Definition bitlen (x : Z) : Z := if x <=? 0 then 0 else Z.log2 x + 1.
(* usize::next_power_of_two *)
Definition next_pow2 (x : Z) : Z := if x <=? 1 then 1 else 2 ^ bitlen (x - 1).

Section Cbt.
  Variables (logn base2k dnum : Z).
  Variable bb : Z.                      (* base2k of the blind-rotation key = radix of the lookup table *)
  Variable expo : bool.                 (* to_exponent *)
  Variables (ld lgo : Z).               (* log_domain, log_gap_out *)
  Let n : Z := 2 ^ logn.
  Definition alpha : Z := next_pow2 dnum.
  Definition f_len : Z := 2 ^ ld * alpha.
  (* the vector f of circuit_bootstrap_core *)
  Definition f_at (x : Z) : Z :=
    let i := x mod alpha in
    let j := x / alpha in
    if (0 <=? x) && (x <? f_len) && (i <? dnum) then
      if expo then (if j =? 0 then 2 ^ (base2k * (dnum - 1 - i)) else 0)
      else j * 2 ^ (base2k * (dnum - 1 - i))
    else 0.
  (* the same entry as the code computes it, in i64: 1 << (res_base2k * (dnum - 1 - i)) and j as i64 * (...) wrap *)
  Definition wrap64 (x : Z) : Z := (x + 2 ^ 63) mod 2 ^ 64 - 2 ^ 63.
  Definition f_i64 (x : Z) : Z :=
    let i := x mod alpha in
    let j := x / alpha in
    if (0 <=? x) && (x <? f_len) && (i <? dnum) then
      if expo then (if j =? 0 then wrap64 (2 ^ (base2k * (dnum - 1 - i))) else 0)
      else wrap64 (j * wrap64 (2 ^ (base2k * (dnum - 1 - i))))
    else 0.
  (* lookup_table_set(f, k = res_base2k * dnum) on a table of radix bb: the entries go to limb ceil(k / bb) - 1 scaled by
     2^lut_sc (fi * scale, wrapping), i.e. the table is in units of 2^-(k + lut_sc);
     step = domain_size.div_round(f_len); lut_full[i*step .. (i+1)*step) = f[i]; drift = step >> 1;
     the table is then rotated by -drift *)
  Definition lut_sc : Z := let k := base2k * dnum in if k mod bb =? 0 then 0 else bb - k mod bb.
  Definition lut_entry (x : Z) : Z := wrap64 (f_i64 x * 2 ^ lut_sc).
  (* the overflow assert of circuit_bootstrap_core (since /repo a84e8a5): the exponent of the largest coefficient,
     res_base2k * (dnum - 1) + scale bits (+ log_domain in constant mode), must stay below 63 *)
  Definition cb_asserts : bool :=
    base2k * Z.max 0 (dnum - 1) + lut_sc + (if expo then 0 else ld) <? 63.
  Definition step : Z := (n + f_len / 2) / f_len.
  Definition drift : Z := Z.shiftr step 1.
  Definition lut_full : poly := fun j => if (0 <=? j) && (j <? f_len * step) then lut_entry (j / step) else 0.
  Definition lut : poly := p_rot n (- drift) lut_full.
  Definition cb_gap : Z := 2 * drift.
  Definition log_gap_in : Z := bitlen (cb_gap * alpha - 1).

  (* blind rotation by the exact message: the LWE phase is msg / 2^(ld+1), i.e. msg * n / 2^ld on Z_{2n};
     left rotation (X^-phase) in constant mode, right rotation in exponent mode *)
  Definition br_acc (msg : Z) : poly :=
    let ph := msg * (n / 2 ^ ld) in
    p_rot n (if expo then ph else - ph) lut.

  (* post_process; None = glwe_pack's assert that every key is below n *)
  Definition post_process (a : poly) : option poly :=
    if negb (log_gap_in =? lgo) then
      let a_trace := p_trace n (logn - log_gap_in) a in
      if (2 ^ ld - 1) * 2 ^ lgo <? n then
        Some (fun j =>
          if j mod 2 ^ lgo =? 0 then
            let t := j / 2 ^ lgo in
            if (0 <=? t) && (t <? 2 ^ ld) then p_rot n (- (t * 2 ^ log_gap_in)) a_trace 0 else 0
          else 0)
      else None
    else Some (p_trace n (logn - log_gap_in) a).

  (* row i of column 0 of the result, before GGLWE -> GGSW expansion *)
  Definition cb_row (msg i : Z) : option poly :=
    if cb_asserts then
      let a := p_rot n (- (i * cb_gap)) (br_acc msg) in
      if expo then post_process a else Some (p_trace n 0 a)
    else None.

  (* the row decoded at the precision of its gadget level base2k*(i+1): nearest integer, centred *)
  Definition row_decoded (i : Z) (p : poly) : poly :=
    let s := base2k * (dnum - 1 - i) + lut_sc in
    let m := 2 ^ (base2k * (i + 1)) in
    fun j => let v := ((p j + (if s =? 0 then 0 else 2 ^ (s - 1))) / 2 ^ s) mod m in
             if m / 2 <=? v then v - m else v.

  (* the message a GGSW cell of row i must carry: the constant j, or the monomial X^(j * 2^lgo) *)
  Definition cand (j : Z) : poly :=
    if expo then p_rot n (j * 2 ^ lgo) (p_const 1) else p_const j.
  Definition poly_eqb (p q : poly) : bool := forallb (fun j => p j =? q j) (zseq 0 (Z.to_nat n)).
  (* which candidate message the cell is an encryption of: Some j, or None when it is none of them *)
  Definition cell_msg (d : poly) : option Z := find (fun j => poly_eqb d (cand j)) (zseq 0 (Z.to_nat (2 ^ ld))).

  (* every row of column 0, decoded at its gadget precision, is exactly the message [cand msg] *)
  Definition cbt_rows_ok (msg : Z) : bool :=
    forallb (fun i => match cb_row msg i with
                      | Some q => poly_eqb (row_decoded i q) (cand msg)
                      | None => false
                      end) (zseq 0 (Z.to_nat dnum)).
End Cbt.

(* circuit_bootstrap_core on ciphertexts, over abstract operations: blind rotation with the lookup table built for
   (to_exponent, log_domain), then per row: rotate by -(i * gap), trace (constant mode) or post_process (exponent
   mode), and finally the GGLWE -> GGSW expansion of the dnum rows.  (The code rotates the accumulator by -gap once per
   row; the rotations are written here by their total amount.) *)
Section CbtCt.
  Variables lwe glwe ggsw : Type.
  Variable blind_rotate : lwe -> glwe.
  Variable g_rot : Z -> glwe -> glwe.
  Variable g_trace : Z -> glwe -> glwe.
  Variable g_post : glwe -> glwe.
  Variable g_expand : list glwe -> ggsw.
  Variables (logn base2k dnum : Z) (expo : bool) (ld lgo : Z).

  Definition cbt_row_ct (acc : glwe) (i : Z) : glwe :=
    let a := g_rot (- (i * cb_gap logn dnum ld)) acc in
    if expo then g_post a else g_trace 0 a.
  Definition cbt_rows_ct (l : lwe) : list glwe := map (cbt_row_ct (blind_rotate l)) (zseq 0 (Z.to_nat dnum)).
  Definition cbt_ct (l : lwe) : ggsw := g_expand (cbt_rows_ct l).
End CbtCt.
