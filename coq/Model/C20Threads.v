(* C20 — thread count and scheduling never change results.  Executable model (no proofs here).

   (a) the partition of work items over threads, exactly as the two Rust call sites compute it
         poulpy-bin-fhe/src/bdd_arithmetic/eval.rs                      execute_bdd_circuit_multi_thread
         poulpy-bin-fhe/src/bdd_arithmetic/ciphertexts/fhe_uint_prepared.rs   fhe_uint_prepare_custom_multi_thread
       chunk_size = items.div_ceil(threads); slice.chunks_mut(chunk_size) zipped with the `threads` scratch
       windows, enumerated; index formulas  thread_idx*chunk_size+idx  /  bit_start+thread_index*chunk_size+local_bit;
       zero fill of the outputs outside the active range after the join;
   (b) a small-step interleaving semantics: thread t owns a list of work items, an item (slot, idx) computes a
       pure function of idx (the shared inputs are read-only, hence part of the function) using the thread's
       private scratch, and writes output slot `slot`; a schedule is a list of thread numbers;
   (c) the scratch arena: take_slice_aligned / available / split_at_mut / split_mut of
       poulpy-cpu-ref/src/hal_defaults/scratch.rs and poulpy-hal/src/api/scratch.rs (byte addresses in Z).
   Indices, counts and thread numbers are `nat`; byte addresses and record data are `Z`. *)
From PV Require Import Base.MachineInt.
From Coq Require Import Arith PeanoNat.

(* ------------------------------------------------------------------------------------------------ *)
(** * (a) chunking                                                                                   *)
Section Partition.
Local Open Scope nat_scope.

(* usize::div_ceil (core): d = a / b; r = a % b; if r > 0 { d + 1 } else { d }.   b = 0 panics (guarded by callers). *)
Definition div_ceil (a b : nat) : nat := a / b + (if a mod b =? 0 then 0 else 1).

(* core::slice::ChunksMut::next: sz = min(len, chunk_size); split_at_mut(sz); stop on the empty slice. *)
Fixpoint chunks_aux {A : Type} (fuel c : nat) (l : list A) : list (list A) :=
  match fuel with
  | O => []
  | S f => match l with
           | [] => []
           | _ => firstn c l :: chunks_aux f c (skipn c l)
           end
  end.
(* chunk_size = 0 panics in Rust ("chunk size must be non-zero"); callers test it before using this *)
Definition chunks_mut {A : Type} (c : nat) (l : list A) : list (list A) := chunks_aux (length l) c l.

(* Iterator::enumerate *)
Definition enumerate {A : Type} (l : list A) : list (nat * A) := combine (seq 0 (length l)) l.
(* scratches.iter_mut().zip(chunks).enumerate(): `threads` scratch windows, the zip stops at the shorter side *)
Definition zip_enum {A : Type} (threads : nat) (cs : list A) : list (nat * A) := enumerate (firstn threads cs).

(* a work item: (output slot written, index handed to the per-item computation) *)
Definition item : Type := nat * nat.

(* eval.rs:
     let chunk_size = circuit.output_size().div_ceil(threads);
     for (thread_idx, (scratch_thread, out_chunk)) in scratches.iter_mut().zip(out[..output_size].chunks_mut(chunk_size)).enumerate()
       for (idx, out_i) in out_chunk.iter_mut().enumerate()  { circuit.get_circuit(thread_idx * chunk_size + idx) ... }
   None = the Rust code panics (threads = 0: division by zero; output_size = 0: chunks_mut(0)). *)
Definition eval_work (threads output_size : nat) : option (list (list item)) :=
  if threads =? 0 then None
  else let c := div_ceil output_size threads in
       if c =? 0 then None
       else Some (map (fun p => map (fun q => (snd q, fst p * c + fst q)) (enumerate (snd p)))
                      (zip_enum threads (chunks_mut c (seq 0 output_size)))).

(* fhe_uint_prepared.rs:
     let bit_end = bit_start + bit_count;  assert!(bit_end <= T::BITS);
     let chunk_size = bit_count.div_ceil(threads);
     for (thread_index, (scratch_thread, res_bits_chunk)) in scratches.iter_mut().zip(res.bits[bit_start..bit_end].chunks_mut(chunk_size)).enumerate()
       let start = bit_start + thread_index * chunk_size;
       for (local_bit, dst) in res_bits_chunk.iter_mut().enumerate() { bits.get_bit_lwe(.., start + local_bit, ..) ... }
   the slot of `dst` is its position in res.bits, i.e. an element of seq bit_start bit_count. *)
Definition prepare_work (threads bits bit_start bit_count : nat) : option (list (list item)) :=
  if bits <? bit_start + bit_count then None
  else if threads =? 0 then None
  else let c := div_ceil bit_count threads in
       if c =? 0 then None
       else Some (map (fun p => let start := bit_start + fst p * c in
                                map (fun q => (snd q, start + fst q)) (enumerate (snd p)))
                      (zip_enum threads (chunks_mut c (seq bit_start bit_count)))).

(* the partition of the items alone: per thread, the list of output slots it owns *)
Definition chunks (items threads : nat) : option (list (list nat)) :=
  option_map (map (map fst)) (eval_work threads items).
Definition chunks_prepare (threads bits bit_start bit_count : nat) : option (list (list nat)) :=
  option_map (map (map fst)) (prepare_work threads bits bit_start bit_count).

End Partition.

(* ------------------------------------------------------------------------------------------------ *)
(** * (b) small-step interleaving semantics                                                          *)
Section Sem.
Local Open Scope nat_scope.
Variables V Sc : Type.
(* the per-item computation: index, contents of the thread's own scratch -> result, scratch afterwards.
   Shared inputs (module, keys, input ciphertexts, circuit) are read-only, hence baked into g. *)
Variable g : nat -> Sc -> V * Sc.

Definition upd {X : Type} (m : nat -> X) (k : nat) (x : X) : nat -> X :=
  fun j => if j =? k then x else m j.

Fixpoint set_nth {X : Type} (k : nat) (x : X) (l : list X) : list X :=
  match l, k with
  | [], _ => []
  | _ :: r, O => x :: r
  | y :: r, S k' => y :: set_nth k' x r
  end.

Record state : Type := mkState {
  outs : nat -> V;               (* the output slots (out[..] / res.bits[..]) *)
  scr : nat -> Sc;               (* contents of scratch window t: private to thread t *)
  pend : list (list item);       (* what each thread still has to do, in program order *)
  trace : list (nat * item)      (* ghost: who executed what, in global order *)
}.

Definition init_state (w : list (list item)) (init : nat -> V) (scr0 : nat -> Sc) : state :=
  mkState init scr0 w [].

(* thread t executes its next item; None = t is not a live thread with work left (not schedulable) *)
Definition step (t : nat) (st : state) : option state :=
  match nth_error (pend st) t with
  | Some (it :: rest) =>
      let r := g (snd it) (scr st t) in
      Some (mkState (upd (outs st) (fst it) (fst r)) (upd (scr st) t (snd r))
                    (set_nth t rest (pend st)) (trace st ++ [(t, it)]))
  | _ => None
  end.

(* a schedule is any list of thread numbers; it is an execution iff every step is enabled *)
Fixpoint exec (sched : list nat) (st : state) : option state :=
  match sched with
  | [] => Some st
  | t :: r => match step t st with Some st' => exec r st' | None => None end
  end.

(* thread::scope joins every thread: the run is over when nothing is pending *)
Definition finished (st : state) : bool :=
  forallb (fun l => match l with [] => true | _ => false end) (pend st).

(* one complete run under a given schedule (None: Rust panic, or `sched` is not a complete execution) *)
Definition run_mt (w : option (list (list item))) (init : nat -> V) (scr0 : nat -> Sc) (sched : list nat)
  : option state :=
  match w with
  | None => None
  | Some w => match exec sched (init_state w init scr0) with
              | Some st => if finished st then Some st else None
              | None => None
              end
  end.

Definition zero_range (zero : V) (from len : nat) (m : nat -> V) : nat -> V :=
  fold_left (fun m j => upd m j zero) (seq from len) m.

(* execute_bdd_circuit_multi_thread on out[0..out_len]; after the join:
   for out_i in out.iter_mut().skip(output_size) { zero }.   out[..output_size] panics if out_len < output_size *)
Definition eval_mt (zero : V) (threads out_len output_size : nat) (init : nat -> V) (scr0 : nat -> Sc)
           (sched : list nat) : option (nat -> V) :=
  if out_len <? output_size then None
  else match run_mt (eval_work threads output_size) init scr0 sched with
       | Some st => Some (zero_range zero output_size (out_len - output_size) (outs st))
       | None => None
       end.

(* fhe_uint_prepare_custom_multi_thread on res.bits[0..bits]; after the join:
   for i in 0..bit_start { zero }  for i in bit_end..BITS { zero } *)
Definition prepare_mt (zero : V) (threads bits bit_start bit_count : nat) (init : nat -> V) (scr0 : nat -> Sc)
           (sched : list nat) : option (nat -> V) :=
  match run_mt (prepare_work threads bits bit_start bit_count) init scr0 sched with
  | Some st => Some (zero_range zero (bit_start + bit_count) (bits - (bit_start + bit_count))
                       (zero_range zero 0 bit_start (outs st)))
  | None => None
  end.

(* a complete schedule that always exists: run the first thread that still has work *)
Fixpoint first_nonempty (p : list (list item)) : option nat :=
  match p with
  | [] => None
  | [] :: r => option_map S (first_nonempty r)
  | (_ :: _) :: _ => Some 0
  end.
Fixpoint auto_sched (fuel : nat) (st : state) : list nat :=
  match fuel with
  | O => []
  | S f => match first_nonempty (pend st) with
           | None => []
           | Some t => match step t st with
                       | Some st' => t :: auto_sched f st'
                       | None => []
                       end
           end
  end.
(* another one, adversarial w.r.t. program order between threads: always the LAST thread that has work *)
Fixpoint last_nonempty (p : list (list item)) : option nat :=
  match p with
  | [] => None
  | l :: r => match last_nonempty r with
              | Some t => Some (S t)
              | None => match l with [] => None | _ => Some 0 end
              end
  end.
Fixpoint rev_sched (fuel : nat) (st : state) : list nat :=
  match fuel with
  | O => []
  | S f => match last_nonempty (pend st) with
           | None => []
           | Some t => match step t st with
                       | Some st' => t :: rev_sched f st'
                       | None => []
                       end
           end
  end.
Definition total (p : list (list item)) : nat := length (concat p).

End Sem.

(* ------------------------------------------------------------------------------------------------ *)
(** * (c) the scratch arena                                                                          *)
Section Scratch.
Local Open Scope Z_scope.

Definition DEFAULTALIGN : Z := 64.
(* ptr.align_offset(64) for a byte pointer *)
Definition align_offset (addr : Z) : Z := (- addr) mod DEFAULTALIGN.
(* scratch_available_default: self_len.saturating_sub(aligned_offset) *)
Definition available (addr len : Z) : Z := Z.max 0 (len - align_offset addr).

(* take_slice_aligned(data, take_len): (taken window, remainder) as (address, length); None = panic *)
Definition take_slice_aligned (addr len take : Z) : option ((Z * Z) * (Z * Z)) :=
  let off := align_offset addr in
  let aligned_len := Z.max 0 (len - off) in
  if take <=? aligned_len
  then Some ((addr + off, take), (addr + off + take, aligned_len - take))
  else None.

(* the loop of Scratch::split_mut: n times split_at_mut(len) *)
Fixpoint split_loop (n : nat) (addr len take : Z) : option (list (Z * Z) * (Z * Z)) :=
  match n with
  | O => Some ([], (addr, len))
  | S k =>
      match take_slice_aligned addr len take with
      | None => None
      | Some (w, (addr', len')) =>
          match split_loop k addr' len' take with
          | None => None
          | Some (ws, r) => Some (w :: ws, r)
          end
      end
  end.

(* Scratch::split_mut(n, len): assert!(self.available() >= n * len) then the loop *)
Definition split_mut (addr len : Z) (n : nat) (take : Z) : option (list (Z * Z) * (Z * Z)) :=
  if Z.of_nat n * take <=? available addr len then split_loop n addr len take else None.

Definition round64 (x : Z) : Z := DEFAULTALIGN * ((x + 63) / DEFAULTALIGN).

End Scratch.

(* ------------------------------------------------------------------------------------------------ *)
(** * (d) forced schedules: the turn-based scheduler the harness installs through the yield hook      *)
(* Decision k is taken when every live worker is blocked at its next yield point: `live` = the workers that
   still have an item, ascending.  `n` = number of workers spawned, `last` = the worker chosen at decision k-1,
   `r` = the k-th number of the record's random stream.
     0 sequential by thread index      1 reverse (highest live index first)
     2 round robin, one item at a time, ascending        3 round robin descending
     4 last thread first, then ascending                 5 uniformly random
     6 zig-zag between the two extreme live threads      7 random bursts (stay on the same worker w.p. 3/4) *)
Section Policy.
Local Open Scope nat_scope.

Definition live_threads (rem : list nat) : list nat :=
  filter (fun t => 0 <? nth t rem 0) (seq 0 (length rem)).
Definition dec_nth (t : nat) (rem : list nat) : list nat := set_nth t (pred (nth t rem 0)) rem.

Definition pick (policy : Z) (n : nat) (live : list nat) (last : option nat) (k : nat) (r : Z) : nat :=
  let lo := hd 0 live in
  let hi := List.last live 0 in
  let rnd := fun q : Z => nth (Z.to_nat (q mod Z.of_nat (length live))) live lo in
  match policy with
  | 0%Z => lo
  | 1%Z => hi
  | 2%Z => match last with
           | None => lo
           | Some x => match find (fun t => x <? t) live with Some t => t | None => lo end
           end
  | 3%Z => match last with
           | None => hi
           | Some x => match find (fun t => t <? x) (rev live) with Some t => t | None => hi end
           end
  | 4%Z => if existsb (Nat.eqb (n - 1)) live then n - 1 else lo
  | 5%Z => rnd r
  | 6%Z => if Nat.even k then hi else lo
  | 7%Z => match last with
           | Some x => if existsb (Nat.eqb x) live && negb (r mod 4 =? 0)%Z then x else rnd (r / 4)%Z
           | None => rnd (r / 4)%Z
           end
  | _ => lo
  end.

Fixpoint policy_sched (fuel : nat) (policy : Z) (n : nat) (rem : list nat) (last : option nat) (k : nat)
         (rs : list Z) : list nat :=
  match fuel with
  | O => []
  | S f => match live_threads rem with
           | [] => []
           | live => let t := pick policy n live last k (hd 0%Z rs) in
                     t :: policy_sched f policy n (dec_nth t rem) (Some t) (S k) (tl rs)
           end
  end.

(* the schedule (list of thread numbers, as consumed by `exec`) that policy `policy` with random stream `rs`
   produces on the work lists `w` *)
Definition forced_sched (policy : Z) (rs : list Z) (w : list (list item)) : list nat :=
  policy_sched (total w) policy (length w) (map (@length item) w) None 0 rs.

End Policy.

(* ------------------------------------------------------------------------------------------------ *)
(** * correspondence entry points                                                                    *)
Section Run.
Local Open Scope Z_scope.

Definition p (ps : list Z) (i : nat) : Z := nth i ps 0.
Definition pn (ps : list Z) (i : nat) : nat := Z.to_nat (nth i ps 0).
Definition zs (l : list nat) : list Z := map Z.of_nat l.
Definition idg (i : nat) (s : unit) : Z * unit := (Z.of_nat i, s).
Definition tabulate (m : nat -> Z) (n : nat) : list Z := map m (seq 0 n).

(* what the harness observes of the partition: first index, length and all indices of every thread, in thread order *)
Definition observe (w : list (list item)) : list (list Z) :=
  [ zs (map (fun l => snd (hd (O, O) l)) w); zs (map (@length item) w); zs (map snd (concat w)) ].

(* run the small-step system under the "last live thread first" schedule *)
Definition run_rev (w : list (list item)) (gg : nat -> unit -> Z * unit) (init : nat -> Z) : option (state Z unit) :=
  let st0 := init_state Z unit w init (fun _ => tt) in
  run_mt Z unit gg (Some w) init (fun _ => tt) (rev_sched Z unit gg (total w) st0).

(* ---- records produced through the yield hook (harness feature c20hook) ----
   what the hook lets the harness observe: the (thread_idx, item) events.  Log-only kinds report them grouped by
   thread (threads ascending, each thread's items in the order it passed them); forced kinds report them in the
   global order in which the scheduler granted them. *)
Definition grouped (w : list (list item)) : list (list Z) :=
  [ zs (seq 0 (length w)); zs (map (@length item) w); zs (map snd (concat w)) ].
Definition granted (tr : list (nat * item)) : list (list Z) :=
  [ zs (map fst tr); zs (map (fun e => snd (snd e)) tr) ].
Definition status32 (o : nat -> Z) : list Z :=
  map (fun j => let x := o j in
                if x =? Z.of_nat j then 1 else if x =? -1 then 0 else if x =? -2 then -1 else 100 + x) (seq 0 32).
Definition nz (n : nat) : Z := Z.of_nat n.

Definition run_c20_hook (code : Z) (ps : list Z) (vs : list (list Z)) : option (list (list Z)) :=
  let rs := nth 0 vs [] in
  match code with
  | 20008 =>  (* [be, n, items, threads, extra, seed]: log only, state_size = 0: every slot zeroed *)
      let items := pn ps 2 in let threads := pn ps 3 in let extra := pn ps 4 in
      match eval_work threads items with
      | None => None
      | Some w => Some (grouped w ++ [repeat 0 (items + extra); [nz (length w); nz (length w); 1]])
      end
  | 20009 =>  (* [be, threads, start, count, vseed]: log only, real preparation *)
      let threads := pn ps 1 in let start := pn ps 2 in let count := pn ps 3 in
      match prepare_work threads 32 start count with
      | None => None
      | Some w =>
          let st0 := init_state Z unit w (fun _ => -2) (fun _ => tt) in
          match prepare_mt Z unit idg (-1) threads 32 start count (fun _ => -2) (fun _ => tt)
                           (auto_sched Z unit idg (total w) st0) with
          | None => None
          | Some o => Some (grouped w ++ [status32 o; [1; nz (length w); nz (length w); 1]])
          end
      end
  | 20010 =>  (* [be, n, items, threads, extra, seed, policy], vs[0] = random stream: forced schedule, one Cmux per item *)
      let items := pn ps 2 in let threads := pn ps 3 in let extra := pn ps 4 in
      match eval_work threads items with
      | None => None
      | Some w =>
          match run_mt Z unit idg (Some w) (fun _ => -2) (fun _ => tt) (forced_sched (p ps 6) rs w) with
          | None => None
          | Some st =>
              let o := zero_range Z (-1) items extra (outs Z unit st) in
              Some (granted (trace Z unit st) ++ [tabulate o (items + extra); [1; nz (length w); nz (length w); 1]])
          end
      end
  | 20011 =>  (* [be, threads, start, count, vseed, policy], vs[0] = random stream: forced schedule, real preparation *)
      let threads := pn ps 1 in let start := pn ps 2 in let count := pn ps 3 in
      match prepare_work threads 32 start count with
      | None => None
      | Some w =>
          match run_mt Z unit idg (Some w) (fun _ => -2) (fun _ => tt) (forced_sched (p ps 5) rs w) with
          | None => None
          | Some st =>
              let o := zero_range Z (-1) (start + count) (32 - (start + count))
                         (zero_range Z (-1) 0 start (outs Z unit st)) in
              Some (granted (trace Z unit st) ++ [status32 o; [1; nz (length w); nz (length w)]])
          end
      end
  | 20012 =>  (* [be, op, threads, aseed, bseed, policy, items], vs[0] = random stream: forced schedule, circuit wrappers *)
      let threads := pn ps 2 in let items := pn ps 6 in
      match eval_work threads items with
      | None => None
      | Some w =>
          match run_mt Z unit idg (Some w) (fun _ => -2) (fun _ => tt) (forced_sched (p ps 5) rs w) with
          | None => None
          | Some st => Some (granted (trace Z unit st) ++ [[1; 1; nz (length w); nz (length w)]])
          end
      end
  | _ => None
  end.

Definition run_c20 (code : Z) (ps : list Z) (vs : list (list Z)) : option (list (list Z)) :=
  match code with
  | 20001 =>  (* [be, n, items, threads, extra, seed]: state_size = 0, every slot is zeroed; garbage = 1 *)
      let items := pn ps 2 in let threads := pn ps 3 in let extra := pn ps 4 in
      match eval_work threads items with
      | None => None
      | Some w =>
          let gg := fun (i : nat) (s : unit) => (0, s) in
          let st0 := init_state Z unit w (fun _ => 1) (fun _ => tt) in
          match eval_mt Z unit gg 0 threads (items + extra) items (fun _ => 1) (fun _ => tt)
                        (rev_sched Z unit gg (total w) st0) with
          | None => None
          | Some o => Some (observe w ++ [tabulate o (items + extra)])
          end
      end
  | 20002 =>  (* same, item i writes the value i; garbage = -2, zero = -1 *)
      let items := pn ps 2 in let threads := pn ps 3 in let extra := pn ps 4 in
      match eval_work threads items with
      | None => None
      | Some w =>
          let st0 := init_state Z unit w (fun _ => -2) (fun _ => tt) in
          match eval_mt Z unit idg (-1) threads (items + extra) items (fun _ => -2) (fun _ => tt)
                        (auto_sched Z unit idg (total w) st0) with
          | None => None
          | Some o => Some (observe w ++ [tabulate o (items + extra); [1]])
          end
      end
  | 20003 =>  (* [be, threads, start, count, vseed]: 32 bits; status 1 = own reference, 0 = zero, 100+i = item i, -1 = other *)
      let threads := pn ps 1 in let start := pn ps 2 in let count := pn ps 3 in
      match prepare_work threads 32 start count with
      | None => None
      | Some w =>
          let st0 := init_state Z unit w (fun _ => -2) (fun _ => tt) in
          match prepare_mt Z unit idg (-1) threads 32 start count (fun _ => -2) (fun _ => tt)
                           (rev_sched Z unit idg (total w) st0) with
          | None => None
          | Some o =>
              Some [ map (fun j => let x := o j in
                                   if x =? Z.of_nat j then 1 else if x =? -1 then 0 else if x =? -2 then -1 else 100 + x)
                         (seq 0 32); [1] ]
          end
      end
  | 20004 => Some [[1; 1]]
  | 20005 => Some [repeat 1 (pn ps 1)]
  | 20006 =>  (* [be, off, arena_len, n, len] *)
      match split_mut (p ps 1) (p ps 2) (pn ps 3) (p ps 4) with
      | None => None
      | Some (ws, r) => Some [map fst ws; map snd ws; [fst r; snd r]; [available (p ps 1) (p ps 2)]]
      end
  | 20007 =>  (* [be, kind, threads, per_thread]: arena at a 64-aligned address, exactly threads*per_thread bytes
                 (kind 2: rounded up to 64 by the allocator); Some iff split_mut does not panic *)
      let total := Z.of_nat (pn ps 2) * p ps 3 in
      let len := if p ps 1 =? 2 then round64 total else total in
      match split_mut 0 len (pn ps 2) (p ps 3) with
      | None => None
      | Some _ => Some [[1]]
      end
  | 20013 =>  (* [be, mode, seed, w_1 .. w_k]: calls with per-call parameter codes w_i on ONE shared immutable module + key;
                 mode 0: one thread performs them in order, mode >= 1: one thread per call.  The key is data baked into g
                 (here: call parameters -> result), slot i receives the result of call i; flag = result is the solo result *)
      let ws := map Z.to_nat (skipn 3 ps) in
      let calls := combine (seq 0 (length ws)) ws in
      let w := if p ps 1 =? 0 then [calls] else map (fun c => [c]) calls in
      match run_rev w idg (fun _ => -2) with
      | None => None
      | Some st => Some [map (fun c => if outs Z unit st (fst c) =? Z.of_nat (snd c) then 1 else 0) calls; [1]]
      end
  | _ => run_c20_hook code ps vs
  end.

(* ---- direct oracles: the property statement on what the implementation did, no model definition used ---- *)
Definition ob (b : bool) : Z := if b then 1 else 0.
Definition v (vs : list (list Z)) (i : nat) : list Z := nth i vs [].
Fixpoint iota (from : Z) (n : nat) : list Z := match n with O => [] | S k => from :: iota (from + 1) k end.
Definition list_eqb (a b : list Z) : bool :=
  Nat.eqb (length a) (length b) && forallb (fun q => fst q =? snd q) (combine a b).
Fixpoint prefix_sums (acc : Z) (l : list Z) : list Z :=
  match l with [] => [] | x :: r => acc :: prefix_sums (acc + x) r end.
Definition sumz (l : list Z) : Z := fold_left Z.add l 0.

(* the threads' index lists partition base..base+items-1: contiguous, each exactly once, at most `threads` groups *)
Definition partition_ok (base items threads : Z) (starts lens all : list Z) : bool :=
  list_eqb all (iota base (Z.to_nat items))
  && (Z.of_nat (length starts) <=? threads)
  && Nat.eqb (length starts) (length lens)
  && forallb (fun l => 1 <=? l) lens
  && list_eqb starts (prefix_sums base lens)
  && (sumz lens =? items).

Fixpoint windows_ok (lo hi take : Z) (ws : list (Z * Z)) : bool :=
  match ws with
  | [] => true
  | (a, l) :: r => (lo <=? a) && (a mod 64 =? 0) && (l =? take) && (a + l <=? hi) && windows_ok (a + l) hi take r
  end.

(* ---- events reported through the yield hook ---- *)
(* log-only kinds: threads 0..k-1 each reported >= 1 item, k <= threads, and the per-thread lists, in thread order,
   enumerate base..base+items-1: no item skipped, none twice *)
Definition grouped_ok (base items threads : Z) (tids lens all : list Z) : bool :=
  list_eqb tids (iota 0 (length lens))
  && partition_ok base items threads (prefix_sums base lens) lens all.
(* forced kinds: the same statement on the global event sequence (thread of event i, item of event i) *)
Definition of_thread (t : Z) (ths its : list Z) : list Z :=
  map snd (filter (fun e => fst e =? t) (combine ths its)).
Definition events_ok (base items threads : Z) (ths its : list Z) : bool :=
  Nat.eqb (length ths) (length its)
  && Nat.eqb (length its) (Z.to_nat items)
  && forallb (fun t => (0 <=? t) && (t <? threads)) ths
  && list_eqb (concat (map (fun t => of_thread t ths its) (iota 0 (Z.to_nat (Z.min threads items))))) (iota base (Z.to_nat items)).
(* spawned = number of DONE announcements = number of threads that reported, all >= 1 *)
Definition counts_ok (nthreads : Z) (spawned done : Z) : bool :=
  (spawned =? nthreads) && (done =? nthreads) && (1 <=? nthreads).
Definition nthreads_of (ths : list Z) : Z := fold_left Z.max ths (-1) + 1.

Definition oracle_c20 (code : Z) (ps : list Z) (vs outs : list (list Z)) : Z :=
  match code with
  | 20008 =>
      let items := p ps 2 in let threads := p ps 3 in let extra := p ps 4 in
      if (items <? 1) || (threads <? 1) then 2 else
      ob (grouped_ok 0 items threads (v outs 0) (v outs 1) (v outs 2)
          && list_eqb (v outs 3) (repeat 0 (Z.to_nat (items + extra)))
          && counts_ok (Z.of_nat (length (v outs 1))) (nth 0 (v outs 4) 0) (nth 1 (v outs 4) 0)
          && (nth 2 (v outs 4) 0 =? 1))
  | 20009 =>
      let threads := p ps 1 in let start := p ps 2 in let count := p ps 3 in
      if (count <? 1) || (threads <? 1) || (32 <? start + count) then 2 else
      ob (grouped_ok start count threads (v outs 0) (v outs 1) (v outs 2)
          && list_eqb (v outs 3) (map (fun j => if (start <=? j) && (j <? start + count) then 1 else 0) (iota 0 32))
          && (nth 0 (v outs 4) 0 =? 1)
          && counts_ok (Z.of_nat (length (v outs 1))) (nth 1 (v outs 4) 0) (nth 2 (v outs 4) 0)
          && (nth 3 (v outs 4) 0 =? 1))
  | 20010 =>
      let items := p ps 2 in let threads := p ps 3 in let extra := p ps 4 in
      if (items <? 1) || (threads <? 1) then 2 else
      ob (events_ok 0 items threads (v outs 0) (v outs 1)
          && list_eqb (v outs 2) (iota 0 (Z.to_nat items) ++ repeat (-1) (Z.to_nat extra))
          && (nth 0 (v outs 3) 0 =? 1)
          && counts_ok (nthreads_of (v outs 0)) (nth 1 (v outs 3) 0) (nth 2 (v outs 3) 0)
          && (nth 3 (v outs 3) 0 =? 1))
  | 20011 =>
      let threads := p ps 1 in let start := p ps 2 in let count := p ps 3 in
      if (count <? 1) || (threads <? 1) || (32 <? start + count) then 2 else
      ob (events_ok start count threads (v outs 0) (v outs 1)
          && list_eqb (v outs 2) (map (fun j => if (start <=? j) && (j <? start + count) then 1 else 0) (iota 0 32))
          && (nth 0 (v outs 3) 0 =? 1)
          && counts_ok (nthreads_of (v outs 0)) (nth 1 (v outs 3) 0) (nth 2 (v outs 3) 0))
  | 20012 =>
      let threads := p ps 2 in let items := p ps 6 in
      if (items <? 1) || (threads <? 1) then 2 else
      ob (events_ok 0 items threads (v outs 0) (v outs 1)
          && (nth 0 (v outs 2) 0 =? 1) && (nth 1 (v outs 2) 0 =? 1)
          && counts_ok (nthreads_of (v outs 0)) (nth 2 (v outs 2) 0) (nth 3 (v outs 2) 0))
  | 20001 =>
      let items := p ps 2 in let threads := p ps 3 in let extra := p ps 4 in
      if (items <? 1) || (threads <? 1) then 2 else
      ob (partition_ok 0 items threads (v outs 0) (v outs 1) (v outs 2)
          && list_eqb (v outs 3) (repeat 0 (Z.to_nat (items + extra))))
  | 20002 =>
      let items := p ps 2 in let threads := p ps 3 in let extra := p ps 4 in
      if (items <? 1) || (threads <? 1) then 2 else
      ob (partition_ok 0 items threads (v outs 0) (v outs 1) (v outs 2)
          && list_eqb (v outs 3) (iota 0 (Z.to_nat items) ++ repeat (-1) (Z.to_nat extra))
          && list_eqb (v outs 4) [1])
  | 20003 =>
      let threads := p ps 1 in let start := p ps 2 in let count := p ps 3 in
      if (count <? 1) || (threads <? 1) || (32 <? start + count) then 2 else
      ob (list_eqb (v outs 0) (map (fun j => if (start <=? j) && (j <? start + count) then 1 else 0) (iota 0 32))
          && list_eqb (v outs 1) [1])
  | 20004 => ob (list_eqb (v outs 0) [1; 1])
  | 20005 => ob (list_eqb (v outs 0) (repeat 1 (Z.to_nat (p ps 1))) && (1 <=? p ps 1))
  | 20006 =>
      let off := p ps 1 in let alen := p ps 2 in let n := p ps 3 in let take := p ps 4 in
      if take <? 1 then 2 else
      let ws := combine (v outs 0) (v outs 1) in
      ob (Nat.eqb (length (v outs 0)) (Z.to_nat n) && Nat.eqb (length (v outs 1)) (Z.to_nat n)
          && windows_ok off (off + alen) take ws
          && match v outs 2 with
             | [ra; rl] => (sumz (map snd ws) <=? ra - off) && (0 <=? rl) && (ra + rl <=? off + alen)
                           && forallb (fun w => fst w + snd w <=? ra) ws
             | _ => false
             end)
  | 20007 => ob (list_eqb (v outs 0) [1])
  | 20013 => ob (list_eqb (v outs 0) (repeat 1 (length ps - 3)) && list_eqb (v outs 1) [1] && Nat.ltb 3 (length ps))
  | _ => 2
  end.

End Run.
