(* L4 spec (shared by C03 and C04): the FUNCTIONAL form of the gadget product of Model/Gadget.v and the spec-level
   notions the phase theorems are stated with.  Definitions only (the proofs are in Proofs/Gadget*.v, C03Phase.v, C04Phase.v).

   Conventions.  A polynomial is a coefficient list of length n.  A family of limbs is a function  nat -> list Z
   (limb index -> polynomial); a family of columns is  nat -> nat -> list Z  (column, limb).  `acol n a` turns the
   model's column lists into such a family, reading the limbs that do not exist as the zero polynomial. *)
From PV Require Import Base.MachineInt Model.Znx Model.Limbs Model.Flat Model.Ring Model.Poly Model.DftAbs Model.Gadget.
Open Scope Z_scope.

(* sum_{i<m} f i  in Z[X]/(X^n+1) *)
Definition psumf (n : nat) (f : nat -> list Z) (m : nat) : list Z :=
  fold_left (fun acc i => padd acc (f i)) (seq 0 m) (pzero n).

(* value on the torus, times 2^P, of the first `size` limbs of a family : sum_j 2^(P-(j+1)b) f_j *)
Definition pval (P b : Z) (n : nat) (f : nat -> list Z) (size : nat) : list Z :=
  psumf n (fun j => pscale (2 ^ (P - (Z.of_nat j + 1) * b)) (f j)) size.

(* limb j of a limb list, missing limbs read as zero; column ci, limb l of a column list *)
Definition limz (n : nat) (a : plimbs) (j : nat) : list Z := if Nat.ltb j (length a) then lim a j else pzero n.
Definition acol (n : nat) (a : cols_t) (ci l : nat) : list Z := limz n (col a ci) l.

(* phase under the secret family Sk (Sk 0 = 1 for a GLWE phase; the algebra never uses it):
   sum_{co<cols} val(column co) (x) Sk co *)
Definition phase_f (P b : Z) (n cols size : nat) (R : nat -> nat -> list Z) (Sk : nat -> list Z) : list Z :=
  psumf n (fun co => pmul (pval P b n (R co) size) (Sk co)) cols.

(* sizes of iteration di of the digit-grouped branch, as in Gadget.gp_step *)
Definition sz_a (a_size dsize dnum di : nat) (clamp : bool) : nat :=
  let c := ((a_size + di) / dsize)%nat in if clamp then Nat.min c dnum else c.
Definition sz_r (msize dsize di : nat) : nat := (msize - (dsize - di - 2))%nat.
(* vmp uses row_max = min(cin*dnum, cin*sz_a) = cin * rows_used flat rows *)
Definition rows_used (a_size dsize dnum di : nat) (clamp : bool) : nat := Nat.min (sz_a a_size dsize dnum di clamp) dnum.
(* number of result limbs j that iteration di writes: j < sz_r and j + di < msize *)
Definition win_len (msize dsize di : nat) : nat := Nat.min (sz_r msize dsize di) (msize - di).

Section Spec.
Variables (n cin cols_out msize a_size dsize dnum : nat) (clamp : bool).
Variable A : nat -> nat -> list Z.      (* input: column ci, limb l *)
Variable K : pmat.                      (* key / GGSW: K (row*cin+ci) (limb*cols_out+co) *)

(* what iteration di adds to limb j of output column co *)
Definition gp_rows (co j di : nat) : list Z :=
  psumf n (fun row => psumf n (fun ci =>
     pmul (A ci (row * dsize + (dsize - di - 1))%nat) (K (row * cin + ci)%nat ((j + di) * cols_out + co)%nat)) cin)
    (rows_used a_size dsize dnum di clamp).
Definition gp_term (co j di : nat) : list Z :=
  if Nat.ltb j (sz_r msize dsize di) && Nat.ltb (j + di) msize then gp_rows co j di else pzero n.
(* limb j of column co of the gadget product (started from a zero accumulator) *)
Definition gp_spec (co j : nat) : list Z := psumf n (gp_term co j) dsize.

(* dsize = 1 : one vmp over the flat rows q = row*cin+ci, q < min(cin*dnum, cin*a_size) *)
Definition gp_flat (R co j : nat) : list Z :=
  if Nat.ltb j (Nat.min R msize)
  then psumf n (fun q => pmul (A (q mod cin) (q / cin)) (K q (j * cols_out + co)%nat)) (Nat.min (cin * dnum) (cin * a_size))
  else pzero n.
End Spec.

Section PhaseSpec.
Variables (P b : Z) (n cin cols_out msize a_size dsize dnum : nat).
Variable A : nat -> nat -> list Z.
Variable K : pmat.
Variable Sk : nat -> list Z.            (* target secret family, Sk 0 = 1 *)

(* the limbs [lo, lo+len) of key cell q, valued at their own position, under S *)
Definition kwin (q lo len : nat) : list Z :=
  psumf n (fun co => pmul (psumf n (fun i => pscale (2 ^ (P - (Z.of_nat (lo + i) + 1) * b)) (K q ((lo + i) * cols_out + co)%nat)) len)
                          (Sk co)) cols_out.
(* phase of key cell q = (row, ci) : all msize limbs *)
Definition kphase (q : nat) : list Z := kwin q 0 msize.
(* the part of cell q that iteration di of the product sees: limbs [di, di + win_len di) *)
Definition ktrunc (q di : nat) : list Z := kwin q di (win_len msize dsize di).
(* the limbs the product of digit di drops at the end (only when dsize >= 3) *)
Definition khigh (q di : nat) : list Z :=
  kwin q (di + win_len msize dsize di) (msize - (di + win_len msize dsize di)).
(* the limbs j' < min(di, msize), re-scaled: 2^(di b) 2^(P-(j'+1) b) = 2^P 2^((di-j'-1) b) : an integer multiple of 2^P *)
Definition klow_int (q di : nat) : list Z :=
  psumf n (fun co => pmul (psumf n (fun j' => pscale (2 ^ (Z.of_nat (di - j' - 1) * b)) (K q (j' * cols_out + co)%nat)) (Nat.min di msize))
                          (Sk co)) cols_out.

(* the digit group of row `row` of input column ci, as one polynomial with coefficients < D * sum_t 2^(t b):
   sum_{t<dsize} 2^((dsize-1-t) b) A ci (row*dsize+t) *)
Definition digit (ci row : nat) : list Z :=
  psumf n (fun t => pscale (2 ^ (Z.of_nat (dsize - 1 - t) * b)) (A ci (row * dsize + t)%nat)) dsize.

(* value of the limbs of column ci that meet a key row: l < min(a_size, dnum*dsize) *)
Definition pval_used (ci : nat) : list Z := pval P b n (A ci) (Nat.min a_size (dnum * dsize)).

(* gadget noise: sum_{row<dnum, ci<cin} digit (x) e *)
Definition gadget_noise (e : nat -> nat -> list Z) : list Z :=
  psumf n (fun row => psumf n (fun ci => pmul (digit ci row) (e row ci)) cin) dnum.
(* truncation: what the dropped key limbs would have contributed *)
Definition gadget_trunc : list Z :=
  psumf n (fun di => psumf n (fun row => psumf n (fun ci =>
     pmul (A ci (row * dsize + (dsize - di - 1))%nat) (pscale (2 ^ (Z.of_nat di * b)) (khigh (row * cin + ci)%nat di))) cin) dnum) dsize.
(* the integer (multiple of 2^P) part: from the integer parts I of the key rows, minus the key limbs j' < di *)
Definition gadget_int_rows (I : nat -> nat -> list Z) : list Z :=
  psumf n (fun di => psumf n (fun row => psumf n (fun ci =>
     pmul (A ci (row * dsize + (dsize - di - 1))%nat) (pscale (2 ^ (Z.of_nat di * b)) (I row ci))) cin) dnum) dsize.
Definition gadget_int_low : list Z :=
  psumf n (fun di => psumf n (fun row => psumf n (fun ci =>
     pmul (A ci (row * dsize + (dsize - di - 1))%nat) (klow_int (row * cin + ci)%nat di)) cin) dnum) dsize.
Definition gadget_int (I : nat -> nat -> list Z) : list Z := psub (gadget_int_rows I) gadget_int_low.
(* the explicit error of the gadget product *)
Definition gadget_err (e : nat -> nat -> list Z) : list Z := psub (gadget_noise e) gadget_trunc.
End PhaseSpec.

(* key-row hypothesis shared by C03 / C04: cell (row, ci) has phase  2^(P-(row+1) dsize b) src_ci + e_{row,ci} + 2^P I_{row,ci} *)
Definition key_rows_ok (P b : Z) (n cin cols_out msize dsize dnum : nat) (K : pmat) (Sk : nat -> list Z)
           (src : nat -> list Z) (e I : nat -> nat -> list Z) : Prop :=
  forall row ci, (row < dnum)%nat -> (ci < cin)%nat ->
    kphase P b n cols_out msize K Sk (row * cin + ci)%nat
    = padd (padd (pscale (2 ^ (P - (Z.of_nat row + 1) * Z.of_nat dsize * b)) (src ci)) (e row ci)) (pscale (2 ^ P) (I row ci)).

(* ---- well-formedness of model-level inputs ---- *)
(* ncols columns, each of exactly `size` limbs, every limb a polynomial of length n *)
Definition wf_cols (n ncols size : nat) (c : cols_t) : Prop :=
  length c = ncols /\
  forall ci, (ci < ncols)%nat -> length (col c ci) = size /\ forall l, (l < size)%nat -> length (lim (col c ci) l) = n.
(* the key matrix only has to be well formed where it is read: q < rows = dnum*cin, c < cols = msize*cols_out
   (Gadget.pmat_of_flat returns [] outside the dumped range); pmat_z = its zero extension *)
Definition wf_pmat_in (n rows cols : nat) (m : pmat) : Prop := forall q c, (q < rows)%nat -> (c < cols)%nat -> length (m q c) = n.
Definition pmat_z (n rows cols : nat) (m : pmat) : pmat :=
  fun q c => if Nat.ltb q rows && Nat.ltb c cols then m q c else pzero n.
(* limb family of a column list *)
Definition limbs_of (c : cols_t) (co j : nat) : list Z := lim (col c co) j.

(* secret family of a GLWE secret sk = [s_0; ...; s_{rank-1}] : 1, s_0, s_1, ... *)
Definition pone_n (n : nat) : list Z := 1 :: zeros (n - 1).
Definition sk_ext (n : nat) (sk : list (list Z)) (co : nat) : list Z :=
  match co with O => pone_n n | S i => nth i sk (pzero n) end.

(* shape of the prior accumulator content that Gadget.acc_start needs in the external-product mode (clamp = false):
   cols_out columns of exactly msize limbs (the limbs themselves are arbitrary: they are zeroed); nothing in key-switch mode *)
Definition acc_shape (cols_out msize : nat) (clamp : bool) (res0 : cols_t) : Prop :=
  clamp = true \/ (length res0 = cols_out /\ forall co, (co < cols_out)%nat -> length (col res0 co) = msize).
