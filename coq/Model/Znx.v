(* L1: the slice kernels of poulpy-cpu-ref/src/reference/znx/*.rs, per coefficient,
   parametric in the word width w (64 for i64, 128 for i128).  Every Rust `+`, `-`, `<<`
   is the wrapping one (release semantics); debug-mode overflow panics are a separate
   headroom statement. *)
From PV Require Export Base.MachineInt.
Open Scope Z_scope.

Section Width.
Variable w : Z.

(* normalization.rs: get_digit_i64 / get_digit_i128 *)
Definition get_digit (b x : Z) : Z := asr (shl w x (w - b)) (w - b).
(* normalization.rs: get_carry_i64 / get_carry_i128 *)
Definition get_carry (b x d : Z) : Z := asr (wsub w x d) b.

(* state of one coefficient through a step: (x_out, carry_out) *)

(* znx_normalize_first_step_carry_only_ref *)
Definition first_step_carry_only (b lsh x : Z) : Z :=
  if lsh =? 0 then get_carry b x (get_digit b x)
  else get_carry (b - lsh) x (get_digit (b - lsh) x).

(* znx_normalize_first_step_assign_ref : x -> (x', c') *)
Definition first_step_assign (b lsh x : Z) : Z * Z :=
  if lsh =? 0 then let d := get_digit b x in (d, get_carry b x d)
  else let d := get_digit (b - lsh) x in (shl w d lsh, get_carry (b - lsh) x d).

(* znx_normalize_first_step_ref<OVERWRITE> : (x, a) -> (x', c') *)
Definition first_step (ov : bool) (b lsh x a : Z) : Z * Z :=
  if lsh =? 0 then
    let d := get_digit b a in
    ((if ov then d else wadd w x d), get_carry b a d)
  else
    let d := get_digit (b - lsh) a in
    ((if ov then shl w d lsh else wadd w x (shl w d lsh)), get_carry (b - lsh) a d).

(* common part of every middle step: input a, carry c -> (x1, c') *)
Definition middle_core (b lsh a c : Z) : Z * Z :=
  let bl := if lsh =? 0 then b else b - lsh in
  let d := get_digit bl a in
  let cr := get_carry bl a d in
  let dpc := wadd w (if lsh =? 0 then d else shl w d lsh) c in
  let x1 := get_digit b dpc in
  (x1, wadd w cr (get_carry b dpc x1)).

(* znx_normalize_middle_step_carry_only_ref *)
Definition middle_step_carry_only (b lsh x c : Z) : Z := snd (middle_core b lsh x c).
(* znx_normalize_middle_step_assign_ref *)
Definition middle_step_assign (b lsh x c : Z) : Z * Z := middle_core b lsh x c.
(* znx_normalize_middle_step_ref<OVERWRITE> *)
Definition middle_step (ov : bool) (b lsh x a c : Z) : Z * Z :=
  let '(x1, c') := middle_core b lsh a c in ((if ov then x1 else wadd w x x1), c').
(* znx_normalize_middle_step_sub_ref *)
Definition middle_step_sub (b lsh x a c : Z) : Z * Z :=
  let '(x1, c') := middle_core b lsh a c in (wsub w x x1, c').

(* common part of every final step *)
Definition final_core (b lsh a c : Z) : Z :=
  if lsh =? 0 then get_digit b (wadd w (get_digit b a) c)
  else get_digit b (wadd w (shl w (get_digit (b - lsh) a) lsh) c).

(* znx_normalize_final_step_assign_ref *)
Definition final_step_assign (b lsh x c : Z) : Z := final_core b lsh x c.
(* znx_normalize_final_step_ref<OVERWRITE> *)
Definition final_step (ov : bool) (b lsh x a c : Z) : Z :=
  if ov then final_core b lsh a c else wadd w x (final_core b lsh a c).
(* znx_normalize_final_step_sub_ref *)
Definition final_step_sub (b lsh x a c : Z) : Z := wsub w x (final_core b lsh a c).

(* znx_extract_digit_addmul_ref : (r, s) -> (r', s') *)
Definition extract_digit_addmul (b lsh r s : Z) : Z * Z :=
  let d := get_digit b s in (wadd w r (shl w d lsh), get_carry b s d).

(* znx_normalize_digit_ref : (r, s) -> (r', s') *)
Definition normalize_digit (b r s : Z) : Z * Z :=
  let d := get_digit b r in (d, wadd w s (get_carry b r d)).

(* mul.rs: znx_mul_power_of_two_ref (k any sign) *)
Definition mul_power_of_two (k x : Z) : Z :=
  if k =? 0 then x
  else if 0 <? k then shl w x k
  else let k' := - k in
       let sign_bit := Z.land (asr x (w - 1)) 1 in
       let bias := wsub w (shl w 1 (k' - 1)) sign_bit in
       asr (wadd w x bias) k'.

Definition mul_add_power_of_two (k y x : Z) : Z := wadd w y (mul_power_of_two k x).

End Width.

(* vector forms: the kernels are maps over zipped slices (zip truncates to the shorter, as izip!) *)
Definition map2 {A B C} (f : A -> B -> C) (l1 : list A) (l2 : list B) : list C :=
  map (fun p => f (fst p) (snd p)) (combine l1 l2).
Definition map3 {A B C D} (f : A -> B -> C -> D) (l1 : list A) (l2 : list B) (l3 : list C) : list D :=
  map (fun p => f (fst (fst p)) (snd (fst p)) (snd p)) (combine (combine l1 l2) l3).
