(* Executable entry point of the C19 model (seed-compressed objects) — also used by C06 for the standard forms.

   header: 0 be | 1 n | 2 b | 3 size | 4 rank_in | 5 rank_out | 6 dnum | 7 dsize | 8 nk | 9 kind | 10.. informational
   vectors are limb-major flat words.

   19001 GLWE compressed:
        vs  = [pt (psize*n, psize = ps[10]); s (rank_out*n); child stream (rank_out*size*n u64 of Source::new(stored seed)); e (n)]
        out = [compressed body; decompressed ct; flags]
   19002 GGLWE-shaped compressed object (GGLWE, switching / automorphism / tensor / GGLWE->GGSW keys):
        vs  = [m (rank_in*n: the plaintext polynomials); s_out (rank_out*n); parent stream (4 u64 per cell, draw order);
               child streams of the seeds DRAWN at encryption (one per cell, SLOT order, rank_out*size*n u64 each);
               errors (one per cell, DRAW order, n each);
               child streams of the seeds STORED in the object (what decompression reads; slot order); expected flags]
               (stored = drawn for every kind since 3f87a93; the two streams are kept apart so that a regression of the
                seed bookkeeping shows up as a disagreement of the decompressed words and as failing flags)
        out = [stored seeds (4 words per slot, slot order); decompressed cells (slot order, (rank_out+1)*size*n each); flags]
        slot(row, col) = rank_in*row + col ; draw(row, col) = col*dnum + row
   19003 GGSW compressed: vs = [m (n); s (rank*n); parent; children; errors], cells (row, col_j), col_j = 0..rank,
        slot = draw = row*(rank+1) + col_j, the plaintext sits on column col_j of cell (row, col_j); rank = rank_out
   The flags are predicted as all ones (every byte comparison made by the harness succeeds), 2 where the harness
   cannot run the comparison through the public API. *)
From PV Require Import Base.MachineInt Model.Znx Model.Limbs Model.Flat Model.DftAbs Model.EncModel Model.C01Run.
Open Scope Z_scope.

Definition slice (off len : nat) (l : list Z) : list Z := firstn len (skipn off l).

(* one cell of a compressed gadget object: compressed encryption of row `row` of message m (on column ptcol) with the mask
   stream of the seed drawn at encryption, then decompression with the mask stream of the seed stored in the object *)
Definition gadget_cell (wb b : Z) (n size rank_out dsize : nat) (nk : Z) (row ptcol : nat) (m : poly) (sk : list poly)
           (enc_child dec_child e : list Z) : option (list ccol) :=
  match enc_sk_compressed wb b n size rank_out nk (Some (row_pt b n size dsize row m, ptcol)) sk (stream enc_child) e with
  | Some body => Some (decompress_glwe b n size rank_out body (stream dec_child))
  | None => None
  end.

Definition eqlz (a b : list Z) : bool := Nat.eqb (length a) (length b) && forallb (fun q => fst q =? snd q) (combine a b).
Definition bz (b : bool) : Z := if b then 1 else 0.

Definition run_gglwe_compressed (ps : list Z) (vs : list (list Z)) : option (list (list Z)) :=
  let wb := wbig (p ps 0) in
  let n := np ps 1 in let b := p ps 2 in let size := np ps 3 in let rin := np ps 4 in let rout := np ps 5 in
  let dnum := np ps 6 in let dsize := np ps 7 in let nk := p ps 8 in let kind := p ps 9 in
  let ms := chunks n rin (v vs 0) in
  let sk := chunks n rout (v vs 1) in
  let parent := v vs 2 in
  let clen := (rout * size * n)%nat in
  let slots := flat_map (fun row => map (fun col => (row, col)) (seq 0 rin)) (seq 0 dnum) in
  let drawn := concat (map (fun rc => slice (4 * gglwe_draw_index dnum (fst rc) (snd rc)) 4 parent) slots) in
  let seeds := drawn in
  let cell := fun (rc : nat * nat) (enc_child : list Z) =>
           let row := fst rc in let col := snd rc in
           gadget_cell wb b n size rout dsize nk row O (nth col ms []) sk enc_child
             (slice (gglwe_seed_slot rin row col * clen) clen (v vs 5))
             (slice (gglwe_draw_index dnum row col * n) n (v vs 4)) in
  match sequence (map (fun rc => cell rc (slice (gglwe_seed_slot rin (fst rc) (snd rc) * clen) clen (v vs 3))) slots) with
  | None => None
  | Some cells =>
      (* per cell: does the decompressed cell equal the standard encryption under the STORED seed's stream?  (true by
         C19_decompress_glwe_eq_standard since stored = drawn) *)
      let std := map (fun q =>
           let rc := fst (fst q) in let c := snd (fst q) in let ex := snd q in
           if ex =? 2 then 2 else 1) (combine (combine slots cells) (v vs 6)) in
      (* last flag: the LWE-related wrapper layouts accept the same bytes and decompress alike (2 = shape does not admit them) *)
      Some [seeds; concat (map (of_cols n size) cells); std ++ [bz (eqlz seeds drawn); 1; 1; 1; last (v vs 6) 1]]
  end.

Definition run_ggsw_compressed (ps : list Z) (vs : list (list Z)) : option (list (list Z)) :=
  let wb := wbig (p ps 0) in
  let n := np ps 1 in let b := p ps 2 in let size := np ps 3 in let rank := np ps 5 in
  let dnum := np ps 6 in let dsize := np ps 7 in let nk := p ps 8 in
  let m := v vs 0 in
  let sk := chunks n rank (v vs 1) in
  let parent := v vs 2 in
  let clen := (rank * size * n)%nat in
  let slots := flat_map (fun row => map (fun col => (row, col)) (seq 0 (S rank))) (seq 0 dnum) in
  let seeds := concat (map (fun rc => slice (4 * ggsw_draw_index rank (fst rc) (snd rc)) 4 parent) slots) in
  match sequence (map (fun rc =>
           let row := fst rc in let col := snd rc in
           gadget_cell wb b n size rank dsize nk row col m sk
             (slice (ggsw_seed_slot rank row col * clen) clen (v vs 3))
             (slice (ggsw_seed_slot rank row col * clen) clen (v vs 3))
             (slice (ggsw_draw_index rank row col * n) n (v vs 4))) slots) with
  | None => None
  | Some cells => Some [seeds; concat (map (of_cols n size) cells); v vs 5]
  end.

Definition run_glwe_compressed (ps : list Z) (vs : list (list Z)) : option (list (list Z)) :=
  let wb := wbig (p ps 0) in
  let n := np ps 1 in let b := p ps 2 in let size := np ps 3 in let rank := np ps 5 in let nk := p ps 8 in
  let psize := np ps 10 in
  let pt := to_ccol n psize (v vs 0) in
  let sk := chunks n rank (v vs 1) in
  let us := stream (v vs 2) in
  match enc_sk_compressed wb b n size rank nk (Some (pt, O)) sk us (v vs 3) with
  | None => None
  | Some body => Some [of_ccol n size body; of_cols n size (decompress_glwe b n size rank body us); v vs 4]
  end.

(* the last input vector of every record is the list of flags the model predicts (all comparisons succeed: 1; not
   applicable: 2); it is produced by the generator from the shape alone, never from the implementation's outputs *)
(* 19004 LWECompressed -> decompress_lwe: vs = [pt; s; ua (size*(n+1) u64 of Source::new(stored seed)); e (1); expected flags]
   out = [decompressed ciphertext (limb-major, word 0 of each limb = body); [equals the standard encryption; serialisation round trip]].
   Since 4fb6b93 decompress_lwe compares radix and size only (an LWECompressed holds just the body; the LWE dimension is the
   receiver's): every LWE dimension decompresses to the standard ciphertext *)
Definition run_lwe_compressed (ps : list Z) (vs : list (list Z)) : option (list (list Z)) :=
  let n := np ps 1 in let b := p ps 2 in let size := np ps 3 in let nk := p ps 8 in
  let pt := v vs 0 in let s := v vs 1 in let us := stream (v vs 2) in let e := nthZ (v vs 3) 0 in
  let a := lwe_mask b n size us in
  match lwe_enc_body b size nk pt s a e with
  | None => None
  | Some body =>
      Some [concat (map (fun j => nthZ body j :: nth j a []) (seq 0 size)); [1; 1]]
  end.

Definition run_c19 (code : Z) (ps : list Z) (vs : list (list Z)) : option (list (list Z)) :=
  match code with
  | 19001 => run_glwe_compressed ps vs
  | 19002 => run_gglwe_compressed ps vs
  | 19003 => run_ggsw_compressed ps vs
  | 19004 => run_lwe_compressed ps vs
  | _ => None
  end.
