(* L2': DFT-domain objects are represented by the integer polynomials they denote (abstraction function);
   products are exact negacyclic products in Z[X]/(X^n+1), and the *shape logic* of the code (size rules,
   (step, offset) selection, limb_offset, largest valid sub-shape) is modelled as it is written in
   poulpy-cpu-ref/src/reference/fft64/{vec_znx_dft,svp,vmp}.rs (the NTT120 family follows the same rules). *)
From PV Require Import Base.MachineInt Model.Znx Model.Limbs Model.Ring.
Open Scope Z_scope.

Definition padd (a b : list Z) : list Z := map2 Z.add a b.
Definition psub (a b : list Z) : list Z := map2 Z.sub a b.
Definition pneg (a : list Z) : list Z := map Z.opp a.
Definition pzero (n : nat) : list Z := zeros n.

(* exact negacyclic product: c_k = sum_{i+j=k} a_i b_j - sum_{i+j=k+n} a_i b_j *)
Definition pmul (a b : list Z) : list Z :=
  let n := length a in
  map (fun k =>
    fold_left (fun acc i =>
      let ai := nthZ a i in
      if Nat.leb i k then acc + ai * nthZ b (k - i) else acc - ai * nthZ b (n + k - i))
      (seq 0 n) 0) (seq 0 n).

Definition plimbs := list (list Z).
Definition lim (l : plimbs) (j : nat) : list Z := nth j l [].
Definition mk (rsz : nat) (f : nat -> list Z) : plimbs := map f (seq 0 rsz).
Definition ceil_div (a b : nat) : nat := ((a + b - 1) / b)%nat.

(* vec_znx_dft_apply / vec_znx_dft_copy (step, offset) *)
Definition dft_select (n rsz step offset : nat) (a : plimbs) : plimbs :=
  let steps := ceil_div (length a) step in
  let min_steps := Nat.min rsz steps in
  mk rsz (fun j => if Nat.ltb j min_steps then
                     let l := (offset + j * step)%nat in
                     if Nat.ltb l (length a) then lim a l else pzero n
                   else pzero n).

Definition dft_add (n rsz : nat) (a b : plimbs) : plimbs :=
  let asz := length a in let bsz := length b in
  mk rsz (fun j => if Nat.ltb j (Nat.min asz bsz) then padd (lim a j) (lim b j)
                   else if Nat.ltb j (Nat.max asz bsz) then (if Nat.leb asz bsz then lim b j else lim a j)
                   else pzero n).
Definition dft_sub (n rsz : nat) (a b : plimbs) : plimbs :=
  let asz := length a in let bsz := length b in
  mk rsz (fun j => if Nat.ltb j (Nat.min asz bsz) then psub (lim a j) (lim b j)
                   else if Nat.ltb j (Nat.max asz bsz) then (if Nat.leb asz bsz then pneg (lim b j) else lim a j)
                   else pzero n).
Definition dft_add_assign (a r0 : plimbs) : plimbs :=
  mk (length r0) (fun j => if Nat.ltb j (length a) then padd (lim r0 j) (lim a j) else lim r0 j).
Definition dft_sub_assign (a r0 : plimbs) : plimbs :=
  mk (length r0) (fun j => if Nat.ltb j (length a) then psub (lim r0 j) (lim a j) else lim r0 j).
Definition dft_sub_negate_assign (a r0 : plimbs) : plimbs :=
  mk (length r0) (fun j => if Nat.ltb j (length a) then psub (lim a j) (lim r0 j) else pneg (lim r0 j)).
(* vec_znx_dft_add_scaled_assign *)
Definition dft_add_scaled_assign (scale : Z) (a r0 : plimbs) : plimbs :=
  let asz := length a in let rsz := length r0 in
  if 0 <? scale then
    let shift := Nat.min (Z.to_nat scale) asz in
    let sum := (Nat.min asz rsz - shift)%nat in
    mk rsz (fun j => if Nat.ltb j sum then padd (lim r0 j) (lim a (j + shift)) else lim r0 j)
  else if scale <? 0 then
    let shift := Nat.min (Z.to_nat (- scale)) rsz in
    let sum := Nat.min asz (rsz - shift) in
    mk rsz (fun j => if Nat.leb shift j && Nat.ltb (j - shift) sum then padd (lim r0 j) (lim a (j - shift)) else lim r0 j)
  else dft_add_assign a r0.

(* svp_apply_dft / svp_apply_dft_to_dft: res_j = s * b_j on min(res, b) limbs, zero beyond *)
Definition svp_apply (n rsz : nat) (s : list Z) (b : plimbs) : plimbs :=
  mk rsz (fun j => if Nat.ltb j (length b) then pmul s (lim b j) else pzero n).
Definition svp_apply_assign (s : list Z) (r0 : plimbs) : plimbs := map (pmul s) r0.

(* vmp_apply_dft_to_dft(limb_offset):
   a : cols_in columns of limbs ; mat row r (r < rows), input column ci : cols_out columns of msize limbs.
   Flattened as in the code: vector index  q = row*cols_in + ci  (q < nrows = cols_in*rows) uses a-limb `row` of column ci,
   i.e. the flat DFT layout of `a` (limb-major) is read as nrows consecutive polynomials;
   output flat column index c = limb*cols_out + co. *)
Definition vmp (n : nat) (rcols rsz : nat) (acols asz : nat) (rows msize limb_offset : nat)
           (aflat : nat -> list Z)          (* flat a: index j*acols + ci *)
           (mflat : nat -> nat -> list Z)   (* (q, c) -> polynomial, q = row*acols+ci, c = limb*rcols+co *)
           : nat -> list Z :=               (* flat res: index j*rcols + co *)
  let nrows := (acols * rows)%nat in
  let ncols := (rcols * msize)%nat in
  let a_len := (acols * asz)%nat in
  let r_len := (rcols * rsz)%nat in
  let row_max := Nat.min nrows a_len in
  let col_max := Nat.min ncols (r_len + limb_offset * rcols) in
  let off := (limb_offset * rcols)%nat in
  fun c =>
    if Nat.leb col_max off then pzero n
    else if Nat.ltb c (col_max - off) then
      fold_left (fun acc q => padd acc (pmul (aflat q) (mflat q (c + off)%nat))) (seq 0 row_max) (pzero n)
    else pzero n.
