(* C14, spec-level notions the theorems speak about (independent of the code's shape). *)
From PV Require Import Base.MachineInt Model.Znx Model.Limbs Model.Ring Model.Poly Model.C14Lut.
Open Scope Z_scope.

(* a table of `ext` polynomials with `size` limbs of n words *)
Definition lut_wf (n size : nat) (data : lut) : Prop :=
  Forall (fun p : limbs => length p = size /\ Forall (fun limb : list Z => length limb = n) p) data.

(* limb l of the table read in the big ring Z[Y]/(Y^(n*ext) + 1), Y^ext = X:
   Y-coefficient u is coefficient u / ext of polynomial u mod ext (Poly.interleave) *)
Definition lut_big (n : nat) (data : lut) (l : nat) : list Z :=
  interleave (n * length data) (map (fun p : limbs => lnth p l) data).

(* the inverse of interleaving: polynomial i = coefficients i, i + e, i + 2e, ... *)
Definition deinterleave (e : nat) (a : list Z) : list (list Z) :=
  map (fun i => map (fun t => nthZ a (t * e + i)) (seq 0 (length a / e))) (seq 0 e).

(* ---- the table rule ---- *)
(* the limbs (most significant first) of one table entry: x * scale placed in limb nl-1 of `size`, normalised *)
Definition entry_limbs (b : Z) (size nl : nat) (x : Z) : list Z :=
  normalize_assign 64 b (map (fun j => if Nat.eqb j (nl - 1) then x else 0) (seq 0 size)).
Definition lut_scale (b kmsg : Z) : Z := if kmsg mod b =? 0 then 1 else shl 64 1 (b - kmsg mod b).

(* limbs of big-ring coefficient u after set(f) and a rotation by k:
   t = u + drift - k, sign (-1)^(t div domain), entry f[(t mod domain) / step] *)
Definition selected_limbs (domain step drift b : Z) (size nl : nat) (scale : Z) (f : list Z) (k u : Z) : list Z :=
  let t := u + drift - k in
  let q := t / domain in let r := t mod domain in
  let e := entry_limbs b size nl (wmul 64 (nthZ f (Z.to_nat (r / step))) scale) in
  if Z.even q then e else map (wneg 64) e.

(* the limbs of coefficient 0 of polynomial 0 *)
Definition coeff0 (data : lut) : list Z := map hdZ (nth 0 data []).

(* ---- mod-switch ---- *)
(* the integer a list of limbs (most significant first) denotes at size*b bits *)
Definition limbs_int (b : Z) (c : list Z) : Z := fold_left (fun acc x => acc * 2 ^ b + x) c 0.
