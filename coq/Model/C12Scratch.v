(* C12 - the scratch arena of poulpy as a state machine, and "take trees".

   Faithful to /repo/poulpy-cpu-ref/src/hal_defaults/scratch.rs (take_slice_aligned, scratch_available_default)
   and /repo/poulpy-hal/src/api/scratch.rs (split_at_mut, split_mut).  No proofs in this file.

   An arena is a byte slice, described by (offset of its first byte relative to a 64-byte aligned base
   address, length).  `take k`:
       aligned_offset := ptr.align_offset(64)            = (-off) mod 64
       aligned_len    := len.saturating_sub(aligned_offset)
       if let Some(rem) = aligned_len.checked_sub(k)      -> window (off+pad, k), remainder (off+pad+k, rem)
       else panic!("Attempted to take {k} from scratch with {aligned_len} aligned bytes left")
   Note the saturating subtraction: a zero-length take succeeds even when the padding exceeds the slice
   (the returned empty window then starts past the end of the slice). *)
From PV Require Import Base.MachineInt.
Open Scope Z_scope.

Definition ALIGN : Z := 64.

Definition arena := (Z * Z)%type.     (* (offset, length) *)
Definition window := (Z * Z)%type.    (* (offset, length) *)

Definition pad_of (off : Z) : Z := (- off) mod ALIGN.
(* Scratch::available() *)
Definition avail (s : arena) : Z := Z.max 0 (snd s - pad_of (fst s)).

Definition take (k : Z) (s : arena) : option (window * arena) :=
  let off := fst s in
  let pad := pad_of off in
  let al := avail s in
  if k <=? al then Some ((off + pad, k), (off + pad + k, al - k)) else None.

(* Take trees: the nesting of take_* calls (and of `assert!(scratch.available() >= ..)` checks) an operation
   performs on the scratch it receives. *)
Inductive tree : Type :=
| Nop                              (* nothing *)
| Take (k : Z)                     (* let (x, rest) = s.take_*(..): k bytes; what follows in a Seq runs on `rest` *)
| Need (k : Z)                     (* assert!(s.available() >= k) *)
| Seq (a b : tree)                 (* a, then b on what a left; the takes of a stay alive while b runs *)
| Scoped (a : tree)                (* a block or a callee that receives the scratch: its takes are released at the end *)
| Loop (n : nat) (a : tree)        (* n iterations, each one Scoped on the same arena *)
| Branch (a b : tree).             (* data-dependent alternative, each one Scoped: both must fit *)

(* n successive copies of a whose takes all stay alive (take_*_slice, split_mut) *)
Fixpoint rep (n : nat) (a : tree) : tree :=
  match n with O => Nop | S m => Seq a (rep m a) end.

(* Scratch::split_mut(n, len) *)
Definition split_mut (n : Z) (len : Z) : tree := Seq (Need (n * len)) (rep (Z.to_nat n) (Take len)).

Fixpoint iter_scoped (f : arena -> option (list window * arena)) (n : nat) (s : arena) : option (list window) :=
  match n with
  | O => Some []
  | S m => match f s with
           | Some (w, _) => match iter_scoped f m s with Some ws => Some (w ++ ws) | None => None end
           | None => None
           end
  end.

(* windows handed out (in program order) and the arena left for what follows; None = the call panics *)
Fixpoint run_tree (t : tree) (s : arena) : option (list window * arena) :=
  match t with
  | Nop => Some ([], s)
  | Take k => match take k s with Some (w, r) => Some ([w], r) | None => None end
  | Need k => if k <=? avail s then Some ([], s) else None
  | Seq a b => match run_tree a s with
               | Some (wa, s1) => match run_tree b s1 with Some (wb, s2) => Some (wa ++ wb, s2) | None => None end
               | None => None
               end
  | Scoped a => match run_tree a s with Some (wa, _) => Some (wa, s) | None => None end
  | Loop n a => match iter_scoped (run_tree a) n s with Some ws => Some (ws, s) | None => None end
  | Branch a b => match run_tree a s, run_tree b s with
                  | Some (wa, _), Some (wb, _) => Some (wa ++ wb, s)
                  | _, _ => None
                  end
  end.

(* highest byte offset (exclusive) touched by a list of windows, never below `base` *)
Definition peak_of (base : Z) (ws : list window) : Z :=
  fold_left (fun m w => if snd w =? 0 then m else Z.max m (fst w + snd w)) ws base.

Definition trace := (list window * Z)%type.   (* windows, peak *)

Definition run_takes (t : tree) (s : arena) : option trace :=
  match run_tree t s with
  | Some (ws, _) => Some (ws, peak_of (fst s) ws)
  | None => None
  end.

(* why a run fails: 0 = it does not, 1 = a take finds too few aligned bytes ("Attempted to take .."),
   2 = an `assert!(scratch.available() >= ..)` fails.  First failure in program order. *)
Fixpoint iter_fail (f : arena -> Z) (n : nat) (s : arena) : Z :=
  match n with O => 0 | S m => let r := f s in if r =? 0 then iter_fail f m s else r end.

Fixpoint fail_kind (t : tree) (s : arena) : Z :=
  match t with
  | Nop => 0
  | Take k => match take k s with Some _ => 0 | None => 1 end
  | Need k => if k <=? avail s then 0 else 2
  | Seq a b => match run_tree a s with
               | Some (_, s1) => fail_kind b s1
               | None => fail_kind a s
               end
  | Scoped a => fail_kind a s
  | Loop n a => match n with O => 0 | S _ => fail_kind a s end
  | Branch a b => let r := fail_kind a s in if r =? 0 then fail_kind b s else r
  end.

(* ---------------------------------------------------------------------------------------------------- *)
(* closed-form demand of a tree whose takes are all multiples of the alignment *)
Fixpoint persist (t : tree) : Z :=
  match t with
  | Take k => k
  | Seq a b => persist a + persist b
  | _ => 0
  end.

Fixpoint demand (t : tree) : Z :=
  match t with
  | Nop => 0
  | Take k => k
  | Need k => k
  | Seq a b => Z.max (demand a) (persist a + demand b)
  | Scoped a => demand a
  | Loop n a => match n with O => 0 | S _ => demand a end
  | Branch a b => Z.max (demand a) (demand b)
  end.

(* every size is non-negative and every take a multiple of 64 *)
Fixpoint aligned_tree (t : tree) : Prop :=
  match t with
  | Nop => True
  | Take k => 0 <= k /\ k mod ALIGN = 0
  | Need k => 0 <= k
  | Seq a b => aligned_tree a /\ aligned_tree b
  | Scoped a => aligned_tree a
  | Loop _ a => aligned_tree a
  | Branch a b => aligned_tree a /\ aligned_tree b
  end.

(* ---------------------------------------------------------------------------------------------------- *)
(* layout descriptions (the *Infos traits of poulpy-core) as seen by the size formulas *)
Record infos : Type := mkInfos {
  i_n : Z; i_base2k : Z; i_size : Z; i_rank : Z; i_rank_in : Z; i_dnum : Z; i_dsize : Z
}.

(* LWEInfos::max_k (default method, not overridden by any layout): size * base2k *)
Definition i_max_k (i : infos) : Z := i_size i * i_base2k i.

(* usize::div_ceil *)
Definition div_ceil (a b : Z) : Z := (a + b - 1) / b.

(* usize::next_multiple_of *)
Definition next_multiple_of (a b : Z) : Z := (a + b - 1) / b * b.

(* GLWELayout { n, base2k, k, rank }: size() = k.div_ceil(base2k) *)
Definition mk_glwe_layout (n base2k k rank : Z) : infos :=
  mkInfos n base2k (div_ceil k base2k) rank rank 0 1.
Definition mk_gglwe_layout (n base2k k rank_in rank_out dnum dsize : Z) : infos :=
  mkInfos n base2k (div_ceil k base2k) rank_out rank_in dnum dsize.

(* take_slice::<T>(bytes / size_of::<T>()) takes (bytes / w) * w bytes *)
Definition take_words (w bytes : Z) : tree := Take (bytes / w * w).
