(* Spec level: Z[X]/(X^n+1) on coefficient lists, written index-wise and independently of the
   code's shape (no split/negate/copy, no running index). *)
From PV Require Import Base.MachineInt Model.Znx Model.Limbs.
Open Scope Z_scope.

Section W.
Variable w : Z.   (* coefficients are w-bit words; negation wraps *)

(* negacyclic extension of a coefficient list to all integer exponents: X^n = -1 *)
Definition ext (a : list Z) (k : Z) : Z :=
  let n := Z.of_nat (length a) in
  let q := k / n in let r := k mod n in
  if Z.even q then nthZ a (Z.to_nat r) else wneg w (nthZ a (Z.to_nat r)).

(* X^p * a *)
Definition monomial_mul (p : Z) (a : list Z) : list Z :=
  map (fun i => ext a (Z.of_nat i - p)) (seq 0 (length a)).

(* sigma_g : X -> X^g, g odd: coefficient j of a goes to exponent j*g *)
Definition sigma (g : Z) (a : list Z) : list Z :=
  let n := Z.of_nat (length a) in
  fold_left (fun r j =>
     let e := (Z.of_nat j * g) mod (2 * n) in
     if e <? n then upd r (Z.to_nat e) (nthZ a j) else upd r (Z.to_nat (e - n)) (wneg w (nthZ a j)))
    (seq 0 (length a)) (zeros (length a)).

(* ring embedding Z[X]/(X^m+1) -> Z[X]/(X^n+1), X -> X^(n/m)  (m | n); and its left inverse (subsampling) *)
Definition embed (n : nat) (a : list Z) : list Z :=
  let gap := (n / length a)%nat in
  map (fun t => if Nat.eqb (t mod gap) 0 then nthZ a (t / gap) else 0) (seq 0 n).
Definition subsample (m : nat) (a : list Z) : list Z :=
  let gap := (length a / m)%nat in map (fun t => nthZ a (t * gap)) (seq 0 m).

(* interleave: res[gap*t+i] = parts_i[t] *)
Definition interleave (n : nat) (parts : list (list Z)) : list Z :=
  let gap := length parts in
  map (fun u => nthZ (nth (u mod gap) parts []) (u / gap)) (seq 0 n).

End W.
