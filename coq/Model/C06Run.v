(* Executable entry point of the C06 model (fresh ciphertexts carry the configured randomness).

   6001 GLWE sk, controlled seed changes.  header = C01 header.
        vs  = [pt; pt'; s; s'; ua; ua'; e; e']   (primed: the same quantity after flipping ONE of plaintext / secret seed /
                                                  mask seed / error seed; each variant changes exactly one of them)
        out = [[deterministic; mask_eq(pt'); body_eq(pt'); mask_eq(s'); body_eq(s'); mask_eq(e'); body_eq(e'); mask_eq(ua'); body_eq(ua')];
               baseline ciphertext]
        the model encrypts the five input tuples and compares its own ciphertexts
   6002 LWE sk, the same experiment (header = C01 header, vectors as 1002)
   6004 standard GGLWE-shaped object (kind ps[9]: 0 GGLWE, 1 switching key, 2 automorphism key, 3 tensor key,
        4 entry ps[15] of a GGLWE->GGSW key, 5 LWE switching key, 6 GLWE->LWE key, 7 LWE->GLWE key -- for 5..7 the LWE secret
        enters as sigma_{-1} of its zero-padded polynomial, computed by the harness with the library's own automorphism);
        header = C19 header
        vs  = [m (rank_in*n); s_out (rank_out*n); ua (the single mask stream, cells in draw order: col outer, row inner);
               errors (draw order); ua' (same prefix of the stream of the flipped mask seed); errors' (flipped error seed)]
        out = [cells in slot order; flags [deterministic; mask_eq(m'); mask_eq(e'); body_eq(e'); mask_eq(ua');
                                          masks of all cells of all entries pairwise distinct]]
        ua / errors cover the WHOLE object (all entries); the model derives the entry's share
   6005 standard GGSW (kind 0), or entry ps[15] of a CGGI blind-rotation key over an LWE secret of dimension ps[4] (kind 1: GGSW i
        encrypts the constant polynomial s_lwe[i]; mask and error streams continue from GGSW to GGSW):
        vs = [m (n); s (rank*n); ua; errors; ua'; errors'], cells (row, col_j), plaintext on column col_j
   6020 statistics (support, not proof): vs = [numbers], out = [the same numbers recomputed]; see C06Oracle.v *)
From PV Require Import Base.MachineInt Model.Znx Model.Limbs Model.Flat Model.DftAbs Model.EncModel Model.C01Run Model.C19Run.
Open Scope Z_scope.

Definition eq_cols (n size : nat) (a b : list ccol) : bool := eqlz (of_cols n size a) (of_cols n size b).

Definition run_flip_glwe (ps : list Z) (vs : list (list Z)) : option (list (list Z)) :=
  let wb := wbig (p ps 0) in
  let n := np ps 1 in let b := p ps 2 in let size := np ps 3 in let rank := np ps 4 in let nk := p ps 5 in
  let psize := np ps 6 in
  let enc := fun (ptw sw uaw ew : list Z) =>
    enc_sk wb b n size rank nk (Some (to_ccol n psize ptw, O)) (chunks n rank sw) (stream uaw) ew in
  let pt := v vs 0 in let pt' := v vs 1 in let s := v vs 2 in let s' := v vs 3 in
  let ua := v vs 4 in let ua' := v vs 5 in let e := v vs 6 in let e' := v vs 7 in
  match enc pt s ua e, enc pt' s ua e, enc pt s' ua e, enc pt s ua e', enc pt s ua' e with
  | Some c0, Some c1, Some c2, Some c3, Some c4 =>
      let meq := fun c => bz (eq_cols n size (tl c0) (tl c)) in
      let beq := fun c => bz (eq_cols n size [hd [] c0] [hd [] c]) in
      Some [[1; meq c1; beq c1; meq c2; beq c2; meq c3; beq c3; meq c4; beq c4]; of_cols n size c0]
  | _, _, _, _, _ => None
  end.

Definition lwe_ct (b : Z) (n size : nat) (nk : Z) (pt s ua : list Z) (e : Z) : option (list (list Z) * list Z) :=
  let a := lwe_mask b n size (stream ua) in
  match lwe_enc_body b size nk pt s a e with Some body => Some (a, body) | None => None end.

Definition run_flip_lwe (ps : list Z) (vs : list (list Z)) : option (list (list Z)) :=
  let n := np ps 1 in let b := p ps 2 in let size := np ps 3 in let nk := p ps 5 in
  let pt := v vs 0 in let pt' := v vs 1 in let s := v vs 2 in let s' := v vs 3 in
  let ua := v vs 4 in let ua' := v vs 5 in let e := nthZ (v vs 6) 0 in let e' := nthZ (v vs 7) 0 in
  let enc := lwe_ct b n size nk in
  match enc pt s ua e, enc pt' s ua e, enc pt s' ua e, enc pt s ua e', enc pt s ua' e with
  | Some c0, Some c1, Some c2, Some c3, Some c4 =>
      let meq := fun c => bz (eqlz (concat (fst c0)) (concat (fst c))) in
      let beq := fun c => bz (eqlz (snd c0) (snd c)) in
      Some [[1; meq c1; beq c1; meq c2; beq c2; meq c3; beq c3; meq c4; beq c4];
            concat (map (fun j => nthZ (snd c0) j :: nth j (fst c0) []) (seq 0 size))]
  | _, _, _, _, _ => None
  end.

(* digits actually consumed from a mask stream prefix *)
Definition digits (b : Z) (us : list Z) : list Z := map (uniform_digit b) us.

(* flags of a standard gadget object predicted from the non-interference theorems:
   [deterministic; mask_eq under another plaintext; mask_eq under another error seed; body_eq under another error seed
    (only if the replayed errors coincide); mask_eq under another mask seed (only if the digits coincide)] *)
(* two error vectors give the same bodies iff they agree modulo 2^((limb+1) b): the error sits on limb `limb` of a value on the
   torus, so a difference that is a multiple of 2^((limb+1) b) is a whole number of turns (only possible when the noise is wider
   than the torus at that limb, i.e. degenerate parameters) *)
Definition errs_same_on_torus (b nk : Z) (errs errs' : list Z) : bool :=
  let M := 2 ^ ((Z.of_nat (target_limb nk b) + 1) * b) in
  Nat.eqb (length errs) (length errs') && forallb (fun q => (fst q - snd q) mod M =? 0) (combine errs errs').
(* are the lists pairwise different? *)
Fixpoint pairwise_distinct (l : list (list Z)) : bool :=
  match l with
  | [] => true
  | x :: t => forallb (fun y => negb (eqlz x y)) t && pairwise_distinct t
  end.

(* flags of entry `entry` of an object of `entries` entries with `cells` cells each; `ua`, `errs` are the mask stream and the error
   blocks of the WHOLE object (the entries follow one another on the single mask source and on the error source);
   last flag: the masks of all cells of all entries are pairwise distinct (every cell consumes its own part of the stream) *)
Definition gadget_flags (b nk : Z) (clen n entries cells entry : nat) (ua ua' errs errs' : list Z) : list Z :=
  let eu := fun u => slice (entry * cells * clen) (cells * clen) u in
  let ee := fun e => slice (entry * cells * n) (cells * n) e in
  [1; 1; 1; bz (errs_same_on_torus b nk (ee errs) (ee errs')); bz (eqlz (digits b (eu ua)) (digits b (eu ua')));
   bz (pairwise_distinct (map (fun j => digits b (slice (j * clen) clen ua)) (seq 0 (entries * cells))))].

Definition run_gglwe_std (ps : list Z) (vs : list (list Z)) : option (list (list Z)) :=
  let wb := wbig (p ps 0) in
  let n := np ps 1 in let b := p ps 2 in let size := np ps 3 in let rin := np ps 4 in let rout := np ps 5 in
  let dnum := np ps 6 in let dsize := np ps 7 in let nk := p ps 8 in
  let ms := chunks n rin (v vs 0) in
  let sk := chunks n rout (v vs 1) in
  let clen := (rout * size * n)%nat in
  let ncells := (dnum * rin)%nat in
  (* a GGLWE->GGSW key (kind 4) is `rank_out` GGLWEs encrypted one after the other with the same two sources: entry ps[15]
     starts after the cells of the earlier entries *)
  let entries := if p ps 9 =? 4 then rout else 1%nat in
  let entry := if p ps 9 =? 4 then np ps 15 else O in
  let base := (entry * ncells)%nat in
  let slots := flat_map (fun row => map (fun col => (row, col)) (seq 0 rin)) (seq 0 dnum) in
  match sequence (map (fun rc =>
           let row := fst rc in let col := snd rc in
           let d := (base + gglwe_draw_index dnum row col)%nat in
           gadget_cell wb b n size rout dsize nk row O (nth col ms []) sk
             (slice (d * clen) clen (v vs 2)) (slice (d * clen) clen (v vs 2)) (slice (d * n) n (v vs 3))) slots) with
  | None => None
  | Some cells => Some [concat (map (of_cols n size) cells); gadget_flags b nk clen n entries ncells entry (v vs 2) (v vs 4) (v vs 3) (v vs 5)]
  end.

Definition run_ggsw_std (ps : list Z) (vs : list (list Z)) : option (list (list Z)) :=
  let wb := wbig (p ps 0) in
  let n := np ps 1 in let b := p ps 2 in let size := np ps 3 in let rank := np ps 5 in
  let dnum := np ps 6 in let dsize := np ps 7 in let nk := p ps 8 in
  let m := v vs 0 in
  let sk := chunks n rank (v vs 1) in
  let clen := (rank * size * n)%nat in
  let ncells := (dnum * S rank)%nat in
  (* a blind-rotation key (kind 1) is ps[4] GGSWs encrypted one after the other with the same two sources *)
  let entries := if p ps 9 =? 1 then np ps 4 else 1%nat in
  let entry := if p ps 9 =? 1 then np ps 15 else O in
  let base := (entry * ncells)%nat in
  let slots := flat_map (fun row => map (fun col => (row, col)) (seq 0 (S rank))) (seq 0 dnum) in
  match sequence (map (fun rc =>
           let row := fst rc in let col := snd rc in
           let d := (base + ggsw_draw_index rank row col)%nat in
           gadget_cell wb b n size rank dsize nk row col m sk
             (slice (d * clen) clen (v vs 2)) (slice (d * clen) clen (v vs 2)) (slice (d * n) n (v vs 3))) slots) with
  | None => None
  | Some cells => Some [concat (map (of_cols n size) cells); gadget_flags b nk clen n entries ncells entry (v vs 2) (v vs 4) (v vs 3) (v vs 5)]
  end.

(* ---- 6006: which seed does every cell of a compressed composite object store?
   kinds ps[9]: 0 GGLWE 1 switching 2 automorphism 3 tensor key (one GGLWE-shaped entry), 4 GGLWE->GGSW key (rank_out entries),
   8 GGSW (one entry), 9 CGGI blind-rotation key (ps[4] GGSW entries).  vs = [table seeds (4 words each); table streams (tlen words each)]
   is a table seed |-> first words of the ChaCha8 stream keyed by that seed (ChaCha8 itself is not modelled).
   Derivation, as the generators are written:
     one entry  : the root seed seed_xa (ps[28..32)) keys the parent stream; the cell encrypted i-th takes words [4i, 4i+4) of it as
                  its seed (Source::branch), stored at its slot;
     two levels : entry i takes words [4i, 4i+4) of the ROOT stream as ITS root (gglwe_to_ggsw: source_xa.branch(), blind rotation:
                  source_xa.new_seed()), and derives its cells from the stream of that seed as above.
   out = [stored seeds (entry-major, slot order); [stored seeds pairwise distinct; decompressed masks pairwise distinct]] *)
Fixpoint lookup_stream (tlen : nat) (tseeds tstreams seed : list Z) (fuel : nat) : list Z :=
  match fuel with
  | O => []
  | S f => if eqlz (firstn 4 tseeds) seed then firstn tlen tstreams
           else lookup_stream tlen (skipn 4 tseeds) (skipn tlen tstreams) seed f
  end.

Definition run_seeds (ps : list Z) (vs : list (list Z)) : option (list (list Z)) :=
  let rin := np ps 4 in let rout := np ps 5 in let dnum := np ps 6 in let kind := p ps 9 in
  let ggsw_like := 8 <=? kind in
  let cols := if ggsw_like then S rout else rin in
  let cells := (dnum * cols)%nat in
  let entries := if kind =? 4 then rout else if kind =? 9 then rin else 1%nat in
  let two := (kind =? 4) || (kind =? 9) in
  let tlen := (4 * Nat.max cells entries)%nat in
  let tseeds := v vs 0 in let tstreams := v vs 1 in
  let look := fun seed => lookup_stream tlen tseeds tstreams seed (S (length tseeds)) in
  let root := slice 28 4 ps in
  let slots := flat_map (fun row => map (fun col => (row, col)) (seq 0 cols)) (seq 0 dnum) in
  let draw := fun rc : nat * nat => if ggsw_like then ggsw_draw_index rout (fst rc) (snd rc) else gglwe_draw_index dnum (fst rc) (snd rc) in
  let entry_seeds := fun i : nat =>
    let r := if two then slice (4 * i) 4 (look root) else root in
    let st := look r in
    map (fun rc => slice (4 * draw rc) 4 st) slots in
  let all := concat (map entry_seeds (seq 0 entries)) in
  Some [concat all; [bz (pairwise_distinct all); 1]].

(* ---- 6007 CKKS ckks_encrypt_sk / 6008 binary-FHE FheUint::encrypt_sk: the scheme layers hand their two sources to glwe_encrypt_(zero_)sk.
   ps = [be; n; b; size; nk; ..; rank (6008); ..]; vs = [ua; e; ua'; e'] for the mask seed, the error seed and their flipped versions.
   out = [mask columns 1..rank; [deterministic; mask_eq(other plaintext); mask_eq(e'); body_eq(e'); mask_eq(ua')]]: the mask is
   `glwe_mask` of the stream of the MASK seed, whatever the plaintext, the metadata and the error seed *)
Definition run_scheme (code : Z) (ps : list Z) (vs : list (list Z)) : option (list (list Z)) :=
  let n := np ps 1 in let b := p ps 2 in let size := np ps 3 in let nk := p ps 4 in
  let rank := if code =? 6007 then 1%nat else np ps 6 in
  Some [of_cols n size (glwe_mask b n size rank (stream (v vs 0)));
        [1; 1; 1; bz (errs_same_on_torus b nk (v vs 1) (v vs 3)); bz (eqlz (digits b (v vs 0)) (digits b (v vs 2)))]].

(* ---- 6009: generation of a composite binary-FHE evaluation key from ONE error source and ONE mask source
   kinds ps[5]: 0 circuit-bootstrapping key, 1 BDD key without GLWE bridge, 2 BDD key with GLWE bridge (rank ps[12]).
   The key is a sequence of segments encrypted one after the other on the two sources; a segment is `entries` gadget objects of
   the same shape: (is_ggsw, entries, dnum, rank_in, rank_out).
     circuit-bootstrapping key = log2 n automorphism keys (sorted Galois elements), the blind-rotation key (n_lwe GGSWs),
                                 the GGLWE->GGSW key (rank GGLWEs);
     BDD key = [GLWE switching key rank -> rank'] ; GLWE->LWE key (rank_out 1) ; circuit-bootstrapping key.
   out = [masks of all cells, segment / entry / slot order; flags as 6007 + masks pairwise distinct] *)
Definition kg_cbt (n rank nl da db dt : nat) : list (bool * nat * nat * nat * nat) :=
  [(false, Nat.log2 n, da, rank, rank); (true, nl, db, rank, rank); (false, rank, dt, rank, rank)].
Definition kg_segments (ps : list Z) : list (bool * nat * nat * nat * nat) :=
  let n := np ps 1 in let rank := np ps 6 in let nl := np ps 7 in
  let cbt := kg_cbt n rank nl (np ps 8) (np ps 9) (np ps 10) in
  if p ps 5 =? 0 then cbt
  else if p ps 5 =? 1 then (false, 1%nat, np ps 11, rank, 1%nat) :: cbt
  else (false, 1%nat, np ps 13, rank, np ps 12) :: (false, 1%nat, np ps 11, np ps 12, 1%nat) :: cbt.
(* masks (digit lists) of the cells of one segment starting at word `off` of the mask stream, and the next offset *)
Definition kg_segment (b : Z) (n size : nat) (seg : bool * nat * nat * nat * nat) (off : nat) (ua : list Z) : list (list Z) * nat :=
  match seg with
  | (ggsw, entries, dnum, rin, rout) =>
      let cols := if ggsw then S rout else rin in
      let cells := (dnum * cols)%nat in
      let clen := (rout * size * n)%nat in
      (flat_map (fun entry => flat_map (fun row => map (fun col =>
           let d := (entry * cells + (if ggsw then ggsw_draw_index rout row col else gglwe_draw_index dnum row col))%nat in
           digits b (slice (off + d * clen) clen ua)) (seq 0 cols)) (seq 0 dnum)) (seq 0 entries),
       (off + entries * cells * clen)%nat)
  end.
Fixpoint kg_masks (b : Z) (n size : nat) (segs : list (bool * nat * nat * nat * nat)) (off : nat) (ua : list Z) : list (list Z) :=
  match segs with
  | [] => []
  | s :: t => let r := kg_segment b n size s off ua in fst r ++ kg_masks b n size t (snd r) ua
  end.
Definition run_keygen (ps : list Z) (vs : list (list Z)) : option (list (list Z)) :=
  let n := np ps 1 in let b := p ps 2 in let size := np ps 3 in let nk := p ps 4 in
  let ms := kg_masks b n size (kg_segments ps) O (v vs 0) in
  Some [concat ms;
        [1; 1; 1; bz (errs_same_on_torus b nk (v vs 1) (v vs 3)); bz (eqlz (digits b (v vs 0)) (digits b (v vs 2))); bz (pairwise_distinct ms)]].

Definition run_c06 (code : Z) (ps : list Z) (vs : list (list Z)) : option (list (list Z)) :=
  match code with
  | 6001 => run_flip_glwe ps vs
  | 6002 => run_flip_lwe ps vs
  | 6004 => run_gglwe_std ps vs
  | 6005 => run_ggsw_std ps vs
  | 6006 => run_seeds ps vs
  | 6007 | 6008 => run_scheme code ps vs
  | 6009 => run_keygen ps vs
  | 6020 => Some [v vs 0]
  | _ => None
  end.
