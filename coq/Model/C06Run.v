(* Executable entry point of the C06 model (fresh ciphertexts carry the configured randomness).

   6001 GLWE sk, controlled seed changes.  header = C01 header.
        vs  = [pt; pt'; s; s'; ua; ua'; e; e']   (primed: the same quantity after flipping ONE of plaintext / secret seed /
                                                  mask seed / error seed; each variant changes exactly one of them)
        out = [[deterministic; mask_eq(pt'); body_eq(pt'); mask_eq(s'); body_eq(s'); mask_eq(e'); body_eq(e'); mask_eq(ua'); body_eq(ua')];
               baseline ciphertext]
        the model encrypts the five input tuples and compares its own ciphertexts
   6002 LWE sk, the same experiment (header = C01 header, vectors as 1002)
   6004 standard GGLWE-shaped object (kind ps[9]: 0 GGLWE, 1 switching key, 2 automorphism key, 3 tensor key,
        4 entry ps[15] of a GGLWE->GGSW key, 5 LWE switching key, 6 GLWE->LWE key, 7 LWE->GLWE key -- for 5..7 the LWE secret
        enters as sigma_{-1} of its zero-padded polynomial, computed by the harness with the library's own automorphism);
        header = C19 header
        vs  = [m (rank_in*n); s_out (rank_out*n); ua (the single mask stream, cells in draw order: col outer, row inner);
               errors (draw order); ua' (same prefix of the stream of the flipped mask seed); errors' (flipped error seed)]
        out = [cells in slot order; flags [deterministic; mask_eq(m'); mask_eq(e'); body_eq(e'); mask_eq(ua')]]
   6005 standard GGSW (kind 0), or entry ps[15] of a CGGI blind-rotation key over an LWE secret of dimension ps[4] (kind 1: GGSW i
        encrypts the constant polynomial s_lwe[i]; mask and error streams continue from GGSW to GGSW):
        vs = [m (n); s (rank*n); ua; errors; ua'; errors'], cells (row, col_j), plaintext on column col_j
   6020 statistics (support, not proof): vs = [numbers], out = [the same numbers recomputed]; see C06Oracle.v *)
From PV Require Import Base.MachineInt Model.Znx Model.Limbs Model.Flat Model.DftAbs Model.EncModel Model.C01Run Model.C19Run.
Open Scope Z_scope.

Definition eq_cols (n size : nat) (a b : list ccol) : bool := eqlz (of_cols n size a) (of_cols n size b).

Definition run_flip_glwe (ps : list Z) (vs : list (list Z)) : option (list (list Z)) :=
  let wb := wbig (p ps 0) in
  let n := np ps 1 in let b := p ps 2 in let size := np ps 3 in let rank := np ps 4 in let nk := p ps 5 in
  let psize := np ps 6 in
  let enc := fun (ptw sw uaw ew : list Z) =>
    enc_sk wb b n size rank nk (Some (to_ccol n psize ptw, O)) (chunks n rank sw) (stream uaw) ew in
  let pt := v vs 0 in let pt' := v vs 1 in let s := v vs 2 in let s' := v vs 3 in
  let ua := v vs 4 in let ua' := v vs 5 in let e := v vs 6 in let e' := v vs 7 in
  match enc pt s ua e, enc pt' s ua e, enc pt s' ua e, enc pt s ua e', enc pt s ua' e with
  | Some c0, Some c1, Some c2, Some c3, Some c4 =>
      let meq := fun c => bz (eq_cols n size (tl c0) (tl c)) in
      let beq := fun c => bz (eq_cols n size [hd [] c0] [hd [] c]) in
      Some [[1; meq c1; beq c1; meq c2; beq c2; meq c3; beq c3; meq c4; beq c4]; of_cols n size c0]
  | _, _, _, _, _ => None
  end.

Definition lwe_ct (b : Z) (n size : nat) (nk : Z) (pt s ua : list Z) (e : Z) : option (list (list Z) * list Z) :=
  let a := lwe_mask b n size (stream ua) in
  match lwe_enc_body b size nk pt s a e with Some body => Some (a, body) | None => None end.

Definition run_flip_lwe (ps : list Z) (vs : list (list Z)) : option (list (list Z)) :=
  let n := np ps 1 in let b := p ps 2 in let size := np ps 3 in let nk := p ps 5 in
  let pt := v vs 0 in let pt' := v vs 1 in let s := v vs 2 in let s' := v vs 3 in
  let ua := v vs 4 in let ua' := v vs 5 in let e := nthZ (v vs 6) 0 in let e' := nthZ (v vs 7) 0 in
  let enc := lwe_ct b n size nk in
  match enc pt s ua e, enc pt' s ua e, enc pt s' ua e, enc pt s ua e', enc pt s ua' e with
  | Some c0, Some c1, Some c2, Some c3, Some c4 =>
      let meq := fun c => bz (eqlz (concat (fst c0)) (concat (fst c))) in
      let beq := fun c => bz (eqlz (snd c0) (snd c)) in
      Some [[1; meq c1; beq c1; meq c2; beq c2; meq c3; beq c3; meq c4; beq c4];
            concat (map (fun j => nthZ (snd c0) j :: nth j (fst c0) []) (seq 0 size))]
  | _, _, _, _, _ => None
  end.

(* digits actually consumed from a mask stream prefix *)
Definition digits (b : Z) (us : list Z) : list Z := map (uniform_digit b) us.

(* flags of a standard gadget object predicted from the non-interference theorems:
   [deterministic; mask_eq under another plaintext; mask_eq under another error seed; body_eq under another error seed
    (only if the replayed errors coincide); mask_eq under another mask seed (only if the digits coincide)] *)
(* two error vectors give the same bodies iff they agree modulo 2^((limb+1) b): the error sits on limb `limb` of a value on the
   torus, so a difference that is a multiple of 2^((limb+1) b) is a whole number of turns (only possible when the noise is wider
   than the torus at that limb, i.e. degenerate parameters) *)
Definition errs_same_on_torus (b nk : Z) (errs errs' : list Z) : bool :=
  let M := 2 ^ ((Z.of_nat (target_limb nk b) + 1) * b) in
  Nat.eqb (length errs) (length errs') && forallb (fun q => (fst q - snd q) mod M =? 0) (combine errs errs').
Definition gadget_flags (b nk : Z) (ua ua' errs errs' : list Z) : list Z :=
  [1; 1; 1; bz (errs_same_on_torus b nk errs errs'); bz (eqlz (digits b ua) (digits b ua'))].

Definition run_gglwe_std (ps : list Z) (vs : list (list Z)) : option (list (list Z)) :=
  let wb := wbig (p ps 0) in
  let n := np ps 1 in let b := p ps 2 in let size := np ps 3 in let rin := np ps 4 in let rout := np ps 5 in
  let dnum := np ps 6 in let dsize := np ps 7 in let nk := p ps 8 in
  let ms := chunks n rin (v vs 0) in
  let sk := chunks n rout (v vs 1) in
  let clen := (rout * size * n)%nat in
  let slots := flat_map (fun row => map (fun col => (row, col)) (seq 0 rin)) (seq 0 dnum) in
  match sequence (map (fun rc =>
           let row := fst rc in let col := snd rc in
           let d := gglwe_draw_index dnum row col in
           gadget_cell wb b n size rout dsize nk row O (nth col ms []) sk
             (slice (d * clen) clen (v vs 2)) (slice (d * clen) clen (v vs 2)) (slice (d * n) n (v vs 3))) slots) with
  | None => None
  | Some cells => Some [concat (map (of_cols n size) cells); gadget_flags b nk (v vs 2) (v vs 4) (v vs 3) (v vs 5)]
  end.

Definition run_ggsw_std (ps : list Z) (vs : list (list Z)) : option (list (list Z)) :=
  let wb := wbig (p ps 0) in
  let n := np ps 1 in let b := p ps 2 in let size := np ps 3 in let rank := np ps 5 in
  let dnum := np ps 6 in let dsize := np ps 7 in let nk := p ps 8 in
  let m := v vs 0 in
  let sk := chunks n rank (v vs 1) in
  let clen := (rank * size * n)%nat in
  let slots := flat_map (fun row => map (fun col => (row, col)) (seq 0 (S rank))) (seq 0 dnum) in
  match sequence (map (fun rc =>
           let row := fst rc in let col := snd rc in
           let d := ggsw_draw_index rank row col in
           gadget_cell wb b n size rank dsize nk row col m sk
             (slice (d * clen) clen (v vs 2)) (slice (d * clen) clen (v vs 2)) (slice (d * n) n (v vs 3))) slots) with
  | None => None
  | Some cells => Some [concat (map (of_cols n size) cells); gadget_flags b nk (v vs 2) (v vs 4) (v vs 3) (v vs 5)]
  end.

Definition run_c06 (code : Z) (ps : list Z) (vs : list (list Z)) : option (list (list Z)) :=
  match code with
  | 6001 => run_flip_glwe ps vs
  | 6002 => run_flip_lwe ps vs
  | 6004 => run_gglwe_std ps vs
  | 6005 => run_ggsw_std ps vs
  | 6020 => Some [v vs 0]
  | _ => None
  end.
