(* C12 - executable entry points for the correspondence check.

   record codes (harness/src/bin/c12.rs):
     12000 + op   formula value          params [be; n; shape..]      -> [[bytes]]
     12500 + op   exact-window run       same params                  -> [[bytes; panic_kind; canary_ok]]
     12700 + op   oracle-only run (two scratch fills)                 -> [[bytes; panic_kind; canary_ok; outputs_equal]]
   be: 1 FFT64Ref 2 FFT64Avx 3 NTT120Ref 4 NTT120Avx.  A layout description travels as six numbers
   base2k, k, rank, rank_in, dnum, dsize (size = ceil(k / base2k)). *)
From PV Require Import Base.MachineInt Model.C12Scratch Gen.C12TmpBytes_gen Model.C12Trees.
Open Scope Z_scope.

Definition p (ps : list Z) (i : nat) : Z := nth i ps 0.
Definition fam_of_be (be : Z) : Z := if be <=? 2 then 0 else 1.

Definition inf (ps : list Z) (i : nat) (n : Z) : infos :=
  mkInfos n (p ps i) (div_ceil (p ps (i + 1)) (p ps i)) (p ps (i + 2)) (p ps (i + 3)) (p ps (i + 4)) (p ps (i + 5)).

(* declared size and take tree of operation `op` at the shape `ps` *)
Definition decl (op : Z) (ps : list Z) : option (Z * tree) :=
  let fam := fam_of_be (p ps 0) in
  let n := p ps 1 in
  let q := p ps in
  match op with
  | 1 | 2 => Some (hal_vec_znx_normalize_tmp_bytes fam n, t_vec_znx_normalize n)
  | 3 | 4 | 7 | 9 => Some (hal_vec_znx_rsh_tmp_bytes fam n, t_vec_znx_rsh n)
  | 5 | 6 | 8 | 10 => Some (hal_vec_znx_lsh_tmp_bytes fam n, t_vec_znx_lsh n)
  | 11 => Some (hal_vec_znx_rotate_assign_tmp_bytes fam n, t_vec_znx_rotate_assign n)
  | 12 => Some (hal_vec_znx_automorphism_assign_tmp_bytes fam n, t_vec_znx_automorphism_assign n)
  | 13 => Some (hal_vec_znx_mul_xp_minus_one_assign_tmp_bytes fam n, t_vec_znx_mul_xp_minus_one_assign n)
  | 14 => Some (hal_vec_znx_split_ring_tmp_bytes fam n, t_vec_znx_split_ring n)
  | 20 => Some (hal_vec_znx_big_normalize_tmp_bytes fam n, t_big_normalize fam n)
  | 21 => Some (hal_vec_znx_big_automorphism_assign_tmp_bytes fam n, t_big_automorphism_assign fam n)
  | 30 => Some (hal_vmp_prepare_tmp_bytes fam n (q 2%nat) (q 3%nat) (q 4%nat) (q 5%nat), t_vmp_prepare fam n)
  | 31 => Some (hal_vmp_apply_dft_to_dft_tmp_bytes fam n (q 2%nat) (q 3%nat) (q 4%nat) (q 5%nat) (q 6%nat) (q 7%nat),
                t_vmp_apply_dft_to_dft fam (q 3%nat) (q 4%nat) (q 5%nat))
  | 32 => Some (halimpl_vmp_apply_dft_tmp_bytes fam n (q 2%nat) (q 3%nat) (q 4%nat) (q 5%nat) (q 6%nat) (q 7%nat),
                t_vmp_apply_dft fam n (q 3%nat) (q 4%nat) (q 5%nat))
  | 40 => Some (hal_vec_znx_idft_apply_tmp_bytes fam n, t_idft_apply fam n)
  | 50 => Some (api_cnv_prepare_left_tmp_bytes fam n (q 2%nat) (q 3%nat), t_cnv_prepare_left fam n (q 2%nat) (q 3%nat))
  | 51 => Some (api_cnv_prepare_right_tmp_bytes fam n (q 2%nat) (q 3%nat), t_cnv_prepare_right fam n (q 2%nat) (q 3%nat))
  | 52 => Some (api_cnv_prepare_self_tmp_bytes fam n (q 2%nat) (q 3%nat), t_cnv_prepare_self fam n (q 2%nat) (q 3%nat))
  | 53 => Some (api_cnv_apply_dft_tmp_bytes fam n (q 2%nat) (q 3%nat) (q 4%nat) (q 5%nat), t_cnv_apply_dft fam (q 3%nat) (q 4%nat) (q 5%nat))
  | 54 => Some (api_cnv_by_const_apply_tmp_bytes fam n (q 2%nat) (q 3%nat) (q 4%nat) (q 5%nat), t_cnv_by_const_apply fam (q 3%nat) (q 4%nat) (q 5%nat))
  | 55 => Some (api_cnv_pairwise_apply_dft_tmp_bytes fam n (q 3%nat) (q 2%nat) (q 4%nat) (q 5%nat), t_cnv_pairwise_apply_dft fam (q 3%nat) (q 4%nat) (q 5%nat))
  (* Scratch::split_mut(threads, len) on threads * len bytes: ps = [be; n; threads; len] *)
  | 60 => Some (q 2%nat * q 3%nat, split_mut (q 2%nat) (q 3%nat))
  | 101 => let lwe := mkInfos (q 2%nat) (q 3%nat) (div_ceil (q 4%nat) (q 3%nat)) 0 0 0 1 in
           Some (lwe_encrypt_sk_tmp_bytes fam n lwe, tree_lwe_encrypt_sk fam n lwe)
  | 102 => let lwe := mkInfos (q 2%nat) (q 3%nat) (div_ceil (q 4%nat) (q 3%nat)) 0 0 0 1 in
           Some (lwe_decrypt_tmp_bytes fam n lwe, tree_lwe_decrypt fam n lwe)
  | 103 => let g := inf ps 2 n in Some (glwe_encrypt_sk_tmp_bytes fam n g, tree_glwe_encrypt_sk fam n g)
  | 104 => let g := inf ps 2 n in Some (glwe_encrypt_pk_tmp_bytes fam n g, tree_glwe_encrypt_pk fam n g (i_size g))
  | 105 => let g := inf ps 2 n in Some (glwe_decrypt_tmp_bytes fam n g, tree_glwe_decrypt fam n g)
  (* glwe_public_key_generate: runs glwe_encrypt_sk in its own ScratchOwned::alloc(glwe_encrypt_sk_tmp_bytes), i.e. rounded up to 64 *)
  | 118 => let g := inf ps 2 n in
           Some ((glwe_encrypt_sk_tmp_bytes fam n g + 63) / 64 * 64, tree_glwe_encrypt_sk fam n g)
  | 106 => let r := inf ps 2 n in let a := inf ps 8 n in let k := inf ps 14 n in
           Some (glwe_keyswitch_tmp_bytes fam n r a k, tree_glwe_keyswitch fam n r a k)
  | 107 => let r := inf ps 2 n in let k := inf ps 14 n in
           Some (glwe_keyswitch_tmp_bytes fam n r r k, tree_glwe_keyswitch fam n r r k)
  | 108 => let r := inf ps 2 n in let a := inf ps 8 n in let g := inf ps 14 n in
           Some (glwe_external_product_tmp_bytes fam n r a g, tree_glwe_external_product fam n r a g)
  | 109 => let r := inf ps 2 n in let g := inf ps 14 n in
           Some (glwe_external_product_tmp_bytes fam n r r g, tree_glwe_external_product fam n r r g)
  | 110 => let r := inf ps 2 n in let a := inf ps 8 n in let k := inf ps 14 n in
           Some (glwe_automorphism_tmp_bytes fam n r a k, tree_glwe_automorphism fam n r a k)
  | 111 => let r := inf ps 2 n in let a := inf ps 8 n in let k := inf ps 14 n in
           Some (glwe_automorphism_tmp_bytes fam n r a k, tree_glwe_automorphism_add fam n r a k)
  | 112 => let r := inf ps 2 n in let a := inf ps 8 n in let k := inf ps 14 n in
           Some (glwe_trace_tmp_bytes fam n r a k, tree_glwe_trace fam n r a k (Z.log2 n - q 20%nat))
  | 119 => let r := inf ps 2 n in let k := inf ps 14 n in
           Some (glwe_trace_tmp_bytes fam n r r k, tree_glwe_trace_assign fam n r k (Z.log2 n - q 20%nat))
  | 113 => Some (glwe_normalize_tmp_bytes fam n, tree_glwe_normalize fam n (inf ps 2 n))
  | 114 => Some (glwe_shift_tmp_bytes fam n, tree_glwe_rsh fam n (inf ps 2 n))
  | 117 => Some (glwe_shift_tmp_bytes fam n, tree_glwe_lsh fam n (inf ps 2 n))
  | 115 => Some (glwe_rotate_tmp_bytes fam n, tree_glwe_rotate_assign fam n (inf ps 2 n))
  | 116 => let r := inf ps 2 n in let a := inf ps 8 n in
           Some (glwe_mul_const_tmp_bytes fam n r a (q 14%nat), tree_glwe_mul_const fam n r a (q 14%nat) (q 15%nat))
  | 120 => let k := inf ps 2 n in Some (gglwe_prepare_tmp_bytes fam n k, tree_gglwe_prepare fam n k)
  | 121 => let g := inf ps 2 n in Some (ggsw_prepare_tmp_bytes fam n g, tree_ggsw_prepare fam n g)
  | 122 => let r := inf ps 2 n in let a := inf ps 8 n in let k := inf ps 14 n in
           Some (gglwe_keyswitch_tmp_bytes fam n r a k, tree_gglwe_keyswitch fam n r a k)
  | 123 => let r := inf ps 2 n in let a := inf ps 8 n in let g := inf ps 14 n in
           Some (gglwe_external_product_tmp_bytes fam n r a g, tree_gglwe_external_product fam n r a g)
  | 124 => let r := inf ps 2 n in let a := inf ps 8 n in let g := inf ps 14 n in
           Some (ggsw_external_product_tmp_bytes fam n r a g, tree_ggsw_external_product fam n r a g)
  (* LWE operations: ps = [be; n; res_b2k; res_k; res_nlwe; a_b2k; a_k; a_nlwe; glwe(6); key(6)] *)
  | 143 => let r := mkInfos (q 4%nat) (q 2%nat) (div_ceil (q 3%nat) (q 2%nat)) 0 0 0 1 in
           let a := mkInfos (q 7%nat) (q 5%nat) (div_ceil (q 6%nat) (q 5%nat)) 0 0 0 1 in let k := inf ps 14 n in
           Some (lwe_keyswitch_tmp_bytes fam n r a k, tree_lwe_keyswitch fam n r a k)
  | 144 => let l := mkInfos (q 7%nat) (q 5%nat) (div_ceil (q 6%nat) (q 5%nat)) 0 0 0 1 in
           let g := inf ps 8 n in let k := inf ps 14 n in
           Some (glwe_from_lwe_tmp_bytes fam n g l k, tree_glwe_from_lwe fam n g l k)
  | 145 => let l := mkInfos (q 4%nat) (q 2%nat) (div_ceil (q 3%nat) (q 2%nat)) 0 0 0 1 in
           let g := inf ps 8 n in let k := inf ps 14 n in
           Some (lwe_from_glwe_tmp_bytes fam n l g k, tree_lwe_from_glwe fam n l g k)
  (* encryption of gadget ciphertexts and evaluation keys: ps = [be; n; key(6); n_lwe] *)
  | 130 => let k := inf ps 2 n in Some (gglwe_encrypt_sk_tmp_bytes fam n k, tree_gglwe_encrypt_sk fam n k)
  | 131 => let k := inf ps 2 n in Some (ggsw_encrypt_sk_tmp_bytes fam n k, tree_ggsw_encrypt_sk fam n k)
  | 132 => let k := inf ps 2 n in Some (glwe_switching_key_encrypt_sk_tmp_bytes fam n k, tree_glwe_switching_key_encrypt_sk fam n k)
  | 133 => let k := inf ps 2 n in Some (glwe_automorphism_key_encrypt_sk_tmp_bytes fam n k, tree_glwe_automorphism_key_encrypt_sk fam n k)
  | 134 => let k := inf ps 2 n in Some (glwe_tensor_key_encrypt_sk_tmp_bytes fam n k, tree_glwe_tensor_key_encrypt_sk fam n k)
  | 135 => let k := inf ps 2 n in Some (gglwe_to_ggsw_key_encrypt_sk_tmp_bytes fam n k, tree_gglwe_to_ggsw_key_encrypt_sk fam n k)
  | 136 => let k := inf ps 2 n in Some (lwe_switching_key_encrypt_sk_tmp_bytes fam n k, tree_lwe_switching_key_encrypt_sk fam n k)
  | 137 => let k := inf ps 2 n in Some (glwe_to_lwe_key_encrypt_sk_tmp_bytes fam n k, tree_glwe_to_lwe_key_encrypt_sk fam n k)
  | 138 => let k := inf ps 2 n in Some (lwe_to_glwe_key_encrypt_sk_tmp_bytes fam n k, tree_lwe_to_glwe_key_encrypt_sk fam n k)
  (* compressed encryptions: ps = [be; n; layout(6)] *)
  | 190 => let k := inf ps 2 n in Some (glwe_compressed_encrypt_sk_tmp_bytes fam n k, tree_glwe_compressed_encrypt_sk fam n k)
  | 191 => let k := inf ps 2 n in Some (gglwe_compressed_encrypt_sk_tmp_bytes fam n k, tree_gglwe_compressed_encrypt_sk fam n k)
  | 192 => let k := inf ps 2 n in Some (ggsw_compressed_encrypt_sk_tmp_bytes fam n k, tree_ggsw_compressed_encrypt_sk fam n k)
  | 193 => let k := inf ps 2 n in Some (glwe_switching_key_compressed_encrypt_sk_tmp_bytes fam n k, tree_glwe_switching_key_compressed_encrypt_sk fam n k)
  | 194 => let k := inf ps 2 n in Some (glwe_automorphism_key_compressed_encrypt_sk_tmp_bytes fam n k, tree_glwe_automorphism_key_compressed_encrypt_sk fam n k)
  | 195 => let k := inf ps 2 n in Some (glwe_tensor_key_compressed_encrypt_sk_tmp_bytes fam n k, tree_glwe_tensor_key_compressed_encrypt_sk fam n k)
  | 196 => let k := inf ps 2 n in Some (gglwe_to_ggsw_key_compressed_encrypt_sk_tmp_bytes fam n k, tree_gglwe_to_ggsw_key_compressed_encrypt_sk fam n k)
  (* ggsw_keyswitch / ggsw_automorphism / ggsw_from_gglwe: ps = [be; n; res ggsw(6); a ggsw(6); key(6); tsk(6)] *)
  | 140 => let r := inf ps 2 n in let a := inf ps 8 n in let k := inf ps 14 n in let t := inf ps 20 n in
           Some (ggsw_keyswitch_tmp_bytes fam n r a k t, tree_ggsw_keyswitch fam n r a k t)
  | 141 => let r := inf ps 2 n in let a := inf ps 8 n in let k := inf ps 14 n in let t := inf ps 20 n in
           Some (ggsw_automorphism_tmp_bytes fam n r a k t, tree_ggsw_automorphism fam n r a k t)
  | 146 => let r := inf ps 2 n in let t := inf ps 20 n in
           Some (ggsw_from_gglwe_tmp_bytes fam n r t, tree_ggsw_from_gglwe fam n r t)
  (* glwe_tensor_relinearize / glwe_tensor_square_apply: ps = [be; n; res(6); a(6); key(6); cnv_offset]; the prepared tensor key
     has rank_in = max(1, rank (rank + 1) / 2); the harness passes tsk_size = key.size() *)
  | 148 => let r := inf ps 2 n in let a := inf ps 8 n in let k := inf ps 14 n in
           let t := mkInfos n (i_base2k k) (i_size k) (i_rank k) (Z.max 1 ((i_rank k + 1) * i_rank k / 2)) (i_dnum k) (i_dsize k) in
           Some (glwe_tensor_relinearize_tmp_bytes fam n r a t, tree_glwe_tensor_relinearize fam n r a t (i_size k))
  | 149 => let r := inf ps 2 n in let a := inf ps 8 n in
           Some (glwe_tensor_square_apply_tmp_bytes fam n r a, tree_glwe_tensor_square_apply fam n r a (p ps 20))
  (* cmux family: ps = [be; n; res(6); a(6); ggsw(6); variant] (0 cmux, 1 cmux_assign, 2 cmux_assign_neg) *)
  | 184 => let r := inf ps 2 n in let a := inf ps 8 n in let g := inf ps 14 n in
           Some (cmux_tmp_bytes fam n r a g, if p ps 20 =? 2 then tree_cmux_assign_neg fam n r a g else tree_cmux fam n r g)
  (* FheUint two-word operations, multi-thread entry point: ps = [be; n; op; threads; T_BITS; max_state_size; res(6); ggsw(6); atk(6)] *)
  | 187 => let r := inf ps 6 n in let g := inf ps 12 n in let k := inf ps 18 n in
           Some (execute_bdd_circuit_2w_to_1w_multi_thread_tmp_bytes fam n (p ps 4) (p ps 3) (p ps 5) r g k,
                 tree_bdd_2w_to_1w_multi_thread fam n (p ps 4) (p ps 3) (p ps 5) r g k)
  (* glwe_pack: ps = [be; n; res(6); inputs(6); key(6)], log_gap_out = 0; the scratch is sized through the public query for
     the layout of the result and for the layout of the inputs *)
  | 147 => let r := inf ps 2 n in let a := inf ps 8 n in let k := inf ps 14 n in
           Some (Z.max (glwe_pack_tmp_bytes fam n r k) (glwe_pack_tmp_bytes fam n a k), tree_glwe_pack fam n r a k (Z.log2 n) 0)
  | _ => None
  end.

Definition run_c12 (code : Z) (ps : list Z) (vs : list (list Z)) : option (list (list Z)) :=
  if code <? 12500 then
    match decl (code - 12000) ps with Some (b, _) => Some [[b]] | None => None end
  else if code <? 12700 then
    match decl (code - 12500) ps with
    | Some (b, t) => Some [[b; fail_kind t (0, b); 1]]
    | None => None
    end
  else
    match decl (code - 12700) ps with
    | Some (b, t) => Some [[b; fail_kind t (0, b); 1; 1]]
    | None => None
    end.

(* the property statement on the implementation's observation: no panic, canaries intact,
   and (two-fill records) byte-identical outputs; formula records carry no statement *)
Definition oracle_c12 (code : Z) (ps : list Z) (vs outs : list (list Z)) : Z :=
  if code <? 12500 then 2
  else
    let o := nth 0 outs [] in
    let kind := nth 1 o 9 in
    let can := nth 2 o 0 in
    if code <? 12700 then
      if (kind =? 0) && (can =? 1) then 1 else 0
    else
      let eq := nth 3 o 0 in
      if (kind =? 0) && (can =? 1) && (eq =? 1) then 1 else 0.
