(* C18 — executable entry points for the correspondence check: type schemas of the 32 serialisable types,
   a parser of byte strings into model receivers, `run_c18` (prediction of what the implementation does)
   and `oracle_c18` (the property evaluated on the implementation's output).

   Records (harness/src/bin/c18.rs).  Every vector starts with a tag word (so that it is never empty).
     18001 READ       ps = [dbg; rk; tcode; has_pre; model; info...]   vs = [13::F; 13::S0; 13::S]
                      out = [[oc; woc_before; woc_after; acc]; 13::dump_before (empty when has_pre = 0); 13::dump_after; 15::raw_after]
     18002 WRITE      ps = [dbg; tcode; hdr...]                         vs = [15::data]           (HAL types)
                      out = [[woc]; 13::bytes]
     18003 ROUNDTRIP  ps = [dbg; rk; tcode; has_prex; model; has_prer]  vs = [13::Fx; 13::SX; 13::Fr; 13::S0]
                      out = [[woc_x; oc; woc_after; acc]; 13::written; 13::dump_after; 15::raw_after]
     18005 CONSTRUCT  ps = [dbg; tcode; sh...]                          out = [[woc]]   (alloc + fill + write_to of a grid shape)
     18004 DIST       ps = [tag; payload; model]                        out = [[woc; oc; tag'; payload']; 13::bytes]
   F = write_to of the freshly allocated (and filled) object: it fixes the capacities; S0 = an optional first
   stream read into it (so that the current dimensions differ from the capacity); S = the stream under test.
   dbg = 1: overflow checks on; rk = 0 Cursor, 1 a reader that delivers 3 bytes per call (partial read_exact), 2 &[u8];
   model = 0: the model in force; 1: the repaired readers; 2: repaired readers + staged composites (used to test work/proposed_fixes against a patched tree).
   oc / woc: 0 Ok, 1 Err, 2 panic (of the dump).  18011..18016 / 18031..18036 = single clauses of the oracle
   (same record), used by tools/props/c18.py to name the class of a failure. *)
From PV Require Import Base.MachineInt Model.C18Serial.
Open Scope Z_scope.

Definition p (ps : list Z) (i : nat) : Z := nth i ps 0.
Definition v (vs : list (list Z)) (i : nat) : list Z := tl (nth i vs []).
Definition b2 (z : Z) : bool := negb (z =? 0).
Definition obz (b : bool) : Z := if b then 1 else 0.

(* ---------- schemas ---------- *)
Inductive fkind := FK32 | FK64 | FKSeed | FKSeeds | FKDist.
Definition blank (k : fkind) : fval :=
  match k with FK32 => VU32 0 | FK64 => VU64 0 | FKSeed => VSeed zero_seed | FKSeeds => VSeeds [] | FKDist => VDist 6 0 end.
Definition wschema := (list (Z * fkind) * lkind)%type.
Definition blank_fields (l : list (Z * fkind)) : list field :=
  map (fun q => {| f_role := fst q; f_val := blank (snd q) |}) l.

Definition s_glwe : wschema := ([(1, FK32)], KVec).
Definition s_glwe_c : wschema := ([(1, FK32); (3, FK32); (8, FKSeed)], KVec).
Definition s_lwe_c : wschema := ([(2, FK32); (1, FK32); (8, FKSeed)], KVec).
Definition s_gglwe : wschema := ([(1, FK32); (4, FK32)], KMat).
Definition s_gglwe_c : wschema := ([(2, FK32); (1, FK32); (4, FK32); (3, FK32); (9, FKSeeds)], KMat).
Definition s_ksk : wschema := ([(5, FK32); (6, FK32); (1, FK32); (4, FK32)], KMat).
Definition s_atk : wschema := ([(7, FK64); (1, FK32); (4, FK32)], KMat).
Definition s_ksk_c : wschema := ([(5, FK32); (6, FK32)] ++ fst s_gglwe_c, KMat).
Definition s_atk_c : wschema := ([(7, FK64)] ++ fst s_gglwe_c, KMat).
Definition s_pk : wschema := ([(10, FKDist); (1, FK32)], KVec).

Inductive schema :=
| SF (k : lkind)
| SW (w : wschema)
| SK (pre : list (Z * fkind)) (w : wschema)
| SC                     (* CircuitBootstrappingKey: BlindRotationKey, atk, GGLWEToGGSWKey *)
| SB.                    (* BDDKey *)

Definition schema_of (tcode : Z) : option schema :=
  match tcode with
  | 1 => Some (SF KVec) | 2 => Some (SF KSca) | 3 => Some (SF KMat)
  | 10 | 11 => Some (SW s_glwe)                       (* GLWE, LWE *)
  | 12 => Some (SW s_glwe_c) | 13 => Some (SW s_lwe_c)
  | 14 | 15 | 20 => Some (SW s_gglwe)                 (* GGLWE, GGSW, GLWETensorKey *)
  | 16 | 17 | 26 => Some (SW s_gglwe_c)               (* GGLWECompressed, GGSWCompressed, GLWETensorKeyCompressed *)
  | 18 | 21 | 22 | 23 => Some (SW s_ksk)              (* GLWESwitchingKey, LWEToGLWEKey, LWESwitchingKey, GLWEToLWEKey *)
  | 19 => Some (SW s_atk)
  | 24 | 27 | 28 | 29 => Some (SW s_ksk_c)
  | 25 => Some (SW s_atk_c)
  | 30 => Some (SW s_pk)
  | 40 => Some (SK [] s_gglwe) | 41 => Some (SK [] s_gglwe_c)
  | 42 => Some (SK [(10, FKDist)] s_gglwe) | 43 => Some (SK [(10, FKDist)] s_gglwe_c)
  | 50 => Some SC | 51 => Some SB
  | _ => None
  end.

(* ---------- parser: byte string -> model object whose buffers are exactly the payloads ---------- *)
(* `alloc_aligned` pads every buffer to a multiple of DEFAULTALIGN = 64 bytes (zero-initialised): the capacity of a
   freshly allocated object is its payload rounded up (pad = true: F, Fx, Fr of the records) *)
Definition pad64 (d : bytes) : bytes :=
  d ++ repeat 0 (Z.to_nat ((64 - blen d mod 64) mod 64)).

Definition parse_flat_p (pad : bool) (k : lkind) (s : bytes) : option (flat * bytes) :=
  match rd_fields (nhdr k) s with
  | None => None
  | Some (h, s1) => match rd 8 s1 with
                    | None => None
                    | Some (len, s2) => if len <=? blen s2 then
                                          match take (Z.to_nat len) s2 with
                                          | Some (d, s3) => Some ({| fk := k; fh := h; fd := if pad then pad64 d else d |}, s3)
                                          | None => None
                                          end
                                        else None
                    end
  end.

Definition parse_flat := parse_flat_p false.

Inductive gobj := GF (f : flat) | GW (w : wobj) | GK (k : kseq) | GC (c : cbk) | GB (b : bdd).

Section Parse.
Variable pad : bool.

Definition parse_wobj (ws : wschema) (s : bytes) : option (wobj * bytes) :=
  match parse_fields (blank_fields (fst ws)) s with
  | None => None
  | Some (fs, s1) => match parse_flat_p pad (snd ws) s1 with
                     | None => None
                     | Some (b, s2) => Some ({| w_fields := fs; w_body := b |}, s2)
                     end
  end.

Fixpoint parse_keys (ws : wschema) (cnt : nat) (s : bytes) : option (list wobj * bytes) :=
  match cnt with
  | O => Some ([], s)
  | S c => match parse_wobj ws s with
           | None => None
           | Some (w, s1) => match parse_keys ws c s1 with
                             | None => None
                             | Some (l, s2) => Some (w :: l, s2)
                             end
           end
  end.

Definition max_count : Z := 100000.

Definition parse_kseq (pre : list (Z * fkind)) (ws : wschema) (s : bytes) : option (kseq * bytes) :=
  match parse_fields (blank_fields pre) s with
  | None => None
  | Some (fs, s1) => match rd 8 s1 with
                     | None => None
                     | Some (cnt, s2) => if cnt <=? max_count then
                                           match parse_keys ws (Z.to_nat cnt) s2 with
                                           | None => None
                                           | Some (ks, s3) => Some ({| k_pre := fs; k_keys := ks |}, s3)
                                           end
                                         else None
                     end
  end.

Fixpoint parse_atk (cnt : nat) (s : bytes) : option (list (Z * wobj) * bytes) :=
  match cnt with
  | O => Some ([], s)
  | S c => match rd 8 s with
           | None => None
           | Some (g, s1) => match parse_wobj s_atk s1 with
                             | None => None
                             | Some (w, s2) => match parse_atk c s2 with
                                               | None => None
                                               | Some (l, s3) => Some ((wrap 64 g, w) :: l, s3)
                                               end
                             end
           end
  end.

Definition parse_cbk (s : bytes) : option (cbk * bytes) :=
  match parse_kseq [(10, FKDist)] s_gglwe s with
  | None => None
  | Some (brk, s1) =>
    match rd 8 s1 with
    | None => None
    | Some (cnt, s2) =>
      if cnt <=? max_count then
        match parse_atk (Z.to_nat cnt) s2 with
        | None => None
        | Some (atk, s3) => match parse_kseq [] s_gglwe s3 with
                            | None => None
                            | Some (tsk, s4) => Some ({| c_brk := brk; c_atk := atk; c_tsk := tsk |}, s4)
                            end
        end
      else None
    end
  end.

Definition parse_bdd (s : bytes) : option (bdd * bytes) :=
  match parse_cbk s with
  | None => None
  | Some (c, s1) =>
    match rd 1 s1 with
    | None => None
    | Some (tag, s2) =>
      let fin (g : option wobj) (s3 : bytes) :=
        match parse_wobj s_ksk s3 with
        | None => None
        | Some (l, s4) => Some ({| b_cbt := c; b_ksg := g; b_ksl := l |}, s4)
        end in
      if tag =? 0 then fin None s2
      else if tag =? 1 then match parse_wobj s_ksk s2 with None => None | Some (g, s3) => fin (Some g) s3 end
      else None
    end
  end.


Definition parse_gobj_p (sc : schema) (s : bytes) : option gobj :=
  match sc with
  | SF k => match parse_flat_p pad k s with Some (f, _) => Some (GF f) | None => None end
  | SW w => match parse_wobj w s with Some (x, _) => Some (GW x) | None => None end
  | SK pre w => match parse_kseq pre w s with Some (x, _) => Some (GK x) | None => None end
  | SC => match parse_cbk s with Some (x, _) => Some (GC x) | None => None end
  | SB => match parse_bdd s with Some (x, _) => Some (GB x) | None => None end
  end.
End Parse.

Definition parse_fresh := parse_gobj_p true.      (* F: buffers padded to the allocation size *)
Definition parse_gobj := parse_gobj_p false.      (* dumps: buffers = active bytes *)

(* ---------- generic read / dump ---------- *)
(* m = 0: the model in force (the reader_X definitions); 1: the repaired readers; 2: the repaired readers with staged composites *)
Definition read_gobj (m : Z) (dbg partial : bool) (g : gobj) (s : bytes) : outcome * gobj :=
  match g with
  | GF f => let '(o, x, _) := (if m =? 0 then reader_flat else fixed_flat) dbg partial f s in (o, GF x)
  | GW w => let '(o, x, _) := (if m =? 0 then reader_wobj else fixed_wobj) dbg partial w s in (o, GW x)
  | GK k => let '(o, x, _) := (if m =? 0 then reader_kseq else if m =? 2 then staged_kseq else fixed_kseq) dbg partial k s in (o, GK x)
  | GC c => let '(o, x, _) := (if m =? 0 then reader_cbk else if m =? 2 then staged_cbk else fixed_cbk) dbg partial c s in (o, GC x)
  | GB b => let '(o, x, _) := (if m =? 0 then reader_bdd else if m =? 2 then staged_bdd else fixed_bdd) dbg partial b s in (o, GB x)
  end.

Definition dump_gobj (dbg : bool) (g : gobj) : outcome * bytes :=
  match g with
  | GF f => write_flat_o dbg f
  | GW w => write_wobj_o dbg w
  | GK k => write_kseq_o dbg k
  | GC c => write_cbk_o dbg c
  | GB b => write_bdd_o dbg b
  end.

Definition raw_gobj (g : gobj) : list Z :=
  match g with GF f => fh f ++ fd f | _ => [] end.

(* aux of the shape vector (VecZnx, GLWE): active limb count + 1, set after allocation (max_size and the buffer stay) *)
Definition apply_aux (tcode aux : Z) (g : gobj) : gobj :=
  if ((tcode =? 1) || (tcode =? 10)) && (0 <? aux) then
    match g with
    | GF f => GF {| fk := fk f; fh := set_nth 2 (aux - 1) (fh f); fd := fd f |}
    | GW w => GW {| w_fields := w_fields w;
                    w_body := {| fk := fk (w_body w); fh := set_nth 2 (aux - 1) (fh (w_body w)); fd := fd (w_body w) |} |}
    | _ => g
    end
  else g.

(* ---------- run ---------- *)
Definition pre_read (fixedm : Z) (dbg partial has : bool) (g : gobj) (s0 : bytes) : option gobj :=
  if has then let '(o, g') := read_gobj fixedm dbg partial g s0 in if is_panic o then None else Some g'
  else Some g.

Definition run_read (ps : list Z) (vs : list (list Z)) : option (list (list Z)) :=
  let dbg := b2 (p ps 0) in let partial := (p ps 1 =? 1) in let fixedm := p ps 4 in
  match schema_of (p ps 2) with
  | None => None
  | Some sc =>
    match parse_fresh sc (v vs 0) with
    | None => None
    | Some g00 =>
      let g0 := apply_aux (p ps 2) (p ps 13) g00 in
      match pre_read fixedm dbg partial (b2 (p ps 3)) g0 (v vs 1) with
      | None => None
      | Some g1 =>
        let '(wb, db) := if b2 (p ps 3) then dump_gobj dbg g1 else (Ok, []) in
        let '(oc, g2) := read_gobj fixedm dbg partial g1 (v vs 2) in
        if is_panic oc then None
        else let '(wa, da) := dump_gobj dbg g2 in
             Some [[outcome_code oc; outcome_code wb; outcome_code wa; 1]; 13 :: db; 13 :: da; 15 :: raw_gobj g2]
      end
    end
  end.

Definition run_write (ps : list Z) (vs : list (list Z)) : option (list (list Z)) :=
  let dbg := b2 (p ps 0) in
  match schema_of (p ps 1) with
  | Some (SF k) =>
    let f := {| fk := k; fh := firstn (nhdr k) (skipn 2 ps); fd := v vs 0 |} in
    let '(o, b) := write_flat_o dbg f in
    if is_panic o then None else Some [[outcome_code o]; 13 :: b]
  | _ => None
  end.

Definition run_roundtrip (ps : list Z) (vs : list (list Z)) : option (list (list Z)) :=
  let dbg := b2 (p ps 0) in let partial := (p ps 1 =? 1) in let fixedm := p ps 4 in
  match schema_of (p ps 2) with
  | None => None
  | Some sc =>
    match parse_fresh sc (v vs 0), parse_fresh sc (v vs 2) with
    | Some x00, Some r00 =>
      let x0 := apply_aux (p ps 2) (p ps 14) x00 in let r0 := apply_aux (p ps 2) (p ps 24) r00 in
      match pre_read fixedm dbg partial (b2 (p ps 3)) x0 (v vs 1), pre_read fixedm dbg partial (b2 (p ps 5)) r0 (v vs 3) with
      | Some x, Some r =>
        let '(wx, sx) := dump_gobj dbg x in
        let '(oc, r') := read_gobj fixedm dbg partial r sx in
        if is_panic oc then None
        else let '(wa, da) := dump_gobj dbg r' in
             Some [[outcome_code wx; outcome_code oc; outcome_code wa; 1]; 13 :: sx; 13 :: da; 15 :: raw_gobj r']
      | _, _ => None
      end
    | _, _ => None
    end
  end.

Definition run_dist (ps : list Z) : option (list (list Z)) :=
  match (if b2 (p ps 2) then dist_write_fixed (p ps 0) (p ps 1) else dist_writer (p ps 0) (p ps 1)) with
  | None => Some [[1; 1; 0; 0]; [13]]                  (* repaired writer: refused, nothing written, nothing to read *)
  | Some wd =>
    let bs := le_bytes 8 wd in
    match rd 8 bs with
    | Some (w, _) => match dist_decode w with
                     | Some (t, q) => Some [[0; 0; t; q]; 13 :: bs]
                     | None => Some [[0; 1; 0; 0]; 13 :: bs]
                     end
    | None => None
    end
  end.

Definition run_c18 (code : Z) (ps : list Z) (vs : list (list Z)) : option (list (list Z)) :=
  match code with
  | 18001 | 18011 | 18012 | 18013 | 18014 | 18015 | 18016 => run_read ps vs
  | 18002 => run_write ps vs
  | 18003 | 18031 | 18032 | 18033 | 18034 | 18035 | 18036 => run_roundtrip ps vs
  | 18004 => run_dist ps
  | 18005 => Some [[0]]                 (* a shape of the grid is allocated, filled and written: must succeed *)
  | _ => None
  end.

(* ---------- oracle: spec-level notions on what the implementation reported ---------- *)
Definition leaves_w (w : wobj) : list flat := [w_body w].
Definition leaves_k (k : kseq) : list flat := map w_body (k_keys k).
Definition leaves_c (c : cbk) : list flat := leaves_k (c_brk c) ++ map (fun q => w_body (snd q)) (c_atk c) ++ leaves_k (c_tsk c).
Definition leaves (g : gobj) : list flat :=
  match g with
  | GF f => [f] | GW w => leaves_w w | GK k => leaves_k k | GC c => leaves_c c
  | GB b => leaves_c (b_cbt b) ++ match b_ksg b with Some w => [w_body w] | None => [] end ++ [w_body (b_ksl b)]
  end.

Definition wobjs_k (k : kseq) : list wobj := k_keys k.
Definition wobjs_c (c : cbk) : list wobj := wobjs_k (c_brk c) ++ map snd (c_atk c) ++ wobjs_k (c_tsk c).
Definition wobjs (g : gobj) : list wobj :=
  match g with
  | GF _ => [] | GW w => [w] | GK k => wobjs_k k | GC c => wobjs_c c
  | GB b => wobjs_c (b_cbt b) ++ match b_ksg b with Some w => [w] | None => [] end ++ [b_ksl b]
  end.

(* metadata = everything but the coefficient bytes, as a list of words *)
Definition meta_fval (f : fval) : list Z :=
  match f with
  | VU32 x => [1; x] | VU64 x => [2; x] | VSeed b => 3 :: b
  | VSeeds l => 4 :: Z.of_nat (length l) :: concat l | VDist t q => [5; t; q]
  end.
Definition meta_fields (fs : list field) : list Z := concat (map (fun f => f_role f :: meta_fval (f_val f)) fs).
Definition meta_flat (f : flat) : list Z := 6 :: fh f.
Definition meta_w (w : wobj) : list Z := meta_fields (w_fields w) ++ meta_flat (w_body w).
Definition meta_k (k : kseq) : list Z := meta_fields (k_pre k) ++ 7 :: Z.of_nat (length (k_keys k)) :: concat (map meta_w (k_keys k)).
Definition meta_c (c : cbk) : list Z := meta_k (c_brk c) ++ concat (map (fun q => 8 :: fst q :: meta_w (snd q)) (c_atk c)) ++ meta_k (c_tsk c).
Definition meta (g : gobj) : list Z :=
  match g with
  | GF f => meta_flat f | GW w => meta_w w | GK k => meta_k k | GC c => meta_c c
  | GB b => meta_c (b_cbt b) ++ match b_ksg b with Some w => 9 :: meta_w w | None => [10] end ++ meta_w (b_ksl b)
  end.

Fixpoint eq_list (a b : list Z) : bool :=
  match a, b with
  | [], [] => true
  | x :: a', y :: b' => (x =? y) && eq_list a' b'
  | _, _ => false
  end.

(* header consistent with a buffer of `cap` bytes; exact integer arithmetic *)
Definition inv_hdrb (k : lkind) (h : list Z) (cap : Z) : bool :=
  (length h =? nhdr k)%nat && (lprod (cap_factors k h) <=? cap) &&
  (match k with KVec => hd_ h 2 <=? hd_ h 3 | _ => true end).
Definition act_hdrb (k : lkind) (h : list Z) (cap : Z) : bool :=
  (length h =? nhdr k)%nat && (lprod (factors k h) <=? cap).

Fixpoint all2 {A B} (f : A -> B -> bool) (l : list A) (m : list B) : bool :=
  match l, m with
  | [], [] => true
  | a :: l', b :: m' => f a b && all2 f l' m'
  | _, _ => false
  end.

Definition caps_of (g : gobj) : list Z := map (fun f => blen (fd f)) (leaves g).
Definition inv_g (caps : list Z) (g : gobj) : bool := all2 (fun f c => inv_hdrb (fk f) (fh f) c) (leaves g) caps.
Definition act_g (caps : list Z) (g : gobj) : bool := all2 (fun f c => act_hdrb (fk f) (fh f) c) (leaves g) caps.
Definition valid_g (g : gobj) : bool := forallb (fun w => fields_valid (w_fields w)) (wobjs g).

(* logical equality of two objects: headers (max_size of a VecZnx excepted), scalar fields, active bytes *)
Definition logical_hdr (f : flat) : list Z := match fk f with KVec => firstn 3 (fh f) | _ => fh f end.
Definition logical_flat (f : flat) : list Z := logical_hdr f ++ 11 :: fd f.   (* parsed objects: fd = the active bytes *)
Definition logical_w (w : wobj) : list Z := meta_fields (w_fields w) ++ logical_flat (w_body w).
Definition logical_k (k : kseq) : list Z := meta_fields (k_pre k) ++ 7 :: Z.of_nat (length (k_keys k)) :: concat (map logical_w (k_keys k)).
Definition logical_c (c : cbk) : list Z :=
  logical_k (c_brk c) ++ concat (map (fun q => 8 :: fst q :: logical_w (snd q)) (c_atk c)) ++ logical_k (c_tsk c).
Definition logical (g : gobj) : list Z :=
  match g with
  | GF f => logical_flat f | GW w => logical_w w | GK k => logical_k k | GC c => logical_c c
  | GB b => logical_c (b_cbt b) ++ match b_ksg b with Some w => 9 :: logical_w w | None => [10] end ++ logical_w (b_ksl b)
  end.

(* shape of a composite that a receiver must share with the object: key counts, Galois elements, presence of ks_glwe *)
Definition shape_k (k : kseq) : list Z := [Z.of_nat (length (k_keys k))].
Definition shape_c (c : cbk) : list Z := shape_k (c_brk c) ++ Z.of_nat (length (c_atk c)) :: map fst (c_atk c) ++ shape_k (c_tsk c).
Definition shape_g (g : gobj) : list Z :=
  match g with
  | GF _ | GW _ => [] | GK k => shape_k k | GC c => shape_c c
  | GB b => shape_c (b_cbt b) ++ [match b_ksg b with Some _ => 1 | None => 0 end]
  end.

(* metadata of the composite ITSELF: the fields in front of a key sequence (dist), the key counts, the Galois elements
   of the automorphism keys, the presence of ks_glwe -- everything but the sub-keys.  The in-place composite readers
   commit it last (6f8da98), so it is unchanged after Err even when sub-keys 0..k-1 have been replaced.
   For the HAL types and the wrappers it is the whole metadata. *)
Definition top_k (k : kseq) : list Z := meta_fields (k_pre k) ++ [7; Z.of_nat (length (k_keys k))].
(* inside a CircuitBootstrappingKey / BDDKey the blind-rotation key is itself a sub-key: once it has been read
   completely its dist is replaced with it.  `brk_done` = the stream holds a syntactically complete blind-rotation
   key in front; when it does not, the read cannot have got past it and its dist must be unchanged as well. *)
Definition top_c (brk_done : bool) (c : cbk) : list Z :=
  (if brk_done then [] else meta_fields (k_pre (c_brk c))) ++
  7 :: Z.of_nat (length (k_keys (c_brk c))) :: 8 :: Z.of_nat (length (c_atk c)) :: map fst (c_atk c) ++
  [7; Z.of_nat (length (k_keys (c_tsk c)))].
Definition top_meta (brk_done : bool) (g : gobj) : list Z :=
  match g with
  | GF _ | GW _ => meta g
  | GK k => top_k k
  | GC c => top_c brk_done c
  | GB b => top_c brk_done (b_cbt b) ++ [match b_ksg b with Some _ => 9 | None => 10 end]
  end.
Definition brk_complete (s : bytes) : bool :=
  match parse_kseq false [(10, FKDist)] s_gglwe s with Some _ => true | None => false end.

(* a parsed stream object that a writer can have produced: every header describes exactly its payload with products below
   2^64 in the order the code multiplies, size <= max_size, non-zero radix / digit size *)
Definition honest_flat (f : flat) : bool :=
  (length (fh f) =? nhdr (fk f))%nat && negb (snd (chain (fixed_factors (fk f) (fh f)))) &&
  negb (snd (chain (factors (fk f) (fh f)))) && (lprod (factors (fk f) (fh f)) =? blen (fd f)) &&
  (match fk f with KVec => hd_ (fh f) 2 <=? hd_ (fh f) 3 | _ => true end).
Definition honest_g (g : gobj) : bool := forallb honest_flat (leaves g) && valid_g g.

(* clause selector: 0 = all, 1 = outcome + active bytes within the buffer, 2 = max_size within the buffer,
   3 = metadata unchanged on Err, 4 = no zero radix / digit size accepted,
   5 = round trip (READ records: a stream that is an honest serialisation is accepted and reproduced),
   6 = metadata of the composite itself (top_meta) unchanged on Err: implied by 3, used to tell "sub-keys 0..k-1
       replaced" (known) from "dist / counts changed" (never known) *)
Definition clauses (sel : Z) (a b c d e t : bool) : Z :=
  if sel =? 0 then obz (a && b && c && d && e && t)
  else if sel =? 1 then obz a else if sel =? 2 then obz (negb a || b) else if sel =? 3 then obz c
  else if sel =? 4 then obz d else if sel =? 5 then obz e else obz t.

Definition oracle_read (sel : Z) (ps : list Z) (vs outs : list (list Z)) : Z :=
  match schema_of (p ps 2) with
  | None => 2
  | Some sc =>
    match parse_fresh sc (v vs 0) with
    | None => 2
    | Some g00 =>
      let g0 := apply_aux (p ps 2) (p ps 13) g00 in
      let caps := caps_of g0 in
      let st := nth 0 outs [] in
      let oc := nth 0 st 9 in let wb := nth 1 st 9 in let wa := nth 2 st 9 in
      match (if b2 (p ps 3) then (if wb =? 0 then parse_gobj sc (v outs 1) else None) else Some g0) with
      | None => 2                                            (* receiver not in a valid state before the call *)
      | Some gb =>
        if negb (inv_g caps gb && valid_g gb) then 2
        else
          let ga := if wa =? 0 then parse_gobj sc (v outs 2) else None in
          let okoc := (oc =? 0) || (oc =? 1) in
          let a := okoc && match ga with Some g => act_g caps g | None => false end in
          let b := match ga with Some g => inv_g caps g | None => false end in
          let c := negb (oc =? 1) || match ga with Some g => eq_list (meta g) (meta gb) | None => false end in
          let d := negb (oc =? 0) || match ga with Some g => valid_g g | None => false end in
          let t := negb (oc =? 1) || match ga with Some g => let bd := brk_complete (v vs 2) in eq_list (top_meta bd g) (top_meta bd gb) | None => false end in
          (* a stream that IS the serialisation of a well-formed object of the receiver's shape, within its capacities, must be
             read (Ok) and reproduce that object: read_from may not reject what write_to produces *)
          let e := match parse_gobj sc (v vs 2) with
                   | Some x => if honest_g x && eq_list (shape_g x) (shape_g gb) && all2 (fun f c => blen (fd f) <=? c) (leaves x) caps
                               then (oc =? 0) && match ga with Some g => eq_list (logical g) (logical x) | None => false end
                               else true
                   | None => true
                   end in
          clauses sel a b c d e t
      end
    end
  end.

Definition oracle_roundtrip (sel : Z) (ps : list Z) (vs outs : list (list Z)) : Z :=
  match schema_of (p ps 2) with
  | None => 2
  | Some sc =>
    match parse_fresh sc (v vs 0), parse_fresh sc (v vs 2) with
    | Some x00, Some r00 =>
      let x0 := apply_aux (p ps 2) (p ps 14) x00 in let r0 := apply_aux (p ps 2) (p ps 24) r00 in
      let st := nth 0 outs [] in
      let wx := nth 0 st 9 in let oc := nth 1 st 9 in let wa := nth 2 st 9 in
      match (if wx =? 0 then parse_gobj sc (v outs 1) else None) with
      | None => 2                                            (* the object written was not well formed *)
      | Some x =>
        if negb (inv_g (caps_of x0) x && valid_g x) then 2
        else
          let caps := caps_of r0 in
          let ga := if wa =? 0 then parse_gobj sc (v outs 2) else None in
          let fits := eq_list (shape_g x) (shape_g r0) && all2 (fun f c => blen (fd f) <=? c) (leaves x) caps in
          let okoc := (oc =? 0) || (oc =? 1) in
          let a := okoc && match ga with Some g => act_g caps g | None => false end in
          let b := match ga with Some g => inv_g caps g | None => false end in
          let d := negb (oc =? 0) || match ga with Some g => valid_g g | None => false end in
          let e := if fits then (oc =? 0) && match ga with Some g => eq_list (logical g) (logical x) | None => false end
                   else (oc =? 1) in
          (* the receiver before the call is known when nothing was read into it first: r0 *)
          let known_before := negb (b2 (p ps 5)) in
          let c := negb known_before || negb (oc =? 1) || match ga with Some g => eq_list (meta g) (meta r0) | None => false end in
          let t := negb known_before || negb (oc =? 1) || match ga with Some g => let bd := brk_complete (v outs 1) in eq_list (top_meta bd g) (top_meta bd r0) | None => false end in
          clauses sel a b c d e t
      end
    | _, _ => 2
    end
  end.

Definition oracle_dist (ps : list Z) (outs : list (list Z)) : Z :=
  let st := nth 0 outs [] in
  let t := p ps 0 in
  let q := if dist_is_prob t || dist_is_fixed t then p ps 1 else 0 in
  if nth 0 st 9 =? 1 then obz (dist_is_fixed t && (2 ^ 56 <=? q))     (* a refusal to write is fine exactly for what the word cannot hold *)
  else obz ((nth 0 st 9 =? 0) && (nth 1 st 9 =? 0) && (nth 2 st 9 =? t) && (nth 3 st 9 =? q)).

(* WRITE of a HAL object through from_data: Ok iff the exact payload fits the buffer, and then the stream parses back *)
Definition oracle_write (ps : list Z) (vs outs : list (list Z)) : Z :=
  match schema_of (p ps 1) with
  | Some (SF k) =>
    let h := firstn (nhdr k) (skipn 2 ps) in
    let woc := nth 0 (nth 0 outs []) 9 in
    if act_hdrb k h (blen (v vs 0)) then
      obz ((woc =? 0) && match parse_flat k (v outs 1) with
                         | Some (f, []) => eq_list (fh f) h && eq_list (fd f) (firstn (length (fd f)) (v vs 0))
                         | _ => false
                         end)
    else obz (woc =? 1)
  | _ => 2
  end.

Definition oracle_c18 (code : Z) (ps : list Z) (vs outs : list (list Z)) : Z :=
  match code with
  | 18001 => oracle_read 0 ps vs outs
  | 18011 => oracle_read 1 ps vs outs | 18012 => oracle_read 2 ps vs outs
  | 18013 => oracle_read 3 ps vs outs | 18014 => oracle_read 4 ps vs outs
  | 18015 => oracle_read 5 ps vs outs | 18016 => oracle_read 6 ps vs outs
  | 18002 => oracle_write ps vs outs
  | 18003 => oracle_roundtrip 0 ps vs outs
  | 18031 => oracle_roundtrip 1 ps vs outs | 18032 => oracle_roundtrip 2 ps vs outs
  | 18033 => oracle_roundtrip 3 ps vs outs | 18034 => oracle_roundtrip 4 ps vs outs
  | 18035 => oracle_roundtrip 5 ps vs outs | 18036 => oracle_roundtrip 6 ps vs outs
  | 18004 => oracle_dist ps outs
  | 18005 => obz (nth 0 (nth 0 outs []) 9 =? 0)
  | _ => 2
  end.
