(* NTT120 scalar layer (q120 a/b/c formats, lazy accumulators, CRT reconstruction): model + executable entry for
   opcodes 71xx.  Faithful to poulpy-cpu-ref/src/reference/ntt120/{arithmetic,mat_vec,types}.rs and to the
   add/sub/negate loops of poulpy-cpu-ref/src/ntt120/prim.rs.  Constants come from Gen/C07Consts_gen.v.
   Conventions: a u64 value is a Z in [0, 2^64); every u64 `+`/`*` that the Rust code performs is written
   `u64 (..)` (= wrapu 64, release semantics); `x & (2^k - 1)` is `x mod 2^k`, `x >> k` is `x / 2^k`
   (both on non-negative values); i128 arithmetic goes through `wrap 128`.
   The butterfly networks (ntt_ref / intt_ref) are NOT modelled here. *)
From PV Require Import Base.MachineInt.
From PV Require Export Gen.C07Consts_gen.
Open Scope Z_scope.

Definition u64 (x : Z) : Z := wrapu 64 x.
Definition u32 (x : Z) : Z := wrapu 32 x.
Definition i128 (x : Z) : Z := wrap 128 x.
Definition qk (ps : primeset) (k : nat) : Z := nth k (ps_Q ps) 1.
Definition crtk (ps : primeset) (k : nat) : Z := nth k (ps_CRT ps) 0.
Definition omegak (ps : primeset) (k : nat) : Z := nth k (ps_OMEGA ps) 0.

(* mod.rs pow2_mod: square-and-multiply with u128 intermediates, exact *)
Definition pow2_mod (e q : Z) : Z := 2 ^ e mod q.

(* ---------------- arithmetic.rs ---------------- *)

(* OQ[k] = Q[k] - (2^63 mod Q[k]) *)
Definition oq (q : Z) : Z := q - 2 ^ 63 mod q.

(* b_from_znx64_ref, one coefficient, one prime: x is an i64 *)
Definition b_from_znx64_k (q x : Z) : Z :=
  let xu := u64 x in                       (* x as u64 *)
  let is_neg := 2 ^ 63 - 1 <? xu in        (* xu > mask_lo *)
  let xl := xu mod 2 ^ 63 in               (* xu & mask_lo *)
  u64 (xl + (if is_neg then oq q else 0)).
Definition b_from_znx64 (ps : primeset) (x : Z) : list Z := map (fun q => b_from_znx64_k q x) (ps_Q ps).
(* b_from_znx64_masked_ref: (x & mask) on i64 = two's-complement land *)
Definition b_from_znx64_masked (ps : primeset) (mask x : Z) : list Z := b_from_znx64 ps (Z.land x mask).

(* c_from_znx64_ref: r = x.rem_euclid(q); [r as u32, ((r << 32) % q) as u32] *)
Definition c_from_znx64_k (q x : Z) : list Z :=
  let r := x mod q in [u32 r; u32 (u64 (r * 2 ^ 32) mod q)].
Definition c_from_znx64 (ps : primeset) (x : Z) : list Z := flat_map (fun q => c_from_znx64_k q x) (ps_Q ps).

(* c_from_b_ref: x a u64 residue *)
Definition c_from_b_k (q x : Z) : list Z :=
  let r := x mod q in [u32 r; u32 (u64 (r * 2 ^ 32) mod q)].
Definition c_from_b (ps : primeset) (x : list Z) : list Z :=
  flat_map (fun p => c_from_b_k (fst p) (snd p)) (combine (ps_Q ps) x).

(* b_to_znx128_ref for one coefficient (x = its four u64 residues) *)
Definition total_q (ps : primeset) : Z :=
  i128 (i128 (i128 (qk ps 0 * qk ps 1) * qk ps 2) * qk ps 3).
Definition qm (ps : primeset) (k : nat) : Z :=
  match k with
  | 0%nat => i128 (i128 (qk ps 1 * qk ps 2) * qk ps 3)
  | 1%nat => i128 (i128 (qk ps 0 * qk ps 2) * qk ps 3)
  | 2%nat => i128 (i128 (qk ps 0 * qk ps 1) * qk ps 3)
  | _ => i128 (i128 (qk ps 0 * qk ps 1) * qk ps 2)
  end.
Definition crt_term (ps : primeset) (k : nat) (xk : Z) : Z :=
  let r := xk mod qk ps k in                               (* (x % Q[k] as u64) as i128 *)
  let t := Z.rem (i128 (r * crtk ps k)) (qk ps k) in       (* (xk * crt[k]) % q[k]  (i128 %, truncating) *)
  i128 (t * qm ps k).
Definition b_to_znx128 (ps : primeset) (x : list Z) : Z :=
  let tmp := fold_left (fun acc k => i128 (acc + crt_term ps k (nth k x 0))) (seq 0 4) 0 in
  let tq := total_q ps in
  let tmp := Z.rem tmp tq in
  let half := Z.quot (i128 (tq + 1)) 2 in
  if half <=? tmp then i128 (tmp - tq) else tmp.

(* add_bbb_ref / prim.rs NttAdd..NttNegate: per residue, qs = Q[k] << 33 *)
Definition qshift (q : Z) : Z := u64 (q * 2 ^ q_shift).
Definition add_bbb_k (q x y : Z) : Z := u64 (x mod qshift q + y mod qshift q).
Definition sub_bbb_k (q x y : Z) : Z := u64 (x mod qshift q + u64 (qshift q - y mod qshift q)).
Definition neg_b_k (q x : Z) : Z := u64 (qshift q - x mod qshift q).
(* add_ccc_ref: per u32 entry *)
Definition add_ccc_k (q x y : Z) : Z := u32 (u64 (x + y) mod q).

(* ---------------- mat_vec.rs ---------------- *)
Definition sum64 (l : list Z) : Z := fold_left (fun s t => u64 (s + t)) l 0.

(* vec_mat1col_product_baa_ref, one prime: pairs (x, y) of u32 *)
Definition baa_k (h q : Z) (xy : list (Z * Z)) : Z :=
  let t := map (fun p => u64 (fst p * snd p)) xy in
  let acc1 := sum64 (map (fun t => t mod 2 ^ h) t) in
  let acc2 := sum64 (map (fun t => t / 2 ^ h) t) in
  u64 (acc1 + u64 (acc2 * pow2_mod h q)).

(* vec_mat1col_product_bbb_ref, one prime: pairs (x, y) of u64 *)
Definition bbb_parts (p : Z * Z) : Z * Z * Z * Z :=
  let xl := fst p mod 2 ^ 32 in let xh := fst p / 2 ^ 32 in
  let yl := snd p mod 2 ^ 32 in let yh := snd p / 2 ^ 32 in
  let a := u64 (xl * yl) in let b := u64 (xl * yh) in let c := u64 (xh * yl) in let d := u64 (xh * yh) in
  (a mod 2 ^ 32,
   u64 (u64 (a / 2 ^ 32 + b mod 2 ^ 32) + c mod 2 ^ 32),
   u64 (u64 (b / 2 ^ 32 + c / 2 ^ 32) + d mod 2 ^ 32),
   d / 2 ^ 32).
Definition bbb_k (h q : Z) (xy : list (Z * Z)) : Z :=
  let ps := map bbb_parts xy in
  let s1 := sum64 (map (fun p => fst (fst (fst p))) ps) in
  let s2 := sum64 (map (fun p => snd (fst (fst p))) ps) in
  let s3 := sum64 (map (fun p => snd (fst p)) ps) in
  let s4 := sum64 (map (fun p => snd p) ps) in
  let lo s := s mod 2 ^ h in let hi s := s / 2 ^ h in
  let s1h_pow := u64 (2 ^ h) in
  let s2l_pow := pow2_mod 32 q in
  let s2h_pow := u64 (s2l_pow * s1h_pow) mod q in
  let s3l_pow := u64 (s2l_pow * s2l_pow) mod q in
  let s3h_pow := u64 (s3l_pow * s1h_pow) mod q in
  let s4l_pow := u64 (s3l_pow * s2l_pow) mod q in
  let s4h_pow := u64 (s4l_pow * s1h_pow) mod q in
  let t := lo s1 in
  let t := u64 (t + u64 (hi s1 * s1h_pow)) in
  let t := u64 (t + u64 (lo s2 * s2l_pow)) in
  let t := u64 (t + u64 (hi s2 * s2h_pow)) in
  let t := u64 (t + u64 (lo s3 * s3l_pow)) in
  let t := u64 (t + u64 (hi s3 * s3h_pow)) in
  let t := u64 (t + u64 (lo s4 * s4l_pow)) in
  u64 (t + u64 (hi s4 * s4h_pow)).

(* accum_mul_q120_bc, one prime: a term is ((x_lo, x_hi), (y_lo, y_hi)), four u32;
   contribution to the low / high accumulator *)
Definition bbc_lo (t : Z * Z * (Z * Z)) : Z :=
  let '(xl, xh, (yl, yh)) := t in u64 (u64 (xl * yl) mod 2 ^ 32 + u64 (xh * yh) mod 2 ^ 32).
Definition bbc_hi (t : Z * Z * (Z * Z)) : Z :=
  let '(xl, xh, (yl, yh)) := t in u64 (u64 (xl * yl) / 2 ^ 32 + u64 (xh * yh) / 2 ^ 32).
(* accum_to_q120b, one prime *)
Definition accum_to_q120b_k (h q slo shi : Z) : Z :=
  let s2l := shi mod 2 ^ h in             (* s & ((1 << h) - 1) *)
  let s2h := shi / 2 ^ h in
  u64 (u64 (slo + u64 (s2l * pow2_mod 32 q)) + u64 (s2h * pow2_mod (32 + h) q)).
(* vec_mat1col_product_bbc_ref, one prime *)
Definition bbc_k (h q : Z) (terms : list (Z * Z * (Z * Z))) : Z :=
  accum_to_q120b_k h q (sum64 (map bbc_lo terms)) (sum64 (map bbc_hi terms)).

(* ---------------- vector level (flat slices as in the Rust signatures) ---------------- *)
Definition pset (p : Z) : option primeset :=
  if p =? 29 then Some primes29 else if p =? 30 then Some primes30 else if p =? 31 then Some primes31 else None.

Fixpoint chunks (fuel k : nat) (l : list Z) : list (list Z) :=
  match fuel with
  | O => []
  | S f => match l with [] => [] | _ => firstn k l :: chunks f k (skipn k l) end
  end.
Definition chunk (k : nat) (l : list Z) : list (list Z) := chunks (length l) k l.
Definition nz (l : list Z) (i : nat) : Z := nth i l 0.

(* per-prime view of `ell` consecutive q120 elements of stride `st`, entry offset `o` *)
Definition col (st o : nat) (l : list Z) : list Z := map (fun c => nz c o) (chunk st l).

(* x: q120b seen as u32 pairs (8 per element); y: q120c (8 per element); both restricted to prime k *)
Definition bbc_terms (k : nat) (x y : list Z) : list (Z * Z * (Z * Z)) :=
  combine (combine (col 8 (2 * k) x) (col 8 (2 * k + 1) x)) (combine (col 8 (2 * k) y) (col 8 (2 * k + 1) y)).
Definition bbc_vec (ps : primeset) (x y : list Z) : list Z :=
  map (fun k => bbc_k (ps_bbc_h ps) (qk ps k) (bbc_terms k x y)) (seq 0 4).

(* x2 variants: element i holds two q120 values (16 u32) *)
Definition half (j : nat) (l : list Z) : list Z := concat (map (fun c => firstn 8 (skipn (8 * j) c)) (chunk 16 l)).
Definition quarter (j : nat) (l : list Z) : list Z := concat (map (fun c => firstn 8 (skipn (8 * j) c)) (chunk 32 l)).
Definition bbc_x2_vec (ps : primeset) (x y : list Z) : list Z :=
  bbc_vec ps (half 0 x) (half 0 y) ++ bbc_vec ps (half 1 x) (half 1 y).
Definition bbc_2cols_x2_vec (ps : primeset) (x y : list Z) : list Z :=
  bbc_vec ps (half 0 x) (quarter 0 y) ++ bbc_vec ps (half 1 x) (quarter 1 y) ++
  bbc_vec ps (half 0 x) (quarter 2 y) ++ bbc_vec ps (half 1 x) (quarter 3 y).

Definition bbb_vec (ps : primeset) (x y : list Z) : list Z :=
  map (fun k => bbb_k (ps_bbb_h ps) (qk ps k) (combine (col 4 k x) (col 4 k y))) (seq 0 4).
Definition baa_vec (ps : primeset) (x y : list Z) : list Z :=
  map (fun k => baa_k (ps_baa_h ps) (qk ps k) (combine (col 4 k x) (col 4 k y))) (seq 0 4).

(* element-wise maps over flat q120b / q120c slices *)
Definition map_b (f : Z -> Z -> Z) (ps : primeset) (x : list Z) : list Z :=
  concat (map (fun c => map (fun k => f (qk ps k) (nz c k)) (seq 0 4)) (chunk 4 x)).
Definition map2_b (f : Z -> Z -> Z -> Z) (ps : primeset) (x y : list Z) : list Z :=
  concat (map (fun p => map (fun k => f (qk ps k) (nz (fst p) k) (nz (snd p) k)) (seq 0 4)) (combine (chunk 4 x) (chunk 4 y))).
Definition add_ccc_vec (ps : primeset) (x y : list Z) : list Z :=
  concat (map (fun p => map (fun i => add_ccc_k (qk ps (i / 2)) (nz (fst p) i) (nz (snd p) i)) (seq 0 8))
              (combine (chunk 8 x) (chunk 8 y))).

(* the constants of the three Meta structs, as the harness prints them *)
Definition meta_consts (ps : primeset) : list (list Z) :=
  let q := ps_Q ps in
  let bh := ps_bbb_h ps in
  let s1h := u64 (2 ^ bh) in
  let s2l := map (pow2_mod 32) q in
  let mulq (a b : list Z) := map (fun p => u64 (fst (fst p) * snd (fst p)) mod snd p) (combine (combine a b) q) in
  let c1 := map (fun _ => s1h) q in
  let s2h := mulq s2l c1 in
  let s3l := mulq s2l s2l in
  let s3h := mulq s3l c1 in
  let s4l := mulq s3l s2l in
  let s4h := mulq s4l c1 in
  [ ps_baa_h ps :: map (pow2_mod (ps_baa_h ps)) q;
    bh :: s1h :: s2l ++ s2h ++ s3l ++ s3h ++ s4l ++ s4h;
    ps_bbc_h ps :: map (pow2_mod 32) q ++ map (pow2_mod (32 + ps_bbc_h ps)) q;
    Q_SHIFTED ].

Definition npar (ps : list Z) (i : nat) : Z := nth i ps 0.
Definition nvec (vs : list (list Z)) (i : nat) : list Z := nth i vs [].

(* header: be pset (rest of the header is zero padding: C07Run evaluates its own header fields eagerly once extracted, so every
   large argument travels in the vectors: the mask of 7102 is vs[1][0]);
   be = 3 reference functions, 4 / 5 = the NTT120Avx / NTT120Ref trait implementations (Primes30 only) *)
Definition run_c07_ntt (code : Z) (ps : list Z) (vs : list (list Z)) : option (list (list Z)) :=
  match pset (npar ps 1) with
  | None => None
  | Some P =>
    let x := nvec vs 0 in let y := nvec vs 1 in
    match code with
    | 7100 => Some (meta_consts P)
    | 7101 => Some [flat_map (b_from_znx64 P) x]
    | 7102 => Some [flat_map (b_from_znx64_masked P (nz y 0)) x]
    | 7103 => Some [flat_map (c_from_znx64 P) x]
    | 7104 => Some [concat (map (c_from_b P) (chunk 4 x))]
    | 7105 => Some [map (b_to_znx128 P) (chunk 4 x)]
    | 7106 => Some [map2_b add_bbb_k P x y]
    | 7107 => Some [add_ccc_vec P x y]
    | 7108 => Some [map2_b sub_bbb_k P x y]
    | 7109 => Some [map_b neg_b_k P x]
    | 7110 => Some [bbc_vec P x y]
    | 7111 => Some [bbc_x2_vec P x y]
    | 7112 => Some [bbc_2cols_x2_vec P x y]
    | 7113 => Some [bbb_vec P x y]
    | 7114 => Some [baa_vec P x y]
    | 7115 => Some [map (fun xi => b_to_znx128 P (b_from_znx64 P xi)) x]
    | 7116 => (* scalar pipeline: a -> q120b, b -> q120c, one-term bbc product, CRT reconstruction *)
        Some [map (fun ab => b_to_znx128 P (bbc_vec P (flat_map (fun r => [r mod 2 ^ 32; r / 2 ^ 32]) (b_from_znx64 P (fst ab)))
                                                       (c_from_znx64 P (snd ab))))
                  (combine x y)]
    | _ => None
    end
  end.

(* ---------------- oracle: spec-level statements evaluated on the implementation's outputs ---------------- *)
Definition allb {A} (f : A -> bool) (l : list A) : bool := forallb f l.
Definition is_u64 (x : Z) : bool := (0 <=? x) && (x <? 2 ^ 64).
Definition congb (q a b : Z) : bool := (a - b) mod q =? 0.
Definition Qprod (ps : primeset) : Z := qk ps 0 * qk ps 1 * qk ps 2 * qk ps 3.
(* exact dot product of two per-prime columns *)
Definition dot (a b : list Z) : Z := fold_left (fun s p => s + fst p * snd p) (combine a b) 0.
(* what the bbc kernel computes for arbitrary u32 inputs: sum of x_lo*y_lo + x_hi*y_hi; for a prepared operand
   (y_hi = y_lo * 2^32 mod q) this is the sum of x * y_lo, x = x_lo + 2^32 x_hi  (theorem bbc_congr) *)
Definition bbc_ok (P : primeset) (x y o : list Z) : bool :=
  allb (fun k => is_u64 (nz o k) &&
     congb (qk P k) (nz o k) (dot (col 8 (2 * k) x) (col 8 (2 * k) y) + dot (col 8 (2 * k + 1) x) (col 8 (2 * k + 1) y))) (seq 0 4).

Definition oracle_c07_ntt (code : Z) (ps : list Z) (vs outs : list (list Z)) : Z :=
  match pset (npar ps 1) with
  | None => 2
  | Some P =>
    let x := nvec vs 0 in let y := nvec vs 1 in let o := nvec outs 0 in
    let b2z (b : bool) : Z := if b then 1 else 0 in
    let ks := seq 0 4 in
    match code with
    | 7101 => (* every residue is a u64 congruent to the coefficient *)
        b2z (allb (fun pr => allb (fun k => is_u64 (nz (snd pr) k) && congb (qk P k) (nz (snd pr) k) (fst pr)) ks)
                  (combine x (chunk 4 o)))
    | 7102 => b2z (allb (fun pr => allb (fun k => is_u64 (nz (snd pr) k) && congb (qk P k) (nz (snd pr) k) (Z.land (fst pr) (nz y 0))) ks)
                  (combine x (chunk 4 o)))
    | 7103 => b2z (allb (fun pr => allb (fun k =>
                  let r := nz (snd pr) (2 * k) in let r' := nz (snd pr) (2 * k + 1) in
                  (0 <=? r) && (r <? qk P k) && (0 <=? r') && (r' <? qk P k) &&
                  congb (qk P k) r (fst pr) && congb (qk P k) r' (fst pr * 2 ^ 32)) ks) (combine x (chunk 8 o)))
    | 7104 => b2z (allb (fun pr => allb (fun k =>
                  let r := nz (snd pr) (2 * k) in let r' := nz (snd pr) (2 * k + 1) in
                  (0 <=? r) && (r <? qk P k) && (0 <=? r') && (r' <? qk P k) &&
                  congb (qk P k) r (nz (fst pr) k) && congb (qk P k) r' (nz (fst pr) k * 2 ^ 32)) ks)
                  (combine (chunk 4 x) (chunk 8 o)))
    | 7105 => (* the symmetric representative of the CRT class *)
        b2z (allb (fun pr => (2 * Z.abs (snd pr) <? Qprod P) &&
                             allb (fun k => congb (qk P k) (snd pr) (nz (fst pr) k)) ks) (combine (chunk 4 x) o))
    | 7106 => b2z (allb (fun pr => allb (fun k => is_u64 (nz (snd pr) k) &&
                  congb (qk P k) (nz (snd pr) k) (nz (fst (fst pr)) k + nz (snd (fst pr)) k)) ks)
                  (combine (combine (chunk 4 x) (chunk 4 y)) (chunk 4 o)))
    | 7108 => b2z (allb (fun pr => allb (fun k => is_u64 (nz (snd pr) k) &&
                  congb (qk P k) (nz (snd pr) k) (nz (fst (fst pr)) k - nz (snd (fst pr)) k)) ks)
                  (combine (combine (chunk 4 x) (chunk 4 y)) (chunk 4 o)))
    | 7109 => b2z (allb (fun pr => allb (fun k => is_u64 (nz (snd pr) k) &&
                  congb (qk P k) (nz (snd pr) k) (- nz (fst pr) k)) ks) (combine (chunk 4 x) (chunk 4 o)))
    | 7110 => b2z (bbc_ok P x y o)
    | 7111 => b2z (bbc_ok P (half 0 x) (half 0 y) (firstn 4 o) && bbc_ok P (half 1 x) (half 1 y) (skipn 4 o))
    | 7112 => b2z (bbc_ok P (half 0 x) (quarter 0 y) (firstn 4 o) && bbc_ok P (half 1 x) (quarter 1 y) (firstn 4 (skipn 4 o)) &&
                   bbc_ok P (half 0 x) (quarter 2 y) (firstn 4 (skipn 8 o)) && bbc_ok P (half 1 x) (quarter 3 y) (skipn 12 o))
    | 7113 => b2z (allb (fun k => is_u64 (nz o k) && congb (qk P k) (nz o k) (dot (col 4 k x) (col 4 k y))) ks)
    | 7114 => b2z (allb (fun k => is_u64 (nz o k) && congb (qk P k) (nz o k) (dot (col 4 k x) (col 4 k y))) ks)
    | 7115 => b2z (if list_eq_dec Z.eq_dec o x then true else false)
    | 7116 => b2z (if list_eq_dec Z.eq_dec o (map (fun ab => fst ab * snd ab) (combine x y)) then true else false)
    | _ => 2
    end
  end.
