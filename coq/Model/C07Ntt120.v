(* NTT120 scalar layer (q120 b/c formats, CRT reconstruction): model + executable entry for opcodes 71xx.
   Stub: filled in by the NTT120 development. *)
From PV Require Import Base.MachineInt.
Open Scope Z_scope.

Definition run_c07_ntt (code : Z) (ps : list Z) (vs : list (list Z)) : option (list (list Z)) := None.
Definition oracle_c07_ntt (code : Z) (ps : list Z) (vs outs : list (list Z)) : Z := 2.
