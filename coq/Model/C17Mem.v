(* C17 - memory layouts of poulpy-hal as header records, the well-formedness invariant, and what every
   constructor / resizer / deserialiser / carving helper commits.  No proofs in this file.

   Sources (read on the unchanged tree):
     poulpy-hal/src/layouts/znx_base.rs     ZnxView::{raw, at_ptr, at}: offset = n*(j*cols+i), slice of n scalars,
                                            raw = n*poly_count scalars, poly_count = rows*cols*size
     poulpy-hal/src/layouts/vec_znx.rs      alloc / from_bytes / from_data / set_size / reallocate_limbs / to_ref / to_mut /
                                            read_from (commits n, cols, size, max_size from the stream)
     poulpy-hal/src/layouts/vec_znx_{big,dft}.rs, scalar_znx.rs, svp_ppol.rs, convolution.rs   same shape, other word size
     poulpy-hal/src/layouts/mat_znx.rs      at(row,col): bytes [nb*(cols_in*row+col), +nb), nb = n*cols_out*size*8
     poulpy-hal/src/layouts/vmp_pmat.rs     raw only; poly_count = rows*cols_in*size*cols_out
     poulpy-hal/src/api/scratch.rs          take_* = take_slice(bytes_of(shape)) then from_data(shape)
     poulpy-cpu-ref/src/hal_defaults/scratch.rs   take_slice_aligned (modelled in Model/C12Scratch.v: `take`)

   All quantities are in Z (usize values are the non-negative ones); |data| is in BYTES, w is size_of::<Scalar>(). *)
From PV Require Import Base.MachineInt Model.C12Scratch.
Open Scope Z_scope.

(* ------------------------------------------------------------------------------------------------ *)
(* vector-like layouts: VecZnx (w=8), VecZnxBig (w = size_of ScalarBig), VecZnxDft / CnvPVecL / CnvPVecR
   (w = size_of ScalarPrep), ScalarZnx and SvpPPol (size = max_size = 1) *)
Record vhdr : Type := mkV { v_n : Z; v_cols : Z; v_size : Z; v_max : Z; v_len : Z; v_w : Z }.

(* usize-ness of the fields and a real word size *)
Definition wf_v (v : vhdr) : Prop :=
  0 <= v_n v /\ 0 <= v_cols v /\ 0 <= v_size v /\ 0 <= v_max v /\ 0 <= v_len v /\ 0 < v_w v.

(* the invariant every accessor silently relies on *)
Definition Inv (v : vhdr) : Prop :=
  v_n v * v_cols v * v_size v * v_w v <= v_len v /\
  v_size v <= v_max v /\
  v_n v * v_cols v * v_max v * v_w v <= v_len v.

Definition wf_vb (v : vhdr) : bool :=
  (0 <=? v_n v) && (0 <=? v_cols v) && (0 <=? v_size v) && (0 <=? v_max v) && (0 <=? v_len v) && (0 <? v_w v).
Definition Invb (v : vhdr) : bool :=
  (v_n v * v_cols v * v_size v * v_w v <=? v_len v) && (v_size v <=? v_max v) &&
  (v_n v * v_cols v * v_max v * v_w v <=? v_len v).

(* ZnxView::at_ptr / at : first scalar and one-past-last scalar of limb j of column i *)
Definition at_off (v : vhdr) (i j : Z) : Z := v_n v * (j * v_cols v + i).
Definition at_end (v : vhdr) (i j : Z) : Z := at_off v i j + v_n v.
(* number of scalars the buffer really holds *)
Definition cap_words (v : vhdr) : Z := v_len v / v_w v.
(* ZnxView::raw: n * poly_count scalars (rows = 1) *)
Definition raw_words (v : vhdr) : Z := v_n v * (1 * v_cols v * v_size v).

(* the check the proposed hook performs in at_ptr / at_mut_ptr, and in raw / raw_mut *)
Definition hook_at_ok (v : vhdr) (i j : Z) : bool := at_end v i j <=? cap_words v.
Definition hook_raw_ok (v : vhdr) : bool := raw_words v * v_w v <=? v_len v.

(* ---- constructors ---- *)
Definition U64 : Z := 2 ^ 64.
Definition round64 (x : Z) : Z := (x + 63) / 64 * 64.       (* usize::next_multiple_of(64) *)
Definition bytes_of (n cols size w : Z) : Z := n * cols * size * w.

(* VecZnx::alloc / VecZnxBig::alloc / VecZnxDft::alloc / ...: alloc_aligned rounds the byte length up to 64 *)
Definition v_alloc (n cols size w : Z) : vhdr := mkV n cols size size (round64 (bytes_of n cols size w)) w.
(* from_bytes: assert!(data.len() == bytes_of(n, cols, size)) *)
Definition v_from_bytes (n cols size w len : Z) : option vhdr :=
  if len =? bytes_of n cols size w then Some (mkV n cols size size len w) else None.
(* from_data: no validation at all *)
Definition v_from_data (len n cols size w : Z) : vhdr := mkV n cols size size len w.
(* from_data after repairs 2067fe8 (VecZnx, ScalarZnx) and 122d562 (VecZnxBig, VecZnxDft, SvpPPol, MatZnx, VmpPMat,
   CnvPVecL/R): assert!(n*polys*size_of::<Scalar>() <= data.len()) with checked products (and alignment).
   The unchecked form above remains reachable only through the public fields (struct literal). *)
Definition v_from_data_checked (len n cols size w : Z) : option vhdr :=
  if (n * cols * size * w <? U64) && (n * cols * size * w <=? len) then Some (mkV n cols size size len w) else None.
(* set_size: assert!(size <= self.max_size) *)
Definition v_set_size (v : vhdr) (s : Z) : option vhdr :=
  if s <=? v_max v then Some (mkV (v_n v) (v_cols v) s (v_max v) (v_len v) (v_w v)) else None.
(* VecZnx::reallocate_limbs: early return when the ACTIVE size already equals new_size, else a fresh alloc *)
Definition v_realloc (v : vhdr) (new_size : Z) : vhdr :=
  if v_size v =? new_size then v else v_alloc (v_n v) (v_cols v) new_size (v_w v).
(* to_ref / to_mut copy the five fields and re-borrow the same bytes *)
Definition v_to_ref (v : vhdr) : vhdr := mkV (v_n v) (v_cols v) (v_size v) (v_max v) (v_len v) (v_w v).
(* VecZnxDft::into_big: from_data(self.data, n, cols, size) with the other word size *)
Definition v_into_big (v : vhdr) (w_big : Z) : vhdr := v_from_data (v_len v) (v_n v) (v_cols v) (v_size v) w_big.
(* ScalarZnx::as_vec_znx *)
Definition v_scalar_as_vec (v : vhdr) : vhdr := mkV (v_n v) (v_cols v) 1 1 (v_len v) (v_w v).
(* VecZnx::as_scalar_znx_ref(col, limb): data = the n words of at(col, limb), cols = 1 *)
Definition v_as_scalar (v : vhdr) : vhdr := mkV (v_n v) 1 1 1 (v_n v * v_w v) (v_w v).

(* ---- deserialisation: ReaderFrom for VecZnx (w = 8), after repair 206cd69 ----
   stream header = (n, cols, size, max_size, len) as u64.  The products are CHECKED (a product >= 2^64 is rejected),
   max_size < size is rejected, and the committed capacity never exceeds what the receiver's buffer holds:
   max_size := min(max_size, |data| / (n*cols*8))   (the stream's max_size when n*cols = 0).
   `avail` = number of payload bytes the stream still holds after the header. *)
Record stream_hdr : Type := mkS { sh_n : Z; sh_cols : Z; sh_size : Z; sh_max : Z; sh_len : Z }.
Inductive read_res : Type :=
| RErr                      (* io::Error returned, receiver untouched *)
| ROk (v : vhdr).           (* Ok(()), receiver's header now v *)
Definition v_read_from (v : vhdr) (h : stream_hdr) (avail : Z) : read_res :=
  let limb_bytes := sh_n h * sh_cols h * 8 in
  let expected := limb_bytes * sh_size h in
  if (U64 <=? sh_n h * sh_cols h) || (U64 <=? limb_bytes) || (U64 <=? expected) then RErr       (* checked_mul *)
  else if negb (expected =? sh_len h) then RErr
  else if sh_max h <? sh_size h then RErr
  else if v_len v <? sh_len h then RErr
  else if avail <? sh_len h then RErr                      (* read_exact fails *)
  else
    let capacity := if limb_bytes =? 0 then sh_max h else v_len v / limb_bytes in
    ROk (mkV (sh_n h) (sh_cols h) (sh_size h) (Z.min (sh_max h) capacity) (v_len v) (v_w v)).
(* the code before the repair: wrapping product, max_size committed unchecked (kept for the refutation witnesses) *)
Definition v_read_from_old (v : vhdr) (h : stream_hdr) (avail : Z) : read_res :=
  let expected := (sh_n h * sh_cols h * sh_size h * 8) mod U64 in
  if negb (expected =? sh_len h) then RErr
  else if v_len v <? sh_len h then RErr
  else if avail <? sh_len h then RErr
  else ROk (mkV (sh_n h) (sh_cols h) (sh_size h) (sh_max h) (v_len v) (v_w v)).
(* WriterTo: what a well-formed writer emits *)
Definition v_write_hdr (v : vhdr) : stream_hdr :=
  mkS (v_n v) (v_cols v) (v_size v) (v_max v) (v_n v * v_cols v * v_size v * 8).

(* ---- carving out of scratch: take_vec_znx & co = take_slice(bytes_of(..)) + from_data ---- *)
Definition v_take (n cols size w : Z) (s : arena) : option (vhdr * window * arena) :=
  match take (bytes_of n cols size w) s with
  | Some (win, rest) => Some (v_from_data (snd win) n cols size w, win, rest)
  | None => None
  end.
(* TakeSlice::take_slice::<T>(len): len * size_of::<T>() bytes *)
Definition take_typed (len wT : Z) (s : arena) : option (window * arena) := take (len * wT) s.

(* ------------------------------------------------------------------------------------------------ *)
(* matrix-like layouts: MatZnx (w = 8), VmpPMat (w = size_of ScalarPrep) *)
Record mhdr : Type := mkM { m_n : Z; m_rows : Z; m_cin : Z; m_cout : Z; m_size : Z; m_len : Z; m_w : Z }.
Definition wf_m (m : mhdr) : Prop :=
  0 <= m_n m /\ 0 <= m_rows m /\ 0 <= m_cin m /\ 0 <= m_cout m /\ 0 <= m_size m /\ 0 <= m_len m /\ 0 < m_w m.
Definition m_bytes_of (n rows cin cout size w : Z) : Z := rows * cin * (n * cout * size * w).
Definition InvM (m : mhdr) : Prop := m_bytes_of (m_n m) (m_rows m) (m_cin m) (m_cout m) (m_size m) (m_w m) <= m_len m.
Definition m_alloc (n rows cin cout size w : Z) : mhdr :=
  mkM n rows cin cout size (round64 (m_bytes_of n rows cin cout size w)) w.
Definition m_from_bytes (n rows cin cout size w len : Z) : option mhdr :=
  if len =? m_bytes_of n rows cin cout size w then Some (mkM n rows cin cout size len w) else None.
Definition m_from_data (len n rows cin cout size w : Z) : mhdr := mkM n rows cin cout size len w.
(* poly_count override of MatZnx / VmpPMat *)
Definition m_raw_words (m : mhdr) : Z := m_n m * (m_rows m * m_cin m * m_cout m * m_size m).
(* MatZnx::at / at_mut(row, col): byte range of the entry and the header of the VecZnx view it returns *)
Definition m_nb (m : mhdr) : Z := m_n m * m_cout m * m_size m * m_w m.
Definition m_at_start (m : mhdr) (row col : Z) : Z := m_nb m * m_cin m * row + col * m_nb m.
Definition m_at_end (m : mhdr) (row col : Z) : Z := m_at_start m row col + m_nb m.
Definition m_at_view (m : mhdr) : vhdr := mkV (m_n m) (m_cout m) (m_size m) (m_size m) (m_nb m) (m_w m).
(* the DEFAULT ZnxView::at_ptr(i, j) on a matrix layout (cols() = cols_in, rows ignored): what it addresses *)
Definition m_trait_at_end (m : mhdr) (i j : Z) : Z := m_n m * (j * m_cin m + i) + m_n m.
(* MatZnx::read_from after repair 206cd69: the five-factor product is checked *)
Definition m_read_from (m : mhdr) (n size rows cin cout len avail : Z) : option mhdr :=
  let expected := rows * cin * n * cout * size * 8 in
  if (U64 <=? rows * cin) || (U64 <=? rows * cin * n) || (U64 <=? rows * cin * n * cout) || (U64 <=? rows * cin * n * cout * size)
     || (U64 <=? expected) then None
  else if negb (expected =? len) then None
  else if m_len m <? len then None
  else if avail <? len then None
  else Some (mkM n rows cin cout size (m_len m) (m_w m)).
Definition m_take (n rows cin cout size w : Z) (s : arena) : option (mhdr * window * arena) :=
  match take (m_bytes_of n rows cin cout size w) s with
  | Some (win, rest) => Some (m_from_data (snd win) n rows cin cout size w, win, rest)
  | None => None
  end.

(* ------------------------------------------------------------------------------------------------ *)
(* in-place q120b (4 u64 per coefficient) -> i128 (2 u64 per coefficient) compaction of
   ntt120 vec_znx_idft_apply_consume (reference and AVX twins share the index structure), in u64 words:
   block k: inverse NTT in place on words [4nk, 4nk+4n); coefficient c: read words [4nk+4c, +4), then write
   words [2nk+2c, +2). *)
Definition cb_src (n k c : Z) : Z := 4 * n * k + 4 * c.
Definition cb_dst (n k c : Z) : Z := 2 * n * k + 2 * c.
(* (k, c) is processed strictly before (k', c') *)
Definition cb_before (k c k' c' : Z) : Prop := k < k' \/ (k = k' /\ c < c').

(* executable twin on a word list: M = n * n_blocks coefficients, step m reads 4 words and writes 2;
   g abstracts the CRT recombination (any function of the four residues) *)
Section Compact.
Variable g : Z -> Z -> Z -> Z -> Z * Z.
Definition nthw (l : list Z) (i : nat) : Z := nth i l 0.
Fixpoint setw (l : list Z) (i : nat) (x : Z) : list Z :=
  match l, i with
  | [], _ => []
  | _ :: t, O => x :: t
  | h :: t, S i' => h :: setw t i' x
  end.
Definition compact_step (buf : list Z) (m : nat) : list Z :=
  let '(lo, hi) := g (nthw buf (4 * m)) (nthw buf (4 * m + 1)) (nthw buf (4 * m + 2)) (nthw buf (4 * m + 3)) in
  setw (setw buf (2 * m) lo) (2 * m + 1) hi.
Definition compact_inplace (buf : list Z) (M : nat) : list Z := fold_left compact_step (seq 0 M) buf.
(* out-of-place specification: coefficient m of the result is g of the ORIGINAL words 4m..4m+3 *)
Definition compact_spec (orig : list Z) (m : nat) : Z * Z :=
  g (nthw orig (4 * m)) (nthw orig (4 * m + 1)) (nthw orig (4 * m + 2)) (nthw orig (4 * m + 3)).
End Compact.
