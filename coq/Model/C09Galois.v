(* Galois-element arithmetic of poulpy-hal/src/layouts/module.rs (galois_element, GaloisElement::galois_element_inv,
   mod_exp_u64) and poulpy-hal/src/lib.rs (GALOISGENERATOR = 5), with explicit u64 / i64 wrap-around. *)
From PV Require Import Base.MachineInt.
Open Scope Z_scope.

Definition GALOISGENERATOR : Z := 5.

(* mod_exp_u64: `while exp > 0 { if exp & 1 == 1 { y = y.wrapping_mul(x_pow) } x_pow = x_pow.wrapping_mul(x_pow); exp >>= 1 }`
   exp is a usize (64 bits): at most 64 iterations *)
Fixpoint mod_exp_loop (fuel : nat) (y x_pow e : Z) : Z :=
  match fuel with
  | O => y
  | S f => if e <=? 0 then y
           else mod_exp_loop f (if Z.odd e then wrapu 64 (y * x_pow) else y) (wrapu 64 (x_pow * x_pow)) (e / 2)
  end.
Definition mod_exp_u64 (x e : Z) : Z := mod_exp_loop 64 1 x e.

(* galois_element(generator: i64, cyclotomic_order: i64) -> i64 *)
Definition galois_element (generator co : Z) : Z :=
  if generator =? 0 then 1 else
  let g_exp := Z.land (mod_exp_u64 GALOISGENERATOR (wrapu 64 (Z.abs generator))) (wrapu 64 (co - 1)) in
  wrap 64 (wrap 64 g_exp * Z.sgn generator).

(* GaloisElement::galois_element_inv(gal_el) with cyclotomic_order co; gal_el = 0 panics (None below) *)
Definition galois_element_inv (gal_el co : Z) : Z :=
  let g_exp := Z.land (mod_exp_u64 (wrapu 64 (Z.abs gal_el)) (wrapu 64 (co - 1))) (wrapu 64 (co - 1)) in
  wrap 64 (wrap 64 g_exp * Z.sgn gal_el).
Definition galois_element_inv_opt (gal_el co : Z) : option Z :=
  if gal_el =? 0 then None else Some (galois_element_inv gal_el co).
