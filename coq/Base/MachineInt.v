(* Machine integers: unbounded Z plus an explicit two's-complement wrap.
   Everything the Rust code does on i64 / i128 / u64 is expressed with these. *)
From Coq Require Export ZArith List Lia Bool.
From Coq Require Import ZifyBool.
Export ListNotations.
Open Scope Z_scope.

Ltac Zify.zify_post_hook ::= Z.div_mod_to_equations.

(* signed wrap to w bits: the unique representative of x mod 2^w in [-2^(w-1), 2^(w-1)) *)
Definition wrap (w x : Z) : Z := (x + 2 ^ (w - 1)) mod 2 ^ w - 2 ^ (w - 1).
(* unsigned wrap *)
Definition wrapu (w x : Z) : Z := x mod 2 ^ w.

Definition in_range (w x : Z) : Prop := - 2 ^ (w - 1) <= x < 2 ^ (w - 1).
Definition in_rangeb (w x : Z) : bool := (- 2 ^ (w - 1) <=? x) && (x <? 2 ^ (w - 1)).

(* Rust `x << k` on a w-bit signed integer (k < w): wraps *)
Definition shl (w x k : Z) : Z := wrap w (x * 2 ^ k).
(* Rust `x >> k` on a signed integer: arithmetic shift = floor division *)
Definition asr (x k : Z) : Z := x / 2 ^ k.
(* wrapping add / sub / neg *)
Definition wadd (w x y : Z) : Z := wrap w (x + y).
Definition wsub (w x y : Z) : Z := wrap w (x - y).
Definition wneg (w x : Z) : Z := wrap w (- x).
Definition wmul (w x y : Z) : Z := wrap w (x * y).

Lemma pow2_pos (k : Z) : 0 <= k -> 0 < 2 ^ k.
Proof. intros; apply Z.pow_pos_nonneg; lia. Qed.

Lemma pow2_split (w : Z) : 1 <= w -> 2 ^ w = 2 * 2 ^ (w - 1).
Proof. intros; replace w with (1 + (w - 1)) at 1 by lia; rewrite Z.pow_add_r by lia; reflexivity. Qed.

Lemma wrap_range (w x : Z) : 1 <= w -> in_range w (wrap w x).
Proof.
  intros Hw; unfold in_range, wrap.
  pose proof (pow2_pos w ltac:(lia)) as Hp.
  pose proof (pow2_split w Hw) as Hs.
  pose proof (Z.mod_pos_bound (x + 2 ^ (w - 1)) (2 ^ w) Hp). lia.
Qed.

Lemma wrap_id (w x : Z) : 1 <= w -> in_range w x -> wrap w x = x.
Proof.
  intros Hw [H1 H2]; unfold wrap.
  pose proof (pow2_split w Hw) as Hs.
  rewrite Z.mod_small by lia. lia.
Qed.

Lemma wrap_congr (w x : Z) : 1 <= w -> (wrap w x) mod 2 ^ w = x mod 2 ^ w.
Proof.
  intros Hw; unfold wrap.
  pose proof (pow2_pos w ltac:(lia)) as Hp.
  rewrite Zminus_mod, Z.mod_mod by lia. rewrite <- Zminus_mod. f_equal; lia.
Qed.

Lemma wrap_eq_mod (w x y : Z) : 1 <= w -> x mod 2 ^ w = y mod 2 ^ w -> wrap w x = wrap w y.
Proof.
  intros Hw H; unfold wrap. f_equal.
  pose proof (pow2_pos w ltac:(lia)) as Hp.
  rewrite Zplus_mod, H, <- Zplus_mod. reflexivity.
Qed.

Lemma wrap_wrap_add_l (w x y : Z) : 1 <= w -> wrap w (wrap w x + y) = wrap w (x + y).
Proof.
  intros Hw; apply wrap_eq_mod; auto.
  pose proof (pow2_pos w ltac:(lia)) as Hp.
  rewrite Zplus_mod, wrap_congr, <- Zplus_mod by auto. reflexivity.
Qed.

Lemma wrap_wrap_add_r (w x y : Z) : 1 <= w -> wrap w (x + wrap w y) = wrap w (x + y).
Proof. intros; rewrite Z.add_comm, wrap_wrap_add_l, Z.add_comm; auto. Qed.

Lemma wrap_wrap (w x : Z) : 1 <= w -> wrap w (wrap w x) = wrap w x.
Proof. intros; apply wrap_id; auto; apply wrap_range; auto. Qed.

Lemma wrap_exists (w x : Z) : 1 <= w -> exists q, wrap w x = x - q * 2 ^ w.
Proof.
  intros Hw; unfold wrap.
  pose proof (pow2_pos w ltac:(lia)) as Hp.
  exists ((x + 2 ^ (w - 1)) / 2 ^ w).
  pose proof (Z.div_mod (x + 2 ^ (w - 1)) (2 ^ w) ltac:(lia)). lia.
Qed.

(* wrap commutes with scaling by a power of two *)
Lemma wrap_mul_pow2 (b k x : Z) : 1 <= b -> 0 <= k ->
  wrap (b + k) (x * 2 ^ k) = wrap b x * 2 ^ k.
Proof.
  intros Hb Hk; unfold wrap.
  replace (b + k - 1) with ((b - 1) + k) by lia.
  rewrite !Z.pow_add_r by lia.
  pose proof (pow2_pos k Hk). pose proof (pow2_pos b ltac:(lia)).
  replace (x * 2 ^ k + 2 ^ (b - 1) * 2 ^ k) with ((x + 2 ^ (b - 1)) * 2 ^ k) by ring.
  rewrite Zmult_mod_distr_r. ring.
Qed.
