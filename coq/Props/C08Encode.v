(* C08, second sentence — integer encoding / decoding of poulpy-hal/src/layouts/encoding.rs.
   Only pinned statements, `exact` proofs, Print Assumptions and Examples.

   Model (Model/C08Encode.v, release semantics, one coefficient = its limbs, most significant first):
     enc_i64 b k a_size v / enc_i128 b k a_size v   encode_vec_i64 (= encode_coeff_i64 on one index) / encode_vec_i128
     dec_vec 64 / dec_vec 128 / dec_coeff_i64           decode_vec_i64 / decode_vec_i128 / decode_coeff_i64
     dec_float                                      decode_vec_float as the exact pair (num, e): value = num / 2^e
   Spec notions: enc_size b k = ceil(k/b); enc_krem b k = size*b - k; [enc_lo b k, enc_hi b k] = the 2^k integers that a
   balanced expansion on `size` limbs (last limb holding b - krem bits) can represent; enc_fits b k v = v lies in it;
   enc_rep b k V = the representative of V modulo 2^k in that interval; e_lval b l = value of a digit list. *)
From PV Require Import Base.MachineInt Model.Znx Model.Limbs Model.Flat Model.C08Encode Model.C08Oracle
  Proofs.C08EncodeSpec Proofs.C08EncodeCoef Proofs.C08EncodeDec Proofs.C08EncodeMain Proofs.C08EncodeFloat
  Proofs.C08EncodeFlat Proofs.C08EncodeRun Proofs.C08EncodeCor Proofs.C08EncodeRefute.
Open Scope Z_scope.

(* ---------------- what the encoders write (all i64 / i128 inputs, wrap included) ---------------- *)

(* `enc_spec b k a_size v` = balanced digits of radix 2^b of bdiv (b-krem) v, then wrap (b-krem) v * 2^krem, then zeros *)
Theorem C08_encode_i64_spec : forall b, 1 <= b <= 62 -> forall k (a_size : nat) v, 1 <= k <= Z.of_nat a_size * b ->
  in_range 64 v -> enc_i64 b k a_size v = enc_spec b k a_size v.
Proof. exact enc_i64_spec. Qed.
Print Assumptions C08_encode_i64_spec.

Theorem C08_encode_i128_spec : forall b, 1 <= b <= 62 -> forall k (a_size : nat) v, 1 <= k <= Z.of_nat a_size * b ->
  in_range 128 v -> enc_i128 b k a_size v = enc_spec b k a_size v.
Proof. exact enc_i128_spec. Qed.
Print Assumptions C08_encode_i128_spec.

(* digits balanced, limbs beyond ceil(k/b) zeroed (up to the active size), last limb a multiple of 2^krem *)
Theorem C08_encode_digits_balanced : forall b, 1 <= b <= 62 -> forall k (a_size : nat) v, 1 <= k <= Z.of_nat a_size * b ->
  in_range 64 v ->
  let l := enc_i64 b k a_size v in let size := enc_size b k in
  length l = a_size /\ Forall (in_range b) (firstn size l) /\ skipn size l = zeros (a_size - size) /\
  nthZ l (size - 1) mod 2 ^ enc_krem b k = 0.
Proof. exact enc_i64_digits. Qed.
Print Assumptions C08_encode_digits_balanced.

Theorem C08_encode_digits_balanced_i128 : forall b, 1 <= b <= 62 -> forall k (a_size : nat) v, 1 <= k <= Z.of_nat a_size * b ->
  in_range 128 v ->
  let l := enc_i128 b k a_size v in let size := enc_size b k in
  length l = a_size /\ Forall (in_range b) (firstn size l) /\ skipn size l = zeros (a_size - size) /\
  nthZ l (size - 1) mod 2 ^ enc_krem b k = 0.
Proof. exact enc_i128_digits. Qed.
Print Assumptions C08_encode_digits_balanced_i128.

(* the limbs hold v / 2^k on the torus: sum_j limb_j 2^((size-1-j) b) = v * 2^krem modulo 2^(size b), for every i64 / i128 v
   (before the repair ba594a2 of the first carry this failed for k above the word width at the top of the type) *)
Theorem C08_encode_value_i64 : forall b, 1 <= b <= 62 -> forall k (a_size : nat) v, 1 <= k <= Z.of_nat a_size * b ->
  in_range 64 v ->
  (e_lval b (firstn (enc_size b k) (enc_i64 b k a_size v)) - v * 2 ^ enc_krem b k)
    mod 2 ^ (Z.of_nat (enc_size b k) * b) = 0.
Proof. exact enc_i64_value. Qed.
Print Assumptions C08_encode_value_i64.

Theorem C08_encode_value_i128 : forall b, 1 <= b <= 62 -> forall k (a_size : nat) v, 1 <= k <= Z.of_nat a_size * b ->
  in_range 128 v ->
  (e_lval b (firstn (enc_size b k) (enc_i128 b k a_size v)) - v * 2 ^ enc_krem b k)
    mod 2 ^ (Z.of_nat (enc_size b k) * b) = 0.
Proof. exact enc_i128_value. Qed.
Print Assumptions C08_encode_value_i128.

(* ---------------- the decoders ---------------- *)

(* exact Horner value (last partial limb divided by 2^krem, rounded half away from zero), wrapped to the word;
   limbs are arbitrary i64 (un-normalised, garbage) *)
Theorem C08_decode_spec : forall w b, 64 <= w -> 1 <= b <= 62 -> forall k l, 1 <= k -> (enc_size b k <= length l)%nat ->
  Forall (in_range 64) l -> dec_vec w b k l = wrap w (dec_exact b k l).
Proof. exact dec_vec_spec. Qed.
Print Assumptions C08_decode_spec.

Theorem C08_decode_coeff_is_vec : forall b k l, 1 <= b <= 62 -> 1 <= k -> (enc_size b k <= length l)%nat ->
  Forall (in_range 64) l -> dec_coeff_i64 b k l = dec_vec 64 b k l.
Proof. exact dec_coeff_vec. Qed.
Print Assumptions C08_decode_coeff_is_vec.

(* ---------------- the representable range ---------------- *)

Theorem C08_encode_range : forall b k, 1 <= b -> 1 <= k ->
  enc_hi b k = enc_lo b k + 2 ^ k - 1 /\ enc_lo b k <= - 2 ^ (k - 1) /\ 0 <= enc_hi b k < 2 ^ (k - 1) /\
  (enc_size b k = 1%nat -> enc_lo b k = - 2 ^ (k - 1) /\ enc_hi b k = 2 ^ (k - 1) - 1) /\
  ((2 <= enc_size b k)%nat -> enc_lo b k <= - 2 ^ (k - 1) - 1 /\ enc_hi b k < 2 ^ (k - 1) - 1).
Proof. exact enc_range_facts. Qed.
Print Assumptions C08_encode_range.

(* |v| < 2^(k-2) (written 4|v| < 2^k so that k = 1 is meaningful) fits, for every radix b >= 2 *)
Theorem C08_encode_fits_small : forall b k v, 2 <= b -> 1 <= k -> 4 * Z.abs v < 2 ^ k -> enc_lo b k <= v <= enc_hi b k.
Proof. exact small_fits. Qed.
Print Assumptions C08_encode_fits_small.

(* ---------------- round trips, one coefficient ---------------- *)

(* for EVERY i64 v: the result is an i64 congruent to v modulo 2^min(k,64) (so it IS v when k >= 64); for k <= 63 it is the
   representative of v modulo 2^k in [enc_lo, enc_hi]; and it is v whenever v lies in that interval *)
Theorem C08_encode_decode_i64_mod : forall b, 1 <= b <= 62 -> forall k (a_size : nat) v, 1 <= k <= Z.of_nat a_size * b ->
  in_range 64 v ->
  let r := dec_vec 64 b k (enc_i64 b k a_size v) in
  in_range 64 r /\ (r - v) mod 2 ^ (Z.min k 64) = 0 /\
  (k <= 63 -> enc_lo b k <= r <= enc_hi b k /\ (r - v) mod 2 ^ k = 0) /\
  (enc_lo b k <= v <= enc_hi b k -> r = v).
Proof. exact rt_i64. Qed.
Print Assumptions C08_encode_decode_i64_mod.

Theorem C08_encode_decode_i64 : forall b, 1 <= b <= 62 -> forall k (a_size : nat) v, 1 <= k <= Z.of_nat a_size * b ->
  in_range 64 v -> enc_fits b k v = true -> dec_vec 64 b k (enc_i64 b k a_size v) = v.
Proof. exact rt_i64_fits. Qed.
Print Assumptions C08_encode_decode_i64.

Theorem C08_encode_decode_i64_small : forall b, 1 <= b <= 62 -> forall k (a_size : nat) v, 2 <= b ->
  1 <= k <= Z.of_nat a_size * b -> in_range 64 v -> 4 * Z.abs v < 2 ^ k ->
  dec_vec 64 b k (enc_i64 b k a_size v) = v.
Proof. exact rt_i64_small. Qed.
Print Assumptions C08_encode_decode_i64_small.

(* what comes back at the boundaries: +2^(k-1) returns as -2^(k-1); 2^(k-1) - 1 returns exactly on one limb and as
   -2^(k-1) - 1 (outside the centred range) on two or more limbs *)
Theorem C08_encode_decode_i64_boundary : forall b, 1 <= b <= 62 -> forall k (a_size : nat), 1 <= k <= Z.of_nat a_size * b ->
  k <= 63 ->
  let rt := fun v => dec_vec 64 b k (enc_i64 b k a_size v) in
  rt (2 ^ (k - 1)) = - 2 ^ (k - 1) /\ rt (- 2 ^ (k - 1)) = - 2 ^ (k - 1) /\
  rt (2 ^ (k - 1) - 1) = if Nat.eqb (enc_size b k) 1 then 2 ^ (k - 1) - 1 else - 2 ^ (k - 1) - 1.
Proof. exact rt_i64_boundary. Qed.
Print Assumptions C08_encode_decode_i64_boundary.

Theorem C08_encode_decode_i128_mod : forall b, 1 <= b <= 62 -> forall k (a_size : nat) v, 1 <= k <= Z.of_nat a_size * b ->
  in_range 128 v ->
  let r := dec_vec 128 b k (enc_i128 b k a_size v) in
  in_range 128 r /\ (r - v) mod 2 ^ (Z.min k 128) = 0 /\
  (k <= 127 -> enc_lo b k <= r <= enc_hi b k /\ (r - v) mod 2 ^ k = 0) /\
  (enc_lo b k <= v <= enc_hi b k -> r = v).
Proof. exact rt_i128. Qed.
Print Assumptions C08_encode_decode_i128_mod.

Theorem C08_encode_decode_i128 : forall b, 1 <= b <= 62 -> forall k (a_size : nat) v, 1 <= k <= Z.of_nat a_size * b ->
  in_range 128 v -> enc_fits b k v = true -> dec_vec 128 b k (enc_i128 b k a_size v) = v.
Proof. exact rt_i128_fits. Qed.
Print Assumptions C08_encode_decode_i128.

Theorem C08_encode_decode_i128_small : forall b, 1 <= b <= 62 -> forall k (a_size : nat) v, 2 <= b ->
  1 <= k <= Z.of_nat a_size * b -> in_range 128 v -> 4 * Z.abs v < 2 ^ k ->
  dec_vec 128 b k (enc_i128 b k a_size v) = v.
Proof. exact rt_i128_small. Qed.
Print Assumptions C08_encode_decode_i128_small.

Theorem C08_encode_decode_i128_boundary : forall b, 1 <= b <= 62 -> forall k (a_size : nat), 1 <= k <= Z.of_nat a_size * b ->
  k <= 127 ->
  let rt := fun v => dec_vec 128 b k (enc_i128 b k a_size v) in
  rt (2 ^ (k - 1)) = - 2 ^ (k - 1) /\ rt (- 2 ^ (k - 1)) = - 2 ^ (k - 1) /\
  rt (2 ^ (k - 1) - 1) = if Nat.eqb (enc_size b k) 1 then 2 ^ (k - 1) - 1 else - 2 ^ (k - 1) - 1.
Proof. exact rt_i128_boundary. Qed.
Print Assumptions C08_encode_decode_i128_boundary.

(* single-coefficient form: encode_coeff_i64 writes enc_i64 on one index, decode_coeff_i64 reads it *)
Theorem C08_encode_decode_coeff_mod : forall b, 1 <= b <= 62 -> forall k (a_size : nat) v, 1 <= k <= Z.of_nat a_size * b ->
  in_range 64 v ->
  let r := dec_coeff_i64 b k (enc_i64 b k a_size v) in
  in_range 64 r /\ (r - v) mod 2 ^ (Z.min k 64) = 0 /\
  (k <= 63 -> enc_lo b k <= r <= enc_hi b k /\ (r - v) mod 2 ^ k = 0) /\
  (enc_lo b k <= v <= enc_hi b k -> r = v).
Proof. exact rt_coeff. Qed.
Print Assumptions C08_encode_decode_coeff_mod.

Theorem C08_encode_decode_coeff : forall b, 1 <= b <= 62 -> forall k (a_size : nat) v, 1 <= k <= Z.of_nat a_size * b ->
  in_range 64 v -> enc_fits b k v = true -> dec_coeff_i64 b k (enc_i64 b k a_size v) = v.
Proof. exact rt_coeff_fits. Qed.
Print Assumptions C08_encode_decode_coeff.

Theorem C08_encode_decode_coeff_small : forall b, 1 <= b <= 62 -> forall k (a_size : nat) v, 2 <= b ->
  1 <= k <= Z.of_nat a_size * b -> in_range 64 v -> 4 * Z.abs v < 2 ^ k ->
  dec_coeff_i64 b k (enc_i64 b k a_size v) = v.
Proof. exact rt_coeff_small. Qed.
Print Assumptions C08_encode_decode_coeff_small.

Theorem C08_encode_decode_coeff_boundary : forall b, 1 <= b <= 62 -> forall k (a_size : nat), 1 <= k <= Z.of_nat a_size * b ->
  k <= 63 ->
  let rt := fun v => dec_coeff_i64 b k (enc_i64 b k a_size v) in
  rt (2 ^ (k - 1)) = - 2 ^ (k - 1) /\ rt (- 2 ^ (k - 1)) = - 2 ^ (k - 1) /\
  rt (2 ^ (k - 1) - 1) = if Nat.eqb (enc_size b k) 1 then 2 ^ (k - 1) - 1 else - 2 ^ (k - 1) - 1.
Proof. exact rt_coeff_boundary. Qed.
Print Assumptions C08_encode_decode_coeff_boundary.

(* an i64 encoding read back at 128 bits *)
Theorem C08_encode_i64_decode_i128 : forall b, 1 <= b <= 62 -> forall k (a_size : nat) v, 1 <= k <= Z.of_nat a_size * b ->
  in_range 64 v -> enc_lo b k <= v <= enc_hi b k ->
  dec_vec 128 b k (enc_i64 b k a_size v) = v.
Proof. exact rt_i64_dec128. Qed.
Print Assumptions C08_encode_i64_decode_i128.

(* the result is not always in the centred range, and radix 2^1 represents no positive value *)
Theorem C08_encode_decode_centered_refuted : exists b k a_size v, 2 <= b <= 62 /\ 1 <= k <= Z.of_nat a_size * b /\
  - 2 ^ (k - 1) <= v < 2 ^ (k - 1) /\
  ~ (- 2 ^ (k - 1) <= dec_vec 64 b k (enc_i64 b k a_size v) < 2 ^ (k - 1)).
Proof. exact centered_refuted. Qed.
Print Assumptions C08_encode_decode_centered_refuted.

Theorem C08_encode_decode_radix1_refuted : exists k a_size v, 1 <= k <= Z.of_nat a_size * 1 /\ in_range 64 v /\
  4 * Z.abs v < 2 ^ k /\ dec_vec 64 1 k (enc_i64 1 k a_size v) <> v.
Proof. exact radix1_refuted. Qed.
Print Assumptions C08_encode_decode_radix1_refuted.

(* ---------------- frame, on flat buffers ---------------- *)

(* encode_vec_i64 / encode_vec_i128 (any `coef`): only words of the active limbs [0, size) of column col can change:
   other columns and the limbs between the active size and the capacity are untouched *)
Theorem C08_encode_frame : forall coef allow0 b k s buf data buf',
  enc_vec_flat coef allow0 b k s buf data = Some buf' ->
  length buf' = length buf /\
  forall idx d, e_in_col (s_n s) (s_cols s) (s_size s) (s_col s) idx = false -> nth idx buf' d = nth idx buf d.
Proof. exact enc_vec_flat_frame. Qed.
Print Assumptions C08_encode_frame.

(* encode_coeff_i64: exactly the words (limb j < size, column col, coefficient idx) are written, with enc_i64; every other
   word - other columns, limbs beyond the active size, OTHER COEFFICIENTS of the column - is untouched *)
Theorem C08_encode_frame_coeff : forall b k s buf idx v buf',
  enc_coeff_flat b k s buf idx v = Some buf' ->
  length buf' = length buf /\
  (forall pos d, (forall j, (j < s_size s)%nat -> pos <> e_off s j idx) -> nth pos buf' d = nth pos buf d) /\
  (forall j, (j < s_size s)%nat -> nth (e_off s j idx) buf' 0 = nthZ (enc_i64 b k (s_size s) v) j).
Proof. exact enc_coeff_flat_frame. Qed.
Print Assumptions C08_encode_frame_coeff.

Theorem C08_encode_frame_coeff_others : forall b k s buf idx v buf',
  enc_coeff_flat b k s buf idx v = Some buf' ->
  forall pos d, e_in_col (s_n s) (s_cols s) (s_size s) (s_col s) pos = false \/ (pos mod s_n s)%nat <> idx ->
  nth pos buf' d = nth pos buf d.
Proof. exact enc_coeff_flat_others. Qed.
Print Assumptions C08_encode_frame_coeff_others.

(* ---------------- end to end: records 8301 / 8302 / 8303 of the executable model ---------------- *)

(* for every well-shaped call (any garbage in the buffer): the record returns the buffer with the column holding the
   per-coefficient encodings and everything else unchanged, and the decoded vector *)
Theorem C08_encode_decode_flat_i64 : forall ps buf data : list Z,
  let s := e_shape ps in let b := e_p ps 10 in let k := e_p ps 11 in
  1 <= b <= 62 -> 1 <= k <= Z.of_nat (s_size s) * b -> e_ok s buf = true -> length data = s_n s ->
  Forall (fun v => in_range 64 v /\ enc_fits b k v = true) data ->
  exists buf', run_c08_enc 8301 ps [buf; data] = Some [buf'; data] /\ length buf' = length buf /\
    (forall idx d, e_in_col (s_n s) (s_cols s) (s_size s) (s_col s) idx = false -> nth idx buf' d = nth idx buf d) /\
    e_coeffs s buf' = map (enc_i64 b k (s_size s)) data.
Proof. exact flat_rt_i64. Qed.
Print Assumptions C08_encode_decode_flat_i64.

Theorem C08_encode_decode_flat_i128 : forall ps buf data : list Z,
  let s := e_shape ps in let b := e_p ps 10 in let k := e_p ps 11 in
  1 <= b <= 62 -> 1 <= k <= Z.of_nat (s_size s) * b -> e_ok s buf = true -> length data = s_n s ->
  Forall (fun v => in_range 128 v /\ enc_fits b k v = true) data ->
  exists buf', run_c08_enc 8302 ps [buf; data] = Some [buf'; data] /\ length buf' = length buf /\
    (forall idx d, e_in_col (s_n s) (s_cols s) (s_size s) (s_col s) idx = false -> nth idx buf' d = nth idx buf d) /\
    e_coeffs s buf' = map (enc_i128 b k (s_size s)) data.
Proof. exact flat_rt_i128. Qed.
Print Assumptions C08_encode_decode_flat_i128.

Theorem C08_encode_decode_flat_coeff : forall (ps buf : list Z) (v : Z),
  let s := e_shape ps in let b := e_p ps 10 in let k := e_p ps 11 in let idx := Z.to_nat (e_p ps 12) in
  1 <= b <= 62 -> 1 <= k <= Z.of_nat (s_size s) * b -> e_ok s buf = true -> (idx < s_n s)%nat ->
  in_range 64 v -> enc_fits b k v = true ->
  exists buf', run_c08_enc 8303 ps [buf; [v]] = Some [buf'; [v]] /\ length buf' = length buf /\
    (forall pos d, e_in_col (s_n s) (s_cols s) (s_size s) (s_col s) pos = false \/ (pos mod s_n s)%nat <> idx ->
       nth pos buf' d = nth pos buf d) /\
    nth idx (e_coeffs s buf') [] = enc_i64 b k (s_size s) v.
Proof. exact flat_rt_coeff. Qed.
Print Assumptions C08_encode_decode_flat_coeff.

(* ---------------- arbitrary-precision decoding ---------------- *)

(* decode_vec_float returns num / 2^e with e = size*b and num = sum_j limb_j 2^(e - (j+1) b) (`val_scaled` of
   Model/C08Oracle.v), i.e. exactly sum_j limb_j 2^(-(j+1) b); limbs arbitrary *)
Theorem C08_decode_float_exact : forall b (l : list Z), 0 <= b ->
  let '(num, e) := dec_float b l in
  e = Z.of_nat (length l) * b /\ num = val_scaled e b l.
Proof. exact dec_float_exact. Qed.
Print Assumptions C08_decode_float_exact.

(* ---------------- the hypotheses are satisfiable ---------------- *)

Example C08_encode_decode_i64_ex : dec_vec 64 17 40 (enc_i64 17 40 3 (-123456789)) = -123456789.
Proof. apply C08_encode_decode_i64_small; unfold in_range; cbn; lia. Qed.

Example C08_encode_decode_i128_ex : dec_vec 128 62 186 (enc_i128 62 186 4 (- 2 ^ 100 + 12345)) = - 2 ^ 100 + 12345.
Proof. apply C08_encode_decode_i128_small; unfold in_range; cbn; lia. Qed.

Example C08_encode_decode_coeff_ex : dec_coeff_i64 3 7 (enc_i64 3 7 3 (-31)) = -31.
Proof. apply C08_encode_decode_coeff_small; unfold in_range; cbn; lia. Qed.

Example C08_encode_decode_i64_boundary_ex :
  dec_vec 64 3 7 (enc_i64 3 7 3 64) = -64 /\ dec_vec 64 3 7 (enc_i64 3 7 3 (-64)) = -64 /\
  dec_vec 64 3 7 (enc_i64 3 7 3 63) = -65.
Proof. apply (C08_encode_decode_i64_boundary 3 ltac:(lia) 7 3%nat); cbn; lia. Qed.

Example C08_encode_decode_flat_i64_ex :
  exists buf', run_c08_enc 8301 [0; 2; 2; 2; 3; 1; 0; 0; 0; 0; 7; 10] [[11; 12; 13; 14; 15; 16; 17; 18; 19; 20; 21; 22]; [-100; 77]]
             = Some [buf'; [-100; 77]].
Proof.
  destruct (C08_encode_decode_flat_i64 [0; 2; 2; 2; 3; 1; 0; 0; 0; 0; 7; 10]
              [11; 12; 13; 14; 15; 16; 17; 18; 19; 20; 21; 22] [-100; 77]) as (buf' & H & _);
    try (cbn; lia); try reflexivity.
  - repeat constructor; unfold in_range; cbn; lia.
  - exists buf'. exact H.
Qed.

Example C08_decode_float_exact_ex : dec_float 7 [1; -2; 3] = (1 * 2 ^ 14 + -2 * 2 ^ 7 + 3, 21).
Proof. reflexivity. Qed.
