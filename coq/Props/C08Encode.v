From PV Require Import Base.MachineInt Model.C08Encode.
Theorem C08_encode_placeholder : enc_size 2 4 = 2%nat.
Proof. reflexivity. Qed.
Print Assumptions C08_encode_placeholder.
