(* C10 — all backends give bit-identical results.  Pinned statements only.
   Lane convention (Model/C10AvxLanes.v): a 64-bit lane is its signed value; `wadd 64`, `wsub 64`, `shl 64`, `asr`
   are the wrapping i64 operations of the scalar reference kernels (Model/Znx.v). *)
From PV Require Import Base.MachineInt Model.Znx Model.C10AvxLanes
  Proofs.C10Avx Proofs.C10Kernels Proofs.C10Simd Model.C07Ntt120 Proofs.C10Ntt
  Model.Limbs Model.Ring Proofs.C10Ring Proofs.C10Vec.
Open Scope Z_scope.

Theorem C10_land_mask_mod : forall b x : Z, 0 <= b -> Z.land x (2 ^ b - 1) = x mod 2 ^ b.
Proof. exact land_mask_mod. Qed.
Print Assumptions C10_land_mask_mod.

(* xor/sub sign extension on a b-bit value *)
Theorem C10_lxor_sign : forall b v : Z, 1 <= b -> 0 <= v < 2 ^ b ->
  Z.lxor v (2 ^ (b - 1)) = if v <? 2 ^ (b - 1) then v + 2 ^ (b - 1) else v - 2 ^ (b - 1).
Proof. exact lxor_sign. Qed.
Print Assumptions C10_lxor_sign.

(* logical shift right of the bit pattern, OR-ed with the sign fill, is the arithmetic shift (floor division) *)
Theorem C10_lsr_fill_asr : forall k y : Z, 1 <= k <= 63 -> in_range 64 y ->
  mm_or (of_u (Z.shiftr (to_u y) k)) (mm_and (mm_cmpgt mm_setzero y) (- 2 ^ (64 - k))) = y / 2 ^ k.
Proof. exact lsr_fill_asr. Qed.
Print Assumptions C10_lsr_fill_asr.

(* ---- digit / carry helpers (normalize_consts_avx + get_digit_avx / get_carry_avx) ---- *)
Theorem C10_avx_digit_eq_ref : forall b x : Z, 1 <= b <= 63 -> digit_avx b x = get_digit 64 b x.
Proof. exact avx_digit_eq_ref. Qed.
Print Assumptions C10_avx_digit_eq_ref.

Theorem C10_avx_carry_eq_ref : forall b x d : Z, 1 <= b <= 63 -> carry_avx b x d = get_carry 64 b x d.
Proof. exact avx_carry_eq_ref. Qed.
Print Assumptions C10_avx_carry_eq_ref.

(* ---- normalisation kernels: lane function = scalar kernel, every lane value, 1 <= b <= 63, 0 <= lsh < b ---- *)
Theorem C10_avx_first_step_carry_only_eq_ref : forall b lsh x : Z, 1 <= b <= 63 -> 0 <= lsh < b ->
  first_step_carry_only_avx b lsh x = first_step_carry_only 64 b lsh x.
Proof. exact avx_first_step_carry_only_eq_ref. Qed.
Print Assumptions C10_avx_first_step_carry_only_eq_ref.

Theorem C10_avx_first_step_assign_eq_ref : forall b lsh x : Z, 1 <= b <= 63 -> 0 <= lsh < b ->
  first_step_assign_avx b lsh x = first_step_assign 64 b lsh x.
Proof. exact avx_first_step_assign_eq_ref. Qed.
Print Assumptions C10_avx_first_step_assign_eq_ref.

Theorem C10_avx_first_step_eq_ref : forall (ov : bool) (b lsh x a : Z), 1 <= b <= 63 -> 0 <= lsh < b ->
  first_step_avx ov b lsh x a = first_step 64 ov b lsh x a.
Proof. exact avx_first_step_eq_ref. Qed.
Print Assumptions C10_avx_first_step_eq_ref.

Theorem C10_avx_middle_step_carry_only_eq_ref : forall b lsh x c : Z, 1 <= b <= 63 -> 0 <= lsh < b ->
  middle_step_carry_only_avx b lsh x c = middle_step_carry_only 64 b lsh x c.
Proof. exact avx_middle_step_carry_only_eq_ref. Qed.
Print Assumptions C10_avx_middle_step_carry_only_eq_ref.

Theorem C10_avx_middle_step_assign_eq_ref : forall b lsh x c : Z, 1 <= b <= 63 -> 0 <= lsh < b ->
  middle_step_assign_avx b lsh x c = middle_step_assign 64 b lsh x c.
Proof. exact avx_middle_step_assign_eq_ref. Qed.
Print Assumptions C10_avx_middle_step_assign_eq_ref.

Theorem C10_avx_middle_step_eq_ref : forall (ov : bool) (b lsh x a c : Z), 1 <= b <= 63 -> 0 <= lsh < b ->
  middle_step_avx ov b lsh x a c = middle_step 64 ov b lsh x a c.
Proof. exact avx_middle_step_eq_ref. Qed.
Print Assumptions C10_avx_middle_step_eq_ref.

Theorem C10_avx_middle_step_sub_eq_ref : forall b lsh x a c : Z, 1 <= b <= 63 -> 0 <= lsh < b ->
  middle_step_sub_avx b lsh x a c = middle_step_sub 64 b lsh x a c.
Proof. exact avx_middle_step_sub_eq_ref. Qed.
Print Assumptions C10_avx_middle_step_sub_eq_ref.

Theorem C10_avx_final_step_assign_eq_ref : forall b lsh x c : Z, 1 <= b <= 63 -> 0 <= lsh < b ->
  final_step_assign_avx b lsh x c = final_step_assign 64 b lsh x c.
Proof. exact avx_final_step_assign_eq_ref. Qed.
Print Assumptions C10_avx_final_step_assign_eq_ref.

Theorem C10_avx_final_step_eq_ref : forall (ov : bool) (b lsh x a c : Z), 1 <= b <= 63 -> 0 <= lsh < b ->
  final_step_avx ov b lsh x a c = final_step 64 ov b lsh x a c.
Proof. exact avx_final_step_eq_ref. Qed.
Print Assumptions C10_avx_final_step_eq_ref.

Theorem C10_avx_final_step_sub_eq_ref : forall b lsh x a c : Z, 1 <= b <= 63 -> 0 <= lsh < b ->
  final_step_sub_avx b lsh x a c = final_step_sub 64 b lsh x a c.
Proof. exact avx_final_step_sub_eq_ref. Qed.
Print Assumptions C10_avx_final_step_sub_eq_ref.

(* lsh of extract_digit_addmul is independent of the radix: any shift count 0..63 *)
Theorem C10_avx_extract_digit_addmul_eq_ref : forall b lsh r s : Z, 1 <= b <= 63 -> 0 <= lsh <= 63 ->
  extract_digit_addmul_avx b lsh r s = extract_digit_addmul 64 b lsh r s.
Proof. exact avx_extract_digit_addmul_eq_ref. Qed.
Print Assumptions C10_avx_extract_digit_addmul_eq_ref.

Theorem C10_avx_normalize_digit_eq_ref : forall b r s : Z, 1 <= b <= 63 ->
  normalize_digit_avx b r s = normalize_digit 64 b r s.
Proof. exact avx_normalize_digit_eq_ref. Qed.
Print Assumptions C10_avx_normalize_digit_eq_ref.

(* ---- mul.rs: |k| <= 63 is the kernels' contract (debug_assert!(k <= 63) / assert!((1..=63).contains(&kp))) ---- *)
Theorem C10_avx_mul_power_of_two_eq_ref : forall k x : Z, -63 <= k <= 63 -> in_range 64 x ->
  mul_power_of_two_avx k x = mul_power_of_two 64 k x.
Proof. exact avx_mul_power_of_two_eq_ref. Qed.
Print Assumptions C10_avx_mul_power_of_two_eq_ref.

Theorem C10_avx_mul_add_power_of_two_eq_ref : forall k y x : Z, -63 <= k <= 63 -> in_range 64 x ->
  mul_add_power_of_two_avx k y x = mul_add_power_of_two 64 k y x.
Proof. exact avx_mul_add_power_of_two_eq_ref. Qed.
Print Assumptions C10_avx_mul_add_power_of_two_eq_ref.

(* ---- add / sub / neg ---- *)
Theorem C10_avx_add_eq_ref : forall a b : Z, add_avx a b = wadd 64 a b.
Proof. exact avx_add_eq_ref. Qed.
Print Assumptions C10_avx_add_eq_ref.
Theorem C10_avx_sub_eq_ref : forall a b : Z, sub_avx a b = wsub 64 a b.
Proof. exact avx_sub_eq_ref. Qed.
Print Assumptions C10_avx_sub_eq_ref.
Theorem C10_avx_sub_negate_assign_eq_ref : forall r a : Z, sub_negate_assign_avx r a = wsub 64 a r.
Proof. exact avx_sub_negate_assign_eq_ref. Qed.
Print Assumptions C10_avx_sub_negate_assign_eq_ref.
Theorem C10_avx_negate_eq_ref : forall v : Z, negate_avx v = wneg 64 v.
Proof. exact avx_negate_eq_ref. Qed.
Print Assumptions C10_avx_negate_eq_ref.

(* ---- loop skeleton: span = n >> 2 chunks of 4 lanes, then the scalar kernel on the tail ---- *)
Theorem C10_simd_loop_split : forall (A : Type) (l : list A),
  let n := length l in let span := Nat.shiftr n 2 in
  l = firstn (4 * span) l ++ skipn (Nat.shiftl span 2) l /\
  length (firstn (4 * span) l) = (4 * span)%nat /\
  length (skipn (Nat.shiftl span 2) l) = (n mod 4)%nat /\
  (n mod 4 < 4)%nat /\ (4 * span + n mod 4 = n)%nat.
Proof. exact (@simd_loop_split). Qed.
Print Assumptions C10_simd_loop_split.

Theorem C10_simd_loop_partition : forall (A B : Type) (lane_f scalar_f : A -> B) (l : list A),
  (forall x, lane_f x = scalar_f x) -> simd_map lane_f scalar_f l = map scalar_f l.
Proof. exact (@simd_loop_partition). Qed.
Print Assumptions C10_simd_loop_partition.

(* one vector-level instance, spelled out: znx_normalize_middle_step_avx::<OVERWRITE> on slices (x, a, carry) zipped *)
Theorem C10_avx_vec_middle_step : forall (ov : bool) (b lsh : Z) (l : list (Z * Z * Z)),
  1 <= b <= 63 -> 0 <= lsh < b ->
  simd_map (fun t => middle_step_avx ov b lsh (fst (fst t)) (snd (fst t)) (snd t))
           (fun t => middle_step 64 ov b lsh (fst (fst t)) (snd (fst t)) (snd t)) l
  = map (fun t => middle_step 64 ov b lsh (fst (fst t)) (snd (fst t)) (snd t)) l.
Proof. exact avx_vec_middle_step. Qed.
Print Assumptions C10_avx_vec_middle_step.

(* ---- vector level: every normalisation / mul kernel on whole slices = map of the scalar kernel, every length ---- *)
Theorem C10_avx_vec_first_step_carry_only : forall (b lsh : Z), 1 <= b <= 63 -> 0 <= lsh < b -> forall (l : list (Z)),
  simd_map (first_step_carry_only_avx b lsh) (first_step_carry_only 64 b lsh) l = map (first_step_carry_only 64 b lsh) l.
Proof. exact avx_vec_first_step_carry_only. Qed.
Print Assumptions C10_avx_vec_first_step_carry_only.

Theorem C10_avx_vec_first_step_assign : forall (b lsh : Z), 1 <= b <= 63 -> 0 <= lsh < b -> forall (l : list (Z)),
  simd_map (first_step_assign_avx b lsh) (first_step_assign 64 b lsh) l = map (first_step_assign 64 b lsh) l.
Proof. exact avx_vec_first_step_assign. Qed.
Print Assumptions C10_avx_vec_first_step_assign.

Theorem C10_avx_vec_first_step : forall (b lsh : Z), 1 <= b <= 63 -> 0 <= lsh < b -> forall (ov : bool) (l : list (Z * Z)),
  simd_map (fun t => first_step_avx ov b lsh (fst t) (snd t)) (fun t => first_step 64 ov b lsh (fst t) (snd t)) l
  = map (fun t => first_step 64 ov b lsh (fst t) (snd t)) l.
Proof. exact avx_vec_first_step. Qed.
Print Assumptions C10_avx_vec_first_step.

Theorem C10_avx_vec_middle_step_carry_only : forall (b lsh : Z), 1 <= b <= 63 -> 0 <= lsh < b -> forall (l : list (Z * Z)),
  simd_map (fun t => middle_step_carry_only_avx b lsh (fst t) (snd t)) (fun t => middle_step_carry_only 64 b lsh (fst t) (snd t)) l
  = map (fun t => middle_step_carry_only 64 b lsh (fst t) (snd t)) l.
Proof. exact avx_vec_middle_step_carry_only. Qed.
Print Assumptions C10_avx_vec_middle_step_carry_only.

Theorem C10_avx_vec_middle_step_assign : forall (b lsh : Z), 1 <= b <= 63 -> 0 <= lsh < b -> forall (l : list (Z * Z)),
  simd_map (fun t => middle_step_assign_avx b lsh (fst t) (snd t)) (fun t => middle_step_assign 64 b lsh (fst t) (snd t)) l
  = map (fun t => middle_step_assign 64 b lsh (fst t) (snd t)) l.
Proof. exact avx_vec_middle_step_assign. Qed.
Print Assumptions C10_avx_vec_middle_step_assign.

Theorem C10_avx_vec_middle_step_sub : forall (b lsh : Z), 1 <= b <= 63 -> 0 <= lsh < b -> forall (l : list (Z * Z * Z)),
  simd_map (fun t => middle_step_sub_avx b lsh (fst (fst t)) (snd (fst t)) (snd t))
           (fun t => middle_step_sub 64 b lsh (fst (fst t)) (snd (fst t)) (snd t)) l
  = map (fun t => middle_step_sub 64 b lsh (fst (fst t)) (snd (fst t)) (snd t)) l.
Proof. exact avx_vec_middle_step_sub. Qed.
Print Assumptions C10_avx_vec_middle_step_sub.

Theorem C10_avx_vec_final_step_assign : forall (b lsh : Z), 1 <= b <= 63 -> 0 <= lsh < b -> forall (l : list (Z * Z)),
  simd_map (fun t => final_step_assign_avx b lsh (fst t) (snd t)) (fun t => final_step_assign 64 b lsh (fst t) (snd t)) l
  = map (fun t => final_step_assign 64 b lsh (fst t) (snd t)) l.
Proof. exact avx_vec_final_step_assign. Qed.
Print Assumptions C10_avx_vec_final_step_assign.

Theorem C10_avx_vec_final_step : forall (b lsh : Z), 1 <= b <= 63 -> 0 <= lsh < b -> forall (ov : bool) (l : list (Z * Z * Z)),
  simd_map (fun t => final_step_avx ov b lsh (fst (fst t)) (snd (fst t)) (snd t))
           (fun t => final_step 64 ov b lsh (fst (fst t)) (snd (fst t)) (snd t)) l
  = map (fun t => final_step 64 ov b lsh (fst (fst t)) (snd (fst t)) (snd t)) l.
Proof. exact avx_vec_final_step. Qed.
Print Assumptions C10_avx_vec_final_step.

Theorem C10_avx_vec_final_step_sub : forall (b lsh : Z), 1 <= b <= 63 -> 0 <= lsh < b -> forall (l : list (Z * Z * Z)),
  simd_map (fun t => final_step_sub_avx b lsh (fst (fst t)) (snd (fst t)) (snd t))
           (fun t => final_step_sub 64 b lsh (fst (fst t)) (snd (fst t)) (snd t)) l
  = map (fun t => final_step_sub 64 b lsh (fst (fst t)) (snd (fst t)) (snd t)) l.
Proof. exact avx_vec_final_step_sub. Qed.
Print Assumptions C10_avx_vec_final_step_sub.

Theorem C10_avx_vec_extract_digit_addmul : forall (b lsh : Z) (l : list (Z * Z)),
  1 <= b <= 63 -> 0 <= lsh <= 63 ->
  simd_map (fun t => extract_digit_addmul_avx b lsh (fst t) (snd t)) (fun t => extract_digit_addmul 64 b lsh (fst t) (snd t)) l
  = map (fun t => extract_digit_addmul 64 b lsh (fst t) (snd t)) l.
Proof. exact avx_vec_extract_digit_addmul. Qed.
Print Assumptions C10_avx_vec_extract_digit_addmul.

Theorem C10_avx_vec_normalize_digit : forall (b : Z) (l : list (Z * Z)),
  1 <= b <= 63 ->
  simd_map (fun t => normalize_digit_avx b (fst t) (snd t)) (fun t => normalize_digit 64 b (fst t) (snd t)) l
  = map (fun t => normalize_digit 64 b (fst t) (snd t)) l.
Proof. exact avx_vec_normalize_digit. Qed.
Print Assumptions C10_avx_vec_normalize_digit.

Theorem C10_avx_vec_mul_power_of_two : forall (k : Z) (l : list (Z)),
  -63 <= k <= 63 -> Forall (in_range 64) l ->
  simd_map (mul_power_of_two_avx k) (mul_power_of_two 64 k) l = map (mul_power_of_two 64 k) l.
Proof. exact avx_vec_mul_power_of_two. Qed.
Print Assumptions C10_avx_vec_mul_power_of_two.

Theorem C10_avx_vec_mul_add_power_of_two : forall (k : Z) (l : list (Z * Z)),
  -63 <= k <= 63 -> Forall (fun t => in_range 64 (snd t)) l ->
  simd_map (fun t => mul_add_power_of_two_avx k (fst t) (snd t)) (fun t => mul_add_power_of_two 64 k (fst t) (snd t)) l
  = map (fun t => mul_add_power_of_two 64 k (fst t) (snd t)) l.
Proof. exact avx_vec_mul_add_power_of_two. Qed.
Print Assumptions C10_avx_vec_mul_add_power_of_two.

(* ---- NTT120 (Primes30): Barrett step with mu = floor(2^61/Q), c_from_b_avx2 and b_from_znx64_avx2 lane bodies ---- *)
Theorem C10_barrett_reduce_eq : forall q tmp : Z, 2 ^ 29 < q < 2 ^ 30 -> 0 <= tmp < 2 ^ 61 ->
  barrett_reduce_avx tmp q (2 ^ 61 / q) = tmp mod q.
Proof. exact barrett_reduce_eq. Qed.
Print Assumptions C10_barrett_reduce_eq.

Theorem C10_c_from_b_avx_eq_ref : forall q x : Z, 2 ^ 29 < q < 2 ^ 30 ->
  (2 ^ 32 - q) * (2 ^ 32 mod q) + 2 ^ 32 <= 2 ^ 61 -> 0 <= x < 2 ^ 64 ->
  c_from_b_k_avx q x = c_from_b_k q x.
Proof. exact c_from_b_avx_eq_ref. Qed.
Print Assumptions C10_c_from_b_avx_eq_ref.

(* the four primes of Primes30 (translated from /repo: Gen/C07Consts_gen.v), every u64 input *)
Theorem C10_c_from_b_avx_eq_ref_primes30 : forall q x : Z, In q primes30_Q -> 0 <= x < 2 ^ 64 ->
  c_from_b_k_avx q x = c_from_b_k q x.
Proof. exact c_from_b_avx_eq_ref_primes30. Qed.
Print Assumptions C10_c_from_b_avx_eq_ref_primes30.

Theorem C10_b_from_znx64_avx_eq_ref : forall q x : Z, 1 <= q < 2 ^ 62 -> in_range 64 x ->
  b_from_znx64_k_avx q x = b_from_znx64_k q x.
Proof. exact b_from_znx64_avx_eq_ref. Qed.
Print Assumptions C10_b_from_znx64_avx_eq_ref.

(* ---- automorphism / switch_ring: the whole vector kernels (index maps, gathers, conditional negation) ---- *)
Theorem C10_inv_mod_pow2_correct : forall p bits : Z, Z.odd p = true -> 1 <= bits <= 63 ->
  0 <= inv_mod_pow2 p bits < 2 ^ bits /\ (inv_mod_pow2 p bits * p) mod 2 ^ bits = 1.
Proof. exact inv_mod_pow2_correct. Qed.
Print Assumptions C10_inv_mod_pow2_correct.

(* contract of the kernel: n = 2^m (assert), p odd (debug_assert); lengths up to 2^60; any prior content r0 of res *)
Theorem C10_avx_automorphism_eq_ref : forall (p m : Z) (r0 a : list Z),
  0 <= m <= 60 -> Z.of_nat (length a) = 2 ^ m -> Z.odd p = true -> in_range 64 p ->
  length r0 = length a -> Forall (in_range 64) a ->
  znx_automorphism_avx p r0 a = znx_automorphism_onto 64 p r0 a.
Proof. exact avx_automorphism_eq_ref. Qed.
Print Assumptions C10_avx_automorphism_eq_ref.

(* contract: n_in = 2^m and max(n_in, n_out) a multiple of min(n_in, n_out) (the kernel's debug asserts) *)
Theorem C10_avx_switch_ring_eq_ref : forall (m : Z) (n_out : nat) (r0 a : list Z),
  0 <= m <= 60 -> Z.of_nat (length a) = 2 ^ m -> (0 < n_out)%nat -> Z.of_nat n_out < 2 ^ 62 ->
  length r0 = n_out ->
  (Nat.max (length a) n_out mod Nat.min (length a) n_out = 0)%nat ->
  znx_switch_ring_avx n_out r0 a = znx_switch_ring n_out r0 a.
Proof. exact avx_switch_ring_eq_ref. Qed.
Print Assumptions C10_avx_switch_ring_eq_ref.

(* ---- boundary lanes: i64::MIN, i64::MAX, -1, 2^62 ---- *)
Definition bnd : list Z := [- 2 ^ 63; 2 ^ 63 - 1; -1; 2 ^ 62].
Example C10_ex_bnd_in_range : forallb (in_rangeb 64) bnd = true.
Proof. vm_compute. reflexivity. Qed.
Example C10_ex_digit : map (digit_avx 12) bnd = map (get_digit 64 12) bnd /\ map (digit_avx 12) bnd = [0; -1; -1; 0].
Proof. vm_compute. split; reflexivity. Qed.
Example C10_ex_digit_b63 : map (digit_avx 63) bnd = [0; -1; -1; - 2 ^ 62].
Proof. vm_compute. reflexivity. Qed.
(* the carry wraps on i64::MAX exactly as the scalar one (x - digit overflows) *)
Example C10_ex_carry_wrap : carry_avx 2 (2 ^ 63 - 1) (digit_avx 2 (2 ^ 63 - 1)) = - 2 ^ 61
  /\ get_carry 64 2 (2 ^ 63 - 1) (get_digit 64 2 (2 ^ 63 - 1)) = - 2 ^ 61.
Proof. vm_compute. split; reflexivity. Qed.
Example C10_ex_middle : map (fun x => middle_step_avx false 17 5 x (2 ^ 63 - 1) (- 2 ^ 63)) bnd
                      = map (fun x => middle_step 64 false 17 5 x (2 ^ 63 - 1) (- 2 ^ 63)) bnd.
Proof. vm_compute. reflexivity. Qed.
(* x + bias wraps on i64::MAX and 2^62: both backends round them to -1 *)
Example C10_ex_mul_neg : map (mul_power_of_two_avx (-63)) bnd = [-1; -1; 0; -1]
  /\ map (mul_power_of_two 64 (-63)) bnd = [-1; -1; 0; -1].
Proof. vm_compute. split; reflexivity. Qed.
Example C10_ex_mul_pos : map (mul_power_of_two_avx 63) bnd = map (mul_power_of_two 64 63) bnd.
Proof. vm_compute. reflexivity. Qed.
Example C10_ex_simd_tail : forall f : Z -> Z,
  simd_map f f [1; 2; 3; 4; 5] = [f 1; f 2; f 3; f 4; f 5] /\ simd_map f f [1; 2; 3] = [f 1; f 2; f 3] /\
  simd_map f f [1] = [f 1] /\ simd_map f f [] = [].
Proof. intros f. repeat split. Qed.
Example C10_ex_c_from_b : map (fun x => c_from_b_k_avx 1073479681 x) [0; 2 ^ 64 - 1; 2 ^ 63; 1073479681 * 2 ^ 33]
                        = map (fun x => c_from_b_k 1073479681 x) [0; 2 ^ 64 - 1; 2 ^ 63; 1073479681 * 2 ^ 33].
Proof. vm_compute. reflexivity. Qed.
Example C10_ex_b_from_znx64 : map (b_from_znx64_k_avx 1068236801) bnd = map (b_from_znx64_k 1068236801) bnd.
Proof. vm_compute. reflexivity. Qed.
Example C10_ex_automorphism : znx_automorphism_avx (-5) [0; 0; 0; 0; 0; 0; 0; 0] [- 2 ^ 63; 2 ^ 63 - 1; -1; 2 ^ 62; 5; 6; 7; 8]
                            = znx_automorphism_onto 64 (-5) [0; 0; 0; 0; 0; 0; 0; 0] [- 2 ^ 63; 2 ^ 63 - 1; -1; 2 ^ 62; 5; 6; 7; 8].
Proof. vm_compute. reflexivity. Qed.
Example C10_ex_switch_ring : znx_switch_ring_avx 4 [9; 9; 9; 9] [- 2 ^ 63; 2 ^ 63 - 1; -1; 2 ^ 62; 5; 6; 7; 8] = [- 2 ^ 63; -1; 5; 7]
  /\ znx_switch_ring_avx 12 (repeat 9 12) [- 2 ^ 63; 2 ^ 63 - 1; -1; 2 ^ 62] = znx_switch_ring 12 (repeat 9 12) [- 2 ^ 63; 2 ^ 63 - 1; -1; 2 ^ 62].
Proof. vm_compute. split; reflexivity. Qed.
