(* C10 — all backends give bit-identical results.  Pinned statements only. *)
From PV Require Import Base.MachineInt Model.Znx Proofs.C10Avx.
Open Scope Z_scope.

Theorem C10_land_mask_mod : forall b x : Z, 0 <= b -> Z.land x (2 ^ b - 1) = x mod 2 ^ b.
Proof. exact land_mask_mod. Qed.
Print Assumptions C10_land_mask_mod.
