(* C07NET: the NTT120 butterfly networks (ntt_ref / intt_ref and their tables) — pinned statements.
   Model: Model/C07NttNet.v (validated bit for bit against the Rust functions, opcodes 7201-7204).
   Everything is stated per prime Q_k (k < 4) of the three prime sets, for n = 2^m, 1 <= m <= 16, and for every input
   vector of u64 values (the documented input_bit_size is 64). *)
From PV Require Import Base.MachineInt Model.DftAbs Model.C07Ntt120 Model.C07NttNet Proofs.C07Ring
  Proofs.C07NetBase Proofs.C07NetMain.
Open Scope Z_scope.

(* the wrap function of the model is wrapu 64 *)
Theorem C07_net_w64_is_wrapu : forall x, w64 x = wrapu 64 x.
Proof. exact w64_wrapu. Qed.
Print Assumptions C07_net_w64_is_wrapu.

(* 2. lazy budget: no u64 operation of any level wraps (ntt_safe / intt_safe evaluate, along the execution, that the exact
   value of every +, -, * is a u64 and that every level's outputs are below 2^bs of its NttStepMeta); hence the run equals
   the same network over unbounded integers; outputs are below 2^output_bit_size *)
Theorem C07_net_no_overflow : forall P, In P [primes29; primes30; primes31] -> forall k, (k < 4)%nat ->
  forall m, (1 <= m <= 16)%nat -> forall x, length x = pow2n m -> Forall (fun v => 0 <= v < 2 ^ 64) x ->
  (ntt_safe P k m x = true /\ ntt_k w64 P k m x = ntt_k (fun v => v) P k m x /\
   Forall (fun v => 0 <= v < 2 ^ fwd_out_bits P m) (ntt_k w64 P k m x) /\ length (ntt_k w64 P k m x) = pow2n m) /\
  (intt_safe P k m x = true /\ intt_k w64 P k m x = intt_k (fun v => v) P k m x /\
   Forall (fun v => 0 <= v < 2 ^ inv_out_bits P m) (intt_k w64 P k m x) /\ length (intt_k w64 P k m x) = pow2n m).
Proof. exact net_no_overflow. Qed.
Print Assumptions C07_net_no_overflow.

(* the root the tables use: psi = OMEGA_k^(2^(16-m)) mod Q_k, a primitive 2n-th root: psi^n = -1 *)
Theorem C07_net_root : forall P, In P [primes29; primes30; primes31] -> forall k, (k < 4)%nat -> forall m, (1 <= m <= 16)%nat ->
  let q := qk P k in let psi := omega_n P k m in
  psi = (omegak P k ^ 2 ^ (16 - Z.of_nat m)) mod q /\ psi ^ 2 ^ Z.of_nat m mod q = q - 1 /\ 1 < q.
Proof. exact net_root. Qed.
Print Assumptions C07_net_root.

(* 3. the forward network: output p is the negacyclic evaluation at psi^(2 brev_m(p) + 1)  (sigma = bit reversal) *)
Theorem C07_net_ntt_spec : forall P, In P [primes29; primes30; primes31] -> forall k, (k < 4)%nat -> forall m, (1 <= m <= 16)%nat ->
  forall x, length x = pow2n m -> Forall (fun v => 0 <= v < 2 ^ 64) x -> forall p, (p < pow2n m)%nat ->
  nth p (ntt_k w64 P k m x) 0 mod qk P k =
  zsum (fun j => nth j x 0 * omega_n P k m ^ Z.of_nat ((2 * brev m p + 1) * j)) (pow2n m) mod qk P k.
Proof. exact net_ntt_spec. Qed.
Print Assumptions C07_net_ntt_spec.

(* 4. inverse of forward is the identity on residues *)
Theorem C07_net_intt_ntt_id : forall P, In P [primes29; primes30; primes31] -> forall k, (k < 4)%nat -> forall m, (1 <= m <= 16)%nat ->
  forall x, length x = pow2n m -> Forall (fun v => 0 <= v < 2 ^ 64) x -> forall j, (j < pow2n m)%nat ->
  nth j (intt_k w64 P k m (ntt_k w64 P k m x)) 0 mod qk P k = nth j x 0 mod qk P k.
Proof. exact net_intt_ntt_id. Qed.
Print Assumptions C07_net_intt_ntt_id.

(* 4. convolution theorem: a, b residue vectors of the integer polynomials A, B; c any u64 vector carrying the residues of
   the pointwise products (as the bbc accumulators produce); then intt c carries the residues of the exact negacyclic product *)
Theorem C07_net_convolution : forall P, In P [primes29; primes30; primes31] -> forall k, (k < 4)%nat -> forall m, (1 <= m <= 16)%nat ->
  forall A B a b c, length A = pow2n m -> length B = pow2n m ->
  length a = pow2n m -> Forall (fun v => 0 <= v < 2 ^ 64) a -> length b = pow2n m -> Forall (fun v => 0 <= v < 2 ^ 64) b ->
  length c = pow2n m -> Forall (fun v => 0 <= v < 2 ^ 64) c ->
  (forall i, nth i a 0 mod qk P k = nth i A 0 mod qk P k) -> (forall i, nth i b 0 mod qk P k = nth i B 0 mod qk P k) ->
  (forall p, (p < pow2n m)%nat ->
     nth p c 0 mod qk P k = (nth p (ntt_k w64 P k m a) 0 * nth p (ntt_k w64 P k m b) 0) mod qk P k) ->
  forall j, (j < pow2n m)%nat -> nth j (intt_k w64 P k m c) 0 mod qk P k = nth j (pmul A B) 0 mod qk P k.
Proof. exact net_convolution. Qed.
Print Assumptions C07_net_convolution.

(* with C07_b_to_znx128_exact: the NTT120 product pipeline returns the exact integer coefficient whenever 2 |coefficient| < Q *)
Theorem C07_net_product_exact : forall P, In P [primes29; primes30; primes31] -> forall m, (1 <= m <= 16)%nat ->
  forall A B (a b c : nat -> list Z), length A = pow2n m -> length B = pow2n m ->
  (forall k, (k < 4)%nat ->
     length (a k) = pow2n m /\ Forall (fun v => 0 <= v < 2 ^ 64) (a k) /\ length (b k) = pow2n m /\ Forall (fun v => 0 <= v < 2 ^ 64) (b k) /\
     length (c k) = pow2n m /\ Forall (fun v => 0 <= v < 2 ^ 64) (c k) /\
     (forall i, nth i (a k) 0 mod qk P k = nth i A 0 mod qk P k) /\ (forall i, nth i (b k) 0 mod qk P k = nth i B 0 mod qk P k) /\
     (forall p, (p < pow2n m)%nat ->
        nth p (c k) 0 mod qk P k = (nth p (ntt_k w64 P k m (a k)) 0 * nth p (ntt_k w64 P k m (b k)) 0) mod qk P k)) ->
  forall j, (j < pow2n m)%nat -> 2 * Z.abs (nth j (pmul A B) 0) < Qprod P ->
  b_to_znx128 P (map (fun k => nth j (intt_k w64 P k m (c k)) 0) (seq 0 4)) = nth j (pmul A B) 0.
Proof. exact net_product_exact. Qed.
Print Assumptions C07_net_product_exact.

(* the interleaved model (4 u64 per coefficient, as ntt_ref / intt_ref see the data) is the per-prime model column by column *)
Theorem C07_net_flat_view : forall P, In P [primes29; primes30; primes31] -> forall m, (1 <= m <= 16)%nat ->
  forall d, length d = (4 * pow2n m)%nat -> Forall (fun v => 0 <= v < 2 ^ 64) d ->
  forall k p, (k < 4)%nat -> (p < pow2n m)%nat ->
  nth p (colk k d) 0 = nth (4 * p + k) d 0 /\
  nth (4 * p + k) (ntt_ref P m d) 0 = nth p (ntt_k w64 P k m (colk k d)) 0 /\
  nth (4 * p + k) (intt_ref P m d) 0 = nth p (intt_k w64 P k m (colk k d)) 0.
Proof. exact net_flat_view. Qed.
Print Assumptions C07_net_flat_view.

(* ---- examples: the hypotheses are satisfiable, the definitions say what they should ---- *)
Example C07_net_brev_ex : map (brev 3) (seq 0 8) = [0; 4; 2; 6; 1; 5; 3; 7]%nat /\ pow2n 3 = 8%nat.
Proof. split; reflexivity. Qed.
Example C07_net_safe_ex :   (* all-ones input, n = 8: no wrap, and the safety predicate does say `false` when an operation wraps *)
  ntt_safe primes30 0 3 (repeat (2 ^ 64 - 1) 8) = true /\ intt_safe primes30 0 3 (repeat (2 ^ 64 - 1) 8) = true /\
  spm_ok w64 (2 ^ 64 - 1) (2 ^ 64 - 1) 32 (2 ^ 32 - 1) = false /\ isu (0 + 5 - 6) = false.
Proof. vm_compute. repeat split. Qed.
Example C07_net_roundtrip_ex :
  map (fun v => v mod qk primes30 1) (intt_k w64 primes30 1 2 (ntt_k w64 primes30 1 2 [1; 2; 3; 2 ^ 64 - 1])) =
  map (fun v => v mod qk primes30 1) [1; 2; 3; 2 ^ 64 - 1].
Proof. vm_compute. reflexivity. Qed.
Example C07_net_pipeline_ex : run_c07_net 7204 [3; 30; 2] [[1; 2; 0; -3]; [3; 4; 0; 0]] = Some [pmul [1; 2; 0; -3] [3; 4; 0; 0]]
  /\ pmul [1; 2; 0; -3] [3; 4; 0; 0] = [15; 10; 8; -9].
Proof. vm_compute. split; reflexivity. Qed.
Example C07_net_bits_ex : fwd_out_bits primes30 16 = 64 /\ inv_out_bits primes30 16 = 59 /\ fwd_out_bits primes29 3 <= 64.
Proof. vm_compute. repeat split; discriminate. Qed.
