(* C06 — fresh ciphertexts carry the configured randomness: full noise, uniform mask.  Pinned statements only.

   The ChaCha8 stream (`us`, a function nat -> Z giving the raw u64 words) and the Gaussian sampler (the rounded samples `e`)
   are inputs of the model, never axioms; their statistical quality is measured by the check (support), not proved. *)
From PV Require Import Base.MachineInt Model.Znx Model.Limbs Model.Flat Model.DftAbs Model.C08Oracle Model.EncModel
  Proofs.EncValue Proofs.EncLists Proofs.C01Sk Proofs.C01Glwe Proofs.C01Pk Proofs.C06Struct.
Open Scope Z_scope.

(* for 1 <= b <= 63 and every digit d of the full balanced range, exactly 2^(64-b) of the 2^64 words map to d:
   `has_card P N` is a bijection between P and [0, N) (q |-> q*2^b + d + 2^(b-1), u |-> u / 2^b) *)
Theorem C06_uniform_digit_equidistributed : forall b d : Z, 1 <= b <= 63 -> - 2 ^ (b - 1) <= d < 2 ^ (b - 1) ->
  has_card (fun u => 0 <= u < 2 ^ 64 /\ uniform_digit b u = d) (2 ^ (64 - b)).
Proof. exact uniform_digit_equidistributed. Qed.
Print Assumptions C06_uniform_digit_equidistributed.

Theorem C06_uniform_digit_range : forall b u : Z, 1 <= b -> in_range b (uniform_digit b u).
Proof. exact uniform_digit_range. Qed.
Print Assumptions C06_uniform_digit_range.

Theorem C06_next_u64n_pow2_no_reject : forall b u : Z, 0 <= b -> 0 <= Z.land u (2 ^ b - 1) < 2 ^ b.
Proof. exact next_u64n_pow2_no_reject. Qed.
Print Assumptions C06_next_u64n_pow2_no_reject.

(* non-interference: every mask column is `glwe_mask b n size rank us`, a function of the mask stream and the shape;
   another plaintext (also on another column), secret, noise precision or error stream leaves it unchanged *)
Theorem C06_mask_depends_only_on_mask_seed :
  forall (wb b : Z) (n size rank : nat) (us : nat -> Z) (nk nk' : Z) (pt pt' : option (ccol * nat)) (sk sk' : list poly)
         (e e' : poly) (ct ct' : list ccol),
  enc_sk wb b n size rank nk pt sk us e = Some ct ->
  enc_sk wb b n size rank nk' pt' sk' us e' = Some ct' ->
  tl ct = glwe_mask b n size rank us /\ tl ct' = tl ct.
Proof. exact mask_depends_only_on_mask_seed. Qed.
Print Assumptions C06_mask_depends_only_on_mask_seed.

(* exactly rank*size*n words of the mask stream are consumed (one per coefficient, no rejection) *)
Theorem C06_mask_consumption : forall (b : Z) (n size rank : nat) (us us' : nat -> Z),
  (forall i, (i < rank * size * n)%nat -> us i = us' i) -> glwe_mask b n size rank us = glwe_mask b n size rank us'.
Proof. exact mask_consumption. Qed.
Print Assumptions C06_mask_consumption.

Theorem C06_lwe_mask_consumption : forall (b : Z) (n size : nat) (us us' : nat -> Z),
  (forall i, (i < size * (n + 1))%nat -> us i = us' i) -> lwe_mask b n size us = lwe_mask b n size us'.
Proof. exact lwe_mask_consumption. Qed.
Print Assumptions C06_lwe_mask_consumption.

(* another error stream changes only column 0, and coefficient k of the body only through e_k *)
Theorem C06_body_changes_only :
  forall (wb b : Z) (n size rank : nat) (nk : Z) (pt : option (ccol * nat)) (sk : list poly) (us : nat -> Z) (e e' : poly)
         (ct ct' : list ccol),
  enc_sk wb b n size rank nk pt sk us e = Some ct ->
  enc_sk wb b n size rank nk pt sk us e' = Some ct' ->
  tl ct' = tl ct /\ forall k, (k < n)%nat -> nthZ e k = nthZ e' k -> coef (hd [] ct') k = coef (hd [] ct) k.
Proof. exact body_changes_only. Qed.
Print Assumptions C06_body_changes_only.

(* the ciphertext is a function of (plaintext, secret, consumed prefix of the mask stream, errors): no other input *)
Theorem C06_determinism :
  forall (wb b : Z) (n size rank : nat) (nk : Z) (pt : option (ccol * nat)) (sk : list poly) (us us' : nat -> Z) (e : poly),
  (forall i, (i < rank * size * n)%nat -> us i = us' i) ->
  enc_sk wb b n size rank nk pt sk us e = enc_sk wb b n size rank nk pt sk us' e.
Proof. exact determinism. Qed.
Print Assumptions C06_determinism.

(* error_is_full: the exact phase body + sum_i s_i a_i of a fresh GLWE ciphertext (hence of every cell of a GGLWE-shaped key,
   which is such a ciphertext of the row plaintext) is plaintext + e * 2^-(limb+1)b on the torus, limb = ceil(nk/b) - 1: the sampled
   error reaches the phase with coefficient exactly 1, not attenuated, not on a lower limb.  Hypotheses as in C01_sk_roundtrip. *)
Theorem C06_error_is_full :
  forall (wb b pb R : Z) (n size psize rank : nat) (nk S E M : Z),
  normalize_value_ok (fun rb ab => normalize 64 rb ab 0) (2 ^ 62) R ->
  normalize_value_ok (bnorm wb) (2 ^ (wb - 2)) R ->
  2 <= wb -> 1 <= b <= R -> 1 <= pb <= R -> 0 <= S ->
  forall (pt : ccol) (sk : list poly) (us : nat -> Z) (e : poly) (ct : list ccol) (d : ccol),
  length sk = rank ->
  Forall (fun s => norm1 s <= S) sk ->
  (forall k, (k < n)%nat -> Z.abs (nthZ e k) <= E) ->
  (forall k, (k < n)%nat -> bnd M (coef pt k)) ->
  zn rank * 2 ^ (b - 1) + E + M <= 2 ^ 62 ->
  zn rank * (S * 2 ^ (b - 1)) + 2 ^ (b - 1) <= 2 ^ (wb - 2) ->
  S * 2 ^ (b - 1) <= 2 ^ (wb - 2) ->
  enc_sk wb b n size rank nk (Some (pt, O)) sk us e = Some ct ->
  dec_glwe wb b pb n size psize sk ct = Some d ->
  forall k, (k < n)%nat -> forall P, zn size * b <= P -> zn psize * pb <= P -> 1 <= P ->
    exists q, lval P b size (coef (hd [] ct) k) + lvsum P b size (prods_at n size sk (tl ct) k)
              = lval P b size (coef pt k) + nthZ e k * 2 ^ (P - (zn (target_limb nk b) + 1) * b) + q * 2 ^ P.
Proof. exact sk_error_is_full. Qed.
Print Assumptions C06_error_is_full.

(* error_is_full for public-key encryption: the exact phase of the ciphertext is plaintext + pk_error, where
   pk_error = (u*e_pk)_k at the key's precision + (e_0 + sum_i s_i*e_i)_k at the ciphertext's precision: all three error
   terms reach the phase with coefficient exactly 1 *)
Theorem C06_error_is_full_pk :
  forall (wb b pb R : Z) (n size psize rank : nat) (nk nkp Sn U E Ep M : Z),
  normalize_value_ok (fun rb ab => normalize 64 rb ab 0) (2 ^ 62) R ->
  normalize_value_ok (bnorm wb) (2 ^ (wb - 2)) R ->
  2 <= wb -> 1 <= b <= R -> 1 <= pb <= R -> 0 <= Sn -> 0 <= U ->
  forall (pt : ccol) (sk : list poly) (us : nat -> Z) (epk u : poly) (es : list poly) (pk ct : list ccol) (d : ccol),
  length sk = rank -> length es = S rank ->
  Forall (fun s => length s = n /\ norm1 s <= Sn) sk -> length u = n -> norm1 u <= U ->
  length epk = n -> Forall (fun e => length e = n) es ->
  (forall k, (k < n)%nat -> Z.abs (nthZ epk k) <= Ep) ->
  (forall i k, (k < n)%nat -> Z.abs (nthZ (nth i es []) k) <= E) ->
  (forall k, (k < n)%nat -> bnd M (coef pt k)) -> 0 <= M ->
  zn rank * 2 ^ (b - 1) + Ep <= 2 ^ 62 ->
  Sn * 2 ^ (b - 1) <= 2 ^ (wb - 2) ->
  U * 2 ^ (b - 1) + E + M <= 2 ^ (wb - 2) ->
  zn rank * (Sn * 2 ^ (b - 1)) + 2 ^ (b - 1) <= 2 ^ (wb - 2) ->
  enc_sk wb b n size rank nkp None sk us epk = Some pk ->
  enc_pk wb b n size size nk (Some pt) u pk es = Some ct ->
  dec_glwe wb b pb n size psize sk ct = Some d ->
  forall k, (k < n)%nat -> forall P, zn size * b <= P -> zn psize * pb <= P -> 1 <= P ->
    exists q, lval P b size (coef (hd [] ct) k) + lvsum P b size (prods_at n size sk (tl ct) k)
              = lval P b size (coef pt k) + pk_error b rank nk nkp P sk u epk es k + q * 2 ^ P.
Proof. exact pk_error_is_full. Qed.
Print Assumptions C06_error_is_full_pk.

(* the remaining case of error_is_full: the GGSW cells whose plaintext sits on a column >= 1 (image s_{j-1}*m); for those the
   identity is checked by the oracle on every record (exact arithmetic), not proved *)
Definition C06_error_is_full_full : Prop :=
  forall (wb b : Z) (n size rank dsize : nat) (nk : Z) (row col : nat) (m : poly) (sk : list poly) (us : nat -> Z) (e : poly)
         (ct : list ccol),
  enc_sk wb b n size rank nk (Some (row_pt b n size dsize row m, col)) sk us e = Some ct ->
  forall k P, (k < n)%nat -> zn size * b <= P -> 1 <= P ->
  exists q, lval P b size (coef (hd [] ct) k) + lvsum P b size (prods_at n size sk (tl ct) k)
            = nthZ (match col with O => m | S j => pmul (nth j sk []) m end) k * wt P b ((dsize - 1) + row * dsize)
              + nthZ e k * wt P b (target_limb nk b) + q * 2 ^ P.

(* ---- examples ---- *)
Example C06_digit_ex : uniform_digit 5 (2 ^ 64 - 1) = 15 /\ uniform_digit 5 32 = -16 /\ uniform_digit 1 3 = 0.
Proof. vm_compute. repeat split. Qed.

(* changing the plaintext and the secret leaves the mask as it is; changing e_2 only changes coefficient 2 of the body *)
Example C06_noninterference_ex :
  let us := fun i => nthZ [1234567; 89; 4000000001; 77; 13; 999999; 31; 2] i in
  match enc_sk 64 5 4 2 1 7 (Some ([[3; -2]; [0; 1]; [-16; 15]; [7; 7]], O)) [[1; 0; -1; 1]] us [2; -1; 0; 3],
        enc_sk 64 5 4 2 1 7 (Some ([[0; 0]; [1; 1]; [2; 2]; [3; 3]], O)) [[0; 1; 1; 0]] us [2; -1; 5; 3] with
  | Some ct, Some ct' => tl ct = tl ct' /\ hd [] ct <> hd [] ct'
  | _, _ => False
  end.
Proof. vm_compute. split; [reflexivity|discriminate]. Qed.
