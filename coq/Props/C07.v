(* C07 — DFT-domain products equal exact negacyclic convolution.  Pinned statements only. *)
From PV Require Import Base.MachineInt Model.Znx Model.Limbs Model.Ring Model.DftAbs Model.C07Ntt120 Model.C07Run.
From PV Require Import Proofs.C07Dft Proofs.C07Ring Proofs.C07Shape Proofs.C07Round.
Open Scope Z_scope.

Theorem C07_dft_select_length : forall n rsz step offset a, length (dft_select n rsz step offset a) = rsz.
Proof. exact dft_select_length. Qed.
Print Assumptions C07_dft_select_length.

(* ------------------------------------------------------------------------------------------------------ *)
(* A1: pmul is multiplication in Z[X]/(X^n+1) *)
Theorem C07_pmul_spec : forall (a b : list Z) (k : nat),
  length b = length a -> (k < length a)%nat ->
  nth k (pmul a b) 0 = zsum (fun i => nthZ a i * ext' b (Z.of_nat k - Z.of_nat i)) (length a).
Proof. exact pmul_spec. Qed.
Print Assumptions C07_pmul_spec.
Example C07_pmul_spec_ex : pmul [1; 2; 3; 4] [5; 6; 7; 8] = [-56; -36; 2; 60] /\ ext' [5; 6; 7; 8] (-1) = -8.
Proof. split; reflexivity. Qed.

(* A2: ring laws *)
Theorem C07_pmul_comm : forall a b, length b = length a -> pmul a b = pmul b a.
Proof. exact pmul_comm. Qed.
Print Assumptions C07_pmul_comm.

Theorem C07_pmul_assoc : forall a b c, length b = length a -> length c = length a -> pmul (pmul a b) c = pmul a (pmul b c).
Proof. exact pmul_assoc. Qed.
Print Assumptions C07_pmul_assoc.
Example C07_pmul_assoc_ex : pmul (pmul [1; -2] [3; 4]) [5; -6] = pmul [1; -2] (pmul [3; 4] [5; -6]).
Proof. reflexivity. Qed.

Theorem C07_pmul_padd_distr_l : forall a b c, length b = length a -> length c = length a ->
  pmul a (padd b c) = padd (pmul a b) (pmul a c).
Proof. exact pmul_padd_distr_l. Qed.
Print Assumptions C07_pmul_padd_distr_l.

Theorem C07_pmul_padd_distr_r : forall a b c, length b = length a -> length c = length a ->
  pmul (padd a b) c = padd (pmul a c) (pmul b c).
Proof. exact pmul_padd_distr_r. Qed.
Print Assumptions C07_pmul_padd_distr_r.

Theorem C07_pmul_psub_distr_l : forall a b c, length b = length a -> length c = length a ->
  pmul a (psub b c) = psub (pmul a b) (pmul a c).
Proof. exact pmul_psub_distr_l. Qed.
Print Assumptions C07_pmul_psub_distr_l.

Theorem C07_pmul_psub_distr_r : forall a b c, length b = length a -> length c = length a ->
  pmul (psub a b) c = psub (pmul a c) (pmul b c).
Proof. exact pmul_psub_distr_r. Qed.
Print Assumptions C07_pmul_psub_distr_r.

Theorem C07_pmul_pzero : forall a, pmul a (pzero (length a)) = pzero (length a) /\ pmul (pzero (length a)) a = pzero (length a).
Proof. intros a; split; [apply pmul_pzero_r|apply pmul_pzero_l]. Qed.
Print Assumptions C07_pmul_pzero.

Theorem C07_pmul_one : forall a, (1 <= length a)%nat -> pmul (pone (length a)) a = a /\ pmul a (pone (length a)) = a.
Proof. intros a H; split; [apply pmul_one_l|apply pmul_one_r]; exact H. Qed.
Print Assumptions C07_pmul_one.
Example C07_pmul_one_ex : pone 3 = [1; 0; 0] /\ pmul (pone 1) [7] = [7].
Proof. split; reflexivity. Qed.

Theorem C07_pmul_monomial : forall a p, (p < length a)%nat -> pmul (xpow (length a) p) a = monomial_mul' (Z.of_nat p) a.
Proof. exact pmul_monomial. Qed.
Print Assumptions C07_pmul_monomial.
Example C07_pmul_monomial_ex : xpow 4 1 = [0; 1; 0; 0] /\ monomial_mul' 1 [1; 2; 3; 4] = [-4; 1; 2; 3].
Proof. split; reflexivity. Qed.

(* A3: shape theorems *)
Theorem C07_dft_select_spec : forall n rsz step offset a j, (j < rsz)%nat ->
  lim (dft_select n rsz step offset a) j =
  if Nat.ltb j (Nat.min rsz (ceil_div (length a) step)) && Nat.ltb (offset + j * step) (length a)
  then lim a (offset + j * step) else pzero n.
Proof. exact dft_select_spec. Qed.
Print Assumptions C07_dft_select_spec.

Theorem C07_dft_select_natural : forall n rsz step offset a j, (1 <= step)%nat -> (j < rsz)%nat ->
  lim (dft_select n rsz step offset a) j = limz n a (offset + j * step).
Proof. exact dft_select_natural. Qed.
Print Assumptions C07_dft_select_natural.

Theorem C07_dft_select_past_end : forall n rsz step offset a j, (1 <= step)%nat -> (j < rsz)%nat ->
  (length a <= offset + j * step)%nat -> lim (dft_select n rsz step offset a) j = pzero n.
Proof. exact dft_select_past_end. Qed.
Print Assumptions C07_dft_select_past_end.
Example C07_dft_select_ex : dft_select 2 3 2 1 [[1; 2]; [3; 4]; [5; 6]; [7; 8]] = [[3; 4]; [7; 8]; [0; 0]].
Proof. reflexivity. Qed.

Theorem C07_dft_add_limbwise : forall n rsz a b j, wf n a -> wf n b -> (j < rsz)%nat ->
  lim (dft_add n rsz a b) j = padd (limz n a j) (limz n b j).
Proof. exact dft_add_limbwise. Qed.
Print Assumptions C07_dft_add_limbwise.

Theorem C07_dft_sub_limbwise : forall n rsz a b j, wf n a -> wf n b -> (j < rsz)%nat ->
  lim (dft_sub n rsz a b) j = psub (limz n a j) (limz n b j).
Proof. exact dft_sub_limbwise. Qed.
Print Assumptions C07_dft_sub_limbwise.
Example C07_dft_sub_ex : wf 2 [[1; 2]] /\ dft_sub 2 3 [[1; 2]] [[10; 20]; [30; 40]] = [[-9; -18]; [-30; -40]; [0; 0]].
Proof. split; [intros [|j] H; cbn in *; [reflexivity|lia]|reflexivity]. Qed.

Theorem C07_svp_is_product : forall n rsz s b j, (j < rsz)%nat ->
  lim (svp_apply n rsz s b) j = if Nat.ltb j (length b) then pmul s (lim b j) else pzero n.
Proof. exact svp_is_product. Qed.
Print Assumptions C07_svp_is_product.

Theorem C07_svp_coeff : forall n rsz s b j k, length s = n -> wf n b -> (j < rsz)%nat -> (j < length b)%nat -> (k < n)%nat ->
  nth k (lim (svp_apply n rsz s b) j) 0 = zsum (fun i => nthZ s i * ext' (lim b j) (Z.of_nat k - Z.of_nat i)) n.
Proof. exact svp_coeff. Qed.
Print Assumptions C07_svp_coeff.

Theorem C07_vmp_is_sum_of_row_products :
  forall (n rcols rsz acols asz rows msize limb_offset : nat) (aflat : nat -> list Z) (mflat : nat -> nat -> list Z) (c : nat),
  let row_max := Nat.min (acols * rows) (acols * asz) in
  let off := (limb_offset * rcols)%nat in
  let col_max := Nat.min (rcols * msize) (rcols * rsz + off) in
  vmp n rcols rsz acols asz rows msize limb_offset aflat mflat c =
  if Nat.ltb c (col_max - off)
  then psum n (fun q => pmul (aflat q) (mflat q (c + off)%nat)) row_max
  else pzero n.
Proof. exact vmp_is_sum_of_row_products. Qed.
Print Assumptions C07_vmp_is_sum_of_row_products.

Theorem C07_vmp_coeff :
  forall (n rcols rsz acols asz rows msize limb_offset : nat) (aflat : nat -> list Z) (mflat : nat -> nat -> list Z) (c k : nat),
  let row_max := Nat.min (acols * rows) (acols * asz) in
  let off := (limb_offset * rcols)%nat in
  let col_max := Nat.min (rcols * msize) (rcols * rsz + off) in
  (forall q, length (aflat q) = n) -> (forall q c', length (mflat q c') = n) ->
  (c < col_max - off)%nat -> (k < n)%nat ->
  nth k (vmp n rcols rsz acols asz rows msize limb_offset aflat mflat c) 0 =
  zsum (fun q => zsum (fun i => nthZ (aflat q) i * ext' (mflat q (c + off)%nat) (Z.of_nat k - Z.of_nat i)) n) row_max.
Proof. exact vmp_coeff. Qed.
Print Assumptions C07_vmp_coeff.
Example C07_vmp_ex :
  vmp 1 1 2 1 2 2 2 0 (fun q => [Z.of_nat q + 1]) (fun q c => [10 * Z.of_nat q + Z.of_nat c + 1]) 1%nat = [2 + 2 * 12].
Proof. reflexivity. Qed.

Theorem C07_pairwise_identity : forall ai aj bi bj, length aj = length ai -> length bi = length ai -> length bj = length ai ->
  psub (psub (pmul (padd ai aj) (padd bi bj)) (pmul ai bi)) (pmul aj bj) = padd (pmul ai bj) (pmul aj bi).
Proof. exact pairwise_identity. Qed.
Print Assumptions C07_pairwise_identity.

(* A4: the numerical hypothesis the FFT64 claim rests on *)
Theorem C07_fft_exact_if_close : forall v y s, 0 < s -> 2 * Z.abs (y - v * s) < s -> round_half y s = v.
Proof. exact fft_exact_if_close. Qed.
Print Assumptions C07_fft_exact_if_close.

Theorem C07_fft_exact_if_close_even : forall v y s, 0 < s -> 2 * Z.abs (y - v * s) < s -> round_half_even y s = v.
Proof. exact fft_exact_if_close_even. Qed.
Print Assumptions C07_fft_exact_if_close_even.
Example C07_round_ex : round_half (-7) 2 = -4 /\ round_half_even (-7) 2 = -4 /\ round_half 5 2 = 3 /\ round_half_even 5 2 = 2
                       /\ 2 * Z.abs (-1000001 - (-1) * 1000000) < 1000000.
Proof. repeat split; reflexivity. Qed.

(* ====================================================================================================== *)
(* Part B: NTT120 scalar layer.  Constants are the generated ones (Gen/C07Consts_gen.v).
   The butterfly networks ntt_ref / intt_ref are NOT covered by any theorem below. *)
From PV Require Import Proofs.C07Ntt Proofs.C07Lazy Proofs.C07LazyBbb.

Theorem C07_crt_consts_ok : forall ps, In ps [primes29; primes30; primes31] ->
  (forall i j, (i < j < 4)%nat -> Z.gcd (qk ps i) (qk ps j) = 1) /\
  (forall k, (k < 4)%nat -> (Qprod ps / qk ps k * crtk ps k) mod qk ps k = 1 /\ 0 <= crtk ps k < qk ps k).
Proof. exact crt_consts_ok. Qed.
Print Assumptions C07_crt_consts_ok.

Theorem C07_omega_order : forall ps, In ps [primes29; primes30; primes31] -> forall k, (k < 4)%nat ->
  omegak ps k ^ (2 ^ log_max_n) mod qk ps k = qk ps k - 1 /\ 1 < qk ps k.
Proof. exact omega_order. Qed.
Print Assumptions C07_omega_order.

Theorem C07_omega_root_of_unity : forall ps, In ps [primes29; primes30; primes31] -> forall k, (k < 4)%nat ->
  omegak ps k ^ (2 ^ (log_max_n + 1)) mod qk ps k = 1.
Proof. exact omega_root_of_unity. Qed.
Print Assumptions C07_omega_root_of_unity.
Example C07_consts_ex : qk primes30 0 = 2 ^ 30 - 2 * 2 ^ 17 + 1 /\ omegak primes30 3 = 846468380 /\ log_max_n = 16 /\
                        nth 0 Q_SHIFTED 0 = qk primes30 0 * 2 ^ 33.
Proof. repeat split; reflexivity. Qed.

Theorem C07_b_from_znx64_congr : forall x, in_range 64 x -> forall q, 0 < q < 2 ^ 32 ->
  b_from_znx64_k q x mod q = x mod q /\ 0 <= b_from_znx64_k q x < 2 ^ 64.
Proof. exact b_from_znx64_congr. Qed.
Print Assumptions C07_b_from_znx64_congr.

Theorem C07_b_from_znx64_vec : forall ps, In ps [primes29; primes30; primes31] -> forall x, in_range 64 x -> forall k, (k < 4)%nat ->
  nth k (b_from_znx64 ps x) 0 mod qk ps k = x mod qk ps k /\ 0 <= nth k (b_from_znx64 ps x) 0 < 2 ^ 64.
Proof. exact b_from_znx64_vec. Qed.
Print Assumptions C07_b_from_znx64_vec.

Theorem C07_b_from_znx64_masked_congr : forall x m, in_range 64 x -> in_range 64 m -> forall q, 0 < q < 2 ^ 32 ->
  b_from_znx64_k q (Z.land x m) mod q = Z.land x m mod q /\ 0 <= b_from_znx64_k q (Z.land x m) < 2 ^ 64.
Proof. exact b_from_znx64_masked_congr. Qed.
Print Assumptions C07_b_from_znx64_masked_congr.
Example C07_b_from_ex : in_range 64 (- 2 ^ 63) /\ b_from_znx64 primes30 (-1) = [9223372037798232568; 9223372036970549444; 9223372037283580214; 9223372037380339331].
Proof. split; [unfold in_range; lia|reflexivity]. Qed.

Theorem C07_c_from_b_correct : forall q x, 0 < q < 2 ^ 32 ->
  exists r r', c_from_b_k q x = [r; r'] /\ 0 <= r < q /\ 0 <= r' < q /\ r mod q = x mod q /\ r' mod q = (x * 2 ^ 32) mod q.
Proof. exact c_from_b_correct. Qed.
Print Assumptions C07_c_from_b_correct.

Theorem C07_c_from_znx64_correct : forall q x, 0 < q < 2 ^ 32 ->
  exists r r', c_from_znx64_k q x = [r; r'] /\ 0 <= r < q /\ 0 <= r' < q /\ r mod q = x mod q /\ r' mod q = (x * 2 ^ 32) mod q.
Proof. exact c_from_znx64_correct. Qed.
Print Assumptions C07_c_from_znx64_correct.

Theorem C07_same_residue_same_output : forall ps x y,
  (forall k, (k < 4)%nat -> nth k x 0 mod qk ps k = nth k y 0 mod qk ps k) -> b_to_znx128 ps x = b_to_znx128 ps y.
Proof. exact same_residue_same_output. Qed.
Print Assumptions C07_same_residue_same_output.

Theorem C07_b_to_znx128_exact : forall ps, In ps [primes29; primes30; primes31] -> forall x v,
  (forall k, (k < 4)%nat -> nth k x 0 mod qk ps k = v mod qk ps k) -> 2 * Z.abs v < Qprod ps ->
  b_to_znx128 ps x = v.
Proof. exact b_to_znx128_exact. Qed.
Print Assumptions C07_b_to_znx128_exact.
Example C07_b_to_znx128_ex : b_to_znx128 primes30 [2 ^ 64 - 1; 5 * qk primes30 1 + 3; 3; qk primes30 3 * 2 ^ 33 + 3] =
                             b_to_znx128 primes30 [(2 ^ 64 - 1) mod qk primes30 0; 3; 3; 3]
                             /\ 2 * Z.abs (- 2 ^ 118) < Qprod primes30.
Proof. split; [vm_compute; reflexivity|vm_compute; reflexivity]. Qed.

Theorem C07_b_round_trip : forall ps, In ps [primes29; primes30; primes31] -> forall x, in_range 64 x ->
  b_to_znx128 ps (b_from_znx64 ps x) = x.
Proof. exact b_round_trip. Qed.
Print Assumptions C07_b_round_trip.

Theorem C07_lazy_budget_bbc : forall h q terms, bbc_h_lo <= h < bbc_h_hi -> 2 ^ 15 <= q < 2 ^ 31 ->
  Z.of_nat (length terms) <= bbc_max_ell -> (forall t, In t terms -> term_ok t) ->
  bbc_k h q terms = bbc_exact h q terms /\ 0 <= bbc_exact h q terms < q * 2 ^ q_shift /\ q * 2 ^ q_shift < 2 ^ 64.
Proof. exact lazy_budget_bbc. Qed.
Print Assumptions C07_lazy_budget_bbc.

Theorem C07_lazy_budget_bbc_acc : forall terms, Z.of_nat (length terms) <= bbc_max_ell -> (forall t, In t terms -> term_ok t) ->
  (sum64 (map bbc_lo terms) = lsum (map lo_z terms) /\ sum64 (map bbc_hi terms) = lsum (map hi_z terms)) /\
  0 <= lsum (map lo_z terms) <= bbc_max_ell * (2 ^ 33 - 2) /\ 0 <= lsum (map hi_z terms) <= bbc_max_ell * (2 ^ 33 - 4).
Proof. intros terms H1 H2. split; [exact (bbc_sums_exact terms H1 H2)|exact (bbc_acc_bounds terms H1 H2)]. Qed.
Print Assumptions C07_lazy_budget_bbc_acc.

Theorem C07_lsum_prefix : forall l m, (forall t, In t l -> 0 <= t) -> 0 <= lsum (firstn m l) <= lsum l.
Proof. exact lsum_prefix. Qed.
Print Assumptions C07_lsum_prefix.

Theorem C07_bbc_exact_congr : forall h q terms, bbc_h_lo <= h < bbc_h_hi -> 2 ^ 15 <= q < 2 ^ 31 ->
  (forall t, In t terms -> term_ok t) -> bbc_exact h q terms mod q = lsum (map prod_z terms) mod q.
Proof. exact bbc_exact_congr. Qed.
Print Assumptions C07_bbc_exact_congr.

Theorem C07_bbc_congr : forall h q terms, bbc_h_lo <= h < bbc_h_hi -> 2 ^ 15 <= q < 2 ^ 31 ->
  Z.of_nat (length terms) <= bbc_max_ell -> (forall t, In t terms -> term_ok t) ->
  (forall t, In t terms -> prepared q t) -> bbc_k h q terms mod q = lsum (map dot_z terms) mod q.
Proof. exact bbc_congr. Qed.
Print Assumptions C07_bbc_congr.
Example C07_bbc_ex : term_ok (2 ^ 32 - 1, 2 ^ 32 - 1, (2 ^ 32 - 1, 2 ^ 32 - 1)) /\ prepared 7 (1, 2, (3, (3 * 2 ^ 32) mod 7 + 7)) /\
                     bbc_k 25 (qk primes30 0) [(5, 0, (7, 0)); (1, 1, (2, 2 * 2 ^ 32 mod qk primes30 0))] = 35 + 2 + 2 * 2 ^ 32 mod qk primes30 0.
Proof.
  split; [|split].
  - cbn [term_ok]. unfold is_u32. change (2 ^ 32) with 4294967296. lia.
  - vm_compute. reflexivity.
  - vm_compute. reflexivity.
Qed.

Theorem C07_lazy_budget_bbb : forall h q xy, 20 <= h <= 28 -> 2 ^ 15 <= q < 2 ^ 31 ->
  Z.of_nat (length xy) <= bbb_max_ell -> (forall p, In p xy -> pair_ok p) ->
  bbb_k h q xy = bbb_exact h q xy /\ 0 <= bbb_exact h q xy < 2 ^ 63.
Proof. exact lazy_budget_bbb. Qed.
Print Assumptions C07_lazy_budget_bbb.

Theorem C07_bbb_congr : forall h q xy, 20 <= h <= 28 -> 2 ^ 15 <= q < 2 ^ 31 ->
  Z.of_nat (length xy) <= bbb_max_ell -> (forall p, In p xy -> pair_ok p) ->
  bbb_k h q xy mod q = bbb_dot xy mod q.
Proof. exact bbb_congr. Qed.
Print Assumptions C07_bbb_congr.

Theorem C07_generated_in_budget_domain : forall ps, In ps [primes29; primes30; primes31] ->
  bbc_h_lo <= ps_bbc_h ps < bbc_h_hi /\ 20 <= ps_bbb_h ps <= 28 /\ forall k, (k < 4)%nat -> 2 ^ 15 <= qk ps k < 2 ^ 31.
Proof. exact generated_in_budget_domain. Qed.
Print Assumptions C07_generated_in_budget_domain.

Theorem C07_add_bbb_congr : forall q, 0 < q < 2 ^ 30 -> forall x y,
  add_bbb_k q x y mod q = (x + y) mod q /\ 0 <= add_bbb_k q x y < 2 * qshift q /\ 2 * qshift q < 2 ^ 64.
Proof. exact add_bbb_congr. Qed.
Print Assumptions C07_add_bbb_congr.

Theorem C07_sub_bbb_congr : forall q, 0 < q < 2 ^ 30 -> forall x y,
  sub_bbb_k q x y mod q = (x - y) mod q /\ 0 <= sub_bbb_k q x y < 2 * qshift q.
Proof. exact sub_bbb_congr. Qed.
Print Assumptions C07_sub_bbb_congr.

Theorem C07_neg_b_congr : forall q, 0 < q < 2 ^ 30 -> forall x, neg_b_k q x mod q = (- x) mod q /\ 0 < neg_b_k q x <= qshift q.
Proof. exact neg_b_congr. Qed.
Print Assumptions C07_neg_b_congr.

(* a documented claim that is false on the faithful model (and on the Rust code: record 7106 with pset 31) *)
Theorem C07_add_bbb_primes31_refuted : exists x y, let q := qk primes31 0 in
  0 <= x < qshift q /\ 0 <= y < qshift q /\ add_bbb_k q x y mod q <> (x + y) mod q.
Proof. exact add_bbb_primes31_refuted. Qed.
Print Assumptions C07_add_bbb_primes31_refuted.

From PV Require Import Proofs.C07LazyBaa.
Theorem C07_lazy_budget_baa : forall h q xy, 45 <= h <= 47 -> 2 ^ 15 <= q < 2 ^ 31 ->
  Z.of_nat (length xy) <= baa_max_ell -> (forall p, In p xy -> baa_pair_ok p) ->
  baa_k h q xy = baa_exact h q xy /\ 0 <= baa_exact h q xy < 2 ^ 64.
Proof. exact lazy_budget_baa. Qed.
Print Assumptions C07_lazy_budget_baa.

Theorem C07_baa_congr : forall h q xy, 45 <= h <= 47 -> 2 ^ 15 <= q < 2 ^ 31 ->
  Z.of_nat (length xy) <= baa_max_ell -> (forall p, In p xy -> baa_pair_ok p) ->
  baa_k h q xy mod q = baa_dot xy mod q.
Proof. exact baa_congr. Qed.
Print Assumptions C07_baa_congr.

Theorem C07_generated_baa_h : forall ps, In ps [primes29; primes30; primes31] -> 45 <= ps_baa_h ps <= 47.
Proof. exact generated_baa_h. Qed.
Print Assumptions C07_generated_baa_h.

From PV Require Import Proofs.C07Pipeline.
(* i64 a -> q120b, i64 b -> q120c, one-term bbc product: the residue of a*b for every prime; with C07_b_to_znx128_exact
   the reconstructed value is the exact integer a*b whenever 2|a*b| < Q *)
Theorem C07_scalar_product_residue : forall h q a b,
  bbc_h_lo <= h < bbc_h_hi -> 2 ^ 15 <= q < 2 ^ 31 -> in_range 64 a ->
  let x := b_from_znx64_k q a in
  let r := nth 0 (c_from_znx64_k q b) 0 in let r' := nth 1 (c_from_znx64_k q b) 0 in
  bbc_k h q [(x mod 2 ^ 32, x / 2 ^ 32, (r, r'))] mod q = (a * b) mod q.
Proof. exact scalar_product_residue. Qed.
Print Assumptions C07_scalar_product_residue.
Example C07_scalar_product_ex : run_c07_ntt 7116 [3; 30] [[-3; 2 ^ 59]; [7; - 2 ^ 59]] = Some [[-21; - 2 ^ 118]].
Proof. vm_compute. reflexivity. Qed.
