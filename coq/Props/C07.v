(* C07 — DFT-domain products equal exact negacyclic convolution.  Pinned statements only. *)
From PV Require Import Base.MachineInt Model.Znx Model.Limbs Model.Ring Model.DftAbs Model.C07Ntt120 Model.C07Run.
From PV Require Import Proofs.C07Dft Proofs.C07Ring Proofs.C07Shape Proofs.C07Round.
Open Scope Z_scope.

Theorem C07_dft_select_length : forall n rsz step offset a, length (dft_select n rsz step offset a) = rsz.
Proof. exact dft_select_length. Qed.
Print Assumptions C07_dft_select_length.

(* ------------------------------------------------------------------------------------------------------ *)
(* A1: pmul is multiplication in Z[X]/(X^n+1) *)
Theorem C07_pmul_spec : forall (a b : list Z) (k : nat),
  length b = length a -> (k < length a)%nat ->
  nth k (pmul a b) 0 = zsum (fun i => nthZ a i * ext' b (Z.of_nat k - Z.of_nat i)) (length a).
Proof. exact pmul_spec. Qed.
Print Assumptions C07_pmul_spec.
Example C07_pmul_spec_ex : pmul [1; 2; 3; 4] [5; 6; 7; 8] = [-56; -36; 2; 60] /\ ext' [5; 6; 7; 8] (-1) = -8.
Proof. split; reflexivity. Qed.

(* A2: ring laws *)
Theorem C07_pmul_comm : forall a b, length b = length a -> pmul a b = pmul b a.
Proof. exact pmul_comm. Qed.
Print Assumptions C07_pmul_comm.

Theorem C07_pmul_assoc : forall a b c, length b = length a -> length c = length a -> pmul (pmul a b) c = pmul a (pmul b c).
Proof. exact pmul_assoc. Qed.
Print Assumptions C07_pmul_assoc.
Example C07_pmul_assoc_ex : pmul (pmul [1; -2] [3; 4]) [5; -6] = pmul [1; -2] (pmul [3; 4] [5; -6]).
Proof. reflexivity. Qed.

Theorem C07_pmul_padd_distr_l : forall a b c, length b = length a -> length c = length a ->
  pmul a (padd b c) = padd (pmul a b) (pmul a c).
Proof. exact pmul_padd_distr_l. Qed.
Print Assumptions C07_pmul_padd_distr_l.

Theorem C07_pmul_padd_distr_r : forall a b c, length b = length a -> length c = length a ->
  pmul (padd a b) c = padd (pmul a c) (pmul b c).
Proof. exact pmul_padd_distr_r. Qed.
Print Assumptions C07_pmul_padd_distr_r.

Theorem C07_pmul_psub_distr_l : forall a b c, length b = length a -> length c = length a ->
  pmul a (psub b c) = psub (pmul a b) (pmul a c).
Proof. exact pmul_psub_distr_l. Qed.
Print Assumptions C07_pmul_psub_distr_l.

Theorem C07_pmul_psub_distr_r : forall a b c, length b = length a -> length c = length a ->
  pmul (psub a b) c = psub (pmul a c) (pmul b c).
Proof. exact pmul_psub_distr_r. Qed.
Print Assumptions C07_pmul_psub_distr_r.

Theorem C07_pmul_pzero : forall a, pmul a (pzero (length a)) = pzero (length a) /\ pmul (pzero (length a)) a = pzero (length a).
Proof. intros a; split; [apply pmul_pzero_r|apply pmul_pzero_l]. Qed.
Print Assumptions C07_pmul_pzero.

Theorem C07_pmul_one : forall a, (1 <= length a)%nat -> pmul (pone (length a)) a = a /\ pmul a (pone (length a)) = a.
Proof. intros a H; split; [apply pmul_one_l|apply pmul_one_r]; exact H. Qed.
Print Assumptions C07_pmul_one.
Example C07_pmul_one_ex : pone 3 = [1; 0; 0] /\ pmul (pone 1) [7] = [7].
Proof. split; reflexivity. Qed.

Theorem C07_pmul_monomial : forall a p, (p < length a)%nat -> pmul (xpow (length a) p) a = monomial_mul' (Z.of_nat p) a.
Proof. exact pmul_monomial. Qed.
Print Assumptions C07_pmul_monomial.
Example C07_pmul_monomial_ex : xpow 4 1 = [0; 1; 0; 0] /\ monomial_mul' 1 [1; 2; 3; 4] = [-4; 1; 2; 3].
Proof. split; reflexivity. Qed.

(* A3: shape theorems *)
Theorem C07_dft_select_spec : forall n rsz step offset a j, (j < rsz)%nat ->
  lim (dft_select n rsz step offset a) j =
  if Nat.ltb j (Nat.min rsz (ceil_div (length a) step)) && Nat.ltb (offset + j * step) (length a)
  then lim a (offset + j * step) else pzero n.
Proof. exact dft_select_spec. Qed.
Print Assumptions C07_dft_select_spec.

Theorem C07_dft_select_natural : forall n rsz step offset a j, (1 <= step)%nat -> (j < rsz)%nat ->
  lim (dft_select n rsz step offset a) j = limz n a (offset + j * step).
Proof. exact dft_select_natural. Qed.
Print Assumptions C07_dft_select_natural.

Theorem C07_dft_select_past_end : forall n rsz step offset a j, (1 <= step)%nat -> (j < rsz)%nat ->
  (length a <= offset + j * step)%nat -> lim (dft_select n rsz step offset a) j = pzero n.
Proof. exact dft_select_past_end. Qed.
Print Assumptions C07_dft_select_past_end.
Example C07_dft_select_ex : dft_select 2 3 2 1 [[1; 2]; [3; 4]; [5; 6]; [7; 8]] = [[3; 4]; [7; 8]; [0; 0]].
Proof. reflexivity. Qed.

Theorem C07_dft_add_limbwise : forall n rsz a b j, wf n a -> wf n b -> (j < rsz)%nat ->
  lim (dft_add n rsz a b) j = padd (limz n a j) (limz n b j).
Proof. exact dft_add_limbwise. Qed.
Print Assumptions C07_dft_add_limbwise.

Theorem C07_dft_sub_limbwise : forall n rsz a b j, wf n a -> wf n b -> (j < rsz)%nat ->
  lim (dft_sub n rsz a b) j = psub (limz n a j) (limz n b j).
Proof. exact dft_sub_limbwise. Qed.
Print Assumptions C07_dft_sub_limbwise.
Example C07_dft_sub_ex : wf 2 [[1; 2]] /\ dft_sub 2 3 [[1; 2]] [[10; 20]; [30; 40]] = [[-9; -18]; [-30; -40]; [0; 0]].
Proof. split; [intros [|j] H; cbn in *; [reflexivity|lia]|reflexivity]. Qed.

Theorem C07_svp_is_product : forall n rsz s b j, (j < rsz)%nat ->
  lim (svp_apply n rsz s b) j = if Nat.ltb j (length b) then pmul s (lim b j) else pzero n.
Proof. exact svp_is_product. Qed.
Print Assumptions C07_svp_is_product.

Theorem C07_svp_coeff : forall n rsz s b j k, length s = n -> wf n b -> (j < rsz)%nat -> (j < length b)%nat -> (k < n)%nat ->
  nth k (lim (svp_apply n rsz s b) j) 0 = zsum (fun i => nthZ s i * ext' (lim b j) (Z.of_nat k - Z.of_nat i)) n.
Proof. exact svp_coeff. Qed.
Print Assumptions C07_svp_coeff.

Theorem C07_vmp_is_sum_of_row_products :
  forall (n rcols rsz acols asz rows msize limb_offset : nat) (aflat : nat -> list Z) (mflat : nat -> nat -> list Z) (c : nat),
  let row_max := Nat.min (acols * rows) (acols * asz) in
  let off := (limb_offset * rcols)%nat in
  let col_max := Nat.min (rcols * msize) (rcols * rsz + off) in
  vmp n rcols rsz acols asz rows msize limb_offset aflat mflat c =
  if Nat.ltb c (col_max - off)
  then psum n (fun q => pmul (aflat q) (mflat q (c + off)%nat)) row_max
  else pzero n.
Proof. exact vmp_is_sum_of_row_products. Qed.
Print Assumptions C07_vmp_is_sum_of_row_products.

Theorem C07_vmp_coeff :
  forall (n rcols rsz acols asz rows msize limb_offset : nat) (aflat : nat -> list Z) (mflat : nat -> nat -> list Z) (c k : nat),
  let row_max := Nat.min (acols * rows) (acols * asz) in
  let off := (limb_offset * rcols)%nat in
  let col_max := Nat.min (rcols * msize) (rcols * rsz + off) in
  (forall q, length (aflat q) = n) -> (forall q c', length (mflat q c') = n) ->
  (c < col_max - off)%nat -> (k < n)%nat ->
  nth k (vmp n rcols rsz acols asz rows msize limb_offset aflat mflat c) 0 =
  zsum (fun q => zsum (fun i => nthZ (aflat q) i * ext' (mflat q (c + off)%nat) (Z.of_nat k - Z.of_nat i)) n) row_max.
Proof. exact vmp_coeff. Qed.
Print Assumptions C07_vmp_coeff.
Example C07_vmp_ex :
  vmp 1 1 2 1 2 2 2 0 (fun q => [Z.of_nat q + 1]) (fun q c => [10 * Z.of_nat q + Z.of_nat c + 1]) 1%nat = [2 + 2 * 12].
Proof. reflexivity. Qed.

Theorem C07_pairwise_identity : forall ai aj bi bj, length aj = length ai -> length bi = length ai -> length bj = length ai ->
  psub (psub (pmul (padd ai aj) (padd bi bj)) (pmul ai bi)) (pmul aj bj) = padd (pmul ai bj) (pmul aj bi).
Proof. exact pairwise_identity. Qed.
Print Assumptions C07_pairwise_identity.

(* A4: the numerical hypothesis the FFT64 claim rests on *)
Theorem C07_fft_exact_if_close : forall v y s, 0 < s -> 2 * Z.abs (y - v * s) < s -> round_half y s = v.
Proof. exact fft_exact_if_close. Qed.
Print Assumptions C07_fft_exact_if_close.

Theorem C07_fft_exact_if_close_even : forall v y s, 0 < s -> 2 * Z.abs (y - v * s) < s -> round_half_even y s = v.
Proof. exact fft_exact_if_close_even. Qed.
Print Assumptions C07_fft_exact_if_close_even.
Example C07_round_ex : round_half (-7) 2 = -4 /\ round_half_even (-7) 2 = -4 /\ round_half 5 2 = 3 /\ round_half_even 5 2 = 2
                       /\ 2 * Z.abs (-1000001 - (-1) * 1000000) < 1000000.
Proof. repeat split; reflexivity. Qed.
