(* C07 — DFT-domain products equal exact negacyclic convolution.  Pinned statements only. *)
From PV Require Import Base.MachineInt Model.Znx Model.Limbs Model.Ring Model.DftAbs Proofs.C07Dft.
Open Scope Z_scope.

Theorem C07_dft_select_length : forall n rsz step offset a, length (dft_select n rsz step offset a) = rsz.
Proof. exact dft_select_length. Qed.
Print Assumptions C07_dft_select_length.
