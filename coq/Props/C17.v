(* C17 - safe API calls never access memory outside the buffers they were given: the LOGIC of addressing.
   Pinned statements only.  Partial by nature (DESIGN.md C17): intrinsic bodies, assembly, uninitialised memory and the
   allocator are observed by the harness, not proved. *)
From PV Require Import Base.MachineInt Model.Znx Model.Limbs Model.Ring Model.Flat Model.C12Scratch
  Model.C17Mem Model.C17Ops Model.C17Run Proofs.C17Bounds Proofs.C17Total Proofs.C17Compact Proofs.C17Hist Proofs.C17Main.
From Coq Require Import Arith PeanoNat.
Open Scope Z_scope.

(* ---- accessors ---- *)
Theorem C17_at_in_bounds : forall v i j,
  wf_v v -> Inv v -> 0 <= i < v_cols v -> 0 <= j < v_size v ->
  0 <= v_n v * (j * v_cols v + i) /\ v_n v * (j * v_cols v + i) + v_n v <= v_len v / v_w v.
Proof. exact at_in_bounds. Qed.
Print Assumptions C17_at_in_bounds.

Theorem C17_at_in_bounds_capacity : forall v i j,
  wf_v v -> Inv v -> 0 <= i < v_cols v -> 0 <= j < v_max v -> at_end v i j <= cap_words v.
Proof. exact at_in_bounds_cap. Qed.
Print Assumptions C17_at_in_bounds_capacity.

Theorem C17_at_disjoint : forall v i j i' j',
  0 <= v_n v -> 0 <= i < v_cols v -> 0 <= i' < v_cols v -> 0 <= j -> 0 <= j' -> (i, j) <> (i', j') ->
  at_end v i j <= at_off v i' j' \/ at_end v i' j' <= at_off v i j.
Proof. exact at_disjoint. Qed.
Print Assumptions C17_at_disjoint.

Theorem C17_raw_in_bounds : forall v,
  wf_v v -> Inv v -> raw_words v * v_w v <= v_len v /\ raw_words v <= cap_words v.
Proof. exact raw_in_bounds. Qed.
Print Assumptions C17_raw_in_bounds.

(* the proposed accessor hook never fires on a well-formed object *)
Theorem C17_hook_silent : forall v i j,
  wf_v v -> Inv v -> 0 <= i < v_cols v -> 0 <= j < v_size v -> hook_at_ok v i j = true /\ hook_raw_ok v = true.
Proof. exact hook_silent. Qed.
Print Assumptions C17_hook_silent.

(* MatZnx::at / at_mut: the entry's byte range is inside the buffer and the returned VecZnx view is well formed;
   VmpPMat / MatZnx raw *)
Theorem C17_mat_at_in_bounds : forall m row col,
  wf_m m -> InvM m -> 0 <= row < m_rows m -> 0 <= col < m_cin m ->
  0 <= m_at_start m row col /\ m_at_end m row col <= m_len m /\
  wf_v (m_at_view m) /\ Inv (m_at_view m) /\ v_len (m_at_view m) = m_at_end m row col - m_at_start m row col.
Proof. exact mat_at_in_bounds. Qed.
Print Assumptions C17_mat_at_in_bounds.

Theorem C17_mat_raw_in_bounds : forall m,
  wf_m m -> InvM m -> m_raw_words m * m_w m <= m_len m /\ m_raw_words m <= m_len m / m_w m.
Proof. exact mat_raw_in_bounds. Qed.
Print Assumptions C17_mat_raw_in_bounds.

(* the default trait accessor on a matrix layout needs a non-empty matrix; otherwise refuted *)
Theorem C17_mat_trait_at_in_bounds : forall m i j,
  wf_m m -> InvM m -> 1 <= m_rows m -> 1 <= m_cout m -> 0 <= i < m_cin m -> 0 <= j < m_size m ->
  m_trait_at_end m i j * m_w m <= m_len m.
Proof. exact mat_trait_at_in_bounds. Qed.
Print Assumptions C17_mat_trait_at_in_bounds.
Theorem C17_mat_trait_at_refuted :
  exists m i j, wf_m m /\ InvM m /\ 0 <= i < m_cin m /\ 0 <= j < m_size m /\ ~ (m_trait_at_end m i j * m_w m <= m_len m).
Proof. exact mat_trait_at_refuted. Qed.
Print Assumptions C17_mat_trait_at_refuted.

(* ---- resizing and constructors ---- *)
Theorem C17_set_size_preserves_inv : forall v v' s,
  wf_v v -> Inv v -> 0 <= s -> v_set_size v s = Some v' ->
  wf_v v' /\ Inv v' /\ v_size v' = s /\ v_max v' = v_max v /\ v_len v' = v_len v.
Proof. exact set_size_preserves_inv. Qed.
Print Assumptions C17_set_size_preserves_inv.

Theorem C17_constructors_establish_inv :
  (forall n cols size w, 0 <= n -> 0 <= cols -> 0 <= size -> 0 < w -> wf_v (v_alloc n cols size w) /\ Inv (v_alloc n cols size w)) /\
  (forall n cols size w len v, 0 <= n -> 0 <= cols -> 0 <= size -> 0 < w -> v_from_bytes n cols size w len = Some v -> wf_v v /\ Inv v) /\
  (forall v new_size, wf_v v -> Inv v -> 0 <= new_size ->
      wf_v (v_realloc v new_size) /\ Inv (v_realloc v new_size) /\ v_size (v_realloc v new_size) = new_size) /\
  (forall v, Inv v -> Inv (v_to_ref v) /\ v_to_ref v = v) /\
  (forall v w_big, wf_v v -> Inv v -> 0 < w_big <= v_w v -> Inv (v_into_big v w_big)) /\
  (forall v, Inv (v_as_scalar v)) /\
  (forall n rows cin cout size w, 0 <= n -> 0 <= rows -> 0 <= cin -> 0 <= cout -> 0 <= size -> 0 < w ->
      wf_m (m_alloc n rows cin cout size w) /\ InvM (m_alloc n rows cin cout size w)) /\
  (forall n rows cin cout size w len m, m_from_bytes n rows cin cout size w len = Some m -> InvM m) /\
  (* the UNCHECKED from_data (VecZnxBig, VecZnxDft, SvpPPol, MatZnx, VmpPMat, CnvPVec): exactly when the caller's buffer is
     large enough - nothing checks it *)
  (forall len n cols size w, Inv (v_from_data len n cols size w) <-> n * cols * size * w <= len).
Proof. exact constructors_establish_inv. Qed.
Print Assumptions C17_constructors_establish_inv.

Theorem C17_from_data_refuted : exists len n cols size w, 0 <= len /\ 0 < w /\ ~ Inv (v_from_data len n cols size w).
Proof. exact from_data_refuted. Qed.
Print Assumptions C17_from_data_refuted.

(* ---- deserialisation (after repairs 206cd69 / 0b16af7) ---- *)
(* whatever the stream header says, an accepted read leaves a well-formed receiver: checked products, max_size < size
   rejected, max_size clamped to what the receiver's buffer holds *)
Theorem C17_read_from_establishes_inv : forall v v' h avail,
  wf_v v -> v_w v = 8 -> 0 <= sh_n h /\ 0 <= sh_cols h /\ 0 <= sh_size h /\ 0 <= sh_max h ->
  v_read_from v h avail = ROk v' ->
  wf_v v' /\ Inv v' /\ v_len v' = v_len v /\ v_size v' = sh_size h /\ v_max v' <= sh_max h.
Proof. exact read_from_establishes_inv. Qed.
Print Assumptions C17_read_from_establishes_inv.

Theorem C17_mat_read_from_establishes_inv : forall m m' n size rows cin cout len avail,
  m_w m = 8 -> m_read_from m n size rows cin cout len avail = Some m' -> InvM m' /\ m_len m' = m_len m.
Proof. exact mat_read_from_inv. Qed.
Print Assumptions C17_mat_read_from_establishes_inv.

(* VecZnx / ScalarZnx::from_data after repair 2067fe8 *)
Theorem C17_from_data_checked_establishes_inv : forall len n cols size w v,
  0 <= n -> 0 <= cols -> 0 <= size -> 0 < w -> 0 <= len ->
  v_from_data_checked len n cols size w = Some v -> wf_v v /\ Inv v.
Proof. exact from_data_checked_inv. Qed.
Print Assumptions C17_from_data_checked_establishes_inv.

(* ---- scratch ---- *)
Theorem C17_take_in_window : forall k off len win rest,
  0 <= k -> take k (off, len) = Some (win, rest) ->
  snd win = k /\ fst win mod 64 = 0 /\
  (0 < k -> off <= fst win /\ fst win + snd win <= off + len) /\
  fst rest = fst win + snd win /\ 0 <= snd rest /\
  (0 < snd rest -> off <= fst rest /\ fst rest + snd rest <= off + len).
Proof. exact take_in_window. Qed.
Print Assumptions C17_take_in_window.

Theorem C17_take_typed_aligned : forall len wT alignT off l win rest,
  0 <= len -> 0 <= wT -> 0 < alignT -> (alignT | 64) ->
  take_typed len wT (off, l) = Some (win, rest) -> snd win = len * wT /\ fst win mod alignT = 0.
Proof. exact take_typed_aligned. Qed.
Print Assumptions C17_take_typed_aligned.

Theorem C17_take_establishes_inv : forall n cols size w off len v win rest,
  0 <= n -> 0 <= cols -> 0 <= size -> 0 < w ->
  v_take n cols size w (off, len) = Some (v, win, rest) ->
  wf_v v /\ Inv v /\ v_len v = snd win /\ snd win = bytes_of n cols size w /\ fst win mod 64 = 0 /\
  (0 < snd win -> off <= fst win /\ fst win + snd win <= off + len) /\ fst rest = fst win + snd win.
Proof. exact v_take_inv. Qed.
Print Assumptions C17_take_establishes_inv.

Theorem C17_take_zero_outside_refuted :
  exists off len win rest, take 0 (off, len) = Some (win, rest) /\ off + len < fst win.
Proof. exact take_zero_outside_refuted. Qed.
Print Assumptions C17_take_zero_outside_refuted.

(* ---- histories of the harness: every history establishes Inv, except from_data of a layout that does not validate ---- *)
Theorem C17_histories_establish_inv : forall vec chk n cols size w hist hp1 hp2 v,
  0 <= n -> 0 <= cols -> 0 <= size -> 0 < w -> 0 <= hp1 -> 0 <= hp2 ->
  (hist = 9 -> chk = true) ->
  hist_hdr vec chk n cols size w (cols * size) hist hp1 hp2 = HOk v -> wf_v v /\ Inv v.
Proof. exact histories_inv. Qed.
Print Assumptions C17_histories_establish_inv.

Theorem C17_history_from_data_unchecked_refuted :
  exists n cols size w hp1 v, 0 < w /\ hist_hdr false false n cols size w (cols * size) 9 hp1 0 = HOk v /\ ~ Inv v.
Proof. exact history_from_data_unchecked_refuted. Qed.
Print Assumptions C17_history_from_data_unchecked_refuted.

(* ---- op_total: no loop of the modelled reference operations indexes outside its operands ---- *)
Theorem C17_op_total_limbs : forall w b off k a r0 ov,
  normalize_inter_c w b off a r0 = Some (normalize_inter w b off a r0) /\
  normalize_assign_c w b r0 = Some (normalize_assign w b r0) /\
  lsh_assign_c w b k r0 = Some (lsh_assign w b k r0) /\
  lsh_c w ov b k a r0 = Some (lsh w ov b k a r0) /\
  lsh_sub_c w b k a r0 = Some (lsh_sub w b k a r0) /\
  rsh_assign_c w b k r0 = Some (rsh_assign w b k r0) /\
  rsh_c w ov b k a r0 = Some (rsh w ov b k a r0) /\
  rsh_sub_c w b k a r0 = Some (rsh_sub w b k a r0).
Proof. exact (fun w b off k a r0 ov => op_total_limbs w b off k a r0 ov). Qed.
Print Assumptions C17_op_total_limbs.

Theorem C17_op_total_vec : forall w n p f a b r0,
  vec_add_c w n a b r0 = Some (vec_add w n a b r0) /\
  vec_sub_c w n a b r0 = Some (vec_sub w n a b r0) /\
  vec_add_assign_c w a r0 = Some (vec_add_assign w a r0) /\
  vec_sub_assign_c w a r0 = Some (vec_sub_assign w a r0) /\
  vec_sub_negate_assign_c w a r0 = Some (vec_sub_negate_assign w a r0) /\
  vec_unary_c n f a r0 = Some (vec_unary n f a r0) /\
  vec_automorphism_c w n p a r0 = Some (vec_automorphism w n p a r0) /\
  vec_switch_ring_c n a r0 = Some (vec_switch_ring n a r0).
Proof. exact (fun w n p f a b r0 => op_total_vec w n p f a b r0). Qed.
Print Assumptions C17_op_total_vec.

(* the twins really check: an index outside the operand is rejected *)
Theorem C17_checked_access_rejects : forall l i x,
  i < 0 \/ Z.of_nat (length l) <= i -> getc l i = None /\ updc l i x = None.
Proof. exact checked_access_rejects. Qed.
Print Assumptions C17_checked_access_rejects.

(* flat layer (col_op / limb_at / write_limb): every active limb is n full words inside the buffer *)
Theorem C17_flat_in_bounds : forall s data j,
  shape_ok s data = true -> (j < s_size s)%nat ->
  (s_n s * (j * s_cols s + s_col s) + s_n s <= length data)%nat /\
  length (limb_at (s_n s) (s_cols s) data (s_col s) j) = s_n s /\
  forall l, length (write_limb (s_n s) (s_cols s) data (s_col s) j l) = length data.
Proof. exact flat_in_bounds. Qed.
Print Assumptions C17_flat_in_bounds.

(* coefficient level: switch_ring gathers / scatters and the automorphism permutation stay inside the limb *)
Theorem C17_ring_kernel_indices :
  (forall n_in n_out t, (0 < n_out)%nat -> (n_out <= n_in)%nat -> (t < n_out)%nat -> (switch_down_ix n_in n_out t < n_in)%nat) /\
  (forall n_in n_out t, (0 < n_in)%nat -> (n_in <= n_out)%nat -> (t < n_in)%nat -> (switch_up_ix n_in n_out t < n_out)%nat) /\
  (forall n p i, 0 < n -> 0 <= auto_ix n p i < n) /\
  (forall len, 0 <= len -> 0 <= simd_main_last len <= len /\ len - simd_main_last len < 4).
Proof. exact ring_kernel_indices. Qed.
Print Assumptions C17_ring_kernel_indices.

(* ---- in-place NTT120 compaction ---- *)
Theorem C17_compact_blocks_safe : forall n nb k c k' c',
  0 < n -> 0 <= k < nb -> 0 <= k' < nb -> 0 <= c < n -> 0 <= c' < n ->
  (* every access inside the raw view *)
  (0 <= cb_src n k c /\ cb_src n k c + 4 <= 4 * n * nb /\ 0 <= cb_dst n k c /\ cb_dst n k c + 2 <= 2 * n * nb) /\
  (* a write never reaches a source word of a coefficient processed later *)
  (cb_before k c k' c' -> cb_dst n k c + 2 <= cb_src n k' c') /\
  (* nor the block on which a later inverse NTT runs in place *)
  (k < k' -> cb_dst n k c + 2 <= 4 * n * k') /\
  (* own source / destination overlap only for the very first coefficient (read into locals first) *)
  (cb_src n k c < cb_dst n k c + 2 -> k = 0 /\ c = 0).
Proof. exact compact_blocks_safe. Qed.
Print Assumptions C17_compact_blocks_safe.

Theorem C17_compact_inplace_correct : forall g orig M,
  (4 * M <= length orig)%nat ->
  length (compact_inplace g orig M) = length orig /\
  (forall m, (m < M)%nat ->
     (nthw (compact_inplace g orig M) (2 * m), nthw (compact_inplace g orig M) (2 * m + 1)) = compact_spec g orig m) /\
  (forall i, (2 * M <= i)%nat -> nthw (compact_inplace g orig M) i = nthw orig i).
Proof. exact compact_inplace_correct. Qed.
Print Assumptions C17_compact_inplace_correct.

(* ---- the seeded mutants of the self-test are refuted in the model ---- *)
Theorem C17_mutants_refuted :
  (exists a r0, vec_copy_bad_c a r0 = None) /\
  (exists len, 0 <= len /\ simd_main_last len - 4 < 0) /\
  (exists v s, wf_v v /\ Inv v /\ 0 <= s /\ ~ Inv (mkV (v_n v) (v_cols v) s (v_max v) (v_len v) (v_w v))) /\
  (exists k off len win rest, take_bad k (off, len) = Some (win, rest) /\ 0 < snd rest /\ off + len < fst rest + snd rest).
Proof. exact mutants_refuted. Qed.
Print Assumptions C17_mutants_refuted.

(* ---- examples: the hypotheses are satisfiable by non-trivial instances ---- *)
Example C17_inv_example :
  let v := mkV 8 3 2 5 (8 * 3 * 5 * 8) 8 in
  wf_v v /\ Inv v /\ at_off v 2 1 = 40 /\ at_end v 2 1 = 48 /\ cap_words v = 120 /\ raw_words v = 48.
Proof. unfold wf_v, Inv, at_off, at_end, cap_words, raw_words; cbn. repeat split; lia. Qed.

Example C17_take_example :
  take 24 (8, 100) = Some ((64, 24), (88, 20)) /\ take 24 (8, 60) = None.
Proof. split; vm_compute; reflexivity. Qed.

Example C17_history_example :
  (* writer with 2 spare limbs, receiver without: read_from accepts and clamps max_size to the receiver's 2 limbs *)
  run_c17 17000 [1; 8; 4; 3; 1; 2; 0;  1; 2; 0;  1; 1; 0;  0; 0; 0;  0; 0; 0; 0; 7] [] =
    Some [[0; 1; 0; 1]; [4; 1; 1; 2; 64; 8]] /\
  (* a receiver of equal capacity keeps the writer's max_size *)
  run_c17 17000 [1; 8; 4; 3; 1; 2; 2;  1; 2; 0;  1; 1; 0;  0; 0; 0;  0; 0; 0; 0; 7] [] =
    Some [[0; 1; 0; 1]; [4; 1; 1; 3; 128; 8]] /\
  (* VecZnxBig::from_data (NTT120: 16-byte words) on a buffer one word short: ill-formed, nothing is run *)
  run_c17 17000 [3; 42; 4; 9; 1; 2; 0;  1; 2; 0;  1; 2; 0;  0; 0; 0;  0; 0; 0; 0; 7] [] =
    Some [[3; 1; 0; 1]; [4; 1; 2; 2; 112; 16]].
Proof. repeat split; vm_compute; reflexivity. Qed.

Example C17_normalize_indices_example :
  normalize_inter_c 64 4 (-9) [1; 2; 3] [0; 0; 0; 0; 0] = Some (normalize_inter 64 4 (-9) [1; 2; 3] [0; 0; 0; 0; 0]).
Proof. vm_compute. reflexivity. Qed.
