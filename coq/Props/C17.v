(* C17 - safe API calls never access memory outside the buffers they were given: the LOGIC of addressing.
   Pinned statements only.  Partial by nature (DESIGN.md C17): intrinsic bodies, assembly, uninitialised memory and the
   allocator are observed by the harness, not proved. *)
From PV Require Import Base.MachineInt Model.Znx Model.Limbs Model.LimbsBig Model.Ring Model.DftAbs Model.Flat Model.C12Scratch
  Model.C17Mem Model.C17Ops Model.C17Ops2 Model.C17Run Proofs.C17Bounds Proofs.C17Total Proofs.C17Total2 Proofs.C17Compact Proofs.C17Hist
  Proofs.C17Main Proofs.C17Main2.
From Coq Require Import Arith PeanoNat.
Open Scope Z_scope.

(* ---- accessors ---- *)
Theorem C17_at_in_bounds : forall v i j,
  wf_v v -> Inv v -> 0 <= i < v_cols v -> 0 <= j < v_size v ->
  0 <= v_n v * (j * v_cols v + i) /\ v_n v * (j * v_cols v + i) + v_n v <= v_len v / v_w v.
Proof. exact at_in_bounds. Qed.
Print Assumptions C17_at_in_bounds.

Theorem C17_at_in_bounds_capacity : forall v i j,
  wf_v v -> Inv v -> 0 <= i < v_cols v -> 0 <= j < v_max v -> at_end v i j <= cap_words v.
Proof. exact at_in_bounds_cap. Qed.
Print Assumptions C17_at_in_bounds_capacity.

Theorem C17_at_disjoint : forall v i j i' j',
  0 <= v_n v -> 0 <= i < v_cols v -> 0 <= i' < v_cols v -> 0 <= j -> 0 <= j' -> (i, j) <> (i', j') ->
  at_end v i j <= at_off v i' j' \/ at_end v i' j' <= at_off v i j.
Proof. exact at_disjoint. Qed.
Print Assumptions C17_at_disjoint.

Theorem C17_raw_in_bounds : forall v,
  wf_v v -> Inv v -> raw_words v * v_w v <= v_len v /\ raw_words v <= cap_words v.
Proof. exact raw_in_bounds. Qed.
Print Assumptions C17_raw_in_bounds.

(* the proposed accessor hook never fires on a well-formed object *)
Theorem C17_hook_silent : forall v i j,
  wf_v v -> Inv v -> 0 <= i < v_cols v -> 0 <= j < v_size v -> hook_at_ok v i j = true /\ hook_raw_ok v = true.
Proof. exact hook_silent. Qed.
Print Assumptions C17_hook_silent.

(* MatZnx::at / at_mut: the entry's byte range is inside the buffer and the returned VecZnx view is well formed;
   VmpPMat / MatZnx raw *)
Theorem C17_mat_at_in_bounds : forall m row col,
  wf_m m -> InvM m -> 0 <= row < m_rows m -> 0 <= col < m_cin m ->
  0 <= m_at_start m row col /\ m_at_end m row col <= m_len m /\
  wf_v (m_at_view m) /\ Inv (m_at_view m) /\ v_len (m_at_view m) = m_at_end m row col - m_at_start m row col.
Proof. exact mat_at_in_bounds. Qed.
Print Assumptions C17_mat_at_in_bounds.

Theorem C17_mat_raw_in_bounds : forall m,
  wf_m m -> InvM m -> m_raw_words m * m_w m <= m_len m /\ m_raw_words m <= m_len m / m_w m.
Proof. exact mat_raw_in_bounds. Qed.
Print Assumptions C17_mat_raw_in_bounds.

(* the default trait accessor on a matrix layout needs a non-empty matrix; otherwise refuted *)
Theorem C17_mat_trait_at_in_bounds : forall m i j,
  wf_m m -> InvM m -> 1 <= m_rows m -> 1 <= m_cout m -> 0 <= i < m_cin m -> 0 <= j < m_size m ->
  m_trait_at_end m i j * m_w m <= m_len m.
Proof. exact mat_trait_at_in_bounds. Qed.
Print Assumptions C17_mat_trait_at_in_bounds.
Theorem C17_mat_trait_at_refuted :
  exists m i j, wf_m m /\ InvM m /\ 0 <= i < m_cin m /\ 0 <= j < m_size m /\ ~ (m_trait_at_end m i j * m_w m <= m_len m).
Proof. exact mat_trait_at_refuted. Qed.
Print Assumptions C17_mat_trait_at_refuted.

(* ---- resizing and constructors ---- *)
Theorem C17_set_size_preserves_inv : forall v v' s,
  wf_v v -> Inv v -> 0 <= s -> v_set_size v s = Some v' ->
  wf_v v' /\ Inv v' /\ v_size v' = s /\ v_max v' = v_max v /\ v_len v' = v_len v.
Proof. exact set_size_preserves_inv. Qed.
Print Assumptions C17_set_size_preserves_inv.

Theorem C17_constructors_establish_inv :
  (forall n cols size w, 0 <= n -> 0 <= cols -> 0 <= size -> 0 < w -> wf_v (v_alloc n cols size w) /\ Inv (v_alloc n cols size w)) /\
  (forall n cols size w len v, 0 <= n -> 0 <= cols -> 0 <= size -> 0 < w -> v_from_bytes n cols size w len = Some v -> wf_v v /\ Inv v) /\
  (forall v new_size, wf_v v -> Inv v -> 0 <= new_size ->
      wf_v (v_realloc v new_size) /\ Inv (v_realloc v new_size) /\ v_size (v_realloc v new_size) = new_size) /\
  (forall v, Inv v -> Inv (v_to_ref v) /\ v_to_ref v = v) /\
  (forall v w_big, wf_v v -> Inv v -> 0 < w_big <= v_w v -> Inv (v_into_big v w_big)) /\
  (forall v, Inv (v_as_scalar v)) /\
  (forall n rows cin cout size w, 0 <= n -> 0 <= rows -> 0 <= cin -> 0 <= cout -> 0 <= size -> 0 < w ->
      wf_m (m_alloc n rows cin cout size w) /\ InvM (m_alloc n rows cin cout size w)) /\
  (forall n rows cin cout size w len m, m_from_bytes n rows cin cout size w len = Some m -> InvM m) /\
  (* the unchecked form (today only a struct literal through the PUBLIC FIELDS of VecZnx / ScalarZnx / VecZnxBig /
     VecZnxDft / SvpPPol; every from_data asserts since 2067fe8 / 122d562): exactly when the buffer is large enough *)
  (forall len n cols size w, Inv (v_from_data len n cols size w) <-> n * cols * size * w <= len).
Proof. exact constructors_establish_inv. Qed.
Print Assumptions C17_constructors_establish_inv.

Theorem C17_from_data_refuted : exists len n cols size w, 0 <= len /\ 0 < w /\ ~ Inv (v_from_data len n cols size w).
Proof. exact from_data_refuted. Qed.
Print Assumptions C17_from_data_refuted.

(* ---- deserialisation (after repairs 206cd69 / 0b16af7) ---- *)
(* whatever the stream header says, an accepted read leaves a well-formed receiver: checked products, max_size < size
   rejected, max_size clamped to what the receiver's buffer holds *)
Theorem C17_read_from_establishes_inv : forall v v' h avail,
  wf_v v -> v_w v = 8 -> 0 <= sh_n h /\ 0 <= sh_cols h /\ 0 <= sh_size h /\ 0 <= sh_max h ->
  v_read_from v h avail = ROk v' ->
  wf_v v' /\ Inv v' /\ v_len v' = v_len v /\ v_size v' = sh_size h /\ v_max v' <= sh_max h.
Proof. exact read_from_establishes_inv. Qed.
Print Assumptions C17_read_from_establishes_inv.

Theorem C17_mat_read_from_establishes_inv : forall m m' n size rows cin cout len avail,
  m_w m = 8 -> m_read_from m n size rows cin cout len avail = Some m' -> InvM m' /\ m_len m' = m_len m.
Proof. exact mat_read_from_inv. Qed.
Print Assumptions C17_mat_read_from_establishes_inv.

(* both outcomes of a read: Err leaves the receiver EXACTLY as it was (shape and Inv), Ok leaves it well formed *)
Theorem C17_read_from_preserves_inv : forall v h avail,
  wf_v v -> Inv v -> v_w v = 8 -> 0 <= sh_n h /\ 0 <= sh_cols h /\ 0 <= sh_size h /\ 0 <= sh_max h ->
  wf_v (apply_read v (v_read_from v h avail)) /\ Inv (apply_read v (v_read_from v h avail)) /\
  v_len (apply_read v (v_read_from v h avail)) = v_len v /\
  (v_read_from v h avail = RErr -> apply_read v (v_read_from v h avail) = v).
Proof. exact read_preserves. Qed.
Print Assumptions C17_read_from_preserves_inv.

Theorem C17_mat_read_from_preserves_inv : forall m n size rows cin cout len avail,
  InvM m -> m_w m = 8 ->
  InvM (m_apply_read m (m_read_from m n size rows cin cout len avail)) /\
  m_len (m_apply_read m (m_read_from m n size rows cin cout len avail)) = m_len m /\
  (m_read_from m n size rows cin cout len avail = None -> m_apply_read m (m_read_from m n size rows cin cout len avail) = m).
Proof. exact m_read_preserves. Qed.
Print Assumptions C17_mat_read_from_preserves_inv.

(* history 13 (a larger self-consistent object read into the receiver, whatever the outcome) keeps the receiver well formed *)
Theorem C17_read_larger_preserves_inv :
  (forall rc how, wf_v rc -> Inv rc -> v_w rc = 8 ->
     wf_v (read_larger rc how) /\ Inv (read_larger rc how) /\ v_len (read_larger rc how) = v_len rc) /\
  (forall m how, InvM m -> m_w m = 8 -> InvM (m_read_larger m how) /\ m_len (m_read_larger m how) = m_len m).
Proof. exact (conj read_larger_inv m_read_larger_inv). Qed.
Print Assumptions C17_read_larger_preserves_inv.

(* the seeded faulty reader that assigns the shape before the buffer-length check (seeded/C17d) is refuted: a rejected
   read of a matrix with one more limb leaves the sender's shape on the receiver's smaller buffer *)
Theorem C17_read_commit_early_refuted :
  exists m n size rows cin cout len,
    wf_m m /\ InvM m /\ m_w m = 8 /\ m_read_from m n size rows cin cout len len = None /\
    ~ InvM (m_read_from_commit_early m n size rows cin cout len).
Proof. exact read_commit_early_refuted. Qed.
Print Assumptions C17_read_commit_early_refuted.

(* VecZnx / ScalarZnx::from_data after repair 2067fe8 *)
Theorem C17_from_data_checked_establishes_inv : forall len n cols size w v,
  0 <= n -> 0 <= cols -> 0 <= size -> 0 < w -> 0 <= len ->
  v_from_data_checked len n cols size w = Some v -> wf_v v /\ Inv v.
Proof. exact from_data_checked_inv. Qed.
Print Assumptions C17_from_data_checked_establishes_inv.

(* ---- scratch ---- *)
Theorem C17_take_in_window : forall k off len win rest,
  0 <= k -> take k (off, len) = Some (win, rest) ->
  snd win = k /\ fst win mod 64 = 0 /\
  (0 < k -> off <= fst win /\ fst win + snd win <= off + len) /\
  fst rest = fst win + snd win /\ 0 <= snd rest /\
  (0 < snd rest -> off <= fst rest /\ fst rest + snd rest <= off + len).
Proof. exact take_in_window. Qed.
Print Assumptions C17_take_in_window.

Theorem C17_take_typed_aligned : forall len wT alignT off l win rest,
  0 <= len -> 0 <= wT -> 0 < alignT -> (alignT | 64) ->
  take_typed len wT (off, l) = Some (win, rest) -> snd win = len * wT /\ fst win mod alignT = 0.
Proof. exact take_typed_aligned. Qed.
Print Assumptions C17_take_typed_aligned.

Theorem C17_take_establishes_inv : forall n cols size w off len v win rest,
  0 <= n -> 0 <= cols -> 0 <= size -> 0 < w ->
  v_take n cols size w (off, len) = Some (v, win, rest) ->
  wf_v v /\ Inv v /\ v_len v = snd win /\ snd win = bytes_of n cols size w /\ fst win mod 64 = 0 /\
  (0 < snd win -> off <= fst win /\ fst win + snd win <= off + len) /\ fst rest = fst win + snd win.
Proof. exact v_take_inv. Qed.
Print Assumptions C17_take_establishes_inv.

Theorem C17_take_zero_outside_refuted :
  exists off len win rest, take 0 (off, len) = Some (win, rest) /\ off + len < fst win.
Proof. exact take_zero_outside_refuted. Qed.
Print Assumptions C17_take_zero_outside_refuted.

(* ---- histories of the harness: every history establishes Inv (chk: from_data validates its buffer, which every layout
   does since 2067fe8 / 122d562) ---- *)
Theorem C17_histories_establish_inv : forall vec chk ser n cols size w hist hp1 hp2 v,
  0 <= n -> 0 <= cols -> 0 <= size -> 0 < w -> 0 <= hp1 -> 0 <= hp2 ->
  (hist = 9 -> chk = true) ->
  hist_hdr vec chk ser n cols size w (cols * size) hist hp1 hp2 = HOk v -> wf_v v /\ Inv v.
Proof. exact histories_inv. Qed.
Print Assumptions C17_histories_establish_inv.


(* ---- op_total: no loop of the modelled reference operations indexes outside its operands ---- *)
Theorem C17_op_total_limbs : forall w b off k a r0 ov,
  normalize_inter_c w b off a r0 = Some (normalize_inter w b off a r0) /\
  normalize_assign_c w b r0 = Some (normalize_assign w b r0) /\
  lsh_assign_c w b k r0 = Some (lsh_assign w b k r0) /\
  lsh_c w ov b k a r0 = Some (lsh w ov b k a r0) /\
  lsh_sub_c w b k a r0 = Some (lsh_sub w b k a r0) /\
  rsh_assign_c w b k r0 = Some (rsh_assign w b k r0) /\
  rsh_c w ov b k a r0 = Some (rsh w ov b k a r0) /\
  rsh_sub_c w b k a r0 = Some (rsh_sub w b k a r0).
Proof. exact (fun w b off k a r0 ov => op_total_limbs w b off k a r0 ov). Qed.
Print Assumptions C17_op_total_limbs.

Theorem C17_op_total_vec : forall w n p f a b r0,
  vec_add_c w n a b r0 = Some (vec_add w n a b r0) /\
  vec_sub_c w n a b r0 = Some (vec_sub w n a b r0) /\
  vec_add_assign_c w a r0 = Some (vec_add_assign w a r0) /\
  vec_sub_assign_c w a r0 = Some (vec_sub_assign w a r0) /\
  vec_sub_negate_assign_c w a r0 = Some (vec_sub_negate_assign w a r0) /\
  vec_unary_c n f a r0 = Some (vec_unary n f a r0) /\
  vec_automorphism_c w n p a r0 = Some (vec_automorphism w n p a r0) /\
  vec_switch_ring_c n a r0 = Some (vec_switch_ring n a r0).
Proof. exact (fun w n p f a b r0 => op_total_vec w n p f a b r0). Qed.
Print Assumptions C17_op_total_vec.

(* cross-radix normalisation: the i64 routine (gap cap 128), the big-accumulator copy (cap 192) and the same-radix big
   routine (cap as a parameter) perform no access outside their operands (outer Some) and return what the shared models
   return (inner option = the routine's own fuel) *)
Theorem C17_op_total_cross : forall w (cap_small : Z) rb ab off b (cap : nat) a r0,
  1 <= rb -> 1 <= ab ->
  normalize_cross_gc w 128 rb ab off a r0 = Some (normalize_cross w rb ab off a r0) /\
  normalize_cross_gc w 192 rb ab off a r0 = Some (normalize_cross_big w rb ab off a r0) /\
  normalize_inter_cc w cap b off a r0 = Some (LimbsBig.normalize_inter_c w cap b off a r0).
Proof. exact op_total_cross. Qed.
Print Assumptions C17_op_total_cross.

(* together with C08_normalize_cross_total (the fuel is never exhausted) *)
Theorem C17_op_total_cross_64 : forall rb ab off a r0,
  1 <= rb -> 1 <= ab ->
  exists r, normalize_cross_gc 64 128 rb ab off a r0 = Some (Some r) /\ normalize_cross 64 rb ab off a r0 = Some r.
Proof. exact op_total_cross_64. Qed.
Print Assumptions C17_op_total_cross_64.

(* add_scalar / sub_scalar, the switch_ring kernel on divisible ring degrees, split_ring parts, merge_rings *)
Theorem C17_op_total_scalar_rings : forall w,
  (forall n sub a b b_limb r0, vec_add_scalar_c w n sub a b b_limb r0 = Some (vec_add_scalar w n sub a b b_limb r0)) /\
  (forall sub a res_limb r0, vec_add_scalar_assign_c w sub a res_limb r0 = vec_add_scalar_assign w sub a res_limb r0) /\
  (forall n_out r0 a, (0 < n_out)%nat -> (0 < length a)%nat ->
      (exists g, (0 < g)%nat /\ (length a = g * n_out \/ n_out = g * length a)%nat) ->
      znx_switch_ring_c n_out r0 a = Some (znx_switch_ring n_out r0 a)) /\
  (forall n_in n_out i a r0, (0 < n_out)%nat -> (0 < n_in)%nat -> (exists g, (0 < g)%nat /\ n_in = (g * n_out)%nat) ->
      limbs_wf n_in a -> vec_split_part_c w n_out i a r0 = Some (vec_split_part w n_out i a r0)) /\
  (forall n_in n_out parts r0, (0 < length parts)%nat -> n_out = (length parts * n_in)%nat -> Forall (limbs_wf n_in) parts ->
      vec_merge_rings_c n_out parts r0 = Some (vec_merge_rings n_out parts r0)).
Proof. exact op_total_scalar_rings. Qed.
Print Assumptions C17_op_total_scalar_rings.

(* DFT-domain shape functions: every limb index offset + j*step, j + shift, j - shift, and every flat vmp index (q, c + off)
   is inside its operand *)
Theorem C17_op_total_dft :
  (forall n rsz step offset a, dft_select_c n rsz step offset a = Some (dft_select n rsz step offset a)) /\
  (forall n rsz a b, dft_add_c n rsz a b = Some (dft_add n rsz a b)) /\
  (forall n rsz a b, dft_sub_c n rsz a b = Some (dft_sub n rsz a b)) /\
  (forall a r0, dft_add_assign_c a r0 = Some (dft_add_assign a r0)) /\
  (forall a r0, dft_sub_assign_c a r0 = Some (dft_sub_assign a r0)) /\
  (forall a r0, dft_sub_negate_assign_c a r0 = Some (dft_sub_negate_assign a r0)) /\
  (forall scale a r0, dft_add_scaled_assign_c scale a r0 = Some (dft_add_scaled_assign scale a r0)) /\
  (forall n rsz s b, svp_apply_c n rsz s b = Some (svp_apply n rsz s b)) /\
  (forall n rcols rsz acols asz rows msize limb_offset aflat mflat c,
      vmp_c n rcols rsz acols asz rows msize limb_offset aflat mflat c =
      Some (vmp n rcols rsz acols asz rows msize limb_offset aflat mflat c)).
Proof. exact op_total_dft. Qed.
Print Assumptions C17_op_total_dft.

Theorem C17_flat_checked_rejects : forall (len nrows ncols q c : nat) (f : nat -> list Z) (g : nat -> nat -> list Z),
  ((len <= q)%nat -> flat1_c len f q = None) /\ ((nrows <= q)%nat \/ (ncols <= c)%nat -> flat2_c nrows ncols g q c = None).
Proof. exact flat_checked_rejects. Qed.
Print Assumptions C17_flat_checked_rejects.

(* the twins really check: an index outside the operand is rejected *)
Theorem C17_checked_access_rejects : forall l i x,
  i < 0 \/ Z.of_nat (length l) <= i -> getc l i = None /\ updc l i x = None.
Proof. exact checked_access_rejects. Qed.
Print Assumptions C17_checked_access_rejects.

(* flat layer (col_op / limb_at / write_limb): every active limb is n full words inside the buffer *)
Theorem C17_flat_in_bounds : forall s data j,
  shape_ok s data = true -> (j < s_size s)%nat ->
  (s_n s * (j * s_cols s + s_col s) + s_n s <= length data)%nat /\
  length (limb_at (s_n s) (s_cols s) data (s_col s) j) = s_n s /\
  forall l, length (write_limb (s_n s) (s_cols s) data (s_col s) j l) = length data.
Proof. exact flat_in_bounds. Qed.
Print Assumptions C17_flat_in_bounds.

(* coefficient level: switch_ring gathers / scatters and the automorphism permutation stay inside the limb *)
Theorem C17_ring_kernel_indices :
  (forall n_in n_out t, (0 < n_out)%nat -> (n_out <= n_in)%nat -> (t < n_out)%nat -> (switch_down_ix n_in n_out t < n_in)%nat) /\
  (forall n_in n_out t, (0 < n_in)%nat -> (n_in <= n_out)%nat -> (t < n_in)%nat -> (switch_up_ix n_in n_out t < n_out)%nat) /\
  (forall n p i, 0 < n -> 0 <= auto_ix n p i < n) /\
  (forall len, 0 <= len -> 0 <= simd_main_last len <= len /\ len - simd_main_last len < 4).
Proof. exact ring_kernel_indices. Qed.
Print Assumptions C17_ring_kernel_indices.

(* ---- in-place NTT120 compaction ---- *)
Theorem C17_compact_blocks_safe : forall n nb k c k' c',
  0 < n -> 0 <= k < nb -> 0 <= k' < nb -> 0 <= c < n -> 0 <= c' < n ->
  (* every access inside the raw view *)
  (0 <= cb_src n k c /\ cb_src n k c + 4 <= 4 * n * nb /\ 0 <= cb_dst n k c /\ cb_dst n k c + 2 <= 2 * n * nb) /\
  (* a write never reaches a source word of a coefficient processed later *)
  (cb_before k c k' c' -> cb_dst n k c + 2 <= cb_src n k' c') /\
  (* nor the block on which a later inverse NTT runs in place *)
  (k < k' -> cb_dst n k c + 2 <= 4 * n * k') /\
  (* own source / destination overlap only for the very first coefficient (read into locals first) *)
  (cb_src n k c < cb_dst n k c + 2 -> k = 0 /\ c = 0).
Proof. exact compact_blocks_safe. Qed.
Print Assumptions C17_compact_blocks_safe.

Theorem C17_compact_inplace_correct : forall g orig M,
  (4 * M <= length orig)%nat ->
  length (compact_inplace g orig M) = length orig /\
  (forall m, (m < M)%nat ->
     (nthw (compact_inplace g orig M) (2 * m), nthw (compact_inplace g orig M) (2 * m + 1)) = compact_spec g orig m) /\
  (forall i, (2 * M <= i)%nat -> nthw (compact_inplace g orig M) i = nthw orig i).
Proof. exact compact_inplace_correct. Qed.
Print Assumptions C17_compact_inplace_correct.

(* ---- the seeded mutants of the self-test are refuted in the model ---- *)
Theorem C17_mutants_refuted :
  (exists a r0, vec_copy_bad_c a r0 = None) /\
  (exists len, 0 <= len /\ simd_main_last len - 4 < 0) /\
  (exists v s, wf_v v /\ Inv v /\ 0 <= s /\ ~ Inv (mkV (v_n v) (v_cols v) s (v_max v) (v_len v) (v_w v))) /\
  (exists k off len win rest, take_bad k (off, len) = Some (win, rest) /\ 0 < snd rest /\ off + len < fst rest + snd rest).
Proof. exact mutants_refuted. Qed.
Print Assumptions C17_mutants_refuted.

(* ---- examples: the hypotheses are satisfiable by non-trivial instances ---- *)
Example C17_inv_example :
  let v := mkV 8 3 2 5 (8 * 3 * 5 * 8) 8 in
  wf_v v /\ Inv v /\ at_off v 2 1 = 40 /\ at_end v 2 1 = 48 /\ cap_words v = 120 /\ raw_words v = 48.
Proof. unfold wf_v, Inv, at_off, at_end, cap_words, raw_words; cbn. repeat split; lia. Qed.

Example C17_take_example :
  take 24 (8, 100) = Some ((64, 24), (88, 20)) /\ take 24 (8, 60) = None.
Proof. split; vm_compute; reflexivity. Qed.

Example C17_history_example :
  (* writer with 2 spare limbs, receiver without: read_from accepts and clamps max_size to the receiver's 2 limbs *)
  run_c17 17000 [1; 8; 4; 3; 1; 2; 0;  1; 2; 0;  1; 1; 0;  0; 0; 0;  0; 0; 0; 0; 7] [] =
    Some [[0; 1; 0; 1]; [4; 1; 1; 2; 64; 8]] /\
  (* a receiver of equal capacity keeps the writer's max_size *)
  run_c17 17000 [1; 8; 4; 3; 1; 2; 2;  1; 2; 0;  1; 1; 0;  0; 0; 0;  0; 0; 0; 0; 7] [] =
    Some [[0; 1; 0; 1]; [4; 1; 1; 3; 128; 8]] /\
  (* VecZnxBig::from_data (NTT120: 16-byte words) on a buffer one word short: rejected by its assert (122d562) *)
  run_c17 17000 [3; 42; 4; 9; 1; 2; 0;  1; 2; 0;  1; 2; 0;  0; 0; 0;  0; 0; 0; 0; 7] [] = None.
Proof. split; [vm_compute; reflexivity | split; vm_compute; reflexivity]. Qed.

Example C17_cross_example :
  normalize_cross_gc 64 128 3 5 (-2) [7; -3; 11] [0; 0; 0; 0] = Some (normalize_cross 64 3 5 (-2) [7; -3; 11] [0; 0; 0; 0]) /\
  vec_merge_rings_c 4 [[[1; 2]]; [[3; 4]]] [[0; 0; 0; 0]] = Some [[1; 3; 2; 4]] /\
  dft_select_c 2 3 2 1 [[1; 1]; [2; 2]; [3; 3]] = Some [[2; 2]; [0; 0]; [0; 0]].
Proof. split; [vm_compute; reflexivity | split; vm_compute; reflexivity]. Qed.

Example C17_normalize_indices_example :
  normalize_inter_c 64 4 (-9) [1; 2; 3] [0; 0; 0; 0; 0] = Some (normalize_inter 64 4 (-9) [1; 2; 3] [0; 0; 0; 0; 0]).
Proof. vm_compute. reflexivity. Qed.
