(* C11 — outputs are fully determined by inputs: no stale data, no stray writes.  Pinned statements only. *)
From PV Require Import Base.MachineInt Model.Znx Model.Limbs Model.Flat Model.C08Run Proofs.C11Frame Proofs.C11Ops.
From Coq Require Import Arith PeanoNat.

(* writing the limbs of one column changes no word outside limbs [0,size) of that column, whatever the data *)
Theorem C11_write_col_frame : forall n cols col size data (limbs : list (list Z)),
  0 < n -> col < cols -> length limbs <= size -> n * cols * size <= length data ->
  length (write_col n cols data col limbs) = length data /\
  forall idx d, in_col n cols size col idx = false ->
    nth idx (write_col n cols data col limbs) d = nth idx data d.
Proof. exact write_col_frame. Qed.
Print Assumptions C11_write_col_frame.

(* every per-coefficient column operation (the form of all normalise / shift routines) has the frame property *)
Theorem C11_col_op_frame : forall f rs as_ res a res',
  0 < s_n rs -> col_op f rs as_ res a = Some res' ->
  length res' = length res /\
  forall idx d, in_col (s_n rs) (s_cols rs) (s_size rs) (s_col rs) idx = false -> nth idx res' d = nth idx res d.
Proof. exact col_op_frame. Qed.
Print Assumptions C11_col_op_frame.

(* all modelled vec_znx normalise / lsh / rsh operations and the big-accumulator normalisers with their fused forms
   (opcodes 8101..8110, 8201..8204), any shape, any contents *)
Theorem C11_c08_vec_frame : forall code ps vs res',
  In code c08_flat_codes ->
  0 < s_n (rshape ps) ->
  run_c08_vec code ps vs = Some [res'] ->
  length res' = length (v vs 0) /\
  forall idx d,
    in_col (s_n (rshape ps)) (s_cols (rshape ps)) (s_size (rshape ps)) (s_col (rshape ps)) idx = false ->
    nth idx res' d = nth idx (v vs 0) d.
Proof. exact c08_vec_frame. Qed.
Print Assumptions C11_c08_vec_frame.

Example C11_in_col_example : in_col 4 3 2 1 (4 * (1 * 3 + 1) + 2) = true /\ in_col 4 3 2 1 (4 * (2 * 3 + 1)) = false /\ in_col 4 3 2 1 3 = false.
Proof. vm_compute. auto. Qed.
