(* C11 — outputs are fully determined by inputs: no stale data, no stray writes.  Pinned statements only. *)
From PV Require Import Base.MachineInt Model.Znx Model.Limbs Model.Flat Model.Ring Model.DftAbs
  Model.C07Run Model.C09Run Model.C08Run Model.C11Run
  Proofs.C09Size
  Proofs.C11Frame Proofs.C11Ops Proofs.C11Read Proofs.C11Oracle Proofs.C11Ring Proofs.C11Coeff Proofs.C11Indep Proofs.C11Dft Proofs.C11Sound.
From Coq Require Import Arith PeanoNat.
Open Scope nat_scope.

(* NOTE on names: C07Run / C08Run / C09Run each define p, v, np, ex: they are always written qualified below.
   `in_col` is Proofs.C11Frame.in_col; the executable model's copy is C11Run.in_col (same function, C11_in_col_same). *)

(* =====================================================================================================
   A. FRAME: no word outside limbs [0,size) of the selected output column is modified
   ===================================================================================================== *)

(* writing the limbs of one column changes no word outside limbs [0,size) of that column, whatever the data *)
Theorem C11_write_col_frame : forall n cols col size data (limbs : list (list Z)),
  0 < n -> col < cols -> length limbs <= size -> n * cols * size <= length data ->
  length (write_col n cols data col limbs) = length data /\
  forall idx d, C11Frame.in_col n cols size col idx = false ->
    nth idx (write_col n cols data col limbs) d = nth idx data d.
Proof. exact write_col_frame. Qed.
Print Assumptions C11_write_col_frame.

(* every per-coefficient column operation (the form of all normalise / shift routines) has the frame property *)
Theorem C11_col_op_frame : forall f rs as_ res a res',
  0 < s_n rs -> col_op f rs as_ res a = Some res' ->
  length res' = length res /\
  forall idx d, C11Frame.in_col (s_n rs) (s_cols rs) (s_size rs) (s_col rs) idx = false -> nth idx res' d = nth idx res d.
Proof. exact col_op_frame. Qed.
Print Assumptions C11_col_op_frame.

(* all modelled vec_znx normalise / lsh / rsh operations and the big-accumulator normalisers with their fused forms
   (opcodes 8101..8110, 8201..8204), any shape, any contents *)
Theorem C11_c08_vec_frame : forall code ps vs res',
  In code [8101; 8102; 8103; 8104; 8105; 8106; 8107; 8108; 8109; 8110; 8201; 8202; 8203; 8204]%Z ->
  0 < s_n (rshape ps) ->
  run_c08_vec code ps vs = Some [res'] ->
  length res' = length (C08Run.v vs 0) /\
  forall idx d,
    C11Frame.in_col (s_n (rshape ps)) (s_cols (rshape ps)) (s_size (rshape ps)) (s_col (rshape ps)) idx = false ->
    nth idx res' d = nth idx (C08Run.v vs 0) d.
Proof. exact c08_vec_frame. Qed.
Print Assumptions C11_c08_vec_frame.

(* every ring operation of run_c09 with one destination (all opcodes except split_ring 9021):
   add_into, add_assign, sub, sub_assign, sub_negate_assign, negate, negate_assign, add_scalar_into, add_scalar_assign,
   sub_scalar, sub_scalar_assign, copy, zero, rotate, rotate_assign, mul_xp_minus_one (+assign), automorphism (+assign),
   switch_ring, merge_rings *)
Theorem C11_c09_frame : forall code ps vs res',
  In code [9001; 9002; 9003; 9004; 9005; 9006; 9007; 9008; 9009; 9010; 9011; 9012; 9013; 9014; 9015; 9016; 9017;
           9018; 9019; 9020; 9022]%Z ->
  0 < s_n (shp ps 0) ->
  run_c09 code ps vs = Some [res'] ->
  length res' = length (C09Run.v vs 0) /\
  forall idx d,
    C11Frame.in_col (s_n (shp ps 0)) (s_cols (shp ps 0)) (s_size (shp ps 0)) (s_col (shp ps 0)) idx = false ->
    nth idx res' d = nth idx (C09Run.v vs 0) d.
Proof. exact c09_frame. Qed.
Print Assumptions C11_c09_frame.

(* split_ring (9021), vs = a :: parts: each returned part satisfies the frame statement w.r.t. its own input buffer
   (the model does not validate the parts' shapes for this opcode, hence the shape_ok hypothesis per part) *)
Theorem C11_c09_split_frame : forall ps a parts outs,
  0 < s_n (shp ps 0) ->
  run_c09 9021 ps (a :: parts) = Some outs ->
  length outs = length parts /\
  forall i, i < length parts -> shape_ok (shp ps 0) (nth i parts []) = true ->
    length (nth i outs []) = length (nth i parts []) /\
    forall idx d,
      C11Frame.in_col (s_n (shp ps 0)) (s_cols (shp ps 0)) (s_size (shp ps 0)) (s_col (shp ps 0)) idx = false ->
      nth idx (nth i outs []) d = nth idx (nth i parts []) d.
Proof. exact c09_split_frame. Qed.
Print Assumptions C11_c09_split_frame.

(* =====================================================================================================
   B. READ-BACK: every limb of the selected column is written
   ===================================================================================================== *)

Theorem C11_write_col_read : forall n cols size col data (limbs : list (list Z)),
  col < cols -> length limbs = size -> Forall (fun l => length l = n) limbs ->
  n * cols * size <= length data ->
  col_limbs n cols size (write_col n cols data col limbs) col = limbs.
Proof. exact write_col_read. Qed.
Print Assumptions C11_write_col_read.

(* without the hypothesis on the limb lengths: each limb is stored cut / zero-extended to n words *)
Theorem C11_write_col_read_pad : forall n cols size col data (limbs : list (list Z)),
  col < cols -> length limbs = size -> n * cols * size <= length data ->
  col_limbs n cols size (write_col n cols data col limbs) col = map (fun l => firstn n (l ++ zeros n)) limbs.
Proof. exact write_col_read_pad. Qed.
Print Assumptions C11_write_col_read_pad.

(* the other columns read back as before *)
Theorem C11_write_col_other_col : forall n cols size col col' data (limbs : list (list Z)) k,
  0 < n -> col < cols -> col' < cols -> col' <> col -> length limbs <= size -> n * cols * size <= length data ->
  n * cols * k <= length data ->
  col_limbs n cols k (write_col n cols data col limbs) col' = col_limbs n cols k data col'.
Proof. exact write_col_other_col. Qed.
Print Assumptions C11_write_col_other_col.

(* col_op: the selected column of the result IS the lifted per-coefficient function of (selected input column,
   prior selected column) *)
Theorem C11_col_op_column : forall f rs as_ res a res',
  col_op f rs as_ res a = Some res' ->
  lift_coeff f (s_n rs) (s_size rs)
    (col_limbs (s_n as_) (s_cols as_) (s_size as_) a (s_col as_))
    (col_limbs (s_n rs) (s_cols rs) (s_size rs) res (s_col rs))
  = Some (col_limbs (s_n rs) (s_cols rs) (s_size rs) res' (s_col rs)).
Proof. exact col_op_column_exact. Qed.
Print Assumptions C11_col_op_column.

(* C09: run_c09 writes the column function c09_col (of the prior selected column and the other buffers) *)
Theorem C11_c09_column : forall code ps res rest res',
  In code c09_single_codes ->
  run_c09 code ps (res :: rest) = Some [res'] ->
  exists l, c09_col code ps (getcol (shp ps 0) res) rest = Some l /\ length l = s_size (shp ps 0) /\
            getcol (shp ps 0) res' = map (fun x => firstn (s_n (shp ps 0)) (x ++ zeros (s_n (shp ps 0)))) l.
Proof. exact c09_column. Qed.
Print Assumptions C11_c09_column.

(* =====================================================================================================
   C. INDEPENDENCE of the prior contents of the destination
   ===================================================================================================== *)

(* per coefficient, any word width / radix / offset / input: the overwriting kernels see only the number of limbs *)
Theorem C11_normalize_indep : forall w rb ab off a r0 r1,
  length r0 = length r1 -> normalize w rb ab off a r0 = normalize w rb ab off a r1.
Proof. exact normalize_indep. Qed.
Print Assumptions C11_normalize_indep.
Theorem C11_lsh_ov_indep : forall w b k a r0 r1,
  length r0 = length r1 -> lsh w true b k a r0 = lsh w true b k a r1.
Proof. exact lsh_ov_indep. Qed.
Print Assumptions C11_lsh_ov_indep.
Theorem C11_rsh_ov_indep : forall w b k a r0 r1,
  length r0 = length r1 -> rsh w true b k a r0 = rsh w true b k a r1.
Proof. exact rsh_ov_indep. Qed.
Print Assumptions C11_rsh_ov_indep.

(* C08 overwriting operations: ANY two destination buffers (arbitrary contents everywhere), same other inputs *)
Theorem C11_c08_indep_overwrite : forall code ps res1 res2 rest res1' res2',
  In code [8101; 8104; 8108; 8201; 8204]%Z ->
  run_c08_vec code ps (res1 :: rest) = Some [res1'] ->
  run_c08_vec code ps (res2 :: rest) = Some [res2'] ->
  col_limbs (s_n (rshape ps)) (s_cols (rshape ps)) (s_size (rshape ps)) res1' (s_col (rshape ps)) =
  col_limbs (s_n (rshape ps)) (s_cols (rshape ps)) (s_size (rshape ps)) res2' (s_col (rshape ps)).
Proof. exact c08_indep_overwrite. Qed.
Print Assumptions C11_c08_indep_overwrite.

(* C08, every form (in particular the accumulate / in-place forms 8102 8103 8105 8106 8107 8109 8110 8202 8203):
   destination buffers that agree on the active limbs of the selected column and differ arbitrarily elsewhere *)
Theorem C11_c08_indep_agree : forall code ps res1 res2 rest res1' res2',
  In code [8101; 8102; 8103; 8104; 8105; 8106; 8107; 8108; 8109; 8110; 8201; 8202; 8203; 8204]%Z ->
  col_limbs (s_n (rshape ps)) (s_cols (rshape ps)) (s_size (rshape ps)) res1 (s_col (rshape ps)) =
  col_limbs (s_n (rshape ps)) (s_cols (rshape ps)) (s_size (rshape ps)) res2 (s_col (rshape ps)) ->
  run_c08_vec code ps (res1 :: rest) = Some [res1'] ->
  run_c08_vec code ps (res2 :: rest) = Some [res2'] ->
  col_limbs (s_n (rshape ps)) (s_cols (rshape ps)) (s_size (rshape ps)) res1' (s_col (rshape ps)) =
  col_limbs (s_n (rshape ps)) (s_cols (rshape ps)) (s_size (rshape ps)) res2' (s_col (rshape ps)).
Proof. exact c08_indep_agree. Qed.
Print Assumptions C11_c08_indep_agree.

(* C09 overwriting operations: add_into, sub, negate, add_scalar_into, sub_scalar, copy, zero, rotate,
   mul_xp_minus_one, switch_ring, merge_rings *)
Theorem C11_c09_indep_overwrite : forall code ps res1 res2 rest res1' res2',
  In code [9001; 9003; 9006; 9008; 9010; 9012; 9013; 9014; 9016; 9020; 9022]%Z ->
  run_c09 code ps (res1 :: rest) = Some [res1'] ->
  run_c09 code ps (res2 :: rest) = Some [res2'] ->
  getcol (shp ps 0) res1' = getcol (shp ps 0) res2'.
Proof. exact c09_indep_overwrite. Qed.
Print Assumptions C11_c09_indep_overwrite.

(* automorphism: odd Galois element, n a power of two (C09's hypotheses), source degree = destination degree *)
Theorem C11_c09_indep_automorphism : forall ps m res1 res2 rest res1' res2',
  (0 <= m)%Z -> Z.of_nat (s_n (shp ps 0)) = (2 ^ m)%Z -> Z.odd (C09Run.ex ps 0) = true ->
  s_n (shp ps 1) = s_n (shp ps 0) ->
  run_c09 9018 ps (res1 :: rest) = Some [res1'] ->
  run_c09 9018 ps (res2 :: rest) = Some [res2'] ->
  getcol (shp ps 0) res1' = getcol (shp ps 0) res2'.
Proof. exact c09_indep_automorphism. Qed.
Print Assumptions C11_c09_indep_automorphism.

(* C09, every single-destination form (in particular the in-place forms 9002 9004 9005 9007 9009 9011 9015 9017 9019):
   destination buffers that agree on the active limbs of the selected column *)
Theorem C11_c09_indep_agree : forall code ps res1 res2 rest res1' res2',
  In code [9001; 9002; 9003; 9004; 9005; 9006; 9007; 9008; 9009; 9010; 9011; 9012; 9013; 9014; 9015; 9016; 9017;
           9018; 9019; 9020; 9022]%Z ->
  getcol (shp ps 0) res1 = getcol (shp ps 0) res2 ->
  run_c09 code ps (res1 :: rest) = Some [res1'] ->
  run_c09 code ps (res2 :: rest) = Some [res2'] ->
  getcol (shp ps 0) res1' = getcol (shp ps 0) res2'.
Proof. exact c09_indep_agree. Qed.
Print Assumptions C11_c09_indep_agree.

(* the even-element automorphism does depend on the prior destination (C09_ex_automorphism_even_depends_on_r0):
   the restriction to odd elements above is necessary *)

(* =====================================================================================================
   D. DFT-domain operations (run_c07 returns the selected output column)
   ===================================================================================================== *)

(* the output is a function of the selected input columns (c07_sel), sizes and parameters *)
Theorem C11_dft_frame : forall code ps vs1 vs2,
  In code [7001; 7002; 7003; 7004; 7005; 7006; 7007; 7008; 7009; 7010; 7011; 7012]%Z ->
  c07_sel code ps vs1 = c07_sel code ps vs2 ->
  run_c07 code ps vs1 = run_c07 code ps vs2.
Proof. exact c07_depends. Qed.
Print Assumptions C11_dft_frame.

(* a-operand: two buffers that agree on the selected column acol (limbs < asize) give equal outputs *)
Theorem C11_dft_frame_a : forall code ps a1 a2 rest,
  In code [7001; 7002; 7003; 7004; 7005; 7006; 7007; 7008; 7009]%Z ->
  col_limbs (C07Run.np ps 1) (C07Run.np ps 5) (C07Run.np ps 6) a1 (C07Run.np ps 7) =
  col_limbs (C07Run.np ps 1) (C07Run.np ps 5) (C07Run.np ps 6) a2 (C07Run.np ps 7) ->
  run_c07 code ps (a1 :: rest) = run_c07 code ps (a2 :: rest).
Proof. exact c07_depends_a. Qed.
Print Assumptions C11_dft_frame_a.

(* svp: the scalar operand is read through limb 0 of its selected column only *)
Theorem C11_dft_frame_svp : forall code ps a1 a2 rest,
  In code [7010; 7011; 7012]%Z ->
  limb_at (C07Run.np ps 1) (C07Run.np ps 5) a1 (C07Run.np ps 7) 0 =
  limb_at (C07Run.np ps 1) (C07Run.np ps 5) a2 (C07Run.np ps 7) 0 ->
  run_c07 code ps (a1 :: rest) = run_c07 code ps (a2 :: rest).
Proof. exact c07_depends_svp. Qed.
Print Assumptions C11_dft_frame_svp.

(* second operand: the selected b column, and (in-place forms) the prior destination column *)
Theorem C11_dft_frame_b : forall code ps a b1 b2 rest,
  In code [7001; 7002; 7003; 7004; 7005; 7006; 7007; 7008; 7009; 7010; 7011; 7012]%Z ->
  col_limbs (C07Run.np ps 1) (C07Run.np ps 8) (C07Run.np ps 9) b1 (C07Run.np ps 10) =
  col_limbs (C07Run.np ps 1) (C07Run.np ps 8) (C07Run.np ps 9) b2 (C07Run.np ps 10) ->
  col_limbs (C07Run.np ps 1) 1 (C07Run.np ps 3) b1 0 = col_limbs (C07Run.np ps 1) 1 (C07Run.np ps 3) b2 0 ->
  run_c07 code ps (a :: b1 :: rest) = run_c07 code ps (a :: b2 :: rest).
Proof. exact c07_depends_b. Qed.
Print Assumptions C11_dft_frame_b.

(* vmp: the limbs of a and of the matrix selected by the largest-valid-sub-shape rule *)
Theorem C11_dft_vmp_frame : forall code ps vs1 vs2,
  In code [7020; 7021]%Z ->
  let n := C07Run.np ps 1 in let rcols := C07Run.np ps 2 in let acols := C07Run.np ps 5 in let asz := C07Run.np ps 6 in
  let rows := nex ps 0 in let msize := nex ps 1 in
  let row_max := Nat.min (acols * rows) (acols * asz) in
  (forall q, q < row_max ->
     limb_at n acols (C07Run.v vs1 0) (q mod acols) (q / acols) = limb_at n acols (C07Run.v vs2 0) (q mod acols) (q / acols)) ->
  (forall q c, q < row_max ->
     limb_at n rcols (skipn (q * (n * rcols * msize)) (C07Run.v vs1 1)) (c mod rcols) (c / rcols) =
     limb_at n rcols (skipn (q * (n * rcols * msize)) (C07Run.v vs2 1)) (c mod rcols) (c / rcols)) ->
  run_c07 code ps vs1 = run_c07 code ps vs2.
Proof. exact c07_vmp_depends. Qed.
Print Assumptions C11_dft_vmp_frame.

(* every limb j < rsize of the output is produced: rsize * n words (buffers as large as their declared shape) *)
Theorem C11_dft_output_length : forall code ps vs outs,
  In code [7001; 7002; 7003; 7004; 7005; 7006; 7007; 7008; 7009; 7010; 7011; 7012]%Z ->
  c07_fits code ps vs ->
  run_c07 code ps vs = Some outs ->
  exists o, outs = [o; okflags] /\ length o = C07Run.np ps 3 * C07Run.np ps 1.
Proof. exact c07_output_length. Qed.
Print Assumptions C11_dft_output_length.

Theorem C11_dft_vmp_output_length : forall code ps vs outs,
  In code [7020; 7021]%Z ->
  C07Run.np ps 1 * C07Run.np ps 5 * C07Run.np ps 6 <= length (C07Run.v vs 0) ->
  run_c07 code ps vs = Some outs ->
  exists o, outs = [o; okflags] /\ length o = C07Run.np ps 2 * (C07Run.np ps 3 * C07Run.np ps 1).
Proof. exact c07_vmp_output_length. Qed.
Print Assumptions C11_dft_vmp_output_length.

(* =====================================================================================================
   E. SOUNDNESS of the executable oracle (Model/C11Run.v)
   ===================================================================================================== *)

Theorem C11_in_col_same : C11Run.in_col = C11Frame.in_col.
Proof. exact in_col_same. Qed.
Print Assumptions C11_in_col_same.

Theorem C11_frame_eq_sound : forall n cols size col (a b : list Z),
  frame_eq n cols size col 0 a b = true <->
  (length a = length b /\
   forall idx, C11Run.in_col n cols size col idx = false -> nth idx a 0%Z = nth idx b 0%Z).
Proof. exact frame_eq_sound. Qed.
Print Assumptions C11_frame_eq_sound.

Theorem C11_col_eq_sound : forall n cols size col (a b : list Z),
  col_eq n cols size col 0 a b = true <->
  (length a = length b /\
   forall idx, C11Run.in_col n cols size col idx = true -> nth idx a 0%Z = nth idx b 0%Z).
Proof. exact col_eq_sound. Qed.
Print Assumptions C11_col_eq_sound.

(* agreement on the words of the column = equality of the column's limbs: col_eq decides the independence statement *)
Theorem C11_col_eq_col_limbs : forall n cols size col (a b : list Z),
  0 < n -> col < cols -> n * cols * size <= length a ->
  (col_eq n cols size col 0 a b = true <->
   (length a = length b /\ col_limbs n cols size a col = col_limbs n cols size b col)).
Proof. exact col_eq_col_limbs. Qed.
Print Assumptions C11_col_eq_col_limbs.

(* the pair-run model always passes its own oracle: for every C08 / C09 single-destination opcode, any shape with
   n >= 1, any buffers; vs = res :: rest ++ [res_alt].  Overwriting forms: arbitrary res / res_alt; accumulate and
   in-place forms (and automorphism): res and res_alt agree on the selected column *)
Theorem C11_oracle_c08 : forall c ps res alt rest outs,
  In c [8101; 8102; 8103; 8104; 8105; 8106; 8107; 8108; 8109; 8110; 8201; 8202; 8203; 8204]%Z ->
  0 < s_n (rshape ps) ->
  (In c [8101; 8104; 8108; 8201; 8204]%Z \/
   col_limbs (s_n (rshape ps)) (s_cols (rshape ps)) (s_size (rshape ps)) res (s_col (rshape ps)) =
   col_limbs (s_n (rshape ps)) (s_cols (rshape ps)) (s_size (rshape ps)) alt (s_col (rshape ps))) ->
  run_c11 (110000 + c) ps (res :: rest ++ [alt]) = Some outs ->
  oracle_c11 (110000 + c) ps (res :: rest ++ [alt]) outs = 1%Z.
Proof. exact c11_oracle_c08. Qed.
Print Assumptions C11_oracle_c08.

Theorem C11_oracle_c09 : forall c ps res alt rest outs,
  In c [9001; 9002; 9003; 9004; 9005; 9006; 9007; 9008; 9009; 9010; 9011; 9012; 9013; 9014; 9015; 9016; 9017;
        9018; 9019; 9020; 9022]%Z ->
  0 < s_n (shp ps 0) ->
  (In c [9001; 9003; 9006; 9008; 9010; 9012; 9013; 9014; 9016; 9020; 9022]%Z \/
   getcol (shp ps 0) res = getcol (shp ps 0) alt) ->
  run_c11 (110000 + c) ps (res :: rest ++ [alt]) = Some outs ->
  oracle_c11 (110000 + c) ps (res :: rest ++ [alt]) outs = 1%Z.
Proof. exact c11_oracle_c09. Qed.
Print Assumptions C11_oracle_c09.

(* =====================================================================================================
   Examples: the hypotheses are satisfiable, on concrete small buffers
   ===================================================================================================== *)

Example C11_in_col_example : C11Frame.in_col 4 3 2 1 (4 * (1 * 3 + 1) + 2) = true /\ C11Frame.in_col 4 3 2 1 (4 * (2 * 3 + 1)) = false /\ C11Frame.in_col 4 3 2 1 3 = false.
Proof. vm_compute. auto. Qed.

(* n = 2, 2 columns, 2 limbs: write column 1 and read it back; column 0 is untouched *)
Example C11_ex_read_back :
  col_limbs 2 2 2 (write_col 2 2 [1; 2; 3; 4; 5; 6; 7; 8]%Z 1 [[10; 11]; [12; 13]]%Z) 1 = [[10; 11]; [12; 13]]%Z /\
  col_limbs 2 2 2 (write_col 2 2 [1; 2; 3; 4; 5; 6; 7; 8]%Z 1 [[10; 11]; [12; 13]]%Z) 0 = [[1; 2]; [5; 6]]%Z.
Proof.
  split.
  - apply C11_write_col_read; cbn [length]; try lia. repeat constructor.
  - rewrite (C11_write_col_other_col 2 2 2 1 0 _ _ 2); cbn [length]; try lia. reflexivity.
Qed.

(* C09 add_into (9001), n = 2, destination with 2 columns / capacity 2 / size 1 / column 1, two garbage fills *)
Definition ex_ps9 : list Z := [1; 2; 2; 1; 2; 1; 2; 1; 1; 1; 0; 2; 1; 1; 1; 0]%Z.
Example C11_ex_c09_add :
  run_c09 9001 ex_ps9 [[91; 92; 93; 94; 95; 96; 97; 98]; [1; 2]; [3; 4]]%Z = Some [[91; 92; 4; 6; 95; 96; 97; 98]]%Z /\
  run_c09 9001 ex_ps9 [[-1; -2; -3; -4; -5; -6; -7; -8]; [1; 2]; [3; 4]]%Z = Some [[-1; -2; 4; 6; -5; -6; -7; -8]]%Z.
Proof. vm_compute. auto. Qed.
Example C11_ex_c09_add_indep : forall r1 r2,
  run_c09 9001 ex_ps9 [[91; 92; 93; 94; 95; 96; 97; 98]; [1; 2]; [3; 4]]%Z = Some [r1] ->
  run_c09 9001 ex_ps9 [[-1; -2; -3; -4; -5; -6; -7; -8]; [1; 2]; [3; 4]]%Z = Some [r2] ->
  getcol (shp ex_ps9 0) r1 = getcol (shp ex_ps9 0) r2.
Proof. intros r1 r2. apply C11_c09_indep_overwrite. cbn [In]. auto. Qed.

(* split_ring into two parts of degree 1 *)
Example C11_ex_c09_split :
  run_c09 9021 [1; 1; 2; 1; 2; 1; 2; 1; 1; 1; 0; 0; 0; 0; 0; 0]%Z [[1; 2]; [91; 92; 93; 94]; [81; 82; 83; 84]]%Z
  = Some [[91; 1; 93; 94]; [81; 2; 83; 84]]%Z.
Proof. vm_compute. reflexivity. Qed.

(* C08 normalize (8101), base 2^10 -> 2^10, n = 2: 1000 = 1*2^10 - 24 ; two garbage fills *)
Definition ex_ps8 : list Z := [1; 2; 2; 1; 2; 1; 1; 1; 1; 0; 10; 10; 0]%Z.
Example C11_ex_c08_normalize :
  run_c08_vec 8101 ex_ps8 [[91; 92; 93; 94; 95; 96; 97; 98]; [5; 1000]]%Z = Some [[91; 92; 5; -24; 95; 96; 97; 98]]%Z /\
  run_c08_vec 8101 ex_ps8 [[-1; -2; -3; -4; -5; -6; -7; -8]; [5; 1000]]%Z = Some [[-1; -2; 5; -24; -5; -6; -7; -8]]%Z.
Proof. vm_compute. auto. Qed.
Example C11_ex_c08_normalize_indep : forall r1 r2,
  run_c08_vec 8101 ex_ps8 [[91; 92; 93; 94; 95; 96; 97; 98]; [5; 1000]]%Z = Some [r1] ->
  run_c08_vec 8101 ex_ps8 [[-1; -2; -3; -4; -5; -6; -7; -8]; [5; 1000]]%Z = Some [r2] ->
  col_limbs 2 2 1 r1 1 = col_limbs 2 2 1 r2 1.
Proof. intros r1 r2. apply (C11_c08_indep_overwrite 8101 ex_ps8). cbn [In]. auto. Qed.

(* C07 dft_add (7003): two a buffers that agree on column 1 (limb 0) only *)
Definition ex_ps7 : list Z := [1; 2; 1; 1; 0; 2; 1; 1; 1; 1; 0]%Z.
Example C11_ex_dft_add :
  run_c07 7003 ex_ps7 [[9; 9; 1; 2; 7; 7; 7; 7]; [10; 20]]%Z = run_c07 7003 ex_ps7 [[0; 0; 1; 2; 5; 5; 5; 5]; [10; 20]]%Z /\
  run_c07 7003 ex_ps7 [[9; 9; 1; 2; 7; 7; 7; 7]; [10; 20]]%Z = Some [[11; 22]; [1; 1; 1]]%Z.
Proof.
  split; [|vm_compute; reflexivity].
  apply C11_dft_frame_a; [cbn [In]; auto|]. vm_compute. reflexivity.
Qed.

(* the oracle on the buffers of C11_ex_c09_add *)
Example C11_ex_oracle :
  frame_eq 2 2 1 1 0 [91; 92; 93; 94; 95; 96; 97; 98]%Z [91; 92; 4; 6; 95; 96; 97; 98]%Z = true /\
  col_eq 2 2 1 1 0 [91; 92; 4; 6; 95; 96; 97; 98]%Z [-1; -2; 4; 6; -5; -6; -7; -8]%Z = true /\
  frame_eq 2 2 1 1 0 [91; 92; 93; 94; 95; 96; 97; 98]%Z [91; 92; 4; 6; 95; 96; 97; 0]%Z = false.
Proof. vm_compute. auto. Qed.

(* a whole pair record (opcode 110000 + 9001): the model's two outputs and the oracle's verdict *)
Example C11_ex_pair_record :
  run_c11 119001 ex_ps9 [[91; 92; 93; 94; 95; 96; 97; 98]; [1; 2]; [3; 4]; [-1; -2; -3; -4; -5; -6; -7; -8]]%Z
  = Some [[91; 92; 4; 6; 95; 96; 97; 98]; [-1; -2; 4; 6; -5; -6; -7; -8]]%Z /\
  oracle_c11 119001 ex_ps9 [[91; 92; 93; 94; 95; 96; 97; 98]; [1; 2]; [3; 4]; [-1; -2; -3; -4; -5; -6; -7; -8]]%Z
    [[91; 92; 4; 6; 95; 96; 97; 98]; [-1; -2; 4; 6; -5; -6; -7; -8]]%Z = 1%Z.
Proof.
  split; [vm_compute; reflexivity|].
  apply (C11_oracle_c09 9001 ex_ps9 [91; 92; 93; 94; 95; 96; 97; 98]%Z [-1; -2; -3; -4; -5; -6; -7; -8]%Z [[1; 2]; [3; 4]]%Z).
  - cbn [In]. auto.
  - vm_compute. lia.
  - left. cbn [In]. auto 12.
  - vm_compute. reflexivity.
Qed.
