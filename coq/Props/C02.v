(* placeholder, replaced below *)
From PV Require Import Base.MachineInt Model.C02Ops.
Theorem C02_placeholder : True. Proof. exact I. Qed.
Print Assumptions C02_placeholder.
