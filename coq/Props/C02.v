(* C02 — noise-free GLWE/GGSW operations commute with the decryption phase.  Pinned statements only.

   Reading guide.  `glwe`: columns x limbs x n words (C02Ops.v).  `phase n s ct` = limb-wise  ct[0] + sum_i s_i * ct[i+1]
   in Z[X]/(X^n+1), exact in unbounded Z, for ANY integer secret polynomials s.  `pt_map2 F n size pa pb`: the same
   operation on plaintexts, limb j of the result = F (limb j of pa) (limb j of pb) with missing limbs read as 0 (the size
   rule: a shorter result truncates, a longer one is zero-filled).  Missing columns (lower rank, rank-0 plaintext operands)
   are read as 0 as well.  The theorems are over the EXACT ring: the word-level code wraps at 64 bits, and each theorem
   carries the no-wrap hypothesis explicitly, as "the word-level limb function equals the exact one on every limb pair the
   call combines" (`vadd W64 x y = padd x y`, `znx_rotate W64 k x = xmono k x`, ...); `C02_step_exact_small` discharges all
   of them when every stored word is below 2^62 in magnitude.  None = the call panics. *)
From PV Require Import Base.MachineInt Model.Znx Model.Limbs Model.Flat Model.Ring Model.DftAbs Model.C02Ops
                       Proofs.C02Poly Proofs.C02Exact Proofs.C02Canon Proofs.C02Phase Proofs.C02Value Proofs.C02Main Proofs.C02Discharge.
Open Scope Z_scope.

(* ------------------------------------------------------------------ ring facts the phase theorems rest on *)
Theorem C02_pmul_commutes_with_monomial : forall (s a : list Z) (p : Z),
  length a = length s -> pmul s (xmono p a) = xmono p (pmul s a).
Proof. exact pmul_xmono. Qed.
Print Assumptions C02_pmul_commutes_with_monomial.

Theorem C02_rotate_is_monomial : forall (w p : Z) (a : list Z),
  (forall i, wneg w (nthZ a i) = - nthZ a i) -> znx_rotate w p a = xmono p a.
Proof. exact rotate_is_xmono. Qed.
Print Assumptions C02_rotate_is_monomial.

(* ------------------------------------------------------------------ add / sub / negate / copy *)
Theorem C02_phase_add : forall (n : nat) (s : list (list Z)), secret_ok n s ->
  forall res a b r, wf_glwe n res -> wf_glwe n a -> wf_glwe n b ->
  (forall i j, vadd W64 (gl n a i j) (gl n b i j) = padd (gl n a i j) (gl n b i j)) ->
  glwe_add_into n res a b = Some r ->
  phase n s r = pt_map2 Fadd n (g_size res) (phase n s a) (phase n s b).
Proof. exact phase_add. Qed.
Print Assumptions C02_phase_add.

Theorem C02_phase_add_assign : forall (n : nat) (s : list (list Z)), secret_ok n s ->
  forall res a r, wf_glwe n res -> wf_glwe n a ->
  (forall i j, vadd W64 (gl n res i j) (gl n a i j) = padd (gl n res i j) (gl n a i j)) ->
  glwe_add_assign n res a = Some r ->
  phase n s r = pt_map2 Fadd n (g_size res) (phase n s res) (phase n s a).
Proof. exact phase_add_assign. Qed.
Print Assumptions C02_phase_add_assign.

Theorem C02_phase_sub : forall (n : nat) (s : list (list Z)), secret_ok n s ->
  forall res a b r, wf_glwe n res -> wf_glwe n a -> wf_glwe n b ->
  (forall i j, vsub W64 (gl n a i j) (gl n b i j) = psub (gl n a i j) (gl n b i j)) ->
  glwe_sub n res a b = Some r ->
  phase n s r = pt_map2 Fsub n (g_size res) (phase n s a) (phase n s b).
Proof. exact phase_sub. Qed.
Print Assumptions C02_phase_sub.

Theorem C02_phase_sub_assign : forall (n : nat) (s : list (list Z)), secret_ok n s ->
  forall res a r, wf_glwe n res -> wf_glwe n a ->
  (forall i j, vsub W64 (gl n res i j) (gl n a i j) = psub (gl n res i j) (gl n a i j)) ->
  glwe_sub_assign n res a = Some r ->
  phase n s r = pt_map2 Fsub n (g_size res) (phase n s res) (phase n s a).
Proof. exact phase_sub_assign. Qed.
Print Assumptions C02_phase_sub_assign.

(* res <- a - res, also with a rank-0 (plaintext) operand: the mask columns of res are negated (repair efc2285 in /repo;
   before it this statement was refuted on the model, witness n = 1, res = (5,7), a = (1), s = (1): phase 3 instead of -11) *)
Theorem C02_phase_sub_negate_assign : forall (n : nat) (s : list (list Z)), secret_ok n s ->
  forall res a r, wf_glwe n res -> wf_glwe n a ->
  (forall i j, vsub W64 (gl n a i j) (gl n res i j) = psub (gl n a i j) (gl n res i j)) ->
  glwe_sub_negate_assign n res a = Some r ->
  phase n s r = pt_map2 Fsub n (g_size res) (phase n s a) (phase n s res).
Proof. exact phase_sub_negate_assign. Qed.
Print Assumptions C02_phase_sub_negate_assign.

Example C02_sub_negate_assign_rank0_instance :
  exists r, glwe_sub_negate_assign 1 cx_res cx_a = Some r /\ phase 1 [[1]] r = [[-11]] /\
            phase 1 [[1]] r = pt_map2 Fsub 1 (g_size cx_res) (phase 1 [[1]] cx_a) (phase 1 [[1]] cx_res).
Proof. exact sub_negate_assign_rank0_instance. Qed.

Theorem C02_phase_negate : forall (n : nat) (s : list (list Z)), secret_ok n s ->
  forall res a r, wf_glwe n res -> wf_glwe n a ->
  (forall i j, vneg W64 (gl n a i j) = pneg (gl n a i j)) ->
  glwe_negate n res a = Some r ->
  phase n s r = pt_map2 Fneg n (g_size res) (phase n s a) (phase n s a).
Proof. exact phase_negate. Qed.
Print Assumptions C02_phase_negate.

Theorem C02_phase_negate_assign : forall (n : nat) (s : list (list Z)), secret_ok n s ->
  forall res r, wf_glwe n res ->
  (forall i j, vneg W64 (gl n res i j) = pneg (gl n res i j)) ->
  glwe_negate_assign n res = Some r ->
  phase n s r = pt_map2 Fneg n (g_size res) (phase n s res) (phase n s res).
Proof. exact phase_negate_assign. Qed.
Print Assumptions C02_phase_negate_assign.

Theorem C02_phase_copy : forall (n : nat) (s : list (list Z)), secret_ok n s ->
  forall res a r, wf_glwe n res -> wf_glwe n a ->
  glwe_copy n res a = Some r ->
  phase n s r = pt_map2 Fid n (g_size res) (phase n s a) (phase n s a).
Proof. exact phase_copy. Qed.
Print Assumptions C02_phase_copy.

(* ------------------------------------------------------------------ rotate / mul_xp_minus_one: every k in Z *)
Theorem C02_phase_rotate : forall (n : nat) (s : list (list Z)), secret_ok n s ->
  forall (k : Z) res a r, wf_glwe n res -> wf_glwe n a ->
  (forall i j, znx_rotate W64 k (gl n a i j) = xmono k (gl n a i j)) ->
  glwe_rotate n k res a = Some r ->
  phase n s r = pt_map2 (Frot k) n (g_size res) (phase n s a) (phase n s a).
Proof. exact phase_rotate. Qed.
Print Assumptions C02_phase_rotate.

(* phase s (rot k ct) = X^k . phase s ct, limb by limb, when res and a have the same number of limbs *)
Theorem C02_phase_rotate_same_size : forall (n : nat) (s : list (list Z)), secret_ok n s ->
  forall (k : Z) res a r, wf_glwe n res -> wf_glwe n a -> g_size a = g_size res ->
  (forall i j, znx_rotate W64 k (gl n a i j) = xmono k (gl n a i j)) ->
  glwe_rotate n k res a = Some r ->
  phase n s r = map (xmono k) (phase n s a).
Proof. exact phase_rotate_same_size. Qed.
Print Assumptions C02_phase_rotate_same_size.

Theorem C02_phase_rotate_assign : forall (n : nat) (s : list (list Z)), secret_ok n s ->
  forall (scr k : Z) res r, wf_glwe n res ->
  (forall i j, znx_rotate W64 k (gl n res i j) = xmono k (gl n res i j)) ->
  glwe_rotate_assign n scr k res = Some r ->
  phase n s r = pt_map2 (Frot k) n (g_size res) (phase n s res) (phase n s res).
Proof. exact phase_rotate_assign. Qed.
Print Assumptions C02_phase_rotate_assign.

Theorem C02_phase_mul_xp_minus_one : forall (n : nat) (s : list (list Z)), secret_ok n s ->
  forall (k : Z) res a r, wf_glwe n res -> wf_glwe n a ->
  (forall i j, vsub W64 (znx_rotate W64 k (gl n a i j)) (gl n a i j) = xmono_m1 k (gl n a i j)) ->
  glwe_mul_xp_minus_one n k res a = Some r ->
  phase n s r = pt_map2 (Fmx1 k) n (g_size res) (phase n s a) (phase n s a).
Proof. exact phase_mul_xp_minus_one. Qed.
Print Assumptions C02_phase_mul_xp_minus_one.

Theorem C02_phase_mul_xp_minus_one_assign : forall (n : nat) (s : list (list Z)), secret_ok n s ->
  forall (scr k : Z) res r, wf_glwe n res ->
  (forall i j, vsub W64 (znx_rotate W64 k (gl n res i j)) (gl n res i j) = xmono_m1 k (gl n res i j)) ->
  glwe_mul_xp_minus_one_assign n scr k res = Some r ->
  phase n s r = pt_map2 (Fmx1 k) n (g_size res) (phase n s res) (phase n s res).
Proof. exact phase_mul_xp_minus_one_assign. Qed.
Print Assumptions C02_phase_mul_xp_minus_one_assign.

(* ------------------------------------------------------------------ all twelve exact opcodes at once; in-place = out-of-place *)
Theorem C02_phase_exact_op : forall (n : nat) (s : list (list Z)), secret_ok n s ->
  forall opc scr k res a b r F ix iy,
  exact_F opc k = Some (F, ix, iy) ->
  wf_glwe n res -> wf_glwe n a -> wf_glwe n b ->
  step_exact n opc k res a b ->
  exec_op opc n scr k res a b = Some r ->
  wf_glwe n r /\
  phase n s r = pt_map2 F n (g_size res) (phase n s (pick3 ix res a b)) (phase n s (pick3 iy res a b)).
Proof. exact exec_op_phase. Qed.
Print Assumptions C02_phase_exact_op.

Theorem C02_step_exact_small : forall n opc k res a b F ix iy,
  exact_F opc k = Some (F, ix, iy) ->
  wf_glwe n res -> wf_glwe n a -> wf_glwe n b ->
  gsmall res -> gsmall a -> gsmall b ->
  step_exact n opc k res a b.
Proof. exact step_exact_small. Qed.
Print Assumptions C02_step_exact_small.

(* add_assign, sub_assign, sub_negate_assign, negate_assign, rotate_assign, mul_xp_minus_one_assign return what the
   out-of-place form returns when it is applied to the ciphertext itself *)
Theorem C02_assign_eq : forall n opc scr k res a b r1 r2,
  wf_glwe n res -> wf_glwe n a -> wf_glwe n b ->
  step_exact n opc k res a b ->
  exec_op opc n scr k res a b = Some r1 ->
  as_out_of_place opc n k res a = Some r2 ->
  r1 = r2.
Proof. exact assign_eq. Qed.
Print Assumptions C02_assign_eq.

(* ------------------------------------------------------------------ straight-line programs *)
Theorem C02_phase_program : forall (n : nat) (s : list (list Z)), secret_ok n s ->
  forall scr prog regs regs',
  Forall (wf_glwe n) regs -> prog_exact n scr prog regs ->
  run_prog n scr prog regs = Some regs' ->
  map (phase n s) regs' = pt_prog n prog (map (phase n s) regs).
Proof. exact prog_phase. Qed.
Print Assumptions C02_phase_program.

(* ------------------------------------------------------------------ shift / normalise.
   Values: a limb list in radix 2^b denotes sum_j x_j 2^(-(j+1)b); `valp P b n c` is the polynomial of these values scaled by 2^P,
   `phase` is the limb-wise phase.  Statement:  val(phase(r)) = keep*val(phase(res)) + sgn * 2^off * val(phase(src)) + E  (mod 1),
   src = res for the in-place forms, = a otherwise; (off, keep, sgn) = (-k,0,1) rsh, (k,0,1) lsh_assign / lsh, (k,1,1) lsh_add,
   (k,1,-1) lsh_sub, (0,0,1) normalize(_assign).  |E_t| <= err_bound u s ncols(src) = u * (1 + sum_{i < rank(src)} ||s_i||_1), where
   u = sn_u = 0 when nothing is truncated (every bit of 2^off * src fits in res) and one unit 2^(P - size(res)*b) of the last limb
   of res otherwise: one unit per truncated column, reaching the phase through the secret (C02_pmul_bound).  `a` may have a lower
   rank than res (e.g. a plaintext): glwe_lsh zero-fills, glwe_lsh_add / glwe_lsh_sub keep the columns `a` does not have. *)

(* opcodes 13..17 = glwe_rsh, glwe_lsh_assign, glwe_lsh, glwe_lsh_add, glwe_lsh_sub: UNCONDITIONAL
   (column_value_ok discharged with C08's rsh_assign_value, lsh_assign_value, lsh_value, lsh_sub_value) *)
Theorem C02_phase_shift : forall n s opc scr k res a b r P,
  13 <= opc <= 17 -> 1 <= g_b res <= 62 -> 0 <= k ->
  secret_ok n s -> wf_glwe n res -> wf_glwe n a -> gsmall res -> gsmall (sn_src opc res a) ->
  1 <= P -> 2 * Z.of_nat (g_size res) * g_b res + Z.of_nat (g_size (sn_src opc res a)) * g_b res + k <= P ->
  exec_op opc n scr k res a b = Some r ->
  wf_glwe n r /\
  forall t, exists E M,
    nthZ (valp P (g_b res) n (phase n s r)) t =
      sn_keep opc * nthZ (valp P (g_b res) n (phase n s res)) t +
      sn_sgn opc * nthZ (valp (P + sn_off opc k) (g_b res) n (phase n s (sn_src opc res a))) t +
      E + M * 2 ^ P /\
    Z.abs E <= err_bound (sn_u opc (g_b res) k (g_size res) (g_size (sn_src opc res a)) P) s (g_ncols (sn_src opc res a)).
Proof. exact phase_shift_unconditional. Qed.
Print Assumptions C02_phase_shift.

(* opcodes 18, 19 = glwe_normalize, glwe_normalize_assign, res and a in the SAME radix: UNCONDITIONAL
   (C08's normalize_inter_value at offset 0, normalize_assign_value) *)
Theorem C02_phase_normalize : forall n s opc scr k res a b r P,
  18 <= opc <= 19 -> 1 <= g_b res <= 62 -> 0 <= k ->
  (sn_inplace opc = false -> g_b a = g_b res) ->
  secret_ok n s -> wf_glwe n res -> wf_glwe n a -> gsmall res -> gsmall (sn_src opc res a) ->
  1 <= P -> 2 * Z.of_nat (g_size res) * g_b res + Z.of_nat (g_size (sn_src opc res a)) * g_b res + k <= P ->
  exec_op opc n scr k res a b = Some r ->
  wf_glwe n r /\
  forall t, exists E M,
    nthZ (valp P (g_b res) n (phase n s r)) t =
      sn_keep opc * nthZ (valp P (g_b res) n (phase n s res)) t +
      sn_sgn opc * nthZ (valp (P + sn_off opc k) (g_b res) n (phase n s (sn_src opc res a))) t +
      E + M * 2 ^ P /\
    Z.abs E <= err_bound (sn_u opc (g_b res) k (g_size res) (g_size (sn_src opc res a)) P) s (g_ncols (sn_src opc res a)).
Proof. intros n s opc scr k res a b r P Ho. apply phase_shift_normalize_same_radix. lia. Qed.
Print Assumptions C02_phase_normalize.

(* any radix pair (glwe_normalize into a DIFFERENT radix included): from the per-coefficient value statement of the kernel.
   `column_value_stmt rb ab off keep sgn P u f guard` is what remains to be proved in C08 for vec_znx_normalize_cross_base2k
   (C08 has totality, no value theorem yet); for equal radices it is C02_column_value_same_radix below. *)
Theorem C02_phase_normalize_any_radix_from_column_value : forall n s opc scr k res a b r P u guard,
  13 <= opc <= 19 -> 0 <= u ->
  column_value_stmt (g_b res) (g_b (sn_src opc res a)) (sn_off opc k) (sn_keep opc) (sn_sgn opc) P u
                    (sn_kernel opc (g_b res) (g_b a) k) guard ->
  secret_ok n s -> wf_glwe n res -> wf_glwe n a ->
  (forall i t, (i < g_ncols (sn_src opc res a))%nat -> (t < n)%nat ->
     guard (coeff_limbs (gcol (sn_src opc res a) i) t) (coeff_limbs (gcol res i) t)) ->
  exec_op opc n scr k res a b = Some r ->
  wf_glwe n r /\
  forall t, exists E M,
    nthZ (valp P (g_b res) n (phase n s r)) t =
      sn_keep opc * nthZ (valp P (g_b res) n (phase n s res)) t +
      sn_sgn opc * nthZ (valp (P + sn_off opc k) (g_b (sn_src opc res a)) n (phase n s (sn_src opc res a))) t +
      E + M * 2 ^ P /\
    Z.abs E <= err_bound u s (g_ncols (sn_src opc res a)).
Proof. exact exec_op_phase_value_limbs. Qed.
Print Assumptions C02_phase_normalize_any_radix_from_column_value.

(* the discharged hypothesis: C08's per-coefficient theorems in the form the Section hypothesis `column_value_ok` asks for *)
Theorem C02_column_value_same_radix : forall opc b k (rsz asz : nat) P,
  13 <= opc <= 19 -> 1 <= b <= 62 -> 0 <= k -> 1 <= P ->
  2 * Z.of_nat rsz * b + Z.of_nat asz * b + k <= P ->
  column_value_stmt b b (sn_off opc k) (sn_keep opc) (sn_sgn opc) P (sn_u opc b k rsz asz P)
                    (sn_kernel opc b b k) (sn_guard opc rsz asz).
Proof. exact sn_column_value. Qed.
Print Assumptions C02_column_value_same_radix.

(* the value of the limb-wise phase is the phase of the values (val is a homomorphism of Z[X]/(X^n+1)-modules) *)
Theorem C02_value_of_phase : forall (n : nat) (s : list (list Z)) (P b : Z) (g : glwe),
  secret_ok n s -> wf_glwe n g -> forall t, nthZ (valp P b n (phase n s g)) t = nthZ (VP P b n s g) t.
Proof. exact value_of_phase. Qed.
Print Assumptions C02_value_of_phase.

(* |(s * e)_t| <= ||s||_1 * ||e||_inf : how one unit per column reaches the phase *)
Theorem C02_pmul_bound : forall s e u k, length e = length s -> 0 <= u -> (forall i, Z.abs (nthZ e i) <= u) ->
  Z.abs (nthZ (pmul s e) k) <= l1norm s * u.
Proof. exact pmul_bound. Qed.
Print Assumptions C02_pmul_bound.

(* ------------------------------------------------------------------ GGSW: entry by entry *)
Theorem C02_phase_ggsw_rotate : forall n s k res a r, secret_ok n s -> ggsw_rotate n k res a = Some r ->
  forall row col, (row < gs_dnum res)%nat -> (col <= gs_rank res)%nat ->
  wf_glwe n (gs_at res row col) -> wf_glwe n (gs_at a row col) ->
  (forall i j, znx_rotate W64 k (gl n (gs_at a row col) i j) = xmono k (gl n (gs_at a row col) i j)) ->
  phase n s (gs_at r row col) =
  pt_map2 (Frot k) n (g_size (gs_at res row col)) (phase n s (gs_at a row col)) (phase n s (gs_at a row col)).
Proof. exact phase_ggsw_rotate. Qed.
Print Assumptions C02_phase_ggsw_rotate.

Theorem C02_phase_ggsw_rotate_assign : forall n s scr k res r, secret_ok n s -> ggsw_rotate_assign n scr k res = Some r ->
  forall row col, (row < gs_dnum res)%nat -> (col <= gs_rank res)%nat ->
  wf_glwe n (gs_at res row col) ->
  (forall i j, znx_rotate W64 k (gl n (gs_at res row col) i j) = xmono k (gl n (gs_at res row col) i j)) ->
  phase n s (gs_at r row col) =
  pt_map2 (Frot k) n (g_size (gs_at res row col)) (phase n s (gs_at res row col)) (phase n s (gs_at res row col)).
Proof. exact phase_ggsw_rotate_assign. Qed.
Print Assumptions C02_phase_ggsw_rotate_assign.

(* ------------------------------------------------------------------ examples: the hypotheses are satisfiable, the conclusions are what one computes *)
Definition ex_s : list (list Z) := [[1; 0; -1; 1]; [0; -1; 1; 0]].
Definition ex_res : glwe := zero_glwe 8 4 2 2.                      (* rank 2, 2 limbs *)
Definition ex_a : glwe := {| g_b := 8; g_n := 4; g_size := 3;        (* rank 2, 3 limbs: the result truncates *)
  g_cols := [[[1;2;3;4];[5;6;7;8];[9;10;11;12]]; [[-1;-2;-3;-4];[13;14;15;16];[0;0;1;0]]; [[100;0;0;-100];[7;7;7;7];[1;1;1;1]]] |}.
Definition ex_b : glwe := {| g_b := 8; g_n := 4; g_size := 1;        (* rank 0 plaintext, 1 limb: zero-extended *)
  g_cols := [[[50;-50;25;-25]]] |}.

Lemma ex_wf : secret_ok 4 ex_s /\ wf_glwe 4 ex_res /\ wf_glwe 4 ex_a /\ wf_glwe 4 ex_b /\ gsmall ex_res /\ gsmall ex_a /\ gsmall ex_b.
Proof. repeat split; repeat constructor; cbn; lia. Qed.

(* ciphertext + rank-0 plaintext, three different limb counts *)
Example C02_ex_add : exists r, glwe_add_into 4 ex_res ex_a ex_b = Some r /\
  phase 4 ex_s r = pt_map2 Fadd 4 2 (phase 4 ex_s ex_a) (phase 4 ex_s ex_b) /\
  phase 4 ex_s r = [[-51; -51; 130; -24]; [19; 7; -7; 23]].
Proof.
  destruct ex_wf as (Hs & Wr & Wa & Wb & Sr & Sa & Sb).
  eexists. split; [vm_compute; reflexivity|]. split; [|vm_compute; reflexivity].
  refine (proj2 (C02_phase_exact_op 4 ex_s Hs 1 0 0 ex_res ex_a ex_b _ Fadd 1%nat 2%nat eq_refl Wr Wa Wb _ _)).
  - apply (C02_step_exact_small 4 1 0 ex_res ex_a ex_b Fadd 1%nat 2%nat eq_refl); auto.
  - vm_compute. reflexivity.
Qed.

(* rotation by a negative amount beyond -2N *)
Example C02_ex_rotate : exists r, glwe_rotate 4 (-11) ex_res ex_a = Some r /\
  phase 4 ex_s r = pt_map2 (Frot (-11)) 4 2 (phase 4 ex_s ex_a) (phase 4 ex_s ex_a) /\
  pt_map2 (Frot (-11)) 4 2 (phase 4 ex_s ex_a) (phase 4 ex_s ex_a) = [xmono (-11) (nth 0 (phase 4 ex_s ex_a) []); xmono (-11) (nth 1 (phase 4 ex_s ex_a) [])].
Proof.
  destruct ex_wf as (Hs & Wr & Wa & Wb & Sr & Sa & Sb).
  eexists. split; [vm_compute; reflexivity|]. split; [|vm_compute; reflexivity].
  refine (proj2 (C02_phase_exact_op 4 ex_s Hs 9 0 (-11) ex_res ex_a ex_b _ (Frot (-11)) 1%nat 1%nat eq_refl Wr Wa Wb _ _)).
  - apply (C02_step_exact_small 4 9 (-11) ex_res ex_a ex_b (Frot (-11)) 1%nat 1%nat eq_refl); auto.
  - vm_compute. reflexivity.
Qed.

(* a three-instruction program: r0 <- a + b ; r0 <- X^5 r0 ; r1 <- r1 - r0 *)
Definition ex_prog : list instr :=
  [ {| i_op := 1; i_d := 0; i_x := 1; i_y := 2; i_k := 0 |};
    {| i_op := 10; i_d := 0; i_x := 0; i_y := 0; i_k := 5 |};
    {| i_op := 4; i_d := 1; i_x := 0; i_y := 0; i_k := 0 |} ].
Example C02_ex_program : exists regs', run_prog 4 4096 ex_prog [ex_res; ex_a; ex_b] = Some regs' /\
  map (phase 4 ex_s) regs' = pt_prog 4 ex_prog (map (phase 4 ex_s) [ex_res; ex_a; ex_b]).
Proof. eexists. split; vm_compute; reflexivity. Qed.

(* right shift by 5 bits of a 2-limb ciphertext in radix 2^8: value of the phase = 2^-5 * value of the phase, within
   (1 + ||s_1||_1 + ||s_2||_1) units of the last limb *)
Example C02_ex_rsh_numeric :
  let a := with_cols ex_a (map (firstn 2) (g_cols ex_a)) in
  let a := {| g_b := 8; g_n := 4; g_size := 2; g_cols := g_cols a |} in
  match glwe_rsh 4 4096 5 a with
  | Some r =>
      forallb (fun t => tor_dist 40 (nthZ (VP 40 8 4 ex_s r) t - nthZ (VP 35 8 4 ex_s a) t) <=? err_bound (2 ^ (40 - 16)) ex_s 3) (seq 0 4)
  | None => false
  end = true.
Proof. vm_compute. reflexivity. Qed.

(* the unconditional shift theorem applies: right shift by 5 bits of the 3-limb rank-2 ciphertext ex_a (radix 2^8), P = 100 *)
Example C02_ex_shift_theorem : exists r, exec_op 13 4 4096 5 ex_a ex_a ex_a = Some r /\
  forall t, exists E M,
    nthZ (valp 100 8 4 (phase 4 ex_s r)) t = nthZ (valp (100 + - 5) 8 4 (phase 4 ex_s ex_a)) t + E + M * 2 ^ 100 /\
    Z.abs E <= err_bound (2 ^ (100 - 3 * 8)) ex_s 3.
Proof.
  destruct ex_wf as (Hs & Wr & Wa & Wb & Sr & Sa & Sb).
  destruct (exec_op 13 4 4096 5 ex_a ex_a ex_a) as [rr|] eqn:He; [|exfalso; vm_compute in He; discriminate].
  exists rr. split; [reflexivity|]. intros t.
  assert (Hsz : 2 * Z.of_nat (g_size ex_a) * g_b ex_a + Z.of_nat (g_size (sn_src 13 ex_a ex_a)) * g_b ex_a + 5 <= 100)
    by (vm_compute; discriminate).
  assert (Hb : 1 <= g_b ex_a <= 62) by (cbn [g_b ex_a]; lia).
  destruct (C02_phase_shift 4 ex_s 13 4096 5 ex_a ex_a ex_a rr 100 ltac:(lia) Hb ltac:(lia) Hs Wa Wa Sa Sa ltac:(lia) Hsz He) as (_ & H).
  destruct (H t) as (E & M & HE & HB). exists E, M. split; [|exact HB].
  cbn [sn_keep sn_sgn sn_off sn_src sn_inplace Z.eqb Pos.eqb orb g_b ex_a Z.opp] in HE. lia.
Qed.
