(* C09, big-accumulator family — pinned statements only.
   Model = Model/C09Big.v: for the FFT64 family (w = 64) Ring.v's vector level, for the NTT120 family (w = 128) the limb
   loops of ntt120/vec_znx_big.rs written loop by loop (`wr lo hi f`).  Spec = `lin_spec` (word by word:
   wrap_w (ca * x[j][i] + cb * y[j][i]), a missing operand limb contributes 0) and `sigma` (Poly.v). *)
From PV Require Import Base.MachineInt Model.Znx Model.Limbs Model.Flat Model.Ring Model.Poly Model.C09Big
  Proofs.C09Size Proofs.C09Big.
Open Scope Z_scope.

(* ---------- 1. the NTT120 loops are the common size-rule semantics at w = 128 ---------- *)
Theorem C09B_ntt120_from_small : forall n a r0, n_from_small n a r0 = vec_unary n (fun l => l) a r0.
Proof. exact n_from_small_eq. Qed.
Print Assumptions C09B_ntt120_from_small.

Theorem C09B_ntt120_add_into : forall n a b r0, n_add_into n a b r0 = vec_add 128 n a b r0.
Proof. exact n_add_into_eq. Qed.
Print Assumptions C09B_ntt120_add_into.

Theorem C09B_ntt120_add_assign : forall a r0, n_add_assign a r0 = vec_add_assign 128 a r0.
Proof. exact n_add_assign_eq. Qed.
Print Assumptions C09B_ntt120_add_assign.

Theorem C09B_ntt120_add_small_into : forall n a b r0, n_add_small_into n a b r0 = vec_add 128 n a b r0.
Proof. exact n_add_small_into_eq. Qed.
Print Assumptions C09B_ntt120_add_small_into.

Theorem C09B_ntt120_sub : forall n a b r0, n_sub n a b r0 = vec_sub 128 n a b r0.
Proof. exact n_sub_eq. Qed.
Print Assumptions C09B_ntt120_sub.

Theorem C09B_ntt120_sub_assign : forall a r0, n_sub_assign a r0 = vec_sub_assign 128 a r0.
Proof. exact n_sub_assign_eq. Qed.
Print Assumptions C09B_ntt120_sub_assign.

Theorem C09B_ntt120_sub_negate_assign : forall a r0, n_sub_negate_assign a r0 = vec_sub_negate_assign 128 a r0.
Proof. exact n_sub_negate_assign_eq. Qed.
Print Assumptions C09B_ntt120_sub_negate_assign.

Theorem C09B_ntt120_sub_small_a : forall n a b r0, n_sub_small_a n a b r0 = vec_sub 128 n a b r0.
Proof. exact n_sub_small_a_eq. Qed.
Print Assumptions C09B_ntt120_sub_small_a.

Theorem C09B_ntt120_sub_small_b : forall n a b r0, n_sub_small_b n a b r0 = vec_sub 128 n a b r0.
Proof. exact n_sub_small_b_eq. Qed.
Print Assumptions C09B_ntt120_sub_small_b.

Theorem C09B_ntt120_negate : forall n a r0, n_negate n a r0 = vec_unary n (vneg 128) a r0.
Proof. exact n_negate_eq. Qed.
Print Assumptions C09B_ntt120_negate.

Theorem C09B_ntt120_negate_assign : forall r0, n_negate_assign r0 = vec_unary_assign (vneg 128) r0.
Proof. exact n_negate_assign_eq. Qed.
Print Assumptions C09B_ntt120_negate_assign.

Theorem C09B_ntt120_automorphism : forall n p a r0, n_automorphism n p a r0 = vec_automorphism 128 n p a r0.
Proof. exact n_automorphism_eq. Qed.
Print Assumptions C09B_ntt120_automorphism.

Theorem C09B_ntt120_automorphism_assign : forall (n : nat) (m p : Z) r0,
  0 <= m -> Z.of_nat n = 2 ^ m -> Z.odd p = true -> limbs_len n r0 ->
  n_automorphism_assign p r0 = map (sigma 128 p) r0.
Proof. exact n_automorphism_assign_sigma. Qed.
Print Assumptions C09B_ntt120_automorphism_assign.

(* ---------- 2. exact wrapped ring map with the size rule, any width w >= 1 ---------- *)
Theorem C09B_add_exact : forall w n, 1 <= w -> forall a b r0, limbs_wf w n a -> limbs_wf w n b ->
  vec_add w n a b r0 = lin_spec w n (length r0) 1 1 a b.
Proof. exact vec_add_lin. Qed.
Print Assumptions C09B_add_exact.

Theorem C09B_sub_exact : forall w n, 1 <= w -> forall a b r0, limbs_wf w n a -> limbs_wf w n b ->
  vec_sub w n a b r0 = lin_spec w n (length r0) 1 (-1) a b.
Proof. exact vec_sub_lin. Qed.
Print Assumptions C09B_sub_exact.

Theorem C09B_add_assign_exact : forall w n, 1 <= w -> forall a r0, limbs_wf w n a -> limbs_wf w n r0 ->
  vec_add_assign w a r0 = lin_spec w n (length r0) 1 1 r0 a.
Proof. exact vec_add_assign_lin. Qed.
Print Assumptions C09B_add_assign_exact.

Theorem C09B_sub_assign_exact : forall w n, 1 <= w -> forall a r0, limbs_wf w n a -> limbs_wf w n r0 ->
  vec_sub_assign w a r0 = lin_spec w n (length r0) 1 (-1) r0 a.
Proof. exact vec_sub_assign_lin. Qed.
Print Assumptions C09B_sub_assign_exact.

Theorem C09B_sub_negate_assign_exact : forall w n a r0, limbs_wf w n a -> limbs_wf w n r0 ->
  vec_sub_negate_assign w a r0 = lin_spec w n (length r0) 1 (-1) a r0.
Proof. exact vec_sub_negate_assign_lin. Qed.
Print Assumptions C09B_sub_negate_assign_exact.

Theorem C09B_negate_exact : forall w n, 1 <= w -> forall a r0, limbs_wf w n a ->
  vec_unary n (vneg w) a r0 = lin_spec w n (length r0) (-1) 0 a [].
Proof. exact vec_negate_lin. Qed.
Print Assumptions C09B_negate_exact.

Theorem C09B_negate_assign_exact : forall w n r0, limbs_wf w n r0 ->
  vec_unary_assign (vneg w) r0 = lin_spec w n (length r0) (-1) 0 r0 [].
Proof. exact vec_negate_assign_lin. Qed.
Print Assumptions C09B_negate_assign_exact.

Theorem C09B_from_small_exact : forall w n, 1 <= w -> forall a r0, limbs_wf w n a ->
  vec_unary n (fun l => l) a r0 = lin_spec w n (length r0) 1 0 a [].
Proof. exact vec_copy_lin. Qed.
Print Assumptions C09B_from_small_exact.

(* every opcode, both families: the column function of the model IS the specification *)
Theorem C09B_big_col_exact : forall (w code : Z) (n : nat) (p fill : Z) (al bl r0 : limbs),
  In code big_codes -> w = 64 \/ w = 128 ->
  ((1 <= big_arity code)%nat -> limbs_wf w n al) -> (big_arity code = 2%nat -> limbs_wf w n bl) ->
  limbs_wf w n r0 -> auto_ok code n p ->
  big_col w code n p fill al bl r0 = big_expect w code n p al bl r0.
Proof. exact big_col_exact. Qed.
Print Assumptions C09B_big_col_exact.

(* on the flat buffers: exact map in the selected column (read back), everything else unchanged *)
Theorem C09B_run_exact : forall (code : Z) (ps : list Z) (vs outs : list (list Z)),
  let w := big_w (bp ps 0) in
  let rs := bshp ps 0 in let sa := bshp ps 1 in let sb := bshp ps 2 in
  let res := bv vs 0 in let al := bget sa (bv vs 1) in let bl := bget sb (bv vs 2) in
  In code big_codes -> (0 < s_n rs)%nat ->
  ((1 <= big_arity code)%nat -> limbs_wf w (s_n rs) al) -> (big_arity code = 2%nat -> limbs_wf w (s_n rs) bl) ->
  limbs_wf w (s_n rs) (bget rs res) -> auto_ok code (s_n rs) (bex ps 1) ->
  run_c09_big code ps vs = Some outs ->
  exists l res',
    outs = [res'] /\
    big_expect w code (s_n rs) (bex ps 1) al bl (bget rs res) = Some l /\ bget rs res' = l /\
    length res' = length res /\
    forall idx d, big_in_col rs idx = false -> nth idx res' d = nth idx res d.
Proof. exact run_c09_big_exact. Qed.
Print Assumptions C09B_run_exact.

Theorem C09B_oracle_accepts_model : forall (code : Z) (ps : list Z) (vs outs : list (list Z)),
  let w := big_w (bp ps 0) in
  let rs := bshp ps 0 in let sa := bshp ps 1 in let sb := bshp ps 2 in
  let res := bv vs 0 in let al := bget sa (bv vs 1) in let bl := bget sb (bv vs 2) in
  In code big_codes -> (0 < s_n rs)%nat ->
  ((1 <= big_arity code)%nat -> limbs_wf w (s_n rs) al) -> (big_arity code = 2%nat -> limbs_wf w (s_n rs) bl) ->
  limbs_wf w (s_n rs) (bget rs res) -> auto_ok code (s_n rs) (bex ps 1) ->
  run_c09_big code ps vs = Some outs ->
  oracle_c09_big code ps vs outs = 1.
Proof. exact oracle_accepts_model. Qed.
Print Assumptions C09B_oracle_accepts_model.

(* ---------- 3. ring laws on big vectors ---------- *)
Theorem C09B_sub_is_add_negate : forall w, 1 <= w -> forall n a b rb r0, length rb = length b ->
  vec_sub w n a b r0 = vec_add w n a (vec_unary n (vneg w) b rb) r0.
Proof. exact vec_sub_as_add_negate. Qed.
Print Assumptions C09B_sub_is_add_negate.

Theorem C09B_sub_antisym : forall w, 1 <= w -> forall n a b r0, limbs_wf w n a ->
  vec_sub w n a b r0 = map (vneg w) (vec_sub w n b a r0).
Proof. exact vec_sub_antisym. Qed.
Print Assumptions C09B_sub_antisym.

Theorem C09B_sub_negate_assign_is_negate_sub_assign : forall w, 1 <= w -> forall a r0,
  vec_sub_negate_assign w a r0 = vec_unary_assign (vneg w) (vec_sub_assign w a r0).
Proof. exact vec_sub_negate_assign_as_negate. Qed.
Print Assumptions C09B_sub_negate_assign_is_negate_sub_assign.

Theorem C09B_negate_twice : forall w, 1 <= w -> forall n r0, limbs_wf w n r0 ->
  vec_unary_assign (vneg w) (vec_unary_assign (vneg w) r0) = r0.
Proof. exact vec_negate_assign_involutive. Qed.
Print Assumptions C09B_negate_twice.

Theorem C09B_add_comm : forall w n a b r0, vec_add w n a b r0 = vec_add w n b a r0.
Proof. exact vec_add_comm. Qed.
Print Assumptions C09B_add_comm.

Theorem C09B_add_then_sub_assign : forall w, 1 <= w -> forall n a r0, limbs_len n a -> limbs_wf w n r0 ->
  vec_sub_assign w a (vec_add_assign w a r0) = r0.
Proof. exact vec_add_sub_assign_cancel. Qed.
Print Assumptions C09B_add_then_sub_assign.

(* the same laws, stated on the NTT120 loops *)
Theorem C09B_ntt120_sub_is_add_negate : forall n a b rb r0, length rb = length b ->
  n_sub n a b r0 = n_add_into n a (n_negate n b rb) r0.
Proof. exact n_sub_as_add_negate. Qed.
Print Assumptions C09B_ntt120_sub_is_add_negate.

Theorem C09B_ntt120_sub_small_b_is_negate_sub_small_a : forall n a b r0, limbs_wf 128 n a ->
  n_sub_small_b n a b r0 = n_negate_assign (n_sub_small_a n b a r0).
Proof. exact n_sub_small_b_as_negate_sub_small_a. Qed.
Print Assumptions C09B_ntt120_sub_small_b_is_negate_sub_small_a.

Theorem C09B_ntt120_sub_antisym : forall n a b r0, limbs_wf 128 n a ->
  n_sub n a b r0 = n_negate_assign (n_sub n b a r0).
Proof. exact n_sub_antisym. Qed.
Print Assumptions C09B_ntt120_sub_antisym.

Theorem C09B_ntt120_sub_negate_assign_is_negate_sub_assign : forall a r0,
  n_sub_negate_assign a r0 = n_negate_assign (n_sub_assign a r0).
Proof. exact n_sub_negate_assign_as_negate. Qed.
Print Assumptions C09B_ntt120_sub_negate_assign_is_negate_sub_assign.

Theorem C09B_ntt120_negate_twice : forall n r0, limbs_wf 128 n r0 -> n_negate_assign (n_negate_assign r0) = r0.
Proof. exact n_negate_assign_involutive. Qed.
Print Assumptions C09B_ntt120_negate_twice.

Theorem C09B_ntt120_add_comm : forall n a b r0, n_add_into n a b r0 = n_add_into n b a r0.
Proof. exact n_add_into_comm. Qed.
Print Assumptions C09B_ntt120_add_comm.

Theorem C09B_ntt120_add_then_sub_assign : forall n a r0, limbs_len n a -> limbs_wf 128 n r0 ->
  n_sub_assign a (n_add_assign a r0) = r0.
Proof. exact n_add_sub_assign_cancel. Qed.
Print Assumptions C09B_ntt120_add_then_sub_assign.

(* ---------- 4. the two widths ---------- *)
Theorem C09B_spec_reduce_mod_2_64 : forall n rsz ca cb x y,
  map (map (wrap 64)) (lin_spec 128 n rsz ca cb x y) = lin_spec 64 n rsz ca cb x y.
Proof. exact lin_spec_reduce. Qed.
Print Assumptions C09B_spec_reduce_mod_2_64.

(* any 64-bit operands: FFT64 words = NTT120 words reduced modulo 2^64 (linear operations) *)
Theorem C09B_fft64_is_ntt120_reduced : forall code n p fill fill' al bl r0,
  In code big_lin_codes ->
  ((1 <= big_arity code)%nat -> limbs_wf 64 n al) -> (big_arity code = 2%nat -> limbs_wf 64 n bl) -> limbs_wf 64 n r0 ->
  option_map (map (map (wrap 64))) (big_col 128 code n p fill al bl r0) = big_col 64 code n p fill' al bl r0.
Proof. exact big_fft64_is_ntt120_reduced. Qed.
Print Assumptions C09B_fft64_is_ntt120_reduced.

(* operands that fit (every word in [-2^61, 2^61)): the two families return the same words, automorphisms included *)
Theorem C09B_families_agree : forall code n p fill fill' al bl r0,
  In code big_codes ->
  ((1 <= big_arity code)%nat -> limbs_dom n al) -> (big_arity code = 2%nat -> limbs_dom n bl) -> limbs_dom n r0 ->
  auto_ok code n p ->
  big_col 128 code n p fill al bl r0 = big_col 64 code n p fill' al bl r0.
Proof. exact big_families_agree. Qed.
Print Assumptions C09B_families_agree.

(* ---------- examples: the hypotheses are satisfiable, the boundary digits behave as stated ---------- *)
(* sub_small_b with a shorter than b: the tail of b is NEGATED EXACTLY in 128 bits: -(i64::MIN) = 2^63 ... *)
Example C09B_ex_sub_small_b_tail_min :
  n_sub_small_b 2 [[5; 6]] [[1; 1]; [- 2 ^ 63; 2 ^ 63 - 1]; [7; 7]] [[9; 9]; [9; 9]; [9; 9]; [9; 9]]
  = [[4; 5]; [2 ^ 63; - 2 ^ 63 + 1]; [-7; -7]; [0; 0]].
Proof. vm_compute. reflexivity. Qed.
(* ... while the 64-bit family wraps it back to i64::MIN, as documented for wrapping words *)
Example C09B_ex_sub_tail_min_64 :
  vec_sub 64 2 [[5; 6]] [[1; 1]; [- 2 ^ 63; 2 ^ 63 - 1]; [7; 7]] [[9; 9]; [9; 9]; [9; 9]; [9; 9]]
  = [[4; 5]; [- 2 ^ 63; - 2 ^ 63 + 1]; [-7; -7]; [0; 0]].
Proof. vm_compute. reflexivity. Qed.
(* both are the specification at their width, and the 64-bit one is the 128-bit one reduced modulo 2^64 *)
Example C09B_ex_sub_small_b_spec :
  n_sub_small_b 2 [[5; 6]] [[1; 1]; [- 2 ^ 63; 2 ^ 63 - 1]; [7; 7]] [[9; 9]; [9; 9]; [9; 9]; [9; 9]]
  = lin_spec 128 2 4 1 (-1) [[5; 6]] [[1; 1]; [- 2 ^ 63; 2 ^ 63 - 1]; [7; 7]]
  /\ map (map (wrap 64)) (lin_spec 128 2 4 1 (-1) [[5; 6]] [[1; 1]; [- 2 ^ 63; 2 ^ 63 - 1]; [7; 7]])
     = vec_sub 64 2 [[5; 6]] [[1; 1]; [- 2 ^ 63; 2 ^ 63 - 1]; [7; 7]] [[9; 9]; [9; 9]; [9; 9]; [9; 9]].
Proof. vm_compute. split; reflexivity. Qed.

(* i128 extremes wrap: i128::MAX + 1 = i128::MIN, -(i128::MIN) = i128::MIN *)
Example C09B_ex_i128_extremes :
  n_add_into 1 [[2 ^ 127 - 1]] [[1]; [- 2 ^ 127]] [[0]; [0]; [0]] = [[- 2 ^ 127]; [- 2 ^ 127]; [0]]
  /\ n_negate 1 [[- 2 ^ 127]; [2 ^ 127 - 1]] [[0]; [0]; [0]] = [[- 2 ^ 127]; [- 2 ^ 127 + 1]; [0]].
Proof. vm_compute. split; reflexivity. Qed.

(* a whole record: be = 3 (NTT120Ref), N = 2, destination 2 columns x 2 limbs (capacity 3), column 1;
   a: 1 column, 1 limb; b (small): 1 column, 2 limbs; sub_small_b = 9111 *)
Definition ex_ps : list Z := [3; 2; 2; 2; 3; 1; 2; 1; 1; 1; 0; 2; 1; 2; 2; 0; 1; 1; 0].
Definition ex_vs : list (list Z) :=
  [[91; 92; 93; 94; 95; 96; 97; 98; 99; 100; 101; 102]; [5; 6]; [1; 1; - 2 ^ 63; 2 ^ 63 - 1]].
Example C09B_ex_run :
  run_c09_big 9111 ex_ps ex_vs = Some [[91; 92; 4; 5; 95; 96; 2 ^ 63; - 2 ^ 63 + 1; 99; 100; 101; 102]]
  /\ oracle_c09_big 9111 ex_ps ex_vs [[91; 92; 4; 5; 95; 96; 2 ^ 63; - 2 ^ 63 + 1; 99; 100; 101; 102]] = 1
  (* the result of the faulty widening `x.wrapping_neg() as i128` is rejected *)
  /\ oracle_c09_big 9111 ex_ps ex_vs [[91; 92; 4; 5; 95; 96; - 2 ^ 63; - 2 ^ 63 + 1; 99; 100; 101; 102]] = 0
  (* a stray write outside the selected column is rejected *)
  /\ oracle_c09_big 9111 ex_ps ex_vs [[91; 92; 4; 5; 95; 96; 2 ^ 63; - 2 ^ 63 + 1; 99; 100; 0; 102]] = 0.
Proof. vm_compute. repeat split; reflexivity. Qed.

Definition ex_out : list (list Z) := [[91; 92; 4; 5; 95; 96; 2 ^ 63; - 2 ^ 63 + 1; 99; 100; 101; 102]].
Example C09B_ex_run_hypotheses : oracle_c09_big 9111 ex_ps ex_vs ex_out = 1.
Proof.
  refine (C09B_oracle_accepts_model 9111 ex_ps ex_vs ex_out _ _ _ _ _ _ _).
  - cbn [In big_codes]. tauto.
  - vm_compute. lia.
  - intros _. apply limbs_wfb_sound. vm_compute. reflexivity.
  - intros _. apply limbs_wfb_sound. vm_compute. reflexivity.
  - apply limbs_wfb_sound. vm_compute. reflexivity.
  - intros [E|E]; discriminate E.
  - vm_compute. reflexivity.
Qed.

(* the two families on a common-domain record: same words *)
Example C09B_ex_families :
  big_col 128 9108 2 0 0 [[1; - 2 ^ 60]; [3; 4]] [] [[2 ^ 60; 5]; [6; 7]; [8; - 9]]
  = big_col 64 9108 2 0 0 [[1; - 2 ^ 60]; [3; 4]] [] [[2 ^ 60; 5]; [6; 7]; [8; - 9]].
Proof.
  refine (C09B_families_agree 9108 2 0 0 0 [[1; - 2 ^ 60]; [3; 4]] [] [[2 ^ 60; 5]; [6; 7]; [8; - 9]] _ _ _ _ _).
  - cbn [In big_codes]. tauto.
  - intros _. apply limbs_wfb_sound. vm_compute. reflexivity.
  - intros E. vm_compute in E. discriminate E.
  - apply limbs_wfb_sound. vm_compute. reflexivity.
  - intros [E|E]; discriminate E.
Qed.
