(* C16 — CKKS evaluator: metadata / error algebra of every operation and of straight-line programs.
   Only pinned statements, `exact` proofs and Print Assumptions.  Model: Model/C16Meta.v (transcribed code),
   Model/C16Spec.v (invariant, documented closed-form algebra `spec_step`, admissible calls, known-finding classes).
   Value tracking (decrypted slots vs. shadow complex evaluation) and the float rounding of encode/decode are
   checked by the correspondence harness against the envelope of Model/C16Oracle.v; they are not theorems. *)
From PV Require Import Base.MachineInt Model.C16Meta Model.C16Spec Proofs.C16Proofs.
Open Scope Z_scope.

(* every Ok result satisfies log_delta + log_budget <= max_k(dst) (and stays in the small range), for every
   operation but ckks_rescale_into with a destination smaller than the result (class K1) *)
Theorem C16_meta_never_exceeds :
  forall (chk : bool) (B : Z) (o : op) (d a b : ct) (m : meta) (sz : Z) (sh : list Z),
    1 <= B -> wf_op B o -> good B d -> good B a -> good B b ->
    ~ k1_rescale_into_small_dst B o d a ->
    meta_step chk B o d a b = Done m sz sh ->
    good B (Ct m sz).
Proof. exact meta_never_exceeds. Qed.
Print Assumptions C16_meta_never_exceeds.

Theorem C16_meta_never_exceeds_refuted :
  exists (B : Z) (d a : ct) (k : Z) (m : meta) (sz : Z) (sh : list Z),
    1 <= B /\ wf_op B (ORescaleInto k) /\ good B d /\ good B a /\
    meta_step true B (ORescaleInto k) d a a = Done m sz sh /\ maxk B (Ct m sz) < eff m.
Proof. exact rescale_into_exceeds_refuted. Qed.
Print Assumptions C16_meta_never_exceeds_refuted.

(* under the code's own branch guards no usize subtraction / addition leaves the usize range and no limb index
   is out of range, in either build profile, for every admissible call outside the panic classes K2, K3, K6 *)
Theorem C16_no_underflow :
  forall (chk : bool) (B : Z) (o : op) (d a b : ct),
    1 <= B -> wf_op B o -> good B d -> good B a -> good B b ->
    admissible B o d a -> ~ known_panic B o d a b ->
    meta_step chk B o d a b <> Panic.
Proof. exact no_panic. Qed.
Print Assumptions C16_no_underflow.

Theorem C16_no_underflow_refuted_const_add :
  exists (B : Z) (d : ct) (prec : meta),
    1 <= B /\ wf_op B (OCstRnxAssign prec false) /\ good B d /\ admissible B (OCstRnxAssign prec false) d d /\
    meta_step true B (OCstRnxAssign prec false) d d d = Panic /\
    meta_step false B (OCstRnxAssign prec false) d d d = Panic.
Proof. exact const_add_panics_refuted. Qed.
Print Assumptions C16_no_underflow_refuted_const_add.

Theorem C16_no_underflow_refuted_product_noncompact :
  exists (B : Z) (d a : ct),
    1 <= B /\ good B d /\ good B a /\ admissible B OSquareInto d a /\
    meta_step true B OSquareInto d a a = Panic /\ meta_step false B OSquareInto d a a = Panic.
Proof. exact product_noncompact_panics_refuted. Qed.
Print Assumptions C16_no_underflow_refuted_product_noncompact.

Theorem C16_no_underflow_refuted_product_base2k :
  exists (B : Z) (d a : ct) (p : ptz),
    1 <= B /\ wf_op B (OMulPtZnxInto p) /\ good B d /\ good B a /\ compact_ct B a /\
    meta_step true B (OMulPtZnxInto p) d a a = Panic.
Proof. exact product_base2k_panics_refuted. Qed.
Print Assumptions C16_no_underflow_refuted_product_base2k.

Theorem C16_no_underflow_refuted_huge_scalar :
  exists (B : Z) (d a : ct) (bits : Z) (m : meta) (sz : Z) (sh : list Z),
    1 <= B /\ good B d /\ good B a /\ 0 <= bits < two64 /\
    meta_step true B (ODivPow2Into bits) d a a = Panic /\
    meta_step false B (ODivPow2Into bits) d a a = Done m sz sh /\ ld m < ld (cm a).
Proof. exact huge_scalar_refuted. Qed.
Print Assumptions C16_no_underflow_refuted_huge_scalar.

(* totality: the call returns Err(kind) exactly when the closed-form algebra `spec_step` says so, Ok with exactly
   the documented metadata and limb count otherwise, and never a third outcome *)
Theorem C16_error_iff :
  forall (chk : bool) (B : Z) (o : op) (d a b : ct),
    1 <= B -> wf_op B o -> good B d -> good B a -> good B b ->
    admissible B o d a -> ~ known_panic B o d a b ->
    outcome_matches (meta_step chk B o d a b) (spec_step B o d a b).
Proof. exact error_iff. Qed.
Print Assumptions C16_error_iff.

(* the invariant holds after any straight-line program whose calls all succeed (as with `?` propagation) *)
Theorem C16_program_meta :
  forall (chk : bool) (B : Z) (p : list step) (rs : regs),
    1 <= B -> Forall (good B) rs -> clean_run chk B rs p ->
    Forall (good B) (snd (exec_prog chk B rs p)).
Proof. exact program_meta. Qed.
Print Assumptions C16_program_meta.

(* ... but not after a program that goes on after a failed call (class K4) *)
Theorem C16_program_meta_refuted :
  exists (B : Z) (rs : regs) (p : list step),
    1 <= B /\ Forall (good B) rs /\ Forall (fun s => wf_op B (sop s)) p /\
    (exists e m m' sz sh, fst (exec_prog true B rs p) = [Fail e m; Done m' sz sh]) /\
    ~ Forall (inv B) (snd (exec_prog true B rs p)).
Proof. exact program_meta_refuted. Qed.
Print Assumptions C16_program_meta_refuted.

(* the hypotheses are satisfiable *)
Example C16_example_step :
  let B := 19 in let d := Ct (Meta 0 0) 6 in let a := c8 30 122 in
  1 <= B /\ wf_op B ONegInto /\ good B d /\ good B a /\ admissible B ONegInto d a /\ ~ known_panic B ONegInto d a a /\
  ~ k1_rescale_into_small_dst B ONegInto d a /\
  meta_step true B ONegInto d a a = Done (Meta 30 84) 6 [38].
Proof. exact example_step. Qed.

Example C16_example_program :
  let B := 19 in
  let rs := [Ct (Meta 0 0) 8; Ct (Meta 0 0) 8; Ct (Meta 0 0) 7] in
  let p := [Step (OEncrypt (Meta 30 10) 152) 0 0 0; Step OSquareInto 1 0 0; Step OCompact 1 1 1;
            Step (ORescaleInto 10) 2 1 1; Step OLinAssign 2 1 1] in
  1 <= B /\ Forall (good B) rs /\ clean_run true B rs p /\
  snd (exec_prog true B rs p) = [c8 30 122; Ct (Meta 30 92) 7; Ct (Meta 30 82) 7].
Proof. exact example_program. Qed.
