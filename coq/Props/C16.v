(* C16 — CKKS evaluator: metadata / error algebra of every operation and of straight-line programs.
   Only pinned statements, `exact` proofs and Print Assumptions.  Model: Model/C16Meta.v (transcribed code),
   Model/C16Spec.v (invariant, documented closed-form algebra `spec_step`, admissible calls, known-finding classes).
   Value tracking (decrypted slots vs. shadow complex evaluation) and the float rounding of encode/decode are
   checked by the correspondence harness against the envelope of Model/C16Oracle.v; they are not theorems. *)
From Coq Require Import QArith.
From PV Require Import Base.MachineInt Model.C16Meta Model.C16Spec Proofs.C16Proofs Proofs.C16Composite Proofs.C16Value.
Open Scope Z_scope.

(* State of /repo: after the repairs fd924ce (ct x ct scale), 3326e5c (rescale_into), e31e2c8 (mul_pt base2k),
   84cafa8 (constant digits), b042dad (set_meta_checked), 628058f (_into forms check the budget first),
   18a4236 (dot_product_ct scale), 1a5cef0 (add_many / mul_many single input), 45bddf7 (OperandNotCompact).
   Hypotheses: base2k >= 1; operands `good` (log_delta + log_budget <= limbs * base2k < 2^62); caller scalars are
   arbitrary usize values (`wf_op`). *)

(* every Ok result satisfies log_delta + log_budget <= max_k(dst): every operation, either build profile *)
Theorem C16_meta_never_exceeds :
  forall (chk : bool) (B : Z) (o : op) (d a b : ct) (m : meta) (sz : Z) (sh : list Z),
    1 <= B -> wf_op B o -> good B d -> good B a -> good B b ->
    meta_step chk B o d a b = Done m sz sh ->
    good B (Ct m sz).
Proof. exact meta_never_exceeds. Qed.
Print Assumptions C16_meta_never_exceeds.

(* ... and so does every Err: a rejected call leaves metadata that the destination can hold *)
Theorem C16_fail_keeps_invariant :
  forall (chk : bool) (B : Z) (o : op) (d a b : ct) (e : ekind) (m : meta),
    1 <= B -> wf_op B o -> good B d -> good B a -> good B b ->
    meta_step chk B o d a b = Fail e m ->
    good B (Ct m (csize d)).
Proof. exact fail_keeps_good. Qed.
Print Assumptions C16_fail_keeps_invariant.

(* under the code's own branch guards no usize subtraction / addition leaves the usize range and no limb index is
   out of range: no admissible call panics, in either build profile *)
Theorem C16_no_underflow :
  forall (chk : bool) (B : Z) (o : op) (d a b : ct),
    1 <= B -> wf_op B o -> good B d -> good B a -> good B b ->
    admissible B o d a ->
    meta_step chk B o d a b <> Panic.
Proof. exact no_panic. Qed.
Print Assumptions C16_no_underflow.

(* totality: the call returns Err(kind) exactly when the closed-form algebra `spec_step` says so, Ok with exactly
   the documented metadata and limb count otherwise, and never a third outcome *)
Theorem C16_error_iff :
  forall (chk : bool) (B : Z) (o : op) (d a b : ct),
    1 <= B -> wf_op B o -> good B d -> good B a -> good B b ->
    admissible B o d a ->
    outcome_matches (meta_step chk B o d a b) (spec_step B o d a b).
Proof. exact error_iff. Qed.
Print Assumptions C16_error_iff.

(* the invariant holds after any straight-line program, whether its calls succeed, fail (and the caller goes on)
   or panic: by induction over the program *)
Theorem C16_program_meta :
  forall (chk : bool) (B : Z) (p : list step) (rs : regs),
    1 <= B -> Forall (good B) rs -> wf_prog B p ->
    Forall (good B) (snd (exec_prog chk B rs p)).
Proof. exact program_meta. Qed.
Print Assumptions C16_program_meta.

(* ---- composites (add_many, mul_many, dot products over register lists) ---- *)
Theorem C16_composite_meta_never_exceeds :
  forall (chk : bool) (B : Z) (c : comp) (d : ct) (xs ys : list ct) (m : meta) (sz : Z) (sh : list Z),
    1 <= B -> good B d -> Forall (good B) xs -> Forall (good B) ys ->
    comp_step chk B c d xs ys = Done m sz sh -> good B (Ct m sz).
Proof. exact comp_never_exceeds. Qed.
Print Assumptions C16_composite_meta_never_exceeds.

(* ... and so does every Err of a composite *)
Theorem C16_composite_fail_keeps_invariant :
  forall (chk : bool) (B : Z) (c : comp) (d : ct) (xs ys : list ct) (e : ekind) (m : meta),
    1 <= B -> good B d -> Forall (good B) xs -> Forall (good B) ys ->
    comp_step chk B c d xs ys = Fail e m -> good B (Ct m (csize d)).
Proof. exact comp_fail_keeps_good. Qed.
Print Assumptions C16_composite_fail_keeps_invariant.

(* ---- values over the exact phase model (Proofs/C16Value.v): the shifts handed to the GLWE layer make the
        resulting metadata tell the truth about the value = phase * 2^log_budget ---- *)
Theorem C16_value_unary_into :
  forall (chk : bool) (B : Z) (d a b : ct) (m : meta) (sz : Z) (sh : list Z) (pa : Q) (o : op) (g : Z),
    unary_gain o = Some g -> 0 <= lb (cm a) < two63 -> 0 <= ld (cm a) ->
    meta_step chk B o d a b = Done m sz sh ->
    (valQ (pa * two ^ (fold_right Z.add 0%Z sh)) (lb m) == valQ pa (lb (cm a)) * two ^ g)%Q.
Proof. exact value_unary_into. Qed.
Print Assumptions C16_value_unary_into.

Theorem C16_value_add_sub_into :
  forall (chk : bool) (B : Z) (d a b : ct) (m : meta) (sz : Z) (sh : list Z) (pa pb : Q),
    meta_step chk B OLinInto d a b = Done m sz sh ->
    let '(sa, sb) := lin_roles a b sh in
    (valQ (pa * two ^ sa + pb * two ^ sb) (lb m) == valQ pa (lb (cm a)) + valQ pb (lb (cm b)))%Q /\
    (valQ (pa * two ^ sa - pb * two ^ sb) (lb m) == valQ pa (lb (cm a)) - valQ pb (lb (cm b)))%Q.
Proof. exact value_add_into. Qed.
Print Assumptions C16_value_add_sub_into.

Theorem C16_value_add_sub_assign :
  forall (chk : bool) (B : Z) (d a b : ct) (m : meta) (sz : Z) (sh : list Z) (pa pd : Q),
    meta_step chk B OLinAssign d a b = Done m sz sh ->
    let '(sd, sa) := lin_assign_roles d a sh in
    (valQ (pd * two ^ sd + pa * two ^ sa) (lb m) == valQ pd (lb (cm d)) + valQ pa (lb (cm a)))%Q /\
    (valQ (pd * two ^ sd - pa * two ^ sa) (lb m) == valQ pd (lb (cm d)) - valQ pa (lb (cm a)))%Q.
Proof. exact value_add_assign. Qed.
Print Assumptions C16_value_add_sub_assign.

Theorem C16_value_rescale_assign :
  forall (chk : bool) (B : Z) (d a b : ct) (m : meta) (sz : Z) (sh : list Z) (pd : Q) (k : Z),
    meta_step chk B (ORescaleAssign k) d a b = Done m sz sh ->
    (valQ (pd * two ^ k) (lb m) == valQ pd (lb (cm d)))%Q.
Proof. exact value_rescale_assign. Qed.
Print Assumptions C16_value_rescale_assign.

Theorem C16_value_mul_pow2_assign :
  forall (chk : bool) (B : Z) (d a b : ct) (m : meta) (sz : Z) (sh : list Z) (pd : Q) (bits : Z),
    meta_step chk B (OMulPow2Assign bits) d a b = Done m sz sh ->
    (valQ (pd * two ^ bits) (lb m) == valQ pd (lb (cm d)) * two ^ bits)%Q.
Proof. exact value_mul_pow2_assign. Qed.
Print Assumptions C16_value_mul_pow2_assign.

(* the statement that the defect repaired in fd924ce violated *)
Theorem C16_value_mul_into :
  forall (chk : bool) (B : Z) (d a b : ct) (m : meta) (sz : Z) (sh : list Z) (pa pb : Q),
    meta_step chk B OMulInto d a b = Done m sz sh ->
    (valQ (pa * pb * two ^ (fold_right Z.add 0%Z sh)) (lb m) == valQ pa (lb (cm a)) * valQ pb (lb (cm b)))%Q.
Proof. exact value_mul_into. Qed.
Print Assumptions C16_value_mul_into.

(* ... and the same for the fused path of ckks_dot_product_ct (repaired in 18a4236) *)
Theorem C16_value_dot_product_ct_fused :
  forall (chk : bool) (B : Z) (d x0 y0 : ct) (q : ct * ct) (rest : list (ct * ct)) (xs ys : list ct)
         (m : meta) (sz : Z) (sh : list Z),
    combine xs ys = (x0, y0) :: q :: rest ->
    (zlen xs =? 0) || negb (zlen xs =? zlen ys) = false ->
    forallb (fun c => ld_of c =? ld_of x0) xs && forallb (fun c => ld_of c =? ld_of y0) ys = true ->
    comp_step chk B CDotCt d xs ys = Done m sz sh ->
    fold_right Z.add 0 sh + lb m = min_over lb_of xs + min_over lb_of ys /\ ld m = Z.min (ld_of x0) (ld_of y0).
Proof. exact dot_ct_fused_offset. Qed.
Print Assumptions C16_value_dot_product_ct_fused.

(* the hypotheses are satisfiable *)
Example C16_example_step :
  let B := 19 in let d := Ct (Meta 0 0) 6 in let a := c8 30 122 in
  1 <= B /\ wf_op B ONegInto /\ good B d /\ good B a /\ admissible B ONegInto d a /\
  meta_step true B ONegInto d a a = Done (Meta 30 84) 6 [38].
Proof. exact example_step. Qed.

(* the repaired classes, as regression witnesses *)
Example C16_example_repaired :
  meta_step true 19 (ORescaleInto 3) (Ct (Meta 0 0) 6) (c8 30 122) (c8 30 122) = Done (Meta 30 84) 6 [38] /\
  meta_step true 19 (OCstRnxAssign (Meta 50 0) false) (Ct (Meta 30 8) 2) (c8 0 0) (c8 0 0) = Fail EAlign (Meta 30 8) /\
  meta_step true 19 ONegInto (Ct (Meta 0 0) 1) (c8 30 122) (c8 30 122) = Fail ECapacity (Meta 0 0) /\
  meta_step false 19 (ODivPow2Into (two64 - 1)) (Ct (Meta 0 0) 7) (c8 30 122) (c8 30 122) = Fail ECapacity (Meta 0 0) /\
  meta_step false 19 (OSetMeta (Meta (two64 - 1) 2)) (Ct (Meta 0 0) 7) (c8 0 0) (c8 0 0) = Fail EShrink (Meta 0 0) /\
  meta_step true 19 OSquareInto (Ct (Meta 0 0) 8) (c8 30 92) (c8 30 92) = Fail ENotCompact (Meta 0 0).
Proof. exact example_repaired. Qed.

Example C16_example_program :
  let B := 19 in
  let rs := [Ct (Meta 0 0) 8; Ct (Meta 0 0) 8; Ct (Meta 0 0) 7] in
  let p := [Step (OEncrypt (Meta 30 10) 152) 0 0 0; Step OSquareInto 1 0 0; Step OCompact 1 1 1;
            Step (ORescaleInto 10) 2 1 1; Step OLinAssign 2 1 1; Step ONegInto 2 0 0] in
  1 <= B /\ Forall (good B) rs /\ wf_prog B p /\
  snd (exec_prog true B rs p) = [c8 30 122; Ct (Meta 30 92) 7; Ct (Meta 30 103) 7].
Proof. exact example_program. Qed.

Example C16_example_composites :
  let B := 19 in let x := Ct (Meta 30 122) 8 in let d := Ct (Meta 0 0) 8 in
  done_with (comp_step true B CMulMany d [x; x; x] []) (Meta 30 62) 8 /\
  done_with (comp_step true B CDotCt d [x; x] [x; x]) (Meta 30 92) 8 /\
  done_with (comp_step true B CAddMany d [x; x; x] []) (Meta 30 122) 8.
Proof. exact example_composites. Qed.
