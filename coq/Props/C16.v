(* placeholder while the model is being aligned with the implementation *)
From PV Require Import Base.MachineInt Model.C16Meta Model.C16Oracle.
Open Scope Z_scope.
Theorem C16_placeholder : True. Proof. exact I. Qed.
Print Assumptions C16_placeholder.
