(* C18 — serialisation round-trips; damaged input rejected without corruption.  Pinned statements only.

   `reader_*` / `dist_writer` (Model/C18Serial.v) are the model of /repo that run_c18 executes: since /repo 206cd69,
   0b16af7, 6f8da98, 1c0fa22 they are the repaired readers (C18_model_in_force).  The theorems below are stated for
   EVERY receiver and EVERY byte string, in both arithmetic modes (dbg) and for both kinds of reader (partial).
   Still false of the code, with witnesses: an in-place composite reader has replaced keys 0..k-1 when key k fails
   (C18_err_leaves_metadata_composite_refuted), and the Distribution word drops the 8 low mantissa bits of a
   probability (C18_dist_roundtrip_refuted_low8bits).  The model of the code before the repairs (`current_*`) and its
   refutations stay in Proofs/ as lemmas. *)
From PV Require Import Base.MachineInt Model.C18Serial Proofs.C18Bytes Proofs.C18Flat Proofs.C18Wrap Proofs.C18Keys.
Open Scope Z_scope.

(* ============================ 0. the model that run_c18 uses for /repo ============================ *)
Theorem C18_model_in_force :
  reader_flat = fixed_flat /\ reader_wobj = fixed_wobj /\ reader_kseq = fixed_kseq /\
  reader_cbk = fixed_cbk /\ reader_bdd = fixed_bdd /\ dist_writer = dist_write_fixed.
Proof. exact model_in_force. Qed.
Print Assumptions C18_model_in_force.

(* ============================ 1. read (write x) = x ============================ *)
(* VecZnx / ScalarZnx / MatZnx: every header word and every active byte; max_size of a VecZnx = min(max_size, what the
   receiver's buffer holds); the bytes of the receiver beyond the payload are untouched *)
Theorem C18_read_write_roundtrip : forall (dbg partial : bool) (r x : flat) (tl : bytes),
  wf_flat x -> fk r = fk x -> payload_len x <= blen (fd r) ->
  (fk x = KVec -> hd_ (fh x) 2 <= hd_ (fh x) 3) ->
  reader_flat dbg partial r (write_flat x ++ tl) = (Ok, loaded (clamp_hdr (fk x) (fh x) (blen (fd r))) r x, tl).
Proof. exact read_flat_fixed_roundtrip. Qed.
Print Assumptions C18_read_write_roundtrip.

Theorem C18_roundtrip_result_is_logically_x : forall (h : list Z) (r x : flat),
  wf_flat x -> payload_len x <= blen (fd r) ->
  firstn (Z.to_nat (payload_len x)) (fd (loaded h r x)) = active x /\ length (fd (loaded h r x)) = length (fd r).
Proof. exact loaded_logical. Qed.
Print Assumptions C18_roundtrip_result_is_logically_x.

Theorem C18_read_write_roundtrip_vec_znx : forall (dbg partial : bool) (r x : vec_znx) (tl : bytes),
  wf_flat (flat_of_vec x) -> vec_payload x <= blen (vdata r) -> vsize x <= vmax_size x ->
  read_vec_znx_fixed dbg partial r (write_vec_znx x ++ tl) =
    (Ok, {| vn := vn x; vcols := vcols x; vsize := vsize x;
            vmax_size := Z.min (vmax_size x)
                           (if vn x * vcols x * 8 =? 0 then vmax_size x else blen (vdata r) / (vn x * vcols x * 8));
            vdata := firstn (Z.to_nat (vec_payload x)) (vdata x) ++ skipn (Z.to_nat (vec_payload x)) (vdata r) |}, tl).
Proof. exact read_vec_znx_fixed_roundtrip. Qed.
Print Assumptions C18_read_write_roundtrip_vec_znx.

Theorem C18_read_write_roundtrip_scalar_znx : forall (dbg partial : bool) (r x : scalar_znx) (tl : bytes),
  wf_flat (flat_of_scalar x) -> scalar_payload x <= blen (sdata r) ->
  read_scalar_znx_fixed dbg partial r (write_scalar_znx x ++ tl) =
    (Ok, {| sn := sn x; scols := scols x;
            sdata := firstn (Z.to_nat (scalar_payload x)) (sdata x) ++ skipn (Z.to_nat (scalar_payload x)) (sdata r) |}, tl).
Proof. exact read_scalar_znx_fixed_roundtrip. Qed.
Print Assumptions C18_read_write_roundtrip_scalar_znx.

Theorem C18_read_write_roundtrip_mat_znx : forall (dbg partial : bool) (r x : mat_znx) (tl : bytes),
  wf_flat (flat_of_mat x) -> mat_payload x <= blen (mdata r) ->
  read_mat_znx_fixed dbg partial r (write_mat_znx x ++ tl) =
    (Ok, {| mn := mn x; msize := msize x; mrows := mrows x; mcols_in := mcols_in x; mcols_out := mcols_out x;
            mdata := firstn (Z.to_nat (mat_payload x)) (mdata x) ++ skipn (Z.to_nat (mat_payload x)) (mdata r) |}, tl).
Proof. exact read_mat_znx_fixed_roundtrip. Qed.
Print Assumptions C18_read_write_roundtrip_mat_znx.

(* every poulpy-core wrapper (GLWE, LWE, GGLWE, GGSW, the keys, GLWEPublicKey, all compressed forms) *)
Theorem C18_read_write_roundtrip_wobj : forall (dbg partial : bool) (r x : wobj) (tl : bytes),
  wf_wobj x -> valid_wobj x -> wobj_fits r x ->
  (fk (w_body x) = KVec -> hd_ (fh (w_body x)) 2 <= hd_ (fh (w_body x)) 3) ->
  reader_wobj dbg partial r (write_wobj x ++ tl) =
    (Ok, {| w_fields := w_fields x;
            w_body := loaded (clamp_hdr (fk (w_body x)) (fh (w_body x)) (blen (fd (w_body r)))) (w_body r) (w_body x) |}, tl).
Proof. exact read_wobj_fixed_roundtrip. Qed.
Print Assumptions C18_read_write_roundtrip_wobj.

(* GGLWEToGGSWKey, BlindRotationKey and their compressed forms *)
Theorem C18_read_write_roundtrip_kseq : forall (dbg partial : bool) (r x : kseq) (tl : bytes),
  kseq_fits fits_fix r x ->
  reader_kseq dbg partial r (write_kseq x ++ tl) = (Ok, resk_fix r x, tl).
Proof. exact fixed_kseq_roundtrip. Qed.
Print Assumptions C18_read_write_roundtrip_kseq.

(* CircuitBootstrappingKey *)
Theorem C18_read_write_roundtrip_cbk : forall (dbg partial : bool) (r x : cbk) (tl : bytes),
  cbk_fits fits_fix (kseq_fits fits_fix) r x ->
  reader_cbk dbg partial r (write_cbk x ++ tl) = (Ok, cbk_res res_fix resk_fix r x, tl).
Proof. exact fixed_cbk_roundtrip. Qed.
Print Assumptions C18_read_write_roundtrip_cbk.

(* BDDKey *)
Theorem C18_read_write_roundtrip_bdd : forall (dbg partial : bool) (r x : bdd) (tl : bytes),
  bdd_fits fits_fix (cbk_fits fits_fix (kseq_fits fits_fix)) r x ->
  reader_bdd dbg partial r (write_bdd x ++ tl) = (Ok, bdd_res res_fix (cbk_res res_fix resk_fix) r x, tl).
Proof. exact fixed_bdd_roundtrip. Qed.
Print Assumptions C18_read_write_roundtrip_bdd.

(* Distribution: the values with a 56-bit payload survive; an integer payload that does not fit is refused by the writer *)
Theorem C18_dist_roundtrip : forall t p : Z, dist_canonical t p ->
  u64 (dist_word t p) /\ dist_decode (dist_word t p) = Some (t, p).
Proof. exact dist_word_spec. Qed.
Print Assumptions C18_dist_roundtrip.

Theorem C18_dist_roundtrip_writer : forall t p w : Z,
  dist_is_fixed t = true -> 0 <= p -> dist_writer t p = Some w -> u64 w /\ dist_decode w = Some (t, p).
Proof. exact dist_write_fixed_roundtrip. Qed.
Print Assumptions C18_dist_roundtrip_writer.

(* still FALSE of the code (documented in dist.rs): the 8 low mantissa bits of a probability are dropped *)
Theorem C18_dist_roundtrip_refuted_low8bits :
  dist_decode (dist_word 1 4602678819172646913) = Some (1, 4602678819172646912).
Proof. exact dist_roundtrip_refuted_low8bits. Qed.
Print Assumptions C18_dist_roundtrip_refuted_low8bits.

(* ============================ 2. the format mentions no backend ============================ *)
(* the writers take the logical object and nothing else: equal header words, scalar fields and active bytes give
   equal byte strings, whatever produced the object and whatever lies in the slack of its buffer *)
Theorem C18_format_backend_independent : forall x y : flat,
  fh x = fh y -> active x = active y -> fk x = fk y -> write_flat x = write_flat y.
Proof. exact write_flat_logical. Qed.
Print Assumptions C18_format_backend_independent.

Theorem C18_format_backend_independent_wobj : forall x y : wobj,
  w_fields x = w_fields y -> fk (w_body x) = fk (w_body y) -> fh (w_body x) = fh (w_body y) ->
  active (w_body x) = active (w_body y) -> write_wobj x = write_wobj y.
Proof. exact write_wobj_logical. Qed.
Print Assumptions C18_format_backend_independent_wobj.

Theorem C18_format_backend_independent_kseq : forall x y : kseq,
  k_pre x = k_pre y -> map write_wobj (k_keys x) = map write_wobj (k_keys y) -> write_kseq x = write_kseq y.
Proof. exact write_kseq_logical. Qed.
Print Assumptions C18_format_backend_independent_kseq.

(* ============================ 3. every byte string: Ok or Err ============================ *)
(* never a panic, an arithmetic overflow, a wrapped acceptance, an out-of-bounds slice or an allocation abort *)
Theorem C18_read_total : forall (dbg partial : bool) (r : flat) (s : bytes),
  good (fst (fst (reader_flat dbg partial r s))).
Proof. exact read_flat_fixed_total. Qed.
Print Assumptions C18_read_total.

Theorem C18_read_total_wobj : forall (dbg partial : bool) (r : wobj) (s : bytes),
  good (fst (fst (reader_wobj dbg partial r s))).
Proof. exact fixed_wobj_total. Qed.
Print Assumptions C18_read_total_wobj.

Theorem C18_read_total_kseq : forall (dbg partial : bool) (r : kseq) (s : bytes),
  good (fst (fst (reader_kseq dbg partial r s))).
Proof. exact fixed_kseq_total. Qed.
Print Assumptions C18_read_total_kseq.

Theorem C18_read_total_cbk : forall (dbg partial : bool) (r : cbk) (s : bytes),
  good (fst (fst (reader_cbk dbg partial r s))).
Proof. exact fixed_cbk_total. Qed.
Print Assumptions C18_read_total_cbk.

Theorem C18_read_total_bdd : forall (dbg partial : bool) (r : bdd) (s : bytes),
  good (fst (fst (reader_bdd dbg partial r s))).
Proof. exact fixed_bdd_total. Qed.
Print Assumptions C18_read_total_bdd.

(* ============================ 4. the receiver stays usable ============================ *)
(* after Ok AND after Err: size <= max_size, n*cols*max_size*8 <= |buffer| (MatZnx / ScalarZnx: the product of all
   dimensions), wrappers: moreover base2k and dsize non-zero *)
Theorem C18_read_preserves_inv : forall (dbg partial : bool) (r : flat) (s : bytes) (o : outcome) (r' : flat) (t : bytes),
  reader_flat dbg partial r s = (o, r', t) -> inv_flat r -> inv_flat r'.
Proof. exact read_flat_fixed_preserves_inv. Qed.
Print Assumptions C18_read_preserves_inv.

Theorem C18_read_keeps_buffer_length : forall (dbg partial : bool) (r : flat) (s : bytes),
  length (fd (snd (fst (reader_flat dbg partial r s)))) = length (fd r) /\ fk (snd (fst (reader_flat dbg partial r s))) = fk r.
Proof. exact read_flat_fixed_length. Qed.
Print Assumptions C18_read_keeps_buffer_length.

Theorem C18_read_preserves_inv_wobj : forall (dbg partial : bool) (r : wobj) (s : bytes) (o : outcome) (r' : wobj) (t : bytes),
  reader_wobj dbg partial r s = (o, r', t) -> inv_wobj r -> valid_wobj r -> inv_wobj r' /\ valid_wobj r'.
Proof. exact read_wobj_fixed_preserves_inv. Qed.
Print Assumptions C18_read_preserves_inv_wobj.

Theorem C18_read_preserves_inv_kseq : forall (dbg partial : bool) (r : kseq) (s : bytes),
  Ik r -> Ik (snd (fst (reader_kseq dbg partial r s))).
Proof. exact fixed_kseq_inv. Qed.
Print Assumptions C18_read_preserves_inv_kseq.

Theorem C18_read_preserves_inv_cbk : forall (dbg partial : bool) (r : cbk) (s : bytes),
  Ic r -> Ic (snd (fst (reader_cbk dbg partial r s))).
Proof. exact fixed_cbk_inv. Qed.
Print Assumptions C18_read_preserves_inv_cbk.

Theorem C18_read_preserves_inv_bdd : forall (dbg partial : bool) (r : bdd) (s : bytes),
  Ib r -> Ib (snd (fst (reader_bdd dbg partial r s))).
Proof. exact fixed_bdd_inv. Qed.
Print Assumptions C18_read_preserves_inv_bdd.

(* ============================ 5. Err leaves the metadata alone ============================ *)
Theorem C18_err_leaves_metadata : forall (dbg partial : bool) (r : flat) (s : bytes) (r' : flat) (t : bytes),
  reader_flat dbg partial r s = (Err, r', t) -> fk r' = fk r /\ fh r' = fh r /\ length (fd r') = length (fd r).
Proof. exact read_flat_fixed_err_leaves_metadata. Qed.
Print Assumptions C18_err_leaves_metadata.

(* wrappers: every scalar field (base2k, k, rank, dsize, degrees, p, seeds, dist) and the inner header *)
Theorem C18_err_leaves_metadata_wobj : forall (dbg partial : bool) (r : wobj) (s : bytes) (r' : wobj) (t : bytes),
  reader_wobj dbg partial r s = (Err, r', t) -> same_meta_wobj r' r.
Proof. exact read_wobj_fixed_err_leaves_metadata. Qed.
Print Assumptions C18_err_leaves_metadata_wobj.

(* composites (GGLWEToGGSWKey, BlindRotationKey, ...): the fields in front are untouched, the number of keys is
   unchanged, and every key is either untouched (metadata) or the complete result of a successful read of that key *)
Theorem C18_err_leaves_metadata_kseq_partial : forall (dbg partial : bool) (r : kseq) (s : bytes),
  let res := reader_kseq dbg partial r s in
  good (fst (fst res)) /\ (Ik r -> Ik (snd (fst res))) /\
  length (k_keys (snd (fst res))) = length (k_keys r) /\
  (fst (fst res) = Err -> k_pre (snd (fst res)) = k_pre r /\
                          Forall2 (key_atomic (reader_wobj dbg partial)) (k_keys r) (k_keys (snd (fst res)))).
Proof. exact fixed_kseq_props. Qed.
Print Assumptions C18_err_leaves_metadata_kseq_partial.

(* the full statement for composites is still FALSE of the code: the keys are filled in place, so keys 0..k-1 have
   been replaced when key k fails (known finding composite.partial_update_on_error) *)
Definition C18_err_leaves_metadata_composite_full : Prop :=
  forall (dbg partial : bool) (r : kseq) (s : bytes) (r' : kseq) (t : bytes),
    reader_kseq dbg partial r s = (Err, r', t) -> k_pre r' = k_pre r /\ Forall2 same_meta_wobj (k_keys r') (k_keys r).

Theorem C18_err_leaves_metadata_composite_refuted :
  exists k', reader_kseq false false w_two_keys w_second_truncated = (Err, k', []) /\
             k_keys k' = [w_key 9; w_key 8] /\ k_keys k' <> k_keys w_two_keys.
Proof. exact fixed_kseq_err_changes_first_key. Qed.
Print Assumptions C18_err_leaves_metadata_composite_refuted.

(* ---- proposed repair of the composites (work/proposed_fixes/C18_composites_staged.diff, not yet in /repo): the
   stream is validated on copies of the sub-keys and replayed into the receiver on success.  Then the full statements
   hold for the bundles as well; on Err the receiver is unchanged altogether, bytes included. ---- *)
Theorem C18_proposed_staged_read_total : forall (dbg partial : bool),
  (forall (r : kseq) (s : bytes), good (fst (fst (staged_kseq dbg partial r s)))) /\
  (forall (r : cbk) (s : bytes), good (fst (fst (staged_cbk dbg partial r s)))) /\
  (forall (r : bdd) (s : bytes), good (fst (fst (staged_bdd dbg partial r s)))).
Proof. exact staged_total_all. Qed.
Print Assumptions C18_proposed_staged_read_total.

Theorem C18_proposed_staged_err_leaves_receiver : forall (dbg partial : bool),
  (forall (r : kseq) (s : bytes) (r' : kseq) (t : bytes), staged_kseq dbg partial r s = (Err, r', t) -> r' = r) /\
  (forall (r : cbk) (s : bytes) (r' : cbk) (t : bytes), staged_cbk dbg partial r s = (Err, r', t) -> r' = r) /\
  (forall (r : bdd) (s : bytes) (r' : bdd) (t : bytes), staged_bdd dbg partial r s = (Err, r', t) -> r' = r).
Proof. exact staged_err_all. Qed.
Print Assumptions C18_proposed_staged_err_leaves_receiver.

Theorem C18_proposed_staged_preserves_inv : forall (dbg partial : bool),
  (forall (r : kseq) (s : bytes), Ik r -> Ik (snd (fst (staged_kseq dbg partial r s)))) /\
  (forall (r : cbk) (s : bytes), Ic r -> Ic (snd (fst (staged_cbk dbg partial r s)))) /\
  (forall (r : bdd) (s : bytes), Ib r -> Ib (snd (fst (staged_bdd dbg partial r s)))).
Proof. exact staged_inv_all. Qed.
Print Assumptions C18_proposed_staged_preserves_inv.

Theorem C18_proposed_staged_roundtrip : forall (dbg partial : bool),
  (forall (r x : kseq) (tl : bytes), kseq_fits fits_fix r x ->
     staged_kseq dbg partial r (write_kseq x ++ tl) = (Ok, resk_fix r x, tl)) /\
  (forall (r x : cbk) (tl : bytes), cbk_fits fits_fix (kseq_fits fits_fix) r x ->
     staged_cbk dbg partial r (write_cbk x ++ tl) = (Ok, cbk_res res_fix resk_fix r x, tl)) /\
  (forall (r x : bdd) (tl : bytes), bdd_fits fits_fix (cbk_fits fits_fix (kseq_fits fits_fix)) r x ->
     staged_bdd dbg partial r (write_bdd x ++ tl) = (Ok, bdd_res res_fix (cbk_res res_fix resk_fix) r x, tl)).
Proof. exact staged_roundtrip_all. Qed.
Print Assumptions C18_proposed_staged_roundtrip.

(* ============================ hypotheses are satisfiable ============================ *)
Definition ex_vec : flat := {| fk := KVec; fh := [4; 2; 3; 5]; fd := repeat 7 192%nat |}.
Definition ex_recv : flat := {| fk := KVec; fh := [1; 1; 1; 1]; fd := repeat 0 256%nat |}.

Example ex_wf_flat : wf_flat ex_vec.
Proof.
  apply wf_flat_of_pos.
  - reflexivity.
  - repeat (apply Forall_cons); try apply Forall_nil; lia.
  - repeat (apply Forall_cons); try apply Forall_nil; unfold u64; split; try lia; reflexivity.
  - vm_compute. discriminate.
  - vm_compute. reflexivity.
Qed.

Example ex_fits_flat : fk ex_recv = fk ex_vec /\ payload_len ex_vec <= blen (fd ex_recv) /\
                       (fk ex_vec = KVec -> hd_ (fh ex_vec) 2 <= hd_ (fh ex_vec) 3).
Proof. split; [reflexivity|]. split; [vm_compute; discriminate|intros _; vm_compute; discriminate]. Qed.

Example ex_inv_flat : inv_flat ex_recv.
Proof. split; [reflexivity|]. split; [vm_compute; discriminate|intros _; vm_compute; discriminate]. Qed.

Example ex_dist_canonical : dist_canonical 1 4602678819172646912 /\ dist_canonical 0 12345 /\ dist_canonical 6 0.
Proof.
  split; [|split].
  - left. split; [reflexivity|]. split; [unfold u64; split; [lia|reflexivity]|reflexivity].
  - right; left. split; [reflexivity|]. split; [lia|reflexivity].
  - right; right. split; [right; reflexivity|reflexivity].
Qed.

(* a GLWECompressed-like wrapper: base2k, rank, seed, VecZnx *)
Definition ex_wobj : wobj :=
  {| w_fields := [{| f_role := 1; f_val := VU32 12 |}; {| f_role := 3; f_val := VU32 2 |};
                  {| f_role := 8; f_val := VSeed (repeat 9 32%nat) |}];
     w_body := ex_vec |}.
Definition ex_wrecv : wobj :=
  {| w_fields := [{| f_role := 1; f_val := VU32 8 |}; {| f_role := 3; f_val := VU32 1 |};
                  {| f_role := 8; f_val := VSeed zero_seed |}];
     w_body := ex_recv |}.

Example ex_fits_wobj : fits_now ex_wrecv ex_wobj /\ fits_fix ex_wrecv ex_wobj /\ Iw ex_wrecv.
Proof.
  assert (Hwf : wf_wobj ex_wobj).
  { split; [|exact ex_wf_flat]. repeat (apply Forall_cons); try apply Forall_nil; cbn [f_val wf_fval]; try reflexivity;
      unfold u32; split; try lia; reflexivity. }
  assert (Hfit : wobj_fits ex_wrecv ex_wobj).
  { split; [|split; [reflexivity|vm_compute; discriminate]].
    repeat (apply Forall2_cons); try apply Forall2_nil; split; cbn; auto. }
  split; [|split].
  - split; [exact Hwf|]. split; [|exact Hfit]. repeat (apply Forall_cons); try apply Forall_nil; exact I.
  - split; [exact Hwf|]. split; [reflexivity|]. split; [exact Hfit|intros _; vm_compute; discriminate].
  - split; [exact ex_inv_flat|reflexivity].
Qed.

(* a two-key sequence with a Distribution in front (BlindRotationKey-like), and a BDDKey-like bundle around it *)
Definition ex_kseq (w : wobj) : kseq := {| k_pre := [{| f_role := 10; f_val := VDist 4 3 |}]; k_keys := [w; w] |}.

Example ex_fits_kseq : kseq_fits fits_now (ex_kseq ex_wrecv) (ex_kseq ex_wobj) /\ small_fields (k_pre (ex_kseq ex_wobj)) /\
                       kseq_fits fits_fix (ex_kseq ex_wrecv) (ex_kseq ex_wobj) /\ Ik (ex_kseq ex_wrecv).
Proof.
  destruct ex_fits_wobj as (Hn & Hf & Hi).
  assert (Hpre : Forall2 field_fits (k_pre (ex_kseq ex_wrecv)) (k_pre (ex_kseq ex_wobj))).
  { apply Forall2_cons; [split; cbn; auto|apply Forall2_nil]. }
  assert (Hwf : wf_fields (k_pre (ex_kseq ex_wobj))).
  { apply Forall_cons; [|apply Forall_nil]. cbn [f_val wf_fval]. right; left. split; [reflexivity|]. split; [lia|reflexivity]. }
  split; [|split; [|split]].
  - split; [exact Hpre|]. split; [exact Hwf|]. split; [repeat (apply Forall2_cons); try apply Forall2_nil; exact Hn|reflexivity].
  - apply Forall_cons; [exact I|apply Forall_nil].
  - split; [exact Hpre|]. split; [exact Hwf|]. split; [repeat (apply Forall2_cons); try apply Forall2_nil; exact Hf|reflexivity].
  - repeat (apply Forall_cons); try apply Forall_nil; exact Hi.
Qed.

Definition ex_cbk (w : wobj) : cbk := {| c_brk := ex_kseq w; c_atk := [(-1, w); (5, w)]; c_tsk := ex_kseq w |}.
Definition ex_bdd (w : wobj) : bdd := {| b_cbt := ex_cbk w; b_ksg := Some w; b_ksl := w |}.

Example ex_fits_bdd :
  bdd_fits fits_now (cbk_fits fits_now fitsk_now) (ex_bdd ex_wrecv) (ex_bdd ex_wobj) /\
  bdd_fits fits_fix (cbk_fits fits_fix (kseq_fits fits_fix)) (ex_bdd ex_wrecv) (ex_bdd ex_wobj) /\ Ib (ex_bdd ex_wrecv).
Proof.
  destruct ex_fits_wobj as (Hn & Hf & Hi). destruct ex_fits_kseq as (Kn & Ks & Kf & Ki).
  assert (Hr : Forall (fun q : Z * wobj => in_range 64 (fst q)) (c_atk (ex_cbk ex_wobj))).
  { repeat (apply Forall_cons); try apply Forall_nil; cbn [fst]; unfold in_range; split; try lia; vm_compute; try discriminate; reflexivity. }
  assert (Hnd : NoDup (map fst (c_atk (ex_cbk ex_wobj)))).
  { cbn. repeat constructor; cbn; intuition discriminate. }
  split; [|split].
  - split; [|split; [exact Hn|exact Hn]].
    split; [split; assumption|]. split; [repeat (apply Forall2_cons); try apply Forall2_nil; (split; [reflexivity|exact Hn])|].
    split; [exact Hr|]. split; [exact Hnd|]. split; [reflexivity|split; assumption].
  - split; [|split; [exact Hf|exact Hf]].
    split; [exact Kf|]. split; [repeat (apply Forall2_cons); try apply Forall2_nil; (split; [reflexivity|exact Hf])|].
    split; [exact Hr|]. split; [exact Hnd|]. split; [reflexivity|exact Kf].
  - split; [|split; [exact Hi|exact Hi]].
    split; [exact Ki|]. split; [|exact Ki]. repeat (apply Forall_cons); try apply Forall_nil; exact Hi.
Qed.
