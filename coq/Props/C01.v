(* C01 — encrypt-then-decrypt returns the message up to the configured bounded error.  Pinned statements only.

   Reading guide.  `enc_sk`, `dec_glwe`, ... are the transcriptions of glwe_encrypt_sk_internal / glwe_decrypt (Model/EncModel.v),
   tied to the code bit for bit by the correspondence check on four backends.  Values on the torus are integers scaled by 2^P
   (`val_scaled`, `lval`), `tor_abs P x` is the distance of x/2^P to the nearest integer times 2^P, `wt P b j = 2^(P-(j+1)b)`
   is the weight of limb j.  `normalize_value_ok` is the value statement of C08 about the normalisers.  It is a hypothesis of the general
   theorems (all radices up to R, any accumulator width); for the same-radix 64-bit case it is DISCHARGED from C08's theorems
   (C01_normalize_value_ok_*_from_C08, C01_*_fft64 below); for the cross-radix and the NTT120 i128 routines the C08 oracle checks it
   on every record.  The magnitude hypotheses are the backend's exact-product domain:
   S bounds the 1-norm of every secret polynomial, E the error, M the plaintext digits. *)
From PV Require Import Base.MachineInt Model.Znx Model.Limbs Model.Flat Model.DftAbs Model.C08Oracle Model.EncModel
  Proofs.EncValue Proofs.EncLists Proofs.EncSampler Proofs.C01Sk Proofs.C01Glwe Proofs.C01Lwe Proofs.C01Pk Proofs.EncC08 Proofs.EncC08Inst.
Open Scope Z_scope.

(* decrypt(encrypt m) = m + e * 2^-(limb+1)b + rho on the torus, |rho| <= one unit of the decrypted plaintext's last limb,
   for every mask stream `us`: the mask cancels exactly.  The message is the plaintext as far as it fits the ciphertext
   (`firstn size`: limbs beyond the ciphertext are dropped by the size rule of vec_znx_add_assign). *)
Theorem C01_sk_roundtrip :
  forall (wb b pb R : Z) (n size psize rank : nat) (nk S E M : Z),
  normalize_value_ok (fun rb ab => normalize 64 rb ab 0) (2 ^ 62) R ->
  normalize_value_ok (bnorm wb) (2 ^ (wb - 2)) R ->
  2 <= wb -> 1 <= b <= R -> 1 <= pb <= R -> 0 <= S ->
  forall (pt : ccol) (sk : list poly) (us : nat -> Z) (e : poly) (ct : list ccol) (d : ccol),
  length sk = rank ->
  Forall (fun s => norm1 s <= S) sk ->
  (forall k, (k < n)%nat -> Z.abs (nthZ e k) <= E) ->
  (forall k, (k < n)%nat -> bnd M (coef pt k)) ->
  zn rank * 2 ^ (b - 1) + E + M <= 2 ^ 62 ->
  zn rank * (S * 2 ^ (b - 1)) + 2 ^ (b - 1) <= 2 ^ (wb - 2) ->
  S * 2 ^ (b - 1) <= 2 ^ (wb - 2) ->
  enc_sk wb b n size rank nk (Some (pt, O)) sk us e = Some ct ->
  dec_glwe wb b pb n size psize sk ct = Some d ->
  forall k, (k < n)%nat -> length (coef d k) = psize /\
    forall P, zn size * b <= P -> zn psize * pb <= P -> 1 <= P ->
    tor_abs P (val_scaled P pb (coef d k) - val_scaled P b (firstn size (coef pt k)) - nthZ e k * wt P b (target_limb nk b))
      <= 2 ^ (P - zn psize * pb).
Proof. exact sk_roundtrip_value. Qed.
Print Assumptions C01_sk_roundtrip.

(* the message sits where it was given: column 0, limb j of the plaintext at weight 2^-(j+1)b; the exact phase
   body + sum_i s_i a_i equals message + error on the torus, the error on limb ceil(nk/b)-1 with coefficient exactly 1;
   the mask columns are the digits of the mask stream, whatever the plaintext. *)
Theorem C01_message_position :
  forall (wb b pb R : Z) (n size psize rank : nat) (nk S E M : Z),
  normalize_value_ok (fun rb ab => normalize 64 rb ab 0) (2 ^ 62) R ->
  normalize_value_ok (bnorm wb) (2 ^ (wb - 2)) R ->
  2 <= wb -> 1 <= b <= R -> 1 <= pb <= R -> 0 <= S ->
  forall (pt : ccol) (sk : list poly) (us : nat -> Z) (e : poly) (ct : list ccol) (d : ccol),
  length sk = rank ->
  Forall (fun s => norm1 s <= S) sk ->
  (forall k, (k < n)%nat -> Z.abs (nthZ e k) <= E) ->
  (forall k, (k < n)%nat -> bnd M (coef pt k)) ->
  zn rank * 2 ^ (b - 1) + E + M <= 2 ^ 62 ->
  zn rank * (S * 2 ^ (b - 1)) + 2 ^ (b - 1) <= 2 ^ (wb - 2) ->
  S * 2 ^ (b - 1) <= 2 ^ (wb - 2) ->
  enc_sk wb b n size rank nk (Some (pt, O)) sk us e = Some ct ->
  dec_glwe wb b pb n size psize sk ct = Some d ->
  (target_limb nk b < size)%nat /\ tl ct = glwe_mask b n size rank us /\
  forall k, (k < n)%nat ->
    length (coef (hd [] ct) k) = size /\ Forall (in_range b) (coef (hd [] ct) k) /\
    forall P, zn size * b <= P -> zn psize * pb <= P -> 1 <= P ->
    exists q, lval P b size (coef (hd [] ct) k) + lvsum P b size (prods_at n size sk (tl ct) k)
              = lval P b size (coef pt k) + nthZ e k * wt P b (target_limb nk b) + q * 2 ^ P.
Proof. exact sk_message_position. Qed.
Print Assumptions C01_message_position.

(* LWE: `a` = the mask words of each limb, `normalize_assign_value_ok` = C08's statement about vec_znx_normalize_assign;
   D bounds the inner products <a_j, s> (|s|_1 * 2^(b-1) by C01_lwe_dot_bound) *)
Theorem C01_lwe_roundtrip :
  forall (b pb R : Z) (size psize : nat) (nk D E M : Z),
  normalize_value_ok (fun rb ab => normalize 64 rb ab 0) (2 ^ 62) R ->
  normalize_assign_value_ok R ->
  1 <= b <= R -> 1 <= pb <= R ->
  forall (pt s : list Z) (a : list (list Z)) (e : Z) (body d : list Z),
  (forall j, Z.abs (lwe_dot (nth j a []) s) <= D) -> Z.abs e <= E -> bnd M pt ->
  D + E + M <= 2 ^ 62 -> D + 2 ^ (b - 1) <= 2 ^ 62 ->
  lwe_enc_body b size nk pt s a e = Some body ->
  lwe_dec b pb size psize s a body = Some d ->
  length d = psize /\
  forall P, zn size * b <= P -> zn psize * pb <= P -> 1 <= P ->
    tor_abs P (val_scaled P pb d - val_scaled P b (firstn size pt) - e * wt P b (target_limb nk b)) <= 2 ^ (P - zn psize * pb).
Proof. exact lwe_roundtrip_value. Qed.
Print Assumptions C01_lwe_roundtrip.

Theorem C01_lwe_dot_bound : forall B : Z, 0 <= B -> forall a s : list Z, Forall (fun x => Z.abs x <= B) a ->
  Z.abs (lwe_dot a s) <= norm1 s * B.
Proof. exact lwe_dot_bound. Qed.
Print Assumptions C01_lwe_dot_bound.

(* public-key encryption: pk = secret-key encryption of zero (noise precision nkp), ct_i = normalise(u*pk_i + e_i (+ m on column 0)).
   decrypt = m + [u*e_pk placed at nkp] + [e_0 + sum_i s_i*e_i placed at nk] + rho, |rho| <= one unit of the decrypted plaintext's
   last limb; the mask terms cancel by commutativity and associativity of the negacyclic product (C07_pmul_comm, C07_pmul_assoc).
   U bounds |u|_1, Sn the |s_i|_1; the ciphertext has as many limbs as the public key (size). *)
Theorem C01_pk_roundtrip :
  forall (wb b pb R : Z) (n size psize rank : nat) (nk nkp Sn U E Ep M : Z),
  normalize_value_ok (fun rb ab => normalize 64 rb ab 0) (2 ^ 62) R ->
  normalize_value_ok (bnorm wb) (2 ^ (wb - 2)) R ->
  2 <= wb -> 1 <= b <= R -> 1 <= pb <= R -> 0 <= Sn -> 0 <= U ->
  forall (pt : ccol) (sk : list poly) (us : nat -> Z) (epk u : poly) (es : list poly) (pk ct : list ccol) (d : ccol),
  length sk = rank -> length es = S rank ->
  Forall (fun s => length s = n /\ norm1 s <= Sn) sk -> length u = n -> norm1 u <= U ->
  length epk = n -> Forall (fun e => length e = n) es ->
  (forall k, (k < n)%nat -> Z.abs (nthZ epk k) <= Ep) ->
  (forall i k, (k < n)%nat -> Z.abs (nthZ (nth i es []) k) <= E) ->
  (forall k, (k < n)%nat -> bnd M (coef pt k)) -> 0 <= M ->
  zn rank * 2 ^ (b - 1) + Ep <= 2 ^ 62 ->
  Sn * 2 ^ (b - 1) <= 2 ^ (wb - 2) ->
  U * 2 ^ (b - 1) + E + M <= 2 ^ (wb - 2) ->
  zn rank * (Sn * 2 ^ (b - 1)) + 2 ^ (b - 1) <= 2 ^ (wb - 2) ->
  enc_sk wb b n size rank nkp None sk us epk = Some pk ->
  enc_pk wb b n size size nk (Some pt) u pk es = Some ct ->
  dec_glwe wb b pb n size psize sk ct = Some d ->
  forall k, (k < n)%nat -> length (coef d k) = psize /\
    forall P, zn size * b <= P -> zn psize * pb <= P -> 1 <= P ->
    tor_abs P (val_scaled P pb (coef d k) - val_scaled P b (firstn size (coef pt k)) - pk_error b rank nk nkp P sk u epk es k)
      <= 2 ^ (P - zn psize * pb).
Proof. exact pk_roundtrip_value. Qed.
Print Assumptions C01_pk_roundtrip.

(* the error of a public-key ciphertext is at most bound * (|u|_1 + 1 + sum_i |s_i|_1) (each term at its precision) *)
Theorem C01_pk_error_bound :
  forall (wb b : Z) (n rank : nat) (nk nkp : Z), 2 <= wb -> forall Sn U E Ep : Z, 0 <= U ->
  forall (P : Z) (sk : list poly) (u epk : poly) (es : list poly) (k : nat),
  length sk = rank -> Forall (fun s => length s = n /\ norm1 s <= Sn) sk -> norm1 u <= U ->
  Forall (fun x => Z.abs x <= Ep) epk -> 0 <= Ep -> 0 <= E ->
  (forall i, Forall (fun x => Z.abs x <= E) (nth i es [])) ->
  Z.abs (pk_error b rank nk nkp P sk u epk es k)
  <= U * Ep * wt P b (target_limb nkp b) + (E + zn rank * (Sn * E)) * wt P b (target_limb nk b).
Proof. exact pk_error_bound. Qed.
Print Assumptions C01_pk_error_bound.

(* ---- the normaliser hypotheses discharged from C08 (same radix, 64-bit words: the FFT64 family, plaintext and decrypted plaintext in
   the ciphertext's radix b, 1 <= b <= 62): C08_normalize_inter_value / C08_normalize_assign_value, rescaled to every admissible P ---- *)
Theorem C01_normalize_value_ok_small_from_C08 : forall b : Z, 1 <= b <= 62 ->
  normalize_value_ok_dom (fun x => x = b) (fun rb ab => normalize 64 rb ab 0) (2 ^ 62).
Proof. exact normalize_value_ok_small_same. Qed.
Print Assumptions C01_normalize_value_ok_small_from_C08.

Theorem C01_normalize_value_ok_big_from_C08 : forall b : Z, 1 <= b <= 62 ->
  normalize_value_ok_dom (fun x => x = b) (bnorm 64) (2 ^ (64 - 2)).
Proof. exact normalize_value_ok_big_same. Qed.
Print Assumptions C01_normalize_value_ok_big_from_C08.

Theorem C01_normalize_assign_value_ok_from_C08 : forall b : Z, 1 <= b <= 62 -> normalize_assign_value_ok_dom (fun x => x = b).
Proof. exact normalize_assign_value_ok_same. Qed.
Print Assumptions C01_normalize_assign_value_ok_from_C08.

(* hence, with NO hypothesis about the normalisers: *)
Theorem C01_sk_roundtrip_fft64 :
  forall (b : Z) (n size psize rank : nat) (nk S E M : Z), 1 <= b <= 62 -> 0 <= S ->
  forall (pt : ccol) (sk : list poly) (us : nat -> Z) (e : poly) (ct : list ccol) (d : ccol),
  length sk = rank ->
  Forall (fun s => norm1 s <= S) sk ->
  (forall k, (k < n)%nat -> Z.abs (nthZ e k) <= E) ->
  (forall k, (k < n)%nat -> bnd M (coef pt k)) ->
  zn rank * 2 ^ (b - 1) + E + M <= 2 ^ 62 ->
  zn rank * (S * 2 ^ (b - 1)) + 2 ^ (b - 1) <= 2 ^ (64 - 2) ->
  S * 2 ^ (b - 1) <= 2 ^ (64 - 2) ->
  enc_sk 64 b n size rank nk (Some (pt, O)) sk us e = Some ct ->
  dec_glwe 64 b b n size psize sk ct = Some d ->
  forall k, (k < n)%nat -> length (coef d k) = psize /\
    forall P, zn size * b <= P -> zn psize * b <= P -> 1 <= P ->
    (exists q, lval P b size (coef (hd [] ct) k) + lvsum P b size (prods_at n size sk (tl ct) k)
               = lval P b size (coef pt k) + nthZ e k * wt P b (target_limb nk b) + q * 2 ^ P) /\
    tor_abs P (val_scaled P b (coef d k) - val_scaled P b (firstn size (coef pt k)) - nthZ e k * wt P b (target_limb nk b))
      <= 2 ^ (P - zn psize * b).
Proof. exact sk_roundtrip_fft64. Qed.
Print Assumptions C01_sk_roundtrip_fft64.

Theorem C01_lwe_roundtrip_same_radix :
  forall (b : Z) (size psize : nat) (nk D E M : Z), 1 <= b <= 62 ->
  forall (pt s : list Z) (a : list (list Z)) (e : Z) (body d : list Z),
  (forall j, Z.abs (lwe_dot (nth j a []) s) <= D) -> Z.abs e <= E -> bnd M pt ->
  D + E + M <= 2 ^ 62 -> D + 2 ^ (b - 1) <= 2 ^ 62 ->
  lwe_enc_body b size nk pt s a e = Some body ->
  lwe_dec b b size psize s a body = Some d ->
  length d = psize /\
  forall P, zn size * b <= P -> zn psize * b <= P -> 1 <= P ->
    tor_abs P (val_scaled P b d - val_scaled P b (firstn size pt) - e * wt P b (target_limb nk b)) <= 2 ^ (P - zn psize * b).
Proof. exact lwe_roundtrip_same_radix. Qed.
Print Assumptions C01_lwe_roundtrip_same_radix.

Theorem C01_pk_roundtrip_fft64 :
  forall (b : Z) (n size psize rank : nat) (nk nkp Sn U E Ep M : Z), 1 <= b <= 62 -> 0 <= Sn -> 0 <= U ->
  forall (pt : ccol) (sk : list poly) (us : nat -> Z) (epk u : poly) (es : list poly) (pk ct : list ccol) (d : ccol),
  length sk = rank -> length es = S rank ->
  Forall (fun s => length s = n /\ norm1 s <= Sn) sk -> length u = n -> norm1 u <= U ->
  length epk = n -> Forall (fun e => length e = n) es ->
  (forall k, (k < n)%nat -> Z.abs (nthZ epk k) <= Ep) ->
  (forall i k, (k < n)%nat -> Z.abs (nthZ (nth i es []) k) <= E) ->
  (forall k, (k < n)%nat -> bnd M (coef pt k)) -> 0 <= M ->
  zn rank * 2 ^ (b - 1) + Ep <= 2 ^ 62 ->
  Sn * 2 ^ (b - 1) <= 2 ^ (64 - 2) ->
  U * 2 ^ (b - 1) + E + M <= 2 ^ (64 - 2) ->
  zn rank * (Sn * 2 ^ (b - 1)) + 2 ^ (b - 1) <= 2 ^ (64 - 2) ->
  enc_sk 64 b n size rank nkp None sk us epk = Some pk ->
  enc_pk 64 b n size size nk (Some pt) u pk es = Some ct ->
  dec_glwe 64 b b n size psize sk ct = Some d ->
  forall k, (k < n)%nat -> length (coef d k) = psize /\
    forall P, zn size * b <= P -> zn psize * b <= P -> 1 <= P ->
    tor_abs P (val_scaled P b (coef d k) - val_scaled P b (firstn size (coef pt k)) - pk_error b rank nk nkp P sk u epk es k)
      <= 2 ^ (P - zn psize * b).
Proof. exact pk_roundtrip_fft64. Qed.
Print Assumptions C01_pk_roundtrip_fft64.

(* `prods_at` really is the product of the clear secret with the mask, limb by limb: (s_i * a_i)_k *)
Theorem C01_phase_products : forall (s : poly) (n size : nat) (c : ccol) (k : nat), (k < n)%nat ->
  coef (svp s n size c) k = map (fun j => nthZ (pmul s (limb_poly c j)) k) (seq 0 size).
Proof. exact coef_svp. Qed.
Print Assumptions C01_phase_products.

(* the rejection loop `while |x| > bound { resample }; round` over ANY stream of samples (rationals num / 2^dl):
   every returned value satisfies |e| <= ceil(bound), bound = bn / 2^bl (= noise.bound * scale in the code) *)
Theorem C01_error_bound_from_sampler :
  forall (bn bl : Z), 0 <= bl -> 0 <= bn ->
  forall (cnt : nat) (xs : list (Z * Z)) (es : list Z) (rest : list (Z * Z)),
  Forall (fun x => 0 <= snd x) xs -> sample_n bn bl cnt xs = Some (es, rest) ->
  length es = cnt /\ Forall (fun e => Z.abs e <= (bn + 2 ^ bl - 1) / 2 ^ bl) es.
Proof. exact sample_n_bound. Qed.
Print Assumptions C01_error_bound_from_sampler.

(* the accepted sample is the first one within the bound; earlier ones are all beyond it *)
Theorem C01_sampler_accepts_first :
  forall (bn bl : Z) (xs : list (Z * Z)) (e : Z) (rest : list (Z * Z)),
  sample_one bn bl xs = Some (e, rest) ->
  exists pre num dl, xs = pre ++ (num, dl) :: rest /\ Forall (fun x => exceeds (fst x) (snd x) bn bl = true) pre /\
                     exceeds num dl bn bl = false /\ e = round_half_away num dl.
Proof. exact sample_one_first_accepted. Qed.
Print Assumptions C01_sampler_accepts_first.

(* ---- the hypotheses are met by a concrete non-trivial instance; the conclusion is checked on it by computation ---- *)
Example C01_sampler_ex :
  sample_n 77 2 3 [(5, 1); (-81, 2); (39, 1); (-77, 2); (1, 3)] = Some ([3; -19; 0], [])
  /\ (77 + 2 ^ 2 - 1) / 2 ^ 2 = 20.
Proof. vm_compute. split; reflexivity. Qed.

(* magnitude hypotheses at a typical layout: base2k = 17, rank 2, ternary secret of 1-norm <= 1024, sigma 3.2 *)
Example C01_domain_ex : zn 2 * 2 ^ (17 - 1) + 2 ^ 21 + 2 ^ 16 <= 2 ^ 62 /\
  zn 2 * (1024 * 2 ^ (17 - 1)) + 2 ^ (17 - 1) <= 2 ^ (64 - 2) /\ 1024 * 2 ^ (17 - 1) <= 2 ^ (64 - 2).
Proof. unfold zn. cbn. lia. Qed.

(* a complete encrypt / decrypt instance of the model (n = 4, rank 1, base2k 5, 2 limbs, noise at k = 7) *)
Example C01_roundtrip_ex :
  let us := fun i => nthZ [1234567; 89; 4000000001; 77; 13; 999999; 31; 2] i in
  let pt := [[3; -2]; [0; 1]; [-16; 15]; [7; 7]] in
  let sk := [[1; 0; -1; 1]] in
  let e := [2; -1; 0; 3] in
  match enc_sk 64 5 4 2 1 7 (Some (pt, O)) sk us e with
  | Some ct => match dec_glwe 64 5 5 4 2 2 sk ct with
               | Some d => forallb (fun k => tor_abs 20 (val_scaled 20 5 (coef d k) - val_scaled 20 5 (coef pt k)
                                                        - nthZ e k * wt 20 5 (target_limb 7 5)) <=? 2 ^ (20 - 10)) [0; 1; 2; 3]%nat = true
               | None => False
               end
  | None => False
  end.
Proof. vm_compute. reflexivity. Qed.

(* a complete public-key instance of the model (n = 4, rank 1, base2k 6, 2 limbs): the decrypted plaintext is the message plus
   pk_error within one unit *)
Example C01_pk_ex :
  let us := fun i => nthZ [123456789; 987654321; 55555; 4242424242; 77; 1000003; 31337; 65537] i in
  let pt := [[3; -2]; [0; 1]; [-16; 15]; [7; 7]] in
  let sk := [[1; 0; -1; 1]] in
  let u := [0; 1; 1; -1] in
  let epk := [1; -2; 0; 1] in
  let es := [[2; 0; -1; 1]; [0; 3; -2; 1]] in
  match enc_sk 64 6 4 2 1 9 None sk us epk with
  | Some pk =>
      match enc_pk 64 6 4 2 2 10 (Some pt) u pk es with
      | Some ct =>
          match dec_glwe 64 6 6 4 2 2 sk ct with
          | Some d => forallb (fun k => tor_abs 24 (val_scaled 24 6 (coef d k) - val_scaled 24 6 (coef pt k)
                                                      - pk_error 6 1 10 9 24 sk u epk es k) <=? 2 ^ (24 - 12)) [0; 1; 2; 3]%nat = true
          | None => False
          end
      | None => False
      end
  | None => False
  end.
Proof. vm_compute. reflexivity. Qed.
