(* C01 — encrypt-then-decrypt returns the message up to the configured bounded error.  Pinned statements only. *)
From PV Require Import Base.MachineInt Model.Znx Model.Limbs Model.EncModel.
Open Scope Z_scope.

Theorem C01_stub : forall b u : Z, uniform_digit b u = Z.land u (2 ^ b - 1) - 2 ^ (b - 1).
Proof. reflexivity. Qed.
Print Assumptions C01_stub.
