(* C19 — seed-compressed objects expand to exactly what full encryption would produce.  Pinned statements only.

   `enc_sk_compressed` / `decompress_glwe` / `enc_sk` transcribe glwe_encrypt_sk_internal(compressed = true), decompress_glwe and
   the standard routine (Model/EncModel.v); `gglwe_compressed_encrypt`, `ggsw_compressed_encrypt`, `decompress_cell` transcribe the
   loop nests, seed slots and per-cell decompression of the gadget objects (Model/C19Gadget.v).  `us` is the raw u64 stream of a
   mask source, `stream_of seed` the ChaCha8 stream keyed by a stored seed (any function), `parent` the stream of the root seed,
   `errs i` the i-th block of the shared sequential error stream.  All sizes, ranks, dnum/dsize, radices are universally quantified. *)
From PV Require Import Base.MachineInt Model.Znx Model.Limbs Model.Flat Model.DftAbs Model.EncModel Model.C19Gadget
  Proofs.C19Gadget.
Open Scope Z_scope.

Theorem C19_decompress_glwe_eq_standard :
  forall (wb b : Z) (n size rank : nat) (nk : Z) (pt : option (ccol * nat)) (sk : list poly) (us : nat -> Z) (e : poly) (body : ccol),
  enc_sk_compressed wb b n size rank nk pt sk us e = Some body ->
  enc_sk wb b n size rank nk pt sk us e = Some (decompress_glwe b n size rank body us).
Proof. exact decompress_glwe_eq_standard. Qed.
Print Assumptions C19_decompress_glwe_eq_standard.

Theorem C19_standard_eq_decompress_glwe :
  forall (wb b : Z) (n size rank : nat) (nk : Z) (pt : option (ccol * nat)) (sk : list poly) (us : nat -> Z) (e : poly) (ct : list ccol),
  enc_sk wb b n size rank nk pt sk us e = Some ct ->
  exists body, enc_sk_compressed wb b n size rank nk pt sk us e = Some body /\ ct = decompress_glwe b n size rank body us.
Proof. exact standard_eq_decompress_glwe. Qed.
Print Assumptions C19_standard_eq_decompress_glwe.

(* the mask is regenerated column by column in increasing order, limb-major, one u64 per coefficient *)
Theorem C19_decompress_glwe_column_order :
  forall (b : Z) (n size rank : nat) (body : ccol) (us : nat -> Z) (c k j : nat),
  (c < rank)%nat -> (k < n)%nat -> (j < size)%nat ->
  nthZ (coef (nth (S c) (decompress_glwe b n size rank body us) []) k) j = uniform_digit b (us (c * size * n + j * n + k)%nat).
Proof. exact decompress_glwe_column. Qed.
Print Assumptions C19_decompress_glwe_column_order.

(* row / seed order of a GGLWE-shaped object: cell (row, col) sits at slot rank_in*row + col and holds the seed drawn at position
   col*dnum + row of the root stream, together with the body encrypted with that seed's stream and the error block of that position *)
Theorem C19_gglwe_seed_row_order :
  forall (stream_of : list Z -> nat -> Z) (wb b : Z) (n size rin rout dnum dsize : nat) (nk : Z) (ms sk : list poly)
         (parent : nat -> Z) (errs : nat -> poly) (row col : nat), (row < dnum)%nat -> (col < rin)%nat ->
  let i := gglwe_draw_index dnum row col in
  find_slot (gglwe_seed_slot rin row col) (gglwe_compressed_encrypt stream_of wb b n size rin rout dnum dsize nk ms sk parent errs)
  = Some (drawn_seed parent i,
          enc_sk_compressed wb b n size rout nk (Some (row_pt b n size dsize row (nth col ms []), O)) sk
            (stream_of (drawn_seed parent i)) (errs i)).
Proof. exact gglwe_store_cell. Qed.
Print Assumptions C19_gglwe_seed_row_order.

Theorem C19_decompress_gglwe_eq_standard :
  forall (stream_of : list Z -> nat -> Z) (wb b : Z) (n size rin rout dnum dsize : nat) (nk : Z) (ms sk : list poly)
         (parent : nat -> Z) (errs : nat -> poly) (row col : nat) (ct : list ccol),
  (row < dnum)%nat -> (col < rin)%nat ->
  decompress_cell stream_of b n size rout
    (gglwe_compressed_encrypt stream_of wb b n size rin rout dnum dsize nk ms sk parent errs) (gglwe_seed_slot rin row col) = Some ct ->
  let i := gglwe_draw_index dnum row col in
  enc_sk wb b n size rout nk (Some (row_pt b n size dsize row (nth col ms []), O)) sk (stream_of (drawn_seed parent i)) (errs i) = Some ct.
Proof. exact gglwe_decompress_cell_eq_standard. Qed.
Print Assumptions C19_decompress_gglwe_eq_standard.

Theorem C19_ggsw_seed_row_order :
  forall (stream_of : list Z -> nat -> Z) (wb b : Z) (n size rank dnum dsize : nat) (nk : Z) (m : poly) (sk : list poly)
         (parent : nat -> Z) (errs : nat -> poly) (row col : nat), (row < dnum)%nat -> (col < S rank)%nat ->
  let i := ggsw_draw_index rank row col in
  find_slot (ggsw_seed_slot rank row col) (ggsw_compressed_encrypt stream_of wb b n size rank dnum dsize nk m sk parent errs)
  = Some (drawn_seed parent i,
          enc_sk_compressed wb b n size rank nk (Some (row_pt b n size dsize row m, col)) sk (stream_of (drawn_seed parent i)) (errs i)).
Proof. exact ggsw_store_cell. Qed.
Print Assumptions C19_ggsw_seed_row_order.

Theorem C19_decompress_ggsw_eq_standard :
  forall (stream_of : list Z -> nat -> Z) (wb b : Z) (n size rank dnum dsize : nat) (nk : Z) (m : poly) (sk : list poly)
         (parent : nat -> Z) (errs : nat -> poly) (row col : nat) (ct : list ccol),
  (row < dnum)%nat -> (col < S rank)%nat ->
  decompress_cell stream_of b n size rank
    (ggsw_compressed_encrypt stream_of wb b n size rank dnum dsize nk m sk parent errs) (ggsw_seed_slot rank row col) = Some ct ->
  let i := ggsw_draw_index rank row col in
  enc_sk wb b n size rank nk (Some (row_pt b n size dsize row m, col)) sk (stream_of (drawn_seed parent i)) (errs i) = Some ct.
Proof. exact ggsw_decompress_cell_eq_standard. Qed.
Print Assumptions C19_decompress_ggsw_eq_standard.

Theorem C19_decompress_decrypts_same :
  forall (wb b pb : Z) (n size psize rank : nat) (nk : Z) (pt : option (ccol * nat)) (sk : list poly) (us : nat -> Z) (e : poly)
         (body : ccol) (ct : list ccol),
  enc_sk_compressed wb b n size rank nk pt sk us e = Some body ->
  enc_sk wb b n size rank nk pt sk us e = Some ct ->
  dec_glwe wb b pb n size psize sk (decompress_glwe b n size rank body us) = dec_glwe wb b pb n size psize sk ct.
Proof. exact decompress_decrypts_same. Qed.
Print Assumptions C19_decompress_decrypts_same.

(* a concrete instance: rank_in = 2, dnum = 2, a toy keyed stream; every cell decompresses (the hypotheses of the cell theorems
   are met) and cell (1, 0) carries the seed drawn second (position 0*dnum + 1) *)
Example C19_gglwe_ex :
  let stream_of := fun (seed : list Z) (i : nat) => nthZ seed 0 * 1000003 + Z.of_nat i * 7919 in
  let parent := fun i : nat => Z.of_nat i * 31 + 5 in
  let errs := fun i : nat => [Z.of_nat i; -1; 0; 2] in
  let obj := gglwe_compressed_encrypt stream_of 64 7 4 3 2 1 2 1 11 [[1; 0; -1; 0]; [0; 1; 1; 0]] [[1; -1; 0; 1]] parent errs in
  forallb (fun rc => match decompress_cell stream_of 7 4 3 1 obj (gglwe_seed_slot 2 (fst rc) (snd rc)) with Some _ => true | None => false end)
          [(0, 0); (0, 1); (1, 0); (1, 1)]%nat = true
  /\ (match find_slot (gglwe_seed_slot 2 1 0) obj with Some (seed, _) => seed | None => [] end) = drawn_seed parent 1.
Proof. vm_compute. split; reflexivity. Qed.
