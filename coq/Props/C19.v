(* C19 — seed-compressed objects expand to what full encryption produces.  Pinned statements only. *)
From PV Require Import Base.MachineInt Model.Znx Model.Limbs Model.EncModel.
Open Scope Z_scope.

Theorem C19_stub : forall b n size rank body us, decompress_glwe b n size rank body us = body :: glwe_mask b n size rank us.
Proof. reflexivity. Qed.
Print Assumptions C19_stub.
