From PV Require Import Base.MachineInt Model.C20Threads.
Theorem C20_stub : True. Proof. exact I. Qed.
Print Assumptions C20_stub.
