(* C20 — thread count and scheduling never change results.
   Pinned statements, `exact` proofs, Print Assumptions, and Examples showing the hypotheses are satisfiable.
   Model: Model/C20Threads.v (chunking of both call sites, small-step interleaving semantics, scratch split).
   All statements hold for EVERY item count >= 1 and thread count >= 1 (threads not dividing / exceeding the items
   included); items = 0 or threads = 0 make the Rust code panic (chunks_mut(0), division by zero): stated as guards. *)
From PV Require Import Base.MachineInt Model.C20Threads Proofs.C20Partition Proofs.C20Sched Proofs.C20Scratch Proofs.C20Shared Proofs.C20Forced Gen.C20_gen.
From Coq Require Import Arith PeanoNat Permutation.
Local Open Scope nat_scope.

(* ---- the chunks are a partition (circuit evaluation: out[..output_size].chunks_mut(div_ceil(output_size, threads))) ---- *)
Theorem C20_chunks_partition : forall items threads : nat,
  1 <= items -> 1 <= threads ->
  exists cs : list (list nat),
    chunks items threads = Some cs /\
    length cs <= threads /\
    (forall ch, In ch cs -> ch <> []) /\
    concat cs = seq 0 items /\
    (forall i j x, i <> j -> In x (nth i cs []) -> ~ In x (nth j cs [])) /\
    (forall x, 0 <= x < 0 + items ->
       exists i, i < length cs /\ In x (nth i cs []) /\ forall i', In x (nth i' cs []) -> i' = i).
Proof. exact chunks_partition. Qed.
Print Assumptions C20_chunks_partition.

(* ---- same for the partial preparation res.bits[bit_start..bit_start+bit_count] ---- *)
Theorem C20_chunks_partition_prepare : forall threads bits bit_start bit_count : nat,
  1 <= bit_count -> 1 <= threads -> bit_start + bit_count <= bits ->
  exists cs : list (list nat),
    chunks_prepare threads bits bit_start bit_count = Some cs /\
    length cs <= threads /\
    (forall ch, In ch cs -> ch <> []) /\
    concat cs = seq bit_start bit_count /\
    (forall i j x, i <> j -> In x (nth i cs []) -> ~ In x (nth j cs [])) /\
    (forall x, bit_start <= x < bit_start + bit_count ->
       exists i, i < length cs /\ In x (nth i cs []) /\ forall i', In x (nth i' cs []) -> i' = i).
Proof. exact chunks_prepare_partition. Qed.
Print Assumptions C20_chunks_partition_prepare.

(* ---- the index formulas: the argument index of every item is the absolute position of the slot it writes, and
        thread 0, thread 1, ... together enumerate base, base+1, ... exactly once ---- *)
Theorem C20_index_formula_enumerates : forall threads items : nat,
  1 <= items -> 1 <= threads ->
  exists w : list (list item),
    eval_work threads items = Some w /\
    length w <= threads /\
    map (map snd) w = map (map fst) w /\
    concat (map (map snd) w) = seq 0 items /\
    concat w = map (fun j => (j, j)) (seq 0 items).
Proof. exact index_formula_eval. Qed.
Print Assumptions C20_index_formula_enumerates.

Theorem C20_index_formula_enumerates_prepare : forall threads bits bit_start bit_count : nat,
  1 <= bit_count -> 1 <= threads -> bit_start + bit_count <= bits ->
  exists w : list (list item),
    prepare_work threads bits bit_start bit_count = Some w /\
    length w <= threads /\
    map (map snd) w = map (map fst) w /\
    concat (map (map snd) w) = seq bit_start bit_count /\
    concat w = map (fun j => (j, j)) (seq bit_start bit_count).
Proof. exact index_formula_prepare. Qed.
Print Assumptions C20_index_formula_enumerates_prepare.

(* ---- scratch windows of split_mut: aligned, of the requested length, inside the arena, pairwise disjoint ---- *)
Theorem C20_scratch_windows_disjoint :
  forall (addr len per : Z) (threads : nat) (ws : list (Z * Z)) (rest : Z * Z),
    (0 <= len)%Z -> (1 <= per)%Z ->
    split_mut addr len threads per = Some (ws, rest) ->
    length ws = threads /\
    (forall i, i < threads ->
       let w := nth i ws (0, 0)%Z in
       (fst w mod 64 = 0 /\ snd w = per /\ addr <= fst w /\ fst w + snd w <= addr + len)%Z) /\
    (forall i j, i < j -> j < threads ->
       (fst (nth i ws (0, 0)) + snd (nth i ws (0, 0)) <= fst (nth j ws (0, 0)))%Z) /\
    (forall i, i < threads -> (fst (nth i ws (0, 0)) + snd (nth i ws (0, 0)) <= fst rest)%Z) /\
    (addr <= fst rest /\ 0 <= snd rest /\ fst rest + snd rest = addr + len)%Z.
Proof. exact scratch_windows_disjoint. Qed.
Print Assumptions C20_scratch_windows_disjoint.

(* the split does not panic when the arena offers threads * round64(per_thread) aligned bytes ... *)
Theorem C20_scratch_split_succeeds : forall (addr len per : Z) (threads : nat),
  (0 <= len)%Z -> (0 <= per)%Z -> (Z.of_nat threads * round64 per <= available addr len)%Z ->
  exists ws r, split_mut addr len threads per = Some (ws, r).
Proof. exact split_mut_enough. Qed.
Print Assumptions C20_scratch_split_succeeds.

(* ... in particular the assertion made by the code (available >= threads * per_thread) suffices when per_thread % 64 = 0 *)
Theorem C20_scratch_assert_enough_when_aligned : forall (addr len per : Z) (threads : nat),
  (0 <= len)%Z -> (0 <= per)%Z -> (per mod 64 = 0)%Z -> (Z.of_nat threads * per <= available addr len)%Z ->
  exists ws r, split_mut addr len threads per = Some (ws, r).
Proof. exact split_mut_assert_enough_aligned. Qed.
Print Assumptions C20_scratch_assert_enough_when_aligned.

(* ... and does NOT suffice in general: the documented precondition passes, a later take panics *)
Theorem C20_scratch_assert_enough_refuted :
  exists addr len per threads,
    (0 <= len)%Z /\ (1 <= per)%Z /\ (Z.of_nat threads * per <= available addr len)%Z /\
    split_loop threads addr len per = None /\ split_mut addr len threads per = None.
Proof. exact split_mut_assert_not_enough. Qed.
Print Assumptions C20_scratch_assert_enough_refuted.

(* per_thread = 0 is excluded above for a reason: a zero-length window can lie outside a tiny arena *)
Theorem C20_scratch_zero_len_window_inside_refuted :
  exists addr len ws r, split_mut addr len 1 0 = Some (ws, r) /\ (addr + len < fst (nth 0 ws (0, 0)))%Z.
Proof. exact zero_len_window_outside. Qed.
Print Assumptions C20_scratch_zero_len_window_inside_refuted.

(* ---- every interleaving gives the outputs of the sequential single-thread run (any two thread counts, any two
        complete schedules, any initial scratch contents) ---- *)
Theorem C20_any_schedule_eq_sequential :
  forall (V Sc : Type) (g : nat -> Sc -> V * Sc) (f : nat -> V),
    (forall i s, fst (g i s) = f i) ->
    forall (zero : V) (threads threads' out_len output_size : nat) (init : nat -> V)
           (scr0 scr0' : nat -> Sc) (sched sched' : list nat) (o o' : nat -> V),
      eval_mt V Sc g zero threads out_len output_size init scr0 sched = Some o ->
      eval_mt V Sc g zero threads' out_len output_size init scr0' sched' = Some o' ->
      forall j, o j = o' j.
Proof. exact eval_any_schedule_eq_sequential. Qed.
Print Assumptions C20_any_schedule_eq_sequential.

Theorem C20_any_schedule_eq_sequential_prepare :
  forall (V Sc : Type) (g : nat -> Sc -> V * Sc) (f : nat -> V),
    (forall i s, fst (g i s) = f i) ->
    forall (zero : V) (threads threads' bits bit_start bit_count : nat) (init : nat -> V)
           (scr0 scr0' : nat -> Sc) (sched sched' : list nat) (o o' : nat -> V),
      prepare_mt V Sc g zero threads bits bit_start bit_count init scr0 sched = Some o ->
      prepare_mt V Sc g zero threads' bits bit_start bit_count init scr0' sched' = Some o' ->
      forall j, o j = o' j.
Proof. exact prepare_any_schedule_eq_sequential. Qed.
Print Assumptions C20_any_schedule_eq_sequential_prepare.

(* ---- closed form of every complete run, including the zero fill outside the active range ---- *)
Theorem C20_tail_zeroed :
  forall (V Sc : Type) (g : nat -> Sc -> V * Sc) (f : nat -> V),
    (forall i s, fst (g i s) = f i) ->
    forall (zero : V) (threads out_len output_size : nat) (init : nat -> V) (scr0 : nat -> Sc)
           (sched : list nat) (o : nat -> V),
      eval_mt V Sc g zero threads out_len output_size init scr0 sched = Some o ->
      1 <= threads /\ 1 <= output_size <= out_len /\
      forall j, o j = if j <? output_size then f j else if j <? out_len then zero else init j.
Proof. exact eval_mt_closed. Qed.
Print Assumptions C20_tail_zeroed.

Theorem C20_tail_zeroed_prepare :
  forall (V Sc : Type) (g : nat -> Sc -> V * Sc) (f : nat -> V),
    (forall i s, fst (g i s) = f i) ->
    forall (zero : V) (threads bits bit_start bit_count : nat) (init : nat -> V) (scr0 : nat -> Sc)
           (sched : list nat) (o : nat -> V),
      prepare_mt V Sc g zero threads bits bit_start bit_count init scr0 sched = Some o ->
      1 <= threads /\ 1 <= bit_count /\ bit_start + bit_count <= bits /\
      forall j, o j = if (bit_start <=? j) && (j <? bit_start + bit_count) then f j
                      else if j <? bits then zero else init j.
Proof. exact prepare_mt_closed. Qed.
Print Assumptions C20_tail_zeroed_prepare.

(* ---- complete executions exist for every thread count under the guard (the statements above are not vacuous) ---- *)
Theorem C20_schedule_exists :
  forall (V Sc : Type) (g : nat -> Sc -> V * Sc) (zero : V) (threads out_len output_size : nat)
         (init : nat -> V) (scr0 : nat -> Sc),
    1 <= threads -> 1 <= output_size <= out_len ->
    exists sched o, eval_mt V Sc g zero threads out_len output_size init scr0 sched = Some o.
Proof. exact eval_schedule_exists. Qed.
Print Assumptions C20_schedule_exists.

Theorem C20_schedule_exists_prepare :
  forall (V Sc : Type) (g : nat -> Sc -> V * Sc) (zero : V) (threads bits bit_start bit_count : nat)
         (init : nat -> V) (scr0 : nat -> Sc),
    1 <= threads -> 1 <= bit_count -> bit_start + bit_count <= bits ->
    exists sched o, prepare_mt V Sc g zero threads bits bit_start bit_count init scr0 sched = Some o.
Proof. exact prepare_schedule_exists. Qed.
Print Assumptions C20_schedule_exists_prepare.

(* ---- the guard: degenerate inputs have no run (the Rust code panics) ---- *)
Theorem C20_degenerate_inputs_panic :
  forall (V Sc : Type) (g : nat -> Sc -> V * Sc) (zero : V) (threads out_len output_size : nat)
         (init : nat -> V) (scr0 : nat -> Sc) (sched : list nat),
    threads = 0 \/ output_size = 0 \/ out_len < output_size ->
    eval_mt V Sc g zero threads out_len output_size init scr0 sched = None.
Proof. exact eval_mt_guard. Qed.
Print Assumptions C20_degenerate_inputs_panic.

Theorem C20_degenerate_inputs_panic_prepare :
  forall (V Sc : Type) (g : nat -> Sc -> V * Sc) (zero : V) (threads bits bit_start bit_count : nat)
         (init : nat -> V) (scr0 : nat -> Sc) (sched : list nat),
    threads = 0 \/ bit_count = 0 \/ bits < bit_start + bit_count ->
    prepare_mt V Sc g zero threads bits bit_start bit_count init scr0 sched = None.
Proof. exact prepare_mt_guard. Qed.
Print Assumptions C20_degenerate_inputs_panic_prepare.

(* ---- no work item is skipped or executed twice; every thread executes exactly its chunk, in program order ---- *)
Theorem C20_each_item_once :
  forall (V Sc : Type) (g : nat -> Sc -> V * Sc) (f : nat -> V),
    (forall i s, fst (g i s) = f i) ->
    forall (threads output_size : nat) (init : nat -> V) (scr0 : nat -> Sc) (sched : list nat) (st : state V Sc),
      run_mt V Sc g (eval_work threads output_size) init scr0 sched = Some st ->
      Permutation (map snd (trace V Sc st)) (map (fun j => (j, j)) (seq 0 output_size)) /\
      NoDup (map snd (trace V Sc st)) /\
      length (trace V Sc st) = output_size /\
      exists cs, chunks output_size threads = Some cs /\
        forall t, map snd (filter (fun e => fst e =? t) (trace V Sc st)) = map (fun j => (j, j)) (nth t cs []).
Proof. exact eval_each_item_once. Qed.
Print Assumptions C20_each_item_once.

Theorem C20_each_item_once_prepare :
  forall (V Sc : Type) (g : nat -> Sc -> V * Sc) (f : nat -> V),
    (forall i s, fst (g i s) = f i) ->
    forall (threads bits bit_start bit_count : nat) (init : nat -> V) (scr0 : nat -> Sc) (sched : list nat)
           (st : state V Sc),
      run_mt V Sc g (prepare_work threads bits bit_start bit_count) init scr0 sched = Some st ->
      Permutation (map snd (trace V Sc st)) (map (fun j => (j, j)) (seq bit_start bit_count)) /\
      NoDup (map snd (trace V Sc st)) /\
      length (trace V Sc st) = bit_count /\
      exists cs, chunks_prepare threads bits bit_start bit_count = Some cs /\
        forall t, map snd (filter (fun e => fst e =? t) (trace V Sc st)) = map (fun j => (j, j)) (nth t cs []).
Proof. exact prepare_each_item_once. Qed.
Print Assumptions C20_each_item_once_prepare.

(* ---- the schedules FORCED on the implementation through the yield hook (harness feature c20hook: a turn-based
        scheduler, policy number + random stream carried by the record, Model forced_sched) are complete executions of the
        small-step system, for EVERY policy number and stream: each forced record is an instance of the schedules
        quantified over by C20_any_schedule_eq_sequential / C20_each_item_once / C20_tail_zeroed ---- *)
Theorem C20_forced_schedule_is_execution :
  forall (V Sc : Type) (g : nat -> Sc -> V * Sc) (policy : Z) (rs : list Z) (w : list (list item))
         (init : nat -> V) (scr0 : nat -> Sc),
    exists st, run_mt V Sc g (Some w) init scr0 (forced_sched policy rs w) = Some st.
Proof. exact forced_sched_complete. Qed.
Print Assumptions C20_forced_schedule_is_execution.

Theorem C20_forced_schedule_eval :
  forall (V Sc : Type) (g : nat -> Sc -> V * Sc) (f : nat -> V),
    (forall i s, fst (g i s) = f i) ->
    forall (zero : V) (policy : Z) (rs : list Z) (threads out_len output_size : nat) (init : nat -> V) (scr0 : nat -> Sc),
      1 <= threads -> 1 <= output_size <= out_len ->
      exists w st o,
        eval_work threads output_size = Some w /\
        run_mt V Sc g (Some w) init scr0 (forced_sched policy rs w) = Some st /\
        eval_mt V Sc g zero threads out_len output_size init scr0 (forced_sched policy rs w) = Some o /\
        forall j, o j = if j <? output_size then f j else if j <? out_len then zero else init j.
Proof. exact eval_forced. Qed.
Print Assumptions C20_forced_schedule_eval.

Theorem C20_forced_schedule_prepare :
  forall (V Sc : Type) (g : nat -> Sc -> V * Sc) (f : nat -> V),
    (forall i s, fst (g i s) = f i) ->
    forall (zero : V) (policy : Z) (rs : list Z) (threads bits bit_start bit_count : nat) (init : nat -> V) (scr0 : nat -> Sc),
      1 <= threads -> 1 <= bit_count -> bit_start + bit_count <= bits ->
      exists w st o,
        prepare_work threads bits bit_start bit_count = Some w /\
        run_mt V Sc g (Some w) init scr0 (forced_sched policy rs w) = Some st /\
        prepare_mt V Sc g zero threads bits bit_start bit_count init scr0 (forced_sched policy rs w) = Some o /\
        forall j, o j = if (bit_start <=? j) && (j <? bit_start + bit_count) then f j
                        else if j <? bits then zero else init j.
Proof. exact prepare_forced. Qed.
Print Assumptions C20_forced_schedule_prepare.

(* ---- a module, prepared keys and read-only ciphertexts shared by several threads: they are immutable DATA (part of g,
        never of the state).  Any threads, any lists of calls (slot, idx) — idx = the complete per-call argument tuple
        (input, log_domain, extension factor, output layout, mode ...) — pairwise distinct output slots, private scratch:
        every complete interleaving leaves in each slot what the same call yields alone ---- *)
Theorem C20_shared_calls_eq_solo :
  forall (V Sc : Type) (g : nat -> Sc -> V * Sc) (f : nat -> V),
    (forall i s, fst (g i s) = f i) ->
    forall (w : list (list item)) (init : nat -> V) (scr0 : nat -> Sc) (sched : list nat) (st : state V Sc),
      NoDup (map fst (concat w)) ->
      run_mt V Sc g (Some w) init scr0 sched = Some st ->
      forall slot idx, In (slot, idx) (concat w) ->
      forall (init' : nat -> V) (scr0' : nat -> Sc) (sched' : list nat) (st' : state V Sc),
        run_mt V Sc g (Some [[(slot, idx)]]) init' scr0' sched' = Some st' ->
        outs V Sc st slot = outs V Sc st' slot.
Proof. exact shared_calls_eq_solo. Qed.
Print Assumptions C20_shared_calls_eq_solo.

Theorem C20_shared_calls_closed :
  forall (V Sc : Type) (g : nat -> Sc -> V * Sc) (f : nat -> V),
    (forall i s, fst (g i s) = f i) ->
    forall (w : list (list item)) (init : nat -> V) (scr0 : nat -> Sc) (sched : list nat) (st : state V Sc),
      NoDup (map fst (concat w)) ->
      run_mt V Sc g (Some w) init scr0 sched = Some st ->
      (forall slot idx, In (slot, idx) (concat w) -> outs V Sc st slot = f idx) /\
      (forall j, ~ In j (map fst (concat w)) -> outs V Sc st j = init j).
Proof. exact shared_calls_closed. Qed.
Print Assumptions C20_shared_calls_closed.

(* ---- the hypotheses are satisfiable: concrete non-trivial instances ---- *)
(* threads does not divide items *)
Example C20_ex_chunks_32_5 :
  chunks 32 5 = Some [seq 0 7; seq 7 7; seq 14 7; seq 21 7; seq 28 4].
Proof. vm_compute. reflexivity. Qed.
(* fewer chunks than threads: 12 threads requested, 11 chunks of 3 (last of 2): one scratch window stays idle *)
Example C20_ex_chunks_32_12 :
  option_map (@length (list nat)) (chunks 32 12) = Some 11.
Proof. vm_compute. reflexivity. Qed.
(* threads exceed the items *)
Example C20_ex_chunks_3_8 : chunks 3 8 = Some [[0]; [1]; [2]].
Proof. vm_compute. reflexivity. Qed.
Example C20_ex_prepare_5_7_3 : chunks_prepare 3 32 5 7 = Some [[5; 6; 7]; [8; 9; 10]; [11]].
Proof. vm_compute. reflexivity. Qed.
(* the guards are tight *)
Example C20_ex_guard : chunks 0 4 = None /\ chunks 4 0 = None /\ chunks_prepare 2 32 30 3 = None /\ chunks_prepare 2 32 4 0 = None.
Proof. vm_compute. repeat split; reflexivity. Qed.
(* a complete run with scratch-dependent scratch updates but scratch-independent results, two different schedules *)
Example C20_ex_run :
  let g := fun (i : nat) (s : nat) => (Z.of_nat (i * i), s + i + 1) in
  exists o o',
    eval_mt Z nat g 0%Z 3 7 5 (fun _ => (-7)%Z) (fun t => t) [0; 1; 2; 0; 1] = Some o /\
    eval_mt Z nat g 0%Z 2 7 5 (fun _ => (-7)%Z) (fun t => 9 * t) [1; 1; 0; 0; 0] = Some o' /\
    map o (seq 0 8) = [0; 1; 4; 9; 16; 0; 0; -7]%Z /\ map o' (seq 0 8) = map o (seq 0 8).
Proof. eexists _, _. vm_compute. repeat split; reflexivity. Qed.
Example C20_ex_hyp_g : forall i s : nat, fst ((fun (i : nat) (s : nat) => (Z.of_nat (i * i), s + i + 1)) i s) = Z.of_nat (i * i).
Proof. reflexivity. Qed.
Example C20_ex_split :
  split_mut 5 1000 3 (200)%Z = Some ([(64, 200); (320, 200); (576, 200)], (776, 229))%Z.
Proof. vm_compute. reflexivity. Qed.
(* the alignment constant of the model is the one in /repo/poulpy-hal/src/lib.rs (regenerated on every run) *)
Example C20_ex_align_matches_source : DEFAULTALIGN = DEFAULTALIGN_src.
Proof. reflexivity. Qed.
(* the eight policies on 7 items / 3 workers (chunks [0,1,2] [3,4,5] [6]) with one random stream: eight different schedules *)
Example C20_ex_forced :
  option_map (fun w => map (fun pol => forced_sched pol [5; 12; 7; 3; 9; 22; 13]%Z w) [0; 1; 2; 3; 4; 5; 6; 7]%Z) (eval_work 3 7)
  = Some [[0; 0; 0; 1; 1; 1; 2]; [2; 1; 1; 1; 0; 0; 0]; [0; 1; 2; 0; 1; 0; 1]; [2; 1; 0; 1; 0; 1; 0];
          [2; 0; 0; 0; 1; 1; 1]; [2; 0; 1; 1; 1; 0; 0]; [2; 0; 1; 0; 1; 0; 1]; [1; 0; 0; 0; 1; 1; 2]].
Proof. vm_compute. reflexivity. Qed.
(* two threads, different per-call parameters (codes 0 and 1) on shared immutable data, two interleavings, vs alone *)
Example C20_ex_shared :
  let g := fun (i : nat) (s : nat) => (Z.of_nat (7 * i + 3), s + 1) in
  exists st st' a b,
    run_mt Z nat g (Some [[(0, 0); (2, 0)]; [(1, 1)]]) (fun _ => (-7)%Z) (fun t => t) [1; 0; 0] = Some st /\
    run_mt Z nat g (Some [[(0, 0); (2, 0)]; [(1, 1)]]) (fun _ => (-7)%Z) (fun t => t) [0; 0; 1] = Some st' /\
    run_mt Z nat g (Some [[(1, 1)]]) (fun _ => 0%Z) (fun t => 5) [0] = Some a /\
    run_mt Z nat g (Some [[(0, 0)]]) (fun _ => 0%Z) (fun t => 9) [0] = Some b /\
    outs Z nat st 1 = outs Z nat a 1 /\ outs Z nat st' 1 = outs Z nat a 1 /\ outs Z nat st 0 = outs Z nat b 0.
Proof. eexists _, _, _, _. vm_compute. repeat split; reflexivity. Qed.
