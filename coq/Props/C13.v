(* C13 — compiled BDD circuits compute their 32-bit word functions for all inputs.
   This file holds only pinned statements, `exact` proofs, Print Assumptions and Examples.

   Reading guide
   * [eval_stale]  (Model/C13Bdd.v) is the evaluator of poulpy-bin-fhe/src/bdd_arithmetic/eval.rs as it is: two
     buffers of max_inter_state slots, initial state [0,1,0,...], levels = chunks of max_inter_state nodes,
     Node::None leaves whatever the buffer held two levels ago, the result is the Cmux at the head of the last chunk.
   * [eval_strict] is the same evaluator where a slot not written by the previous level is *undefined* and reading
     it, an out-of-range slot or an input bit >= INPUT_BITS is an error.
   * [circuit_<op> i] is output bit i of the table generated from <op>_codegen.rs on this run
     (Gen/C13Circuits_gen.v); for i >= OUTPUT_BITS (slt, sltu: i >= 1) it is the empty circuit, which the
     evaluator answers with zero.
   * [env_of a b] puts a on input bits [0,32) and b on [32,64) (FheUintHelper::get_bit). *)
From Coq Require Import ZArith List Bool Arith Lia.
From PV Require Import Model.C13Bdd Gen.C13Circuits_gen
  Proofs.C13Eval Proofs.C13Check Proofs.C13Spec Proofs.C13Circuits.
Import ListNotations.
Open Scope Z_scope.

(** * The two evaluators and the checker *)

Theorem C13_eval_strict_refines : forall (c : circuit) (e : env) (v : bool),
  eval_strict c e = Some v -> eval_stale c e = v.
Proof. exact eval_strict_refines. Qed.
Print Assumptions C13_eval_strict_refines.

Theorem C13_check_sound : forall (A : automaton) (hint : list nat) (c : circuit),
  automaton_ok A -> check A hint c = true -> forall e, eval_strict c e = Some (run A e).
Proof. exact check_sound. Qed.
Print Assumptions C13_check_sound.

(** * The specification automata compute the RISC-V word operations (all a, b, all i < 32) *)

Theorem C13_spec_add_correct : forall a b i, (i < 32)%nat ->
  run (A_add i) (env_of a b) = Z.testbit ((a + b) mod 2 ^ 32) (Z.of_nat i).
Proof. exact spec_add_correct. Qed.
Print Assumptions C13_spec_add_correct.

Theorem C13_spec_sub_correct : forall a b i, (i < 32)%nat ->
  run (A_sub i) (env_of a b) = Z.testbit ((a - b) mod 2 ^ 32) (Z.of_nat i).
Proof. exact spec_sub_correct. Qed.
Print Assumptions C13_spec_sub_correct.

Theorem C13_spec_sll_correct : forall a b i, 0 <= b -> (i < 32)%nat ->
  run (A_sll i) (env_of a b) = Z.testbit (Z.shiftl a (Z.land b 31) mod 2 ^ 32) (Z.of_nat i).
Proof. exact spec_sll_correct. Qed.
Print Assumptions C13_spec_sll_correct.

Theorem C13_spec_srl_correct : forall a b i, 0 <= a < 2 ^ 32 -> 0 <= b -> (i < 32)%nat ->
  run (A_srl i) (env_of a b) = Z.testbit (Z.shiftr a (Z.land b 31)) (Z.of_nat i).
Proof. exact spec_srl_correct. Qed.
Print Assumptions C13_spec_srl_correct.

Theorem C13_spec_sra_correct : forall a b i, 0 <= a < 2 ^ 32 -> 0 <= b -> (i < 32)%nat ->
  run (A_sra i) (env_of a b) = Z.testbit (Z.shiftr (sgn32 a) (Z.land b 31) mod 2 ^ 32) (Z.of_nat i).
Proof. exact spec_sra_correct. Qed.
Print Assumptions C13_spec_sra_correct.

Theorem C13_spec_slt_correct : forall a b i, 0 <= a < 2 ^ 32 -> 0 <= b < 2 ^ 32 -> (i < 32)%nat ->
  run (A_slt i) (env_of a b) = Z.testbit (if sgn32 a <? sgn32 b then 1 else 0) (Z.of_nat i).
Proof. exact spec_slt_correct. Qed.
Print Assumptions C13_spec_slt_correct.

Theorem C13_spec_sltu_correct : forall a b i, 0 <= a < 2 ^ 32 -> 0 <= b < 2 ^ 32 -> (i < 32)%nat ->
  run (A_sltu i) (env_of a b) = Z.testbit (if a <? b then 1 else 0) (Z.of_nat i).
Proof. exact spec_sltu_correct. Qed.
Print Assumptions C13_spec_sltu_correct.

Theorem C13_spec_and_correct : forall a b i, (i < 32)%nat ->
  run (A_and i) (env_of a b) = Z.testbit (Z.land a b) (Z.of_nat i).
Proof. exact spec_and_correct. Qed.
Print Assumptions C13_spec_and_correct.

Theorem C13_spec_or_correct : forall a b i, (i < 32)%nat ->
  run (A_or i) (env_of a b) = Z.testbit (Z.lor a b) (Z.of_nat i).
Proof. exact spec_or_correct. Qed.
Print Assumptions C13_spec_or_correct.

Theorem C13_spec_xor_correct : forall a b i, (i < 32)%nat ->
  run (A_xor i) (env_of a b) = Z.testbit (Z.lxor a b) (Z.of_nat i).
Proof. exact spec_xor_correct. Qed.
Print Assumptions C13_spec_xor_correct.

Theorem C13_spec_identity_correct : forall a b i, (i < 32)%nat ->
  run (A_identity i) (env_of a b) = Z.testbit a (Z.of_nat i).
Proof. exact spec_identity_correct. Qed.
Print Assumptions C13_spec_identity_correct.

(** * Every compiled circuit computes its word operation on all 2^64 input pairs *)

Theorem C13_circuit_add_correct : forall a b, 0 <= a < 2 ^ 32 -> 0 <= b < 2 ^ 32 -> forall i, (i < 32)%nat ->
  eval_stale (circuit_add i) (env_of a b) = Z.testbit (op_add a b) (Z.of_nat i).
Proof. exact circuit_add_correct. Qed.
Print Assumptions C13_circuit_add_correct.

Theorem C13_circuit_sub_correct : forall a b, 0 <= a < 2 ^ 32 -> 0 <= b < 2 ^ 32 -> forall i, (i < 32)%nat ->
  eval_stale (circuit_sub i) (env_of a b) = Z.testbit (op_sub a b) (Z.of_nat i).
Proof. exact circuit_sub_correct. Qed.
Print Assumptions C13_circuit_sub_correct.

Theorem C13_circuit_sll_correct : forall a b, 0 <= a < 2 ^ 32 -> 0 <= b < 2 ^ 32 -> forall i, (i < 32)%nat ->
  eval_stale (circuit_sll i) (env_of a b) = Z.testbit (op_sll a b) (Z.of_nat i).
Proof. exact circuit_sll_correct. Qed.
Print Assumptions C13_circuit_sll_correct.

Theorem C13_circuit_srl_correct : forall a b, 0 <= a < 2 ^ 32 -> 0 <= b < 2 ^ 32 -> forall i, (i < 32)%nat ->
  eval_stale (circuit_srl i) (env_of a b) = Z.testbit (op_srl a b) (Z.of_nat i).
Proof. exact circuit_srl_correct. Qed.
Print Assumptions C13_circuit_srl_correct.

Theorem C13_circuit_sra_correct : forall a b, 0 <= a < 2 ^ 32 -> 0 <= b < 2 ^ 32 -> forall i, (i < 32)%nat ->
  eval_stale (circuit_sra i) (env_of a b) = Z.testbit (op_sra a b) (Z.of_nat i).
Proof. exact circuit_sra_correct. Qed.
Print Assumptions C13_circuit_sra_correct.

Theorem C13_circuit_slt_correct : forall a b, 0 <= a < 2 ^ 32 -> 0 <= b < 2 ^ 32 -> forall i, (i < 32)%nat ->
  eval_stale (circuit_slt i) (env_of a b) = Z.testbit (op_slt a b) (Z.of_nat i).
Proof. exact circuit_slt_correct. Qed.
Print Assumptions C13_circuit_slt_correct.

Theorem C13_circuit_sltu_correct : forall a b, 0 <= a < 2 ^ 32 -> 0 <= b < 2 ^ 32 -> forall i, (i < 32)%nat ->
  eval_stale (circuit_sltu i) (env_of a b) = Z.testbit (op_sltu a b) (Z.of_nat i).
Proof. exact circuit_sltu_correct. Qed.
Print Assumptions C13_circuit_sltu_correct.

Theorem C13_circuit_and_correct : forall a b, 0 <= a < 2 ^ 32 -> 0 <= b < 2 ^ 32 -> forall i, (i < 32)%nat ->
  eval_stale (circuit_and i) (env_of a b) = Z.testbit (op_and a b) (Z.of_nat i).
Proof. exact circuit_and_correct. Qed.
Print Assumptions C13_circuit_and_correct.

Theorem C13_circuit_or_correct : forall a b, 0 <= a < 2 ^ 32 -> 0 <= b < 2 ^ 32 -> forall i, (i < 32)%nat ->
  eval_stale (circuit_or i) (env_of a b) = Z.testbit (op_or a b) (Z.of_nat i).
Proof. exact circuit_or_correct. Qed.
Print Assumptions C13_circuit_or_correct.

Theorem C13_circuit_xor_correct : forall a b, 0 <= a < 2 ^ 32 -> 0 <= b < 2 ^ 32 -> forall i, (i < 32)%nat ->
  eval_stale (circuit_xor i) (env_of a b) = Z.testbit (op_xor a b) (Z.of_nat i).
Proof. exact circuit_xor_correct. Qed.
Print Assumptions C13_circuit_xor_correct.

Theorem C13_circuit_identity_correct : forall a b, 0 <= a < 2 ^ 32 -> 0 <= b < 2 ^ 32 -> forall i, (i < 32)%nat ->
  eval_stale (circuit_identity i) (env_of a b) = Z.testbit (op_identity a b) (Z.of_nat i).
Proof. exact circuit_identity_correct. Qed.
Print Assumptions C13_circuit_identity_correct.

(** * Well-formedness: indices in range, length a multiple of the width, declared width covers every level,
      last chunk [Cmux; None...], no level reads a slot the previous level left undefined
      (definitions [WellFormed], [FamilyWellFormed] in Proofs/C13Circuits.v) *)

Theorem C13_wellformed_add : FamilyWellFormed add_nin add_nout 64 add_tab.
Proof. exact wellformed_add. Qed.
Print Assumptions C13_wellformed_add.
Theorem C13_wellformed_sub : FamilyWellFormed sub_nin sub_nout 64 sub_tab.
Proof. exact wellformed_sub. Qed.
Print Assumptions C13_wellformed_sub.
Theorem C13_wellformed_sll : FamilyWellFormed sll_nin sll_nout 64 sll_tab.
Proof. exact wellformed_sll. Qed.
Print Assumptions C13_wellformed_sll.
Theorem C13_wellformed_srl : FamilyWellFormed srl_nin srl_nout 64 srl_tab.
Proof. exact wellformed_srl. Qed.
Print Assumptions C13_wellformed_srl.
Theorem C13_wellformed_sra : FamilyWellFormed sra_nin sra_nout 64 sra_tab.
Proof. exact wellformed_sra. Qed.
Print Assumptions C13_wellformed_sra.
Theorem C13_wellformed_slt : FamilyWellFormed slt_nin slt_nout 64 slt_tab.
Proof. exact wellformed_slt. Qed.
Print Assumptions C13_wellformed_slt.
Theorem C13_wellformed_sltu : FamilyWellFormed sltu_nin sltu_nout 64 sltu_tab.
Proof. exact wellformed_sltu. Qed.
Print Assumptions C13_wellformed_sltu.
Theorem C13_wellformed_and : FamilyWellFormed and_nin and_nout 64 and_tab.
Proof. exact wellformed_and. Qed.
Print Assumptions C13_wellformed_and.
Theorem C13_wellformed_or : FamilyWellFormed or_nin or_nout 64 or_tab.
Proof. exact wellformed_or. Qed.
Print Assumptions C13_wellformed_or.
Theorem C13_wellformed_xor : FamilyWellFormed xor_nin xor_nout 64 xor_tab.
Proof. exact wellformed_xor. Qed.
Print Assumptions C13_wellformed_xor.
Theorem C13_wellformed_identity : FamilyWellFormed identity_nin identity_nout 32 identity_tab.
Proof. exact wellformed_identity. Qed.
Print Assumptions C13_wellformed_identity.

(** * The hypotheses are satisfiable / the statements are not vacuous *)

Example C13_ex_add : map (fun i => eval_stale (circuit_add i) (env_of 4000000000 500000000)) [0; 5; 31]%nat
                     = map (fun i => Z.testbit ((4000000000 + 500000000) mod 2 ^ 32) i) [0; 5; 31].
Proof. vm_compute. reflexivity. Qed.
Example C13_ex_sra : map (fun i => eval_stale (circuit_sra i) (env_of 2147483648 7)) [23; 24; 25; 31]%nat
                     = [false; true; true; true].
Proof. vm_compute. reflexivity. Qed.
Example C13_ex_slt : eval_stale (circuit_slt 0) (env_of 4294967295 1) = true /\
                     eval_stale (circuit_sltu 0) (env_of 4294967295 1) = false /\
                     circuit_slt 1 = empty_circuit.
Proof. vm_compute. auto. Qed.
(* a table where a Nonode slot is read: the strict evaluator rejects it although the real one returns a value *)
Example C13_ex_strict_rejects :
  let c := mkC 64 2 [Nonode; Copy; Cmux 0 0 1; Nonode] in
  eval_strict c (env_of 1 0) = None /\ eval_stale c (env_of 1 0) = false /\ wf c = false.
Proof. vm_compute. auto. Qed.
