(* C08 — limb representation: normalisation, shifts and integer encoding are exact.
   This file holds only pinned statements, `exact` proofs and Print Assumptions. *)
From PV Require Import Base.MachineInt Model.Znx Proofs.ZnxDigit.
Open Scope Z_scope.

Theorem C08_digit_spec : forall w b x : Z, 1 <= b <= w -> get_digit w b x = wrap b x.
Proof. exact digit_spec. Qed.
Print Assumptions C08_digit_spec.

Theorem C08_digit_range : forall w b x : Z, 1 <= b <= w -> in_range b (get_digit w b x).
Proof. exact digit_range. Qed.
Print Assumptions C08_digit_range.

Theorem C08_carry_spec : forall w b x : Z, 1 <= b <= w -> in_range w (x - get_digit w b x) ->
  get_carry w b x (get_digit w b x) * 2 ^ b + get_digit w b x = x.
Proof. exact carry_spec. Qed.
Print Assumptions C08_carry_spec.

Theorem C08_carry_no_overflow : forall w b x : Z, 1 <= b < w -> in_range w x ->
  x < 2 ^ (w - 1) - 2 ^ (b - 1) -> in_range w (x - get_digit w b x).
Proof. exact carry_no_overflow. Qed.
Print Assumptions C08_carry_no_overflow.

Theorem C08_carry_wraps_refuted : exists x, in_range 64 x /\
    get_carry 64 2 x (get_digit 64 2 x) * 2 ^ 2 + get_digit 64 2 x <> x.
Proof. exact carry_wraps_refuted. Qed.
Print Assumptions C08_carry_wraps_refuted.
