(* C08 — limb representation: normalisation, shifts and integer encoding are exact.
   This file holds only pinned statements, `exact` proofs and Print Assumptions. *)
From PV Require Import Base.MachineInt Model.Znx Model.Limbs Model.C08Oracle Proofs.ZnxDigit Proofs.C08Steps
  Proofs.C08Chain Proofs.C08Loops Proofs.C08Value Proofs.C08Normalize Proofs.C08Shift Proofs.C08Rsh
  Proofs.C08ShiftValue Proofs.C08RshValue Proofs.C08CoeffOk Proofs.C08Cross Proofs.C08CrossTheorem
  Proofs.C08CoeffOkCross.
Open Scope Z_scope.

Theorem C08_digit_spec : forall w b x : Z, 1 <= b <= w -> get_digit w b x = wrap b x.
Proof. exact digit_spec. Qed.
Print Assumptions C08_digit_spec.

Theorem C08_digit_range : forall w b x : Z, 1 <= b <= w -> in_range b (get_digit w b x).
Proof. exact digit_range. Qed.
Print Assumptions C08_digit_range.

Theorem C08_carry_spec : forall w b x : Z, 1 <= b <= w -> in_range w (x - get_digit w b x) ->
  get_carry w b x (get_digit w b x) * 2 ^ b + get_digit w b x = x.
Proof. exact carry_spec. Qed.
Print Assumptions C08_carry_spec.

Theorem C08_carry_no_overflow : forall w b x : Z, 1 <= b < w -> in_range w x ->
  x < 2 ^ (w - 1) - 2 ^ (b - 1) -> in_range w (x - get_digit w b x).
Proof. exact carry_no_overflow. Qed.
Print Assumptions C08_carry_no_overflow.

Theorem C08_carry_wraps_refuted : exists x, in_range 64 x /\
    get_carry 64 2 x (get_digit 64 2 x) * 2 ^ 2 + get_digit 64 2 x <> x.
Proof. exact carry_wraps_refuted. Qed.
Print Assumptions C08_carry_wraps_refuted.

(* ---------------- step kernels (any word width w, radix 1 <= b <= w - 2, 0 <= lsh < b) ---------------- *)
(* `bdiv b v` = (v + 2^(b-1)) / 2^b is the rounded quotient of the balanced division of v by 2^b *)

Theorem C08_balanced_division : forall b v : Z, 1 <= b ->
  wrap b v + 2 ^ b * bdiv b v = v /\ in_range b (wrap b v).
Proof. intros b v Hb; split; [apply wrap_bdiv; auto|apply wrap_range; auto]. Qed.
Print Assumptions C08_balanced_division.

(* closed form of the middle step: no wrap happens, digit and carry are those of the balanced division *)
Theorem C08_middle_core_ideal : forall w b lsh : Z, 1 <= b <= w - 2 -> 0 <= lsh < b ->
  forall a c : Z, Z.abs a <= 2 ^ (w - 2) -> Z.abs c <= 2 ^ (w - 2) ->
  middle_core w b lsh a c = (wrap b (a * 2 ^ lsh + c), bdiv b (a * 2 ^ lsh + c)).
Proof. exact middle_core_ideal. Qed.
Print Assumptions C08_middle_core_ideal.

Theorem C08_middle_core_spec : forall w b lsh : Z, 1 <= b <= w - 2 -> 0 <= lsh < b ->
  forall a c : Z, Z.abs a <= 2 ^ (w - 2) -> Z.abs c <= 2 ^ (w - 2) ->
  let '(x, c') := middle_core w b lsh a c in
  a * 2 ^ lsh + c = x + 2 ^ b * c' /\ in_range b x /\
  Z.abs c' * 2 ^ b <= Z.abs a * 2 ^ lsh + Z.abs c + 2 ^ (b - 1) /\ Z.abs c' <= 2 ^ (w - 2).
Proof. exact middle_core_spec. Qed.
Print Assumptions C08_middle_core_spec.

Example C08_middle_core_spec_ex :
  let '(x, c') := middle_core 64 17 5 (2 ^ 62) (- 2 ^ 62) in
  2 ^ 62 * 2 ^ 5 + (- 2 ^ 62) = x + 2 ^ 17 * c' /\ in_range 17 x /\
  Z.abs c' * 2 ^ 17 <= Z.abs (2 ^ 62) * 2 ^ 5 + Z.abs (- 2 ^ 62) + 2 ^ (17 - 1) /\ Z.abs c' <= 2 ^ (64 - 2).
Proof. apply (C08_middle_core_spec 64 17 5); cbn; lia. Qed.

Theorem C08_middle_step_ideal : forall w b lsh : Z, 1 <= b <= w - 2 -> 0 <= lsh < b ->
  forall (ov : bool) (x a c : Z), Z.abs a <= 2 ^ (w - 2) -> Z.abs c <= 2 ^ (w - 2) ->
  (ov = false -> Z.abs x <= 2 ^ (w - 2)) ->
  middle_step w ov b lsh x a c =
    ((if ov then 0 else x) + wrap b (a * 2 ^ lsh + c), bdiv b (a * 2 ^ lsh + c)).
Proof. exact middle_step_ideal. Qed.
Print Assumptions C08_middle_step_ideal.

Theorem C08_middle_step_sub_ideal : forall w b lsh : Z, 1 <= b <= w - 2 -> 0 <= lsh < b ->
  forall x a c : Z, Z.abs a <= 2 ^ (w - 2) -> Z.abs c <= 2 ^ (w - 2) -> Z.abs x <= 2 ^ (w - 2) ->
  middle_step_sub w b lsh x a c = (x - wrap b (a * 2 ^ lsh + c), bdiv b (a * 2 ^ lsh + c)).
Proof. exact middle_step_sub_ideal. Qed.
Print Assumptions C08_middle_step_sub_ideal.

Theorem C08_first_step_assign_spec : forall w b lsh : Z, 1 <= b <= w - 2 -> 0 <= lsh < b ->
  forall a : Z, Z.abs a <= 2 ^ (w - 2) ->
  let '(x, c') := first_step_assign w b lsh a in
  a * 2 ^ lsh = x + 2 ^ b * c' /\ in_range b x /\
  Z.abs c' * 2 ^ b <= Z.abs a * 2 ^ lsh + 2 ^ (b - 1) /\ Z.abs c' <= 2 ^ (w - 2).
Proof. exact first_step_assign_spec. Qed.
Print Assumptions C08_first_step_assign_spec.

Example C08_first_step_assign_spec_ex :
  let '(x, c') := first_step_assign 64 12 11 (- 2 ^ 62) in
  (- 2 ^ 62) * 2 ^ 11 = x + 2 ^ 12 * c' /\ in_range 12 x /\
  Z.abs c' * 2 ^ 12 <= Z.abs (- 2 ^ 62) * 2 ^ 11 + 2 ^ (12 - 1) /\ Z.abs c' <= 2 ^ (64 - 2).
Proof. apply (C08_first_step_assign_spec 64 12 11); cbn; lia. Qed.

Theorem C08_first_step_spec : forall w b lsh : Z, 1 <= b <= w - 2 -> 0 <= lsh < b ->
  forall (ov : bool) (x a : Z), Z.abs a <= 2 ^ (w - 2) -> (ov = false -> Z.abs x <= 2 ^ (w - 2)) ->
  let '(x', c') := first_step w ov b lsh x a in
  exists d, x' = (if ov then 0 else x) + d /\
  a * 2 ^ lsh = d + 2 ^ b * c' /\ in_range b d /\
  Z.abs c' * 2 ^ b <= Z.abs a * 2 ^ lsh + 2 ^ (b - 1) /\ Z.abs c' <= 2 ^ (w - 2).
Proof. exact first_step_spec. Qed.
Print Assumptions C08_first_step_spec.

Theorem C08_first_step_carry_only_spec : forall w b lsh : Z, 1 <= b <= w - 2 -> 0 <= lsh < b ->
  forall a : Z, Z.abs a <= 2 ^ (w - 2) ->
  first_step_carry_only w b lsh a = snd (first_step_assign w b lsh a).
Proof. exact first_step_carry_only_spec. Qed.
Print Assumptions C08_first_step_carry_only_spec.

(* the first step is a middle step with carry 0; the final step is the digit of a middle step *)
Theorem C08_first_is_middle : forall w b lsh : Z, 1 <= b <= w - 2 -> 0 <= lsh < b ->
  forall a : Z, Z.abs a <= 2 ^ (w - 2) -> first_step_assign w b lsh a = middle_core w b lsh a 0.
Proof. exact first_is_middle. Qed.
Print Assumptions C08_first_is_middle.

Theorem C08_final_core_spec : forall w b lsh : Z, 1 <= b <= w - 2 -> 0 <= lsh < b ->
  forall a c : Z, Z.abs a <= 2 ^ (w - 2) -> Z.abs c <= 2 ^ (w - 2) ->
  let x := final_core w b lsh a c in
  (a * 2 ^ lsh + c - x) mod 2 ^ b = 0 /\ in_range b x.
Proof. exact final_core_spec. Qed.
Print Assumptions C08_final_core_spec.

Example C08_final_core_spec_ex :
  let x := final_core 64 62 61 (2 ^ 62 - 1) (2 ^ 62) in
  ((2 ^ 62 - 1) * 2 ^ 61 + 2 ^ 62 - x) mod 2 ^ 62 = 0 /\ in_range 62 x.
Proof. apply (C08_final_core_spec 64 62 61); cbn; lia. Qed.

Theorem C08_final_is_middle : forall w b lsh : Z, 1 <= b <= w - 2 -> 0 <= lsh < b ->
  forall a c : Z, Z.abs a <= 2 ^ (w - 2) -> Z.abs c <= 2 ^ (w - 2) ->
  final_core w b lsh a c = fst (middle_core w b lsh a c).
Proof. exact final_is_middle. Qed.
Print Assumptions C08_final_is_middle.

Theorem C08_extract_digit_addmul_spec : forall w b lsh r s : Z, 1 <= b <= w - 2 -> 0 <= lsh ->
  Z.abs s <= 2 ^ (w - 2) -> in_range w (r + wrap b s * 2 ^ lsh) -> in_range w (wrap b s * 2 ^ lsh) ->
  let '(r', s') := extract_digit_addmul w b lsh r s in
  exists d, in_range b d /\ s = d + 2 ^ b * s' /\ r' = r + d * 2 ^ lsh /\
            Z.abs s' * 2 ^ b <= Z.abs s + 2 ^ (b - 1).
Proof. exact extract_digit_addmul_spec. Qed.
Print Assumptions C08_extract_digit_addmul_spec.

Theorem C08_normalize_digit_spec : forall w b r s : Z, 1 <= b <= w - 2 ->
  Z.abs r <= 2 ^ (w - 2) -> in_range w (s + bdiv b r) ->
  let '(r', s') := normalize_digit w b r s in
  in_range b r' /\ r + 2 ^ b * s = r' + 2 ^ b * s' /\ s' = s + bdiv b r.
Proof. exact normalize_digit_spec. Qed.
Print Assumptions C08_normalize_digit_spec.

(* carries stay within the headroom along any chain of steps: `car b v c0 j` is the carry after j steps
   over the (already shifted) inputs v 0, v 1, ... starting from c0 *)
Theorem C08_carry_chain_headroom : forall b : Z, 1 <= b -> forall (H : Z) (v : nat -> Z) (c0 : Z) (j : nat),
  0 <= H -> (forall t, (t < j)%nat -> Z.abs (v t) <= H * 2 ^ (b - 1)) -> Z.abs c0 <= H ->
  Z.abs (car b v c0 j) <= H.
Proof. exact car_bound. Qed.
Print Assumptions C08_carry_chain_headroom.

(* a carry within 2^62 propagated through zero limbs is stationary after 64 steps *)
Theorem C08_gap_saturates : forall b : Z, 1 <= b -> forall (c : Z) (g : nat), Z.abs c <= 2 ^ 62 ->
  car b zseq c (Nat.min g 64) = car b zseq c g.
Proof. exact car_zseq_sat. Qed.
Print Assumptions C08_gap_saturates.

(* ---------------- same-radix normalisation with any signed bit offset (per coefficient, w = 64) ---------------- *)
(* `dgz b (vin a lsh) t` = digit of position t of the balanced radix-2^b expansion of the integer
   sum_j a_j 2^lsh 2^((|a|-1-j) b)  (0 for t < 0) *)

(* closed form: the output is a window of the balanced expansion of the (un-normalised) input *)
Theorem C08_normalize_inter_nth : forall b : Z, 1 <= b <= 62 -> forall (off : Z) (a r0 : list Z),
  hrl a ->
  let out := normalize_inter 64 b off a r0 in
  length out = length r0 /\
  forall i, (i < length r0)%nat ->
    nthZ out i = dgz b (vin a (off mod b)) (zn (length a) - off / b - 1 - zn i).
Proof. exact normalize_inter_nth. Qed.
Print Assumptions C08_normalize_inter_nth.

Theorem C08_normalize_inter_value : forall b : Z, 1 <= b <= 62 -> forall (off : Z) (a r0 : list Z),
  Forall (fun x => Z.abs x <= 2 ^ 62) a ->
  let out := normalize_inter 64 b off a r0 in
  length out = length r0 /\
  Forall (in_range b) out /\
  out = normalize_inter 64 b off a (zeros (length r0)) /\
  forall P, zn (length r0) * b + zn (length a) * b + Z.abs off <= P ->
    let D := tor_abs P (val_scaled P b out - val_scaled (P + off) b a) in
    D <= 2 ^ (P - zn (length r0) * b) /\
    (zn (length a) * b - off <= zn (length r0) * b -> D = 0).
Proof. exact normalize_inter_value. Qed.
Print Assumptions C08_normalize_inter_value.

Example C08_normalize_inter_value_ex :
  let a := [2 ^ 62; -5; 123456789012; - 2 ^ 62] in
  let out := normalize_inter 64 12 (-17) a [7; 7] in
  tor_abs 100 (val_scaled 100 12 out - val_scaled (100 + -17) 12 a) <= 2 ^ (100 - 2 * 12).
Proof.
  intros a out.
  destruct (C08_normalize_inter_value 12 ltac:(lia) (-17) a [7; 7]) as (_ & _ & _ & HV).
  - repeat constructor; cbn; lia.
  - apply (HV 100). cbn. lia.
Qed.

(* ---------------- in-place normalisation and the shift family (per coefficient, w = 64) ---------------- *)
(* hr62 l := Forall (fun x => |x| <= 2^62) l : inputs need not be normalised *)

Theorem C08_normalize_assign_value : forall b : Z, 1 <= b <= 62 -> forall r0 : list Z, hr62 r0 ->
  let out := normalize_assign 64 b r0 in
  length out = length r0 /\ Forall (in_range b) out /\
  forall P, 2 * zn (length r0) * b <= P -> tor_abs P (val_scaled P b out - val_scaled P b r0) = 0.
Proof. exact normalize_assign_value. Qed.
Print Assumptions C08_normalize_assign_value.

Example C08_normalize_assign_value_ex :
  let r0 := [2 ^ 62; - 2 ^ 62; 987654321987; -1] in
  let out := normalize_assign 64 7 r0 in
  Forall (in_range 7) out /\ tor_abs 60 (val_scaled 60 7 out - val_scaled 60 7 r0) = 0.
Proof.
  intros r0 out.
  destruct (C08_normalize_assign_value 7 ltac:(lia) r0) as (_ & HB & HV).
  - repeat constructor; cbn; lia.
  - split; [exact HB|]. apply HV. cbn. lia.
Qed.

Theorem C08_lsh_assign_value : forall b : Z, 1 <= b <= 62 -> forall (k : Z) (r0 : list Z), 0 <= k -> hr62 r0 ->
  let out := lsh_assign 64 b k r0 in
  length out = length r0 /\ Forall (in_range b) out /\
  forall P, 2 * zn (length r0) * b + k <= P ->
    tor_abs P (val_scaled P b out - val_scaled (P + k) b r0) = 0.
Proof. exact lsh_assign_value. Qed.
Print Assumptions C08_lsh_assign_value.

Theorem C08_lsh_value : forall b : Z, 1 <= b <= 62 -> forall (ov : bool) (k : Z) (a r0 : list Z),
  0 <= k -> hr62 a -> (ov = false -> hr62 r0) ->
  let out := lsh 64 ov b k a r0 in
  length out = length r0 /\ (ov = true -> Forall (in_range b) out) /\
  forall P, zn (length r0) * b + zn (length a) * b + k <= P ->
    let D := tor_abs P (val_scaled P b out - (if ov then 0 else val_scaled P b r0)
                        - val_scaled (P + k) b a) in
    D <= 2 ^ (P - zn (length r0) * b) /\ (zn (length a) * b - k <= zn (length r0) * b -> D = 0).
Proof. exact lsh_value. Qed.
Print Assumptions C08_lsh_value.

Example C08_lsh_value_ex :
  let a := [2 ^ 62; -5; 123456789012; - 2 ^ 62] in
  let r0 := [11; - 2 ^ 62] in
  let out := lsh 64 false 12 17 a r0 in
  tor_abs 100 (val_scaled 100 12 out - val_scaled 100 12 r0 - val_scaled (100 + 17) 12 a) <= 2 ^ (100 - 2 * 12).
Proof.
  intros a r0 out.
  destruct (C08_lsh_value 12 ltac:(lia) false 17 a r0) as (_ & _ & HV).
  - lia.
  - repeat constructor; cbn; lia.
  - intros _. repeat constructor; cbn; lia.
  - apply (HV 100). cbn. lia.
Qed.

Theorem C08_lsh_sub_value : forall b : Z, 1 <= b <= 62 -> forall (k : Z) (a r0 : list Z),
  0 <= k -> hr62 a -> hr62 r0 ->
  let out := lsh_sub 64 b k a r0 in
  length out = length r0 /\
  forall P, zn (length r0) * b + zn (length a) * b + k <= P ->
    let D := tor_abs P (val_scaled P b out - val_scaled P b r0 + val_scaled (P + k) b a) in
    D <= 2 ^ (P - zn (length r0) * b) /\ (zn (length a) * b - k <= zn (length r0) * b -> D = 0).
Proof. exact lsh_sub_value. Qed.
Print Assumptions C08_lsh_sub_value.

Theorem C08_rsh_assign_value : forall b : Z, 1 <= b <= 62 -> forall (k : Z) (r0 : list Z), 0 <= k -> hr62 r0 ->
  let out := rsh_assign 64 b k r0 in
  length out = length r0 /\ Forall (in_range b) out /\
  forall P, 2 * zn (length r0) * b + k <= P ->
    let D := tor_abs P (val_scaled P b out - val_scaled (P - k) b r0) in
    D <= 2 ^ (P - zn (length r0) * b) /\ (k = 0 -> D = 0).
Proof. exact rsh_assign_value. Qed.
Print Assumptions C08_rsh_assign_value.

Theorem C08_rsh_ov_value : forall b : Z, 1 <= b <= 62 -> forall (k : Z) (a r0 : list Z), 0 <= k -> hr62 a ->
  let out := rsh 64 true b k a r0 in
  length out = length r0 /\ Forall (in_range b) out /\
  forall P, zn (length r0) * b + zn (length a) * b + k <= P ->
    let D := tor_abs P (val_scaled P b out - val_scaled (P - k) b a) in
    D <= 2 ^ (P - zn (length r0) * b) /\ (zn (length a) * b + k <= zn (length r0) * b -> D = 0).
Proof. exact rsh_ov_value. Qed.
Print Assumptions C08_rsh_ov_value.

Theorem C08_rsh_add_value : forall b : Z, 1 <= b <= 62 -> forall (k : Z) (a r0 : list Z),
  0 <= k -> hr62 a -> hr62 r0 ->
  let out := rsh 64 false b k a r0 in
  length out = length r0 /\
  forall P, zn (length r0) * b + zn (length a) * b + k <= P ->
    let D := tor_abs P (val_scaled P b out - val_scaled P b r0 - val_scaled (P - k) b a) in
    D <= 2 ^ (P - zn (length r0) * b) /\ (zn (length a) * b + k <= zn (length r0) * b -> D = 0).
Proof. exact rsh_add_value. Qed.
Print Assumptions C08_rsh_add_value.

Theorem C08_rsh_sub_value : forall b : Z, 1 <= b <= 62 -> forall (k : Z) (a r0 : list Z),
  0 <= k -> hr62 a -> hr62 r0 ->
  let out := rsh_sub 64 b k a r0 in
  length out = length r0 /\
  forall P, zn (length r0) * b + zn (length a) * b + k <= P ->
    let D := tor_abs P (val_scaled P b out - val_scaled P b r0 + val_scaled (P - k) b a) in
    D <= 2 ^ (P - zn (length r0) * b) /\ (zn (length a) * b + k <= zn (length r0) * b -> D = 0).
Proof. exact rsh_sub_value. Qed.
Print Assumptions C08_rsh_sub_value.

Example C08_rsh_sub_value_ex :
  let a := [2 ^ 62; -5; 123456789012; - 2 ^ 62] in
  let r0 := [11; - 2 ^ 62] in
  let out := rsh_sub 64 12 41 a r0 in
  tor_abs 120 (val_scaled 120 12 out - val_scaled 120 12 r0 + val_scaled (120 - 41) 12 a) <= 2 ^ (120 - 2 * 12).
Proof.
  intros a r0 out.
  destruct (C08_rsh_sub_value 12 ltac:(lia) 41 a r0) as (_ & HV).
  - lia.
  - repeat constructor; cbn; lia.
  - repeat constructor; cbn; lia.
  - apply (HV 120). cbn. lia.
Qed.

(* closed forms by index (the output digits are a window of the balanced expansion of the input) *)
Theorem C08_lsh_nth : forall b : Z, 1 <= b <= 62 -> forall (ov : bool) (k : Z) (a r0 : list Z),
  0 <= k -> hrl a -> (ov = false -> hrl r0) ->
  let out := lsh 64 ov b k a r0 in
  length out = length r0 /\
  forall i, (i < length r0)%nat ->
    nthZ out i = (if ov then 0 else nthZ r0 i)
                 + dgz b (vin a (k mod b)) (zn (length a) - k / b - 1 - zn i).
Proof. exact lsh_nth. Qed.
Print Assumptions C08_lsh_nth.

Theorem C08_rsh_ov_nth : forall b : Z, 1 <= b <= 62 -> forall (k : Z) (a r0 : list Z), 0 <= k -> hrl a ->
  let steps := fst (rsh_params b k) in let lsh := snd (rsh_params b k) in
  let out := rsh 64 true b k a r0 in
  length out = length r0 /\
  forall i, (i < length r0)%nat ->
    nthZ out i = dgz b (vin a lsh) (zn (length a) - (- zn steps) - 1 - zn i).
Proof. exact rsh_ov_nth. Qed.
Print Assumptions C08_rsh_ov_nth.

(* ---------------- the executable oracle never fails on the model ---------------- *)
(* `coeff_ok rb ab off keep sgn need_bal a r0 out` (Model/C08Oracle.v) is the per-coefficient statement of C08
   that check.py evaluates on the implementation's outputs: 1 = holds, 0 = fails, 2 = outside the |x| <= 2^60 guard.
   On the outputs of the same-radix models it is never 0, for every radix 1..62, size, offset and content. *)

Theorem C08_coeff_ok_normalize_inter : forall b : Z, 1 <= b <= 62 -> forall (off : Z) (a r0 : list Z),
  coeff_ok b b off 0 1 true a r0 (normalize_inter 64 b off a r0) <> 0.
Proof. exact coeff_ok_normalize_inter. Qed.
Print Assumptions C08_coeff_ok_normalize_inter.

Theorem C08_coeff_ok_normalize_assign : forall b : Z, 1 <= b <= 62 -> forall r0 : list Z,
  coeff_ok b b 0 0 1 true r0 r0 (normalize_assign 64 b r0) <> 0.
Proof. exact coeff_ok_normalize_assign. Qed.
Print Assumptions C08_coeff_ok_normalize_assign.

Theorem C08_coeff_ok_lsh_assign : forall b : Z, 1 <= b <= 62 -> forall (k : Z) (r0 : list Z), 0 <= k ->
  coeff_ok b b k 0 1 true r0 r0 (lsh_assign 64 b k r0) <> 0.
Proof. exact coeff_ok_lsh_assign. Qed.
Print Assumptions C08_coeff_ok_lsh_assign.

Theorem C08_coeff_ok_lsh : forall b : Z, 1 <= b <= 62 -> forall (ov : bool) (k : Z) (a r0 : list Z), 0 <= k ->
  coeff_ok b b k (if ov then 0 else 1) 1 ov a r0 (lsh 64 ov b k a r0) <> 0.
Proof. exact coeff_ok_lsh. Qed.
Print Assumptions C08_coeff_ok_lsh.

Theorem C08_coeff_ok_lsh_sub : forall b : Z, 1 <= b <= 62 -> forall (k : Z) (a r0 : list Z), 0 <= k ->
  coeff_ok b b k 1 (-1) false a r0 (lsh_sub 64 b k a r0) <> 0.
Proof. exact coeff_ok_lsh_sub. Qed.
Print Assumptions C08_coeff_ok_lsh_sub.

Theorem C08_coeff_ok_rsh_assign : forall b : Z, 1 <= b <= 62 -> forall (k : Z) (r0 : list Z), 0 <= k ->
  coeff_ok b b (- k) 0 1 true r0 r0 (rsh_assign 64 b k r0) <> 0.
Proof. exact coeff_ok_rsh_assign. Qed.
Print Assumptions C08_coeff_ok_rsh_assign.

Theorem C08_coeff_ok_rsh_ov : forall b : Z, 1 <= b <= 62 -> forall (k : Z) (a r0 : list Z), 0 <= k ->
  coeff_ok b b (- k) 0 1 true a r0 (rsh 64 true b k a r0) <> 0.
Proof. exact coeff_ok_rsh_ov. Qed.
Print Assumptions C08_coeff_ok_rsh_ov.

Theorem C08_coeff_ok_rsh_add : forall b : Z, 1 <= b <= 62 -> forall (k : Z) (a r0 : list Z), 0 <= k ->
  coeff_ok b b (- k) 1 1 false a r0 (rsh 64 false b k a r0) <> 0.
Proof. exact coeff_ok_rsh_add. Qed.
Print Assumptions C08_coeff_ok_rsh_add.

Theorem C08_coeff_ok_rsh_sub : forall b : Z, 1 <= b <= 62 -> forall (k : Z) (a r0 : list Z), 0 <= k ->
  coeff_ok b b (- k) 1 (-1) false a r0 (rsh_sub 64 b k a r0) <> 0.
Proof. exact coeff_ok_rsh_sub. Qed.
Print Assumptions C08_coeff_ok_rsh_sub.

(* the guard is met, so the verdict is 1, on a concrete un-normalised input *)
Example C08_coeff_ok_ex :
  coeff_ok 12 12 (-41) 1 (-1) false [2 ^ 60; -5; 123456789012; - 2 ^ 60] [11; - 2 ^ 60]
    (rsh_sub 64 12 41 [2 ^ 60; -5; 123456789012; - 2 ^ 60] [11; - 2 ^ 60]) = 1.
Proof. vm_compute. reflexivity. Qed.

(* ---------------- cross-radix normalisation: totality of the model ---------------- *)
(* the inner repacking loop of vec_znx_normalize_cross_base2k always terminates within its fuel
   (ab + rb + 4 rounds): the model never answers None, for all radices >= 1, sizes, offsets, contents *)
Theorem C08_normalize_cross_total : forall rb ab : Z, 1 <= rb -> 1 <= ab ->
  forall (off : Z) (a r0 : list Z), normalize_cross 64 rb ab off a r0 <> None.
Proof. exact normalize_cross_total. Qed.
Print Assumptions C08_normalize_cross_total.

Example C08_normalize_cross_total_ex :
  normalize_cross 64 5 12 (-7) [2 ^ 62; -5; 123456789012] [0; 0; 0; 0] <> None.
Proof. apply C08_normalize_cross_total; lia. Qed.

(* ---------------- cross-radix normalisation with a non-negative offset: the value theorem ---------------- *)
(* input radix ab, output radix rb (any pair in 1..62, equal or not), offset >= 0, un-normalised input limbs:
   the output represents a * 2^off on the torus within one unit of its last limb, exactly when it fits.
   (The output limbs of this routine are not all balanced digits; the property does not ask for it.) *)
Theorem C08_normalize_cross_value : forall rb ab : Z, 1 <= rb <= 62 -> 1 <= ab <= 62 ->
  forall (off : Z) (a r0 : list Z), 0 <= off -> hr62 a ->
  exists out, normalize_cross 64 rb ab off a r0 = Some out /\ length out = length r0 /\
    forall P, zn (length r0) * rb + zn (length a) * ab + off <= P ->
      let D := tor_abs P (val_scaled P rb out - val_scaled (P + off) ab a) in
      D <= 2 ^ (P - zn (length r0) * rb) /\ (zn (length a) * ab - off <= zn (length r0) * rb -> D = 0).
Proof. exact normalize_cross_value. Qed.
Print Assumptions C08_normalize_cross_value.

Example C08_normalize_cross_value_ex :
  exists out, normalize_cross 64 5 12 7 [2 ^ 62; -5; 123456789012] [0; 0; 0; 0] = Some out /\
    tor_abs 80 (val_scaled 80 5 out - val_scaled (80 + 7) 12 [2 ^ 62; -5; 123456789012]) <= 2 ^ (80 - 4 * 5).
Proof.
  destruct (C08_normalize_cross_value 5 12 ltac:(lia) ltac:(lia) 7 [2 ^ 62; -5; 123456789012] [0; 0; 0; 0])
    as (out & E & _ & HV).
  - lia.
  - repeat constructor; cbn; lia.
  - exists out. split; [exact E|]. apply (HV 80). cbn. lia.
Qed.

(* the oracle on the dispatcher vec_znx_normalize (record code 8101): never 0 for offset >= 0 or equal radices *)
Theorem C08_coeff_ok_normalize : forall (rb ab off : Z) (a r0 : list Z), 1 <= rb <= 62 -> 1 <= ab <= 62 ->
  0 <= off \/ rb = ab ->
  exists out, normalize 64 rb ab off a r0 = Some out /\ coeff_ok rb ab off 0 1 (rb =? ab) a r0 out <> 0.
Proof. exact coeff_ok_normalize. Qed.
Print Assumptions C08_coeff_ok_normalize.

(* what is not proved: the cross-radix routine with a negative offset (extra paths: partial fill of the top
   res limb from the a-carry, gapbits_phase, top_phase).  No counterexample on the current model: exhaustive
   vm_compute over radices 1..4 (rb <> ab), |a| <= 2, |res| <= 4, limbs in -3..3, offsets -1..-9 found none. *)
Definition normalize_cross_value_full : Prop :=
  forall rb ab : Z, 1 <= rb <= 62 -> 1 <= ab <= 62 ->
  forall (off : Z) (a r0 : list Z), hr62 a ->
  exists out, normalize_cross 64 rb ab off a r0 = Some out /\ length out = length r0 /\
    forall P, zn (length r0) * rb + zn (length a) * ab + Z.abs off <= P ->
      let D := tor_abs P (val_scaled P rb out - val_scaled (P + off) ab a) in
      D <= 2 ^ (P - zn (length r0) * rb) /\ (zn (length a) * ab - off <= zn (length r0) * rb -> D = 0).
