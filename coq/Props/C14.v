(* C14 -- blind rotation evaluates the lookup table at the encrypted index.  Pinned statements only.
   Models: Model/C14Lut.v (lookup_table_set / lookup_table_rotate / mod_switch_2n / set_xai_plus_y, transcriptions of
   poulpy-bin-fhe/src/blind_rotation/{lut.rs, algorithms/mod.rs, utils.rs}), Model/C14Blind.v (the CGGI accumulator loops of
   algorithms/cggi/algorithm.rs at the level of phases), spec notions: Model/Poly.v, Model/C14Spec.v. *)
(* C04's notions first, so that the C14 names (padd, pscale, chunks, ...) are the ones in scope below *)
From PV Require Import Model.DftAbs Model.Gadget Model.GadgetSpec Proofs.C04Phase.
From PV Require Import Base.MachineInt Model.Znx Model.Limbs Model.Ring Model.Poly
  Model.C14Lut Model.C14Spec Model.C14Blind Model.C14Run Model.C14Oracle.
From PV Require Import Proofs.C14Rotate Proofs.C14Set Proofs.C14Poly Proofs.C14Approx Proofs.C14Blind Proofs.C14Abstract Proofs.C14ModSwitch.
From PV Require Import Proofs.C14FromC04 Proofs.C14History.
Open Scope Z_scope.

(* ================= 1. interleaving the ext polynomials: a bijection onto coefficient lists of length N*ext ================= *)
Theorem C14_interleave_bijection :
  (forall (n : nat) (parts : list (list Z)),
     (0 < length parts)%nat -> Forall (fun p : list Z => length p = n) parts ->
     deinterleave (length parts) (interleave (n * length parts) parts) = parts) /\
  (forall (n e : nat) (a : list Z),
     (0 < e)%nat -> length a = (n * e)%nat ->
     interleave (n * e) (deinterleave e a) = a /\
     length (deinterleave e a) = e /\ Forall (fun p : list Z => length p = n) (deinterleave e a)).
Proof. exact interleave_bijection. Qed.
Print Assumptions C14_interleave_bijection.

(* ... under which lookup_table_rotate k is multiplication by Y^k in Z[Y]/(Y^(N*ext)+1), for EVERY integer k, every limb *)
Theorem C14_lut_rotate_is_big_ring_rotation :
  forall (m x size : nat) (data : lut) (k : Z),
    (m + x + 1 <= 62)%nat -> length data = (2 ^ x)%nat -> lut_wf (2 ^ m) size data ->
    length (lookup_table_rotate (2 ^ m) k data) = length data /\
    lut_wf (2 ^ m) size (lookup_table_rotate (2 ^ m) k data) /\
    forall l, (l < size)%nat ->
      lut_big (2 ^ m) (lookup_table_rotate (2 ^ m) k data) l = monomial_mul 64 k (lut_big (2 ^ m) data l).
Proof. exact lut_rotate_is_big_ring_rotation. Qed.
Print Assumptions C14_lut_rotate_is_big_ring_rotation.

(* the code's `((k + 2N ext) % (2N ext)) as usize`: the canonical residue for -2N ext <= k ... *)
Theorem C14_lut_rotate_index_exact :
  forall (m x : nat) (k : Z), (m + x + 1 <= 62)%nat ->
    let T := 2 * Z.of_nat (2 ^ m) * Z.of_nat (2 ^ x) in
    - T <= k < 2 ^ 62 -> lut_kpos (2 ^ m) (Z.of_nat (2 ^ x)) k = k mod T.
Proof. exact lut_kpos_exact. Qed.
Print Assumptions C14_lut_rotate_index_exact.
(* ... and congruent to k for every other k (the complement is NOT a defect: the u64 reinterpretation adds 2^64, a multiple of 2N ext) *)
Theorem C14_lut_rotate_index_congruent :
  forall (m x : nat) (k : Z), (m + x + 1 <= 62)%nat ->
    let T := 2 * Z.of_nat (2 ^ m) * Z.of_nat (2 ^ x) in
    (lut_kpos (2 ^ m) (Z.of_nat (2 ^ x)) k) mod T = k mod T.
Proof. exact lut_kpos_congruent. Qed.
Print Assumptions C14_lut_rotate_index_congruent.
Theorem C14_lut_rotate_index_wraps : lut_kpos 1 1 (-3) = 2 ^ 64 - 1 /\ (-3) mod 2 = 1.
Proof. exact lut_kpos_wraps. Qed.
Print Assumptions C14_lut_rotate_index_wraps.

(* ================= 2. set then rotate: which entry lands where ================= *)
(* every limb l, every big-ring coefficient u, every rotation k: after set(f, kmsg) and rotate(k) the table holds the limbs of
   (-1)^(t div domain) * f[(t mod domain) / step] * scale,  t = u + drift - k  (Model/C14Spec.v: selected_limbs) *)
Theorem C14_lut_set_then_rotate_table :
  forall (m x : nat) (b klut kmsg : Z) (f : list Z),
    (m + x + 1 <= 62)%nat -> 1 <= b <= 62 ->
    1 <= Z.of_nat (length f) <= Z.of_nat (2 ^ m) ->
    Z.of_nat (2 ^ m * 2 ^ x) mod Z.of_nat (length f) = 0 ->
    Forall (fun fi : Z => Z.abs (wmul 64 fi (lut_scale b kmsg)) <= 2 ^ 62) f ->
    forall (data : lut) (drift' : Z),
    lookup_table_set (2 ^ m) (2 ^ x) b klut kmsg f = Some (data, drift') ->
    forall (k : Z) (l u : nat),
    (l < Z.to_nat (div_ceil klut b))%nat -> (u < 2 ^ m * 2 ^ x)%nat ->
    nthZ (lut_big (2 ^ m) (lookup_table_rotate (2 ^ m) k data) l) u =
    nthZ (selected_limbs (Z.of_nat (2 ^ m * 2 ^ x)) (Z.of_nat (2 ^ m * 2 ^ x) / Z.of_nat (length f))
            (Z.of_nat (2 ^ m * 2 ^ x) / Z.of_nat (length f) / 2) b (Z.to_nat (div_ceil klut b))
            (Z.to_nat (div_ceil kmsg b)) (lut_scale b kmsg) f k (Z.of_nat u)) l.
Proof. exact set_then_rotate_limb. Qed.
Print Assumptions C14_lut_set_then_rotate_table.

(* coefficient 0, any rotation k (k = -j: Left, k = +j: Right) *)
Theorem C14_lut_set_then_rotate_selects :
  forall (m x : nat) (b klut kmsg : Z) (f : list Z),
    (m + x + 1 <= 62)%nat -> 1 <= b <= 62 ->
    1 <= Z.of_nat (length f) <= Z.of_nat (2 ^ m) ->
    Z.of_nat (2 ^ m * 2 ^ x) mod Z.of_nat (length f) = 0 ->
    Forall (fun fi : Z => Z.abs (wmul 64 fi (lut_scale b kmsg)) <= 2 ^ 62) f ->
    forall (data : lut) (drift' : Z),
    lookup_table_set (2 ^ m) (2 ^ x) b klut kmsg f = Some (data, drift') ->
    forall k : Z,
    coeff0 (lookup_table_rotate (2 ^ m) k data) =
    selected_limbs (Z.of_nat (2 ^ m * 2 ^ x)) (Z.of_nat (2 ^ m * 2 ^ x) / Z.of_nat (length f))
      (Z.of_nat (2 ^ m * 2 ^ x) / Z.of_nat (length f) / 2) b (Z.to_nat (div_ceil klut b)) (Z.to_nat (div_ceil kmsg b))
      (lut_scale b kmsg) f k 0.
Proof. exact set_then_rotate_selects. Qed.
Print Assumptions C14_lut_set_then_rotate_selects.

(* the property text: after rotating by -j the constant coefficient is +-f[floor((j + drift)/step) mod len] * scale (as
   normalised limbs), negated iff floor((j + drift)/domain) is odd -- every j (in particular every j in [0, 2N ext)) *)
Theorem C14_lut_set_then_rotate_selects_left :
  forall (m x : nat) (b klut kmsg : Z) (f : list Z) (data : lut) (drift' j : Z),
    let n := (2 ^ m)%nat in let ext := (2 ^ x)%nat in
    let domain := Z.of_nat (n * ext) in let len := Z.of_nat (length f) in
    let step := domain / len in let drift := step / 2 in
    let size := Z.to_nat (div_ceil klut b) in let nl := Z.to_nat (div_ceil kmsg b) in
    let scale := lut_scale b kmsg in
    (m + x + 1 <= 62)%nat -> 1 <= b <= 62 -> 1 <= len <= Z.of_nat n -> domain mod len = 0 ->
    Forall (fun fi => Z.abs (wmul 64 fi scale) <= 2 ^ 62) f ->
    lookup_table_set n ext b klut kmsg f = Some (data, drift') ->
    coeff0 (lookup_table_rotate n (- j) data) =
      let e := entry_limbs b size nl (wmul 64 (nthZ f (Z.to_nat (((j + drift) / step) mod len))) scale) in
      if Z.even ((j + drift) / domain) then e else map (wneg 64) e.
Proof. exact set_then_rotate_selects_left. Qed.
Print Assumptions C14_lut_set_then_rotate_selects_left.

(* ================= 2b. configuration histories (alloc; then set_rotation_direction / set in ANY order) ================= *)
(* Model/C14Lut.v: lstate = {data, drift, rot_dir}; `set` rewrites data and drift and leaves rot_dir alone (as lut.rs does).
   After any history from a fresh table: the direction is the one requested last (default Left) -- independent of the
   interleaved `set` calls -- and table and drift are those of the last `set`. *)
Theorem C14_history_direction_and_table :
  forall (n ext : nat) (b klut : Z) (evs : list levent) (st : lstate),
    run_events n ext b klut evs (lut_alloc n ext b klut) = Some st ->
    st_left st = last_dir evs true /\
    match last_set evs None with
    | Some kf => lookup_table_set n ext b klut (fst kf) (snd kf) = Some (st_data st, st_drift st)
    | None => st_data st = st_data (lut_alloc n ext b klut) /\ st_drift st = 0
    end.
Proof. exact history_direction_and_table. Qed.
Print Assumptions C14_history_direction_and_table.
Theorem C14_history_direction_ignores_set :
  forall (evs : list levent) (l0 : bool),
    last_dir evs l0 = last_dir (filter (fun ev => match ev with EDir _ => true | ESet _ _ => false end) evs) l0.
Proof. exact last_dir_ignores_set. Qed.
Print Assumptions C14_history_direction_ignores_set.
Theorem C14_history_last_request_wins :
  forall (evs : list levent) (l l0 : bool) (k : Z) (f : list Z),
    last_dir (evs ++ [EDir l]) l0 = l /\ last_dir (evs ++ [ESet k f]) l0 = last_dir evs l0.
Proof. exact (fun evs l l0 k f => conj (last_dir_app_dir evs l l0) (last_dir_app_set evs k f l0)). Qed.
Print Assumptions C14_history_last_request_wins.

(* ================= 3. mod_switch_2n (as repaired by /repo e75ed0e) ================= *)
(* BOTH branches, every radix 1 <= b <= 62, 2N ext = 2^t: with size = min(ceil((t+1)/b), #limbs) and tot = size*b, the integer A
   denoted by the first `size` limbs (direction sign on every limb) is rounded to t bits, ties up:
   res = floor((A + 2^(tot-t-1)) / 2^(tot-t))   [a ciphertext with no more than t bits is zero-extended: res = A * 2^(t-tot)],
   hence | res / 2^t - A / 2^tot | <= 2^-(t+1): within half a step of the torus value, and |res| <= 2N ext.
   (radix b > t+1: size = 1, the first branch of the code; otherwise its second branch.) *)
Theorem C14_mod_switch_range_and_rounding :
  forall (t b : Z) (left : bool) (ls : list (list Z)) (w : nat),
    1 <= t <= 61 -> 1 <= b <= 62 -> (0 < length ls)%nat ->
    Forall (fun l : list Z => length l = w) ls ->
    Forall (Forall (in_range b)) ls ->
    Z.min (div_ceil (t + 1) b) (Z.of_nat (length ls)) * b <= 62 ->
    exists res : list Z,
      mod_switch_2n (2 ^ t) b left ls = Some res /\ length res = w /\
      (forall i : nat, (i < w)%nat ->
         let A := limbs_int b
                    (firstn (Z.to_nat (Z.min (div_ceil (t + 1) b) (Z.of_nat (length ls))))
                       (map (fun l : list Z => if left then - nthZ l i else nthZ l i) ls)) in
         nthZ res i =
           (if t <? Z.min (div_ceil (t + 1) b) (Z.of_nat (length ls)) * b
            then (A + 2 ^ (Z.min (div_ceil (t + 1) b) (Z.of_nat (length ls)) * b - t - 1)) /
                 2 ^ (Z.min (div_ceil (t + 1) b) (Z.of_nat (length ls)) * b - t)
            else A * 2 ^ (t - Z.min (div_ceil (t + 1) b) (Z.of_nat (length ls)) * b)) /\
         Z.abs (nthZ res i * 2 ^ (Z.min (div_ceil (t + 1) b) (Z.of_nat (length ls)) * b) - A * 2 ^ t) <=
           2 ^ (Z.min (div_ceil (t + 1) b) (Z.of_nat (length ls)) * b - 1) /\
         Z.abs (nthZ res i) <= 2 ^ t).
Proof. exact mod_switch_rounds. Qed.
Print Assumptions C14_mod_switch_range_and_rounding.

(* ================= 4. set_xai_plus_y ================= *)
Theorem C14_xai_plus_y_poly :
  forall m ai y : Z, 0 <= m -> 0 <= ai < 2 * 2 ^ m ->
    let r := set_xai_plus_y (2 ^ m) ai y (zeros (Z.to_nat (2 ^ m))) in
    length (fst r) = Z.to_nat (2 ^ m) /\
    snd r = zeros (Z.to_nat (2 ^ m)) /\
    (forall j : nat, (j < Z.to_nat (2 ^ m))%nat ->
       nthZ (fst r) j =
       (if (j =? 0)%nat
        then wadd 64 (nthZ (monomial_mul 64 ai (upd (zeros (Z.to_nat (2 ^ m))) 0 1)) 0) y
        else nthZ (monomial_mul 64 ai (upd (zeros (Z.to_nat (2 ^ m))) 0 1)) j)).
Proof. exact xai_plus_y_poly. Qed.
Print Assumptions C14_xai_plus_y_poly.

(* ================= 5. the accumulator loops ================= *)
(* ---- over ABSTRACT ciphertexts, with the error term ----
   approx L M B x y  :=  x = y + E + M * J for some E, J of length L with |E|_inf <= B   (Proofs/C14Approx.v);
   M = 2^P is the torus modulus at the working precision, B the bound on the error of one external product.
   The external product enters only through `external_product_phase` (third hypothesis of each theorem), which is the
   shape of C04_external_product_phase; C14_external_product_phase_from_C04 below derives it from C04. *)

(* standard CGGI (execute_standard): with the phase equations of mul_xp_minus_one / add (C02),
   phase(acc_final) = X^(sum a_i s_i) * phase(acc_0) + E + M J,  |E|_inf <= 2 B n_lwe *)
Theorem C14_blind_rotation_phase :
  forall (ct : Type) (phase : ct -> poly) (N : nat) (M B : Z) (extprod : ct -> nat -> ct)
         (mulxp : Z -> ct -> ct) (ctadd : ct -> ct -> ct) (s : nat -> Z),
    (forall c : ct, length (phase c) = N) ->
    (forall i : nat, s i = 0 \/ s i = 1) ->
    (* external_product_phase *)
    (forall (acc : ct) (i : nat), approx N M B (phase (extprod acc i)) (pscale (s i) (phase acc))) ->
    (forall (a : Z) (c : ct), phase (mulxp a c) = xp_minus_one a (phase c)) ->
    (forall c d : ct, phase (ctadd c d) = padd (phase c) (phase d)) ->
    forall (av : list Z) (i : nat) (acc : ct),
    approx N M (2 * B * Z.of_nat (length av)) (phase (std_loop ct extprod mulxp ctadd i av acc))
      (zrot (expo s i av) (phase acc)).
Proof. exact standard_phase. Qed.
Print Assumptions C14_blind_rotation_phase.

(* block-binary (execute_block_binary): per block, the update is linear in the products taken from the accumulator at the start
   of the block (block_update_phase: DFT-domain linear algebra + final normalisation, up to Bn); at most one selected
   coefficient per block (blk_ok);  |E|_inf <= sum over blocks (2 B |block| + Bn) *)
Theorem C14_blind_rotation_phase_block_abstract :
  forall (ct : Type) (phase : ct -> poly) (N : nat) (M B Bn : Z) (extprod : ct -> nat -> ct)
         (blockupd : ct -> nat -> list Z -> ct) (s : nat -> Z),
    (0 < N)%nat -> 0 <= B ->
    (forall c : ct, length (phase c) = N) ->
    (forall i : nat, s i = 0 \/ s i = 1) ->
    (* external_product_phase *)
    (forall (acc : ct) (i : nat), approx N M B (phase (extprod acc i)) (pscale (s i) (phase acc))) ->
    (* block_update_phase *)
    (forall (acc : ct) (i : nat) (blk : list Z),
       approx N M Bn (phase (blockupd acc i blk)) (padd (phase acc) (psum N (blk_terms ct phase N extprod acc i blk)))) ->
    forall (blks : list (list Z)) (i : nat) (acc : ct),
    blk_ok s i blks ->
    approx N M (blk_bound B Bn blks) (phase (blk_loop ct blockupd i blks acc)) (zrot (blk_expo s i blks) (phase acc)).
Proof. exact block_phase. Qed.
Print Assumptions C14_blind_rotation_phase_block_abstract.

(* extended (execute_block_binary_extended): e accumulators; the statement lives in the big ring Z[Y]/(Y^(N e)+1) (zbig) *)
Theorem C14_blind_rotation_phase_extended_abstract :
  forall (ct : Type) (phase : ct -> poly) (N e : nat) (M B Bn : Z) (extprod : ct -> nat -> ct)
         (eblockupd : list ct -> nat -> list Z -> list ct) (s : nat -> Z),
    (0 < N)%nat -> (0 < e)%nat -> 0 <= B ->
    (forall c : ct, length (phase c) = N) ->
    (forall i : nat, s i = 0 \/ s i = 1) ->
    (* external_product_phase *)
    (forall (acc : ct) (i : nat), approx N M B (phase (extprod acc i)) (pscale (s i) (phase acc))) ->
    (* ext_block_update_phase *)
    (forall (accs : list ct) (i : nat) (blk : list Z), length accs = e ->
       approxv e N M Bn (phases ct phase (eblockupd accs i blk)) (ext_target ct phase N extprod accs i blk)) ->
    forall (blks : list (list Z)) (i : nat) (accs : list ct),
    length accs = e -> eblk_ok s i blks ->
    approx (N * e) M (eblk_bound B Bn blks) (zbig N (phases ct phase (eblk_loop ct eblockupd i blks accs)))
      (zrot (eblk_expo s i blks) (zbig N (phases ct phase accs))).
Proof. exact extended_phase. Qed.
Print Assumptions C14_blind_rotation_phase_extended_abstract.

(* the hypotheses of the abstract theorems are satisfiable (noise-free toy ciphertexts: M = 0, B = 0) *)
Theorem C14_abstract_hypotheses_satisfiable :
  forall (N : nat) (s : nat -> Z),
    let phase := toy_phase N in
    let extprod := fun (acc : poly) (i : nat) => pscale (s i) (phase acc) in
    let mulxp := fun (a : Z) (c : poly) => xp_minus_one a (phase c) in
    let ctadd := fun (c d : poly) => padd (phase c) (phase d) in
    (forall c, length (phase c) = N) /\
    (forall acc i, approx N 0 0 (phase (extprod acc i)) (pscale (s i) (phase acc))) /\
    (forall a c, phase (mulxp a c) = xp_minus_one a (phase c)) /\
    (forall c d, phase (ctadd c d) = padd (phase c) (phase d)).
Proof. exact standard_hypotheses_satisfiable. Qed.
Print Assumptions C14_abstract_hypotheses_satisfiable.

(* external_product_phase from C04: ciphertexts = column lists, phase = Gadget.phase_val, acc [x] BRK_i = gadget_product with a key
   K that is a GGSW encryption of the bit s.  Premises that remain: (1) C04_ggsw_cells (K encrypts const s with row errors e:
   the key-encryption statement), (2) the bound B on the explicit error polynomial gadget_err of this product (C03/C04 bound
   theorems), (3) the shape premises of C04 (every accumulator limb decomposed: a_size <= dnum * dsize). *)
Theorem C14_external_product_phase_from_C04 :
  forall (P b : Z) (n msize a_size dsize dnum : nat) (clamp : bool) (a res0 : cols_t) (K : pmat) (sk : list (list Z))
         (s B : Z) (e I : nat -> nat -> list Z),
    wf_cols n (S (length sk)) a_size a ->
    acc_shape (S (length sk)) msize clamp res0 ->
    wf_pmat_in n (dnum * S (length sk)) (msize * S (length sk)) K ->
    (1 <= n)%nat -> (1 <= dsize)%nat -> (dsize - 2 <= msize)%nat -> (a_size <= dnum * dsize)%nat ->
    (forall t : list Z, In t sk -> length t = n) ->
    (forall row ci : nat, length (e row ci) = n) -> (forall row ci : nat, length (I row ci) = n) ->
    0 <= b -> Z.of_nat msize * b <= P -> Z.of_nat dnum * Z.of_nat dsize * b <= P ->
    s = 0 \/ s = 1 ->
    C04_ggsw_cells P b n (length sk) msize dsize dnum K sk (const_poly n s) e I ->
    bounded B (gadget_err P b n (S (length sk)) (S (length sk)) msize dsize dnum (acol n a) K (sk_ext n sk) e) ->
    exists res : cols_t,
      gadget_product n (S (length sk)) msize res0 a a_size dsize dnum msize clamp K = Some res /\
      approx n (2 ^ P) B (phase_val P b n sk res) (Model.C14Blind.pscale s (phase_val P b n sk a)).
Proof. exact external_product_phase_from_C04. Qed.
Print Assumptions C14_external_product_phase_from_C04.

(* the executable phase models run by the correspondence check (noise term dropped) *)
Theorem C14_blind_rotation_phase_standard_model :
  forall (b : Z) (av sv : list Z) (lut0 : poly),
    binaryl (combine av sv) -> cggi_standard b av sv lut0 = zrot (b + dotp (combine av sv)) lut0.
Proof. exact cggi_standard_rot. Qed.
Print Assumptions C14_blind_rotation_phase_standard_model.

(* block-binary: at most one selected coefficient per block *)
Theorem C14_blind_rotation_phase_block :
  forall (n block : nat) (b : Z) (av sv : list Z) (lut0 : poly),
    (0 < n)%nat -> length lut0 = n ->
    Forall at_most_one (chunks block (combine av sv)) ->
    cggi_block n block b av sv lut0 = zrot (b + dotp (concat (chunks block (combine av sv)))) lut0.
Proof. exact cggi_block_rot. Qed.
Print Assumptions C14_blind_rotation_phase_block.
(* ... and the chunks are all the coefficients when the block size divides n_lwe (what fill_binary_block asserts);
   otherwise chunks_exact drops the tail (Model/C14Blind.v: chunks) *)
Theorem C14_chunks_cover :
  forall (bs : nat) (l : list (Z * Z)) (k : nat), (0 < bs)%nat -> length l = (k * bs)%nat -> concat (chunks bs l) = l.
Proof. exact (@chunks_concat (Z * Z)). Qed.
Print Assumptions C14_chunks_cover.

(* extended variant (as repaired by /repo acfeda9): one selected coefficient turns the ext components into those of Y^a * acc
   (ext_rot: component i = X^(a_hi+1) acc[ext-a_lo+i] for i < a_lo, X^a_hi acc[i-a_lo] otherwise), for EVERY a *)
Theorem C14_blind_rotation_phase_extended_step :
  forall (n : nat) (a : Z) (acc : list poly),
    (0 < n)%nat -> (0 < length acc)%nat -> shaped n acc ->
    map2 padd acc (ext_contrib n a 1 acc) = ext_rot n a acc.
Proof. exact ext_step_is_rotation. Qed.
Print Assumptions C14_blind_rotation_phase_extended_step.
(* ext_rot is multiplication by Y^a in the big ring Z[Y]/(Y^(N ext)+1) (zbig = interleaving of the components) *)
Theorem C14_ext_rot_is_big_ring_rotation :
  forall (n : nat) (a : Z) (acc : list poly),
    (0 < n)%nat -> (0 < length acc)%nat -> shaped n acc -> zbig n (ext_rot n a acc) = zrot a (zbig n acc).
Proof. exact zbig_ext_rot. Qed.
Print Assumptions C14_ext_rot_is_big_ring_rotation.
(* the whole loop of execute_block_binary_extended (at most one selected coefficient per block): the accumulator is
   Y^(b + sum a_i s_i) * table in the big ring ... *)
Theorem C14_blind_rotation_phase_extended :
  forall (n block : nat) (b : Z) (av sv : list Z) (lutp : list poly),
    (0 < n)%nat -> (0 < length lutp)%nat -> shaped n lutp ->
    Forall at_most_one (chunks block (combine av sv)) ->
    length (cggi_extended n block b av sv lutp) = length lutp /\
    zbig n (cggi_extended n block b av sv lutp) = zrot (b + dotp (concat (chunks block (combine av sv)))) (zbig n lutp).
Proof. exact cggi_extended_rot. Qed.
Print Assumptions C14_blind_rotation_phase_extended.
(* ... and the GLWE it returns (component 0) holds the big-ring coefficients u * ext *)
Theorem C14_blind_rotation_extended_result :
  forall (n block : nat) (b : Z) (av sv : list Z) (lutp : list poly) (u : nat),
    (0 < n)%nat -> (0 < length lutp)%nat -> shaped n lutp ->
    Forall at_most_one (chunks block (combine av sv)) -> (u < n)%nat ->
    nthZ (nth 0 (cggi_extended n block b av sv lutp) []) u =
    nthZ (zrot (b + dotp (concat (chunks block (combine av sv)))) (zbig n lutp)) (u * length lutp).
Proof. exact cggi_extended_result. Qed.
Print Assumptions C14_blind_rotation_extended_result.

(* ================= examples: the hypotheses are satisfiable, the statements are not vacuous ================= *)
(* N = 4, ext = 2, radix 4, 8-bit table, 3 message bits (scale 2), f = (1,2,3,-1): step 2, drift 1 *)
Example C14_ex_set :
  exists data, lookup_table_set 4 2 4 8 3 [1; 2; 3; -1] = Some (data, 1) /\
    lut_big 4 data 0 = [2; 4; 4; 6; 6; -2; -2; -2] /\
    coeff0 (lookup_table_rotate 4 (-3) data) = [6; 0] /\          (* j = 3: f[(3+1)/2] = f[2] = 3, times the scale 2 *)
    coeff0 (lookup_table_rotate 4 (-8) data) = [-2; 0].            (* j = 8 = domain: -f[0] *)
Proof. eexists. split; [vm_compute; reflexivity|]. vm_compute. auto. Qed.
Example C14_ex_select_hyps :
  (2 + 1 + 1 <= 62)%nat /\ 1 <= 4 <= 62 /\ 1 <= Z.of_nat (length [1; 2; 3; -1]) <= Z.of_nat (2 ^ 2) /\
  Z.of_nat (2 ^ 2 * 2 ^ 1) mod Z.of_nat (length [1; 2; 3; -1]) = 0 /\
  Forall (fun fi : Z => Z.abs (wmul 64 fi (lut_scale 4 3)) <= 2 ^ 62) [1; 2; 3; -1].
Proof. repeat split; try (cbn; lia). repeat constructor; vm_compute; discriminate. Qed.
Example C14_ex_mod_switch :
  mod_switch_2n 16 6 false [[-32; 31; 2; -2]] = Some [-8; 8; 1; 0] /\ mod_switch_2n 16 6 true [[-32; 31; 2; -2]] = Some [8; -8; 0; 1] /\
  (* second branch, the former witness: radix 5 = log2(16) + 1, torus value -1/4 -> -4 on Z_16, both directions; two limbs of radix 2 *)
  mod_switch_2n 16 5 false [[-8; 0]] = Some [-4; 0] /\ mod_switch_2n 16 5 true [[-8; 0]] = Some [4; 0] /\
  mod_switch_2n 16 2 true [[1; -2]; [-1; 1]; [1; 0]] = Some [-3; 7].
Proof. repeat split; reflexivity. Qed.
Example C14_ex_mod_switch_hyps :
  1 <= 4 <= 61 /\ 1 <= 2 <= 62 /\ Forall (Forall (in_range 2)) [[1; -2]; [-1; 1]; [1; 0]] /\
  Z.min (div_ceil (4 + 1) 2) (Z.of_nat (length [[1; -2]; [-1; 1]; [1; 0]])) * 2 <= 62.
Proof. repeat split; try (cbn; lia); repeat constructor; cbn; lia. Qed.
Example C14_ex_extended :
  cggi_extended 2 1 0 [-1] [1] [[5; 7]; [6; 8]] = [[6; 8]; [7; -5]] /\ zrot (-1) [5; 6; 7; 8] = [6; 7; 8; -5].
Proof. split; reflexivity. Qed.
Example C14_ex_history :
  exists st, run_events 4 2 4 8 [EDir false; ESet 3 [1; 2; 3; -1]; ESet 3 [0; 1; 0; 1]] (lut_alloc 4 2 4 8) = Some st /\
             st_left st = false /\ st_drift st = 1.
Proof. eexists. split; [vm_compute; reflexivity|]. split; reflexivity. Qed.
Example C14_ex_xai : fst (set_xai_plus_y 4 5 7 [0; 0; 0; 0]) = [7; -1; 0; 0] /\ snd (set_xai_plus_y 4 5 7 [0; 0; 0; 0]) = [0; 0; 0; 0].
Proof. split; reflexivity. Qed.
Example C14_ex_blind :
  cggi_standard 1 [2; 3; 5] [1; 0; 1] [1; 2; 3; 4] = zrot 8 [1; 2; 3; 4] /\
  cggi_block 4 2 1 [2; 3; 5; 7] [1; 0; 0; 1] [1; 2; 3; 4] = zrot (1 + 2 + 7) [1; 2; 3; 4] /\
  Forall at_most_one (chunks 2 (combine [2; 3; 5; 7] [1; 0; 0; 1])).
Proof. split; [reflexivity|]. split; [reflexivity|]. repeat constructor. Qed.
