(* C14 -- placeholder while the pipeline is brought up *)
From PV Require Import Base.MachineInt Model.C14Lut Model.C14Blind Model.C14Run Model.C14Oracle.
Open Scope Z_scope.
Theorem C14_placeholder : div_round 8 4 = 2.
Proof. reflexivity. Qed.
Print Assumptions C14_placeholder.
